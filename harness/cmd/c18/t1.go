package main

// `c18 t1 <repo root>` — T1: regenerate lean/GeomV/C18/Gen.lean from the CURRENT Go source.
//
// Statement-level, syntax-directed translation (go/ast) of
//   bounds.go   (*Bounds).Empty, (*Bounds).Overlaps, NewBoundsPoint;  point.go  Point.Bounds
//   encoding/osm/extract.go  hasTag, hasNeedNode/Way/Relation, processNode/Way/RelationNoCopy, Filter,
//                            processNode/Way/Relation (their calls of copyNode/Way/Relation are GenLib vocabulary)
//   encoding/osm/keep.go     KeepTags, KeepBounds, KeepAll
//   encoding/osm/check.go    Check
// into the vocabulary of lean/GeomV/C18/GenLib.lean (Ctl monad over the tuple of assigned variables, rangeS,
// whileS, GoMap, Object).  Subset: declarations `:=`, assignments to variables and to map entries of a *Data,
// `v, ok := m[k]`, if/else (with init), `for range` over slices and over the three object maps of a *Data,
// `for cond {}`, expression switch, type switch on `x.(type)` with the assertions `x.(T)` in its cases,
// return, continue, panic, lock/unlock/defer-unlock (dropped: sequential meaning), calls to the translated
// functions; a call that may panic or that mutates its receiver is allowed only as a statement, as the whole
// condition of an `if`, or as the LEFT operand of its top-level `||`/`&&` (Go evaluates it first).  Anything
// else makes the function untranslatable: it is emitted as a declaration that does not elaborate, naming the
// Go function, and the exit code is 3.

import (
	"fmt"
	"go/ast"
	"go/parser"
	"go/token"
	"os"
	"path/filepath"
	"strings"
)

type t1Err struct{ msg string }

func t1fail(f string, a ...interface{}) { panic(t1Err{fmt.Sprintf(f, a...)}) }

// how a translated function is called
type t1Sig struct {
	lean     string // Lean name
	mutating bool   // returns Except String (Data × R): receiver is threaded
	mayPanic bool   // returns Except String R
	nres     int
	extra    string // extra leading arguments ("fuel orc " ...)
}

type t1Fn struct {
	name    string
	sigma   []string
	types   map[string]string // ident -> Go type text
	subst   map[string]string // `x.(T)` text -> Lean variable
	site    int
	iter    string
	sigs    map[string]*t1Sig
	usesOrc bool
	usesFuel bool
	hasPanic bool
	named   []string // named results
	params  map[string]bool
	ncall   int
}

func typeText(e ast.Expr) string {
	switch t := e.(type) {
	case *ast.Ident:
		return t.Name
	case *ast.StarExpr:
		return "*" + typeText(t.X)
	case *ast.SelectorExpr:
		return typeText(t.X) + "." + t.Sel.Name
	case *ast.ArrayType:
		return "[]" + typeText(t.Elt)
	case *ast.MapType:
		return "map[" + typeText(t.Key) + "]" + typeText(t.Value)
	case *ast.InterfaceType:
		return "interface{}"
	case *ast.Ellipsis:
		return "..." + typeText(t.Elt)
	}
	return "?"
}

var leanTypes = map[string]string{
	"*Data": "Data", "*Node": "Node", "*Way": "Way", "*Relation": "Relation",
	"*osm.Node": "Node", "*osm.Way": "OsmWay", "*osm.Relation": "Relation",
	"KeepFunc": "KeepFunc", "bool": "Bool", "osm.NodeID": "Int", "osm.WayID": "Int", "osm.RelationID": "Int",
	"osm.Tags": "Tags", "map[string][]string": "GoMap Nat (List Nat)", "*geom.Bounds": "Bounds", "*Bounds": "Bounds",
	"Point": "Point", "geom.Point": "Point", "error": "Option String", "interface{}": "Object",
}

func leanType(goT string) string {
	if l, ok := leanTypes[goT]; ok {
		return l
	}
	t1fail("type %s outside the subset", goT)
	return ""
}

var objCtor = map[string]string{
	"*osm.Node": "osmNode", "*Node": "node", "*osm.Way": "osmWay", "*Way": "way",
	"*osm.Relation": "osmRelation", "*Relation": "relation",
}

var dataMapElem = map[string]string{"Nodes": "*Node", "Ways": "*Way", "Relations": "*Relation"}

func (f *t1Fn) pat() string {
	switch len(f.sigma) {
	case 0:
		return "()"
	case 1:
		return f.sigma[0]
	}
	return "(" + strings.Join(f.sigma, ", ") + ")"
}

// the state tuple as a lambda binder
func (f *t1Fn) bpat() string {
	if len(f.sigma) == 0 {
		return "_"
	}
	return f.pat()
}

func isLockCall(e ast.Expr) bool {
	c, ok := e.(*ast.CallExpr)
	if !ok {
		return false
	}
	s, ok := c.Fun.(*ast.SelectorExpr)
	if !ok {
		return false
	}
	switch s.Sel.Name {
	case "Lock", "Unlock", "RLock", "RUnlock":
		return strings.HasSuffix(exprStr(s.X), "MX")
	}
	return false
}

func strLit(e ast.Expr) string {
	var out string
	ast.Inspect(e, func(n ast.Node) bool {
		if b, ok := n.(*ast.BasicLit); ok && b.Kind == token.STRING && out == "" {
			out = b.Value
		}
		return true
	})
	if out == "" {
		out = `"panic"`
	}
	return out
}

// effectful call (may panic / mutates receiver) that is e itself or the left operand of e's top-level ||/&&
func (f *t1Fn) effCall(e ast.Expr) *ast.CallExpr {
	switch t := e.(type) {
	case *ast.ParenExpr:
		return f.effCall(t.X)
	case *ast.CallExpr:
		if f.isEff(t) {
			return t
		}
	case *ast.BinaryExpr:
		if t.Op == token.LOR || t.Op == token.LAND {
			return f.effCall(t.X)
		}
	}
	return nil
}

func (f *t1Fn) calleeSig(c *ast.CallExpr) *t1Sig {
	switch fn := c.Fun.(type) {
	case *ast.Ident:
		if fn.Name == "keep" && f.types["keep"] == "KeepFunc" {
			return &t1Sig{lean: "keep", mayPanic: true, nres: 1}
		}
		return f.sigs[fn.Name]
	case *ast.SelectorExpr:
		return f.sigs[fn.Sel.Name]
	}
	return nil
}

func (f *t1Fn) isEff(c *ast.CallExpr) bool {
	s := f.calleeSig(c)
	return s != nil && (s.mutating || s.mayPanic)
}

// the Lean application for a call to a translated function (receiver first)
func (f *t1Fn) callApp(c *ast.CallExpr, s *t1Sig) string {
	var args []string
	if sel, ok := c.Fun.(*ast.SelectorExpr); ok {
		if id, ok := sel.X.(*ast.Ident); !ok || (id.Name != "osm" && id.Name != "geom" && id.Name != "fmt") {
			args = append(args, f.ex(sel.X))
		}
	}
	for i, a := range c.Args {
		if s.lean == "keep" && i == 1 {
			id, ok := a.(*ast.Ident)
			if !ok {
				t1fail("keep(o, <expr>)")
			}
			ct, ok := objCtor[f.types[id.Name]]
			if !ok {
				t1fail("keep called on a value of type %s", f.types[id.Name])
			}
			args = append(args, "(Object."+ct+" "+id.Name+")")
			continue
		}
		args = append(args, f.ex(a))
	}
	return "(" + s.lean + " " + s.extra + strings.Join(args, " ") + ")"
}

func (f *t1Fn) ex(e ast.Expr) string {
	switch t := e.(type) {
	case *ast.Ident:
		switch t.Name {
		case "true", "false":
			return t.Name
		case "nil":
			return "none"
		}
		return t.Name
	case *ast.ParenExpr:
		return "(" + f.ex(t.X) + ")"
	case *ast.BasicLit:
		return t.Value
	case *ast.SelectorExpr:
		if id, ok := t.X.(*ast.Ident); ok && id.Name == "osm" {
			switch t.Sel.Name {
			case "TypeNode":
				return "MType.node"
			case "TypeWay":
				return "MType.way"
			case "TypeRelation":
				return "MType.relation"
			}
			t1fail("osm.%s", t.Sel.Name)
		}
		if t.Sel.Name == "Type" {
			return f.ex(t.X) + ".Typ"
		}
		return f.ex(t.X) + "." + t.Sel.Name
	case *ast.TypeAssertExpr:
		key := exprStr(t.X) + ".(" + typeText(t.Type) + ")"
		if v, ok := f.subst[key]; ok {
			return v
		}
		t1fail("type assertion %s outside a matching type-switch case", key)
	case *ast.UnaryExpr:
		switch t.Op {
		case token.NOT:
			return "(!" + f.ex(t.X) + ")"
		case token.AND:
			return f.ex(t.X)
		}
		t1fail("unary %s", t.Op)
	case *ast.BinaryExpr:
		isNilId := func(x ast.Expr) bool { id, ok := x.(*ast.Ident); return ok && id.Name == "nil" }
		if isNilId(t.Y) || isNilId(t.X) {
			o := t.X
			if isNilId(t.X) {
				o = t.Y
			}
			switch t.Op {
			case token.EQL:
				return "(isNil " + f.ex(o) + ")"
			case token.NEQ:
				return "(!isNil " + f.ex(o) + ")"
			}
		}
		x, y := f.ex(t.X), f.ex(t.Y)
		switch t.Op {
		case token.LOR:
			return "(" + x + " || " + y + ")"
		case token.LAND:
			return "(" + x + " && " + y + ")"
		case token.EQL:
			return "(" + x + " == " + y + ")"
		case token.NEQ:
			return "(" + x + " != " + y + ")"
		case token.LSS:
			return "(decide (" + x + " < " + y + "))"
		case token.LEQ:
			return "(decide (" + x + " ≤ " + y + "))"
		case token.GTR:
			return "(decide (" + x + " > " + y + "))"
		case token.GEQ:
			return "(decide (" + x + " ≥ " + y + "))"
		}
		t1fail("operator %s", t.Op)
	case *ast.CompositeLit:
		tt := typeText(t.Type)
		switch tt {
		case "geom.Point", "Point":
			if len(t.Elts) == 2 {
				var xs [2]string
				for i, el := range t.Elts {
					kv, ok := el.(*ast.KeyValueExpr)
					if !ok || exprStr(kv.Key) != [2]string{"X", "Y"}[i] {
						t1fail("Point literal")
					}
					xs[i] = f.ex(kv.Value)
				}
				return "(Point.mk " + xs[0] + " " + xs[1] + ")"
			}
		case "Bounds":
			if len(t.Elts) == 2 {
				if _, kv := t.Elts[0].(*ast.KeyValueExpr); !kv {
					return "(Bounds.mk " + f.ex(t.Elts[0]) + " " + f.ex(t.Elts[1]) + ")"
				}
			}
		case "empty":
			if len(t.Elts) == 0 {
				return "()"
			}
		case "Data":
			want := map[string]bool{"Nodes": true, "Ways": true, "Relations": true, "dependentNodes": true, "dependentWays": true, "dependentRelations": true}
			for _, el := range t.Elts {
				kv, ok := el.(*ast.KeyValueExpr)
				if !ok {
					t1fail("Data literal")
				}
				c, ok := kv.Value.(*ast.CallExpr)
				if !ok || exprStr(c.Fun) != "make" || len(c.Args) != 1 || !want[exprStr(kv.Key)] {
					t1fail("Data literal field %s is not a fresh map", exprStr(kv.Key))
				}
				delete(want, exprStr(kv.Key))
			}
			if len(want) == 0 {
				return "Data.empty"
			}
		}
		t1fail("composite literal %s", tt)
	case *ast.CallExpr:
		fn := exprStr(t.Fun)
		switch fn {
		case "osm.NodeID", "osm.WayID", "osm.RelationID":
			return f.ex(t.Args[0])
		case "len":
			return "(" + f.ex(t.Args[0]) + ").length"
		case "fmt.Errorf":
			return "(some " + strLit(t) + ")"
		}
		s := f.calleeSig(t)
		if s == nil {
			t1fail("call of %s", fn)
		}
		if s.mutating || s.mayPanic {
			t1fail("call of %s (may panic / mutates its receiver) in a position where Go's evaluation order is not reproduced", fn)
		}
		return f.callApp(t, s)
	}
	t1fail("expression %T", e)
	return ""
}

// expression with its effectful call (if any) hoisted: returns wrapper prefix/suffix and the pure expression
func (f *t1Fn) hoist(e ast.Expr, ind string) (pre, post, pure string) {
	c := f.effCall(e)
	if c == nil {
		return "", "", f.ex(e)
	}
	s := f.calleeSig(c)
	app := f.callApp(c, s)
	// replace the call by a fresh variable: temporarily register a pure signature under a marker
	f.ncall++
	res := "call_" + fmt.Sprint(f.ncall)
	pure = f.exRepl(e, c, res)
	if s.mutating {
		recv := exprStr(c.Fun.(*ast.SelectorExpr).X)
		return "Ctl.call " + app + " (fun (" + recv + ", " + res + ") =>\n" + ind, ")", pure
	}
	return "Ctl.call " + app + " (fun " + res + " =>\n" + ind, ")", pure
}

func (f *t1Fn) exRepl(e ast.Expr, c *ast.CallExpr, v string) string {
	switch t := e.(type) {
	case *ast.ParenExpr:
		return "(" + f.exRepl(t.X, c, v) + ")"
	case *ast.CallExpr:
		if t == c {
			return v
		}
	case *ast.BinaryExpr:
		op := " || "
		if t.Op == token.LAND {
			op = " && "
		}
		return "(" + f.exRepl(t.X, c, v) + op + f.ex(t.Y) + ")"
	}
	t1fail("hoisting")
	return ""
}

func lhsName(e ast.Expr) string {
	if id, ok := e.(*ast.Ident); ok {
		return id.Name
	}
	t1fail("left-hand side %s", exprStr(e))
	return ""
}

// term for list[i:]
func (f *t1Fn) block(list []ast.Stmt, i int, ind string) string {
	if i >= len(list) {
		return "Ctl.fall " + f.pat()
	}
	rest := func() string { return f.block(list, i+1, ind) }
	// control statement c followed by the rest
	seq := func(c string) string {
		if i+1 >= len(list) {
			return c
		}
		return "Ctl.bind (" + c + ") (fun " + f.bpat() + " =>\n" + ind + f.block(list, i+1, ind) + ")"
	}
	switch s := list[i].(type) {
	case *ast.DeferStmt:
		if isLockCall(s.Call) {
			return rest()
		}
		t1fail("defer")
	case *ast.ExprStmt:
		if isLockCall(s.X) {
			return rest()
		}
		c, ok := s.X.(*ast.CallExpr)
		if !ok {
			t1fail("expression statement")
		}
		if exprStr(c.Fun) == "panic" {
			f.hasPanic = true
			return "Ctl.panic " + strLit(c)
		}
		sg := f.calleeSig(c)
		if sg == nil {
			t1fail("call of %s", exprStr(c.Fun))
		}
		if sg.mutating {
			recv := exprStr(c.Fun.(*ast.SelectorExpr).X)
			return "Ctl.call " + f.callApp(c, sg) + " (fun (" + recv + ", _) =>\n" + ind + rest() + ")"
		}
		t1fail("call statement %s", exprStr(c.Fun))
	case *ast.ReturnStmt:
		switch len(s.Results) {
		case 0:
			return "Ctl.ret () " + f.pat()
		case 1:
			if _, isF := s.Results[0].(*ast.FuncLit); isF {
				t1fail("closure")
			}
			pre, post, pure := f.hoist(s.Results[0], ind)
			return pre + "Ctl.ret " + pure + " " + f.pat() + post
		}
		t1fail("return of %d values", len(s.Results))
	case *ast.BranchStmt:
		if s.Tok == token.CONTINUE && s.Label == nil {
			return "Ctl.cont " + f.pat()
		}
		t1fail("branch %s", s.Tok)
	case *ast.AssignStmt:
		return f.assign(s, ind) + "\n" + ind + rest()
	case *ast.IfStmt:
		return seq(f.ifStmt(s, ind+"  "))
	case *ast.RangeStmt:
		return seq(f.rangeStmt(s, ind+"  "))
	case *ast.ForStmt:
		if s.Init != nil || s.Post != nil || s.Cond == nil {
			t1fail("for loop other than `for cond {}`")
		}
		f.usesFuel = true
		old := f.iter
		f.iter = "iter_"
		body := f.block(s.Body.List, 0, ind+"    ")
		f.iter = old
		return seq("whileS (fun " + f.bpat() + " => " + f.ex(s.Cond) + ") (fun iter_ " + f.bpat() + " =>\n" + ind + "    " + body + ") fuel 0 " + f.pat())
	case *ast.SwitchStmt:
		if s.Init != nil || s.Tag == nil {
			t1fail("switch form")
		}
		tag := f.ex(s.Tag)
		var def []ast.Stmt
		hasDef := false
		out := ""
		closeN := 0
		for _, cc := range s.Body.List {
			cl := cc.(*ast.CaseClause)
			if cl.List == nil {
				def, hasDef = cl.Body, true
				continue
			}
			var cs []string
			for _, v := range cl.List {
				cs = append(cs, "("+tag+" == "+f.ex(v)+")")
			}
			for _, b := range cl.Body {
				if br, ok := b.(*ast.BranchStmt); ok && br.Tok == token.FALLTHROUGH {
					t1fail("fallthrough")
				}
			}
			out += "if " + strings.Join(cs, " || ") + " then (\n" + ind + "  " + f.block(cl.Body, 0, ind+"  ") + ")\n" + ind + "else "
			closeN++
		}
		if hasDef {
			out += "(" + f.block(def, 0, ind+"  ") + ")"
		} else {
			out += "(Ctl.fall " + f.pat() + ")"
		}
		return seq(out)
	case *ast.TypeSwitchStmt:
		es, ok := s.Assign.(*ast.ExprStmt)
		if !ok || s.Init != nil {
			t1fail("type switch with a binding")
		}
		ta := es.X.(*ast.TypeAssertExpr)
		subj := exprStr(ta.X)
		out := "match " + subj + " with"
		var def []ast.Stmt
		hasDef := false
		n := 0
		for _, cc := range s.Body.List {
			cl := cc.(*ast.CaseClause)
			if cl.List == nil {
				def, hasDef = cl.Body, true
				continue
			}
			if len(cl.List) != 1 {
				t1fail("type-switch case with several types")
			}
			tt := typeText(cl.List[0])
			ct, ok := objCtor[tt]
			if !ok {
				t1fail("type-switch case %s", tt)
			}
			n++
			v := subj + "_" + ct
			key := subj + ".(" + tt + ")"
			f.subst[key] = v
			f.types[v] = tt
			out += "\n" + ind + "| Object." + ct + " " + v + " => (\n" + ind + "    " + f.block(cl.Body, 0, ind+"    ") + ")"
			delete(f.subst, key)
		}
		out += "\n" + ind + "| _ => ("
		if hasDef {
			out += f.block(def, 0, ind+"    ") + ")"
		} else {
			out += "Ctl.fall " + f.pat() + ")"
		}
		return seq(out)
	}
	t1fail("statement %T", list[i])
	return ""
}

// `let …;` for a declaration or assignment
func (f *t1Fn) assign(s *ast.AssignStmt, ind string) string {
	if s.Tok != token.DEFINE && s.Tok != token.ASSIGN {
		t1fail("assignment operator %s", s.Tok)
	}
	name := func(e ast.Expr) string {
		n := lhsName(e)
		if n == "_" {
			return "_"
		}
		return n
	}
	if len(s.Lhs) == 2 && len(s.Rhs) == 1 {
		if ix, ok := s.Rhs[0].(*ast.IndexExpr); ok {
			return "let (" + name(s.Lhs[0]) + ", " + name(s.Lhs[1]) + ") := GoMap.get2 " + f.ex(ix.X) + " " + f.ex(ix.Index) + ";"
		}
		if c, ok := s.Rhs[0].(*ast.CallExpr); ok {
			sg := f.calleeSig(c)
			if sg != nil && !sg.mutating && !sg.mayPanic && sg.nres == 2 {
				return "let (" + name(s.Lhs[0]) + ", " + name(s.Lhs[1]) + ") := " + f.callApp(c, sg) + ";"
			}
		}
		t1fail("two-value assignment from %s", exprStr(s.Rhs[0]))
	}
	if len(s.Lhs) != 1 || len(s.Rhs) != 1 {
		t1fail("parallel assignment")
	}
	if ix, ok := s.Lhs[0].(*ast.IndexExpr); ok { // o.Nodes[k] = v
		sel, ok := ix.X.(*ast.SelectorExpr)
		if !ok || s.Tok != token.ASSIGN {
			t1fail("indexed assignment")
		}
		root := lhsName(sel.X)
		if f.types[root] != "*Data" {
			t1fail("map write through %s", root)
		}
		fld := sel.Sel.Name
		return "let " + root + " := { " + root + " with " + fld + " := GoMap.set " + root + "." + fld + " " + f.ex(ix.Index) + " " + f.ex(s.Rhs[0]) + " };"
	}
	n := name(s.Lhs[0])
	if s.Tok == token.DEFINE {
		if ta, ok := s.Rhs[0].(*ast.TypeAssertExpr); ok {
			f.types[n] = typeText(ta.Type)
		}
		if id, ok := s.Rhs[0].(*ast.Ident); ok && (id.Name == "true" || id.Name == "false") {
			f.types[n] = "bool"
		}
		if u, ok := s.Rhs[0].(*ast.UnaryExpr); ok && u.Op == token.AND {
			if cl, ok := u.X.(*ast.CompositeLit); ok {
				f.types[n] = "*" + typeText(cl.Type)
			}
		}
	}
	return "let " + n + " := " + f.ex(s.Rhs[0]) + ";"
}

func (f *t1Fn) ifStmt(s *ast.IfStmt, ind string) string {
	out := ""
	if s.Init != nil {
		as, ok := s.Init.(*ast.AssignStmt)
		if !ok {
			t1fail("if init")
		}
		out += f.assign(as, ind) + "\n" + ind
	}
	pre, post, cond := f.hoist(s.Cond, ind)
	out += pre + "if " + cond + " then (\n" + ind + "  " + f.block(s.Body.List, 0, ind+"  ") + ")\n" + ind + "else ("
	switch e := s.Else.(type) {
	case nil:
		out += "Ctl.fall " + f.pat()
	case *ast.BlockStmt:
		out += f.block(e.List, 0, ind+"  ")
	case *ast.IfStmt:
		out += f.ifStmt(e, ind+"  ")
	default:
		t1fail("else form")
	}
	return out + ")" + post
}

func (f *t1Fn) rangeStmt(s *ast.RangeStmt, ind string) string {
	if s.Tok != token.DEFINE {
		t1fail("range without :=")
	}
	k, v := "_", "_"
	if s.Key != nil {
		k = lhsName(s.Key)
	}
	if s.Value != nil {
		v = lhsName(s.Value)
	}
	list := f.ex(s.X)
	pat := v
	lets := ""
	if sel, ok := s.X.(*ast.SelectorExpr); ok {
		if id, ok := sel.X.(*ast.Ident); ok && f.types[id.Name] == "*Data" {
			et, ok := dataMapElem[sel.Sel.Name]
			if !ok {
				t1fail("range over %s", exprStr(s.X))
			}
			f.usesOrc = true
			list = fmt.Sprintf("(mapOrder orc %s %d %s)", f.iter, f.site, list)
			f.site++
			pat = "kv_"
			if k != "_" {
				lets += "let " + k + " := kv_.1;\n" + ind + "  "
			}
			if v != "_" {
				lets += "let " + v + " := kv_.2;\n" + ind + "  "
				f.types[v] = et
			}
			k = "_"
		}
	}
	if k != "_" {
		t1fail("range with an index variable over a slice")
	}
	body := f.block(s.Body.List, 0, ind+"  ")
	return "rangeS " + list + " (fun " + pat + " " + f.bpat() + " =>\n" + ind + "  " + lets + body + ") " + f.pat()
}

// variables assigned in the body (σ)
func (f *t1Fn) collectSigma(fd *ast.FuncType, recv *ast.FieldList, body *ast.BlockStmt) {
	seen := map[string]bool{}
	add := func(n string) {
		if n != "_" && !seen[n] {
			seen[n] = true
			f.sigma = append(f.sigma, n)
		}
	}
	var mut []string
	ast.Inspect(body, func(n ast.Node) bool {
		switch t := n.(type) {
		case *ast.FuncLit:
			return false
		case *ast.AssignStmt:
			if t.Tok == token.ASSIGN {
				for _, l := range t.Lhs {
					switch x := l.(type) {
					case *ast.Ident:
						mut = append(mut, x.Name)
					case *ast.IndexExpr:
						if sel, ok := x.X.(*ast.SelectorExpr); ok {
							if id, ok := sel.X.(*ast.Ident); ok {
								mut = append(mut, id.Name)
							}
						}
					}
				}
			}
		case *ast.CallExpr:
			if s := f.calleeSig(t); s != nil && s.mutating {
				mut = append(mut, exprStr(t.Fun.(*ast.SelectorExpr).X))
			}
		}
		return true
	})
	isMut := map[string]bool{}
	for _, m := range mut {
		isMut[m] = true
	}
	if recv != nil {
		for _, p := range recv.List {
			for _, n := range p.Names {
				if isMut[n.Name] {
					add(n.Name)
				}
			}
		}
	}
	for _, p := range fd.Params.List {
		for _, n := range p.Names {
			if isMut[n.Name] {
				add(n.Name)
			}
		}
	}
	if fd.Results != nil {
		for _, p := range fd.Results.List {
			for _, n := range p.Names {
				add(n.Name)
				f.named = append(f.named, n.Name)
				f.types[n.Name] = typeText(p.Type)
			}
		}
	}
	for _, m := range mut {
		add(m)
	}
}

func containsPanicOrEff(f *t1Fn, body *ast.BlockStmt) bool {
	found := false
	ast.Inspect(body, func(n ast.Node) bool {
		if c, ok := n.(*ast.CallExpr); ok {
			if exprStr(c.Fun) == "panic" || f.isEff(c) {
				found = true
			}
		}
		return true
	})
	return found
}

// translate one top-level function; returns the Lean text and registers its signature
func t1Func(fd *ast.FuncDecl, sigs map[string]*t1Sig, leanName string) string {
	f := &t1Fn{name: fd.Name.Name, types: map[string]string{}, subst: map[string]string{}, iter: "0", sigs: sigs, params: map[string]bool{}}
	var params []string
	recvData := ""
	addParams := func(fl *ast.FieldList) {
		if fl == nil {
			return
		}
		for _, p := range fl.List {
			tt := typeText(p.Type)
			for _, n := range p.Names {
				f.types[n.Name] = tt
				f.params[n.Name] = true
				params = append(params, "("+n.Name+" : "+leanType(tt)+")")
			}
		}
	}
	addParams(fd.Recv)
	if fd.Recv != nil && typeText(fd.Recv.List[0].Type) == "*Data" {
		recvData = fd.Recv.List[0].Names[0].Name
	}
	addParams(fd.Type.Params)
	sig := &t1Sig{lean: leanName}
	if fd.Type.Results != nil {
		for _, r := range fd.Type.Results.List {
			if len(r.Names) == 0 {
				sig.nres++
			} else {
				sig.nres += len(r.Names)
			}
		}
	}
	// closure-returning function: `return func(...) bool { … }`
	if len(fd.Body.List) == 1 {
		if rs, ok := fd.Body.List[0].(*ast.ReturnStmt); ok && len(rs.Results) == 1 {
			if fl, ok := rs.Results[0].(*ast.FuncLit); ok {
				var cps []string
				for _, p := range fl.Type.Params.List {
					tt := typeText(p.Type)
					for _, n := range p.Names {
						if n.Name != "_" {
							f.types[n.Name] = tt
						}
						cps = append(cps, n.Name)
					}
				}
				body := f.block(fl.Body.List, 0, "    ")
				sigs[fd.Name.Name] = sig
				return fmt.Sprintf("def %s %s : KeepFunc := fun %s =>\n  Ctl.value (σ := Unit) (\n    %s)\n",
					leanName, strings.Join(params, " "), strings.Join(cps, " "), body)
			}
			// single `return e`
			if !containsPanicOrEff(f, fd.Body) && sig.nres == 1 {
				sigs[fd.Name.Name] = sig
				return fmt.Sprintf("def %s %s : %s :=\n  %s\n", leanName, strings.Join(params, " "),
					leanType(typeText(fd.Type.Results.List[0].Type)), f.ex(rs.Results[0]))
			}
		}
	}
	f.collectSigma(fd.Type, fd.Recv, fd.Body)
	body := f.block(fd.Body.List, 0, "    ")
	mutRecv := recvData != "" && len(f.sigma) > 0 && f.sigma[0] == recvData
	mayPanic := f.hasPanic || containsPanicOrEff(f, fd.Body)
	extra := ""
	if f.usesFuel {
		extra += "(fuel : Nat) "
		sig.extra += "fuel "
	}
	if f.usesOrc {
		extra += "(orc : Oracle) "
		sig.extra += "orc "
	}
	// initial values of the σ variables that are not parameters
	init := ""
	for _, v := range f.sigma {
		if !f.params[v] {
			ty := "_"
			if t, ok := f.types[v]; ok {
				ty = leanType(t)
			}
			init += "  let " + v + " : " + ty + " := default;\n"
		}
	}
	var sigTypes []string
	for _, v := range f.sigma {
		if t, ok := f.types[v]; ok {
			sigTypes = append(sigTypes, leanType(t))
		} else {
			sigTypes = append(sigTypes, "_")
		}
	}
	sigT := "Unit"
	if len(sigTypes) > 0 {
		sigT = strings.Join(sigTypes, " × ")
	}
	head := "def " + leanName + " " + extra + strings.Join(params, " ")
	sigs[fd.Name.Name] = sig
	switch {
	case mutRecv:
		sig.mutating = true
		res := "()"
		resT := "Unit"
		if len(f.named) == 1 {
			res, resT = f.named[0], leanType(f.types[f.named[0]])
		} else if len(f.named) > 1 || (sig.nres > 0 && len(f.named) == 0) {
			t1fail("result form of a mutating method")
		}
		return fmt.Sprintf("%s : Except String (Data × %s) :=\n%s  (Ctl.stateE (ρ := Unit) (σ := %s) (\n    %s)).map (fun %s => (%s, %s))\n",
			head, resT, init, sigT, body, f.pat(), recvData, res)
	case len(f.named) > 0:
		if mayPanic {
			t1fail("named results with panic")
		}
		var ts []string
		for _, n := range f.named {
			ts = append(ts, leanType(f.types[n]))
		}
		if len(f.sigma) != len(f.named) {
			t1fail("named results plus other assigned variables")
		}
		return fmt.Sprintf("%s : %s :=\n%s  Ctl.stateD (ρ := Unit) (σ := %s) (\n    %s)\n", head, strings.Join(ts, " × "), init, sigT, body)
	default:
		if sig.nres != 1 {
			t1fail("result form")
		}
		rt := leanType(typeText(fd.Type.Results.List[0].Type))
		if mayPanic {
			sig.mayPanic = true
			return fmt.Sprintf("%s : Except String %s :=\n%s  Ctl.value (σ := %s) (\n    %s)\n", head, rt, init, sigT, body)
		}
		return fmt.Sprintf("%s : %s :=\n%s  Ctl.total (σ := %s) (\n    %s)\n", head, rt, init, sigT, body)
	}
}

func contains(l []string, s string) bool {
	for _, x := range l {
		if x == s {
			return true
		}
	}
	return false
}

type t1Item struct{ file, recv, name, lean string }

func t1Main(args []string) {
	if len(args) != 1 {
		fmt.Fprintln(os.Stderr, "usage: c18 t1 <repo root>")
		os.Exit(2)
	}
	root := args[0]
	items := []t1Item{
		{"bounds.go", "Bounds", "Empty", "Bounds.Empty"},
		{"bounds.go", "Bounds", "Overlaps", "Bounds.Overlaps"},
		{"bounds.go", "", "NewBoundsPoint", "NewBoundsPoint"},
		{"point.go", "Point", "Bounds", "Point.Bounds"},
		{"encoding/osm/extract.go", "", "hasTag", "hasTag"},
		{"encoding/osm/extract.go", "Data", "hasNeedNode", "hasNeedNode"},
		{"encoding/osm/extract.go", "Data", "hasNeedWay", "hasNeedWay"},
		{"encoding/osm/extract.go", "Data", "hasNeedRelation", "hasNeedRelation"},
		{"encoding/osm/keep.go", "", "KeepTags", "KeepTags"},
		{"encoding/osm/keep.go", "", "KeepBounds", "KeepBounds"},
		{"encoding/osm/keep.go", "", "KeepAll", "KeepAll"},
		{"encoding/osm/extract.go", "Data", "processNodeNoCopy", "processNodeNoCopy"},
		{"encoding/osm/extract.go", "Data", "processWayNoCopy", "processWayNoCopy"},
		{"encoding/osm/extract.go", "Data", "processRelationNoCopy", "processRelationNoCopy"},
		{"encoding/osm/extract.go", "Data", "Filter", "Filter"},
		{"encoding/osm/extract.go", "Data", "processNode", "processNode"},
		{"encoding/osm/extract.go", "Data", "processWay", "processWay"},
		{"encoding/osm/extract.go", "Data", "processRelation", "processRelation"},
		{"encoding/osm/check.go", "Data", "Check", "Check"},
	}
	fset := token.NewFileSet()
	files := map[string]*ast.File{}
	var out strings.Builder
	out.WriteString("import GeomV.C18.GenLib\n/-! REGENERATED by `c18 t1` (harness/cmd/c18/t1.go) from the Go source of the tree under test. Do not edit. -/\n")
	out.WriteString("set_option linter.unusedVariables false\nnamespace GeomV.C18.Gen\n\n")
	sigs := map[string]*t1Sig{}
	// vocabulary of GenLib.lean (not translated: struct literal + make + indexed stores): the three copy functions
	for _, c := range []string{"copyNode", "copyWay", "copyRelation"} {
		sigs[c] = &t1Sig{lean: c, nres: 1}
	}
	// method-name keyed signatures: `X.Bounds()` on a Point and `b.Empty()`
	var bad []string
	for _, it := range items {
		af, ok := files[it.file]
		if !ok {
			var err error
			af, err = parser.ParseFile(fset, filepath.Join(root, it.file), nil, 0)
			if err != nil {
				fmt.Fprintln(os.Stderr, err)
				os.Exit(1)
			}
			files[it.file] = af
		}
		var fd *ast.FuncDecl
		for _, d := range af.Decls {
			if x, ok := d.(*ast.FuncDecl); ok && x.Name.Name == it.name {
				rt := ""
				if x.Recv != nil {
					rt = strings.TrimPrefix(typeText(x.Recv.List[0].Type), "*")
				}
				if rt == it.recv {
					fd = x
				}
			}
		}
		txt := ""
		func() {
			defer func() {
				if r := recover(); r != nil {
					e, ok := r.(t1Err)
					if !ok {
						panic(r)
					}
					bad = append(bad, it.name+": "+e.msg)
					txt = fmt.Sprintf("theorem untranslatable_%s : %q = \"\" := by decide\n", strings.ReplaceAll(it.lean, ".", "_"),
						"Go function "+it.name+" left the translatable subset: "+e.msg)
				}
			}()
			if fd == nil {
				t1fail("function not found in %s", it.file)
			}
			txt = fmt.Sprintf("/-- %s: `%s` -/\n", it.file, it.name) + t1Func(fd, sigs, it.lean)
		}()
		out.WriteString(txt + "\n")
	}
	out.WriteString("end GeomV.C18.Gen\n")
	fmt.Print(out.String())
	if len(bad) > 0 {
		fmt.Fprintln(os.Stderr, strings.Join(bad, "\n"))
		os.Exit(3)
	}
}
