package main

import (
	"bufio"
	"fmt"
	"os"
	"strings"

	"verif/harness/vproto"
)

type bufioWriter = bufio.Writer

var keeps = []string{"bounds:0,0,2,2", "tags:1=1", "all"}

// boundsCorpus: the selection "by bounds" is a CLOSED rectangle: nodes exactly on each of the four
// edges and corners, one-point / zero-width / zero-height / inverted rectangles, and ways whose
// only contact with the rectangle is a node on an edge.
var boundsCorpus = [][2]string{
	{"bounds:1,1,3,3", "n1:3,2:- n2:5,2:- w1:1,2:- n3:2,3:- n4:2,5:- w2:3,4:- n5:1,2:- n6:2,1:- n7:0,2:- n8:2,0:-"},
	{"bounds:1,1,3,3", "w1:1,2:- n1:3,3:- n2:4,4:- r1:w1:-"},
	{"bounds:1,1,3,3", "n1:1,1:- n2:3,1:- n3:1,3:- n4:3,3:- n5:0,0:- n6:4,4:- n7:4,3:- n8:3,4:- n9:0,1:- n10:1,0:-"},
	{"bounds:1,1,3,3", "n1:3,0:- n2:3,4:- n3:0,3:- n4:4,3:- w1:1,2:- w2:3,4:-"},
	{"bounds:2,2,2,2", "n1:2,2:- n2:2,3:- n3:3,2:- n4:1,2:- n5:2,1:- w1:1,2:- w2:3,4:-"},
	{"bounds:2,0,2,4", "n1:2,0:- n2:2,4:- n3:2,2:- n4:1,2:- n5:3,2:- n6:2,5:- w1:4,1:- w2:5,6:-"},
	{"bounds:0,2,4,2", "n1:0,2:- n2:4,2:- n3:2,2:- n4:2,1:- n5:2,3:- n6:5,2:- w1:4,1:- w2:5,6:-"},
	{"bounds:3,3,1,1", "n1:2,2:- n2:1,1:- n3:3,3:- w1:1,2:-"},
	{"bounds:1,3,3,1", "n1:2,2:- n2:1,1:- w1:1,2:-"},
	{"bounds:-2,-2,0,0", "n1:0,0:- n2:-2,-2:- n3:0,-3:- n4:1,0:- n5:-2,0:- w1:3,1:- w2:4,3:-"},
	{"bounds:0,0,4,4", "n1:0,0:- n2:4,4:- n3:5,5:- w1:3,2:- w2:3,3:-"},
}

// corpus: hand-picked small documents (each is run with every keep function)
var corpus = []string{
	// DESIGN 1.1 (i): ways before their nodes, sequentially incomplete on the unfixed loop condition
	"w1:1,2:- r1:w1,n3:- n1:1,1:- n2:5,5:- n3:5,5:-",
	// same objects, nodes first
	"n1:1,1:- n2:5,5:- n3:5,5:- w1:1,2:- r1:w1,n3:-",
	// minimal: way before its only in-bounds node
	"w1:1,2:- n1:1,1:- n2:5,5:-",
	"n1:1,1:- w1:1:-",
	"w1:1:1=1 n1:5,5:-",
	// two ways sharing a node; only one way touches the bounds
	"n1:1,1:- n2:5,5:- n3:5,5:- w1:1,2:- w2:2,3:-",
	"w2:2,3:- w1:1,2:- n3:5,5:- n2:5,5:- n1:1,1:-",
	// relation cycle and relation of relations, relations first
	"r1:r2:1=1 r2:r1,w1:- w1:1,2:- n1:5,5:- n2:5,5:-",
	"r3:r3:1=1 n1:1,1:-",
	"r1:r2:- r2:r3:- r3:n1:- n1:1,1:1=1",
	"r1:r2:- r2:r3:- r3:n1:- n1:5,5:1=1",
	// tagged node only; tag with other value / other key
	"n1:5,5:1=1 n2:5,5:1=2 n3:5,5:2=1 w1:2,3:-",
	// empty way and empty relation
	"w1:-:1=1 r1:-:1=1 n1:1,1:-",
	// long chain through shared nodes (needs many passes when file order is adverse)
	"w4:4,5:- w3:3,4:- w2:2,3:- w1:1,2:- n5:5,5:- n4:5,5:- n3:5,5:- n2:5,5:- n1:1,1:-",
	"n1:1,1:- n2:5,5:- n3:5,5:- n4:5,5:- n5:5,5:- w1:1,2:- w2:2,3:- w3:3,4:- w4:4,5:-",
	// relation holding a way that is otherwise not selected, way's nodes after it
	"r1:w1:1=1 w1:1,2:- n1:5,5:- n2:5,5:-",
	"n2:5,5:- n1:5,5:- w1:1,2:- r1:w1:1=1",
	// way repeated node refs (closed way)
	"n1:1,1:- n2:5,5:- w1:1,2,1:1=1",
	// nothing selected
	"n1:5,5:- n2:5,5:- w1:1,2:- r1:w1:-",
}

var danglingCorpus = []string{
	// an absent id shared by a selected and an unselected object: needed for ever, never stored
	"n1:1,1:1=1 r5:n1,r900:1=1 r6:r900:-",
	"r6:r900:- r5:n1,r900:1=1 n1:1,1:1=1",
	"n1:1,1:1=1 w5:1,900:1=1 w6:900:- r7:w901,n1:1=1 r8:w901:-",
	"r8:n900:- r7:n1,n900:- w6:900,901:- n1:1,1:1=1",
	"n1:1,1:- w1:1,9:1=1",
	"w1:1,9:1=1 n1:1,1:-",
	"r1:w7,n1:1=1 n1:5,5:-",
	"r1:r9:1=1",
	"n1:1,1:- w1:1,2:- n2:5,5:- r1:w1,w5:-",
}

// idCorpus: ids outside 0..2^40-1 (negative: editor files; >= 2^40), also id and -id side by side, id 0
var idCorpus = []string{
	"n-1:1,1:- n-2:1,1:- n-3:5,5:- w-10:-1,-2:- r-20:w-10:- r-21:n-3,r-20:1=1",
	"r-21:n-3,r-20:1=1 r-20:w-10:- w-10:-1,-2:- n-3:5,5:- n-2:1,1:- n-1:1,1:-",
	"n1099511627777:1,1:- w1099511627786:1099511627777:- r1099511627797:w1099511627786,n1099511627777:1=1",
	"n1:1,1:- n-1:5,5:- w1:-1:1=1 w-1:1:- r1:n1,w-1:- r-1:r1,n-1:1=1",
	"n0:1,1:- w0:0:1=1 r0:n0,w0,r0:1=1",
	"n72057594037927937:1,1:1=1 r-1099511627777:n72057594037927937:- r5:r-1099511627777:1=1",
}

// tagCorpus: the empty tag value, a key carried twice (matching value first / not first), value listed explicitly
var tagCorpus = [][2]string{
	{"tags:1=", "n1:1,1:- n2:1,1:- w10:1,2:1=0"},
	{"tags:1=0", "n1:1,1:- n2:1,1:- w10:1,2:1=0 w11:1:1=1"},
	{"tags:1=2", "n1:1,1:1=1;1=2 n2:1,1:1=2;1=1 w10:1,2:1=1;2=2"},
	{"tags:1=0|2", "n1:1,1:1=1;1=0 n2:1,1:1=3;1=2 n3:1,1:1=1;1=3 r1:n3:1=0;1=1"},
	{"tags:2=;1=1", "n1:1,1:2=0 n2:1,1:1=0 n3:1,1:1=2;1=1 w1:2,3:-"},
	// wanted key / value is a proper prefix of the object's key / value, and the other way round
	{"tags:1=1", "n1:1,1:1=12 n2:1,1:12=1 n3:1,1:1=1 w1:1,2:12=12"},
	{"tags:12=12", "n1:1,1:1=12 n2:1,1:12=1 n3:1,1:1=1 w1:1,2:12=12"},
	{"tags:1=", "n1:1,1:12=1 n2:1,1:2=1 w1:1,2:12=0"},
}

type docGen struct {
	r         *vproto.Rng
	lo, hi    int  // node coordinates are integers in [lo, hi]
	emptyVals bool // tags with the empty value
}

// boundsTok picks a rectangle on the node grid [lo,hi]^2: its edges pass exactly through node
// coordinates; between about 10% and 60% of the grid points are inside for the proper boxes.
func (g docGen) boundsTok() string {
	r := g.r
	switch r.Intn(10) {
	case 0: // one point
		x, y := r.Range(g.lo, g.hi), r.Range(g.lo, g.hi)
		return fmt.Sprintf("bounds:%d,%d,%d,%d", x, y, x, y)
	case 1: // zero width
		x := r.Range(g.lo, g.hi)
		return fmt.Sprintf("bounds:%d,%d,%d,%d", x, g.lo, x, g.hi-r.Intn(2))
	case 2: // zero height
		y := r.Range(g.lo, g.hi)
		return fmt.Sprintf("bounds:%d,%d,%d,%d", g.lo+r.Intn(2), y, g.hi, y)
	case 3: // inverted (empty)
		return fmt.Sprintf("bounds:%d,%d,%d,%d", g.hi-1, g.lo+1, g.lo+1, g.hi-1)
	case 4: // touches the grid only along its west/south or east/north edge
		if r.Bool() {
			return fmt.Sprintf("bounds:%d,%d,%d,%d", g.hi, g.lo, g.hi+3, g.hi)
		}
		return fmt.Sprintf("bounds:%d,%d,%d,%d", g.lo-3, g.lo-3, g.hi, g.lo)
	default:
		x0 := r.Range(g.lo, g.hi-1)
		y0 := r.Range(g.lo, g.hi-1)
		x1 := r.Range(x0+1, g.hi)
		y1 := r.Range(y0+1, g.hi)
		return fmt.Sprintf("bounds:%d,%d,%d,%d", x0, y0, x1, y1)
	}
}

func (g docGen) tags(p float64) [][2]int {
	r := g.r
	var t [][2]int
	if r.Chance(p) {
		t = append(t, [2]int{1, 1})
	}
	if r.Chance(0.15) {
		t = append(t, [2]int{1, 2}) // right key, other value
	}
	if r.Chance(0.15) {
		t = append(t, [2]int{2, 1}) // other key
	}
	if len(t) == 2 && r.Bool() {
		t[0], t[1] = t[1], t[0]
	}
	if g.emptyVals {
		// the wanted key with the EMPTY value (`<tag k="k1" v=""/>`, code 0): alone, before or after another value
		// of the same key (a key may be repeated: the XML and PBF readers accept it)
		switch r.Intn(8) {
		case 0:
			t = append(t, [2]int{1, 0})
		case 1:
			t = append([][2]int{{1, 0}}, t...)
		case 2:
			t = append(t, [2]int{2, 0})
		case 3: // a value / a key of which the wanted one is a proper PREFIX ("v12" / "k12" against "v1" / "k1")
			t = append(t, [2]int{1, 12})
		case 4:
			t = append(t, [2]int{12, 1})
		}
	}
	return t
}

// remapIDs returns the document with every id (and every reference) sent through an injective map that leaves the
// range 0..2^40-1 of "ordinary" OSM ids: negative ids (JOSM / editor files number new objects downwards from -1),
// ids >= 2^40, >= 2^56, a mix per kind.  Dangling references are mapped as well (they stay dangling).
func remapIDs(objs []obj, mode int) []obj {
	f := func(k byte, id int64) int64 {
		switch mode {
		case 1:
			return -id
		case 2:
			return 1<<40 + id
		case 3: // per kind
			switch k {
			case 'n':
				return -id
			case 'w':
				return 1<<40 + id
			}
			return 1<<56 + id
		case 4: // odd ids negative: id and -id' coexist
			if id%2 == 1 {
				return -id
			}
			return id / 2
		case 5:
			return -(1 << 40) - id
		}
		return id
	}
	out := make([]obj, len(objs))
	for i, o := range objs {
		c := o
		if o.kind == 'n' || o.kind == 'w' || o.kind == 'r' {
			c.id = f(o.kind, o.id)
		}
		c.refs = nil
		for _, rr := range o.refs {
			c.refs = append(c.refs, ref{rr.kind, f(rr.kind, rr.id)})
		}
		out[i] = c
	}
	return out
}

// document of about n objects; dangling: some references point at absent ids
func (g docGen) doc(n int, dangling bool) []obj {
	r := g.r
	nn := 2 + n*r.Range(40, 60)/100
	nw := 1 + n*r.Range(20, 35)/100
	nr := n - nn - nw
	if nr < 0 {
		nr = 0
	}
	ptag := []float64{0.05, 0.15, 0.3}[r.Intn(3)]
	var nodes, ways, rels []obj
	for i := 1; i <= nn; i++ {
		nodes = append(nodes, obj{ref: ref{'n', int64(i)}, x: r.Range(g.lo, g.hi), y: r.Range(g.lo, g.hi), tags: g.tags(ptag / 2)})
	}
	for i := 1; i <= nw; i++ {
		k := []int{0, 1, 2, 2, 3, 3, 4, 5, 6}[r.Intn(9)]
		start := r.Intn(nn)
		var rs []ref
		for j := 0; j < k; j++ {
			var id int
			switch r.Intn(4) {
			case 0:
				id = r.Intn(nn) // anywhere
			default:
				id = (start + j + r.Intn(2)) % nn // local run, shares nodes with neighbours
			}
			rs = append(rs, ref{'n', int64(id + 1)})
		}
		if k >= 3 && r.Chance(0.2) {
			rs = append(rs, rs[0]) // closed
		}
		ways = append(ways, obj{ref: ref{'w', int64(i)}, refs: rs, tags: g.tags(ptag)})
	}
	for i := 1; i <= nr; i++ {
		k := []int{0, 1, 1, 2, 3, 4, 5}[r.Intn(7)]
		var rs []ref
		for j := 0; j < k; j++ {
			switch r.Intn(6) {
			case 0, 1:
				rs = append(rs, ref{'n', int64(1 + r.Intn(nn))})
			case 2, 3:
				rs = append(rs, ref{'w', int64(1 + r.Intn(nw))})
			default:
				rs = append(rs, ref{'r', int64(1 + r.Intn(nr))}) // self, earlier or later: cycles
			}
		}
		rels = append(rels, obj{ref: ref{'r', int64(i)}, refs: rs, tags: g.tags(ptag)})
	}
	if dangling {
		nd := 1 + r.Intn(3)
		for j := 0; j < nd; j++ {
			if len(rels) > 0 && r.Bool() {
				o := &rels[r.Intn(len(rels))]
				d := ref{"nwr"[r.Intn(3)], int64(900 + r.Intn(5))}
				o.refs = append(o.refs, d)
				// the SAME absent id referenced by several objects: it is registered as needed by the first one that is
				// stored and stays "needed, never stored" for the rest of the extraction
				for k := r.Intn(3); k > 0; k-- {
					o2 := &rels[r.Intn(len(rels))]
					if r.Bool() {
						o2.refs = append(o2.refs, d)
					} else {
						o2.refs = append([]ref{d}, o2.refs...)
					}
				}
			} else {
				o := &ways[r.Intn(len(ways))]
				d := ref{'n', int64(900 + r.Intn(5))}
				o.refs = append(o.refs, d)
				for k := r.Intn(3); k > 0; k-- {
					o2 := &ways[r.Intn(len(ways))]
					o2.refs = append([]ref{d}, o2.refs...)
				}
			}
		}
	}
	shuffle := func(s []obj) {
		for i := len(s) - 1; i > 0; i-- {
			j := r.Intn(i + 1)
			s[i], s[j] = s[j], s[i]
		}
	}
	reverse := func(s []obj) {
		for i, j := 0, len(s)-1; i < j; i, j = i+1, j-1 {
			s[i], s[j] = s[j], s[i]
		}
	}
	var out []obj
	switch r.Intn(7) {
	case 0: // canonical OSM order
		out = append(append(append(out, nodes...), ways...), rels...)
	case 1: // relations first, nodes last
		out = append(append(append(out, rels...), ways...), nodes...)
	case 2: // ways before nodes
		out = append(append(append(out, ways...), nodes...), rels...)
	case 3: // canonical kinds, descending ids
		reverse(nodes)
		reverse(ways)
		reverse(rels)
		out = append(append(append(out, nodes...), ways...), rels...)
	case 4: // reverse of everything
		out = append(append(append(out, nodes...), ways...), rels...)
		reverse(out)
	case 5: // canonical kinds, shuffled inside
		shuffle(nodes)
		shuffle(ways)
		shuffle(rels)
		out = append(append(append(out, nodes...), ways...), rels...)
	default: // full shuffle
		out = append(append(append(out, nodes...), ways...), rels...)
		shuffle(out)
	}
	return out
}

func docLine(keep string, runs int, seed uint64, objs []obj) string {
	t := make([]string, len(objs))
	for i, o := range objs {
		t[i] = o.tok()
	}
	return fmt.Sprintf("x %s %d %d | %s", keep, runs, seed, strings.Join(t, " "))
}

func gen(seed uint64, tier string) {
	r := vproto.NewRng(seed)
	out := bufio.NewWriter(os.Stdout)
	defer out.Flush()
	runs, ndocs, ndang, maxObjs := 24, 150, 30, 80
	if tier == "thorough" {
		runs, ndocs, ndang, maxObjs = 96, 400, 80, 140
	}
	tagKeeps := []string{"tags:1=1", "tags:1=1|2", "tags:1=", "tags:2=1;1=2", "tags:1=0|2", "tags:1=2"}
	for _, c := range corpus {
		for _, k := range keeps {
			fmt.Fprintf(out, "x %s %d %d | %s\n", k, runs*2, r.U64()%1000000, c)
		}
	}
	for _, c := range danglingCorpus {
		for _, k := range keeps {
			fmt.Fprintf(out, "x %s %d %d | %s\n", k, runs, r.U64()%1000000, c)
		}
	}
	g := docGen{r: r, lo: 0, hi: 4}
	for _, c := range boundsCorpus {
		fmt.Fprintf(out, "x %s %d %d | %s\n", c[0], runs, r.U64()%1000000, c[1])
	}
	for _, c := range idCorpus {
		for _, k := range keeps {
			fmt.Fprintf(out, "x %s %d %d | %s\n", k, runs/2, r.U64()%1000000, c)
		}
	}
	for _, c := range tagCorpus {
		fmt.Fprintf(out, "x %s %d %d | %s\n", c[0], runs/2, r.U64()%1000000, c[1])
	}
	for i := 0; i < ndocs; i++ {
		n := 5 + r.Intn(maxObjs-4)
		if i%3 == 0 {
			n = 5 + r.Intn(12) // many tiny documents
		}
		if i%5 == 4 {
			g.lo, g.hi = -3, 2
		} else {
			g.lo, g.hi = 0, 4
		}
		g.emptyVals = i%4 == 2
		objs := g.doc(n, false)
		g.emptyVals = false
		if i%6 == 1 {
			objs = remapIDs(objs, 1+(i/6)%5)
		}
		for _, k := range []string{g.boundsTok(), tagKeeps[r.Intn(len(tagKeeps))], "all"} {
			rn := runs
			if k == "all" {
				rn = runs / 4
			}
			fmt.Fprintln(out, docLine(k, rn, r.U64()%1000000, objs))
		}
	}
	// deep chains of nested relations: r1 > r2 > ... > rD > n1, selected only through the outermost relation
	// (tags) or only through the innermost node (bounds); innermost-first and outermost-first in the file; filler
	// nodes in between.  The fixpoint needs about D passes (the model's pass count is compared exactly).
	depths := []int{33, 40, 64}
	if tier == "thorough" {
		depths = []int{33, 40, 64, 100}
	}
	for _, d := range depths {
		for _, innerFirst := range []bool{true, false} {
			var rels, fill []obj
			for i := 1; i <= d; i++ {
				o := obj{ref: ref{'r', int64(i)}}
				if i < d {
					o.refs = []ref{{'r', int64(i + 1)}}
				} else {
					o.refs = []ref{{'n', 1}}
				}
				if i == 1 {
					o.tags = [][2]int{{1, 1}}
				}
				if innerFirst {
					rels = append([]obj{o}, rels...)
				} else {
					rels = append(rels, o)
				}
			}
			for i := 2; i <= 6; i++ {
				fill = append(fill, obj{ref: ref{'n', int64(i)}, x: 9, y: 9})
			}
			n1 := obj{ref: ref{'n', 1}, x: 1, y: 1}
			docA := append(append(append([]obj{}, rels...), fill...), n1) // relations, then nodes
			docB := append(append(append([]obj{}, fill...), n1), rels...) // nodes, then relations
			doc := docA
			if d%2 == 0 {
				doc = docB
			}
			fmt.Fprintln(out, docLine("tags:1=1", 4, r.U64()%1000000, doc))
			if d <= 40 || tier == "thorough" {
				fmt.Fprintln(out, docLine("bounds:0,0,2,2", 4, r.U64()%1000000, doc))
			}
		}
	}
	// other element types in the file: <bounds> right after <osm> (JOSM, API, Overpass), <note>, <user>; 1, 2, 4, 16 of them
	withExtras := func(objs []obj, n int, mode int) []obj {
		kinds := []byte{'B', 'N', 'U'}
		var ex []obj
		for i := 0; i < n; i++ {
			k := byte('B')
			if mode > 0 {
				k = kinds[r.Intn(3)]
			}
			ex = append(ex, obj{ref: ref{k, 0}})
		}
		if mode < 2 { // all at the start of the file
			return append(ex, objs...)
		}
		outp := append([]obj{}, objs...)
		for _, e := range ex { // scattered
			i := r.Intn(len(outp) + 1)
			outp = append(outp[:i], append([]obj{e}, outp[i:]...)...)
		}
		return outp
	}
	exCounts := []int{1, 2, 4, 16}
	nex := 12
	if tier == "thorough" {
		nex = 40
	}
	for i := 0; i < nex; i++ {
		var objs []obj
		if i < 4 {
			_, objs = splitBar(strings.Fields("x | " + corpus[i*3]))
		} else {
			g.lo, g.hi = 0, 4
			objs = g.doc(5+r.Intn(25), false)
		}
		doc := withExtras(objs, exCounts[i%4], (i/4)%3)
		k := []string{g.boundsTok(), "tags:1=1", "all"}[i%3]
		fmt.Fprintln(out, docLine(k, 8, r.U64()%1000000, doc))
	}
	// histories: 2-3 extractions on ONE reader; and extractions cancelled on the n-th rewind
	objsTok := func(objs []obj) string {
		t := make([]string, len(objs))
		for i, o := range objs {
			t[i] = o.tok()
		}
		return strings.Join(t, " ")
	}
	for _, c := range corpus[:8] {
		fmt.Fprintf(out, "h 0 bounds:0,0,2,2 tags:1=1 all | %s\n", c)
		fmt.Fprintf(out, "h e all bounds:0,0,2,2 | %s\n", c)
		for n := 1; n <= 3; n++ {
			fmt.Fprintf(out, "c %d all | %s\n", n, c)
			fmt.Fprintf(out, "c %d bounds:0,0,2,2 | %s\n", n, c)
		}
	}
	nhist := ndocs / 3
	for i := 0; i < nhist; i++ {
		g.lo, g.hi = 0, 4
		objs := g.doc(5+r.Intn(30), i%7 == 6)
		ks := []string{g.boundsTok(), tagKeeps[r.Intn(len(tagKeeps))], "all", g.boundsTok()}
		for j := len(ks) - 1; j > 0; j-- {
			k := r.Intn(j + 1)
			ks[j], ks[k] = ks[k], ks[j]
		}
		nk := 2 + r.Intn(2)
		fmt.Fprintf(out, "h %s %s | %s\n", []string{"0", "m", "e"}[r.Intn(3)], strings.Join(ks[:nk], " "), objsTok(objs))
		fmt.Fprintf(out, "c %d %s | %s\n", 1+r.Intn(4), ks[r.Intn(len(ks))], objsTok(objs))
	}
	// PBF rendering of the document (hand-written encoder, 4 layouts), the other entry points (ExtractFile,
	// ExtractTag, CountTags over the file) and the observers of the result (stored objects, Geom, CountTags)
	pbfCorpus := []string{
		"n1:1,1:1=1 n2:5,5:- w1:1,2:1=1;2=1 r1:w1,n2:1=2 w2:1,2,1:- r2:r1,r2:-",
		// closed ways, a one-node way (closed by definition), relation of closed ways (polygon), of open ways, of nodes, mixed
		"n1:0,0:- n2:2,0:- n3:2,2:- n4:0,2:1=1 w1:1,2,3,4,1:1=1 w2:1:1=1 w3:1,2:1=1 r1:w1:1=1 r2:w3:1=1 r3:n1,n2:1=1 r4:w1,n1,r1:1=1 r5:-:1=1",
		// a way without node ids: stored, no Geom item, CountTags panics (modelled)
		"n1:1,1:1=1 w1:-:1=1 w2:1:-",
		"n1:1,1:- w1:-:- r1:w1:1=1",
		// the same key with several values on one object, and on objects of all kinds
		"n1:1,1:1=1;1=2;2=1 w1:1,1:1=1;1=1 r1:n1:1=2;2=1 n2:3,3:2=2",
		// relation cycle: no root among the relations
		"r1:r2:1=1 r2:r1:- n1:1,1:-",
		// negative and zero coordinates
		"n1:-3,-2:1=1 n2:0,0:1=1 n3:-1,4:- w1:1,2,3:1=1",
	}
	pk := 0
	for _, c := range idCorpus {
		pbfCorpus = append(pbfCorpus, c)
	}
	for _, c := range tagCorpus {
		fmt.Fprintf(out, "p %d %s | %s\n", pk%4, c[0], c[1])
		pk++
	}
	for _, c := range append(append([]string{}, pbfCorpus...), corpus...) {
		for _, k := range []string{"all", "bounds:0,0,2,2", "tags:1=1", "tags:1="} {
			fmt.Fprintf(out, "p %d %s | %s\n", pk%4, k, c)
			pk++
		}
	}
	for _, c := range danglingCorpus {
		fmt.Fprintf(out, "p %d all | %s\n", pk%4, c)
		fmt.Fprintf(out, "p %d tags:1=1 | %s\n", (pk+1)%4, c)
		pk++
	}
	npbf := ndocs / 2
	for i := 0; i < npbf; i++ {
		if i%5 == 4 {
			g.lo, g.hi = -3, 2
		} else {
			g.lo, g.hi = 0, 4
		}
		g.emptyVals = i%4 == 3
		objs := g.doc(5+r.Intn(40), i%6 == 5)
		g.emptyVals = false
		if i%5 == 2 {
			objs = remapIDs(objs, 1+(i/5)%5)
		}
		if i%4 == 1 { // more tags: CountTags tables with several rows and ties in the totals
			for j := range objs {
				if objs[j].kind != 'B' && r.Chance(0.5) {
					objs[j].tags = append(objs[j].tags, [2]int{1 + r.Intn(3), 1 + r.Intn(3)})
				}
			}
		}
		k := []string{g.boundsTok(), tagKeeps[r.Intn(len(tagKeeps))], "all", "tags:" + fmt.Sprint(1+r.Intn(2)) + "="}[r.Intn(4)]
		fmt.Fprintf(out, "p %d %s | %s\n", r.Intn(4), k, objsTok(objs))
	}
	// truncated input: XML and PBF cut at / inside the header, a block (object line), the end
	ntr := ndocs / 5
	for i := 0; i < ntr+4; i++ {
		var objs []obj
		if i < 4 {
			_, objs = splitBar(strings.Fields("x | " + corpus[i]))
		} else {
			g.lo, g.hi = 0, 4
			objs = g.doc(5+r.Intn(20), false)
		}
		k := []string{g.boundsTok(), "tags:1=1", "all"}[i%3]
		n := len(objs)
		for _, f := range []string{"x", "p1", "p2"} {
			units := n
			if f == "p2" {
				units = (n + 2) / 3
			}
			cuts := []string{"h", "b0", fmt.Sprintf("b%d", 1+r.Intn(units)), fmt.Sprintf("m%d", 1+r.Intn(units)), fmt.Sprintf("b%d", units), fmt.Sprintf("m%d", units), fmt.Sprintf("f%d", 1+r.Intn(units))}
			if i%4 == 0 {
				cuts = append(cuts, "e")
			}
			for _, c := range cuts {
				if i >= 4 && r.Intn(3) != 0 && c != "e" {
					continue
				}
				fmt.Fprintf(out, "t %s %s %s | %s\n", f, c, k, objsTok(objs))
			}
		}
	}
	for i := 0; i < ndang; i++ {
		objs := g.doc(5+r.Intn(30), true)
		for _, k := range []string{g.boundsTok(), tagKeeps[r.Intn(len(tagKeeps))], "all"} {
			fmt.Fprintln(out, docLine(k, runs/4, r.U64()%1000000, objs))
		}
	}
	// documents that REPEAT an id (`d` lines; Dup.lean): what is stored is the first element of the id that is selected
	// or requested while the id is not yet stored; Spec = ClosedD + inside the closure + a stored object is an element
	for _, c := range dupCorpus {
		for _, k := range []string{"tags:1=1", "all", "bounds:0,0,2,2"} {
			fmt.Fprintf(out, "d %s | %s\n", k, c)
		}
	}
	ndup := ndocs / 5
	for i := 0; i < ndup; i++ {
		g.lo, g.hi = 0, 4
		objs := g.doc(5+r.Intn(25), i%5 == 4)
		for j, nd := 0, 1+r.Intn(3); j < nd; j++ {
			src := objs[r.Intn(len(objs))]
			if src.kind == 'B' || src.kind == 'N' || src.kind == 'U' {
				continue
			}
			cp := src
			cp.refs = append([]ref{}, src.refs...)
			switch r.Intn(4) {
			case 0: // another reference list
				if len(cp.refs) > 0 {
					cp.refs = cp.refs[:len(cp.refs)-1]
				}
				if cp.kind != 'n' {
					cp.refs = append(cp.refs, ref{'n', int64(1 + r.Intn(12))})
				}
			case 1: // other tags
				cp.tags = [][2]int{{1, 1}}
				if len(src.tags) > 0 {
					cp.tags = nil
				}
			case 2: // another position
				cp.x, cp.y = r.Intn(5), r.Intn(5)
			}
			at := r.Intn(len(objs) + 1)
			objs = append(objs[:at], append([]obj{cp}, objs[at:]...)...)
		}
		k := []string{g.boundsTok(), tagKeeps[r.Intn(len(tagKeeps))], "all"}[i%3]
		fmt.Fprintf(out, "d %s | %s\n", k, objsTok(objs))
	}
}

// hand-written documents with repeated ids
var dupCorpus = []string{
	// two tagged ways with id 1 and different node lists: the first is stored, only its node is followed
	"w1:1:1=1 w1:2:1=1 n1:1,1:- n2:1,1:-",
	// the first version is not selected, the second is
	"w1:1:- w1:2:1=1 n1:1,1:- n2:1,1:-",
	// a requested id: the first version read in the second pass is stored
	"r1:w1:1=1 n1:1,1:- n2:5,5:- w1:2:- w1:1:-",
	// node repeated inside and outside the bounds
	"n1:1,1:- n1:5,5:- w1:1:-",
	"n1:5,5:- n1:1,1:- w1:1:-",
	// repeated relation with different member types, nested
	"n1:1,1:1=1 w1:1:- r1:n1:1=1 r1:w1:1=1 r2:r1:-",
	// identical copies
	"n1:1,1:1=1 n1:1,1:1=1 w1:1:1=1 w1:1:1=1",
}
