package main

// Minimal OSM PBF writer (the pinned paulmach/osm v0.1.1 only decodes): protobuf wire format written by hand from
// fileformat.proto / osmformat.proto.  Layout choices that the decoder must not care about are varied by `variant`:
// raw or zlib blobs, objects per PrimitiveBlock (1, 3, 8000), granularity written explicitly or left to its default
// (100 nanodegrees), keys_vals present or omitted when no node of a dense group has tags.  File order is preserved:
// a PrimitiveGroup holds a maximal run of objects of one kind (the decoder reads a group as dense nodes, ways,
// relations), groups and blocks follow the document order.

import (
	"bytes"
	"compress/zlib"
	"encoding/binary"
	"fmt"
)

type pbuf struct{ b []byte }

func (p *pbuf) varint(v uint64) {
	for v >= 0x80 {
		p.b = append(p.b, byte(v)|0x80)
		v >>= 7
	}
	p.b = append(p.b, byte(v))
}
func zz(v int64) uint64             { return uint64((v << 1) ^ (v >> 63)) }
func (p *pbuf) key(f, wt int)       { p.varint(uint64(f<<3 | wt)) }
func (p *pbuf) vint(f int, v int64) { p.key(f, 0); p.varint(uint64(v)) }
func (p *pbuf) bytesF(f int, b []byte) {
	p.key(f, 2)
	p.varint(uint64(len(b)))
	p.b = append(p.b, b...)
}
func (p *pbuf) packed(f int, vals []uint64) {
	if len(vals) == 0 {
		return
	}
	var q pbuf
	for _, v := range vals {
		q.varint(v)
	}
	p.bytesF(f, q.b)
}

type strTable struct {
	s   []string
	idx map[string]int
}

func newStrTable() *strTable { return &strTable{s: []string{""}, idx: map[string]int{"": 0}} }
func (t *strTable) id(s string) uint64 {
	if i, ok := t.idx[s]; ok {
		return uint64(i)
	}
	t.idx[s] = len(t.s)
	t.s = append(t.s, s)
	return uint64(len(t.s) - 1)
}

func fileBlock(out *bytes.Buffer, typ string, data []byte, useZlib bool) {
	var blob pbuf
	if useZlib {
		var z bytes.Buffer
		w := zlib.NewWriter(&z)
		w.Write(data)
		w.Close()
		blob.vint(2, int64(len(data)))
		blob.bytesF(3, z.Bytes())
	} else {
		blob.bytesF(1, data)
	}
	var hdr pbuf
	hdr.bytesF(1, []byte(typ))
	hdr.vint(3, int64(len(blob.b)))
	var sz [4]byte
	binary.BigEndian.PutUint32(sz[:], uint32(len(hdr.b)))
	out.Write(sz[:])
	out.Write(hdr.b)
	out.Write(blob.b)
}

// degrees (small integers) -> units of `gran` nanodegrees
func coordUnits(deg int, gran int64) int64 { return int64(deg) * 1000000000 / gran }

func primitiveBlock(objs []obj, variant int) []byte {
	st := newStrTable()
	gran := int64(100)
	if variant%4 == 3 {
		gran = 1000000000 // whole degrees
	}
	var groups [][]byte
	for i := 0; i < len(objs); {
		j := i
		for j < len(objs) && objs[j].kind == objs[i].kind {
			j++
		}
		run := objs[i:j]
		var g pbuf
		switch objs[i].kind {
		case 'n':
			var ids, lats, lons, kv []uint64
			var pid, plat, plon int64
			anyTags := false
			for _, o := range run {
				lat, lon := coordUnits(o.y, gran), coordUnits(o.x, gran)
				ids = append(ids, zz(o.id-pid))
				lats = append(lats, zz(lat-plat))
				lons = append(lons, zz(lon-plon))
				pid, plat, plon = o.id, lat, lon
				for _, t := range o.tags {
					kv = append(kv, st.id(fmt.Sprintf("k%d", t[0])), st.id(valS(t[1])))
					anyTags = true
				}
				kv = append(kv, 0)
			}
			var d pbuf
			d.packed(1, ids)
			d.packed(8, lats)
			d.packed(9, lons)
			if anyTags || variant%2 == 1 {
				d.packed(10, kv)
			}
			g.bytesF(2, d.b)
		case 'w':
			for _, o := range run {
				var w pbuf
				w.vint(1, o.id)
				var ks, vs, refs []uint64
				for _, t := range o.tags {
					ks = append(ks, st.id(fmt.Sprintf("k%d", t[0])))
					vs = append(vs, st.id(valS(t[1])))
				}
				var prev int64
				for _, r := range o.refs {
					refs = append(refs, zz(r.id-prev))
					prev = r.id
				}
				w.packed(2, ks)
				w.packed(3, vs)
				w.packed(8, refs)
				g.bytesF(3, w.b)
			}
		case 'r':
			for _, o := range run {
				var r pbuf
				r.vint(1, o.id)
				var ks, vs, roles, mem, typ []uint64
				for _, t := range o.tags {
					ks = append(ks, st.id(fmt.Sprintf("k%d", t[0])))
					vs = append(vs, st.id(valS(t[1])))
				}
				var prev int64
				for _, m := range o.refs {
					roles = append(roles, st.id(""))
					mem = append(mem, zz(m.id-prev))
					prev = m.id
					typ = append(typ, uint64(kindRank(m.kind)))
				}
				r.packed(2, ks)
				r.packed(3, vs)
				r.packed(8, roles)
				r.packed(9, mem)
				r.packed(10, typ)
				g.bytesF(4, r.b)
			}
		}
		groups = append(groups, g.b)
		i = j
	}
	var stb pbuf
	for _, s := range st.s {
		stb.bytesF(1, []byte(s))
	}
	var pb pbuf
	pb.bytesF(1, stb.b)
	for _, g := range groups {
		pb.bytesF(2, g)
	}
	if gran != 100 || variant%4 == 1 {
		pb.vint(17, gran)
	}
	return pb.b
}

// buildPBF renders the document (node/way/relation objects only) as an .osm.pbf file.
func buildPBF(objs []obj, variant int) []byte {
	data, _, _ := buildPBFEx(objs, variant)
	return data
}

// buildPBFEx also returns the block boundaries: ends[k] = offset after the k-th file block (k = 0: the header
// block), counts[k] = number of objects encoded before that offset.
func buildPBFEx(objs []obj, variant int) (data []byte, ends []int, counts []int) {
	var out bytes.Buffer
	var h pbuf
	h.bytesF(4, []byte("OsmSchema-V0.6"))
	h.bytesF(4, []byte("DenseNodes"))
	h.bytesF(16, []byte("verif"))
	fileBlock(&out, "OSMHeader", h.b, variant%2 == 1)
	ends, counts = append(ends, out.Len()), append(counts, 0)
	per := []int{8000, 1, 3, 8000}[variant%4]
	var real []obj
	for _, o := range objs {
		if o.kind == 'n' || o.kind == 'w' || o.kind == 'r' {
			real = append(real, o)
		}
	}
	for i := 0; i < len(real); i += per {
		j := i + per
		if j > len(real) {
			j = len(real)
		}
		fileBlock(&out, "OSMData", primitiveBlock(real[i:j], variant), (variant/2)%2 == 1)
		ends, counts = append(ends, out.Len()), append(counts, j)
	}
	return out.Bytes(), ends, counts
}
