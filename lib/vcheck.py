"""Shared orchestration for /verif checks (python3 stdlib only).

One check run = (1) build the Lean proofs of the property and audit the axioms of every
property theorem, (2) build the Go harness against the current /repo working tree,
(3) run the correspondence pipeline  go:gen -> [lean:prep] -> go:impl -> lean:judge,
(4) classify verdict lines, match known findings, write replay + evidence, print verdict.
See DESIGN.md section 2.
"""
import fcntl, hashlib, json, os, re, shutil, subprocess, sys, time

VERIF = os.path.dirname(os.path.dirname(os.path.abspath(__file__)))
REPO = os.environ.get("VERIF_REPO", "/repo")
LEAN = os.path.join(VERIF, "lean")
HARNESS = os.path.join(VERIF, "harness")
BUILD = os.path.join(VERIF, ".build")
ALLOWED_AXIOMS = {"propext", "Classical.choice", "Quot.sound"}
FORBIDDEN = re.compile(r"\b(sorry|admit|native_decide|bv_decide|implemented_by|unsafe)\b|^\s*axiom\s|maxHeartbeats 0")

GOENV = dict(os.environ, GOFLAGS="-mod=mod", GOPROXY="off", GOSUMDB="off", GOTOOLCHAIN="local",
             CGO_ENABLED="0")


def log(*a):
    print(*a, file=sys.stderr, flush=True)


class Lock:
    """exclusive lock around lake / go builds (several checks may start at once)"""
    def __init__(self, name):
        os.makedirs(BUILD, exist_ok=True)
        self.path = os.path.join(BUILD, name + ".lock")
    def __enter__(self):
        self.f = open(self.path, "w")
        fcntl.flock(self.f, fcntl.LOCK_EX)
    def __exit__(self, *a):
        fcntl.flock(self.f, fcntl.LOCK_UN)
        self.f.close()


def strip_comments(src):
    src = re.sub(r"/-.*?-/", "", src, flags=re.S)
    return re.sub(r"--.*", "", src)


def lean_forbidden(dirs):
    hits = []
    for d in dirs:
        for root, _, files in os.walk(d):
            for fn in files:
                if fn.endswith(".lean"):
                    p = os.path.join(root, fn)
                    for i, l in enumerate(strip_comments(open(p).read()).splitlines()):
                        if FORBIDDEN.search(l):
                            hits.append("%s:%d: %s" % (p, i + 1, l.strip()))
    return hits


def lake_build(targets, timeout=3600):
    with Lock("lake"):
        t0 = time.time()
        p = subprocess.run(["lake", "build"] + targets, cwd=LEAN, stdout=subprocess.PIPE,
                           stderr=subprocess.STDOUT, text=True, timeout=timeout)
        return p.returncode, p.stdout, time.time() - t0


def audit_axioms(modules, theorems, rundir):
    """returns {theorem: (ok, axioms|error)} using `#print axioms` under lake env"""
    src = "".join("import %s\n" % m for m in modules)
    for t in theorems:
        src += "#print axioms %s\n" % t
    f = os.path.join(rundir, "Audit.lean")
    open(f, "w").write(src)
    p = subprocess.run(["lake", "env", "lean", f], cwd=LEAN, stdout=subprocess.PIPE,
                       stderr=subprocess.STDOUT, text=True)
    out = p.stdout
    res = {}
    for t in theorems:
        short = t
        m = re.search(r"'%s' depends on axioms: \[([^\]]*)\]" % re.escape(short), out, flags=re.S)
        if m:
            ax = [a.strip() for a in m.group(1).replace("\n", " ").split(",") if a.strip()]
            res[t] = (set(ax) <= ALLOWED_AXIOMS, ax)
        elif re.search(r"'%s' does not depend on any axioms" % re.escape(short), out):
            res[t] = (True, [])
        else:
            res[t] = (False, "not found / did not elaborate")
    return res, out


def go_build(cmd, rundir, tags="verif"):
    """build harness/cmd/<cmd> against REPO's working tree; returns (ok, binary path, output)"""
    out = os.path.join(rundir, cmd)
    args = ["go", "build", "-tags", tags, "-o", out]
    if REPO != "/repo":
        mod = open(os.path.join(HARNESS, "go.mod")).read().replace("=> /repo", "=> " + REPO)
        mf = os.path.join(rundir, "alt.mod")
        open(mf, "w").write(mod)
        shutil.copy(os.path.join(HARNESS, "go.sum"), os.path.join(rundir, "alt.sum"))
        args += ["-modfile", mf]
    args.append("./cmd/" + cmd)
    with Lock("go"):
        p = subprocess.run(args, cwd=HARNESS, env=GOENV, stdout=subprocess.PIPE, stderr=subprocess.STDOUT, text=True)
    return p.returncode == 0, out, p.stdout


def run_stage(argv, infile, outfile, timeout, env=None, mem_gb=None):
    """run one pipeline stage file -> file; returns (rc, timed_out)"""
    pre = None
    if mem_gb:
        import resource
        lim = int(mem_gb * (1 << 30))
        pre = lambda: resource.setrlimit(resource.RLIMIT_AS, (lim, lim))
    with open(infile) if infile else open(os.devnull) as fi, open(outfile, "w") as fo:
        try:
            p = subprocess.run(argv, stdin=fi, stdout=fo, stderr=subprocess.PIPE, timeout=timeout,
                               env=env or GOENV, preexec_fn=pre)
            if p.returncode != 0:
                log("stage %s rc=%d stderr: %s" % (argv[:2], p.returncode, p.stderr.decode(errors="replace")[-2000:]))
            return p.returncode, False
        except subprocess.TimeoutExpired:
            return -1, True


def run_impl_resilient(argv, infile, outfile, timeout, mem_gb=None, max_restarts=20):
    """Run the implementation stage; if the process dies or hangs on a line, record a crash
    result for that line and continue with the rest.  The stage must echo `<input> => <result>`
    one output line per input line, flushed per line."""
    lines = [l for l in open(infile).read().split("\n") if l.strip()]
    done = []
    crashes = 0
    pos = 0
    tmp_in, tmp_out = outfile + ".in", outfile + ".part"
    deadline = time.time() + timeout
    while pos < len(lines):
        open(tmp_in, "w").write("\n".join(lines[pos:]) + "\n")
        rc, to = run_stage(argv, tmp_in, tmp_out, max(5, deadline - time.time()), mem_gb=mem_gb)
        got = [l for l in open(tmp_out).read().split("\n") if l.strip()]
        # a torn last line (no arrow) is dropped
        if got and " => " not in got[-1] and (rc != 0 or to):
            got = got[:-1]
        done += got
        pos += len(got)
        if pos >= len(lines):
            break
        if rc == 0 and not to:
            log("impl stage produced %d of %d lines without failing" % (pos, len(lines)))
            break
        kind = "timeout" if to else "crash"
        done.append(lines[pos] + " => " + kind + " rc=%d" % rc)
        pos += 1
        crashes += 1
        if crashes > max_restarts or time.time() > deadline:
            log("too many crashes/timeouts; stopping impl stage early at line %d" % pos)
            break
    open(outfile, "w").write("\n".join(done) + "\n")
    for f in (tmp_in, tmp_out):
        if os.path.exists(f):
            os.remove(f)
    return crashes


def load_known():
    """KNOWN_FINDINGS.json is the single committed known-findings file (bin/mkfindings builds it from
    findings/Cxx.json); it is never written at run time."""
    p = os.path.join(VERIF, "KNOWN_FINDINGS.json")
    if not os.path.exists(p):
        return []
    return json.load(open(p)).get("findings", [])


def write_json(path, obj):
    os.makedirs(os.path.dirname(path), exist_ok=True)
    tmp = path + ".tmp%d" % os.getpid()
    json.dump(obj, open(tmp, "w"), indent=1)
    os.replace(tmp, path)


class Check:
    """Generic driver. A plugin supplies a dict CFG (see checks/C05.py)."""

    def __init__(self, cfg, tier, seed, replay=None):
        self.cfg, self.tier, self.seed, self.replay = cfg, tier, seed, replay
        self.id = cfg["id"]
        self.rundir = os.path.join(BUILD, "run-%s-%s-%d" % (self.id, tier, os.getpid()))
        os.makedirs(self.rundir, exist_ok=True)
        self.t0 = time.time()
        self.violations = []      # (kind, cls, why, line)
        self.known_hits = {}
        self.broken = []          # names of obligations/correspondences that no longer check
        self.notes = []

    # ---- step 1+2: proofs
    def proofs(self):
        cfg = self.cfg
        res = {"obligations": len(cfg["theorems"]), "discharged": 0, "axioms": {}, "build_s": 0}
        if "pregen" in cfg:
            cfg["pregen"](self)
        hits = lean_forbidden([os.path.join(LEAN, "GeomV", "Common")] +
                              [os.path.join(LEAN, "GeomV", d) for d in cfg.get("lean_dirs", [self.id])])
        if hits:
            self.broken.append("forbidden construct in Lean sources: " + "; ".join(hits[:5]))
            return res
        rc, out, dt = lake_build(cfg["lean_modules"] + [cfg["exe"]])
        res["build_s"] = round(dt, 1)
        if rc != 0:
            # find which modules failed; obligations in buildable modules are still audited
            failed = re.findall(r"^- (\S+)", out, flags=re.M)
            self.broken.append("lake build failed: " + ", ".join(failed or ["?"]))
            open(os.path.join(self.rundir, "lake.log"), "w").write(out)
            log(out[-3000:])
            self.lake_log = out
            # try the exe alone so that the search can still run
            lake_build([cfg["exe"]])
            return res
        aud, raw = audit_axioms(cfg["lean_modules"], cfg["theorems"], self.rundir)
        for t, (ok, ax) in aud.items():
            res["axioms"][t] = ax
            if ok:
                res["discharged"] += 1
            else:
                self.broken.append("theorem %s: %s" % (t, ax))
        if self.tier == "thorough" and cfg.get("leanchecker", True):
            with Lock("lake"):
                p = subprocess.run(["lake", "env", "leanchecker"] + cfg["lean_modules"], cwd=LEAN,
                                   stdout=subprocess.PIPE, stderr=subprocess.STDOUT, text=True)
            res["leanchecker_rc"] = p.returncode
            if p.returncode != 0:
                self.broken.append("leanchecker rejected: " + p.stdout[-500:])
        return res

    def exe(self):
        return os.path.join(LEAN, ".lake", "build", "bin", self.cfg["exe"])

    # ---- step 3: pipeline
    def pipeline(self, gobin, seed, tier, given_input=None):
        """returns list of (impl_line, verdict_line)"""
        rd = self.rundir
        cur = os.path.join(rd, "s0.txt")
        stages = list(self.cfg["stages"])
        if given_input is not None:
            open(cur, "w").write(given_input + "\n")
            # replay starts at the implementation stage
            stages = stages[stages.index("go:impl"):]
        tmo = self.cfg.get("timeout", {}).get(tier, 900)
        for i, st in enumerate(stages):
            nxt = os.path.join(rd, "s%d.txt" % (i + 1))
            if st == "go:gen":
                rc, to = run_stage([gobin, "gen", "--seed", str(seed), "--tier", tier], None, nxt, tmo)
                if rc != 0:
                    raise RuntimeError("generator failed rc=%s" % rc)
            elif st.startswith("lean:"):
                rc, to = run_stage([self.exe(), st[5:]], cur, nxt, tmo, env=dict(os.environ))
                if rc != 0 or to:
                    raise RuntimeError("lean driver stage %s failed rc=%s timeout=%s" % (st, rc, to))
            elif st == "go:impl":
                self.crashes = run_impl_resilient([gobin, "impl"], cur, nxt, tmo, mem_gb=self.cfg.get("impl_mem_gb"))
                self.impl_file = nxt
            else:
                raise RuntimeError("unknown stage " + st)
            cur = nxt
        impl = [l for l in open(self.impl_file).read().split("\n") if l.strip()]
        verd = [l for l in open(cur).read().split("\n") if l.strip()]
        if len(impl) != len(verd):
            raise RuntimeError("judge printed %d verdicts for %d lines" % (len(verd), len(impl)))
        return list(zip(impl, verd))

    def classify(self, pairs):
        stats = {"classes": {}, "evaluations": len(pairs)}
        trivial = re.compile(self.cfg.get("trivial_class", r"^(skipped|.*-skipped)$"))
        distinct = set()
        samples = []
        per_class_sample = {}
        for impl, v in pairs:
            parts = v.split(" ", 2)
            kind = parts[0]
            cls = parts[1] if len(parts) > 1 else "?"
            why = parts[2] if len(parts) > 2 else ""
            stats["classes"][cls] = stats["classes"].get(cls, 0) + 1
            if kind == "OK":
                if not trivial.search(cls):
                    distinct.add(hashlib.md5(impl.split(" => ")[0].encode()).digest())
                if cls not in per_class_sample and len(per_class_sample) < 12:
                    per_class_sample[cls] = impl[:300]
            elif kind in ("DIFF", "SPEC"):
                self.violations.append((kind, cls, why, impl))
            elif kind == "INFO":
                pass
            else:
                self.violations.append(("DIFF", "bad-line", v, impl))
        stats["distinct_nontrivial"] = len(distinct)
        stats["samples"] = [{"class": c, "case": s} for c, s in per_class_sample.items()]
        return stats

    def triage(self):
        """split violations into known findings and new ones"""
        known = [k for k in load_known() if k.get("property") == self.id and k.get("kind") == "known"]
        new = []
        for kind, cls, why, line in self.violations:
            text = "%s %s %s || %s" % (kind, cls, why, line)
            hit = None
            for k in known:
                if re.search(k["signature"], text):
                    hit = k
                    break
            if hit:
                self.known_hits.setdefault(hit["what"], 0)
                self.known_hits[hit["what"]] += 1
            else:
                new.append((kind, cls, why, line))
        return new

    def write_replay(self, kind, cls, why, line, extra=None):
        name = "%s-%s-%s.json" % (self.id, re.sub(r"[^A-Za-z0-9]+", "_", cls)[:40], hashlib.md5(line.encode()).hexdigest()[:8])
        path = os.path.join(VERIF, "replays", name)
        obj = {"property": self.id, "kind": kind, "class": cls, "why": why, "seed": self.seed, "tier": self.tier,
               "input": line.split(" => ")[0], "impl_line": line,
               "replay_cmd": "bin/check %s --replay %s" % (self.id, path)}
        if extra:
            obj.update(extra)
        write_json(path, obj)
        return path

    def evidence(self, proofs, stats, wall, nviol):
        cfg = self.cfg
        cov = {
            "obligations": proofs["obligations"], "discharged": proofs["discharged"],
            "checker_cmd": "cd /verif/lean && lake build %s && lake env lean <Audit.lean with #print axioms of each theorem>%s"
                           % (" ".join(cfg["lean_modules"]), " && lake env leanchecker " + " ".join(cfg["lean_modules"]) if self.tier == "thorough" else ""),
            "trusted_base": cfg["trusted_base"],
            "theorems": proofs.get("axioms", {}),
            "evaluations": stats.get("evaluations", 0),
            "distinct_nontrivial": stats.get("distinct_nontrivial", 0),
            "rule": cfg["rule"],
            "samples": stats.get("samples", []) or [{"note": "no correspondence cases ran"}],
            "traces_validated_against_impl": stats.get("evaluations", 0),
            "input_distribution": stats.get("classes", {}),
            "impl_crashes_or_timeouts": getattr(self, "crashes", 0),
            "known_findings_hit": self.known_hits,
            "broken": self.broken,
            "lake_build_s": proofs.get("build_s"),
            "explanation": cfg.get("explanation", ""),
        }
        ev = {"property_id": self.id, "tier": self.tier, "seed": self.seed, "level": cfg.get("level", "proof") if cfg.get("level", "proof") in ("exploration", "fault_enumeration", "model_checking", "proof", "translation_validation", "other") else "proof",
              "coverage": cov, "assumptions": cfg.get("assumptions", []), "wall_s": round(wall, 2),
              "violations": nviol}
        # evidence/ holds runs against /repo only; runs against another tree (seeded-change trials) go aside
        evdir = os.path.join(VERIF, "evidence") if REPO == "/repo" else os.path.join(BUILD, "evidence-alt")
        write_json(os.path.join(evdir, self.id + ".json"), ev)

    def run(self):
        rc = 1
        try:
            rc = self._run()
        finally:
            shutil.rmtree(self.rundir, ignore_errors=True)
        return rc

    def _run(self):
        cfg = self.cfg
        proofs = self.proofs()
        ok, gobin, out = go_build(cfg["go_cmd"], self.rundir)
        stats = {}
        if not ok:
            log(out[-3000:])
            self.broken.append("harness does not compile against the current tree: " + out.strip().splitlines()[-1] if out.strip() else "go build failed")
        else:
            if self.replay:
                rp = json.load(open(self.replay))
                if not rp.get("input"):
                    print("replay file names a broken obligation, nothing to execute: %s" % rp.get("why"))
                    return 1 if self.broken else 0
                pairs = self.pipeline(gobin, self.seed, self.tier, given_input=rp["input"])
                for impl, v in pairs:
                    print(impl[:2000]); print("  verdict:", v)
                stats = self.classify(pairs)
                new = self.triage()
                return 1 if new else 0
            pairs = self.pipeline(gobin, self.seed, self.tier)
            stats = self.classify(pairs)
            if "post" in cfg:
                cfg["post"](self, pairs, stats)
        new = self.triage()
        spec_fail = [v for v in new if v[0] == "SPEC"]
        diffs = [v for v in new if v[0] == "DIFF"]
        # a broken proof or correspondence with no failing input yet: search harder
        if (self.broken or diffs) and not spec_fail and ok and self.tier == "quick" and cfg.get("search_on_break", True):
            log("%s: obligation/correspondence broken, searching for a failing input (thorough budget)" % self.id)
            saved = (self.violations, self.known_hits)
            self.violations, self.known_hits = [], {}
            try:
                pairs2 = self.pipeline(gobin, self.seed + 1, "thorough")
                self.classify(pairs2)
                more = self.triage()
                spec_fail = [v for v in more if v[0] == "SPEC"]
            except Exception as e:
                log("search failed: %r" % e)
            self.violations, self.known_hits = saved
        for what, n in self.known_hits.items():
            print("KNOWN-FINDING: property=%s %s (%d cases this run)" % (self.id, what, n))
        rc = 0
        nviol = 0
        if spec_fail:
            spec_fail.sort(key=lambda v: len(v[3]))
            kind, cls, why, line = spec_fail[0]
            path = self.write_replay(kind, cls, why, line, {"broken": self.broken, "other_failures": len(spec_fail) - 1})
            print("VIOLATION property=%s replay=%s" % (self.id, path))
            nviol, rc = len(spec_fail), 1
        elif self.broken or diffs:
            if diffs:
                diffs.sort(key=lambda v: len(v[3]))
                kind, cls, why, line = diffs[0]
                name = "correspondence model-vs-implementation (class %s): %s" % (cls, why)
                path = self.write_replay("DIFF", cls, name, line, {"broken": self.broken + [name]})
            else:
                path = self.write_replay("BROKEN", "obligation", "; ".join(self.broken), "", {"broken": self.broken})
            print("VIOLATION property=%s replay=%s no-failing-input-found" % (self.id, path))
            nviol, rc = max(1, len(diffs)), 1
        self.evidence(proofs, stats, time.time() - self.t0, nviol)
        summ = "%s %s seed=%d: obligations %d/%d, cases %d (distinct non-trivial %d), known-findings %d, violations %d, %.1fs" % (
            self.id, self.tier, self.seed, proofs["discharged"], proofs["obligations"], stats.get("evaluations", 0),
            stats.get("distinct_nontrivial", 0), sum(self.known_hits.values()), nviol, time.time() - self.t0)
        print(summ)
        return rc
