import GeomV.C01.Model
import Mathlib.Tactic.Linarith
import Mathlib.Tactic.Ring
import Mathlib.Algebra.Order.Field.Rat
import Mathlib.Order.MinMax
/-!
# C01 helper lemmas

1. even–odd membership is additive over contour lists; re-closing a ring does not change it;
2. membership in a rectangle's contour = the coordinate comparisons (off its boundary);
3. a point inside a contour list lies in the bounding box of its vertices — hence box-disjoint
   operands are set-disjoint (both trivial-case tables, the `nooverlap` and `argwithin` shortcuts).
-/
set_option linter.unusedSimpArgs false
set_option linter.unusedVariables false
namespace GeomV.C01
open GeomV

/-! ## 1. lists and parity -/

theorem inside_nil (p : P) : inside [] p = false := rfl

theorem inside_cons (r : Ring) (cs : Contours) (p : P) :
    inside (r :: cs) p = (insideRing r p ^^ inside cs p) := rfl

theorem inside_append (a b : Contours) (p : P) : inside (a ++ b) p = (inside a p ^^ inside b p) := by
  induction a with
  | nil => simp [inside_nil]
  | cons r a ih => simp [inside_cons, ih, Bool.xor_assoc]

theorem inside_flatten (ps : List Contours) (p : P) :
    inside ps.flatten p = ps.foldr (fun rs acc => inside rs p ^^ acc) false := by
  induction ps with
  | nil => rfl
  | cons a ps ih => simp [List.flatten_cons, inside_append, ih]

theorem foldl_append_eq (init : Contours) (ps : List Contours) :
    ps.foldl (fun acc pg => acc ++ pg) init = init ++ ps.flatten := by
  induction ps generalizing init with
  | nil => simp
  | cons a ps ih => simp [ih, List.append_assoc]

theorem toContours_eq_rings (A : Operand) : toContours A = A.rings := by
  cases A <;> simp [toContours, polygonsOf, Operand.rings, foldl_append_eq]

def xorEdges (p : P) (es : List (P × P)) : Bool := es.foldr (fun e acc => crosses e.1 e.2 p ^^ acc) false

theorem insideRing_def (r : Ring) (p : P) : insideRing r p = xorEdges p (edges r) := rfl

theorem xorEdges_append (p : P) (a b : List (P × P)) : xorEdges p (a ++ b) = (xorEdges p a ^^ xorEdges p b) := by
  induction a with
  | nil => simp [xorEdges]
  | cons e a ih =>
    have : xorEdges p (e :: a ++ b) = (crosses e.1 e.2 p ^^ xorEdges p (a ++ b)) := rfl
    rw [this, ih]; simp [xorEdges, Bool.xor_assoc]

theorem edgesFrom_snoc (f x : P) (l : List P) (hl : l ≠ []) :
    edgesFrom f (l ++ [x]) = edgesFrom x l ++ [(x, f)] := by
  induction l with
  | nil => exact absurd rfl hl
  | cons a l ih =>
    cases l with
    | nil => simp [edgesFrom]
    | cons b r =>
      have := ih (by simp)
      simp [edgesFrom] at this ⊢
      exact this

theorem crosses_self (a p : P) : crosses a a p = false := by
  simp [crosses]

theorem insideRing_closeRing (r : Ring) (p : P) : insideRing (closeRing r) p = insideRing r p := by
  cases r with
  | nil => simp [closeRing, insideRing, edges, edgesFrom, crosses_self]
  | cons h t =>
    have e : edges (closeRing (h :: t)) = edges (h :: t) ++ [(h, h)] := by
      show edgesFrom h (h :: (t ++ [h])) = edgesFrom h (h :: t) ++ [(h, h)]
      have := edgesFrom_snoc h h (h :: t) (by simp)
      simpa using this
    rw [insideRing_def, e, xorEdges_append, ← insideRing_def]
    simp [xorEdges, crosses_self]

theorem inside_polyClipToPolygon (cs : Contours) (p : P) : inside (polyClipToPolygon cs) p = inside cs p := by
  induction cs with
  | nil => rfl
  | cons r cs ih =>
    simp only [polyClipToPolygon, List.map_cons, inside_cons, insideRing_closeRing] at ih ⊢
    rw [ih]

/-! ## 3. bounding boxes -/

/-- `p` in the closed box -/
def inBoxC (mn mx p : P) : Prop := mn.x ≤ p.x ∧ p.x ≤ mx.x ∧ mn.y ≤ p.y ∧ p.y ≤ mx.y

theorem crosses_false_of_y_out (a b p : P)
    (h : (p.y < a.y ∧ p.y < b.y) ∨ (a.y < p.y ∧ b.y < p.y)) : crosses a b p = false := by
  simp only [crosses, Bool.or_eq_false_iff, Bool.and_eq_false_iff, decide_eq_false_iff_not, not_le, not_lt]
  rcases h with ⟨h1, h2⟩ | ⟨h1, h2⟩
  · exact ⟨Or.inl (Or.inl h1), Or.inl (Or.inl h2)⟩
  · exact ⟨Or.inl (Or.inr h2.le), Or.inl (Or.inr h1.le)⟩

theorem crosses_false_of_x_right (a b p : P) (ha : a.x < p.x) (hb : b.x < p.x) : crosses a b p = false := by
  simp only [crosses, Bool.or_eq_false_iff, Bool.and_eq_false_iff, decide_eq_false_iff_not, not_le, not_lt]
  constructor
  · by_cases h1 : a.y ≤ p.y
    · by_cases h2 : p.y < b.y
      · right
        have e1 := mul_nonneg (sub_nonneg.2 hb.le) (sub_nonneg.2 h1)
        have e2 := mul_pos (sub_pos.2 h2) (sub_pos.2 ha)
        simp only [orient]; nlinarith
      · exact Or.inl (Or.inr (not_lt.1 h2))
    · exact Or.inl (Or.inl (not_le.1 h1))
  · by_cases h1 : b.y ≤ p.y
    · by_cases h2 : p.y < a.y
      · right
        have e1 := mul_nonneg (sub_nonneg.2 ha.le) (sub_nonneg.2 h1)
        have e2 := mul_pos (sub_pos.2 h2) (sub_pos.2 hb)
        simp only [orient]; nlinarith
      · exact Or.inl (Or.inr (not_lt.1 h2))
    · exact Or.inl (Or.inl (not_le.1 h1))

theorem crosses_of_x_left (a b p : P) (ha : p.x < a.x) (hb : p.x < b.x) :
    crosses a b p = (decide (p.y < a.y) ^^ decide (p.y < b.y)) := by
  by_cases h1 : p.y < a.y <;> by_cases h2 : p.y < b.y
  · have : ¬ a.y ≤ p.y := not_le.2 h1
    have : ¬ b.y ≤ p.y := not_le.2 h2
    simp [crosses, *]
  · have h2' : b.y ≤ p.y := not_lt.1 h2
    have e1 := mul_nonneg (sub_nonneg.2 ha.le) (sub_nonneg.2 h2')
    have e2 := mul_pos (sub_pos.2 h1) (sub_pos.2 hb)
    have : orient a b p < 0 := by simp only [orient]; nlinarith
    have : ¬ a.y ≤ p.y := not_le.2 h1
    simp [crosses, *]
  · have h1' : a.y ≤ p.y := not_lt.1 h1
    have e1 := mul_nonneg (sub_nonneg.2 hb.le) (sub_nonneg.2 h1')
    have e2 := mul_pos (sub_pos.2 h2) (sub_pos.2 ha)
    have : 0 < orient a b p := by simp only [orient]; nlinarith
    simp [crosses, *]
  · simp [crosses, *]

theorem xorEdges_false_of_all (p : P) (es : List (P × P)) (h : ∀ e ∈ es, crosses e.1 e.2 p = false) :
    xorEdges p es = false := by
  induction es with
  | nil => rfl
  | cons e es ih =>
    have h1 := h e (by simp)
    have h2 := ih (fun e he => h e (by simp [he]))
    show (crosses e.1 e.2 p ^^ xorEdges p es) = false
    simp [h1, h2]

theorem xorEdges_congr (p : P) (f : P × P → Bool) (es : List (P × P)) (h : ∀ e ∈ es, crosses e.1 e.2 p = f e) :
    xorEdges p es = es.foldr (fun e acc => f e ^^ acc) false := by
  induction es with
  | nil => rfl
  | cons e es ih =>
    have h1 := h e (by simp)
    have h2 := ih (fun e he => h e (by simp [he]))
    show (crosses e.1 e.2 p ^^ xorEdges p es) = _
    simp [h1, h2]

/-- a closed walk changes side an even number of times -/
theorem telescope (abv : P → Bool) (f x : P) (l : List P) :
    (edgesFrom f (x :: l)).foldr (fun e acc => (abv e.1 ^^ abv e.2) ^^ acc) false = (abv x ^^ abv f) := by
  induction l generalizing x with
  | nil => simp [edgesFrom]
  | cons y r ih =>
    simp only [edgesFrom, List.foldr_cons, ih]
    cases abv x <;> cases abv y <;> cases abv f <;> rfl

theorem mem_edgesFrom (f : P) (l : List P) (e : P × P) (h : e ∈ edgesFrom f l) :
    e.1 ∈ l ∧ (e.2 ∈ l ∨ e.2 = f) := by
  induction l with
  | nil => simp [edgesFrom] at h
  | cons a l ih =>
    cases l with
    | nil => simp [edgesFrom] at h; subst h; simp
    | cons b r =>
      simp only [edgesFrom, List.mem_cons] at h
      rcases h with h | h
      · subst h; simp
      · have := ih (by simpa [List.mem_cons] using h)
        rcases this with ⟨h1, h2⟩
        exact ⟨List.mem_cons_of_mem _ h1, h2.imp (List.mem_cons_of_mem _) id⟩

theorem mem_edges (r : Ring) (e : P × P) (h : e ∈ edges r) : e.1 ∈ r ∧ e.2 ∈ r := by
  cases r with
  | nil => simp [edges] at h
  | cons a t =>
    have := mem_edgesFrom a (a :: t) e h
    refine ⟨this.1, ?_⟩
    rcases this.2 with h | h
    · exact h
    · rw [h]; simp

theorem insideRing_false_of_out (r : Ring) (mn mx p : P) (hr : ∀ q ∈ r, inBoxC mn mx q)
    (hp : ¬ inBoxC mn mx p) : insideRing r p = false := by
  rw [insideRing_def]
  have hcases : p.x < mn.x ∨ mx.x < p.x ∨ p.y < mn.y ∨ mx.y < p.y := by
    by_contra hc
    simp only [not_or, not_lt] at hc
    exact hp ⟨hc.1, hc.2.1, hc.2.2.1, hc.2.2.2⟩
  rcases hcases with h | h | h | h
  · -- left of the box: every edge spanning the height of p is crossed; a closed walk spans it evenly
    have := xorEdges_congr p (fun e => decide (p.y < e.1.y) ^^ decide (p.y < e.2.y)) (edges r) (by
      intro e he
      have ⟨m1, m2⟩ := mem_edges r e he
      exact crosses_of_x_left e.1 e.2 p (lt_of_lt_of_le h (hr _ m1).1) (lt_of_lt_of_le h (hr _ m2).1))
    rw [this]
    cases r with
    | nil => rfl
    | cons a t =>
      have := telescope (fun v => decide (p.y < v.y)) a a t
      simp only [edges]
      rw [this]; simp
  · apply xorEdges_false_of_all
    intro e he
    have ⟨m1, m2⟩ := mem_edges r e he
    exact crosses_false_of_x_right _ _ _ (lt_of_le_of_lt (hr _ m1).2.1 h) (lt_of_le_of_lt (hr _ m2).2.1 h)
  · apply xorEdges_false_of_all
    intro e he
    have ⟨m1, m2⟩ := mem_edges r e he
    exact crosses_false_of_y_out _ _ _ (Or.inl ⟨lt_of_lt_of_le h (hr _ m1).2.2.1, lt_of_lt_of_le h (hr _ m2).2.2.1⟩)
  · apply xorEdges_false_of_all
    intro e he
    have ⟨m1, m2⟩ := mem_edges r e he
    exact crosses_false_of_y_out _ _ _ (Or.inr ⟨lt_of_le_of_lt (hr _ m1).2.2.2 h, lt_of_le_of_lt (hr _ m2).2.2.2 h⟩)

theorem inside_false_of_out (cs : Contours) (mn mx p : P) (hc : ∀ r ∈ cs, ∀ q ∈ r, inBoxC mn mx q)
    (hp : ¬ inBoxC mn mx p) : inside cs p = false := by
  induction cs with
  | nil => rfl
  | cons r cs ih =>
    rw [inside_cons, insideRing_false_of_out r mn mx p (hc r (by simp)) hp,
      ih (fun r' hr' => hc r' (by simp [hr']))]
    rfl

/-- the box (if any) contains `q` -/
def BoxContains (b : Option (P × P)) (q : P) : Prop := ∃ mn mx, b = some (mn, mx) ∧ inBoxC mn mx q

theorem extendBox_contains_new (b : Option (P × P)) (a : P) : BoxContains (extendBox b a) a := by
  cases b with
  | none => exact ⟨a, a, rfl, le_refl _, le_refl _, le_refl _, le_refl _⟩
  | some i =>
    obtain ⟨mn, mx⟩ := i
    exact ⟨_, _, rfl, min_le_right _ _, le_max_right _ _, min_le_right _ _, le_max_right _ _⟩

theorem extendBox_contains_old (b : Option (P × P)) (a q : P) (h : BoxContains b q) :
    BoxContains (extendBox b a) q := by
  obtain ⟨mn, mx, rfl, h1, h2, h3, h4⟩ := h
  exact ⟨_, _, rfl, le_trans (min_le_left _ _) h1, le_trans h2 (le_max_left _ _),
    le_trans (min_le_left _ _) h3, le_trans h4 (le_max_left _ _)⟩

theorem foldl_contains (pts : List P) (init : Option (P × P)) (q : P)
    (h : BoxContains init q ∨ q ∈ pts) : BoxContains (pts.foldl extendBox init) q := by
  induction pts generalizing init with
  | nil => simpa using h
  | cons a pts ih =>
    simp only [List.foldl_cons]
    apply ih
    rcases h with h | h
    · exact Or.inl (extendBox_contains_old _ _ _ h)
    · rcases List.mem_cons.1 h with h | h
      · subst h; exact Or.inl (extendBox_contains_new _ _)
      · exact Or.inr h

theorem bbox_contains (cs : Contours) (r : Ring) (q : P) (hr : r ∈ cs) (hq : q ∈ r) :
    BoxContains (bbox cs) q :=
  foldl_contains _ _ _ (Or.inr (List.mem_flatten.2 ⟨r, hr, hq⟩))

theorem bbox_some (cs : Contours) (mn mx : P) (h : bbox cs = some (mn, mx)) :
    ∀ r ∈ cs, ∀ q ∈ r, inBoxC mn mx q := by
  intro r hr q hq
  obtain ⟨mn', mx', e, hb⟩ := bbox_contains cs r q hr hq
  rw [h] at e; cases e; exact hb

theorem bbox_none (cs : Contours) (h : bbox cs = none) : ∀ r ∈ cs, r = [] := by
  intro r hr
  cases r with
  | nil => rfl
  | cons q t =>
    obtain ⟨_, _, e, _⟩ := bbox_contains cs (q :: t) q hr (by simp)
    rw [h] at e; cases e

theorem insideRing_nil (p : P) : insideRing [] p = false := rfl

theorem inside_of_bbox_none (cs : Contours) (p : P) (h : bbox cs = none) : inside cs p = false := by
  have hn := bbox_none cs h
  induction cs with
  | nil => rfl
  | cons r cs ih =>
    have : r = [] := hn r (by simp)
    subst this
    rw [inside_cons, insideRing_nil]
    have : bbox cs = none := by simpa [bbox] using h
    simpa using ih this (fun r' hr' => hn r' (by simp [hr']))

/-- a point inside a contour list lies in the bounding box of its vertices -/
theorem inBox_of_inside (cs : Contours) (p : P) (h : inside cs p = true) :
    ∃ mn mx, bbox cs = some (mn, mx) ∧ inBoxC mn mx p := by
  cases hb : bbox cs with
  | none => rw [inside_of_bbox_none cs p hb] at h; cases h
  | some i =>
    obtain ⟨mn, mx⟩ := i
    refine ⟨mn, mx, rfl, ?_⟩
    by_contra hp
    rw [inside_false_of_out cs mn mx p (bbox_some cs mn mx hb) hp] at h
    cases h

/-- box-disjoint operands are set-disjoint -/
theorem not_both_inside (s c : Contours) (p : P) (h : overlaps (bbox s) (bbox c) = false) :
    ¬ (inside s p = true ∧ inside c p = true) := by
  rintro ⟨hs, hc⟩
  obtain ⟨smn, smx, es, s1, s2, s3, s4⟩ := inBox_of_inside s p hs
  obtain ⟨cmn, cmx, ec, c1, c2, c3, c4⟩ := inBox_of_inside c p hc
  rw [es, ec] at h
  simp only [overlaps, boxOverlaps, Bool.and_eq_false_iff, decide_eq_false_iff_not, not_le, ge_iff_le] at h
  rcases h with ((h | h) | h) | h <;> linarith

/-! ## 2. rectangles -/

theorem crosses_horizontal (a b p : P) (h : a.y = b.y) : crosses a b p = false := by
  simp only [crosses, Bool.or_eq_false_iff, Bool.and_eq_false_iff, decide_eq_false_iff_not, not_le, not_lt]
  constructor
  · by_cases h1 : a.y ≤ p.y
    · exact Or.inl (Or.inr (h ▸ h1))
    · exact Or.inl (Or.inl (not_le.1 h1))
  · by_cases h1 : b.y ≤ p.y
    · exact Or.inl (Or.inr (h ▸ h1))
    · exact Or.inl (Or.inl (not_le.1 h1))

theorem crosses_vert_up (x y0 y1 : Rat) (p : P) (h : y0 < y1) :
    crosses ⟨x, y0⟩ ⟨x, y1⟩ p = (decide (y0 ≤ p.y) && decide (p.y < y1) && decide (p.x < x)) := by
  have ho : orient ⟨x, y0⟩ ⟨x, y1⟩ p = (y1 - y0) * (x - p.x) := by simp only [orient]; ring
  have hpos : (0 < (y1 - y0) * (x - p.x)) ↔ p.x < x := by
    constructor
    · intro hh; by_contra hc
      have := mul_nonneg (sub_nonneg.2 h.le) (sub_nonneg.2 (not_lt.1 hc)); nlinarith
    · intro hh; exact mul_pos (sub_pos.2 h) (sub_pos.2 hh)
  by_cases h1 : y0 ≤ p.y <;> by_cases h2 : p.y < y1 <;> by_cases h3 : p.x < x <;>
    simp [crosses, ho, hpos, h1, h2, h3] <;> intro h4 <;> linarith

theorem crosses_vert_down (x y0 y1 : Rat) (p : P) (h : y0 < y1) :
    crosses ⟨x, y1⟩ ⟨x, y0⟩ p = (decide (y0 ≤ p.y) && decide (p.y < y1) && decide (p.x < x)) := by
  have ho : orient ⟨x, y1⟩ ⟨x, y0⟩ p = (y1 - y0) * (p.x - x) := by simp only [orient]; ring
  have hneg : ((y1 - y0) * (p.x - x) < 0) ↔ p.x < x := by
    constructor
    · intro hh; by_contra hc
      have := mul_nonneg (sub_nonneg.2 h.le) (sub_nonneg.2 (not_lt.1 hc)); linarith
    · intro hh
      have := mul_pos (sub_pos.2 h) (sub_pos.2 hh); nlinarith
  by_cases h1 : y0 ≤ p.y <;> by_cases h2 : p.y < y1 <;> by_cases h3 : p.x < x <;>
    simp [crosses, ho, hneg, h1, h2, h3] <;> intro h4 <;> linarith

/-- what being off the boundary of a rectangle means, edge by edge -/
theorem offRect (mn mx p : P) (hb : onBoundary [rect mn mx] p = false) :
    ¬ (p.y = mn.y ∧ mn.x ≤ p.x ∧ p.x ≤ mx.x) ∧ ¬ (p.x = mx.x ∧ mn.y ≤ p.y ∧ p.y ≤ mx.y) ∧
    ¬ (p.y = mx.y ∧ mn.x ≤ p.x ∧ p.x ≤ mx.x) ∧ ¬ (p.x = mn.x ∧ mn.y ≤ p.y ∧ p.y ≤ mx.y) := by
  simp only [onBoundary, rect, edges, edgesFrom, List.any_cons, List.any_nil, Bool.or_false,
    Bool.or_eq_false_iff] at hb
  obtain ⟨h1, h2, h3, h4⟩ := hb
  refine ⟨?_, ?_, ?_, ?_⟩
  · rintro ⟨e, a, b⟩
    have : onSeg mn ⟨mx.x, mn.y⟩ p = true := by simp [onSeg, orient, between, e, a, b]
    exact absurd this (by simp [h1])
  · rintro ⟨e, a, b⟩
    have : onSeg ⟨mx.x, mn.y⟩ mx p = true := by simp [onSeg, orient, between, e, a, b]
    exact absurd this (by simp [h2])
  · rintro ⟨e, a, b⟩
    have : onSeg mx ⟨mn.x, mx.y⟩ p = true := by simp [onSeg, orient, between, e, a, b]
    exact absurd this (by simp [h3])
  · rintro ⟨e, a, b⟩
    have : onSeg ⟨mn.x, mx.y⟩ mn p = true := by simp [onSeg, orient, between, e, a, b]
    exact absurd this (by simp [h4])

theorem insideRing_rect (mn mx p : P) (hx : mn.x < mx.x) (hy : mn.y < mx.y)
    (hb : onBoundary [rect mn mx] p = false) : insideRing (rect mn mx) p = strictInBox mn mx p := by
  obtain ⟨b1, b2, b3, b4⟩ := offRect mn mx p hb
  have e1 : crosses mn ⟨mx.x, mn.y⟩ p = false := crosses_horizontal _ _ _ rfl
  have e3 : crosses mx ⟨mn.x, mx.y⟩ p = false := crosses_horizontal _ _ _ rfl
  have e2 : crosses ⟨mx.x, mn.y⟩ mx p = _ := crosses_vert_up mx.x mn.y mx.y p hy
  have e4 : crosses ⟨mn.x, mx.y⟩ mn p = _ := crosses_vert_down mn.x mn.y mx.y p hy
  simp only [insideRing, rect, edges, edgesFrom, List.foldr_cons, List.foldr_nil, e1, e2, e3, e4, strictInBox]
  by_cases h1 : mn.y ≤ p.y <;> by_cases h2 : p.y < mx.y <;> by_cases h3 : p.x < mx.x <;>
    by_cases h4 : p.x < mn.x <;> by_cases h5 : mn.x < p.x <;> by_cases h6 : mn.y < p.y <;>
    simp [h1, h2, h3, h4, h5, h6] <;>
    first
      | linarith
      | exact b1 ⟨by linarith, by linarith, by linarith⟩
      | exact b4 ⟨by linarith, by linarith, by linarith⟩

end GeomV.C01
