import GeomV.Common.Geom
/-!
# C01 specification: point-set semantics of polygon boolean operations

Independent of the model (no control flow of the Go code, no trivial-case tables, no shortcuts):

* `member A p` — `p` lies in the polygonal operand `A`: for a polygon / multi-polygon the even–odd
  parity of the half-open crossing count of a horizontal ray over all rings of all member polygons
  (the rule `geom.pointInPolygonal` implements and C02 proves `Within` equal to); for a bounding
  rectangle the coordinate comparisons `min < p < max`.
* `opBool` — the truth table of the four operations.
* `Valid`, `GeneralPosition` — the quantifier of the property, as decidable predicates.
* `CoreSpec` — the contract assumed of the external sweep-line core (a *hypothesis* of the theorems,
  checked on every generated case by `sampleCheck` below, never an axiom).

Core Lean only.
-/
namespace GeomV.C01
open GeomV

abbrev P := Pt Rat
abbrev Ring := List P
abbrev Contours := List Ring

inductive Op | inter | union | diff | xor
deriving DecidableEq, Repr, Inhabited

/-- the truth tables: A and B, A or B, A and not B, exactly one of A and B -/
def opBool : Op → Bool → Bool → Bool
  | .inter, a, b => a && b
  | .union, a, b => a || b
  | .diff, a, b => a && !b
  | .xor, a, b => a ^^ b

/-- polygonal operands: polygon (rings), multi-polygon (polygons), bounding rectangle -/
inductive Operand
  | poly (rs : List Ring)
  | multi (ps : List (List Ring))
  | box (mn mx : P)
deriving Repr, DecidableEq, Inhabited

/-! ## membership -/

/-- twice the signed area of the triangle `a b p` (> 0: `p` left of `a→b`) -/
def orient (a b p : P) : Rat := (b.x - a.x) * (p.y - a.y) - (b.y - a.y) * (p.x - a.x)

/-- half-open crossing rule: the edge `ab` spans the height of `p` (lower end included, upper end
excluded) and `p` is strictly left of the edge at that height -/
def crosses (a b p : P) : Bool :=
  (decide (a.y ≤ p.y) && decide (p.y < b.y) && decide (0 < orient a b p)) ||
  (decide (b.y ≤ p.y) && decide (p.y < a.y) && decide (orient a b p < 0))

def edgesFrom (first : P) : List P → List (P × P)
  | [] => []
  | [x] => [(x, first)]
  | x :: y :: r => (x, y) :: edgesFrom first (y :: r)

/-- edges of a ring: consecutive pairs and the closing pair `(last, first)` (degenerate when the
ring is spelled closed) -/
def edges : Ring → List (P × P)
  | [] => []
  | h :: t => edgesFrom h (h :: t)

def insideRing (r : Ring) (p : P) : Bool :=
  (edges r).foldr (fun e acc => crosses e.1 e.2 p ^^ acc) false

/-- even–odd rule over a list of rings -/
def inside (cs : Contours) (p : P) : Bool :=
  cs.foldr (fun r acc => insideRing r p ^^ acc) false

def strictInBox (mn mx p : P) : Bool :=
  decide (mn.x < p.x) && decide (p.x < mx.x) && decide (mn.y < p.y) && decide (p.y < mx.y)

/-- `p` lies in the operand -/
def member : Operand → P → Bool
  | .poly rs, p => inside rs p
  | .multi ps, p => ps.foldr (fun rs acc => inside rs p ^^ acc) false
  | .box mn mx, p => strictInBox mn mx p

/-- membership in a result (`none` = Go `nil`) -/
def memberRes : Option Operand → P → Bool
  | none, _ => false
  | some o, p => member o p

/-! ## the natural reading (shell minus holes, union of members) -/

/-- in the shell (first ring) and in no hole -/
def memberPolyNat : List Ring → P → Bool
  | [], _ => false
  | shell :: holes, p => insideRing shell p && !(holes.any fun h => insideRing h p)

/-- in some member polygon -/
def memberNat : Operand → P → Bool
  | .poly rs, p => memberPolyNat rs p
  | .multi ps, p => ps.any fun rs => memberPolyNat rs p
  | .box mn mx, p => strictInBox mn mx p

def atMostOne : List Bool → Bool
  | [] => true
  | b :: r => (!b || !r.any id) && atMostOne r

/-- at `p`: every hole lies in the shell and the holes do not overlap -/
def nestedAt : List Ring → P → Bool
  | [], _ => true
  | shell :: holes, p =>
    (holes.all fun h => !insideRing h p || insideRing shell p) && atMostOne (holes.map fun h => insideRing h p)

/-- at `p`: holes inside shells, holes disjoint, member polygons disjoint ("valid" in the OGC sense,
as far as the point `p` can tell) -/
def wellNestedAt : Operand → P → Bool
  | .poly rs, p => nestedAt rs p
  | .multi ps, p => (ps.all fun rs => nestedAt rs p) && atMostOne (ps.map fun rs => memberPolyNat rs p)
  | .box _ _, _ => true

/-! ## boundaries -/

def between (u v w : Rat) : Bool :=
  (decide (u ≤ w) && decide (w ≤ v)) || (decide (v ≤ w) && decide (w ≤ u))

/-- `p` lies on the closed segment `ab` -/
def onSeg (a b p : P) : Bool :=
  decide (orient a b p = 0) && between a.x b.x p.x && between a.y b.y p.y

def onBoundary (cs : Contours) (p : P) : Bool :=
  cs.any fun r => (edges r).any fun e => onSeg e.1 e.2 p

def rect (mn mx : P) : Ring := [mn, ⟨mx.x, mn.y⟩, mx, ⟨mn.x, mx.y⟩]

/-- all rings of an operand (for boundaries, validity and general position) -/
def Operand.rings : Operand → Contours
  | .poly rs => rs
  | .multi ps => ps.flatten
  | .box mn mx => [rect mn mx]

def offBoundary (A : Operand) (p : P) : Bool := !onBoundary A.rings p

/-! ## the quantifier: valid operands in general position -/

def sgn (q : Rat) : Int := if 0 < q then 1 else if q < 0 then -1 else 0

/-- closed segments `ab`, `cd` cross at a single interior point of both -/
def properCross (a b c d : P) : Bool :=
  decide (sgn (orient a b c) * sgn (orient a b d) < 0) && decide (sgn (orient c d a) * sgn (orient c d b) < 0)

/-- an endpoint of one segment lies on the other (touching or collinear overlap) -/
def touch (a b c d : P) : Bool := onSeg a b c || onSeg a b d || onSeg c d a || onSeg c d b

/-- closed segments have a common point -/
def segsMeet (a b c d : P) : Bool := properCross a b c d || touch a b c d

/-- the ring without a repeated closing vertex -/
def openForm (r : Ring) : Ring :=
  match r with
  | [] => []
  | h :: t => if t.getLast? = some h then h :: t.dropLast else r

/-- pairs `(i, j)`, `i < j`, of a list with indices -/
def idxPairs {α : Type} (l : List α) : List ((Nat × α) × (Nat × α)) :=
  let il := l.zipIdx.map fun (a, i) => (i, a)
  il.flatMap fun x => (il.filter fun y => x.1 < y.1).map fun y => (x, y)

/-- a simple ring: at least three distinct vertices; adjacent edges meet only in their common
vertex, non-adjacent edges do not meet -/
def validRing (r : Ring) : Bool :=
  let o := openForm r
  let es := edges o
  let n := es.length
  decide (3 ≤ o.length) &&
  (idxPairs es).all fun ((i, e), (j, f)) =>
    if j = i + 1 then
      -- e = (a,b), f = (b,c): a not on f, c not on e, no zero-length edge
      decide (e.1 ≠ e.2) && decide (f.1 ≠ f.2) && !onSeg f.1 f.2 e.1 && !onSeg e.1 e.2 f.2
    else if i = 0 ∧ j + 1 = n then
      -- f = (z,a), e = (a,b)
      decide (f.1 ≠ f.2) && !onSeg e.1 e.2 f.1 && !onSeg f.1 f.2 e.2
    else !segsMeet e.1 e.2 f.1 f.2

/-- every ring simple, rings pairwise disjoint as curves -/
def validC (cs : Contours) : Bool :=
  cs.all validRing &&
  (idxPairs cs).all fun ((_, r), (_, s)) =>
    (edges r).all fun e => (edges s).all fun f => !segsMeet e.1 e.2 f.1 f.2

def Valid : Operand → Bool
  | .box mn mx => decide (mn.x < mx.x) && decide (mn.y < mx.y) && validC [rect mn mx]
  | A => validC A.rings

/-- boundaries in general position: no vertex of one on an edge of the other, hence no shared
vertices and no collinear overlap; edges are disjoint or cross properly -/
def gpC (s c : Contours) : Bool :=
  s.all fun r => (edges r).all fun e => c.all fun r' => (edges r').all fun f => !touch e.1 e.2 f.1 f.2

def GeneralPosition (A B : Operand) : Bool := gpC A.rings B.rings

/-! ## bounding boxes (pure geometry; used by `CoreSpec`'s precondition and by the model's tables) -/

def extendBox : Option (P × P) → P → Option (P × P)
  | none, p => some (p, p)
  | some (mn, mx), p => some (⟨min mn.x p.x, min mn.y p.y⟩, ⟨max mx.x p.x, max mx.y p.y⟩)

/-- bounding box of all vertices; `none` when there is no vertex (Go: `(+Inf,+Inf)-(-Inf,-Inf)`) -/
def bbox (cs : Contours) : Option (P × P) := cs.flatten.foldl extendBox none

def boxOverlaps (a b : P × P) : Bool :=
  decide (a.1.x ≤ b.2.x) && decide (a.2.x ≥ b.1.x) && decide (a.1.y ≤ b.2.y) && decide (a.2.y ≥ b.1.y)

def overlaps : Option (P × P) → Option (P × P) → Bool
  | some a, some b => boxOverlaps a b
  | _, _ => false

/-! ## contract of the external sweep-line core -/

/-- For non-empty operands with overlapping bounding boxes, valid and in general position, the
contours returned by the sweep describe (even–odd) exactly the boolean combination of the operands,
at every point off both input boundaries. -/
def CoreSpec (core : Op → Contours → Contours → Contours) : Prop :=
  ∀ op s c, s ≠ [] → c ≠ [] → overlaps (bbox s) (bbox c) = true →
    validC s = true → validC c = true → gpC s c = true →
    ∀ p, onBoundary s p = false → onBoundary c p = false →
      inside (core op s c) p = opBool op (inside s p) (inside c p)

/-! ## per-case oracle (exact `Rat`): sample points with a clear margin from every input edge -/

/-- insert into a sorted list without duplicates (structural, so that the kernel can evaluate it) -/
def insertSorted (a : Rat) : List Rat → List Rat
  | [] => [a]
  | b :: r => if a < b then a :: b :: r else if a = b then b :: r else b :: insertSorted a r

def sortDedup (l : List Rat) : List Rat := l.foldr insertSorted []

/-- cell centres of a sorted coordinate list, plus one point beyond each end -/
def centres : List Rat → List Rat
  | [] => [0]
  | a :: t =>
    let rec go : Rat → List Rat → List Rat
      | a, [] => [a + 1]
      | a, b :: t => (a + b) / 2 :: go b t
    (a - 1) :: go a t

def coordsOf (cs : Contours) : List P := cs.flatten

/-- `p` is within margin `m` of the segment `ab` (conservative: inside the segment's box grown by
`m` and within `m` of its line) -/
def nearSeg (m : Rat) (a b p : P) : Bool :=
  decide (min a.x b.x - m ≤ p.x) && decide (p.x ≤ max a.x b.x + m) &&
  decide (min a.y b.y - m ≤ p.y) && decide (p.y ≤ max a.y b.y + m) &&
  (let o := orient a b p
   let l2 := (b.x - a.x) * (b.x - a.x) + (b.y - a.y) * (b.y - a.y)
   decide (o * o ≤ m * m * l2))

def clearOf (m : Rat) (cs : Contours) (p : P) : Bool :=
  cs.all fun r => (edges r).all fun e => !nearSeg m e.1 e.2 p

/-- two points beside the midpoint of every edge, one on each side -/
def sidePoints (cs : Contours) : List P :=
  cs.flatMap fun r => (edges r).flatMap fun (a, b) =>
    if a = b then [] else
    let mx := (a.x + b.x) / 2; let my := (a.y + b.y) / 2
    let nx := (b.y - a.y) / 16; let ny := (a.x - b.x) / 16
    [⟨mx + nx, my + ny⟩, ⟨mx - nx, my - ny⟩]

/-- keep about `cap` elements of a list, evenly spread -/
def thin {α : Type} (cap : Nat) (l : List α) : List α :=
  let n := l.length
  if n ≤ cap ∨ cap = 0 then l else
  let k := (n + cap - 1) / cap
  (l.zipIdx.filter fun (_, i) => i % k = 0).map (·.1)

/-- relative to the extent of the operands -/
def margin : Rat := 1 / 1000000

/-- drop the elements of a sorted list that are within `eps` of the previously kept one -/
def dedupTol (eps : Rat) : List Rat → List Rat
  | [] => []
  | a :: t =>
    let rec go : Rat → List Rat → List Rat
      | _, [] => []
      | last, b :: t => if b - last ≤ eps then go last t else b :: go b t
    a :: go a t

/-- abscissa of the proper crossing of `ab` and `cd` -/
def crossX (a b c d : P) : Option Rat :=
  if properCross a b c d then
    let f0 := orient c d a; let f1 := orient c d b
    some (a.x + f0 / (f0 - f1) * (b.x - a.x))
  else none

/-- ordinate of the non-vertical segment `ab` at abscissa `x` -/
def yAt (a b : P) (x : Rat) : Rat := a.y + (x - a.x) * (b.y - a.y) / (b.x - a.x)

def allEdges (cs : Contours) : List (P × P) := cs.flatMap edges

/-- one point in every cell of the vertical-slab decomposition of the arrangement of all edges:
event abscissae = vertex abscissae of operands and result and the crossings of operand edges; in
each slab the edges spanning its midline are ordered by their ordinate there and one point is taken
in every gap (and one below and above all of them).  Events and ordinates closer than 1e-9 are
merged (result vertices are rounded copies of exact crossings). -/
def slabPoints (eps : Rat) (a b r : Contours) : List P :=
  let inE := allEdges a ++ allEdges b
  let allE := inE ++ allEdges r
  let evs := dedupTol eps <| sortDedup <|
    (allE.flatMap fun e => [e.1.x, e.2.x]) ++
    ((allEdges a).flatMap fun e => (allEdges b).filterMap fun f => crossX e.1 e.2 f.1 f.2)
  let rec slabs : List Rat → List P
    | x0 :: x1 :: t =>
      let xm := (x0 + x1) / 2
      let ys := dedupTol eps <| sortDedup <| allE.filterMap fun (p, q) =>
        if (decide (p.x < xm) && decide (xm < q.x)) || (decide (q.x < xm) && decide (xm < p.x)) then some (yAt p q xm) else none
      (if ys.isEmpty then [] else (centres ys).map fun y => (⟨xm, y⟩ : P)) ++ slabs (x1 :: t)
    | _ => []
  slabs evs

/-- sample points for the case `(A, B, R)`: one point in every cell of the slab decomposition,
centres of the cells of the grid through all vertex coordinates of operands and result, and points
beside every edge midpoint -/
def samplePoints (cap : Nat) (eps : Rat) (a b r : Contours) : List P :=
  let pts := coordsOf a ++ coordsOf b ++ coordsOf r
  let xs := centres (sortDedup (pts.map (·.x)))
  let ys := centres (sortDedup (pts.map (·.y)))
  let grid := xs.flatMap fun x => ys.map fun y => (⟨x, y⟩ : P)
  thin cap (slabPoints eps a b r) ++ thin (cap / 2) grid ++ sidePoints a ++ sidePoints b ++ thin (cap / 4) (sidePoints r)

/-- the larger side of the common bounding box of the operands (1 when there is none): margins and
merge tolerances are RELATIVE to it, so that the oracle is as sharp at coordinate scale 2^-30 or
2^20 as at scale 1 -/
def extentOf (a b : Contours) : Rat :=
  match bbox (a ++ b) with
  | some (mn, mx) => let e := max (mx.x - mn.x) (mx.y - mn.y); if e = 0 then 1 else e
  | none => 1

/-- first sample point (with margin) at which the result's membership differs from the truth
table; also returns the number of points tested -/
def sampleCheck (cap : Nat) (op : Op) (A B : Operand) (R : Option Operand) : Option P × Nat :=
  let ra := A.rings; let rb := B.rings
  let rr := match R with | none => [] | some o => o.rings
  let ext := extentOf ra rb
  let m := margin * ext
  let pts := (samplePoints cap (ext / 1000000000) ra rb rr).filter fun p => clearOf m ra p && clearOf m rb p
  (pts.find? fun p => memberRes R p != opBool op (member A p) (member B p), pts.length)

/-! ## "lies in" as answered by the library (`Point.Within` on results — an observation point of the property) -/

/-- the three answers of `geom.Point.Within` -/
inductive WStatus | outside | inside | onEdge
deriving DecidableEq, Repr, Inhabited

/-- The statement with "lies in `A.op(B)`" answered by the library: at a point off both input
boundaries `p.Within(A.op(B))` must be `Inside` exactly when the truth table says so (and `Outside`
otherwise; `OnEdge` is wrong at a point with clear margin: the result has no boundary there). -/
def withinAgrees (op : Op) (A B : Operand) (p : P) (s : WStatus) : Bool :=
  s == (if opBool op (member A p) (member B p) then .inside else .outside)

/-- first probe (point, library answer) with clear margin `m` from every input edge at which the
library's answer about the result contradicts the statement -/
def withinCheck (m : Rat) (op : Op) (A B : Operand) (probes : List (P × WStatus)) : Option (P × WStatus) :=
  probes.find? fun (p, s) => clearOf m A.rings p && clearOf m B.rings p && !withinAgrees op A B p s

/-- the operands are well nested (holes in shells, members disjoint) as far as the sample points tell -/
def nestedCheck (cap : Nat) (A B : Operand) : Bool :=
  (samplePoints cap (extentOf A.rings B.rings / 1000000000) A.rings B.rings []).all fun p => wellNestedAt A p && wellNestedAt B p

end GeomV.C01
