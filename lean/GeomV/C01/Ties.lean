import GeomV.C01.Gen
import Mathlib.Order.MinMax
import Mathlib.Algebra.Order.Field.Rat
import Mathlib.Tactic.Linarith
/-!
# T1 tie for C01: the definitions regenerated from the Go source denote the model's functions

`Gen.lean` is written by `harness/cmd/c01 extract` from polygon.go / multipolygon.go / bounds.go of the tree
under test on every run; here every regenerated function is proved to return — **without fault** — exactly
the value of the hand-written model (`GeomV.C01.api`, `polyOp`, `boundsIntersection`, `clipperOp`,
`polyClipToPolygon`, `toContours`, `polygonsOf`) that the property theorems are about.  If the Go source
changes so that a function no longer denotes the model's, this module stops compiling and the obligation
is reported as broken.  (Lemmas about the Go constructs as in `GeomV.C14.Ties`.)
-/
set_option linter.unusedSimpArgs false
set_option linter.unusedVariables false
namespace GeomV.C01
open GeomV GeomV.C01 GeomV.C01.Go

/-! ## the Go constructs -/

theorem len_eq {α : Type} (l : List α) : Go.len l = (l.length : Int) := rfl

theorem make_ok {α : Type} (n : Nat) (z : α) : Go.make (n : Int) z = .ok (List.replicate n z) := by
  simp [Go.make, pure, Except.pure]

theorem make3_zero {α : Type} (c : Nat) (z : α) : Go.make3 (0 : Int) (c : Int) z = .ok [] := by
  simp [Go.make3, pure, Except.pure]

theorem setIdx_ok {α : Type} (l : List α) (i : Nat) (v : α) (h : i < l.length) :
    Go.setIdx l (i : Int) v = .ok (l.set i v) := by
  simp [Go.setIdx, h, pure, Except.pure]

theorem idx_ok {α : Type} (l : List α) (i : Nat) (h : i < l.length) : Go.idx l (i : Int) = .ok l[i] := by
  simp [Go.idx, h, pure, Except.pure]

theorem setIdx2_ok {α : Type} (l : List (List α)) (i j : Nat) (v : α) (hi : i < l.length) (hj : j < l[i].length) :
    Go.setIdx2 l (i : Int) (j : Int) v = .ok (l.set i (l[i].set j v)) := by
  simp [Go.setIdx2, idx_ok l i hi, setIdx_ok l[i] j v hj, setIdx_ok l i _ hi, bind, Except.bind]

/-- `pp[0 : len(pp)-1]` of a non-empty slice -/
theorem slice_dropLast {α : Type} (l : List α) (h : l ≠ []) :
    Go.slice l 0 (Go.len l - 1) = .ok l.dropLast := by
  have hl : 0 < l.length := List.length_pos_iff.2 h
  have e : ((l.length : Int) - 1).toNat = l.length - 1 := by omega
  have c : (0 : Int) ≤ (l.length : Int) - 1 ∧ (l.length : Int) - 1 ≤ (l.length : Int) := by omega
  have c1 : (1 : Int) ≤ (l.length : Int) := by omega
  simp [Go.slice, len_eq, e, c, c1, pure, Except.pure, List.dropLast_eq_take]

/-- a range loop whose body stores `f x` at the loop index fills the slice with `xs.map f` -/
theorem forRangeAux_fill {α β : Type} (f : α → β) (body : List β → Int → α → M (List β)) :
    ∀ (xs : List α) (pre rest : List β), rest.length = xs.length →
      (∀ (o : List β) (i : Nat) (x : α), x ∈ xs → i < o.length → body o (i : Int) x = .ok (o.set i (f x))) →
      forRangeAux body xs (pre.length : Int) (pre ++ rest) = .ok (pre ++ xs.map f) := by
  intro xs
  induction xs with
  | nil => intro pre rest h _; cases rest with
    | nil => simp [forRangeAux, pure, Except.pure]
    | cons a r => simp at h
  | cons x xs ih =>
    intro pre rest h hb
    cases rest with
    | nil => simp at h
    | cons r0 rest =>
      have h1 := hb (pre ++ r0 :: rest) pre.length x (by simp) (by simp)
      have e : (pre ++ r0 :: rest).set pre.length (f x) = (pre ++ [f x]) ++ rest := by simp
      have hl : ((pre.length : Int) + 1) = ((pre ++ [f x]).length : Int) := by simp
      simp only [forRangeAux, h1, e, bind, Except.bind]
      rw [hl, ih (pre ++ [f x]) rest (by simpa using h) (fun o i y hy hi => hb o i y (by simp [hy]) hi)]
      simp

theorem forRange_fill {α β : Type} (f : α → β) (body : List β → Int → α → M (List β)) (xs : List α) (z : β)
    (hb : ∀ (o : List β) (i : Nat) (x : α), x ∈ xs → i < o.length → body o (i : Int) x = .ok (o.set i (f x))) :
    Go.forRange xs (List.replicate xs.length z) body = .ok (xs.map f) := by
  have := forRangeAux_fill f body xs [] (List.replicate xs.length z) (by simp) hb
  simpa [Go.forRange] using this

/-- a range loop whose body stores the loop value at `[i][j]` copies `xs` into row `i` -/
theorem forRangeAux_row {α : Type} (i : Nat) (body : List (List α) → Int → α → M (List (List α)))
    (hb : ∀ (o : List (List α)) (j : Nat) (x : α) (hi : i < o.length), j < o[i].length →
      body o (j : Int) x = .ok (o.set i (o[i].set j x))) :
    ∀ (xs : List α) (o : List (List α)) (pre rest : List α) (hi : i < o.length), o[i] = pre ++ rest →
      xs.length ≤ rest.length →
      forRangeAux body xs (pre.length : Int) o = .ok (o.set i (pre ++ xs ++ rest.drop xs.length)) := by
  intro xs
  induction xs with
  | nil =>
    intro o pre rest hi ho _
    simp [forRangeAux, pure, Except.pure, ← ho]
  | cons x xs ih =>
    intro o pre rest hi ho hlen
    cases rest with
    | nil => simp at hlen
    | cons r0 rest =>
      have hj : pre.length < o[i].length := by rw [ho]; simp
      have h1 := hb o pre.length x hi hj
      have e : o[i].set pre.length x = (pre ++ [x]) ++ rest := by rw [ho]; simp
      have hl : ((pre.length : Int) + 1) = ((pre ++ [x]).length : Int) := by simp
      simp only [forRangeAux, h1, bind, Except.bind]
      rw [hl, ih (o.set i (o[i].set pre.length x)) (pre ++ [x]) rest (by simpa using hi) (by simp [e])
        (by simpa using hlen)]
      simp

/-- a range loop whose body appends `g x` -/
theorem forRangeAux_append {α β : Type} (g : α → List β) (body : List β → Int → α → M (List β)) :
    ∀ (xs : List α) (k : Int) (o : List β),
      (∀ (o : List β) (k : Int) (x : α), x ∈ xs → body o k x = .ok (o ++ g x)) →
      forRangeAux body xs k o = .ok (o ++ xs.flatMap g) := by
  intro xs
  induction xs with
  | nil => intro k o _; simp [forRangeAux, pure, Except.pure]
  | cons x xs ih =>
    intro k o hb
    simp only [forRangeAux, hb o k x (by simp), bind, Except.bind]
    rw [ih (k + 1) (o ++ g x) (fun o k y hy => hb o k y (by simp [hy]))]
    simp

/-! ## polygon.go -/

/-- `Polygon.toPolyClip` copies its receiver (the conversion `polyclip.Point(pp)` is the identity on values) -/
theorem C01_tie_toPolyClip (p : List (List P)) : Gen.polygon_toPolyClip p = .ok p := by
  unfold Gen.polygon_toPolyClip
  simp only [len_eq, make_ok, bind, Except.bind, pure, Except.pure]
  rw [forRange_fill id]
  · simp
  · intro o i r _ hi
    simp only [make_ok, setIdx_ok o i _ hi, bind, Except.bind, pure, Except.pure, Go.forRange]
    have hi' : i < (o.set i (List.replicate r.length (⟨0, 0⟩ : P))).length := by simpa using hi
    have := forRangeAux_row i (fun (o : List (List P)) (j : Int) (pp : P) => do
        let o ← Go.setIdx2 o (i : Int) j pp
        pure o)
      (by
        intro o j x hi hj
        simp [setIdx2_ok o i j x hi hj, bind, Except.bind, pure, Except.pure])
      r (o.set i (List.replicate r.length (⟨0, 0⟩ : P))) [] (List.replicate r.length (⟨0, 0⟩ : P)) hi' (by simp) (by simp)
    simp only [List.length_nil, Int.natCast_zero, bind, Except.bind, pure, Except.pure] at this
    rw [this]
    simp

/-- `polyClipToPolygon` re-closes every contour: the model's `closeRing` (an empty contour becomes the zero point) -/
theorem C01_tie_polyClipToPolygon (cs : List (List P)) :
    Gen.polyClipToPolygon cs = .ok (GeomV.C01.polyClipToPolygon cs) := by
  unfold Gen.polyClipToPolygon GeomV.C01.polyClipToPolygon
  simp only [len_eq, make_ok, bind, Except.bind, pure, Except.pure]
  rw [forRange_fill closeRing]
  intro o i r _ hi
  have e1 : (r.length : Int) + 1 = ((r.length + 1 : Nat) : Int) := by simp
  simp only [e1, make_ok, setIdx_ok o i _ hi, bind, Except.bind, pure, Except.pure, Go.forRange]
  have hi' : i < (o.set i (List.replicate (r.length + 1) (⟨0, 0⟩ : P))).length := by simpa using hi
  have := forRangeAux_row i (fun (o : List (List P)) (j : Int) (pp : P) => do
      let o ← Go.setIdx2 o (i : Int) j pp
      pure o)
    (by
      intro o j x hi hj
      simp [setIdx2_ok o i j x hi hj, bind, Except.bind, pure, Except.pure])
    r (o.set i (List.replicate (r.length + 1) (⟨0, 0⟩ : P))) [] (List.replicate (r.length + 1) (⟨0, 0⟩ : P)) hi' (by simp) (by simp)
  simp only [List.length_nil, Int.natCast_zero, bind, Except.bind, pure, Except.pure] at this
  rw [this]
  simp only [List.set_set, List.nil_append, List.drop_replicate, Nat.add_sub_cancel_left, List.replicate_one]
  have hi2 : i < (o.set i (r ++ [(⟨0, 0⟩ : P)])).length := by simpa using hi
  have hrow : (o.set i (r ++ [(⟨0, 0⟩ : P)]))[i] = r ++ [(⟨0, 0⟩ : P)] := by simp
  have h0 : 0 < ((o.set i (r ++ [(⟨0, 0⟩ : P)]))[i]).length := by rw [hrow]; simp
  have hidx := idx_ok (o.set i (r ++ [(⟨0, 0⟩ : P)])) i hi2
  have hidx0 := idx_ok ((o.set i (r ++ [(⟨0, 0⟩ : P)]))[i]) 0 h0
  simp only [Int.natCast_zero] at hidx0
  have hset := setIdx2_ok (o.set i (r ++ [(⟨0, 0⟩ : P)])) i r.length ((o.set i (r ++ [(⟨0, 0⟩ : P)]))[i][0]) hi2
    (by rw [hrow]; simp)
  simp only [hidx, hidx0, hset]
  congr 1
  cases r with
  | nil => simp [closeRing]
  | cons h t => simp [closeRing, hrow]

/-- `clipperOp` -/
theorem C01_tie_clipperOp (op : COp) (s c : List (List P)) :
    Gen.clipperOp op s c = .ok (GeomV.C01.clipperOp op s c) := by
  unfold Gen.clipperOp GeomV.C01.clipperOp
  have e1 : decide (Go.len s = 0) = s.isEmpty := by
    cases s with
    | nil => simp [len_eq]
    | cons a t => simp only [len_eq, List.length_cons, List.isEmpty_cons]; exact decide_eq_false (by omega)
  have e2 : decide (Go.len c = 0) = c.isEmpty := by
    cases c with
    | nil => simp [len_eq]
    | cons a t => simp only [len_eq, List.length_cons, List.isEmpty_cons]; exact decide_eq_false (by omega)
  rw [e1, e2]
  by_cases h : op = COp.bool Op.xor
  · subst h
    cases hh : (s.isEmpty || c.isEmpty || !overlaps (bbox s) (bbox c)) <;> simp [hh, pure, Except.pure]
  · simp [h, pure, Except.pure]

/-- the three `Polygons()` methods behind the interface call: the model's `polygonsOf` -/
theorem C01_tie_Polygons (a : Operand) : Gen.polygonal_Polygons a = .ok (polygonsOf a) := by
  cases a <;> rfl

theorem foldl_append_flatMap {α : Type} (xs : List (List α)) (acc : List α) :
    xs.foldl (fun acc pg => acc ++ pg) acc = acc ++ xs.flatMap id := by
  induction xs generalizing acc with
  | nil => simp
  | cons x xs ih => simp [ih]

/-- `Polygon.op`: receiver and argument converted, the argument's polygons concatenated, `clipperOp`,
`Construct`, `polyClipToPolygon` — the model's `polyOp` -/
theorem C01_tie_op (core : ClipCore) (s : List (List P)) (arg : Operand) (op : COp) :
    Gen.polygon_op core s arg op = .ok (polyOp core op s arg) := by
  unfold Gen.polygon_op polyOp
  simp only [C01_tie_toPolyClip, C01_tie_Polygons, bind, Except.bind, pure, Except.pure, Go.forRange]
  rw [forRangeAux_append id]
  · simp only [List.nil_append, C01_tie_clipperOp, C01_tie_polyClipToPolygon]
    simp [toContours, foldl_append_flatMap]
  · intro o k x _
    simp [C01_tie_toPolyClip, bind, Except.bind, pure, Except.pure]


/-! ## multipolygon.go, the public methods, bounds.go -/

/-- `MultiPolygon.op`: all member polygons of the receiver concatenated, then as `Polygon.op` -/
theorem C01_tie_multi_op (core : ClipCore) (mp : List (List (List P))) (arg : Operand) (op : COp) :
    Gen.multiPolygon_op core mp arg op = .ok (some (.poly (polyOp core op (toContours (.multi mp)) arg))) := by
  unfold Gen.multiPolygon_op polyOp
  simp only [C01_tie_toPolyClip, C01_tie_Polygons, bind, Except.bind, pure, Except.pure, Go.forRange]
  rw [forRangeAux_append id]
  · simp only [List.nil_append, bind, Except.bind, pure, Except.pure]
    rw [forRangeAux_append id]
    · simp only [List.nil_append, C01_tie_clipperOp, C01_tie_polyClipToPolygon]
      simp [toContours, polygonsOf, foldl_append_flatMap]
    · intro o k x _
      simp [C01_tie_toPolyClip, bind, Except.bind, pure, Except.pure]
  · intro o k x _
    simp [C01_tie_toPolyClip, bind, Except.bind, pure, Except.pure]

/-- `Polygon.Intersection/Union/XOr/Difference` as regenerated = the model's `api` for a polygon receiver -/
theorem C01_tie_Polygon_methods (core : ClipCore) (p : List (List P)) (arg : Operand) :
    Gen.polygon_Intersection core p arg = .ok (api core (.poly p) arg .inter) ∧
    Gen.polygon_Union core p arg = .ok (api core (.poly p) arg .union) ∧
    Gen.polygon_XOr core p arg = .ok (api core (.poly p) arg .xor) ∧
    Gen.polygon_Difference core p arg = .ok (api core (.poly p) arg .diff) := by
  refine ⟨?_, ?_, ?_, ?_⟩ <;>
    simp [Gen.polygon_Intersection, Gen.polygon_Union, Gen.polygon_XOr, Gen.polygon_Difference, C01_tie_op, api,
      bind, Except.bind, pure, Except.pure]

/-- `MultiPolygon.Intersection/Union/XOr/Difference` as regenerated = the model's `api` for a multi-polygon receiver -/
theorem C01_tie_MultiPolygon_methods (core : ClipCore) (mp : List (List (List P))) (arg : Operand) :
    Gen.multiPolygon_Intersection core mp arg = .ok (api core (.multi mp) arg .inter) ∧
    Gen.multiPolygon_Union core mp arg = .ok (api core (.multi mp) arg .union) ∧
    Gen.multiPolygon_XOr core mp arg = .ok (api core (.multi mp) arg .xor) ∧
    Gen.multiPolygon_Difference core mp arg = .ok (api core (.multi mp) arg .diff) := by
  refine ⟨?_, ?_, ?_, ?_⟩ <;>
    simp [Gen.multiPolygon_Intersection, Gen.multiPolygon_Union, Gen.multiPolygon_XOr, Gen.multiPolygon_Difference,
      C01_tie_multi_op, api, bind, Except.bind, pure, Except.pure]

/-- `b.Polygons()[0]` is the rectangle ring list of the box and never faults -/
theorem bounds_Polygons_idx0 (b : Go.Box) :
    (do let ps ← Gen.bounds_Polygons b; Go.idx ps (0 : Int)) = (.ok [rect b.Min b.Max] : Go.M (List (List P))) := by
  simp [Gen.bounds_Polygons, Go.idx, rect, bind, Except.bind, pure, Except.pure]

/-- `(*Bounds).Union/XOr/Difference` as regenerated (delegation through `b.Polygons()[0]`) = the model's `api` -/
theorem C01_tie_Bounds_delegates (core : ClipCore) (b : Go.Box) (arg : Operand) :
    Gen.bounds_Union core b arg = .ok (api core (.box b.Min b.Max) arg .union) ∧
    Gen.bounds_XOr core b arg = .ok (api core (.box b.Min b.Max) arg .xor) ∧
    Gen.bounds_Difference core b arg = .ok (api core (.box b.Min b.Max) arg .diff) := by
  have h := bounds_Polygons_idx0 b
  simp only [bind, Except.bind] at h
  refine ⟨?_, ?_, ?_⟩
  · unfold Gen.bounds_Union
    cases hp : Gen.bounds_Polygons b with
    | error e => simp [hp] at h
    | ok ps =>
      simp only [hp] at h
      simp [bind, Except.bind, pure, Except.pure, h, (C01_tie_Polygon_methods core _ arg).2.1, api]
  · unfold Gen.bounds_XOr
    cases hp : Gen.bounds_Polygons b with
    | error e => simp [hp] at h
    | ok ps =>
      simp only [hp] at h
      simp [bind, Except.bind, pure, Except.pure, h, (C01_tie_Polygon_methods core _ arg).2.2.1, api]
  · unfold Gen.bounds_Difference
    cases hp : Gen.bounds_Polygons b with
    | error e => simp [hp] at h
    | ok ps =>
      simp only [hp] at h
      simp [bind, Except.bind, pure, Except.pure, h, (C01_tie_Polygon_methods core _ arg).2.2.2, api]

/-! ## `(*Bounds).Intersection` -/

theorem extendBox_nonempty (acc : Option (P × P)) (q : P)
    (h : ∀ b, acc = some b → Go.boxEmpty b = false) : ∀ b, extendBox acc q = some b → Go.boxEmpty b = false := by
  intro b hb
  cases acc with
  | none =>
    simp only [extendBox, Option.some.injEq] at hb
    subst hb
    simp [Go.boxEmpty]
  | some a =>
    obtain ⟨mn, mx⟩ := a
    have ha := h (mn, mx) rfl
    simp only [Go.boxEmpty, Bool.or_eq_false_iff, decide_eq_false_iff_not, not_lt] at ha
    simp only [extendBox, Option.some.injEq] at hb
    subst hb
    simp only [Go.boxEmpty, Bool.or_eq_false_iff, decide_eq_false_iff_not, not_lt]
    exact ⟨le_trans (min_le_left _ _) (le_trans ha.1 (le_max_left _ _)),
      le_trans (min_le_left _ _) (le_trans ha.2 (le_max_left _ _))⟩

theorem foldl_extendBox_nonempty (pts : List P) : ∀ (acc : Option (P × P)),
    (∀ b, acc = some b → Go.boxEmpty b = false) → ∀ b, pts.foldl extendBox acc = some b → Go.boxEmpty b = false := by
  induction pts with
  | nil => intro acc h b hb; exact h b hb
  | cons q t ih => intro acc h b hb; exact ih (extendBox acc q) (extendBox_nonempty acc q h) b hb

/-- the bounding box of a vertex set is never the empty box: `Min ≤ Max` coordinatewise -/
theorem bbox_nonempty (cs : Contours) (b : P × P) (h : bbox cs = some b) : Go.boxEmpty b = false :=
  foldl_extendBox_nonempty cs.flatten none (by simp) b h

/-- `bp.Within(b)` is `Inside` or `OnEdge` iff the model's `boxWithin` -/
theorem boundsWithin_iff (a b : P × P) :
    (decide (Go.boundsWithin (some a) (some b) = WStatus.inside) || decide (Go.boundsWithin (some a) (some b) = WStatus.onEdge))
      = boxWithin a b := by
  unfold Go.boundsWithin boxWithin
  by_cases he : a.1 = b.1 ∧ a.2 = b.2
  · obtain ⟨h1, h2⟩ := he
    simp [h1, h2]
  · by_cases hw : a.1.x ≥ b.1.x ∧ a.1.y ≥ b.1.y ∧ a.2.x ≤ b.2.x ∧ a.2.y ≤ b.2.y
    · simp [he, hw]
    · simp only [he, hw, if_false]
      have : (decide (a.1.x ≥ b.1.x) && decide (a.1.y ≥ b.1.y) && decide (a.2.x ≤ b.2.x) && decide (a.2.y ≤ b.2.y)) = false := by
        rw [Bool.eq_false_iff]; intro hc
        simp only [Bool.and_eq_true, decide_eq_true_eq] at hc
        exact hw ⟨hc.1.1.1, hc.1.1.2, hc.1.2, hc.2⟩
      simp [this]

/-- `b.Overlaps(bp)` for non-empty boxes is the model's `boxOverlaps` -/
theorem boundsOverlaps_eq (a b : P × P) (ha : Go.boxEmpty a = false) (hb : Go.boxEmpty b = false) :
    Go.boundsOverlaps (some a) (some b) = boxOverlaps a b := by
  simp only [Go.boundsOverlaps, boxOverlaps, ha, hb, Bool.not_false, Bool.true_and]
  cases decide (a.1.x ≤ b.2.x) <;> cases decide (a.1.y ≤ b.2.y) <;> cases decide (a.2.x ≥ b.1.x) <;> cases decide (a.2.y ≥ b.1.y) <;> rfl

/-- **T1 tie, `(*Bounds).Intersection`.**  For a receiver that is not the empty box (`Min ≤ Max`
coordinatewise — explicit, decidable; an inverted receiver is outside the property's quantifier) the
function regenerated from bounds.go returns without fault the model's `boundsIntersection`: box–box
by max/min of the corners (nil when degenerate), argument returned when its bounds are within the
box, nil when the boxes do not overlap, else `b.Polygons()[0].Intersection(p)`. -/
theorem C01_tie_Bounds_Intersection (core : ClipCore) (b : Go.Box) (arg : Operand)
    (hb : Go.boxEmpty (b.Min, b.Max) = false) :
    Gen.bounds_Intersection core b arg = .ok (boundsIntersection core b.Min b.Max arg) := by
  have hidx := bounds_Polygons_idx0 b
  simp only [bind, Except.bind] at hidx
  have hdel : ∀ p : Operand, (do let ps ← Gen.bounds_Polygons b; let r ← Go.idx ps (0 : Int); Gen.polygon_Intersection core r p)
      = (.ok (some (.poly (polyOp core (.bool .inter) [rect b.Min b.Max] p))) : Go.M (Option Operand)) := by
    intro p
    cases hp : Gen.bounds_Polygons b with
    | error e => simp [hp] at hidx
    | ok ps =>
      simp only [hp] at hidx
      simp [bind, Except.bind, hidx, (C01_tie_Polygon_methods core _ p).1, api]
  have key : ∀ (p : Operand) (ob : Go.OBox), (∀ bp, ob = some bp → Go.boxEmpty bp = false) →
      ((do
        let bp := ob
        let w := (Go.boundsWithin bp (Go.ofBox b))
        if ((decide (w = WStatus.inside)) || (decide (w = WStatus.onEdge))) then do
          pure (some p)
        else do
          if (!(Go.boundsOverlaps (Go.ofBox b) bp)) then do
            pure (none : Option Operand)
          else do
            pure (← Gen.polygon_Intersection core (← Go.idx (← Gen.bounds_Polygons b ) (0 : Int)) p)) : Go.M (Option Operand))
      = .ok (match ob with
       | none => some p
       | some bp => if boxWithin bp (b.Min, b.Max) then some p
                    else if !boxOverlaps (b.Min, b.Max) bp then none
                    else some (.poly (polyOp core (.bool .inter) [rect b.Min b.Max] p))) := by
    intro p ob hne
    cases ob with
    | none => simp [Go.boundsWithin, Go.ofBox, pure, Except.pure]
    | some bp =>
      have hw := boundsWithin_iff bp (b.Min, b.Max)
      have ho := boundsOverlaps_eq (b.Min, b.Max) bp hb (hne bp rfl)
      dsimp only [Go.ofBox]
      simp only [hw, ho]
      by_cases h1 : boxWithin bp (b.Min, b.Max) = true
      · simp [h1, pure, Except.pure]
      · have h1' : boxWithin bp (b.Min, b.Max) = false := by simpa using h1
        by_cases h2 : boxOverlaps (b.Min, b.Max) bp = true
        · have := hdel p
          simp only [bind, Except.bind] at this
          simp only [h1', h2, Bool.not_true, Bool.false_eq_true, if_false, bind, Except.bind, pure, Except.pure]
          cases hp : Gen.bounds_Polygons b with
          | error e => simp [hp] at hidx
          | ok ps =>
            simp only [hp] at this hidx
            simp only [hidx] at this ⊢
            simpa using this
        · have h2' : boxOverlaps (b.Min, b.Max) bp = false := by simpa using h2
          simp [h1', h2', pure, Except.pure]
  cases arg with
  | box pmn pmx =>
    unfold Gen.bounds_Intersection boundsIntersection
    simp only [Go.asBounds, Bool.or_eq_true, decide_eq_true_eq, pure, Except.pure]
    by_cases h : max b.Min.x pmn.x ≥ min b.Max.x pmx.x ∨ max b.Min.y pmn.y ≥ min b.Max.y pmx.y
    · rw [if_pos h, if_pos h]
    · rw [if_neg h, if_neg h]
  | poly rs =>
    exact key (.poly rs) (boundsOf (.poly rs)) (fun bp h => bbox_nonempty rs bp h)
  | multi ps =>
    exact key (.multi ps) (boundsOf (.multi ps)) (fun bp h => bbox_nonempty ps.flatten bp h)

/-- the call `recv.Intersection/Union/XOr/Difference(arg)` on the regenerated methods: dispatch on the
dynamic type of the receiver and on the operation -/
def Gen.call (core : ClipCore) (recv arg : Operand) (op : Op) : Go.M (Option Operand) :=
  match recv, op with
  | .poly rs, .inter => Gen.polygon_Intersection core rs arg
  | .poly rs, .union => Gen.polygon_Union core rs arg
  | .poly rs, .xor => Gen.polygon_XOr core rs arg
  | .poly rs, .diff => Gen.polygon_Difference core rs arg
  | .multi ps, .inter => Gen.multiPolygon_Intersection core ps arg
  | .multi ps, .union => Gen.multiPolygon_Union core ps arg
  | .multi ps, .xor => Gen.multiPolygon_XOr core ps arg
  | .multi ps, .diff => Gen.multiPolygon_Difference core ps arg
  | .box mn mx, .inter => Gen.bounds_Intersection core ⟨mn, mx⟩ arg
  | .box mn mx, .union => Gen.bounds_Union core ⟨mn, mx⟩ arg
  | .box mn mx, .xor => Gen.bounds_XOr core ⟨mn, mx⟩ arg
  | .box mn mx, .diff => Gen.bounds_Difference core ⟨mn, mx⟩ arg

/-- a `*Bounds` receiver is not the empty box (every other receiver: no condition) -/
def recvNonEmpty : Operand → Bool
  | .box mn mx => !Go.boxEmpty (mn, mx)
  | _ => true

/-- **The twelve public methods do not panic and return the model's answer** (for every sweep `core`, every
receiver other than an inverted box and every polygonal argument): the property theorems (`C01_pointset`,
`C01_closed`, `C01_empty_only_if_null`, …), stated for `GeomV.C01.api`, are theorems about the functions
regenerated from the Go source of the tree under test. -/
theorem C01_src_api (core : ClipCore) (recv arg : Operand) (op : Op) (h : recvNonEmpty recv = true) :
    Gen.call core recv arg op = .ok (api core recv arg op) := by
  cases recv with
  | poly rs =>
    have := C01_tie_Polygon_methods core rs arg
    cases op <;> simp [Gen.call, this]
  | multi ps =>
    have := C01_tie_MultiPolygon_methods core ps arg
    cases op <;> simp [Gen.call, this]
  | box mn mx =>
    have hb : Go.boxEmpty ((⟨mn, mx⟩ : Go.Box).Min, (⟨mn, mx⟩ : Go.Box).Max) = false := by
      simpa [recvNonEmpty] using h
    have h1 := C01_tie_Bounds_delegates core ⟨mn, mx⟩ arg
    have h2 := C01_tie_Bounds_Intersection core ⟨mn, mx⟩ arg hb
    cases op
    · simpa [Gen.call, api] using h2
    · simpa [Gen.call] using h1.1
    · simpa [Gen.call] using h1.2.2
    · simpa [Gen.call] using h1.2.1

/-- non-vacuity of `recvNonEmpty`: the unit box -/
example : recvNonEmpty (.box ⟨0, 0⟩ ⟨1, 1⟩) = true := by decide +kernel

end GeomV.C01
