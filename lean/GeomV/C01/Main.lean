import GeomV.C01.Model
import GeomV.C01.Cert
import GeomV.C01.Prep
import GeomV.C01.AreaCert
/-!
Driver for C01.  `geomv_c01 judge` reads `<case> => <implementation's answer>` lines and prints
  OK <class> | DIFF <class> <why> (implementation ≠ model) | SPEC <class> <why> (answer violates Spec).

The model is run with the sweep core instantiated by the implementation's own result (rings with the
closing vertex removed): whenever the model does not reach the core — both trivial-case tables and
every `*Bounds` shortcut — the model's answer is exact and compared exactly; when it does reach the
core, equality holds iff the glue re-closed every ring.  The Spec verdict is `sampleCheck`
(`member (result) p = opBool op (member A p) (member B p)` on sample points with a clear margin),
which for sweep cases is the per-case check of the hypothesis `CoreSpec`.
-/
namespace GeomV.C01
open GeomV

def ptOfBits (p : Pt UInt64) : Option P := do
  let x ← bitsToRat p.x; let y ← bitsToRat p.y; pure ⟨x, y⟩

def ringOfBits (r : List (Pt UInt64)) : Option Ring := r.mapM ptOfBits

def operandOf : BGeom → Option (Option Operand)
  | .nil => some none
  | .polygon rs => do let rs ← rs.mapM ringOfBits; pure (some (.poly rs))
  | .multiPolygon ps => do let ps ← ps.mapM (fun rs => rs.mapM ringOfBits); pure (some (.multi ps))
  | .bounds a b => do let a ← ptOfBits a; let b ← ptOfBits b; pure (some (.box a b))
  | _ => none

def parseOperand (t : Tok) : Option (Option Operand × Tok) := do
  let (g, t) ← Proto.pGeom 4 t
  let o ← operandOf g
  pure (o, t)

def opOf : String → Option Op
  | "I" => some .inter | "U" => some .union | "D" => some .diff | "X" => some .xor | _ => none

def opName : Op → String
  | .inter => "inter" | .union => "union" | .diff => "diff" | .xor => "xor"

def kindName : Operand → String
  | .poly _ => "PG" | .multi _ => "MPG" | .box _ _ => "B"

def showP (p : P) : String := s!"({p.x},{p.y})"

/-- which branch of the glue answers (label only) -/
def pathOf (recv arg : Operand) (op : Op) : String :=
  let viaOp (s : Contours) := if trivialCase s (toContours arg) then
      (if s.isEmpty || (toContours arg).isEmpty then "table-empty" else "table-boxdisjoint") else "sweep"
  match recv with
  | .poly rs => viaOp rs
  | .multi ps => viaOp (toContours (.multi ps))
  | .box mn mx =>
    if op ≠ .inter then viaOp [rect mn mx] else
    match arg with
    | .box _ _ => "boxbox"
    | _ => match boundsOf arg with
      | none => "argwithin"
      | some bp => if boxWithin bp (mn, mx) then "argwithin"
                   else if !boxOverlaps (mn, mx) bp then "nooverlap" else viaOp [rect mn mx]

/-- configuration of the operands (label only) -/
def configOf (A B : Operand) : String :=
  let ra := A.rings; let rb := B.rings
  match bbox ra, bbox rb with
  | some a, some b =>
    let sepX := decide (a.2.x < b.1.x) || decide (b.2.x < a.1.x)
    let sepY := decide (a.2.y < b.1.y) || decide (b.2.y < a.1.y)
    if sepX && sepY then "boxdisj2"
    else if sepX || sepY then "boxsep1"
    else
      let cross := ra.any fun r => (edges r).any fun e => rb.any fun r' => (edges r').any fun f =>
        properCross e.1 e.2 f.1 f.2
      let pre := if a = b then "boxeq-" else ""
      -- every vertex of one operand strictly in the other (what a vertex-only "within" test sees)
      let allIn (vs : Contours) (O : Operand) := !vs.flatten.isEmpty && vs.flatten.all fun p => member O p && offBoundary O p
      if cross then (if allIn rb A || allIn ra B then pre ++ "bridge" else pre ++ "overlap")
      else
        let aInB := match ra.flatten with | p :: _ => member B p | [] => false
        let bInA := match rb.flatten with | p :: _ => member A p | [] => false
        -- all vertices of one inside the other although the other has vertices inside it: it surrounds a hole
        if (allIn rb A && ra.flatten.any fun p => member B p) || (allIn ra B && rb.flatten.any fun p => member A p) then pre ++ "surround"
        else if aInB || bInA then pre ++ "nested" else pre ++ "disjoint"
  | _, _ => "empty"

/-- ` pw <n> (<xbits> <ybits> <answer>)*` after the result: the library's `Point.Within(result)` answers at
the harness's own probes; then optionally ` cw <n> <digits>`: its answers at the points of the `lean:prep` stage -/
def parseProbes : Tok → Option (List (P × WStatus) × Tok)
  | [] => some ([], [])
  | "cw" :: t => some ([], "cw" :: t)
  | "pw" :: n :: t =>
    let rec go : Nat → Tok → Option (List (P × WStatus) × Tok)
      | 0, t => some ([], t)
      | k + 1, x :: y :: s :: t => do
        let x ← parseU64 x; let y ← parseU64 y
        let p ← ptOfBits ⟨x, y⟩
        let st ← match s with | "0" => some WStatus.outside | "1" => some .inside | "2" => some .onEdge | _ => none
        let (r, t) ← go k t
        pure ((p, st) :: r, t)
      | _, _ => none
    do let n ← n.toNat?; go n t
  | _ => none

/-- the points appended to the case line by the `lean:prep` stage: ` ## <n> (<xbits> <ybits>)*` -/
def parseAsked : Tok → Option (List P)
  | [] => some []
  | "##" :: n :: t =>
    let rec go : Nat → Tok → Option (List P)
      | 0, [] => some []
      | k + 1, x :: y :: t => do
        let x ← parseU64 x; let y ← parseU64 y
        let p ← ptOfBits ⟨x, y⟩
        let r ← go k t
        pure (p :: r)
      | _, _ => none
    do let n ← n.toNat?; go n t
  | _ => none

/-- ` cw <n> <digits>`: one digit (0 Outside, 1 Inside, 2 OnEdge) per asked point; then optionally
` ar <bits>`: `Area()` of the result as computed by the library -/
def parseCellAnswers : Tok → Option (List WStatus × Option Rat)
  | [] => some ([], none)
  | "cw" :: _ :: ds :: t => do
    let a ← ds.toList.mapM fun c => match c with
      | '0' => some WStatus.outside | '1' => some .inside | '2' => some .onEdge | _ => none
    let (_, ar) ← parseCellAnswers t
    pure (a, ar)
  | ["ar", h] => do let u ← parseU64 h; pure ([], bitsToRat u)
  | _ => none

def absQ (x : Rat) : Rat := if x < 0 then -x else x

/-- display only -/
def ratF (q : Rat) : Float := Float.ofInt q.num / Float.ofNat q.den

/-- `Area()` as answered by the library against the exact area of the point set: when the area certificate
accepts the rings (`C01_area_certificate`: cell-area sum of the even–odd set = `exactArea`), the library's
float must agree with `exactArea` to 1e-9 of (area + extent²); `none` = no objection -/
def areaObjection (X : Operand) (ext : Rat) (ar : Rat) : Option String :=
  if (allEdges X.rings).length > 300 then none else
  let evs := certEvents X X none
  if areaCert X evs then
    let ex := exactArea X
    if absQ (ar - ex) * 1000000000 ≤ absQ ex + ext * ext then none
    else some s!"Area()={ratF ar} exact-area-of-the-point-set={ratF ex} Area()/exact={if ex = 0 then 0 else ratF (ar / ex)}"
  else none

def showW : WStatus → String
  | .outside => "Outside" | .inside => "Inside" | .onEdge => "OnEdge"

def ringClosed (r : Ring) : Bool :=
  match r with
  | [] => false
  | h :: t => (h :: t).getLast? = some h

def judgeOp (cap : Nat) (op : Op) (A B : Operand) (rhs : Tok) (askTok : Tok := []) (wantCells : Bool := false) : String :=
  let ext := extentOf A.rings B.rings
  let scale := if ext < 1 / 1024 then "-tiny" else if ext > 32768 then "-huge" else ""
  let cls := s!"{opName op}-{kindName A}.{kindName B}-{configOf A B}-{pathOf A B op}{scale}"
  match rhs with
  | "panic" :: m => s!"SPEC {cls} panic {" ".intercalate m}"
  | "mutated" :: _ => s!"SPEC {cls} an-operand-was-modified-by-the-call"
  | "ok" :: rt =>
    match parseOperand rt with
    | none => s!"DIFF {cls} unparsable-result"
    | some (R, ptoks) =>
      let rrings : Contours := match R with | some (.poly rs) => rs | _ => []
      let core : ClipCore := { bool := fun _ _ _ => rrings.map List.dropLast, line := fun _ _ => [] }
      let m := api core A B op
      -- closedness (Spec clause 2): results computed from Polygon / MultiPolygon receivers
      let fromPoly := match A with | .box _ _ => false | _ => true
      let open1 := match R with
        | some (.poly rs) => rs.find? (fun r => !ringClosed r)
        | _ => none
      if fromPoly && (match R with | some (.poly _) => false | _ => true) then
        s!"DIFF {cls} result-of-polygon-receiver-is-not-a-Polygon"
      else if fromPoly && open1.isSome then s!"SPEC {cls} ring-not-closed"
      else if (match R with | some (.box mn mx) => decide (mx.x < mn.x) || decide (mx.y < mn.y) | _ => false) then
        s!"SPEC {cls} result-box-inverted (negative extent: not a region)"
      else
        let ok := Valid A && Valid B && GeneralPosition A B && nestedCheck (cap / 4) A B
        -- the certificate (proved sound: `C01_certificate_sound`): accepted ⇒ the result is right at
        -- EVERY point with clear margin from the input edges; only when it is refused are sample
        -- points searched for a concrete failing point
        let mg := margin * ext
        let evs := if ok then certEvents A B R else []
        let cert := ok && certCheck mg op A B R evs
        let (bad, n) := if ok && !cert then
            (match certWitness mg op A B R evs with
             | some q => (some q, 0)
             | none => sampleCheck cap op A B R)
          else (none, 0)
        match bad with
        | some p => s!"SPEC {cls} pointset p={showP p} result={memberRes R p} A={member A p} B={member B p} samples={n}"
        | none =>
          -- "lies in the result" as answered by the LIBRARY (Point.Within on the result), at the
          -- harness's probe points that keep twice the margin from every input edge (every result
          -- edge lies within the margin of an input edge when the certificate is accepted)
          let wmsg (tag : String) (p : P) (s : WStatus) :=
            s!"SPEC {cls} library-Within-on-result{tag} p={showP p} Point.Within(result)={showW s} A={member A p} B={member B p} evenodd(result)={memberRes R p}"
          -- the points of the `lean:prep` stage (one in every cell of the operands' arrangement:
          -- `C01_cells_asked`), re-derived here and compared with what the harness was given
          let noResult := match R with | none => true | _ => false
          let (wbad, covered) : Option String × Bool := if ok then
              (match parseProbes ptoks with
               | some (pr, rest) =>
                 match withinCheck (2 * mg) op A B pr with
                 | some (p, s) => (some (wmsg "" p s), false)
                 | none =>
                   match parseAsked askTok, parseCellAnswers rest with
                   | some asked, some (ans, ar) =>
                     -- Area() of a result, asked of the library, against the exact area of its point set
                     -- (on the lines the prep stage selected: all of the quick tier, one in six beyond the 4000th)
                     let aobj := match R, ar with
                       | some X, some a => if asked.isEmpty then none else areaObjection X ext a
                       | _, _ => none
                     if let some o := aobj then (some s!"SPEC {cls} Area(result)-is-not-the-area-of-its-point-set {o}", false)
                     else if asked.isEmpty then (none, false)
                     else if ans.isEmpty && noResult then
                       -- nil result: the library cannot be asked; the certificate says every cell is outside
                       (none, false)
                     else if ans.length ≠ asked.length then (some s!"DIFF {cls} {ans.length}-cell-answers-for-{asked.length}-points", false)
                     else
                       match withinCheck (2 * mg) op A B (asked.zip ans) with
                       | some (p, s) => (some (wmsg "-cell" p s), false)
                       | none =>
                         let ev := prepEvents A B
                         (none, prepCheck A B ev && prepPoints A B ev == asked)
                   | _, _ => (some s!"DIFF {cls} unparsable-cell-answers", false)
               | none => (some s!"DIFF {cls} unparsable-within-probes", false))
            else (none, false)
          if let some w := wbad then w
          else if m ≠ R then s!"DIFF {cls} model-differs"
          else if cert then (if covered || noResult || !wantCells then s!"OK {cls}" else s!"OK {cls}-cellsunasked")
          else if ok then s!"OK {cls}-uncertified" else s!"OK {cls}-outside-quantifier"
  | _ => s!"DIFF {cls} bad-answer"

/-- certificate verdict for one `op` line (measurement / debugging mode) -/
def certLine (line : String) : String :=
  let (lhs, rhs) := splitArrow (tokens line)
  let two (t : Tok) : Option (Operand × Operand) := do
    let (a, t) ← parseOperand t
    let t ← match t with | "|" :: t => some t | _ => none
    let (b, _) ← parseOperand t
    let a ← a; let b ← b
    pure (a, b)
  match lhs, rhs with
  | "op" :: o :: t, "ok" :: rt =>
    match opOf o, two t, parseOperand rt with
    | some op, some (A, B), some (R, _) =>
      let ext := extentOf A.rings B.rings
      let evs := certEvents A B R
      let c := certCheck (margin * ext) op A B R evs
      let c0 := certCheck 0 op A B R evs
      let ac := match R with | some X => toString (areaCert X (certEvents X X none)) | none => "nil"
      s!"{c} {c0} ev={evs.length} area={ac} {opName op}-{kindName A}.{kindName B}-{configOf A B}-{pathOf A B op}"
    | _, _, _ => "skip"
  | _, _ => "skip"

def fabs (x : Float) : Float := if x < 0 then -x else x

def judgeIe (A B : Operand) (rhs : Tok) : String :=
  let cls := s!"areas-{kindName A}.{kindName B}-{configOf A B}"
  match rhs with
  | "panic" :: m => s!"SPEC {cls} panic {" ".intercalate m}"
  | "mutated" :: m => s!"SPEC {cls} an-operand-was-modified-by-the-call {" ".intercalate m}"
  | ["ok", a, b, i, u, d, x] =>
    match [a, b, i, u, d, x].mapM parseU64 with
    | some [a, b, i, u, d, x] =>
      let (a0, b0) := (a, b)
      let f := bitsToFloat
      let (a, b, i, u, d, x) := (f a, f b, f i, f u, f d, f x)
      let tol := 1e-9 * (fabs a + fabs b + fabs u)   -- relative: the figures may be at any coordinate scale
      let ext := extentOf A.rings B.rings
      let aobj (X : Operand) (bits : UInt64) : Option String := (bitsToRat bits).bind fun q => areaObjection X ext q
      if !(Valid A && Valid B && GeneralPosition A B) then s!"OK {cls}-outside-quantifier"
      else if let some o := aobj A a0 then s!"SPEC {cls} Area(A)-is-not-the-area-of-its-point-set {o}"
      else if let some o := aobj B b0 then s!"SPEC {cls} Area(B)-is-not-the-area-of-its-point-set {o}"
      else if fabs (u + i - (a + b)) > tol then s!"SPEC {cls} inclusion-exclusion |A∪B|+|A∩B|≠|A|+|B| a={a} b={b} i={i} u={u}"
      else if fabs (d - (a - i)) > tol then s!"SPEC {cls} difference-area |A\\B|≠|A|-|A∩B| a={a} i={i} d={d}"
      else if fabs (x - (u - i)) > tol then s!"SPEC {cls} xor-area |AΔB|≠|A∪B|-|A∩B| u={u} i={i} x={x}"
      else s!"OK {cls}"
    | _ => s!"DIFF {cls} bad-answer"
  | _ => s!"DIFF {cls} bad-answer"

/-- split a token list at the separator `;;` -/
def splitOn2 (t : Tok) : List Tok :=
  let (cur, acc) := t.foldl (fun (st : Tok × List Tok) x => if x = ";;" then ([], st.2 ++ [st.1]) else (st.1 ++ [x], st.2)) ([], [])
  acc ++ [cur]

/-- `A | B` and the tokens that follow -/
def twoRest (t : Tok) : Option (Operand × Operand × Tok) := do
  let (a, t) ← parseOperand t
  let t ← match t with | "|" :: t => some t | _ => none
  let (b, t) ← parseOperand t
  let a ← a; let b ← b
  pure (a, b, t)

/-- `geomv_c01 prep`: an `op` line within the quantifier gets the sample points of ALL cells of the
operands' arrangement appended (` ## <n> (<xbits> <ybits>)*`) when the hand-over checker accepts them
(`C01_cells_asked`), they are float64 values, and there are at most `capPts` of them -/
def prepLine (capPts : Nat) (line : String) : String :=
  match tokens line with
  | k :: o :: rest =>
    if k = "op" || k = "opx" then
      match opOf o, twoRest rest with
      | some _, some (A, B, []) =>
        if Valid A && Valid B && GeneralPosition A B then
          let evs := prepEvents A B
          if prepCheck A B evs then
            let pts := prepPoints A B evs
            if pts.length ≤ capPts then
              match pts.mapM (fun p => do let x ← ratToBits p.x; let y ← ratToBits p.y; pure [u64Hex x, u64Hex y]) with
              | some bs => line ++ s!" ## {pts.length} " ++ " ".intercalate bs.flatten
              | none => line
            else line
          else line
        else line
      | _, _ => line
    else line
  | _ => line

def judgeLine (cap : Nat) (line : String) : String :=
  let (lhs, rhs) := splitArrow (tokens line)
  let two (t : Tok) : Option (Operand × Operand) := (twoRest t).map fun (a, b, _) => (a, b)
  match lhs with
  | "op" :: o :: t =>
    match opOf o, twoRest t with
    | some op, some (A, B, ask) => judgeOp cap op A B rhs ask true
    | _, _ => "DIFF parse bad-case-line"
  | "opx" :: o :: t =>   -- exhaustive: every cell of the slab decomposition and of the grid
    match opOf o, twoRest t with
    | some op, some (A, B, ask) => judgeOp 1000000 op A B rhs ask true
    | _, _ => "DIFF parse bad-case-line"
  | "cc" :: o :: t =>
    -- the same call made while other goroutines run the operations on unrelated operands: the
    -- answer (any answer that differed from the sequential one, else that one) is judged as usual
    match opOf o, two t with
    | some op, some (A, B) =>
      let v := judgeOp cap op A B rhs
      match v.splitOn " " with
      | k :: c :: why => if why.isEmpty then s!"{k} conc-{c}" else s!"{k} conc-{c} {" ".intercalate why}"
      | _ => v
    | _, _ => "DIFF parse bad-case-line"
  | "ie" :: t =>
    match two t with
    | some (A, B) => judgeIe A B rhs
    | none => "DIFF parse bad-case-line"
  | "hop" :: o :: t =>
    -- a history: the same operand objects, mutated in place between calls; every answer is judged
    -- against the operands as they were at that call
    match opOf o with
    | none => "DIFF parse bad-case-line"
    | some op =>
      let steps := splitOn2 t
      let answers := splitOn2 rhs
      if rhs.head? == some "panic" then s!"SPEC hist-{opName op} panic {" ".intercalate rhs}"
      else if steps.length ≠ answers.length then s!"DIFF hist-{opName op} {answers.length} answers for {steps.length} calls"
      else
        let vs := (List.zip steps answers).zipIdx.map fun ((st, an), i) =>
          match two st with
          | some (A, B) => (i, judgeOp cap op A B an)
          | none => (i, "DIFF parse bad-case-line")
        match vs.find? fun (_, v) => !v.startsWith "OK" with
        | some (i, v) =>
          match v.splitOn " " with
          | k :: c :: why => s!"{k} hist-{c} call#{i + 1}-of-{steps.length} {" ".intercalate why}"
          | _ => v
        | none => s!"OK hist{steps.length}-{opName op}-" ++ (match vs.getLast? with | some (_, v) => (v.drop 3).toString | none => "")
  | _ => "DIFF parse bad-line"

end GeomV.C01

/-- all non-empty input lines -/
partial def GeomV.C01.readLines (h : IO.FS.Stream) (acc : Array String) : IO (Array String) := do
  let line ← h.getLine
  if line.isEmpty then return acc
  let l := (line.trimAscii).toString
  GeomV.C01.readLines h (if l ≠ "" then acc.push l else acc)

/-- `prepLine` / `judgeLine` are pure functions of one line (and its index): the lines are processed in chunks
on the thread pool, one output line per input line, printed in input order -/
def GeomV.C01.mapAll (f : Nat → String → String) (lines : Array String) (chunk : Nat := 8) : Array (Task (Array String)) :=
  (Array.range ((lines.size + chunk - 1) / chunk)).map fun c =>
    Task.spawn fun _ => ((lines.extract (c * chunk) ((c + 1) * chunk)).zipIdx).map fun (l, i) => f (c * chunk + i) l

open GeomV GeomV.C01 in
def main (args : List String) : IO Unit := do
  let out ← IO.getStdout
  match args with
  | ["judge"] =>
    let lines ← readLines (← IO.getStdin) #[]
    for t in mapAll (fun _ l => judgeLine 1000000 l) lines do
      for v in t.get do out.putStrLn v
  | ["judge1"] => forEachLine fun l => out.putStrLn (judgeLine 1000000 l)
  | ["judge", n] => forEachLine fun l => out.putStrLn (judgeLine (n.toNat?.getD 1000000) l)
  | ["cert"] => forEachLine fun l => out.putStrLn (certLine l)
  | ["prep"] =>
    -- every line up to the 4000th, then one in six (the thorough tier has ~60 000)
    let lines ← readLines (← IO.getStdin) #[]
    for t in mapAll (fun n l => if n < 4000 || n % 6 == 0 then prepLine 1500 l else l) lines do
      for v in t.get do out.putStrLn v
  | _ => IO.eprintln "usage: geomv_c01 prep | judge [cap]"
