import GeomV.C01.CertLemmas
import GeomV.C01.AreaCert
/-!
# C01: Green's identity for a certified polygon

`C01_area_certificate`: if `areaCert A evs` accepts, the area of the even–odd point set of `A` — the exact
areas of the cells of the slab decomposition whose sample point is in the set — equals `exactArea A`, the
signed sum of shoelace ring areas that `Polygon.Area()` / `MultiPolygon.Area()` / `(*Bounds).Area()` of
area.go compute (over the rationals).  `green_weighted` is the identity for arbitrary weighted edges.
-/
set_option linter.unusedSimpArgs false
set_option linter.unusedVariables false
set_option linter.unnecessarySeqFocus false
namespace GeomV.C01
open GeomV

/-! ## one slab: alternating walk ⇒ cell sum = signed sum of edge integrals -/

def headInt (x0 x1 : Rat) : List WE → Rat
  | [] => 0
  | e :: _ => slabInt e.1 x0 x1

theorem cellSum_alt (f : P → Bool) (x0 x1 : Rat) (b : Bool) (L : List WE)
    (h : altOK f x0 x1 b L = true) :
    cellSum f x0 x1 L = (L.map fun w => wsign w * slabInt w.1 x0 x1).sum - (if b then headInt x0 x1 L else 0) := by
  induction L generalizing b with
  | nil =>
    simp only [altOK, Bool.not_eq_true'] at h
    subst h
    simp [cellSum]
  | cons e t ih =>
    cases t with
    | nil =>
      simp only [altOK, Bool.and_eq_true, decide_eq_true_eq, Bool.not_eq_true', Bool.not_eq_false'] at h
      obtain ⟨⟨hs, _⟩, hb⟩ := h
      have hb' : b = true := by simpa using hb
      subst hb'
      simp only [if_true] at hs
      simp [cellSum, headInt, hs]
    | cons g t' =>
      simp only [altOK, Bool.and_eq_true, decide_eq_true_eq, beq_iff_eq] at h
      obtain ⟨⟨hs, hf⟩, hrest⟩ := h
      have hrest' : altOK f x0 x1 (!b) (g :: t') = true := by simpa [altOK] using hrest
      have := ih (!b) hrest'
      simp only [cellSum, List.map_cons, List.sum_cons, headInt] at this ⊢
      rw [this, hf, hs]
      cases b <;> simp <;> ring_nf

/-! ## sums over sorted / filtered / nested lists -/

theorem sum_insByKeyW (k : P × P → Rat) (g : WE → Rat) (e : WE) (l : List WE) :
    ((insByKeyW k e l).map g).sum = g e + (l.map g).sum := by
  induction l with
  | nil => simp [insByKeyW]
  | cons f t ih =>
    simp only [insByKeyW]
    split
    · simp
    · simp only [List.map_cons, List.sum_cons, ih]; ring

theorem sum_sortByKeyW (k : P × P → Rat) (g : WE → Rat) (l : List WE) :
    ((sortByKeyW k l).map g).sum = (l.map g).sum := by
  induction l with
  | nil => simp [sortByKeyW]
  | cons a t ih =>
    show ((insByKeyW k a (sortByKeyW k t)).map g).sum = _
    rw [sum_insByKeyW, ih]; simp

theorem sum_filter_ite {α : Type} (p : α → Bool) (g : α → Rat) (l : List α) :
    ((l.filter p).map g).sum = (l.map fun x => if p x then g x else 0).sum := by
  induction l with
  | nil => simp
  | cons a t ih =>
    simp only [List.filter_cons]
    split <;> simp_all

theorem sum_map_add' {α : Type} (a b : α → Rat) (l : List α) :
    (l.map fun x => a x + b x).sum = (l.map a).sum + (l.map b).sum := by
  induction l with
  | nil => simp
  | cons x t ih => simp only [List.map_cons, List.sum_cons, ih]; ring

theorem sum_swap {α β : Type} (F : α → β → Rat) (S : List α) (W : List β) :
    (S.map fun s => (W.map fun w => F s w).sum).sum = (W.map fun w => (S.map fun s => F s w).sum).sum := by
  induction S with
  | nil => simp
  | cons s t ih =>
    simp only [List.map_cons, List.sum_cons, ih]
    rw [← sum_map_add']

theorem sum_flatMap' {α β : Type} (F : α → List β) (g : β → Rat) (l : List α) :
    ((l.flatMap F).map g).sum = (l.map fun x => ((F x).map g).sum).sum := by
  induction l with
  | nil => simp
  | cons a t ih => simp [List.flatMap_cons, List.map_append, List.sum_append, ih]

theorem sum_map_congr' {α : Type} (a b : α → Rat) (l : List α) (h : ∀ x ∈ l, a x = b x) :
    (l.map a).sum = (l.map b).sum := by
  induction l with
  | nil => simp
  | cons x t ih =>
    simp only [List.map_cons, List.sum_cons]
    rw [h x (by simp), ih (fun y hy => h y (by simp [hy]))]

/-! ## one edge: its integrals over the slabs it spans add up to the integral over its whole extent -/

/-- integral of the edge's ordinate from `e.1.x` to `x` -/
def prim (e : P × P) (x : Rat) : Rat := (x - e.1.x) * (e.1.y + yOn e x) / 2

theorem slabInt_prim (e : P × P) (hne : e.1.x ≠ e.2.x) (x0 x1 : Rat) :
    slabInt e x0 x1 = prim e x1 - prim e x0 := by
  have hd : e.2.x - e.1.x ≠ 0 := sub_ne_zero.2 (Ne.symm hne)
  simp only [slabInt, prim, yOn, yAt]
  field_simp
  ring

def clamp (lo hi x : Rat) : Rat := max lo (min x hi)

theorem incOK_pairs (evs : List Rat) (h : incOK evs = true) : ∀ s ∈ slabPairsA evs, s.1 < s.2 := by
  induction evs with
  | nil => intro s hs; simp [slabPairsA] at hs
  | cons a t ih =>
    cases t with
    | nil => intro s hs; simp [slabPairsA] at hs
    | cons b t' =>
      simp only [incOK, Bool.and_eq_true, decide_eq_true_eq] at h
      intro s hs
      simp only [slabPairsA, List.mem_cons] at hs
      rcases hs with rfl | hs
      · exact h.1
      · exact ih h.2 s hs

/-- telescoping of a function of the clamped slab walls -/
theorem sum_clamp (G : Rat → Rat) (a : Rat) (t : List Rat) :
    ((slabPairsA (a :: t)).map fun s => G s.2 - G s.1).sum = G (lastOf a t) - G a := by
  induction t generalizing a with
  | nil => simp [slabPairsA, lastOf]
  | cons b t' ih =>
    simp only [slabPairsA, List.map_cons, List.sum_cons, lastOf, ih b]
    ring

theorem absOK_spec (x a : Rat) (t : List Rat) (h : absOK x (a :: t) = true) :
    a ≤ x ∧ x ≤ lastOf a t ∧ ∀ s ∈ slabPairsA (a :: t), ¬ (s.1 < x ∧ x < s.2) := by
  simp only [absOK, Bool.and_eq_true, decide_eq_true_eq, List.all_eq_true, Bool.not_eq_true',
    Bool.and_eq_false_iff, decide_eq_false_iff_not] at h
  refine ⟨h.1.1, h.1.2, ?_⟩
  intro s hs hh
  rcases h.2 s hs with h' | h'
  · exact h' hh.1
  · exact h' hh.2

/-- a slab that has neither end of the edge strictly inside: spanned, or beside the edge's extent -/
theorem span_term (e : P × P) (lo hi x0 x1 : Rat) (hlh : lo < hi)
    (hends : (e.1.x = lo ∧ e.2.x = hi) ∨ (e.1.x = hi ∧ e.2.x = lo))
    (hlt : x0 < x1) (nlo : ¬ (x0 < lo ∧ lo < x1)) (nhi : ¬ (x0 < hi ∧ hi < x1)) :
    (if spansE e x0 x1 then slabInt e x0 x1 else 0) = prim e (clamp lo hi x1) - prim e (clamp lo hi x0) := by
  have hne : e.1.x ≠ e.2.x := by
    rcases hends with ⟨a, b⟩ | ⟨a, b⟩
    · rw [a, b]; exact ne_of_lt hlh
    · rw [a, b]; exact ne_of_gt hlh
  have hsp : spansE e x0 x1 = true ↔ (lo ≤ x0 ∧ x1 ≤ hi) := by
    simp only [spansE, Bool.or_eq_true, Bool.and_eq_true, decide_eq_true_eq]
    rcases hends with ⟨a, b⟩ | ⟨a, b⟩
    · rw [a, b]
      constructor
      · rintro (h | h)
        · exact h
        · exact absurd (lt_of_le_of_lt (le_trans h.2 (le_trans (le_refl _) (le_refl _))) (lt_of_lt_of_le hlh (le_refl _))) (by
            intro hc; linarith [h.1, h.2])
      · intro h; exact Or.inl h
    · rw [a, b]
      constructor
      · rintro (h | h)
        · linarith [h.1, h.2]
        · exact h
      · intro h; exact Or.inr h
  by_cases hs : lo ≤ x0 ∧ x1 ≤ hi
  · rw [if_pos (hsp.2 hs), slabInt_prim e hne]
    have c1 : clamp lo hi x1 = x1 := by
      simp only [clamp]; rw [min_eq_left hs.2, max_eq_right (by linarith)]
    have c0 : clamp lo hi x0 = x0 := by
      simp only [clamp]; rw [min_eq_left (by linarith), max_eq_right hs.1]
    rw [c0, c1]
  · have hns : ¬ (spansE e x0 x1 = true) := fun hh => hs (hsp.1 hh)
    rw [if_neg hns]
    have : clamp lo hi x1 = clamp lo hi x0 := by
      simp only [clamp]
      by_cases h0 : lo ≤ x0
      · -- then hi < x1, so hi ≤ x0
        have h1 : hi < x1 := by
          by_contra hc; exact hs ⟨h0, not_lt.1 hc⟩
        have h2 : hi ≤ x0 := by
          by_contra hc; exact nhi ⟨not_le.1 hc, h1⟩
        rw [min_eq_right h2, min_eq_right (by linarith)]
      · have h0' : x0 < lo := not_le.1 h0
        have h2 : x1 ≤ lo := by
          by_contra hc; exact nlo ⟨h0', not_le.1 hc⟩
        rw [min_eq_left (by linarith), min_eq_left (by linarith), max_eq_left h2, max_eq_left h0'.le]
    rw [this]; ring

theorem edge_total (e : P × P) (evs : List Rat) (hinc : incOK evs = true)
    (h1 : absOK e.1.x evs = true) (h2 : absOK e.2.x evs = true) :
    ((slabPairsA evs).map fun s => if spansE e s.1 s.2 then dirOf e * slabInt e s.1 s.2 else 0).sum =
      (e.2.x - e.1.x) * (e.1.y + e.2.y) / 2 := by
  cases evs with
  | nil => simp [absOK] at h1
  | cons a t =>
    obtain ⟨a1, b1, n1⟩ := absOK_spec _ a t h1
    obtain ⟨a2, b2, n2⟩ := absOK_spec _ a t h2
    have hpairs := incOK_pairs _ hinc
    rcases lt_trichotomy e.1.x e.2.x with hlt | heq | hgt
    · -- left to right
      have hd : dirOf e = 1 := by simp [dirOf, hlt]
      have hne : e.1.x ≠ e.2.x := ne_of_lt hlt
      have step : ∀ s ∈ slabPairsA (a :: t),
          (if spansE e s.1 s.2 then dirOf e * slabInt e s.1 s.2 else 0) =
            prim e (clamp e.1.x e.2.x s.2) - prim e (clamp e.1.x e.2.x s.1) := by
        intro s hs
        rw [hd, one_mul]
        exact span_term e e.1.x e.2.x s.1 s.2 hlt (Or.inl ⟨rfl, rfl⟩) (hpairs s hs) (n1 s hs) (n2 s hs)
      rw [sum_map_congr' _ _ _ step, sum_clamp (fun x => prim e (clamp e.1.x e.2.x x))]
      have cl : clamp e.1.x e.2.x (lastOf a t) = e.2.x := by
        simp only [clamp]; rw [min_eq_right b2, max_eq_right hlt.le]
      have cf : clamp e.1.x e.2.x a = e.1.x := by
        simp only [clamp]; rw [min_eq_left (by linarith), max_eq_left a1]
      rw [cl, cf]
      have hdn : e.2.x - e.1.x ≠ 0 := sub_ne_zero.2 (Ne.symm hne)
      simp only [prim, yOn, yAt]
      field_simp
      ring
    · -- vertical
      have hd : dirOf e = 0 := by simp [dirOf, heq]
      rw [hd, heq]
      simp
    · have hd : dirOf e = -1 := by
        simp only [dirOf]; rw [if_neg (not_lt.2 hgt.le), if_pos hgt]
      have hne : e.1.x ≠ e.2.x := ne_of_gt hgt
      have step : ∀ s ∈ slabPairsA (a :: t),
          (if spansE e s.1 s.2 then dirOf e * slabInt e s.1 s.2 else 0) =
            (fun x => -prim e (clamp e.2.x e.1.x x)) s.2 - (fun x => -prim e (clamp e.2.x e.1.x x)) s.1 := by
        intro s hs
        have := span_term e e.2.x e.1.x s.1 s.2 hgt (Or.inr ⟨rfl, rfl⟩) (hpairs s hs) (n2 s hs) (n1 s hs)
        rw [hd]
        by_cases hsp : spansE e s.1 s.2 = true
        · rw [if_pos hsp] at this ⊢; simp only; linarith
        · rw [if_neg hsp] at this ⊢; simp only; linarith
      rw [sum_map_congr' _ _ _ step, sum_clamp (fun x => -prim e (clamp e.2.x e.1.x x))]
      have cl : clamp e.2.x e.1.x (lastOf a t) = e.1.x := by
        simp only [clamp]; rw [min_eq_right b1, max_eq_right hgt.le]
      have cf : clamp e.2.x e.1.x a = e.2.x := by
        simp only [clamp]; rw [min_eq_left (by linarith), max_eq_left a2]
      rw [cl, cf]
      have hdn : e.2.x - e.1.x ≠ 0 := sub_ne_zero.2 (Ne.symm hne)
      simp only [prim, yOn, yAt]
      field_simp
      ring

/-! ## Green's identity for weighted edges -/

theorem mem_slabL_sum (W : List WE) (x0 x1 : Rat) (g : WE → Rat) :
    ((slabL W x0 x1).map g).sum = (W.map fun w => if spansE w.1 x0 x1 then g w else 0).sum := by
  rw [slabL, sum_sortByKeyW, sum_filter_ite]

/-- **Green's identity, certified.**  For ANY set `f` and ANY weighted edges `W`: if the walk is accepted,
the total area of the cells whose sample point is in `f` is the weighted sum of the edges' trapezoid terms. -/
theorem green_weighted (f : P → Bool) (W : List WE) (evs : List Rat) (h : areaCertF f W evs = true) :
    cellAreaF f W evs = (W.map fun w => w.2 * ((w.1.1.x - w.1.2.x) * (w.1.1.y + w.1.2.y) / 2)).sum := by
  simp only [areaCertF, Bool.and_eq_true, List.all_eq_true] at h
  obtain ⟨⟨hinc, hW⟩, hsl⟩ := h
  unfold cellAreaF
  have step : ∀ s ∈ slabPairsA evs, cellSum f s.1 s.2 (slabL W s.1 s.2) =
      (W.map fun w => if spansE w.1 s.1 s.2 then wsign w * slabInt w.1 s.1 s.2 else 0).sum := by
    intro s hs
    have := cellSum_alt f s.1 s.2 false _ (hsl s hs).2
    rw [this, mem_slabL_sum]; simp
  rw [sum_map_congr' _ _ _ step, sum_swap]
  apply sum_map_congr'
  intro w hw
  have hw' := hW w hw
  have := edge_total w.1 evs hinc hw'.1 hw'.2
  have e2 : ((slabPairsA evs).map fun s => if spansE w.1 s.1 s.2 then wsign w * slabInt w.1 s.1 s.2 else 0).sum =
      -w.2 * ((slabPairsA evs).map fun s => if spansE w.1 s.1 s.2 then dirOf w.1 * slabInt w.1 s.1 s.2 else 0).sum := by
    generalize slabPairsA evs = S
    induction S with
    | nil => simp
    | cons s t ih =>
      simp only [List.map_cons, List.sum_cons, ih]
      by_cases hsp : spansE w.1 s.1 s.2 = true
      · simp only [if_pos hsp, wsign]; ring
      · simp only [if_neg hsp]; ring
  rw [e2, this]; ring

/-! ## rings: the trapezoid sum of area.go is the shoelace sum -/

theorem tele_edgesFrom (hf : P → Rat) (first : P) (l : List P) :
    ((edgesFrom first l).map fun e => hf e.2 - hf e.1).sum =
      match l with | [] => 0 | x :: _ => hf first - hf x := by
  induction l with
  | nil => simp [edgesFrom]
  | cons x t ih =>
    cases t with
    | nil => simp [edgesFrom]
    | cons y r =>
      simp only [edgesFrom, List.map_cons, List.sum_cons]
      simp only at ih
      rw [ih]; ring

theorem goShoelace_eq (r : Ring) : goShoelace r = shoelace r := by
  have key : ((edges r).map fun e => (fun p : P => p.x * p.y) e.2 - (fun p : P => p.x * p.y) e.1).sum = 0 := by
    cases r with
    | nil => simp [edges]
    | cons h t =>
      simp only [edges]
      have := tele_edgesFrom (fun p : P => p.x * p.y) h (h :: t)
      simpa using this
  have : goShoelace r = shoelace r + ((edges r).map fun e => (fun p : P => p.x * p.y) e.2 - (fun p : P => p.x * p.y) e.1).sum := by
    simp only [goShoelace, shoelace]
    rw [← sum_map_add']
    apply sum_map_congr'
    intro e _
    ring
  rw [this, key, add_zero]

theorem sgn_mul_self (x : Rat) : sgnR x * x = absR x := by
  simp only [sgnR, absR]; split <;> ring

theorem polyW_sum (rs : List Ring) :
    ((polyW rs).map fun w => w.2 * ((w.1.1.x - w.1.2.x) * (w.1.1.y + w.1.2.y) / 2)).sum = polyArea rs := by
  simp only [polyW, polyArea]
  rw [sum_flatMap']
  apply sum_map_congr'
  intro x _
  obtain ⟨r, i⟩ := x
  simp only [List.map_map]
  have : ((edges r).map ((fun w : WE => w.2 * ((w.1.1.x - w.1.2.x) * (w.1.1.y + w.1.2.y) / 2)) ∘
      fun e => (e, holeSign rs i r * sgnR (shoelace r)))).sum =
      holeSign rs i r * sgnR (shoelace r) * shoelace r := by
    simp only [shoelace]
    generalize holeSign rs i r * sgnR _ = c
    induction edges r with
    | nil => simp
    | cons e t ih => simp only [List.map_cons, List.sum_cons, Function.comp, ih]; ring
  rw [this, goShoelace_eq, mul_assoc, sgn_mul_self]

theorem polyArea_rect (mn mx : P) (hx : mn.x < mx.x) (hy : mn.y < mx.y) :
    polyArea [rect mn mx] = (mx.x - mn.x) * (mx.y - mn.y) := by
  have hs : goShoelace (rect mn mx) = (mx.x - mn.x) * (mx.y - mn.y) := by
    simp only [goShoelace, rect, edges, edgesFrom, List.map_cons, List.map_nil, List.sum_cons, List.sum_nil]
    ring
  have hp : 0 < (mx.x - mn.x) * (mx.y - mn.y) := mul_pos (sub_pos.2 hx) (sub_pos.2 hy)
  simp only [polyArea, List.zipIdx_cons, List.zipIdx_nil, List.map_cons, List.map_nil, List.sum_cons, List.sum_nil,
    holeSign, rect, List.eraseIdx_cons_zero, inside]
  simp only [List.foldr_nil, Bool.false_eq_true, if_false, one_mul, add_zero]
  have := hs
  simp only [rect] at this
  rw [this, absR, if_neg (not_lt.2 hp.le)]

theorem operandW_sum (A : Operand) (hb : boxOKc A = true) :
    ((operandW A).map fun w => w.2 * ((w.1.1.x - w.1.2.x) * (w.1.1.y + w.1.2.y) / 2)).sum = exactArea A := by
  simp only [operandW]
  rw [sum_flatMap']
  cases A with
  | poly rs => simp [polygonsOf, exactArea, polyW_sum]
  | multi ps =>
    simp only [polygonsOf, exactArea]
    apply sum_map_congr'
    intro x _
    exact polyW_sum x
  | box mn mx =>
    simp only [boxOKc, Bool.and_eq_true, decide_eq_true_eq] at hb
    simp only [polygonsOf, exactArea, List.map_cons, List.map_nil, List.sum_cons, List.sum_nil, add_zero, polyW_sum]
    exact polyArea_rect mn mx hb.1 hb.2

/-- **C01, the area of the point set is the shoelace area (clause "true areas", one polygon).**  If the
area certificate is accepted for the operand `A` (for ANY candidate event list), the total exact area of the
cells of the slab decomposition whose sample point lies in `A` (even–odd) equals `exactArea A`: what
`Polygon.Area()` / `MultiPolygon.Area()` / `(*Bounds).Area()` compute over the rationals (every ring's
trapezoid-formula area, negative for rings whose first vertex is inside the other rings of its polygon). -/
theorem C01_area_certificate (A : Operand) (evs : List Rat) (h : areaCert A evs = true) :
    cellArea A evs = exactArea A := by
  simp only [areaCert, Bool.and_eq_true] at h
  rw [cellArea, green_weighted _ _ _ h.2, operandW_sum A h.1.1]

/-- non-vacuity: a square with a triangular hole (area 16 - 2), a two-member multi-polygon, a box are
accepted; a bow-tie (point set of area 2, signed ring area 0) is refused -/
example :
    let A : Operand := .poly [[⟨0, 0⟩, ⟨4, 0⟩, ⟨4, 4⟩, ⟨0, 4⟩, ⟨0, 0⟩], [⟨1, 1⟩, ⟨1, 3⟩, ⟨3, 2⟩, ⟨1, 1⟩]]
    let C : Operand := .box ⟨0, 0⟩ ⟨2, 3⟩
    let bow : Operand := .poly [[⟨0, 0⟩, ⟨2, 2⟩, ⟨2, 0⟩, ⟨0, 2⟩]]
    areaCert A (certEvents A A none) = true ∧ cellArea A (certEvents A A none) = 14 ∧ exactArea A = 14 ∧
    areaCert C (certEvents C C none) = true ∧ cellArea C (certEvents C C none) = 6 ∧
    areaCert bow (certEvents bow bow none) = false ∧ cellArea bow (certEvents bow bow none) = 2 ∧ exactArea bow = 0 := by
  decide +kernel

end GeomV.C01
