import GeomV.C01.Model
/-!
# Go constructs used by the regenerated definitions (`Gen.lean`) of C01

`harness/cmd/c01/extract.go` renders the twelve public boolean methods of `Polygon`, `MultiPolygon` and
`*Bounds`, both `op` methods, `clipperOp`, `toPolyClip`, `polyClipToPolygon` and the three `Polygons()`
methods from the Go source of the tree under test into the monad `M = Except Fault` (same constructs as
`GeomV.C14.GenLib`, copied so that the two properties stay independent): every Go construct that can
panic (`a[i]`, `a[i] = v`, `a[lo:hi]`, `make(T, n)`) is a faulting operation, nothing is totalised.
Slices are values (`List`), capacity = length, aliasing is not modelled (the harness observes it).

HAND-WRITTEN here (not regenerated; transcriptions of bounds.go / polygon.go / multipolygon.go, tied by
the correspondence run only): `bounds` (`p.Bounds()` of a Polygonal), `boundsWithin` (`(*Bounds).Within`
with a `*Bounds` argument), `boundsOverlaps` (`(*Bounds).Overlaps`), on boxes that may be the empty box
of `NewBounds()` (`none`: corners `(+Inf,+Inf)`, `(-Inf,-Inf)` have no `Rat` value).

Core Lean only.
-/
namespace GeomV.C01.Go
open GeomV GeomV.C01

inductive Fault
  | indexOutOfRange
  | sliceBounds
  | makeLen
deriving Repr, DecidableEq, Inhabited

abbrev M := Except Fault

/-- `*Bounds` -/
structure Box where
  Min : P
  Max : P

/-- `len(l)` -/
def len {α : Type} (l : List α) : Int := l.length

/-- `l[i]` -/
def idx {α : Type} (l : List α) (i : Int) : M α :=
  if 0 ≤ i then
    match l[i.toNat]? with
    | some v => pure v
    | none => throw .indexOutOfRange
  else throw .indexOutOfRange

/-- `l[i] = v` -/
def setIdx {α : Type} (l : List α) (i : Int) (v : α) : M (List α) :=
  if 0 ≤ i ∧ i < l.length then pure (l.set i.toNat v) else throw .indexOutOfRange

/-- `l[i][j] = v` -/
def setIdx2 {α : Type} (l : List (List α)) (i j : Int) (v : α) : M (List (List α)) := do
  let row ← idx l i
  let row ← setIdx row j v
  setIdx l i row

/-- `l[lo:hi]` (capacity = length) -/
def slice {α : Type} (l : List α) (lo hi : Int) : M (List α) :=
  if 0 ≤ lo ∧ lo ≤ hi ∧ hi ≤ l.length then pure ((l.take hi.toNat).drop lo.toNat) else throw .sliceBounds

/-- `make([]T, n)` -/
def make {α : Type} (n : Int) (z : α) : M (List α) :=
  if 0 ≤ n then pure (List.replicate n.toNat z) else throw .makeLen

/-- `make([]T, n, c)` -/
def make3 {α : Type} (n c : Int) (z : α) : M (List α) :=
  if 0 ≤ n ∧ n ≤ c then pure (List.replicate n.toNat z) else throw .makeLen

def forRangeAux {α σ : Type} (body : σ → Int → α → M σ) : List α → Int → σ → M σ
  | [], _, s => pure s
  | x :: xs, i, s => do
    let s ← body s i x
    forRangeAux body xs (i + 1) s

/-- `for i, x := range xs { body }` with the variables assigned in the body as state -/
def forRange {α σ : Type} (xs : List α) (init : σ) (body : σ → Int → α → M σ) : M σ :=
  forRangeAux body xs 0 init

/-! ## `*Bounds` values and the hand-written box predicates of bounds.go -/

/-- a `*Bounds` that may be the empty box of `NewBounds()` (`none`: Min = (+Inf,+Inf), Max = (-Inf,-Inf)) -/
abbrev OBox := Option (P × P)

def ofBox (b : Box) : OBox := some (b.Min, b.Max)

/-- the type assertion `p.(*Bounds)` -/
def asBounds : Operand → Option Box
  | .box mn mx => some ⟨mn, mx⟩
  | _ => none

/-- `p.Bounds()` of a Polygonal (`Polygon.Bounds`: `NewBounds()` extended by every vertex;
`MultiPolygon.Bounds`: extended by the bounds of every member; `(*Bounds).Bounds`: itself) -/
def bounds (p : Operand) : OBox := boundsOf p

/-- `(*Bounds).Empty` -/
def boxEmpty (a : P × P) : Bool := decide (a.2.x < a.1.x) || decide (a.2.y < a.1.y)

/-- `a.Within(b)` of bounds.go for a `*Bounds` argument: `OnEdge` when the corners are equal, `Inside`
when `a.Min ≥ b.Min` and `a.Max ≤ b.Max` coordinatewise, else `Outside`; for the empty box the
comparisons are those of `±Inf` with finite numbers -/
def boundsWithin : OBox → OBox → WStatus
  | some a, some b =>
    if a.1 = b.1 ∧ a.2 = b.2 then .onEdge
    else if a.1.x ≥ b.1.x ∧ a.1.y ≥ b.1.y ∧ a.2.x ≤ b.2.x ∧ a.2.y ≤ b.2.y then .inside
    else .outside
  | none, some _ => .inside
  | some _, none => .outside
  | none, none => .onEdge

/-- `a.Overlaps(b)` of bounds.go (after fix a2951f8: false when either box is empty) -/
def boundsOverlaps : OBox → OBox → Bool
  | some a, some b =>
    !boxEmpty a && !boxEmpty b &&
      (decide (a.1.x ≤ b.2.x) && decide (a.1.y ≤ b.2.y) && decide (a.2.x ≥ b.1.x) && decide (a.2.y ≥ b.1.y))
  | _, _ => false

end GeomV.C01.Go
