import GeomV.C01.ProofsCert
import GeomV.C01.Prep
/-!
# C01: every cell of the operands' arrangement is asked of the library

`C01_cells_asked`: if `prepCheck A B evs` accepts, every point `p` off both operand boundaries whose
abscissa lies within the events is joined to one of the points `prepPoints A B evs` — the list the
`lean:prep` stage hands to the harness, at each of which the library's `Point.Within(result)` is asked —
by a segment that meets no edge of `A` or `B`.  `C01_every_cell_asked`: hence that asked point has the
same membership in `A`, in `B` and (on a certified case, both points with clear margin) in the result.
-/
set_option linter.unusedSimpArgs false
set_option linter.unusedVariables false
namespace GeomV.C01
open GeomV

theorem gaps_split (lo : Option (P × P)) (L1 L2 : List (P × P)) :
    (lastO lo L1, L2.head?) ∈ gaps lo (L1 ++ L2) := by
  induction L1 generalizing lo with
  | nil =>
    cases L2 with
    | nil => simp [gaps, lastO]
    | cons f t => simp [gaps, lastO]
  | cons a t ih =>
    simp only [List.cons_append, gaps, lastO, List.mem_cons]
    exact Or.inr (ih (some a))

theorem slabs_cover' (chk : Rat → Rat → Bool) (a b : Rat) (t : List Rat) (x : Rat)
    (h : slabsOK chk (a :: b :: t) = true) (h0 : a ≤ x) (h1 : x ≤ lastOf a (b :: t)) :
    ∃ s ∈ slabPairs (a :: b :: t), chk s.1 s.2 = true ∧ s.1 ≤ x ∧ x ≤ s.2 := by
  induction t generalizing a b with
  | nil =>
    simp only [slabsOK, Bool.and_eq_true] at h
    exact ⟨(a, b), by simp [slabPairs], h.1, h0, by simpa [lastOf] using h1⟩
  | cons c t ih =>
    simp only [slabsOK, Bool.and_eq_true] at h
    by_cases hx : x ≤ b
    · exact ⟨(a, b), by simp [slabPairs], h.1, h0, hx⟩
    · have hx' : b ≤ x := (not_le.1 hx).le
      have h' : slabsOK chk (b :: c :: t) = true := by simp only [slabsOK, Bool.and_eq_true]; exact h.2
      obtain ⟨s, hs, r⟩ := ih b c h' hx' (by simpa [lastOf] using h1)
      exact ⟨s, by simp only [slabPairs, List.mem_cons]; exact Or.inr (by simpa [slabPairs] using hs), r⟩

/-- **one slab**: every point of the closed slab off both boundaries is joined by an edge-free
segment to the sample of its gap, and that sample is in the list of the slab -/
theorem prep_slab (A B : Operand) (x0 x1 : Rat) (p : P)
    (h : prepSlabOK A B x0 x1 = true) (px0 : x0 ≤ p.x) (px1 : p.x ≤ x1)
    (oA : onBoundary A.rings p = false) (oB : onBoundary B.rings p = false) :
    ∃ q ∈ (gaps none (prepL A B x0 x1)).filterMap (fun g => gapSample x0 x1 g.1 g.2),
      FreeC A.rings p q ∧ FreeC B.rings p q := by
  simp only [prepSlabOK, Bool.and_eq_true, decide_eq_true_eq] at h
  obtain ⟨⟨⟨hlt, nA⟩, nB⟩, hch, hg⟩ := h
  have hxm0 : x0 < (x0 + x1) / 2 := by linarith
  have hxm1 : (x0 + x1) / 2 < x1 := by linarith
  have memL : ∀ e, e ∈ prepL A B x0 x1 ↔ (e ∈ allEdges A.rings ++ allEdges B.rings ∧ spansE e x0 x1 = true) := by
    intro e; rw [prepL, mem_sortByKey, List.mem_filter]
  generalize hL : prepL A B x0 x1 = L at hch hg memL
  have pw := chain_pairwise x0 x1 L hch
  have pwAt : ∀ x, x0 ≤ x → x ≤ x1 → L.Pairwise (fun e f => yOn e x ≤ yOn f x) :=
    fun x h0 h1 => pw.imp (fun ⟨a0, a1⟩ => le_throughout _ _ x0 x1 x hlt h0 h1 a0 a1)
  have hne : ∀ e ∈ L, yOn e p.x ≠ p.y := by
    intro e he heq
    obtain ⟨hall, hsp⟩ := (memL e).1 he
    have on := onSeg_of_yOn e x0 x1 p hlt hsp px0 px1 heq.symm
    rcases List.mem_append.1 hall with ha | hb
    · rw [onBoundary_of_mem _ e p ha on] at oA; cases oA
    · rw [onBoundary_of_mem _ e p hb on] at oB; cases oB
  obtain ⟨L1, L2, hLeq, below, above⟩ := split_at L p.x p.y (pwAt p.x px0 px1) hne
  have hgap := gapsOK_split _ none L1 L2 (hLeq ▸ hg)
  have hmem : (lastO none L1, L2.head?) ∈ gaps none L := hLeq ▸ gaps_split none L1 L2
  -- a good sample of the gap of p is joined to p
  have finish : ∀ q : P, x0 < q.x → q.x < x1 → (∀ e ∈ L1, yOn e q.x < q.y) → (∀ e ∈ L2, q.y < yOn e q.x) →
      FreeC A.rings p q ∧ FreeC B.rings p q := by
    intro q qx0 qx1 hq1 hq2
    have side : ∀ cs, (∀ e, e ∈ allEdges cs → e ∈ allEdges A.rings ++ allEdges B.rings) →
        SameSide cs x0 x1 p q := by
      intro cs hsub r hr' e he hsp
      have heL : e ∈ L := (memL e).2 ⟨hsub e ((mem_allEdges cs e).2 ⟨r, hr', he⟩), hsp⟩
      have hne' := spansE_ne e x0 x1 hlt hsp
      rw [hLeq] at heL
      rcases List.mem_append.1 heL with h1 | h2
      · exact side_above e hne' p q (below e h1) (hq1 e h1)
      · exact side_below e hne' p q (above e h2) (hq2 e h2)
    exact ⟨slab_cell_free' A.rings x0 x1 p q nA px0 px1 qx0 qx1 oA (side _ (fun e he => List.mem_append.2 (Or.inl he))),
      slab_cell_free' B.rings x0 x1 p q nB px0 px1 qx0 qx1 oB (side _ (fun e he => List.mem_append.2 (Or.inr he)))⟩
  -- the sample exists and is good
  have hs : ∃ q, gapSample x0 x1 (lastO none L1) L2.head? = some q ∧ sampleGood x0 x1 (lastO none L1) L2.head? q = true := by
    simp only [gapAsked, Bool.or_eq_true] at hgap
    rcases hgap with hdeg | hsm
    · -- a degenerate gap cannot contain p
      exfalso
      rcases lastO_mem none L1 with ⟨hl, _⟩ | ⟨e, he, hl⟩
      · rw [hl] at hdeg; simp at hdeg
      · rw [hl] at hdeg
        cases L2 with
        | nil => simp at hdeg
        | cons f t =>
          have hf2 : f ∈ f :: t := by simp
          rw [hLeq] at pw
          have wl : WallLe x0 x1 e f := (List.pairwise_append.1 pw).2.2 e he f hf2
          have sp : yOn e p.x < yOn f p.x := lt_trans (below e he) (above f hf2)
          have sm := lt_inside e f x0 x1 p.x ((x0 + x1) / 2) hlt px0 px1 hxm0 hxm1 wl.1 wl.2 sp
          simp [sm] at hdeg
    · cases hq : gapSample x0 x1 (lastO none L1) L2.head? with
      | none => rw [hq] at hsm; simp at hsm
      | some q => rw [hq] at hsm; exact ⟨q, rfl, hsm⟩
  obtain ⟨q, hq, hgood⟩ := hs
  refine ⟨q, List.mem_filterMap.2 ⟨_, hmem, hq⟩, ?_⟩
  simp only [sampleGood, Bool.and_eq_true, decide_eq_true_eq] at hgood
  obtain ⟨⟨⟨qx0, qx1⟩, glo⟩, ghi⟩ := hgood
  have pwq := pwAt q.x qx0.le qx1.le
  rw [hLeq] at pwq
  have pw1 : L1.Pairwise (fun e f => yOn e q.x ≤ yOn f q.x) := (List.pairwise_append.1 pwq).1
  have pw2 : L2.Pairwise (fun e f => yOn e q.x ≤ yOn f q.x) := (List.pairwise_append.1 pwq).2.1
  apply finish q qx0 qx1
  · intro g hg'
    rcases lastO_mem none L1 with ⟨_, hL1⟩ | ⟨e, he, hl⟩
    · rw [hL1] at hg'; cases hg'
    · have hL1ne : L1 ≠ [] := by intro hh; rw [hh] at he; cases he
      have dom := lastO_dominates (fun e f => yOn e q.x ≤ yOn f q.x) (fun _ => le_refl _) none L1 pw1 e hl hL1ne
      rw [hl] at glo
      have : yOn e q.x < q.y := by simpa using glo
      exact lt_of_le_of_lt (dom g hg') this
  · intro g hg'
    cases L2 with
    | nil => cases hg'
    | cons f t =>
      have hf : q.y < yOn f q.x := by simpa using ghi
      rcases List.mem_cons.1 hg' with rfl | hg'
      · exact hf
      · exact lt_of_lt_of_le hf ((List.pairwise_cons.1 pw2).1 g hg')

def firstOf : List Rat → Rat
  | [] => 0
  | a :: _ => a

def lastOfL : List Rat → Rat
  | [] => 0
  | a :: t => lastOf a t

/-- **C01, every cell of the operands' arrangement is asked (observation point `Point.Within` on results).**
If the hand-over checker accepts, then for EVERY point `p` off both operand boundaries with abscissa within
the events there is a point `q` in the list `prepPoints A B evs` — the list the `lean:prep` stage gives to
the harness, which asks the library `Point.Within(result)` at each — such that the segment `pq` meets no
edge of `A` and no edge of `B`: `q` lies in the same cell of the operands' arrangement. -/
theorem C01_cells_asked (A B : Operand) (evs : List Rat) (h : prepCheck A B evs = true) (p : P)
    (oA : onBoundary A.rings p = false) (oB : onBoundary B.rings p = false)
    (hx0 : firstOf evs ≤ p.x) (hx1 : p.x ≤ lastOfL evs) :
    ∃ q ∈ prepPoints A B evs, FreeC A.rings p q ∧ FreeC B.rings p q := by
  simp only [prepCheck, Bool.and_eq_true, decide_eq_true_eq] at h
  obtain ⟨⟨⟨hA, hB⟩, hlen⟩, hs⟩ := h
  match evs, hlen, hs, hx0, hx1 with
  | a :: b :: t, _, hs, hx0, hx1 =>
    obtain ⟨s, hsm, hchk, h0, h1⟩ := slabs_cover' _ a b t p.x hs hx0 hx1
    obtain ⟨q, hq, fr⟩ := prep_slab A B s.1 s.2 p hchk h0 h1 oA oB
    exact ⟨q, List.mem_flatMap.2 ⟨s, hsm, hq⟩, fr⟩

/-- **C01, the asked point speaks for its whole cell.**  Under the same premise the asked point `q` has the
same membership in `A` and in `B` as `p`; and for ANY result `R` accepted by the certificate checker, if both
points have clear margin, the same membership in `R` — so the library's answer at `q`, judged by
`Spec.withinAgrees`, is the answer for every point of the cell. -/
theorem C01_every_cell_asked (A B : Operand) (evs : List Rat) (h : prepCheck A B evs = true) (p : P)
    (oA : onBoundary A.rings p = false) (oB : onBoundary B.rings p = false)
    (hx0 : firstOf evs ≤ p.x) (hx1 : p.x ≤ lastOfL evs) :
    ∃ q ∈ prepPoints A B evs, member A p = member A q ∧ member B p = member B q ∧
      ∀ (m : Rat) (op : Op) (R : Option Operand) (evs' : List Rat), certCheck m op A B R evs' = true →
        clearOf m A.rings p = true → clearOf m B.rings p = true →
        clearOf m A.rings q = true → clearOf m B.rings q = true → memberRes R p = memberRes R q := by
  have hb := h
  simp only [prepCheck, Bool.and_eq_true, decide_eq_true_eq] at hb
  obtain ⟨q, hq, fA, fB⟩ := C01_cells_asked A B evs h p oA oB hx0 hx1
  have eA := member_const A p q (boxOKc_eq A ▸ hb.1.1.1) fA
  have eB := member_const B p q (boxOKc_eq B ▸ hb.1.1.2) fB
  refine ⟨q, hq, eA, eB, ?_⟩
  intro m op R evs' hc cpA cpB cqA cqB
  rw [C01_certificate_sound m op A B R evs' hc p cpA cpB, C01_certificate_sound m op A B R evs' hc q cqA cqB, eA, eB]

/-- non-vacuity: a square against a triangle that crosses it: accepted, 21 cells -/
example :
    let A : Operand := .poly [[⟨0, 0⟩, ⟨4, 0⟩, ⟨4, 4⟩, ⟨0, 4⟩, ⟨0, 0⟩]]
    let B : Operand := .poly [[⟨1, 1⟩, ⟨6, 2⟩, ⟨3, 7⟩]]
    prepCheck A B (prepEvents A B) = true ∧ (prepPoints A B (prepEvents A B)).length = 21 ∧
    prepCheck A B [0, 6] = false := by decide +kernel

end GeomV.C01
