import GeomV.C01.Proofs
import GeomV.C01.Cert
import Mathlib.Tactic.FieldSimp
/-!
# Lemmas for the soundness of the certificate checker (`Cert.lean`)

A. ordinates of spanning edges are affine in the abscissa; order at both walls ⇒ order throughout;
B. a point of the closed slab that is off all edges sits in exactly one gap of the sorted list;
C. cells: a point of the closed slab and the sample point of its gap are joined by a free segment;
D. `nearSeg` is convex (sliver cells); a point of a segment is a convex combination of its ends;
E. points left / right of all vertices are in no ring.
-/
set_option linter.unusedSimpArgs false
set_option linter.unusedVariables false
namespace GeomV.C01
open GeomV

/-! ## A. ordinates -/

theorem yOn_affine (e : P × P) (x0 x1 t : Rat) :
    yOn e (x0 + t * (x1 - x0)) = (1 - t) * yOn e x0 + t * yOn e x1 := by
  simp only [yOn, yAt]; ring

theorem orient_yOn (e : P × P) (p : P) (h : e.1.x ≠ e.2.x) :
    orient e.1 e.2 p = (e.2.x - e.1.x) * (p.y - yOn e p.x) := by
  have hne : e.2.x - e.1.x ≠ 0 := sub_ne_zero.2 (Ne.symm h)
  simp only [orient, yOn, yAt]
  field_simp
  ring

theorem spansE_ne (e : P × P) (x0 x1 : Rat) (hlt : x0 < x1) (h : spansE e x0 x1 = true) : e.1.x ≠ e.2.x := by
  simp only [spansE, Bool.or_eq_true, Bool.and_eq_true, decide_eq_true_eq] at h
  rcases h with ⟨a, b⟩ | ⟨a, b⟩
  · exact ne_of_lt (by linarith)
  · exact ne_of_gt (by linarith)

/-- write `x ∈ [x0, x1]` as `x0 + t (x1 - x0)` -/
theorem param (x0 x1 x : Rat) (hlt : x0 < x1) (h0 : x0 ≤ x) (h1 : x ≤ x1) :
    ∃ t, 0 ≤ t ∧ t ≤ 1 ∧ x = x0 + t * (x1 - x0) ∧ (x0 < x → 0 < t) ∧ (x < x1 → t < 1) := by
  have hb : 0 < x1 - x0 := sub_pos.2 hlt
  have hne : x1 - x0 ≠ 0 := ne_of_gt hb
  obtain ⟨b0, b1⟩ := frac_bounds (x - x0) (x1 - x0) hb (by linarith) (by linarith)
  refine ⟨(x - x0) / (x1 - x0), b0, b1, ?_, ?_, ?_⟩
  · have : (x - x0) / (x1 - x0) * (x1 - x0) = x - x0 := by field_simp
    linarith
  · intro h; exact div_pos (by linarith) hb
  · intro h; rw [div_lt_iff₀ hb]; linarith

/-- order at both walls ⇒ order throughout the closed slab -/
theorem le_throughout (e f : P × P) (x0 x1 x : Rat) (hlt : x0 < x1) (h0 : x0 ≤ x) (h1 : x ≤ x1)
    (a0 : yOn e x0 ≤ yOn f x0) (a1 : yOn e x1 ≤ yOn f x1) : yOn e x ≤ yOn f x := by
  obtain ⟨t, t0, t1, rfl, _, _⟩ := param x0 x1 x hlt h0 h1
  rw [yOn_affine, yOn_affine]
  nlinarith [mul_nonneg t0 (sub_nonneg.2 a1), mul_nonneg (sub_nonneg.2 t1) (sub_nonneg.2 a0)]

/-- order at both walls and strict somewhere in the closed slab ⇒ strict in the open slab -/
theorem lt_inside (e f : P × P) (x0 x1 x' x : Rat) (hlt : x0 < x1) (h0' : x0 ≤ x') (h1' : x' ≤ x1)
    (h0 : x0 < x) (h1 : x < x1)
    (a0 : yOn e x0 ≤ yOn f x0) (a1 : yOn e x1 ≤ yOn f x1) (s : yOn e x' < yOn f x') : yOn e x < yOn f x := by
  obtain ⟨t', t0', t1', rfl, _, _⟩ := param x0 x1 x' hlt h0' h1'
  obtain ⟨t, t0, t1, rfl, ht0, ht1⟩ := param x0 x1 x hlt h0.le h1.le
  have t0 := ht0 h0
  have t1 := ht1 h1
  rw [yOn_affine, yOn_affine] at s ⊢
  -- d0 = f-e at x0 ≥ 0, d1 ≥ 0, (1-t')d0 + t' d1 > 0 ⇒ d0 > 0 or d1 > 0
  by_cases hd0 : yOn e x0 < yOn f x0
  · nlinarith [mul_pos (sub_pos.2 t1) (sub_pos.2 hd0), mul_nonneg t0.le (sub_nonneg.2 a1)]
  · have e0 : yOn e x0 = yOn f x0 := le_antisymm a0 (not_lt.1 hd0)
    have hd1 : yOn e x1 < yOn f x1 := by
      by_contra hc
      have e1 : yOn e x1 = yOn f x1 := le_antisymm a1 (not_lt.1 hc)
      rw [e0, e1] at s; exact lt_irrefl _ s
    nlinarith [mul_pos t0 (sub_pos.2 hd1), mul_nonneg (sub_nonneg.2 t1.le) (sub_nonneg.2 a0)]

/-- the walls relation -/
def WallLe (x0 x1 : Rat) (e f : P × P) : Prop := yOn e x0 ≤ yOn f x0 ∧ yOn e x1 ≤ yOn f x1

theorem chain_pairwise (x0 x1 : Rat) (L : List (P × P)) (h : chainOK x0 x1 L = true) :
    L.Pairwise (WallLe x0 x1) := by
  induction L with
  | nil => exact List.Pairwise.nil
  | cons e t ih =>
    cases t with
    | nil => exact List.pairwise_singleton _ _
    | cons f t' =>
      simp only [chainOK, Bool.and_eq_true, decide_eq_true_eq] at h
      obtain ⟨⟨h0, h1⟩, hr⟩ := h
      have pw := ih hr
      rw [List.pairwise_cons]
      refine ⟨?_, pw⟩
      intro g hg
      rcases List.mem_cons.1 hg with rfl | hg
      · exact ⟨h0, h1⟩
      · have := (List.pairwise_cons.1 pw).1 g hg
        exact ⟨le_trans h0 this.1, le_trans h1 this.2⟩

/-! ## sorting keeps the elements -/

theorem mem_insByKey (k : P × P → Rat) (e x : P × P) (l : List (P × P)) :
    x ∈ insByKey k e l ↔ x = e ∨ x ∈ l := by
  induction l with
  | nil => simp [insByKey]
  | cons f t ih =>
    simp only [insByKey]
    split
    · simp
    · simp only [List.mem_cons, ih]
      constructor
      · rintro (h | h | h)
        · exact Or.inr (Or.inl h)
        · exact Or.inl h
        · exact Or.inr (Or.inr h)
      · rintro (h | h | h)
        · exact Or.inr (Or.inl h)
        · exact Or.inl h
        · exact Or.inr (Or.inr h)

theorem mem_sortByKey (k : P × P → Rat) (x : P × P) (l : List (P × P)) : x ∈ sortByKey k l ↔ x ∈ l := by
  induction l with
  | nil => simp [sortByKey]
  | cons a t ih =>
    show x ∈ insByKey k a (sortByKey k t) ↔ _
    rw [mem_insByKey, ih]; simp

/-! ## B. the gap of a point -/

theorem split_at (L : List (P × P)) (px py : Rat)
    (hp : L.Pairwise (fun e f => yOn e px ≤ yOn f px)) (hne : ∀ e ∈ L, yOn e px ≠ py) :
    ∃ L1 L2, L = L1 ++ L2 ∧ (∀ e ∈ L1, yOn e px < py) ∧ (∀ e ∈ L2, py < yOn e px) := by
  induction L with
  | nil => exact ⟨[], [], rfl, by simp, by simp⟩
  | cons e t ih =>
    rw [List.pairwise_cons] at hp
    by_cases h : yOn e px < py
    · obtain ⟨L1, L2, rfl, h1, h2⟩ := ih hp.2 (fun g hg => hne g (by simp [hg]))
      refine ⟨e :: L1, L2, rfl, ?_, h2⟩
      intro g hg
      rcases List.mem_cons.1 hg with rfl | hg
      · exact h
      · exact h1 g hg
    · have h' : py < yOn e px := lt_of_le_of_ne (not_lt.1 h) (Ne.symm (hne e (by simp)))
      refine ⟨[], e :: t, rfl, by simp, ?_⟩
      intro g hg
      rcases List.mem_cons.1 hg with rfl | hg
      · exact h'
      · exact lt_of_lt_of_le h' (hp.1 g hg)

/-- the last element of `lo :: l` (as options) -/
def lastO : Option (P × P) → List (P × P) → Option (P × P)
  | lo, [] => lo
  | _, e :: t => lastO (some e) t

theorem gapsOK_split (chk : Option (P × P) → Option (P × P) → Bool) (lo : Option (P × P))
    (L1 L2 : List (P × P)) (h : gapsOK chk lo (L1 ++ L2) = true) : chk (lastO lo L1) L2.head? = true := by
  induction L1 generalizing lo with
  | nil =>
    cases L2 with
    | nil => simpa [gapsOK, lastO] using h
    | cons f t => simp only [List.nil_append, gapsOK, Bool.and_eq_true] at h; simpa [lastO] using h.1
  | cons e t ih =>
    simp only [List.cons_append, gapsOK, Bool.and_eq_true] at h
    exact ih (some e) h.2

theorem lastO_mem (lo : Option (P × P)) (L : List (P × P)) :
    (lastO lo L = lo ∧ L = []) ∨ (∃ e ∈ L, lastO lo L = some e) := by
  induction L generalizing lo with
  | nil => exact Or.inl ⟨rfl, rfl⟩
  | cons a t ih =>
    right
    rcases ih (some a) with ⟨h1, h2⟩ | ⟨e, he, h⟩
    · exact ⟨a, by simp, by simpa [lastO] using h1⟩
    · exact ⟨e, by simp [he], by simpa [lastO] using h⟩

/-- the last element dominates the list (for a reflexive relation that holds pairwise) -/
theorem lastO_dominates (R : P × P → P × P → Prop) (hrefl : ∀ e, R e e) (lo : Option (P × P))
    (L : List (P × P)) (hp : L.Pairwise R) (e : P × P) (h : lastO lo L = some e) (hL : L ≠ []) :
    ∀ g ∈ L, R g e := by
  induction L generalizing lo with
  | nil => exact absurd rfl hL
  | cons a t ih =>
    rw [List.pairwise_cons] at hp
    simp only [lastO] at h
    intro g hg
    by_cases ht : t = []
    · subst ht
      simp only [lastO, Option.some.injEq] at h
      subst h
      have : g = a := by simpa using hg
      subst this; exact hrefl _
    · have hall := ih (some a) hp.2 h ht
      rcases List.mem_cons.1 hg with rfl | hg
      · rcases lastO_mem (some g) t with ⟨_, h2⟩ | ⟨e', he', h'⟩
        · exact absurd h2 ht
        · rw [h] at h'; cases h'; exact hp.1 e he'
      · exact hall g hg

/-! ## D. convexity -/

theorem nearSeg_convex (m : Rat) (a b u v : P) (s : Rat) (s0 : 0 ≤ s) (s1 : s ≤ 1)
    (hu : nearSeg m a b u = true) (hv : nearSeg m a b v = true) : nearSeg m a b (lerp u v s) = true := by
  simp only [nearSeg, Bool.and_eq_true, decide_eq_true_eq] at hu hv ⊢
  obtain ⟨⟨⟨⟨u1, u2⟩, u3⟩, u4⟩, u5⟩ := hu
  obtain ⟨⟨⟨⟨v1, v2⟩, v3⟩, v4⟩, v5⟩ := hv
  have s1' : 0 ≤ 1 - s := sub_nonneg.2 s1
  refine ⟨⟨⟨⟨?_, ?_⟩, ?_⟩, ?_⟩, ?_⟩
  · simp only [lerp]; nlinarith [mul_le_mul_of_nonneg_left u1 s1', mul_le_mul_of_nonneg_left v1 s0]
  · simp only [lerp]; nlinarith [mul_le_mul_of_nonneg_left u2 s1', mul_le_mul_of_nonneg_left v2 s0]
  · simp only [lerp]; nlinarith [mul_le_mul_of_nonneg_left u3 s1', mul_le_mul_of_nonneg_left v3 s0]
  · simp only [lerp]; nlinarith [mul_le_mul_of_nonneg_left u4 s1', mul_le_mul_of_nonneg_left v4 s0]
  · rw [orient_lerp]
    set ou := orient a b u
    set ov := orient a b v
    set K := m * m * ((b.x - a.x) * (b.x - a.x) + (b.y - a.y) * (b.y - a.y))
    have key : ((1 - s) * ou + s * ov) * ((1 - s) * ou + s * ov)
        = (1 - s) * (ou * ou) + s * (ov * ov) - s * (1 - s) * ((ou - ov) * (ou - ov)) := by ring
    rw [key]
    nlinarith [mul_nonneg (mul_nonneg s0 s1') (mul_self_nonneg (ou - ov)),
      mul_le_mul_of_nonneg_left u5 s1', mul_le_mul_of_nonneg_left v5 s0]

/-- a point of a closed segment is a convex combination of its end points -/
theorem lerp_of_onSeg (a b p : P) (h : onSeg a b p = true) : ∃ t, 0 ≤ t ∧ t ≤ 1 ∧ p = lerp a b t := by
  simp only [onSeg, Bool.and_eq_true, decide_eq_true_eq] at h
  obtain ⟨⟨ho, bx⟩, by'⟩ := h
  have e : (b.x - a.x) * (p.y - a.y) = (b.y - a.y) * (p.x - a.x) := by simp only [orient] at ho; linarith
  -- one coordinate direction at a time
  have one : ∀ (u v w : Rat), between u v w = true → u ≠ v →
      0 ≤ (w - u) / (v - u) ∧ (w - u) / (v - u) ≤ 1 := by
    intro u v w hb hne
    simp only [between, Bool.or_eq_true, Bool.and_eq_true, decide_eq_true_eq] at hb
    rcases lt_or_gt_of_ne hne with hlt | hgt
    · have hw : u ≤ w ∧ w ≤ v := by
        rcases hb with hb | hb
        · exact hb
        · exact ⟨by linarith, by linarith⟩
      exact frac_bounds _ _ (sub_pos.2 hlt) (by linarith) (by linarith)
    · have hw : v ≤ w ∧ w ≤ u := by
        rcases hb with hb | hb
        · exact ⟨by linarith, by linarith⟩
        · exact hb
      have : (w - u) / (v - u) = (u - w) / (u - v) := by
        rw [← neg_sub u w, ← neg_sub u v, neg_div_neg_eq]
      rw [this]
      exact frac_bounds _ _ (sub_pos.2 hgt) (by linarith) (by linarith)
  by_cases hx : a.x = b.x
  · by_cases hy : a.y = b.y
    · refine ⟨0, le_refl _, zero_le_one, ?_⟩
      rw [lerp_zero]
      simp only [between, Bool.or_eq_true, Bool.and_eq_true, decide_eq_true_eq, ← hx, ← hy] at bx by'
      apply pt_ext
      · rcases bx with h | h <;> exact le_antisymm h.2 h.1
      · rcases by' with h | h <;> exact le_antisymm h.2 h.1
    · obtain ⟨t0, t1⟩ := one a.y b.y p.y by' hy
      refine ⟨(p.y - a.y) / (b.y - a.y), t0, t1, ?_⟩
      have hne : b.y - a.y ≠ 0 := sub_ne_zero.2 (Ne.symm hy)
      have hpx : p.x = a.x := by
        have : (b.y - a.y) * (p.x - a.x) = 0 := by rw [← e, ← hx]; ring
        rcases mul_eq_zero.1 this with h | h
        · exact absurd h hne
        · linarith
      apply pt_ext
      · simp only [lerp, ← hx]; rw [hpx]; ring
      · simp only [lerp]
        have : (p.y - a.y) / (b.y - a.y) * (b.y - a.y) = p.y - a.y := by field_simp
        linarith
  · obtain ⟨t0, t1⟩ := one a.x b.x p.x bx hx
    refine ⟨(p.x - a.x) / (b.x - a.x), t0, t1, ?_⟩
    have hne : b.x - a.x ≠ 0 := sub_ne_zero.2 (Ne.symm hx)
    apply pt_ext
    · simp only [lerp]
      have : (p.x - a.x) / (b.x - a.x) * (b.x - a.x) = p.x - a.x := by field_simp
      linarith
    · simp only [lerp]
      have : (p.x - a.x) / (b.x - a.x) * (b.y - a.y) = p.y - a.y := by
        field_simp; linarith
      linarith

/-! ## E. left / right of all vertices -/

theorem insideRing_false_of_xout (r : Ring) (lo hi : Rat) (p : P) (hr : ∀ q ∈ r, lo ≤ q.x ∧ q.x ≤ hi)
    (hp : p.x < lo ∨ hi < p.x) : insideRing r p = false := by
  rw [insideRing_def]
  rcases hp with h | h
  · have := xorEdges_congr p (fun e => decide (p.y < e.1.y) ^^ decide (p.y < e.2.y)) (edges r) (by
      intro e he
      have ⟨m1, m2⟩ := mem_edges r e he
      exact crosses_of_x_left e.1 e.2 p (lt_of_lt_of_le h (hr _ m1).1) (lt_of_lt_of_le h (hr _ m2).1))
    rw [this]
    cases r with
    | nil => rfl
    | cons a t =>
      have := telescope (fun v => decide (p.y < v.y)) a a t
      simp only [edges]
      rw [this]; simp
  · apply xorEdges_false_of_all
    intro e he
    have ⟨m1, m2⟩ := mem_edges r e he
    exact crosses_false_of_x_right _ _ _ (lt_of_le_of_lt (hr _ m1).2 h) (lt_of_le_of_lt (hr _ m2).2 h)

theorem inside_false_of_xout (cs : Contours) (lo hi : Rat) (p : P) (hc : xWithin lo hi cs = true)
    (hp : p.x < lo ∨ hi < p.x) : inside cs p = false := by
  induction cs with
  | nil => rfl
  | cons r cs ih =>
    simp only [xWithin, List.all_cons, Bool.and_eq_true] at hc
    have hr : ∀ q ∈ r, lo ≤ q.x ∧ q.x ≤ hi := by
      intro q hq
      have := List.all_eq_true.1 hc.1 q hq
      simpa using this
    rw [inside_cons, insideRing_false_of_xout r lo hi p hr hp, ih (by simpa [xWithin] using hc.2)]
    rfl

end GeomV.C01
