import GeomV.C01.Spec
/-!
# C01/C14 model: the glue between package geom and the external clipper

Function by function after `/repo/polygon.go` (`op`, `clipperOp`, `toPolyClip`, `polyClipToPolygon`),
`/repo/multipolygon.go` (`op`, `Bounds`), `/repo/bounds.go` (`Polygons`, `Within` box–box,
`Overlaps`, `Intersection`, `Union`, `XOr`, `Difference`), `/repo/linestring.go` and
`/repo/multilinestring.go` (`Clip`), and the head of `clipper.compute` in
`github.com/ctessum/polyclip-go@v1.1.0/clipper.go` (the two trivial-case tests).  The sweep itself
is the parameter `core` (DESIGN §4.3): nothing is assumed about it here.

Core Lean only.
-/
namespace GeomV.C01
open GeomV

/-- the clipper's operations (`polyclip.Op`) -/
inductive COp
  | bool (op : Op)
  | clipline
deriving DecidableEq, Repr, Inhabited

/-- the sweep-line part of polyclip (everything after the trivial-case tests) -/
structure ClipCore where
  bool : Op → Contours → Contours → Contours
  line : Contours → Contours → Contours

/-! ## polyclip-go `clipper.compute`, trivial cases -/

/-- `Polygon.Construct(op, clipping)`:
test 1 (an operand has no contours): DIFFERENCE → subject, UNION → the other operand, else empty;
test 2 (bounding boxes do not overlap): DIFFERENCE → subject, UNION → subject then clipping
contours, else empty; otherwise the sweep. -/
def construct (core : ClipCore) (op : COp) (s c : Contours) : Contours :=
  if s.isEmpty || c.isEmpty then
    match op with
    | .bool .diff => s
    | .bool .union => if s.isEmpty then c else s
    | _ => []
  else if !overlaps (bbox s) (bbox c) then
    match op with
    | .bool .diff => s
    | .bool .union => s ++ c
    | _ => []
  else
    match op with
    | .bool o => core.bool o s c
    | .clipline => core.line s c

/-- true when `construct` answers from its tables (the sweep is not run) -/
def trivialCase (s c : Contours) : Bool :=
  s.isEmpty || c.isEmpty || !overlaps (bbox s) (bbox c)

/-! ## package geom -/

/-- `(*Bounds).Polygons`, `Polygon.Polygons`, `MultiPolygon.Polygons` -/
def polygonsOf : Operand → List (List Ring)
  | .poly rs => [rs]
  | .multi ps => ps
  | .box mn mx => [[rect mn mx]]

/-- the loop `for _, x := range p2.Polygons() { pp2 = append(pp2, x.toPolyClip()...) }` -/
def toContours (a : Operand) : Contours :=
  (polygonsOf a).foldl (fun acc pg => acc ++ pg) []

/-- `polyClipToPolygon`, one ring: copy and repeat the first vertex (`pp[i][len(r)] = pp[i][0]`;
for an empty contour that is the zero point) -/
def closeRing : Ring → Ring
  | [] => [⟨0, 0⟩]
  | h :: t => h :: t ++ [h]

def polyClipToPolygon (cs : Contours) : List Ring := cs.map closeRing

/-- `clipperOp` (polygon.go): XOR becomes UNION in exactly the cases in which the clipper answers
from its tables -/
def clipperOp (op : COp) (s c : Contours) : COp :=
  if op = .bool .xor ∧ (s.isEmpty || c.isEmpty || !overlaps (bbox s) (bbox c)) = true then .bool .union
  else op

/-- `Polygon.op` / `MultiPolygon.op` with the receiver already converted -/
def polyOp (core : ClipCore) (op : COp) (s : Contours) (arg : Operand) : List Ring :=
  let c := toContours arg
  polyClipToPolygon (construct core (clipperOp op s c) s c)

/-- the pre-fix glue (kept to state the defect as a theorem) -/
def polyOpUnfixed (core : ClipCore) (op : COp) (s : Contours) (arg : Operand) : List Ring :=
  polyClipToPolygon (construct core op s (toContours arg))

/-- `Bounds()` of an operand; `none` = the empty box of `NewBounds()` -/
def boundsOf : Operand → Option (P × P)
  | .poly rs => bbox rs
  | .multi ps => bbox ps.flatten
  | .box mn mx => some (mn, mx)

/-- `a.Within(b)` for two `*Bounds` is `Inside` or `OnEdge` -/
def boxWithin (a b : P × P) : Bool :=
  decide (a.1.x ≥ b.1.x) && decide (a.1.y ≥ b.1.y) && decide (a.2.x ≤ b.2.x) && decide (a.2.y ≤ b.2.y)

/-- `(*Bounds).Intersection` -/
def boundsIntersection (core : ClipCore) (bmn bmx : P) (p : Operand) : Option Operand :=
  match p with
  | .box pmn pmx =>
    let imn : P := ⟨max bmn.x pmn.x, max bmn.y pmn.y⟩
    let imx : P := ⟨min bmx.x pmx.x, min bmx.y pmx.y⟩
    if imn.x ≥ imx.x ∨ imn.y ≥ imx.y then none else some (.box imn imx)
  | _ =>
    match boundsOf p with
    | none => some p                      -- the empty box is `Inside` every box
    | some bp =>
      if boxWithin bp (bmn, bmx) then some p
      else if !boxOverlaps (bmn, bmx) bp then none
      else some (.poly (polyOp core (.bool .inter) [rect bmn bmx] p))

/-- the twelve public methods: `recv.Intersection/Union/Difference/XOr(arg)` -/
def api (core : ClipCore) (recv arg : Operand) (op : Op) : Option Operand :=
  match recv with
  | .poly rs => some (.poly (polyOp core (.bool op) rs arg))
  | .multi ps => some (.poly (polyOp core (.bool op) (toContours (.multi ps)) arg))
  | .box mn mx =>
    match op with
    | .inter => boundsIntersection core mn mx arg
    | _ => some (.poly (polyOp core (.bool op) [rect mn mx] arg))

def apiUnfixed (core : ClipCore) (recv arg : Operand) (op : Op) : Option Operand :=
  match recv with
  | .poly rs => some (.poly (polyOpUnfixed core (.bool op) rs arg))
  | .multi ps => some (.poly (polyOpUnfixed core (.bool op) (toContours (.multi ps)) arg))
  | .box mn mx =>
    match op with
    | .inter => boundsIntersection core mn mx arg
    | _ => some (.poly (polyOpUnfixed core (.bool op) [rect mn mx] arg))

/-! ## `Clip` (C14) -/

/-- linear receivers -/
inductive Lines
  | line (l : List P)
  | multi (ls : List (List P))
deriving Repr, DecidableEq, Inhabited

/-- the receiver's paths, which `Clip` hands to `op` as the rings of a `Polygon` -/
def Lines.paths : Lines → List (List P)
  | .line l => [l]
  | .multi ls => ls

/-- one line: it becomes the single ring of a `Polygon`, `op(p, CLIPLINE)`, last vertex dropped
(`LineString.Clip`, and the body of the loop of `MultiLineString.Clip`) -/
def clip1 (core : ClipCore) (l : List P) (arg : Operand) : List (List P) :=
  (polyOp core .clipline [l] arg).map fun pp => pp.dropLast

/-- `LineString.Clip` / `MultiLineString.Clip` (after /repo fix 9635cd6 every member line is clipped on
its own and the pieces are concatenated) -/
def clip (core : ClipCore) (L : Lines) (arg : Operand) : List (List P) :=
  L.paths.flatMap fun l => clip1 core l arg

/-- the pre-fix `MultiLineString.Clip`: all members in one clipper call -/
def clipTogether (core : ClipCore) (L : Lines) (arg : Operand) : List (List P) :=
  (polyOp core .clipline L.paths arg).map fun pp => pp.dropLast

end GeomV.C01
