import GeomV.C01.Cert
/-!
# C01: the cells of the operands' arrangement, handed to the harness (`lean:prep`)

`prepPoints A B evs` is one float-representable (dyadic) point strictly inside every cell of the
vertical-slab decomposition of the arrangement of ALL edges of the operands `A` and `B` (bounded and
unbounded cells of every slab).  The `prep` stage of the driver appends these points to the `op` line;
the harness asks the LIBRARY `Point.Within(result)` at each of them and the judge compares every answer
with the truth table (`Spec.withinAgrees`).

`prepCheck A B evs` (a checker, like `certCheck`: the events and the dyadic points are proposed by
untrusted code, `prepEvents` / `dyBetween` / `gapSample`) accepts when consecutive events increase, no
operand vertex lies strictly inside a slab, the spanning edges sorted at the midline are in the same
order at both walls, and every gap that is not degenerate at the midline has a sample point strictly
inside the slab and strictly between its two edges.

`GeomV.C01.C01_cells_asked` (ProofsPrep.lean): acceptance implies that EVERY point off both operand
boundaries (abscissa within the events) is joined to one of the `prepPoints` by a segment that meets no
operand edge — "every cell was asked of the library" is a theorem about the list handed over, not a
property of the harness's choice of probes.

Core Lean only (linked into the driver).
-/
namespace GeomV.C01
open GeomV

/-- untrusted: a dyadic rational near the middle of `(lo, hi)` with few significant bits -/
def dyBetween (lo hi : Rat) : Option Rat :=
  if lo < hi then
    let w := hi - lo
    let c : Nat := (2 / w).ceil.toNat
    let k : Nat := Nat.log2 c + 4
    let s : Rat := ((2 ^ k : Nat) : Rat)
    let d : Rat := (((lo + hi) / 2 * s + 1 / 2).floor : Rat) / s
    if lo < d ∧ d < hi then some d else none
  else none

/-- untrusted: the proposed sample point of the gap `(lo, hi)` of the slab `(x0, x1)` -/
def gapSample (x0 x1 : Rat) (lo hi : Option (P × P)) : Option P :=
  match dyBetween x0 x1 with
  | none => none
  | some xd =>
    match lo, hi with
    | none, none => some ⟨xd, 0⟩
    | some e, none => some ⟨xd, ((yOn e xd).ceil + 1 : Int)⟩
    | none, some f => some ⟨xd, ((yOn f xd).floor - 1 : Int)⟩
    | some e, some f => (dyBetween (yOn e xd) (yOn f xd)).map fun y => ⟨xd, y⟩

/-- `q` lies strictly inside the slab and strictly between the two edges of the gap (at ITS abscissa) -/
def sampleGood (x0 x1 : Rat) (lo hi : Option (P × P)) (q : P) : Bool :=
  decide (x0 < q.x) && decide (q.x < x1) &&
  (match lo with | none => true | some e => decide (yOn e q.x < q.y)) &&
  (match hi with | none => true | some f => decide (q.y < yOn f q.x))

/-- the gap is degenerate at the midline (no cell), or its proposed sample point is good -/
def gapAsked (x0 x1 : Rat) (lo hi : Option (P × P)) : Bool :=
  (match lo, hi with
   | some e, some f => !decide (yOn e ((x0 + x1) / 2) < yOn f ((x0 + x1) / 2))
   | _, _ => false) ||
  (match gapSample x0 x1 lo hi with
   | some q => sampleGood x0 x1 lo hi q
   | none => false)

/-- the operand edges that span the slab, sorted at the midline -/
def prepL (A B : Operand) (x0 x1 : Rat) : List (P × P) :=
  sortByKey (fun e => yOn e ((x0 + x1) / 2)) ((allEdges A.rings ++ allEdges B.rings).filter fun e => spansE e x0 x1)

def prepSlabOK (A B : Operand) (x0 x1 : Rat) : Bool :=
  decide (x0 < x1) && noVtxIn A.rings x0 x1 && noVtxIn B.rings x0 x1 &&
  (chainOK x0 x1 (prepL A B x0 x1) && gapsOK (gapAsked x0 x1) none (prepL A B x0 x1))

/-- the checker of the hand-over -/
def prepCheck (A B : Operand) (evs : List Rat) : Bool :=
  boxOKc A && boxOKc B && decide (2 ≤ evs.length) && slabsOK (prepSlabOK A B) evs

/-- all gaps of a sorted list: below the first edge, between consecutive edges, above the last -/
def gaps : Option (P × P) → List (P × P) → List (Option (P × P) × Option (P × P))
  | lo, [] => [(lo, none)]
  | lo, e :: t => (lo, some e) :: gaps (some e) t

def slabPairs : List Rat → List (Rat × Rat)
  | x0 :: x1 :: t => (x0, x1) :: slabPairs (x1 :: t)
  | _ => []

/-- the points handed to the harness: the sample of every gap of every slab -/
def prepPoints (A B : Operand) (evs : List Rat) : List P :=
  (slabPairs evs).flatMap fun s => (gaps none (prepL A B s.1 s.2)).filterMap fun g => gapSample s.1 s.2 g.1 g.2

/-- untrusted: candidate events of the operands' arrangement -/
def prepEvents (A B : Operand) : List Rat := certEvents A B none

/-! ## float64 bit patterns of dyadic rationals (transport; the judge re-reads the bits exactly) -/

/-- the IEEE-754 binary64 bit pattern whose exact value is `q` (`none` unless `q` is a normal double
or zero); checked by reading the bits back -/
def ratToBits (q : Rat) : Option UInt64 :=
  if q = 0 then some 0 else
  let neg := decide (q < 0)
  let a : Rat := if neg then -q else q
  let n := a.num.toNat; let d := a.den
  -- e2 = floor(log2 a), found from the bit lengths and corrected by one
  let est : Int := (Nat.log2 n : Int) - (Nat.log2 d : Int)
  let pow2 (e : Int) : Rat := if 0 ≤ e then ((2 ^ e.toNat : Nat) : Rat) else 1 / ((2 ^ (-e).toNat : Nat) : Rat)
  let e2 : Int := if a < pow2 est then est - 1 else if pow2 (est + 1) ≤ a then est + 1 else est
  let mant : Rat := a * pow2 (52 - e2)
  let biased : Int := e2 + 1023
  if mant.den = 1 ∧ 1 ≤ biased ∧ biased ≤ 2046 ∧ 2 ^ 52 ≤ mant.num.toNat ∧ mant.num.toNat < 2 ^ 53 then
    let bits : Nat := (if neg then 2 ^ 63 else 0) + biased.toNat * 2 ^ 52 + (mant.num.toNat - 2 ^ 52)
    let u : UInt64 := bits.toUInt64
    if bitsToRat u = some q then some u else none
  else none

end GeomV.C01
