import GeomV.C01.Cert
import GeomV.C01.Model
/-!
# C01: a certificate for "area of the point set = shoelace area" (Green's identity for one polygon)

The inclusion–exclusion identities of the property are about the TRUE areas of the regions.  The true area of
an even–odd point set given by rings is, by definition here, the sum of the exact areas of the cells of a
vertical-slab decomposition whose sample point is in the set (`cellArea`; the set is constant on every cell:
`C01_cells_asked` / `slab_sound`).  `Polygon.Area()` of area.go is a signed sum of shoelace (trapezoid-formula)
ring areas (`exactArea`: `+|S(r)|` for a ring whose first vertex is in an even number of the other rings of
its polygon, `-|S(r)|` for a hole).

`areaCert A evs` walks the slabs along the candidate events `evs` and accepts when consecutive events
increase, every edge end is an event-or-outside of every slab and within `[first, last]`, the spanning
edges sorted at the midline are in the same order at both walls, and going up through the sorted edges
of every slab (i) the sample point of each gap is in the set exactly when an odd number of edges lies below
it, (ii) every edge entered from outside / left towards outside carries the sign that its ring's
orientation and role (shell / hole) give it.

`GeomV.C01.C01_area_certificate` (ProofsArea.lean): acceptance implies `cellArea A evs = exactArea A`
exactly in `Rat` — Green's identity for this polygon, with no hypothesis on simplicity or nesting (a
self-intersecting or wrongly nested operand is refused by (i)/(ii)).

Core Lean only (linked into the driver).
-/
namespace GeomV.C01
open GeomV

/-- an edge with the weight of its ring: `+1` counter-clockwise shell / clockwise hole, `-1` otherwise -/
abbrev WE := (P × P) × Rat

/-- exact integral of the (non-vertical) edge's ordinate over the slab `[x0, x1]` -/
def slabInt (e : P × P) (x0 x1 : Rat) : Rat := (x1 - x0) * (yOn e x0 + yOn e x1) / 2

/-- `+1` left-to-right, `-1` right-to-left, `0` vertical -/
def dirOf (e : P × P) : Rat := if e.1.x < e.2.x then 1 else if e.2.x < e.1.x then -1 else 0

/-- the sign with which the edge's integral enters the area: `-1` for a lower boundary of the set -/
def wsign (w : WE) : Rat := -(w.2 * dirOf w.1)

def midOf (x0 x1 : Rat) (e g : P × P) : P :=
  ⟨(x0 + x1) / 2, (yOn e ((x0 + x1) / 2) + yOn g ((x0 + x1) / 2)) / 2⟩

/-- total area of the cells of one slab whose sample point satisfies `f` -/
def cellSum (f : P → Bool) (x0 x1 : Rat) : List WE → Rat
  | e :: g :: t => (if f (midOf x0 x1 e.1 g.1) then slabInt g.1 x0 x1 - slabInt e.1 x0 x1 else 0) + cellSum f x0 x1 (g :: t)
  | _ => 0

/-- going up through the sorted edges with `b` = "the gap below the head edge is in the set": every edge
flips the state, carries the matching sign, the sample of the gap above it agrees, and the walk ends outside -/
def altOK (f : P → Bool) (x0 x1 : Rat) : Bool → List WE → Bool
  | b, [] => !b
  | b, e :: t =>
    decide (wsign e = if b then 1 else -1) &&
    (match t with | [] => true | g :: _ => f (midOf x0 x1 e.1 g.1) == !b) &&
    altOK f x0 x1 (!b) t

def insByKeyW (k : P × P → Rat) (e : WE) : List WE → List WE
  | [] => [e]
  | f :: t => if k e.1 ≤ k f.1 then e :: f :: t else f :: insByKeyW k e t

def sortByKeyW (k : P × P → Rat) (l : List WE) : List WE := l.foldr (insByKeyW k) []

def slabL (W : List WE) (x0 x1 : Rat) : List WE :=
  sortByKeyW (fun e => yOn e ((x0 + x1) / 2)) (W.filter fun w => spansE w.1 x0 x1)

def slabPairsA : List Rat → List (Rat × Rat)
  | x0 :: x1 :: t => (x0, x1) :: slabPairsA (x1 :: t)
  | _ => []

/-- the abscissa `x` is not strictly inside any slab and lies within `[first, last]` -/
def absOK (x : Rat) : List Rat → Bool
  | [] => false
  | a :: t => decide (a ≤ x) && decide (x ≤ lastOf a t) && (slabPairsA (a :: t)).all fun s => !(decide (s.1 < x) && decide (x < s.2))

def incOK : List Rat → Bool
  | x0 :: x1 :: t => decide (x0 < x1) && incOK (x1 :: t)
  | _ => true

/-- area of the set `{f}` summed over the cells of all slabs -/
def cellAreaF (f : P → Bool) (W : List WE) (evs : List Rat) : Rat :=
  ((slabPairsA evs).map fun s => cellSum f s.1 s.2 (slabL W s.1 s.2)).sum

def areaCertF (f : P → Bool) (W : List WE) (evs : List Rat) : Bool :=
  incOK evs && (W.all fun w => absOK w.1.1.x evs && absOK w.1.2.x evs) &&
  (slabPairsA evs).all fun s =>
    chainOK s.1 s.2 ((slabL W s.1 s.2).map (·.1)) && altOK f s.1 s.2 false (slabL W s.1 s.2)

/-! ## polygons -/

/-- signed area of a ring by the trapezoid formula over its (implicitly closed) edges; `> 0` counter-clockwise -/
def shoelace (r : Ring) : Rat := ((edges r).map fun e => (e.1.x - e.2.x) * (e.1.y + e.2.y) / 2).sum

/-- the formula of area.go (`(x_i + x_{i+1}) (y_{i+1} - y_i) / 2` summed round the ring) -/
def goShoelace (r : Ring) : Rat := ((edges r).map fun e => (e.1.x + e.2.x) * (e.2.y - e.1.y) / 2).sum

def absR (x : Rat) : Rat := if x < 0 then -x else x
def sgnR (x : Rat) : Rat := if x < 0 then -1 else 1

/-- area.go `area`: a ring is a hole iff its first vertex is inside (even–odd) the OTHER rings of its polygon
(the case where that vertex lies on no other ring: `firstOff`) -/
def holeSign (rs : List Ring) (i : Nat) (r : Ring) : Rat :=
  match r with
  | [] => 1
  | v :: _ => if inside (rs.eraseIdx i) v then -1 else 1

/-- `Polygon.Area()` over the rationals -/
def polyArea (rs : List Ring) : Rat :=
  (rs.zipIdx.map fun (r, i) => holeSign rs i r * absR (goShoelace r)).sum

/-- the first vertex of every ring lies on no other ring of the polygon (area.go then decides by it) -/
def firstOff (rs : List Ring) : Bool :=
  rs.zipIdx.all fun (r, i) => match r with | [] => true | v :: _ => !onBoundary (rs.eraseIdx i) v

/-- weighted edges of a polygon: weight = role × orientation of the ring -/
def polyW (rs : List Ring) : List WE :=
  rs.zipIdx.flatMap fun (r, i) => (edges r).map fun e => (e, holeSign rs i r * sgnR (shoelace r))

def operandW (A : Operand) : List WE := (polygonsOf A).flatMap polyW

/-- `Area()` of a Polygonal over the rationals (`MultiPolygon.Area`: the sum over the members; `*Bounds`: w·h) -/
def exactArea : Operand → Rat
  | .poly rs => polyArea rs
  | .multi ps => (ps.map polyArea).sum
  | .box mn mx => (mx.x - mn.x) * (mx.y - mn.y)

/-- the area of the point set of `A`: cells of the slab decomposition whose sample point is in the set -/
def cellArea (A : Operand) (evs : List Rat) : Rat := cellAreaF (inside A.rings) (operandW A) evs

def areaCert (A : Operand) (evs : List Rat) : Bool :=
  boxOKc A && (polygonsOf A).all firstOff && areaCertF (inside A.rings) (operandW A) evs

end GeomV.C01
