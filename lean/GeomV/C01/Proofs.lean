import GeomV.C01.Model
