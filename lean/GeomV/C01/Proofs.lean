import GeomV.C01.Lemmas
import GeomV.C01.Const
/-!
# C01 theorems (property: polygon boolean operations implement point-set semantics)

`core` — the sweep-line part of polyclip-go — is a parameter; `CoreSpec core.bool` is an explicit
hypothesis (checked per generated case by `sampleCheck` in the correspondence run).  Everything else
(conversion of operands, operation selection incl. `clipperOp`, both trivial-case tables, re-closing
of rings, all `*Bounds` shortcuts) is proved, for all inputs.  Level: proof, **partial**.
-/
set_option linter.unusedSimpArgs false
set_option linter.unusedVariables false
namespace GeomV.C01
open GeomV

theorem member_eq_inside (A : Operand) (p : P) (hv : Valid A = true) (ho : offBoundary A p = true) :
    member A p = inside A.rings p := by
  cases A with
  | poly rs => rfl
  | multi ps => simp [member, Operand.rings, inside_flatten]
  | box mn mx =>
    simp only [Valid, Bool.and_eq_true, decide_eq_true_eq] at hv
    simp only [offBoundary, Operand.rings, Bool.not_eq_true'] at ho
    simp only [member, Operand.rings, inside_cons, inside_nil, Bool.xor_false]
    exact (insideRing_rect mn mx p hv.1.1 hv.1.2 ho).symm

/-- membership of an operand without vertices -/
theorem member_of_rings_nil (A : Operand) (p : P) (h : A.rings = []) : member A p = false := by
  cases A with
  | poly rs => simp [Operand.rings] at h; subst h; rfl
  | multi ps =>
    have : inside ps.flatten p = false := by simp [Operand.rings] at h; rw [List.flatten_eq_nil_iff.2 h]; rfl
    simpa [member, inside_flatten] using this
  | box mn mx => simp [Operand.rings] at h

theorem opBool_union_eq_xor (a b : Bool) (h : ¬ (a = true ∧ b = true)) : opBool .union a b = opBool .xor a b := by
  cases a <;> cases b <;> simp_all [opBool]

/-- the clipper call made by `Polygon.op` / `MultiPolygon.op`: tables and sweep -/
theorem construct_pointset (core : ClipCore) (hcore : CoreSpec core.bool) (op : Op) (s c : Contours) (p : P)
    (vs : validC s = true) (vc : validC c = true) (gp : gpC s c = true)
    (os : onBoundary s p = false) (oc : onBoundary c p = false) :
    inside (construct core (clipperOp (.bool op) s c) s c) p = opBool op (inside s p) (inside c p) := by
  by_cases hs : s = []
  · subst hs
    cases op <;> simp [construct, clipperOp, opBool, inside_nil]
  by_cases hc : c = []
  · subst hc
    have : s.isEmpty = false := by cases s <;> simp_all
    cases op <;> simp [construct, clipperOp, opBool, inside_nil, this]
  have es : s.isEmpty = false := by cases s <;> simp_all
  have ec : c.isEmpty = false := by cases c <;> simp_all
  by_cases hov : overlaps (bbox s) (bbox c) = true
  · -- the sweep
    have := hcore op s c hs hc hov vs vc gp p os oc
    cases op <;> simpa [construct, clipperOp, es, ec, hov] using this
  · have hov' : overlaps (bbox s) (bbox c) = false := by simpa using hov
    have nb := not_both_inside s c p hov'
    cases op
    · -- intersection: empty
      simp only [construct, clipperOp, es, ec, hov', opBool]
      simp [inside_nil]
      intro h; by_contra h2; exact nb ⟨h, by simpa using h2⟩
    · simp [construct, clipperOp, es, ec, hov', opBool, inside_append]
      cases h1 : inside s p <;> cases h2 : inside c p <;> simp_all
    · simp [construct, clipperOp, es, ec, hov', opBool]
      cases h1 : inside s p <;> cases h2 : inside c p <;> simp_all
    · simp [construct, clipperOp, es, ec, hov', opBool, inside_append]

theorem polyOp_pointset (core : ClipCore) (hcore : CoreSpec core.bool) (op : Op) (s : Contours) (arg : Operand) (p : P)
    (vs : validC s = true) (vc : validC arg.rings = true) (gp : gpC s arg.rings = true)
    (os : onBoundary s p = false) (oc : onBoundary arg.rings p = false) :
    inside (polyOp core (.bool op) s arg) p = opBool op (inside s p) (inside arg.rings p) := by
  simp only [polyOp, inside_polyClipToPolygon, toContours_eq_rings]
  exact construct_pointset core hcore op s arg.rings p vs vc gp os oc

theorem validC_of_Valid (A : Operand) (h : Valid A = true) : validC A.rings = true := by
  cases A <;> simp_all [Valid, Operand.rings]

theorem strict_of_closed_off (mn mx p : P) (h : inBoxC mn mx p) (hb : onBoundary [rect mn mx] p = false) :
    strictInBox mn mx p = true := by
  obtain ⟨b1, b2, b3, b4⟩ := offRect mn mx p hb
  obtain ⟨h1, h2, h3, h4⟩ := h
  have x1 : mn.x < p.x := lt_of_le_of_ne h1 (fun e => b4 ⟨e.symm, h3, h4⟩)
  have x2 : p.x < mx.x := lt_of_le_of_ne h2 (fun e => b2 ⟨e, h3, h4⟩)
  have y1 : mn.y < p.y := lt_of_le_of_ne h3 (fun e => b1 ⟨e.symm, h1, h2⟩)
  have y2 : p.y < mx.y := lt_of_le_of_ne h4 (fun e => b3 ⟨e, h1, h2⟩)
  simp [strictInBox, x1, x2, y1, y2]

theorem inBoxC_of_strict (mn mx p : P) (h : strictInBox mn mx p = true) : inBoxC mn mx p := by
  simp only [strictInBox, Bool.and_eq_true, decide_eq_true_eq] at h
  exact ⟨h.1.1.1.le, h.1.1.2.le, h.1.2.le, h.2.le⟩

theorem boundsIntersection_nonbox (core : ClipCore) (bmn bmx : P) (arg : Operand) (h : ∀ a b, arg ≠ .box a b) :
    boundsIntersection core bmn bmx arg =
      (match boundsOf arg with
       | none => some arg
       | some bp =>
         if boxWithin bp (bmn, bmx) then some arg
         else if !boxOverlaps (bmn, bmx) bp then none
         else some (.poly (polyOp core (.bool .inter) [rect bmn bmx] arg))) := by
  cases arg with
  | poly rs => rfl
  | multi ps => rfl
  | box a b => exact absurd rfl (h a b)

theorem boundsOf_nonbox (arg : Operand) (h : ∀ a b, arg ≠ .box a b) : boundsOf arg = bbox arg.rings := by
  cases arg with
  | poly rs => rfl
  | multi ps => rfl
  | box a b => exact absurd rfl (h a b)

/-- `(*Bounds).Intersection`: all shortcuts and the delegation -/
theorem boundsIntersection_pointset (core : ClipCore) (hcore : CoreSpec core.bool) (mn mx : P) (arg : Operand) (p : P)
    (hvb : Valid (.box mn mx) = true) (hva : Valid arg = true)
    (hgp : GeneralPosition (.box mn mx) arg = true)
    (hob : offBoundary (.box mn mx) p = true) (hoa : offBoundary arg p = true) :
    memberRes (boundsIntersection core mn mx arg) p = (strictInBox mn mx p && member arg p) := by
  have hb' : onBoundary [rect mn mx] p = false := by simpa [offBoundary, Operand.rings] using hob
  have hvb' := hvb
  simp only [Valid, Bool.and_eq_true, decide_eq_true_eq] at hvb'
  by_cases hbox : ∃ a b, arg = .box a b
  · -- box–box
    obtain ⟨a, b, rfl⟩ := hbox
    simp only [boundsIntersection]
    split
    · -- nil
      rename_i hcond
      simp only [memberRes, member]
      symm
      rw [Bool.and_eq_false_iff]
      by_contra hc
      simp only [not_or, Bool.not_eq_false] at hc
      obtain ⟨s1, s2⟩ := hc
      simp only [strictInBox, Bool.and_eq_true, decide_eq_true_eq] at s1 s2
      rcases hcond with hcond | hcond
      · have : max mn.x a.x < min mx.x b.x := lt_of_lt_of_le (max_lt s1.1.1.1 s2.1.1.1) (le_of_lt (lt_min s1.1.1.2 s2.1.1.2) |> fun h => le_of_lt (lt_min s1.1.1.2 s2.1.1.2)) |> fun _ => lt_trans (max_lt s1.1.1.1 s2.1.1.1) (lt_min s1.1.1.2 s2.1.1.2)
        exact absurd this (not_lt.2 hcond)
      · have : max mn.y a.y < min mx.y b.y := lt_trans (max_lt s1.1.2 s2.1.2) (lt_min s1.2 s2.2)
        exact absurd this (not_lt.2 hcond)
    · simp only [memberRes, member, strictInBox]
      rw [Bool.eq_iff_iff]
      simp only [Bool.and_eq_true, decide_eq_true_eq, max_lt_iff, lt_min_iff]
      constructor
      · rintro ⟨⟨⟨⟨h1, h2⟩, h3, h4⟩, h5, h6⟩, h7, h8⟩
        exact ⟨⟨⟨⟨h1, h3⟩, h5⟩, h7⟩, ⟨⟨h2, h4⟩, h6⟩, h8⟩
      · rintro ⟨⟨⟨⟨h1, h3⟩, h5⟩, h7⟩, ⟨⟨h2, h4⟩, h6⟩, h8⟩
        exact ⟨⟨⟨⟨h1, h2⟩, h3, h4⟩, h5, h6⟩, h7, h8⟩
  · have hnb : ∀ a b, arg ≠ .box a b := fun a b e => hbox ⟨a, b, e⟩
    have hm : member arg p = inside arg.rings p := member_eq_inside arg p hva hoa
    have hoa' : onBoundary arg.rings p = false := by simpa [offBoundary] using hoa
    rw [boundsIntersection_nonbox core mn mx arg hnb, boundsOf_nonbox arg hnb]
    cases hbb : bbox arg.rings with
    | none =>
      simp only [memberRes]
      rw [hm, inside_of_bbox_none _ _ hbb]; simp
    | some bp =>
      obtain ⟨pmn, pmx⟩ := bp
      simp only
      split
      · -- argument's box within the receiver: the argument is returned
        rename_i hw
        simp only [boxWithin, Bool.and_eq_true, decide_eq_true_eq, ge_iff_le] at hw
        simp only [memberRes]
        cases hin : member arg p with
        | false => simp
        | true =>
          rw [hm] at hin
          obtain ⟨mn', mx', e, i1, i2, i3, i4⟩ := inBox_of_inside _ _ hin
          rw [hbb] at e; cases e
          have : inBoxC mn mx p := ⟨le_trans hw.1.1.1 i1, le_trans i2 hw.1.2, le_trans hw.1.1.2 i3, le_trans i4 hw.2⟩
          simp [strict_of_closed_off mn mx p this hb']
      · split
        · -- boxes do not overlap: nil
          rename_i _ hno
          simp only [memberRes]
          symm; rw [Bool.and_eq_false_iff]
          by_contra hc
          simp only [not_or, Bool.not_eq_false] at hc
          obtain ⟨s1, s2⟩ := hc
          rw [hm] at s2
          obtain ⟨mn', mx', e, i1, i2, i3, i4⟩ := inBox_of_inside _ _ s2
          rw [hbb] at e; cases e
          obtain ⟨j1, j2, j3, j4⟩ := inBoxC_of_strict _ _ _ s1
          simp only [boxOverlaps, Bool.not_eq_true', Bool.and_eq_false_iff, decide_eq_false_iff_not, not_le, ge_iff_le] at hno
          rcases hno with ((h | h) | h) | h <;> linarith
        · -- delegation to Polygon.Intersection
          show inside (polyOp core (.bool .inter) [rect mn mx] arg) p = _
          have := polyOp_pointset core hcore .inter [rect mn mx] arg p hvb'.2
            (validC_of_Valid arg hva) (by simpa [GeneralPosition, Operand.rings] using hgp) hb' hoa'
          rw [this, hm]
          simp only [opBool, inside_cons, inside_nil, Bool.xor_false]
          rw [insideRing_rect mn mx p hvb'.1.1 hvb'.1.2 hb']

/-- **C01, clause 1 (point-set semantics).** For every receiver/argument combination in
`{Polygon, MultiPolygon, *Bounds}²` and every operation, for valid operands in general position and
every point off both boundaries: the point lies in `recv.Op(arg)` exactly when the truth table of the
operation says so.  Covers the glue, `clipperOp`, both trivial-case tables of the clipper and all
`*Bounds` shortcuts, for all inputs; conditional on `CoreSpec` for the sweep. -/
theorem C01_pointset (core : ClipCore) (hcore : CoreSpec core.bool) (recv arg : Operand) (op : Op) (p : P)
    (hvr : Valid recv = true) (hva : Valid arg = true) (hgp : GeneralPosition recv arg = true)
    (hor : offBoundary recv p = true) (hoa : offBoundary arg p = true) :
    memberRes (api core recv arg op) p = opBool op (member recv p) (member arg p) := by
  have hmr := member_eq_inside recv p hvr hor
  have hma := member_eq_inside arg p hva hoa
  have hor' : onBoundary recv.rings p = false := by simpa [offBoundary] using hor
  have hoa' : onBoundary arg.rings p = false := by simpa [offBoundary] using hoa
  have key : ∀ s, s = recv.rings →
      inside (polyOp core (.bool op) s arg) p = opBool op (member recv p) (member arg p) := by
    intro s hs
    rw [hmr, hma, ← hs]
    exact polyOp_pointset core hcore op s arg p (hs ▸ validC_of_Valid recv hvr) (validC_of_Valid arg hva)
      (by simpa [GeneralPosition, hs] using hgp) (hs ▸ hor') hoa'
  cases recv with
  | poly rs => exact key rs rfl
  | multi ps => exact key _ (toContours_eq_rings _)
  | box mn mx =>
    cases op with
    | inter =>
      simp only [api]
      rw [boundsIntersection_pointset core hcore mn mx arg p hvr hva hgp hor hoa]
      rfl
    | union => exact key _ rfl
    | diff => exact key _ rfl
    | xor => exact key _ rfl

/-! ## even–odd membership is the natural reading for well-nested operands -/

theorem xorFold_of_atMostOne (bs : List Bool) (h : atMostOne bs = true) :
    bs.foldr (fun b acc => b ^^ acc) false = bs.any id := by
  induction bs with
  | nil => rfl
  | cons b r ih =>
    simp only [atMostOne, Bool.and_eq_true, Bool.or_eq_true, Bool.not_eq_true'] at h
    have := ih h.2
    simp only [List.foldr_cons, List.any_cons, id, this]
    rcases h.1 with h1 | h1
    · simp [h1]
    · simp [h1]

theorem inside_eq_foldr_map (hs : List Ring) (p : P) :
    inside hs p = (hs.map fun h => insideRing h p).foldr (fun b acc => b ^^ acc) false := by
  induction hs with
  | nil => rfl
  | cons h hs ih => simp [inside_cons, ih]

theorem memberPoly_natural (rs : List Ring) (p : P) (h : nestedAt rs p = true) :
    inside rs p = memberPolyNat rs p := by
  cases rs with
  | nil => rfl
  | cons shell holes =>
    simp only [nestedAt, Bool.and_eq_true] at h
    obtain ⟨hin, hone⟩ := h
    have e : inside holes p = (holes.any fun h => insideRing h p) := by
      rw [inside_eq_foldr_map, xorFold_of_atMostOne _ hone]; simp [List.any_map]
    rw [inside_cons, e]
    simp only [memberPolyNat]
    cases ha : (holes.any fun h => insideRing h p) with
    | false => simp
    | true =>
      obtain ⟨hole, hm, hi⟩ := List.any_eq_true.1 ha
      have := List.all_eq_true.1 hin hole hm
      simp [hi] at this
      simp [this]

/-- **Spec bridge.** Where holes lie in their shells, holes are disjoint and member polygons are
disjoint, the even–odd rule over all rings is "in some member's shell and in none of its holes". -/
theorem member_eq_memberNat (A : Operand) (p : P) (h : wellNestedAt A p = true) : member A p = memberNat A p := by
  cases A with
  | poly rs => exact memberPoly_natural rs p h
  | box mn mx => rfl
  | multi ps =>
    simp only [wellNestedAt, Bool.and_eq_true] at h
    obtain ⟨hall, hone⟩ := h
    have e : ∀ qs : List (List Ring), (∀ rs ∈ qs, nestedAt rs p = true) →
        qs.foldr (fun rs acc => inside rs p ^^ acc) false =
          (qs.map fun rs => memberPolyNat rs p).foldr (fun b acc => b ^^ acc) false := by
      intro qs hq
      induction qs with
      | nil => rfl
      | cons a qs ih =>
        simp only [List.foldr_cons, List.map_cons]
        rw [memberPoly_natural a p (hq a (by simp)), ih (fun rs hr => hq rs (by simp [hr]))]
    simp only [member, memberNat]
    rw [e ps (fun rs hr => List.all_eq_true.1 hall rs hr), xorFold_of_atMostOne _ hone]
    simp [List.any_map]

/-- `C01_pointset` in the natural reading of the operands -/
theorem C01_pointset_natural (core : ClipCore) (hcore : CoreSpec core.bool) (recv arg : Operand) (op : Op) (p : P)
    (hvr : Valid recv = true) (hva : Valid arg = true) (hgp : GeneralPosition recv arg = true)
    (hor : offBoundary recv p = true) (hoa : offBoundary arg p = true)
    (hnr : wellNestedAt recv p = true) (hna : wellNestedAt arg p = true) :
    memberRes (api core recv arg op) p = opBool op (memberNat recv p) (memberNat arg p) := by
  rw [← member_eq_memberNat recv p hnr, ← member_eq_memberNat arg p hna]
  exact C01_pointset core hcore recv arg op p hvr hva hgp hor hoa

/-! ## inclusion–exclusion, pointwise -/

/-- indicator -/
def ind (b : Bool) : Int := if b then 1 else 0

/-- **C01, inclusion–exclusion (pointwise form).** At every point off both boundaries the indicator
functions of the four results satisfy `1[A∪B] + 1[A∩B] = 1[A] + 1[B]`, `1[A∖B] = 1[A] − 1[A∩B]`,
`1[AΔB] = 1[A∪B] − 1[A∩B]`; integrating over the plane (not formalised: the boundaries are null
sets) gives the area identities of the statement, which T2 checks numerically on `Polygonal.Area()`. -/
theorem C01_inclusion_exclusion_pointwise (core : ClipCore) (hcore : CoreSpec core.bool) (A B : Operand) (p : P)
    (hvr : Valid A = true) (hva : Valid B = true) (hgp : GeneralPosition A B = true)
    (hor : offBoundary A p = true) (hoa : offBoundary B p = true) :
    ind (memberRes (api core A B .union) p) + ind (memberRes (api core A B .inter) p)
      = ind (member A p) + ind (member B p) ∧
    ind (memberRes (api core A B .diff) p) = ind (member A p) - ind (memberRes (api core A B .inter) p) ∧
    ind (memberRes (api core A B .xor) p)
      = ind (memberRes (api core A B .union) p) - ind (memberRes (api core A B .inter) p) := by
  rw [C01_pointset core hcore A B .union p hvr hva hgp hor hoa, C01_pointset core hcore A B .inter p hvr hva hgp hor hoa,
    C01_pointset core hcore A B .diff p hvr hva hgp hor hoa, C01_pointset core hcore A B .xor p hvr hva hgp hor hoa]
  cases member A p <;> cases member B p <;> decide

/-! ## one sample decides a cell -/

/-- a box operand is non-degenerate (polygons: no condition) -/
def boxOK : Operand → Bool
  | .box mn mx => decide (mn.x < mx.x) && decide (mn.y < mx.y)
  | _ => true

theorem member_eq_inside_boxOK (A : Operand) (p : P) (hv : boxOK A = true)
    (ho : onBoundary A.rings p = false) : member A p = inside A.rings p := by
  cases A with
  | poly rs => rfl
  | multi ps => simp [member, Operand.rings, inside_flatten]
  | box mn mx =>
    simp only [boxOK, Bool.and_eq_true, decide_eq_true_eq] at hv
    simp only [Operand.rings] at ho
    simp only [member, Operand.rings, inside_cons, inside_nil, Bool.xor_false]
    exact (insideRing_rect mn mx p hv.1 hv.2 ho).symm

/-- membership in an operand is constant along a segment that does not meet its boundary -/
theorem member_const (A : Operand) (p q : P) (hv : boxOK A = true) (hf : FreeC A.rings p q) :
    member A p = member A q := by
  have hp : onBoundary A.rings p = false := by have := hf 0 (le_refl _) zero_le_one; rwa [lerp_zero] at this
  have hq : onBoundary A.rings q = false := by have := hf 1 zero_le_one (le_refl _); rwa [lerp_one] at this
  rw [member_eq_inside_boxOK A p hv hp, member_eq_inside_boxOK A q hv hq]
  exact inside_const A.rings p q hf

/-- rings of a result -/
def resRings : Option Operand → Contours
  | none => []
  | some o => o.rings

def resOK : Option Operand → Bool
  | none => true
  | some o => boxOK o

/-- **One sample per cell decides the cell** (`sample_cell_const`). If the closed segment `pq` meets no
edge of `A`, of `B` or of the result `R` — e.g. `p`, `q` in the same open cell of the arrangement of
all these edges, cells of the slab decomposition being convex — then the result is right at `p` iff
it is right at `q`.  So the per-case oracle's verdict at the sample point of a cell holds on the
whole cell.  (Missing for `slabCheck_sound`: that the slab/ordering construction enumerates cells
that are indeed free of edges, and the treatment of the sliver cells created by rounded result
vertices.) -/
theorem sample_cell_const (op : Op) (A B : Operand) (R : Option Operand) (p q : P)
    (hA : boxOK A = true) (hB : boxOK B = true) (hR : resOK R = true)
    (fA : FreeC A.rings p q) (fB : FreeC B.rings p q) (fR : FreeC (resRings R) p q) :
    (memberRes R p = opBool op (member A p) (member B p)) ↔
    (memberRes R q = opBool op (member A q) (member B q)) := by
  have eR : memberRes R p = memberRes R q := by
    cases R with
    | none => rfl
    | some o => exact member_const o p q hR fR
  rw [eR, member_const A p q hA fA, member_const B p q hB fB]

/-! ## the cells of the slab decomposition are free of edges -/

/-- the edge's abscissae cover the slab `[x0, x1]` -/
def spans (e : P × P) (x0 x1 : Rat) : Bool :=
  (decide (e.1.x ≤ x0) && decide (x1 ≤ e.2.x)) || (decide (e.2.x ≤ x0) && decide (x1 ≤ e.1.x))

/-- no vertex has its abscissa strictly inside the slab (slab between consecutive events) -/
def noVertexInside (cs : Contours) (x0 x1 : Rat) : Bool :=
  cs.all fun r => r.all fun v => !(decide (x0 < v.x) && decide (v.x < x1))

/-- `p`, `q` in the open slab, strictly on the same side of every edge that spans it (the cell of
the slab decomposition: the gap between two consecutive spanning edges) -/
def sameCell (cs : Contours) (x0 x1 : Rat) (p q : P) : Bool :=
  decide (x0 < p.x) && decide (p.x < x1) && decide (x0 < q.x) && decide (q.x < x1) &&
  cs.all fun r => (edges r).all fun e =>
    !spans e x0 x1 || (decide (sgn (orient e.1 e.2 p) = sgn (orient e.1 e.2 q)) && decide (sgn (orient e.1 e.2 p) ≠ 0))

theorem sgn_same {u v : Rat} (h : sgn u = sgn v) (hne : sgn u ≠ 0) : (0 < u ∧ 0 < v) ∨ (u < 0 ∧ v < 0) := by
  unfold sgn at h hne
  by_cases h1 : 0 < u
  · by_cases h2 : 0 < v
    · exact Or.inl ⟨h1, h2⟩
    · simp only [h1, h2, if_true, if_false] at h
      by_cases h3 : v < 0 <;> simp [h3] at h
  · by_cases h3 : u < 0
    · by_cases h2 : 0 < v
      · simp [h1, h3, h2] at h
      · by_cases h4 : v < 0
        · exact Or.inr ⟨h3, h4⟩
        · simp [h1, h3, h2, h4] at h
    · simp [h1, h3] at hne

/-- **cells of a slab are free of edges**: in a slab that contains no vertex, two points that lie
strictly on the same side of every spanning edge are joined by a segment that meets no edge -/
theorem slab_cell_free (cs : Contours) (x0 x1 : Rat) (p q : P)
    (hnv : noVertexInside cs x0 x1 = true) (hc : sameCell cs x0 x1 p q = true) : FreeC cs p q := by
  simp only [sameCell, Bool.and_eq_true, decide_eq_true_eq] at hc
  obtain ⟨⟨⟨⟨px0, px1⟩, qx0⟩, qx1⟩, hall⟩ := hc
  intro s s0 s1
  by_contra hb
  have hb : onBoundary cs (lerp p q s) = true := by simpa using hb
  simp only [onBoundary, List.any_eq_true] at hb
  obtain ⟨r, hr, e, he, hon⟩ := hb
  have mx0 : x0 < (lerp p q s).x := by
    simp only [lerp]; nlinarith [mul_nonneg s0 (sub_nonneg.2 qx0.le), mul_nonneg (sub_nonneg.2 s1) (sub_nonneg.2 px0.le)]
  have mx1 : (lerp p q s).x < x1 := by
    simp only [lerp]; nlinarith [mul_nonneg s0 (sub_nonneg.2 qx1.le), mul_nonneg (sub_nonneg.2 s1) (sub_nonneg.2 px1.le)]
  obtain ⟨m1, m2⟩ := mem_edges r e he
  have nv : ∀ v ∈ r, ¬ (x0 < v.x ∧ v.x < x1) := by
    intro v hv
    simp only [noVertexInside, List.all_eq_true, Bool.not_eq_true', Bool.and_eq_false_iff,
      decide_eq_false_iff_not] at hnv
    rcases hnv r hr v hv with h | h
    · exact fun hh => h hh.1
    · exact fun hh => h hh.2
  have hsp : spans e x0 x1 = true := by
    simp only [onSeg, between, Bool.and_eq_true, Bool.or_eq_true, decide_eq_true_eq] at hon
    simp only [spans, Bool.or_eq_true, Bool.and_eq_true, decide_eq_true_eq]
    have n1 := nv e.1 m1
    have n2 := nv e.2 m2
    rcases hon.1.2 with ⟨a1, a2⟩ | ⟨a1, a2⟩
    · left
      constructor
      · by_contra hc; rw [not_le] at hc; exact n1 ⟨hc, by linarith⟩
      · by_contra hc; rw [not_le] at hc; exact n2 ⟨by linarith, hc⟩
    · right
      constructor
      · by_contra hc; rw [not_le] at hc; exact n2 ⟨hc, by linarith⟩
      · by_contra hc; rw [not_le] at hc; exact n1 ⟨by linarith, hc⟩
  have hs := List.all_eq_true.1 (List.all_eq_true.1 hall r hr) e he
  simp only [hsp, Bool.not_true, Bool.false_or, Bool.and_eq_true, decide_eq_true_eq] at hs
  have ho : orient e.1 e.2 (lerp p q s) = 0 := by
    simp only [onSeg, Bool.and_eq_true, decide_eq_true_eq] at hon; exact hon.1.1
  rw [orient_lerp] at ho
  rcases sgn_same hs.1 hs.2 with ⟨a, b⟩ | ⟨a, b⟩
  · rcases eq_or_lt_of_le s0 with rfl | s0'
    · simp at ho; linarith
    · nlinarith [mul_pos s0' b, mul_nonneg (sub_nonneg.2 s1) a.le]
  · rcases eq_or_lt_of_le s0 with rfl | s0'
    · simp at ho; linarith
    · nlinarith [mul_neg_of_pos_of_neg s0' b, mul_nonneg (sub_nonneg.2 s1) (neg_nonneg.2 a.le)]

/-- **a checked cell is certified** (`slabCell_sound`): let the slab `(x0,x1)` contain no vertex of
`A`, `B` or the result `R`; if the result is right at the sample point `q`, it is right at every
point `p` of the same cell.  What is still missing for `slabCheck_sound` (acceptance of the whole
check ⇒ right at every off-boundary point off the event abscissae): (i) that the gaps enumerated at
the slab's midline are all the cells (the order of the spanning edges does not change inside a slab
because all crossings are events — an intermediate-value argument per pair of edges), and (ii) the
sliver cells skipped by the margin filter, which no exact checker can certify since the result's
vertices are rounded. -/
theorem slabCell_sound (op : Op) (A B : Operand) (R : Option Operand) (x0 x1 : Rat) (p q : P)
    (hA : boxOK A = true) (hB : boxOK B = true) (hR : resOK R = true)
    (nA : noVertexInside A.rings x0 x1 = true) (nB : noVertexInside B.rings x0 x1 = true)
    (nR : noVertexInside (resRings R) x0 x1 = true)
    (cA : sameCell A.rings x0 x1 p q = true) (cB : sameCell B.rings x0 x1 p q = true)
    (cR : sameCell (resRings R) x0 x1 p q = true)
    (hq : memberRes R q = opBool op (member A q) (member B q)) :
    memberRes R p = opBool op (member A p) (member B p) :=
  (sample_cell_const op A B R p q hA hB hR (slab_cell_free _ x0 x1 p q nA cA)
    (slab_cell_free _ x0 x1 p q nB cB) (slab_cell_free _ x0 x1 p q nR cR)).2 hq

/-! ## clause 2: closed rings -/

theorem closeRing_closed (r : Ring) : closeRing r ≠ [] ∧ (closeRing r).head? = (closeRing r).getLast? := by
  cases r with
  | nil => simp [closeRing]
  | cons h t =>
    refine ⟨by simp [closeRing], ?_⟩
    show some h = ((h :: t) ++ [h]).getLast?
    rw [List.getLast?_concat]

/-- the result of a `Polygon` / `MultiPolygon` receiver -/
def polyResult (core : ClipCore) (recv arg : Operand) (op : Op) : List Ring :=
  polyOp core (.bool op) (toContours recv) arg

/-- **C01, clause 2 (closed rings).** Whatever the sweep returns, every ring of a result computed
from a `Polygon` or `MultiPolygon` receiver is non-empty with first vertex = last vertex, and the
result is a `Polygon` (never `nil`). -/
theorem C01_closed (core : ClipCore) (recv arg : Operand) (op : Op) (hr : ∀ a b, recv ≠ .box a b) :
    api core recv arg op = some (.poly (polyResult core recv arg op)) ∧
    ∀ r ∈ polyResult core recv arg op, r ≠ [] ∧ r.head? = r.getLast? := by
  constructor
  · cases recv with
    | poly rs => simp [api, polyResult, toContours_eq_rings, Operand.rings]
    | multi ps => rfl
    | box a b => exact absurd rfl (hr a b)
  · intro r hr'
    simp only [polyResult, polyOp, polyClipToPolygon, List.mem_map] at hr'
    obtain ⟨r0, _, rfl⟩ := hr'
    exact closeRing_closed r0

/-! ## clause 3: an empty result only when the true result is empty -/

/-- the result has no ring (Go: `nil`, or a polygon / multi-polygon with zero rings) -/
def resultEmpty : Option Operand → Bool
  | none => true
  | some o => o.rings.isEmpty

/-- **C01, clause 3.** Under the hypotheses of `C01_pointset`: if the result is `nil` or has zero
rings, then no point off the boundaries lies in the true result (it has no area). -/
theorem C01_empty_only_if_null (core : ClipCore) (hcore : CoreSpec core.bool) (recv arg : Operand) (op : Op)
    (hvr : Valid recv = true) (hva : Valid arg = true) (hgp : GeneralPosition recv arg = true)
    (he : resultEmpty (api core recv arg op) = true) (p : P)
    (hor : offBoundary recv p = true) (hoa : offBoundary arg p = true) :
    opBool op (member recv p) (member arg p) = false := by
  rw [← C01_pointset core hcore recv arg op p hvr hva hgp hor hoa]
  cases h : api core recv arg op with
  | none => rfl
  | some o =>
    rw [h] at he
    simp only [resultEmpty, List.isEmpty_iff] at he
    exact member_of_rings_nil o p he

/-! ## the defect repaired by /repo commit 5100704, on the model of the pre-fix glue -/

def unitC : Contours := [[⟨0, 0⟩, ⟨1, 0⟩, ⟨1, 1⟩, ⟨0, 1⟩, ⟨0, 0⟩]]
def farC : Contours := [[⟨5, 5⟩, ⟨6, 5⟩, ⟨6, 6⟩, ⟨5, 6⟩, ⟨5, 5⟩]]
def unitSq : Operand := .poly unitC
def farSq : Operand := .poly farC
theorem trivial_witness : trivialCase unitC farC = true := by decide +kernel

theorem construct_of_trivial (core : ClipCore) (op : COp) (s c : Contours) (h : trivialCase s c = true) :
    construct core op s c =
      (if s.isEmpty || c.isEmpty then
        (match op with | .bool .diff => s | .bool .union => if s.isEmpty then c else s | _ => [])
       else (match op with | .bool .diff => s | .bool .union => s ++ c | _ => [])) := by
  unfold construct
  by_cases h1 : (s.isEmpty || c.isEmpty) = true
  · cases op with
    | clipline => simp [h1]
    | bool o => cases o <;> simp [h1]
  · have h2 : (!overlaps (bbox s) (bbox c)) = true := by
      simp only [trivialCase, Bool.or_eq_true] at h
      rcases h with h | h
      · exact absurd h (by simpa using h1)
      · exact h
    cases op with
    | clipline => simp [h1, h2]
    | bool o => cases o <;> simp [h1, h2]

/-- **Negation for the pre-fix glue (witness of DESIGN §1.1):** whatever the sweep does, the unit
square `.XOr` the square at (5,5) has zero rings although (1/2,1/2) lies in exactly one operand. -/
theorem C01_xor_defect_before_fix (core : ClipCore) :
    apiUnfixed core unitSq farSq .xor = some (.poly []) ∧
    opBool .xor (member unitSq ⟨1/2, 1/2⟩) (member farSq ⟨1/2, 1/2⟩) = true := by
  constructor
  · show some (Operand.poly (polyClipToPolygon (construct core (.bool .xor) unitC farC))) = _
    rw [construct_of_trivial core _ _ _ trivial_witness]
    simp [unitC, farC, polyClipToPolygon]
  · decide +kernel

/-! ## non-vacuity of the hypotheses -/

example : Valid unitSq = true ∧ Valid farSq = true ∧ GeneralPosition unitSq farSq = true ∧
    offBoundary unitSq ⟨1/2, 1/2⟩ = true ∧ offBoundary farSq ⟨1/2, 1/2⟩ = true := by decide +kernel

example : Valid (.box ⟨0, 0⟩ ⟨2, 2⟩) = true ∧
    Valid (.multi [[[⟨1, 1⟩, ⟨3, 1⟩, ⟨3, 3⟩, ⟨1, 3⟩]], [[⟨5, 5⟩, ⟨6, 5⟩, ⟨5, 6⟩]]]) = true ∧
    GeneralPosition (.box ⟨0, 0⟩ ⟨2, 2⟩) (.multi [[[⟨1, 1⟩, ⟨3, 1⟩, ⟨3, 3⟩, ⟨1, 3⟩]], [[⟨5, 5⟩, ⟨6, 5⟩, ⟨5, 6⟩]]]) = true := by
  decide +kernel

/-- the shape of `CoreSpec` is consistent: its XOR clause is met, for all inputs, by concatenating the
contour lists (even–odd membership is additive); no instance for the other operations is constructed
— that would be a verified clipper — so the non-vacuity of `CoreSpec` as a whole rests on the
per-case oracle verdicts of the correspondence run -/
example (s c : Contours) (p : P) : inside (s ++ c) p = opBool .xor (inside s p) (inside c p) := by
  simp [inside_append, opBool]

/-- the cell hypotheses of `slab_cell_free` / `slabCell_sound` are satisfiable -/
example : noVertexInside unitC 0 1 = true ∧ sameCell unitC 0 1 ⟨1/4, 1/2⟩ ⟨3/4, 1/4⟩ = true := by decide +kernel

/-- the fixed glue on the same witness: both squares come back (for every sweep core) -/
example (core : ClipCore) : api core unitSq farSq .xor = some (.poly
    [[⟨0, 0⟩, ⟨1, 0⟩, ⟨1, 1⟩, ⟨0, 1⟩, ⟨0, 0⟩, ⟨0, 0⟩], [⟨5, 5⟩, ⟨6, 5⟩, ⟨6, 6⟩, ⟨5, 6⟩, ⟨5, 5⟩, ⟨5, 5⟩]]) := by
  have hc : clipperOp (.bool .xor) unitC farC = .bool .union := by
    have ht := trivial_witness
    simp only [clipperOp, trivialCase] at ht ⊢
    simp [ht]
  show some (Operand.poly (polyClipToPolygon (construct core (clipperOp (.bool .xor) unitC farC) unitC farC))) = _
  rw [hc, construct_of_trivial core _ _ _ trivial_witness]
  simp [unitC, farC, polyClipToPolygon, closeRing]

end GeomV.C01
