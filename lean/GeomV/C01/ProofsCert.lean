import GeomV.C01.CertLemmas
/-!
# C01: the certificate checker is sound

`C01_certificate_sound`: if `certCheck m op A B R evs` accepts (for ANY candidate event list `evs`),
then membership in the result `R` equals the truth table of `op` at EVERY point that has clear margin
`m` from every edge of `A` and of `B` — the quantifier of the property ("all test points with a clear
margin from every input edge").  `C01_certificate_exact`: with `m = 0`, at every point off both
input boundaries (the conclusion of `CoreSpec` for this case).  So an accepted case is a proof of the
sweep contract for that case, not a sample.  No validity / general-position hypothesis is needed.
-/
set_option linter.unusedSimpArgs false
set_option linter.unusedVariables false
namespace GeomV.C01
open GeomV

/-! ## points on spanning edges -/

theorem frac_between (u v w : Rat) (hb : between u v w = true) (hne : u ≠ v) :
    0 ≤ (w - u) / (v - u) ∧ (w - u) / (v - u) ≤ 1 := by
  simp only [between, Bool.or_eq_true, Bool.and_eq_true, decide_eq_true_eq] at hb
  rcases lt_or_gt_of_ne hne with hlt | hgt
  · have hw : u ≤ w ∧ w ≤ v := by
      rcases hb with hb | hb
      · exact hb
      · exact ⟨by linarith, by linarith⟩
    exact frac_bounds _ _ (sub_pos.2 hlt) (by linarith) (by linarith)
  · have hw : v ≤ w ∧ w ≤ u := by
      rcases hb with hb | hb
      · exact ⟨by linarith, by linarith⟩
      · exact hb
    have : (w - u) / (v - u) = (u - w) / (u - v) := by
      rw [← neg_sub u w, ← neg_sub u v, neg_div_neg_eq]
    rw [this]
    exact frac_bounds _ _ (sub_pos.2 hgt) (by linarith) (by linarith)

/-- a point of the closed slab at the ordinate of a spanning edge lies on that edge -/
theorem onSeg_of_yOn (e : P × P) (x0 x1 : Rat) (p : P) (hlt : x0 < x1) (hsp : spansE e x0 x1 = true)
    (px0 : x0 ≤ p.x) (px1 : p.x ≤ x1) (hy : p.y = yOn e p.x) : onSeg e.1 e.2 p = true := by
  have hne := spansE_ne e x0 x1 hlt hsp
  have hb : between e.1.x e.2.x p.x = true := by
    simp only [spansE, Bool.or_eq_true, Bool.and_eq_true, decide_eq_true_eq] at hsp
    simp only [between, Bool.or_eq_true, Bool.and_eq_true, decide_eq_true_eq]
    rcases hsp with ⟨a, b⟩ | ⟨a, b⟩
    · exact Or.inl ⟨by linarith, by linarith⟩
    · exact Or.inr ⟨by linarith, by linarith⟩
  obtain ⟨t0, t1⟩ := frac_between _ _ _ hb hne
  have hd : e.2.x - e.1.x ≠ 0 := sub_ne_zero.2 (Ne.symm hne)
  have : p = lerp e.1 e.2 ((p.x - e.1.x) / (e.2.x - e.1.x)) := by
    apply pt_ext
    · simp only [lerp]
      have : (p.x - e.1.x) / (e.2.x - e.1.x) * (e.2.x - e.1.x) = p.x - e.1.x := by field_simp
      linarith
    · simp only [lerp]; rw [hy]; simp only [yOn, yAt]; ring
  rw [this]
  exact onSeg_lerp _ _ _ t0 t1

theorem mem_allEdges (cs : Contours) (e : P × P) : e ∈ allEdges cs ↔ ∃ r ∈ cs, e ∈ edges r := by
  simp [allEdges, List.mem_flatMap]

theorem onBoundary_of_mem (cs : Contours) (e : P × P) (p : P) (he : e ∈ allEdges cs)
    (on : onSeg e.1 e.2 p = true) : onBoundary cs p = true := by
  obtain ⟨r, hr, her⟩ := (mem_allEdges cs e).1 he
  simp only [onBoundary, List.any_eq_true]
  exact ⟨r, hr, e, her, on⟩

theorem not_clear_of_near (m : Rat) (cs : Contours) (g : P × P) (p : P) (hg : g ∈ allEdges cs)
    (hn : nearSeg m g.1 g.2 p = true) : clearOf m cs p = false := by
  obtain ⟨r, hr, her⟩ := (mem_allEdges cs g).1 hg
  by_contra hc
  have hc : clearOf m cs p = true := by simpa using hc
  simp only [clearOf, List.all_eq_true] at hc
  have := hc r hr g her
  simp [hn] at this

/-! ## cells -/

/-- `p` and `q` are strictly on the same side of every edge that spans the slab -/
def SameSide (cs : Contours) (x0 x1 : Rat) (p q : P) : Prop :=
  ∀ r ∈ cs, ∀ e ∈ edges r, spansE e x0 x1 = true →
    (0 < orient e.1 e.2 p ∧ 0 < orient e.1 e.2 q) ∨ (orient e.1 e.2 p < 0 ∧ orient e.1 e.2 q < 0)

theorem side_above (e : P × P) (hne : e.1.x ≠ e.2.x) (p q : P) (hp : yOn e p.x < p.y) (hq : yOn e q.x < q.y) :
    (0 < orient e.1 e.2 p ∧ 0 < orient e.1 e.2 q) ∨ (orient e.1 e.2 p < 0 ∧ orient e.1 e.2 q < 0) := by
  rw [orient_yOn e p hne, orient_yOn e q hne]
  rcases lt_or_gt_of_ne hne with h | h
  · exact Or.inl ⟨mul_pos (sub_pos.2 h) (sub_pos.2 hp), mul_pos (sub_pos.2 h) (sub_pos.2 hq)⟩
  · exact Or.inr ⟨mul_neg_of_neg_of_pos (sub_neg.2 h) (sub_pos.2 hp), mul_neg_of_neg_of_pos (sub_neg.2 h) (sub_pos.2 hq)⟩

theorem side_below (e : P × P) (hne : e.1.x ≠ e.2.x) (p q : P) (hp : p.y < yOn e p.x) (hq : q.y < yOn e q.x) :
    (0 < orient e.1 e.2 p ∧ 0 < orient e.1 e.2 q) ∨ (orient e.1 e.2 p < 0 ∧ orient e.1 e.2 q < 0) := by
  rw [orient_yOn e p hne, orient_yOn e q hne]
  rcases lt_or_gt_of_ne hne with h | h
  · exact Or.inr ⟨mul_neg_of_pos_of_neg (sub_pos.2 h) (sub_neg.2 hp), mul_neg_of_pos_of_neg (sub_pos.2 h) (sub_neg.2 hq)⟩
  · exact Or.inl ⟨mul_pos_of_neg_of_neg (sub_neg.2 h) (sub_neg.2 hp), mul_pos_of_neg_of_neg (sub_neg.2 h) (sub_neg.2 hq)⟩

/-- **cells of a slab, walls included**: `p` in the CLOSED slab and off the boundary, `q` in the open
slab, both strictly on the same side of every spanning edge, no vertex strictly inside the slab:
the segment `pq` meets no edge -/
theorem slab_cell_free' (cs : Contours) (x0 x1 : Rat) (p q : P)
    (hnv : noVtxIn cs x0 x1 = true) (px0 : x0 ≤ p.x) (px1 : p.x ≤ x1) (qx0 : x0 < q.x) (qx1 : q.x < x1)
    (hoff : onBoundary cs p = false) (hs : SameSide cs x0 x1 p q) : FreeC cs p q := by
  intro s s0 s1
  rcases eq_or_lt_of_le s0 with rfl | s0'
  · rw [lerp_zero]; exact hoff
  by_contra hb
  have hb : onBoundary cs (lerp p q s) = true := by simpa using hb
  simp only [onBoundary, List.any_eq_true] at hb
  obtain ⟨r, hr, e, he, hon⟩ := hb
  have mx0 : x0 < (lerp p q s).x := by
    simp only [lerp]; nlinarith [mul_pos s0' (sub_pos.2 qx0), mul_nonneg (sub_nonneg.2 s1) (sub_nonneg.2 px0)]
  have mx1 : (lerp p q s).x < x1 := by
    simp only [lerp]; nlinarith [mul_pos s0' (sub_pos.2 qx1), mul_nonneg (sub_nonneg.2 s1) (sub_nonneg.2 px1)]
  obtain ⟨m1, m2⟩ := mem_edges r e he
  have nv : ∀ v ∈ r, ¬ (x0 < v.x ∧ v.x < x1) := by
    intro v hv
    simp only [noVtxIn, List.all_eq_true, Bool.not_eq_true', Bool.and_eq_false_iff,
      decide_eq_false_iff_not] at hnv
    rcases hnv r hr v hv with h | h
    · exact fun hh => h hh.1
    · exact fun hh => h hh.2
  have hsp : spansE e x0 x1 = true := by
    simp only [onSeg, between, Bool.and_eq_true, Bool.or_eq_true, decide_eq_true_eq] at hon
    simp only [spansE, Bool.or_eq_true, Bool.and_eq_true, decide_eq_true_eq]
    have n1 := nv e.1 m1
    have n2 := nv e.2 m2
    rcases hon.1.2 with ⟨a1, a2⟩ | ⟨a1, a2⟩
    · left
      constructor
      · by_contra hc; rw [not_le] at hc; exact n1 ⟨hc, by linarith⟩
      · by_contra hc; rw [not_le] at hc; exact n2 ⟨by linarith, hc⟩
    · right
      constructor
      · by_contra hc; rw [not_le] at hc; exact n2 ⟨hc, by linarith⟩
      · by_contra hc; rw [not_le] at hc; exact n1 ⟨by linarith, hc⟩
  have ho : orient e.1 e.2 (lerp p q s) = 0 := by
    simp only [onSeg, Bool.and_eq_true, decide_eq_true_eq] at hon; exact hon.1.1
  rw [orient_lerp] at ho
  rcases hs r hr e he hsp with ⟨a, b⟩ | ⟨a, b⟩
  · nlinarith [mul_pos s0' b, mul_nonneg (sub_nonneg.2 s1) a.le]
  · nlinarith [mul_neg_of_pos_of_neg s0' b, mul_nonneg (sub_nonneg.2 s1) (neg_nonneg.2 a.le)]

theorem boxOKc_eq (A : Operand) : boxOKc A = boxOK A := by cases A <;> rfl
theorem resOKc_eq (R : Option Operand) : resOKc R = resOK R := by
  cases R with
  | none => rfl
  | some o => exact boxOKc_eq o
theorem rringsOf_eq (R : Option Operand) : rringsOf R = resRings R := by cases R <;> rfl

theorem rightAt_iff (op : Op) (A B : Operand) (R : Option Operand) (q : P) :
    rightAt op A B R q = true ↔ memberRes R q = opBool op (member A q) (member B q) := by
  simp [rightAt]

/-- **one slab**: if `slabOK` accepts the slab `[x0, x1]`, the result is right at every point of the
closed slab that is off all three boundaries and has clear margin from the input edges -/
theorem slab_sound (m : Rat) (op : Op) (A B : Operand) (R : Option Operand) (x0 x1 : Rat) (p : P)
    (hA : boxOKc A = true) (hB : boxOKc B = true) (hR : resOKc R = true)
    (h : slabOK m op A B R (allEdges A.rings ++ allEdges B.rings)
      (allEdges A.rings ++ allEdges B.rings ++ allEdges (rringsOf R)) x0 x1 = true)
    (px0 : x0 ≤ p.x) (px1 : p.x ≤ x1)
    (oA : onBoundary A.rings p = false) (oB : onBoundary B.rings p = false)
    (oR : onBoundary (rringsOf R) p = false)
    (cA : clearOf m A.rings p = true) (cB : clearOf m B.rings p = true) :
    rightAt op A B R p = true := by
  simp only [slabOK, Bool.and_eq_true, decide_eq_true_eq] at h
  obtain ⟨⟨⟨⟨hlt, nA⟩, nB⟩, nR⟩, hch, hg⟩ := h
  have hxm0 : x0 < (x0 + x1) / 2 := by linarith
  have hxm1 : (x0 + x1) / 2 < x1 := by linarith
  generalize hxm : (x0 + x1) / 2 = xm at hch hg hxm0 hxm1
  generalize hL : sortByKey (fun e => yOn e xm)
    ((allEdges A.rings ++ allEdges B.rings ++ allEdges (rringsOf R)).filter fun e => spansE e x0 x1) = L at hch hg
  have memL : ∀ e, e ∈ L ↔ (e ∈ allEdges A.rings ++ allEdges B.rings ++ allEdges (rringsOf R) ∧ spansE e x0 x1 = true) := by
    intro e; rw [← hL, mem_sortByKey, List.mem_filter]
  have pw := chain_pairwise x0 x1 L hch
  have pwAt : ∀ x, x0 ≤ x → x ≤ x1 → L.Pairwise (fun e f => yOn e x ≤ yOn f x) :=
    fun x h0 h1 => pw.imp (fun ⟨a0, a1⟩ => le_throughout _ _ x0 x1 x hlt h0 h1 a0 a1)
  -- p is on no spanning edge
  have hne : ∀ e ∈ L, yOn e p.x ≠ p.y := by
    intro e he heq
    obtain ⟨hall, hsp⟩ := (memL e).1 he
    have on := onSeg_of_yOn e x0 x1 p hlt hsp px0 px1 heq.symm
    rcases List.mem_append.1 hall with hab | hr
    · rcases List.mem_append.1 hab with ha | hb
      · rw [onBoundary_of_mem _ e p ha on] at oA; cases oA
      · rw [onBoundary_of_mem _ e p hb on] at oB; cases oB
    · rw [onBoundary_of_mem _ e p hr on] at oR; cases oR
  obtain ⟨L1, L2, hLeq, below, above⟩ := split_at L p.x p.y (pwAt p.x px0 px1) hne
  have hgap := gapsOK_split _ none L1 L2 (hLeq ▸ hg)
  -- a passing sample point in the gap of p certifies p
  have finish : ∀ q : P, q.x = xm → (∀ e ∈ L1, yOn e xm < q.y) → (∀ e ∈ L2, q.y < yOn e xm) →
      rightAt op A B R q = true → rightAt op A B R p = true := by
    intro q hqx hq1 hq2 hr
    have qx0 : x0 < q.x := hqx ▸ hxm0
    have qx1 : q.x < x1 := hqx ▸ hxm1
    have side : ∀ cs, (∀ e, e ∈ allEdges cs → e ∈ allEdges A.rings ++ allEdges B.rings ++ allEdges (rringsOf R)) →
        SameSide cs x0 x1 p q := by
      intro cs hsub r hr' e he hsp
      have heL : e ∈ L := (memL e).2 ⟨hsub e ((mem_allEdges cs e).2 ⟨r, hr', he⟩), hsp⟩
      have hne' := spansE_ne e x0 x1 hlt hsp
      rw [hLeq] at heL
      rcases List.mem_append.1 heL with h1 | h2
      · exact side_above e hne' p q (below e h1) (by rw [hqx]; exact hq1 e h1)
      · exact side_below e hne' p q (above e h2) (by rw [hqx]; exact hq2 e h2)
    have fA := slab_cell_free' A.rings x0 x1 p q nA px0 px1 qx0 qx1 oA
      (side _ (fun e he => List.mem_append.2 (Or.inl (List.mem_append.2 (Or.inl he)))))
    have fB := slab_cell_free' B.rings x0 x1 p q nB px0 px1 qx0 qx1 oB
      (side _ (fun e he => List.mem_append.2 (Or.inl (List.mem_append.2 (Or.inr he)))))
    have fR := slab_cell_free' (rringsOf R) x0 x1 p q nR px0 px1 qx0 qx1 oR
      (side _ (fun e he => List.mem_append.2 (Or.inr he)))
    rw [rringsOf_eq] at fR
    rw [rightAt_iff] at hr ⊢
    exact (sample_cell_const op A B R p q (boxOKc_eq A ▸ hA) (boxOKc_eq B ▸ hB) (resOKc_eq R ▸ hR) fA fB fR).2 hr
  have pwm := pwAt xm hxm0.le hxm1.le
  rw [hLeq] at pwm pw
  have pw1 : L1.Pairwise (fun e f => yOn e xm ≤ yOn f xm) := (List.pairwise_append.1 pwm).1
  have pw2 : L2.Pairwise (fun e f => yOn e xm ≤ yOn f xm) := (List.pairwise_append.1 pwm).2.1
  rcases lastO_mem none L1 with ⟨hl, hL1⟩ | ⟨e, he, hl⟩
  · -- nothing below p
    rw [hl] at hgap
    cases L2 with
    | nil =>
      simp only [List.head?_nil, cellOK, hxm] at hgap
      exact finish ⟨xm, 0⟩ rfl (by simp [hL1]) (by simp) hgap
    | cons f t =>
      simp only [List.head?_cons, cellOK, hxm] at hgap
      refine finish ⟨xm, yOn f xm - 1⟩ rfl (by simp [hL1]) ?_ hgap
      intro g hg'
      rcases List.mem_cons.1 hg' with rfl | hg'
      · show yOn g xm - 1 < yOn g xm; linarith
      · have := (List.pairwise_cons.1 pw2).1 g hg'
        show yOn f xm - 1 < yOn g xm; linarith
  · have hL1ne : L1 ≠ [] := by intro hh; rw [hh] at he; cases he
    have dom := lastO_dominates (fun e f => yOn e xm ≤ yOn f xm) (fun _ => le_refl _) none L1 pw1 e hl hL1ne
    rw [hl] at hgap
    cases L2 with
    | nil =>
      simp only [List.head?_nil, cellOK, hxm] at hgap
      refine finish ⟨xm, yOn e xm + 1⟩ rfl ?_ (by simp) hgap
      intro g hg'
      have := dom g hg'
      show yOn g xm < yOn e xm + 1; linarith
    | cons f t =>
      have hf2 : f ∈ f :: t := by simp
      have wl : WallLe x0 x1 e f := (List.pairwise_append.1 pw).2.2 e he f hf2
      have sp : yOn e p.x < yOn f p.x := lt_trans (below e he) (above f hf2)
      have sm : yOn e xm < yOn f xm := lt_inside e f x0 x1 p.x xm hlt px0 px1 hxm0 hxm1 wl.1 wl.2 sp
      simp only [List.head?_cons, cellOK, hxm, if_pos sm, Bool.or_eq_true] at hgap
      rcases hgap with hr | hnear
      · refine finish ⟨xm, (yOn e xm + yOn f xm) / 2⟩ rfl ?_ ?_ hr
        · intro g hg'
          have := dom g hg'
          show yOn g xm < (yOn e xm + yOn f xm) / 2; linarith
        · intro g hg'
          have : yOn f xm ≤ yOn g xm := by
            rcases List.mem_cons.1 hg' with rfl | hg'
            · exact le_refl _
            · exact (List.pairwise_cons.1 pw2).1 g hg'
          show (yOn e xm + yOn f xm) / 2 < yOn g xm; linarith
      · -- a sliver: the whole cell is within the margin of one input edge, p has no clear margin
        exfalso
        obtain ⟨g, hgin, hc⟩ := List.any_eq_true.1 hnear
        simp only [cornersNear, Bool.and_eq_true] at hc
        obtain ⟨⟨⟨c00, c10⟩, c01⟩, c11⟩ := hc
        obtain ⟨t, t0, t1, hpx, _, _⟩ := param x0 x1 p.x hlt px0 px1
        have lo : nearSeg m g.1 g.2 ⟨p.x, yOn e p.x⟩ = true := by
          have := nearSeg_convex m g.1 g.2 ⟨x0, yOn e x0⟩ ⟨x1, yOn e x1⟩ t t0 t1 c00 c10
          have e' : lerp (⟨x0, yOn e x0⟩ : P) ⟨x1, yOn e x1⟩ t = ⟨p.x, yOn e p.x⟩ := by
            apply pt_ext
            · simp only [lerp]; rw [hpx]
            · simp only [lerp]; rw [hpx, yOn_affine]; ring
          rwa [e'] at this
        have hi : nearSeg m g.1 g.2 ⟨p.x, yOn f p.x⟩ = true := by
          have := nearSeg_convex m g.1 g.2 ⟨x0, yOn f x0⟩ ⟨x1, yOn f x1⟩ t t0 t1 c01 c11
          have e' : lerp (⟨x0, yOn f x0⟩ : P) ⟨x1, yOn f x1⟩ t = ⟨p.x, yOn f p.x⟩ := by
            apply pt_ext
            · simp only [lerp]; rw [hpx]
            · simp only [lerp]; rw [hpx, yOn_affine]; ring
          rwa [e'] at this
        have hb : 0 < yOn f p.x - yOn e p.x := sub_pos.2 sp
        obtain ⟨u0, u1⟩ := frac_bounds (p.y - yOn e p.x) (yOn f p.x - yOn e p.x) hb
          (by linarith [below e he]) (by linarith [above f hf2])
        have hp : nearSeg m g.1 g.2 p = true := by
          have := nearSeg_convex m g.1 g.2 _ _ _ u0 u1 lo hi
          have e' : lerp (⟨p.x, yOn e p.x⟩ : P) ⟨p.x, yOn f p.x⟩
              ((p.y - yOn e p.x) / (yOn f p.x - yOn e p.x)) = p := by
            have hne' : yOn f p.x - yOn e p.x ≠ 0 := ne_of_gt hb
            apply pt_ext
            · simp only [lerp]; ring
            · simp only [lerp]
              have : (p.y - yOn e p.x) / (yOn f p.x - yOn e p.x) * (yOn f p.x - yOn e p.x) = p.y - yOn e p.x := by
                field_simp
              linarith
          rwa [e'] at this
        rcases List.mem_append.1 hgin with ha | hb'
        · rw [not_clear_of_near m _ g p ha hp] at cA; cases cA
        · rw [not_clear_of_near m _ g p hb' hp] at cB; cases cB

/-! ## the slabs cover `[first event, last event]` -/

theorem slabs_cover (chk : Rat → Rat → Bool) (a : Rat) (t : List Rat) (x : Rat)
    (h : slabsOK chk (a :: t) = true) (h0 : a ≤ x) (h1 : x ≤ lastOf a t) :
    (t = [] ∧ x = a) ∨ ∃ x0 x1, chk x0 x1 = true ∧ x0 ≤ x ∧ x ≤ x1 := by
  induction t generalizing a with
  | nil => left; exact ⟨rfl, le_antisymm h1 h0⟩
  | cons b t ih =>
    right
    simp only [slabsOK, Bool.and_eq_true] at h
    by_cases hx : x ≤ b
    · exact ⟨a, b, h.1, h0, hx⟩
    · have hx' : b ≤ x := (not_le.1 hx).le
      rcases ih b h.2 hx' h1 with ⟨rfl, rfl⟩ | r
      · exact absurd (le_refl _) hx
      · exact r

/-! ## the theorems -/

theorem member_false_of_xout (A : Operand) (lo hi : Rat) (p : P) (hv : boxOKc A = true)
    (ho : onBoundary A.rings p = false) (hw : xWithin lo hi A.rings = true) (hp : p.x < lo ∨ hi < p.x) :
    member A p = false := by
  rw [member_eq_inside_boxOK A p (boxOKc_eq A ▸ hv) ho]
  exact inside_false_of_xout _ lo hi p hw hp

theorem memberRes_false_of_xout (R : Option Operand) (lo hi : Rat) (p : P) (hv : resOKc R = true)
    (ho : onBoundary (rringsOf R) p = false) (hw : xWithin lo hi (rringsOf R) = true) (hp : p.x < lo ∨ hi < p.x) :
    memberRes R p = false := by
  cases R with
  | none => rfl
  | some o => exact member_false_of_xout o lo hi p hv ho hw hp

theorem opBool_ff (op : Op) : opBool op false false = false := by cases op <;> rfl

/-- clear margin (`m ≥ 0`) implies off the boundary -/
theorem off_of_clear (m : Rat) (hm : 0 ≤ m) (cs : Contours) (p : P) (h : clearOf m cs p = true) :
    onBoundary cs p = false := by
  by_contra hb
  have hb : onBoundary cs p = true := by simpa using hb
  simp only [onBoundary, List.any_eq_true] at hb
  obtain ⟨r, hr, e, he, hon⟩ := hb
  have hn : nearSeg m e.1 e.2 p = true := by
    simp only [onSeg, between, Bool.and_eq_true, Bool.or_eq_true, decide_eq_true_eq] at hon
    obtain ⟨⟨ho, hx⟩, hy⟩ := hon
    simp only [nearSeg, Bool.and_eq_true, decide_eq_true_eq, ho]
    refine ⟨⟨⟨⟨?_, ?_⟩, ?_⟩, ?_⟩, ?_⟩
    · rcases hx with h | h
      · linarith [min_le_left e.1.x e.2.x]
      · linarith [min_le_right e.1.x e.2.x]
    · rcases hx with h | h
      · linarith [le_max_right e.1.x e.2.x]
      · linarith [le_max_left e.1.x e.2.x]
    · rcases hy with h | h
      · linarith [min_le_left e.1.y e.2.y]
      · linarith [min_le_right e.1.y e.2.y]
    · rcases hy with h | h
      · linarith [le_max_right e.1.y e.2.y]
      · linarith [le_max_left e.1.y e.2.y]
    · have : 0 ≤ (e.2.x - e.1.x) * (e.2.x - e.1.x) + (e.2.y - e.1.y) * (e.2.y - e.1.y) := by nlinarith [mul_self_nonneg (e.2.x - e.1.x), mul_self_nonneg (e.2.y - e.1.y)]
      nlinarith [mul_nonneg (mul_nonneg hm hm) this]
  rw [not_clear_of_near m cs e p ((mem_allEdges cs e).2 ⟨r, hr, he⟩) hn] at h
  cases h

/-- every edge of the result within the margin of one input edge: a point on the result's boundary
has no clear margin from the inputs -/
theorem offR_of_clear (m : Rat) (A B : Operand) (rr : Contours) (p : P)
    (hn : resNear m (allEdges A.rings ++ allEdges B.rings) rr = true)
    (cA : clearOf m A.rings p = true) (cB : clearOf m B.rings p = true) : onBoundary rr p = false := by
  by_contra hb
  have hb : onBoundary rr p = true := by simpa using hb
  simp only [onBoundary, List.any_eq_true] at hb
  obtain ⟨r, hr, e, he, hon⟩ := hb
  simp only [resNear, List.all_eq_true] at hn
  have := hn e ((mem_allEdges rr e).2 ⟨r, hr, he⟩)
  obtain ⟨g, hg, hc⟩ := List.any_eq_true.1 this
  simp only [Bool.and_eq_true] at hc
  obtain ⟨t, t0, t1, rfl⟩ := lerp_of_onSeg e.1 e.2 p hon
  have hp := nearSeg_convex m g.1 g.2 e.1 e.2 t t0 t1 hc.1 hc.2
  rcases List.mem_append.1 hg with ha | hb'
  · rw [not_clear_of_near m _ g _ ha hp] at cA; cases cA
  · rw [not_clear_of_near m _ g _ hb' hp] at cB; cases cB

theorem inside_of_all_empty (cs : Contours) (p : P) (h : (cs.all fun r => r.isEmpty) = true) : inside cs p = false := by
  induction cs with
  | nil => rfl
  | cons r cs ih =>
    simp only [List.all_cons, Bool.and_eq_true] at h
    have : r = [] := by simpa using h.1
    subst this
    rw [inside_cons, insideRing_nil, ih h.2]; rfl

theorem crosses_false_of_x_eq (a b p : P) (ha : a.x = p.x) (hb : b.x = p.x) : crosses a b p = false := by
  have ho : orient a b p = 0 := by simp only [orient, ha, hb]; ring
  simp [crosses, ho]

/-- all vertices on the vertical line through `p`: in no ring -/
theorem inside_vertical (cs : Contours) (a : Rat) (p : P) (hw : xWithin a a cs = true) (hp : p.x = a) :
    inside cs p = false := by
  induction cs with
  | nil => rfl
  | cons r cs ih =>
    simp only [xWithin, List.all_cons, Bool.and_eq_true] at hw
    have hr : ∀ q ∈ r, q.x = p.x := by
      intro q hq
      have := List.all_eq_true.1 hw.1 q hq
      simp only [Bool.and_eq_true, decide_eq_true_eq] at this
      rw [hp]; exact le_antisymm this.2 this.1
    have : insideRing r p = false := by
      rw [insideRing_def]
      apply xorEdges_false_of_all
      intro e he
      have ⟨m1, m2⟩ := mem_edges r e he
      exact crosses_false_of_x_eq _ _ _ (hr _ m1) (hr _ m2)
    rw [inside_cons, this, ih (by simpa [xWithin] using hw.2)]; rfl

/-- **C01, the per-case certificate is sound (clause 1, sweep contract for one case).** If the
checker accepts `(op, A, B, R)` — for any candidate event list — then membership in the result `R`
equals the truth table of `op` at EVERY point with clear margin `m` from every edge of `A` and of
`B`: the cells of the slab decomposition cover the plane minus the boundaries, every cell is
enumerated, each is certified by its sample point or lies wholly within the margin.  No hypothesis
on the operands (validity, general position) or on how `R` was computed. -/
theorem C01_certificate_sound (m : Rat) (op : Op) (A B : Operand) (R : Option Operand) (evs : List Rat)
    (h : certCheck m op A B R evs = true) (p : P)
    (cA : clearOf m A.rings p = true) (cB : clearOf m B.rings p = true) :
    memberRes R p = opBool op (member A p) (member B p) := by
  simp only [certCheck, Bool.and_eq_true, decide_eq_true_eq] at h
  obtain ⟨⟨⟨⟨⟨⟨hA, hB⟩, hR⟩, hm⟩, hnear⟩, hx⟩, hs⟩ := h
  have oA := off_of_clear m hm _ p cA
  have oB := off_of_clear m hm _ p cB
  have oR := offR_of_clear m A B (rringsOf R) p hnear cA cB
  have mA := member_eq_inside_boxOK A p (boxOKc_eq A ▸ hA) oA
  have mB := member_eq_inside_boxOK B p (boxOKc_eq B ▸ hB) oB
  have mR : memberRes R p = inside (rringsOf R) p := by
    cases R with
    | none => rfl
    | some o => exact member_eq_inside_boxOK o p (boxOKc_eq o ▸ hR) oR
  cases evs with
  | nil =>
    -- no vertex at all
    simp only [List.all_append, Bool.and_eq_true] at hx
    rw [mR, mA, mB, inside_of_all_empty _ p hx.1.1, inside_of_all_empty _ p hx.1.2, inside_of_all_empty _ p hx.2, opBool_ff]
  | cons a t =>
    simp only [Bool.and_eq_true] at hx
    obtain ⟨⟨wA, wB⟩, wR⟩ := hx
    by_cases hin : a ≤ p.x ∧ p.x ≤ lastOf a t
    · rcases slabs_cover _ a t p.x hs hin.1 hin.2 with ⟨rfl, hpa⟩ | ⟨x0, x1, hchk, h0, h1⟩
      · -- a single event: every vertex on the line x = a; even-odd membership is false off it … handled by cells
        -- all vertices have abscissa a = p.x: rings are vertical, membership false
        have out : ∀ cs, xWithin a (lastOf a []) cs = true → onBoundary cs p = false → inside cs p = false := by
          intro cs hw ho
          exact inside_vertical cs a p (by simpa [lastOf] using hw) hpa
        rw [mR, mA, mB, out _ wA oA, out _ wB oB, out _ wR oR, opBool_ff]
      · exact (rightAt_iff op A B R p).1 (slab_sound m op A B R x0 x1 p hA hB hR hchk h0 h1 oA oB oR cA cB)
    · have hp : p.x < a ∨ lastOf a t < p.x := by
        by_contra hc
        simp only [not_or, not_lt] at hc
        exact hin hc
      rw [memberRes_false_of_xout R a _ p hR oR wR hp, member_false_of_xout A a _ p hA oA wA hp,
        member_false_of_xout B a _ p hB oB wB hp, opBool_ff]

/-! ## margin 0: every point off both input boundaries -/

theorem onSeg_of_nearSeg_zero (a b p : P) (h : nearSeg 0 a b p = true) : onSeg a b p = true := by
  simp only [nearSeg, Bool.and_eq_true, decide_eq_true_eq, sub_zero, add_zero, zero_mul] at h
  obtain ⟨⟨⟨⟨x1, x2⟩, y1⟩, y2⟩, ho⟩ := h
  have ho' : orient a b p = 0 := by
    by_contra hne
    have := mul_self_pos.2 hne
    linarith
  have bt : ∀ u v w : Rat, min u v ≤ w → w ≤ max u v → between u v w = true := by
    intro u v w h1 h2
    simp only [between, Bool.or_eq_true, Bool.and_eq_true, decide_eq_true_eq]
    rcases le_total u v with h | h
    · rw [min_eq_left h] at h1; rw [max_eq_right h] at h2; exact Or.inl ⟨h1, h2⟩
    · rw [min_eq_right h] at h1; rw [max_eq_left h] at h2; exact Or.inr ⟨h1, h2⟩
  simp only [onSeg, ho', decide_true, Bool.true_and, Bool.and_eq_true]
  exact ⟨bt _ _ _ x1 x2, bt _ _ _ y1 y2⟩

theorem clear_zero_of_off (cs : Contours) (p : P) (h : onBoundary cs p = false) : clearOf 0 cs p = true := by
  simp only [clearOf, List.all_eq_true, Bool.not_eq_true']
  intro r hr e he
  by_contra hn
  have hn : nearSeg 0 e.1 e.2 p = true := by simpa using hn
  have : onBoundary cs p = true := by
    simp only [onBoundary, List.any_eq_true]
    exact ⟨r, hr, e, he, onSeg_of_nearSeg_zero _ _ _ hn⟩
  rw [h] at this; cases this

/-- **C01, exact certificate.** With margin 0 (accepted whenever the result's vertices are exact:
all table and shortcut cases, sweep cases whose crossings are representable), acceptance implies the
truth table at EVERY point off both input boundaries — the conclusion of `CoreSpec` for this case. -/
theorem C01_certificate_exact (op : Op) (A B : Operand) (R : Option Operand) (evs : List Rat)
    (h : certCheck 0 op A B R evs = true) (p : P)
    (oA : offBoundary A p = true) (oB : offBoundary B p = true) :
    memberRes R p = opBool op (member A p) (member B p) :=
  C01_certificate_sound 0 op A B R evs h p
    (clear_zero_of_off _ p (by simpa [offBoundary] using oA)) (clear_zero_of_off _ p (by simpa [offBoundary] using oB))

/-- the instance of the sweep contract `CoreSpec` at one call `(op, s, c)`, from an accepted exact
certificate for the contours the sweep returned -/
theorem C01_certificate_coreSpec_case (core : Op → Contours → Contours → Contours) (op : Op) (s c : Contours)
    (evs : List Rat) (h : certCheck 0 op (.poly s) (.poly c) (some (.poly (core op s c))) evs = true) :
    ∀ p, onBoundary s p = false → onBoundary c p = false →
      inside (core op s c) p = opBool op (inside s p) (inside c p) := by
  intro p os oc
  exact C01_certificate_exact op (.poly s) (.poly c) (some (.poly (core op s c))) evs h p
    (by simpa [offBoundary, Operand.rings] using os) (by simpa [offBoundary, Operand.rings] using oc)

/-! ## inclusion–exclusion, summed over weighted cells -/

/-- total weight of the cells (sample point, weight) whose sample point satisfies `f`; with the
cells of a slab decomposition weighted by their exact trapezoid areas this is the exact area of the
region `{f}` (the region being a union of cells up to null sets) -/
def areaOn (f : P → Bool) (cells : List (P × Rat)) : Rat :=
  (cells.map fun c => if f c.1 then c.2 else 0).sum

theorem areaOn_cons (f : P → Bool) (c : P × Rat) (cells : List (P × Rat)) :
    areaOn f (c :: cells) = (if f c.1 then c.2 else 0) + areaOn f cells := by
  simp [areaOn]

/-- **C01, inclusion–exclusion (summed form).** Let the checker accept the implementation's four
results `RI, RU, RD, RX` for the operands `A, B`.  Then for EVERY finite family of weighted points
with clear margin from the input edges — in particular the cells of a common slab decomposition
weighted by their exact areas — the weights satisfy `|A∪B| + |A∩B| = |A| + |B|`,
`|A∖B| = |A| − |A∩B|`, `|AΔB| = |A∪B| − |A∩B|` exactly (in `Rat`).  No `CoreSpec` hypothesis: the
premise is the per-case certificate. (Not formalised: that the cell sum equals the shoelace area.) -/
theorem C01_inclusion_exclusion_cells (m : Rat) (A B : Operand) (RI RU RD RX : Option Operand)
    (eI eU eD eX : List Rat)
    (hI : certCheck m .inter A B RI eI = true) (hU : certCheck m .union A B RU eU = true)
    (hD : certCheck m .diff A B RD eD = true) (hX : certCheck m .xor A B RX eX = true)
    (cells : List (P × Rat))
    (hc : ∀ c ∈ cells, clearOf m A.rings c.1 = true ∧ clearOf m B.rings c.1 = true) :
    areaOn (memberRes RU) cells + areaOn (memberRes RI) cells = areaOn (member A) cells + areaOn (member B) cells ∧
    areaOn (memberRes RD) cells = areaOn (member A) cells - areaOn (memberRes RI) cells ∧
    areaOn (memberRes RX) cells = areaOn (memberRes RU) cells - areaOn (memberRes RI) cells := by
  induction cells with
  | nil => simp [areaOn]
  | cons c cells ih =>
    obtain ⟨i1, i2, i3⟩ := ih (fun c' hc' => hc c' (by simp [hc']))
    obtain ⟨cA, cB⟩ := hc c (by simp)
    have eI := C01_certificate_sound m .inter A B RI eI hI c.1 cA cB
    have eU := C01_certificate_sound m .union A B RU eU hU c.1 cA cB
    have eD := C01_certificate_sound m .diff A B RD eD hD c.1 cA cB
    have eX := C01_certificate_sound m .xor A B RX eX hX c.1 cA cB
    simp only [areaOn_cons, eI, eU, eD, eX]
    cases member A c.1 <;> cases member B c.1 <;> simp [opBool] <;> refine ⟨?_, ?_, ?_⟩ <;> linarith

/-! ## non-vacuity: the checker accepts concrete cases -/

/-- unit square ∩ square (1/2,1/2)-(3/2,3/2) = square (1/2,1/2)-(1,1): accepted with margin 0, with
the events proposed by `certEvents`; a wrong answer (the whole unit square) is rejected -/
example :
    let A : Operand := .poly [[⟨0, 0⟩, ⟨1, 0⟩, ⟨1, 1⟩, ⟨0, 1⟩, ⟨0, 0⟩]]
    let B : Operand := .poly [[⟨1/2, 1/2⟩, ⟨3/2, 1/2⟩, ⟨3/2, 3/2⟩, ⟨1/2, 3/2⟩, ⟨1/2, 1/2⟩]]
    let R : Option Operand := some (.poly [[⟨1/2, 1/2⟩, ⟨1, 1/2⟩, ⟨1, 1⟩, ⟨1/2, 1⟩, ⟨1/2, 1/2⟩]])
    certCheck 0 .inter A B R (certEvents A B R) = true ∧
    certCheck 0 .inter A B (some A) (certEvents A B (some A)) = false := by decide +kernel

/-- a triangle against a box (a result vertex off the grid lines of the operands), union, with a
positive margin -/
example :
    let A : Operand := .box ⟨0, 0⟩ ⟨2, 2⟩
    let B : Operand := .poly [[⟨1, 1⟩, ⟨4, 1⟩, ⟨1, 3⟩]]
    let R : Option Operand := some (.poly [[⟨0, 0⟩, ⟨2, 0⟩, ⟨2, 1⟩, ⟨4, 1⟩, ⟨5/2, 2⟩, ⟨1, 3⟩, ⟨1, 2⟩, ⟨0, 2⟩, ⟨0, 0⟩]])
    certCheck (1 / 1000000) .union A B R (certEvents A B R) = true := by decide +kernel

/-- **C01, "lies in" as answered by the library (observation point `Point.Within` on results).**  For an
accepted case the Spec's judgement of a library answer `s` at a point with clear margin —
`withinAgrees`: `s` is `Inside` exactly when the truth table of `op` holds there — is the same as
comparing `s` with the even–odd membership of the point in the result `R` itself: on certified cases
the probe check of the judge tests `Point.Within(result)` against the result's own point set. -/
theorem C01_library_within_judged (m : Rat) (op : Op) (A B : Operand) (R : Option Operand) (evs : List Rat)
    (h : certCheck m op A B R evs = true) (p : P)
    (cA : clearOf m A.rings p = true) (cB : clearOf m B.rings p = true) (s : WStatus) :
    withinAgrees op A B p s = (s == (if memberRes R p then WStatus.inside else WStatus.outside)) := by
  unfold withinAgrees
  rw [← C01_certificate_sound m op A B R evs h p cA cB]

/-- the margin zone of an edge grows with the margin -/
theorem nearSeg_mono (m m' : Rat) (hm : 0 ≤ m) (hmm : m ≤ m') (a b p : P) (h : nearSeg m a b p = true) :
    nearSeg m' a b p = true := by
  simp only [nearSeg, Bool.and_eq_true, decide_eq_true_eq] at h ⊢
  obtain ⟨⟨⟨⟨h1, h2⟩, h3⟩, h4⟩, h5⟩ := h
  refine ⟨⟨⟨⟨by linarith, by linarith⟩, by linarith⟩, by linarith⟩, ?_⟩
  have hl : 0 ≤ (b.x - a.x) * (b.x - a.x) + (b.y - a.y) * (b.y - a.y) := by nlinarith [mul_self_nonneg (b.x - a.x), mul_self_nonneg (b.y - a.y)]
  have hsq : m * m ≤ m' * m' := by nlinarith
  calc orient a b p * orient a b p ≤ m * m * ((b.x - a.x) * (b.x - a.x) + (b.y - a.y) * (b.y - a.y)) := h5
    _ ≤ m' * m' * ((b.x - a.x) * (b.x - a.x) + (b.y - a.y) * (b.y - a.y)) := mul_le_mul_of_nonneg_right hsq hl

/-- a point with clear margin `m'` has clear margin `m ≤ m'` (the judge asks the library at probes that
keep TWICE the certificate's margin) -/
theorem clearOf_mono (m m' : Rat) (hm : 0 ≤ m) (hmm : m ≤ m') (cs : Contours) (p : P) (h : clearOf m' cs p = true) :
    clearOf m cs p = true := by
  simp only [clearOf, List.all_eq_true, Bool.not_eq_true'] at h ⊢
  intro r hr e he
  have := h r hr e he
  by_contra hc
  have hc : nearSeg m e.1 e.2 p = true := by simpa using hc
  rw [nearSeg_mono m m' hm hmm _ _ _ hc] at this
  exact absurd this (by simp)

/-- `withinCheck` finds no offending probe ⇒ every probe with clear margin agrees with the statement -/
theorem withinCheck_none (m : Rat) (op : Op) (A B : Operand) (probes : List (P × WStatus))
    (h : withinCheck m op A B probes = none) (p : P) (s : WStatus) (hp : (p, s) ∈ probes)
    (cA : clearOf m A.rings p = true) (cB : clearOf m B.rings p = true) :
    withinAgrees op A B p s = true := by
  unfold withinCheck at h
  have := List.find?_eq_none.1 h (p, s) hp
  simpa [cA, cB] using this

/-- non-vacuity: unit square ∪ far square; the library must say `Inside` at (1/2, 1/2), and `Outside` is refused -/
example : withinAgrees .union (.poly [[⟨0, 0⟩, ⟨1, 0⟩, ⟨1, 1⟩, ⟨0, 1⟩]]) (.box ⟨5, 5⟩ ⟨6, 6⟩) ⟨1/2, 1/2⟩ .inside = true ∧
    withinAgrees .union (.poly [[⟨0, 0⟩, ⟨1, 0⟩, ⟨1, 1⟩, ⟨0, 1⟩]]) (.box ⟨5, 5⟩ ⟨6, 6⟩) ⟨1/2, 1/2⟩ .outside = false := by
  decide +kernel

end GeomV.C01
