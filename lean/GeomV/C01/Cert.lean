import GeomV.C01.Spec
/-!
# C01: a certificate checker for one case `(op, A, B, R)`

`certCheck m op A B R evs` walks the vertical-slab decomposition of the arrangement of ALL edges of
the operands `A`, `B` and of the implementation's result `R` along the candidate event abscissae
`evs` (computed by untrusted code: `certEvents`) and accepts when

* every vertex abscissa lies in `[first event, last event]`, consecutive events are increasing and no
  vertex lies strictly inside a slab;
* in every slab the edges that span it, sorted by their ordinate at the midline, are in the same
  (non-strict) order at BOTH walls of the slab (so their order is the same throughout the slab —
  no appeal to "all crossings are events": if a crossing is missed the checker rejects);
* in every gap between consecutive spanning edges (and below the first, above the last) the result
  is right at the sample point `rightAt`, or the whole cell (its four corners) lies within the
  margin `m` of ONE input edge (`nearSeg`: the sliver cells created by the rounded result vertices);
* every edge of the result lies within the margin of one input edge.

`GeomV.C01.C01_certificate_sound` (ProofsCert.lean): acceptance implies that membership in `R`
equals the truth table at EVERY point with clear margin `m` from the input edges — so an accepted
case is a proof of the sweep contract for that case, not a sample.  With `m = 0` the conclusion is
at every point off both input boundaries (`C01_certificate_exact`).

Core Lean only (linked into the driver).
-/
namespace GeomV.C01
open GeomV

/-- a box operand is non-degenerate (polygons: no condition) -/
def boxOKc : Operand → Bool
  | .box mn mx => decide (mn.x < mx.x) && decide (mn.y < mx.y)
  | _ => true

/-- rings of a result (`none` = Go nil) -/
def rringsOf : Option Operand → Contours
  | none => []
  | some o => o.rings

def resOKc : Option Operand → Bool
  | none => true
  | some o => boxOKc o

/-- the result's membership agrees with the truth table at `q` -/
def rightAt (op : Op) (A B : Operand) (R : Option Operand) (q : P) : Bool :=
  memberRes R q == opBool op (member A q) (member B q)

/-- ordinate of the (non-vertical) edge at abscissa `x` -/
def yOn (e : P × P) (x : Rat) : Rat := yAt e.1 e.2 x

/-- the edge's abscissae cover the slab `[x0, x1]` -/
def spansE (e : P × P) (x0 x1 : Rat) : Bool :=
  (decide (e.1.x ≤ x0) && decide (x1 ≤ e.2.x)) || (decide (e.2.x ≤ x0) && decide (x1 ≤ e.1.x))

/-- no vertex has its abscissa strictly inside the slab -/
def noVtxIn (cs : Contours) (x0 x1 : Rat) : Bool :=
  cs.all fun r => r.all fun v => !(decide (x0 < v.x) && decide (v.x < x1))

def insByKey (k : P × P → Rat) (e : P × P) : List (P × P) → List (P × P)
  | [] => [e]
  | f :: t => if k e ≤ k f then e :: f :: t else f :: insByKey k e t

/-- insertion sort by a key (untrusted for order: `chainOK` re-checks what soundness needs) -/
def sortByKey (k : P × P → Rat) (l : List (P × P)) : List (P × P) := l.foldr (insByKey k) []

/-- consecutive edges of the list are in non-strict order at both walls of the slab -/
def chainOK (x0 x1 : Rat) : List (P × P) → Bool
  | e :: f :: t => decide (yOn e x0 ≤ yOn f x0) && decide (yOn e x1 ≤ yOn f x1) && chainOK x0 x1 (f :: t)
  | _ => true

/-- `chk lo hi` for every gap: below the first edge, between consecutive edges, above the last -/
def gapsOK (chk : Option (P × P) → Option (P × P) → Bool) : Option (P × P) → List (P × P) → Bool
  | lo, [] => chk lo none
  | lo, e :: t => chk lo (some e) && gapsOK chk (some e) t

/-- the four corners of the cell between `e` and `f` in the slab are within `m` of the edge `g` -/
def cornersNear (m : Rat) (g e f : P × P) (x0 x1 : Rat) : Bool :=
  nearSeg m g.1 g.2 ⟨x0, yOn e x0⟩ && nearSeg m g.1 g.2 ⟨x1, yOn e x1⟩ &&
  nearSeg m g.1 g.2 ⟨x0, yOn f x0⟩ && nearSeg m g.1 g.2 ⟨x1, yOn f x1⟩

/-- one cell of the slab `(x0, x1)`: right at its sample point, or a sliver within the margin of one
input edge; unbounded cells must be right -/
def cellOK (m : Rat) (op : Op) (A B : Operand) (R : Option Operand) (inE : List (P × P)) (x0 x1 : Rat)
    (lo hi : Option (P × P)) : Bool :=
  let xm := (x0 + x1) / 2
  match lo, hi with
  | none, none => rightAt op A B R ⟨xm, 0⟩
  | some e, none => rightAt op A B R ⟨xm, yOn e xm + 1⟩
  | none, some f => rightAt op A B R ⟨xm, yOn f xm - 1⟩
  | some e, some f =>
    if yOn e xm < yOn f xm then
      rightAt op A B R ⟨xm, (yOn e xm + yOn f xm) / 2⟩ || inE.any fun g => cornersNear m g e f x0 x1
    else true

def slabOK (m : Rat) (op : Op) (A B : Operand) (R : Option Operand) (inE allE : List (P × P))
    (x0 x1 : Rat) : Bool :=
  decide (x0 < x1) &&
  noVtxIn A.rings x0 x1 && noVtxIn B.rings x0 x1 && noVtxIn (rringsOf R) x0 x1 &&
  (let L := sortByKey (fun e => yOn e ((x0 + x1) / 2)) (allE.filter fun e => spansE e x0 x1)
   chainOK x0 x1 L && gapsOK (cellOK m op A B R inE x0 x1) none L)

def slabsOK (chk : Rat → Rat → Bool) : List Rat → Bool
  | x0 :: x1 :: t => chk x0 x1 && slabsOK chk (x1 :: t)
  | _ => true

/-- every edge of the result lies within the margin of one input edge -/
def resNear (m : Rat) (inE : List (P × P)) (rr : Contours) : Bool :=
  (allEdges rr).all fun e => inE.any fun g => nearSeg m g.1 g.2 e.1 && nearSeg m g.1 g.2 e.2

/-- all vertex abscissae within `[lo, hi]` -/
def xWithin (lo hi : Rat) (cs : Contours) : Bool :=
  cs.all fun r => r.all fun v => decide (lo ≤ v.x) && decide (v.x ≤ hi)

def lastOf : Rat → List Rat → Rat
  | a, [] => a
  | _, b :: t => lastOf b t

/-- the certificate checker -/
def certCheck (m : Rat) (op : Op) (A B : Operand) (R : Option Operand) (evs : List Rat) : Bool :=
  let ra := A.rings; let rb := B.rings; let rr := rringsOf R
  let inE := allEdges ra ++ allEdges rb
  let allE := inE ++ allEdges rr
  boxOKc A && boxOKc B && resOKc R && decide (0 ≤ m) &&
  resNear m inE rr &&
  (match evs with
   | [] => (ra ++ rb ++ rr).all fun r => r.isEmpty   -- no vertex at all: every membership is false
   | lo :: t => xWithin lo (lastOf lo t) ra && xWithin lo (lastOf lo t) rb && xWithin lo (lastOf lo t) rr) &&
  slabsOK (slabOK m op A B R inE allE) evs

/-! ## untrusted: candidate events -/

/-- candidate events: all vertex abscissae and the abscissae of all proper crossings of all pairs
of edges (operands and result), sorted, exact (no merging) -/
def certEvents (A B : Operand) (R : Option Operand) : List Rat :=
  let allE := allEdges A.rings ++ allEdges B.rings ++ allEdges (rringsOf R)
  let rec pairs : List (P × P) → List Rat
    | [] => []
    | e :: t => (t.filterMap fun f => crossX e.1 e.2 f.1 f.2) ++ pairs t
  sortDedup ((allE.flatMap fun e => [e.1.x, e.2.x]) ++ pairs allE)

/-- untrusted, for diagnostics when the certificate is refused: the sample point of the first cell
at which the result is wrong and which has clear margin from the input edges (a concrete failing
point) -/
def certWitness (m : Rat) (op : Op) (A B : Operand) (R : Option Operand) (evs : List Rat) : Option P :=
  let allE := allEdges A.rings ++ allEdges B.rings ++ allEdges (rringsOf R)
  let rec go : List Rat → Option P
    | x0 :: x1 :: t =>
      let xm := (x0 + x1) / 2
      let L := sortByKey (fun e => yOn e xm) (allE.filter fun e => spansE e x0 x1)
      let qs : List P := (centres (L.map fun e => yOn e xm)).map fun y => ⟨xm, y⟩
      match qs.find? fun q => !rightAt op A B R q && clearOf m A.rings q && clearOf m B.rings q with
      | some q => some q
      | none => go (x1 :: t)
    | _ => none
  go evs

end GeomV.C01
