import GeomV.C01.Lemmas
import Mathlib.Tactic.FieldSimp
/-!
# Even–odd membership is locally constant

`inside_const`: if the closed segment `pq` meets no edge of a contour list, then `p` and `q` have the
same even–odd membership.  Per edge `(c,d)` the two crossing tests differ exactly when one endpoint
of the edge lies in the half-open strip to the right of `pq` (`inS`); around a closed ring these
contributions cancel (`telescope`).  Used by C14 (`oracle_complete`) and C01 (`sample_cell_const`).
-/
set_option linter.unusedSimpArgs false
set_option linter.unusedVariables false
namespace GeomV.C01
open GeomV

/-- the point `p + s (q - p)` -/
def lerp (p q : P) (s : Rat) : P := ⟨p.x + s * (q.x - p.x), p.y + s * (q.y - p.y)⟩

theorem pt_ext {a b : P} (hx : a.x = b.x) (hy : a.y = b.y) : a = b := by
  cases a; cases b; simp_all

theorem lerp_zero (p q : P) : lerp p q 0 = p := by apply pt_ext <;> simp [lerp]
theorem lerp_one (p q : P) : lerp p q 1 = q := by apply pt_ext <;> simp [lerp]

theorem orient_lerp (c d p q : P) (s : Rat) :
    orient c d (lerp p q s) = (1 - s) * orient c d p + s * orient c d q := by
  simp only [orient, lerp]; ring

theorem orient_swap (a b p : P) : orient b a p = -orient a b p := by simp only [orient]; ring

theorem between_symm (u v w : Rat) : between u v w = between v u w := by
  simp only [between]; rw [Bool.or_comm]

theorem onSeg_symm (a b p : P) : onSeg a b p = onSeg b a p := by
  simp only [onSeg, orient_swap b a p, between_symm b.x a.x, between_symm b.y a.y, neg_eq_zero]

theorem crosses_symm (a b p : P) : crosses a b p = crosses b a p := by
  simp only [crosses, orient_swap b a p, Left.neg_pos_iff, Left.neg_neg_iff]
  rw [Bool.or_comm]

theorem frac_bounds (a b : Rat) (hb : 0 < b) (h0 : 0 ≤ a) (h1 : a ≤ b) : 0 ≤ a / b ∧ a / b ≤ 1 :=
  ⟨div_nonneg h0 hb.le, by rw [div_le_iff₀ hb]; linarith⟩

theorem ivt (g0 g1 : Rat) (h : (g0 ≤ 0 ∧ 0 ≤ g1) ∨ (g1 ≤ 0 ∧ 0 ≤ g0)) :
    ∃ s, 0 ≤ s ∧ s ≤ 1 ∧ (1 - s) * g0 + s * g1 = 0 := by
  by_cases e : g0 = g1
  · refine ⟨0, le_refl _, zero_le_one, ?_⟩
    rcases h with ⟨h1, h2⟩ | ⟨h1, h2⟩ <;> (have : g0 = 0 := by linarith) <;> simp [this]
  · rcases h with ⟨h1, h2⟩ | ⟨h1, h2⟩
    · have hb : 0 < g1 - g0 := lt_of_le_of_ne (by linarith) (fun h => e (by linarith))
      obtain ⟨b0, b1⟩ := frac_bounds (-g0) (g1 - g0) hb (by linarith) (by linarith)
      refine ⟨-g0 / (g1 - g0), b0, b1, ?_⟩
      have hne : g1 - g0 ≠ 0 := ne_of_gt hb
      field_simp; ring
    · have hb : 0 < g0 - g1 := lt_of_le_of_ne (by linarith) (fun h => e (by linarith))
      obtain ⟨b0, b1⟩ := frac_bounds g0 (g0 - g1) hb h2 (by linarith)
      refine ⟨g0 / (g0 - g1), b0, b1, ?_⟩
      have hne : g0 - g1 ≠ 0 := ne_of_gt hb
      field_simp; ring

theorem onSeg_lerp (a b : P) (t : Rat) (h0 : 0 ≤ t) (h1 : t ≤ 1) : onSeg a b (lerp a b t) = true := by
  have ho : orient a b (lerp a b t) = 0 := by simp only [orient, lerp]; ring
  have key : ∀ u v : Rat, between u v (u + t * (v - u)) = true := by
    intro u v
    simp only [between, Bool.or_eq_true, Bool.and_eq_true, decide_eq_true_eq]
    rcases le_total u v with h | h
    · left
      have := mul_nonneg h0 (sub_nonneg.2 h)
      have := mul_le_mul_of_nonneg_right h1 (sub_nonneg.2 h)
      constructor <;> linarith
    · right
      have := mul_nonneg h0 (sub_nonneg.2 h)
      have := mul_le_mul_of_nonneg_right h1 (sub_nonneg.2 h)
      constructor <;> nlinarith
  simp only [onSeg, ho, decide_true, Bool.true_and, Bool.and_eq_true]
  exact ⟨key a.x b.x, key a.y b.y⟩

/-- a point of the line `cd` whose height is within the heights of an upward edge lies on the edge -/
theorem onSeg_of_collinear_y (c d m : P) (hy : c.y < d.y) (h0 : orient c d m = 0)
    (h1 : c.y ≤ m.y) (h2 : m.y ≤ d.y) : onSeg c d m = true := by
  have e : (d.x - c.x) * (m.y - c.y) = (d.y - c.y) * (m.x - c.x) := by
    simp only [orient] at h0; linarith
  have A : 0 < d.y - c.y := sub_pos.2 hy
  have bx : between c.x d.x m.x = true := by
    simp only [between, Bool.or_eq_true, Bool.and_eq_true, decide_eq_true_eq]
    rcases le_total c.x d.x with h | h
    · left
      have p1 := mul_nonneg (sub_nonneg.2 h) (sub_nonneg.2 h1)
      have p2 := mul_nonneg (sub_nonneg.2 h) (sub_nonneg.2 h2)
      constructor
      · by_contra hc; rw [not_le] at hc
        nlinarith [mul_pos A (sub_pos.2 hc)]
      · by_contra hc; rw [not_le] at hc
        nlinarith [mul_pos A (sub_pos.2 hc)]
    · right
      have p1 := mul_nonneg (sub_nonneg.2 h) (sub_nonneg.2 h1)
      have p2 := mul_nonneg (sub_nonneg.2 h) (sub_nonneg.2 h2)
      constructor
      · by_contra hc; rw [not_le] at hc
        nlinarith [mul_pos A (sub_pos.2 hc)]
      · by_contra hc; rw [not_le] at hc
        nlinarith [mul_pos A (sub_pos.2 hc)]
  simp only [onSeg, h0, decide_true, Bool.true_and, Bool.and_eq_true]
  refine ⟨bx, ?_⟩
  simp [between, h1, h2]

/-- the closed segment `pq` does not meet the closed segment `cd` -/
def Free (c d p q : P) : Prop := ∀ s : Rat, 0 ≤ s → s ≤ 1 → onSeg c d (lerp p q s) = false

theorem Free.symm_edge {c d p q : P} (h : Free c d p q) : Free d c p q := by
  intro s h0 h1; rw [onSeg_symm]; exact h s h0 h1

theorem Free.symm_move {c d p q : P} (h : Free c d p q) : Free c d q p := by
  intro s h0 h1
  have : lerp q p s = lerp p q (1 - s) := by apply pt_ext <;> simp only [lerp] <;> ring
  rw [this]; exact h (1 - s) (by linarith) (by linarith)

/-! ## two ways in which a free segment constrains signs -/

/-- (A) `p`, `q` at heights within an upward edge `cd`: they are strictly on the same side of it -/
theorem sameSide_A (c d p q : P) (hf : Free c d p q) (hcd : c.y < d.y)
    (hp1 : c.y ≤ p.y) (hp2 : p.y ≤ d.y) (hq1 : c.y ≤ q.y) (hq2 : q.y ≤ d.y) :
    ¬ ((orient c d p ≤ 0 ∧ 0 ≤ orient c d q) ∨ (orient c d q ≤ 0 ∧ 0 ≤ orient c d p)) := by
  intro h
  obtain ⟨s, s0, s1, hs⟩ := ivt _ _ h
  have ho : orient c d (lerp p q s) = 0 := by rw [orient_lerp]; exact hs
  have y1 : c.y ≤ (lerp p q s).y := by
    simp only [lerp]
    nlinarith [mul_nonneg s0 (sub_nonneg.2 hq1), mul_nonneg (sub_nonneg.2 s1) (sub_nonneg.2 hp1)]
  have y2 : (lerp p q s).y ≤ d.y := by
    simp only [lerp]
    nlinarith [mul_nonneg s0 (sub_nonneg.2 hq2), mul_nonneg (sub_nonneg.2 s1) (sub_nonneg.2 hp2)]
  have := onSeg_of_collinear_y c d _ hcd ho y1 y2
  rw [hf s s0 s1] at this; cases this

/-- a point of the line `pq` (`p` below `q`) at a height between them is `lerp p q s` -/
theorem lerp_of_collinear_y (p q m : P) (hpq : p.y < q.y) (h0 : orient p q m = 0)
    (h1 : p.y ≤ m.y) (h2 : m.y ≤ q.y) :
    ∃ s, 0 ≤ s ∧ s ≤ 1 ∧ lerp p q s = m := by
  have B : 0 < q.y - p.y := sub_pos.2 hpq
  have hne : q.y - p.y ≠ 0 := ne_of_gt B
  obtain ⟨b0, b1⟩ := frac_bounds (m.y - p.y) (q.y - p.y) B (by linarith) (by linarith)
  refine ⟨(m.y - p.y) / (q.y - p.y), b0, b1, ?_⟩
  have e : (q.x - p.x) * (m.y - p.y) = (q.y - p.y) * (m.x - p.x) := by
    simp only [orient] at h0; linarith
  apply pt_ext
  · simp only [lerp]
    have : (m.y - p.y) / (q.y - p.y) * (q.x - p.x) = m.x - p.x := by
      field_simp; linarith
    linarith
  · simp only [lerp]
    have : (m.y - p.y) / (q.y - p.y) * (q.y - p.y) = m.y - p.y := by field_simp
    linarith

theorem lerp_lerp (c d : P) (u1 u2 w : Rat) :
    lerp (lerp c d u1) (lerp c d u2) w = lerp c d (u1 + w * (u2 - u1)) := by
  apply pt_ext <;> simp only [lerp] <;> ring

/-- (B) two points of the edge `cd` at heights within `pq` (`p` below `q`): strictly on the same
side of the line `pq` -/
theorem sameSide_B (c d p q : P) (hf : Free c d p q) (hpq : p.y < q.y) (u1 u2 : Rat)
    (a1 : 0 ≤ u1) (b1 : u1 ≤ 1) (a2 : 0 ≤ u2) (b2 : u2 ≤ 1)
    (l1 : p.y ≤ (lerp c d u1).y) (r1 : (lerp c d u1).y ≤ q.y)
    (l2 : p.y ≤ (lerp c d u2).y) (r2 : (lerp c d u2).y ≤ q.y) :
    ¬ ((orient p q (lerp c d u1) ≤ 0 ∧ 0 ≤ orient p q (lerp c d u2)) ∨
       (orient p q (lerp c d u2) ≤ 0 ∧ 0 ≤ orient p q (lerp c d u1))) := by
  intro h
  obtain ⟨w, w0, w1, hw⟩ := ivt _ _ h
  set m := lerp (lerp c d u1) (lerp c d u2) w with hm
  have ho : orient p q m = 0 := by rw [hm, orient_lerp]; exact hw
  have y1 : p.y ≤ m.y := by
    have : m.y = (1 - w) * (lerp c d u1).y + w * (lerp c d u2).y := by
      simp only [hm, lerp]; ring
    rw [this]
    nlinarith [mul_nonneg w0 (sub_nonneg.2 l2), mul_nonneg (sub_nonneg.2 w1) (sub_nonneg.2 l1)]
  have y2 : m.y ≤ q.y := by
    have : m.y = (1 - w) * (lerp c d u1).y + w * (lerp c d u2).y := by
      simp only [hm, lerp]; ring
    rw [this]
    nlinarith [mul_nonneg w0 (sub_nonneg.2 r2), mul_nonneg (sub_nonneg.2 w1) (sub_nonneg.2 r1)]
  obtain ⟨s, s0, s1, hs⟩ := lerp_of_collinear_y p q m hpq ho y1 y2
  have hu0 : 0 ≤ u1 + w * (u2 - u1) := by nlinarith [mul_nonneg w0 a2, mul_nonneg (sub_nonneg.2 w1) a1]
  have hu1 : u1 + w * (u2 - u1) ≤ 1 := by
    nlinarith [mul_nonneg w0 (sub_nonneg.2 b2), mul_nonneg (sub_nonneg.2 w1) (sub_nonneg.2 b1)]
  have on : onSeg c d m = true := by rw [hm, lerp_lerp]; exact onSeg_lerp c d _ hu0 hu1
  rw [← hs, hf s s0 s1] at on; cases on

/-- signs related by `A * k = -(B * o)` with `A, B > 0` -/
theorem sign_rel (A B k o : Rat) (hA : 0 < A) (hB : 0 < B) (h : A * k = -(B * o)) :
    (k < 0 ↔ 0 < o) ∧ (0 < k ↔ o < 0) := by
  constructor
  · constructor
    · intro hk; by_contra hc; rw [not_lt] at hc
      nlinarith [mul_neg_of_pos_of_neg hA hk, mul_nonneg hB.le (neg_nonneg.2 hc)]
    · intro ho; by_contra hc; rw [not_lt] at hc
      nlinarith [mul_nonneg hA.le hc, mul_pos hB ho]
  · constructor
    · intro hk; by_contra hc; rw [not_lt] at hc
      nlinarith [mul_pos hA hk, mul_nonneg hB.le hc]
    · intro ho; by_contra hc; rw [not_lt] at hc
      nlinarith [mul_nonneg hA.le (neg_nonneg.2 hc), mul_neg_of_pos_of_neg hB ho]

/-- the point of an upward edge `cd` at the height of `z` -/
def atHeight (c d z : P) : Rat := (z.y - c.y) / (d.y - c.y)

theorem atHeight_bounds (c d z : P) (hcd : c.y < d.y) (h1 : c.y ≤ z.y) (h2 : z.y ≤ d.y) :
    0 ≤ atHeight c d z ∧ atHeight c d z ≤ 1 :=
  frac_bounds _ _ (sub_pos.2 hcd) (by linarith) (by linarith)

theorem atHeight_y (c d z : P) (hcd : c.y < d.y) : (lerp c d (atHeight c d z)).y = z.y := by
  have hne : d.y - c.y ≠ 0 := ne_of_gt (sub_pos.2 hcd)
  simp only [lerp, atHeight]
  have : (z.y - c.y) / (d.y - c.y) * (d.y - c.y) = z.y - c.y := by field_simp
  linarith

/-- side of the edge point at `p`'s height w.r.t. the line `pq` vs. side of `p` w.r.t. the edge -/
theorem rel_at_p (c d p q : P) (hcd : c.y < d.y) :
    (d.y - c.y) * orient p q (lerp c d (atHeight c d p)) = -((q.y - p.y) * orient c d p) := by
  have hne : d.y - c.y ≠ 0 := ne_of_gt (sub_pos.2 hcd)
  simp only [orient, lerp, atHeight]
  field_simp
  ring

theorem rel_at_q (c d p q : P) (hcd : c.y < d.y) :
    (d.y - c.y) * orient p q (lerp c d (atHeight c d q)) = -((q.y - p.y) * orient c d q) := by
  have hne : d.y - c.y ≠ 0 := ne_of_gt (sub_pos.2 hcd)
  simp only [orient, lerp, atHeight]
  field_simp
  ring

/-! ## the per-edge lemma -/

/-- `v` is strictly above the height of `p` -/
def abv (p v : P) : Bool := decide (p.y < v.y)

/-- `v` lies in the half-open horizontal strip between `p` and `q`, to the right of the line `pq` -/
def inS (p q v : P) : Bool :=
  (abv p v ^^ abv q v) && (if p.y < q.y then decide (orient p q v < 0) else decide (0 < orient p q v))

theorem inS_symm (p q v : P) : inS p q v = inS q p v := by
  simp only [inS, orient_swap q p v, Left.neg_pos_iff, Left.neg_neg_iff]
  rw [Bool.xor_comm]
  rcases lt_trichotomy p.y q.y with h | h | h
  · simp [h, not_lt.2 h.le]
  · simp [abv, h]
  · simp [h, not_lt.2 h.le]

theorem crosses_abv (c d p : P) : crosses c d p =
    ((!abv p c && abv p d && decide (0 < orient c d p)) || (abv p c && !abv p d && decide (orient c d p < 0))) := by
  by_cases h1 : p.y < c.y <;> by_cases h2 : p.y < d.y
  · simp [crosses, abv, h1, h2, not_le.2 h1, not_le.2 h2]
  · simp [crosses, abv, h1, h2, not_le.2 h1, not_lt.1 h2]
  · simp [crosses, abv, h1, h2, not_lt.1 h1, not_le.2 h2]
  · simp [crosses, abv, h1, h2, not_lt.1 h1, not_lt.1 h2]

theorem strict_same (k1 k2 : Rat) (h : ¬ ((k1 ≤ 0 ∧ 0 ≤ k2) ∨ (k2 ≤ 0 ∧ 0 ≤ k1))) :
    (k1 < 0 ↔ k2 < 0) ∧ (0 < k1 ↔ 0 < k2) := by
  rw [not_or] at h
  obtain ⟨h1, h2⟩ := h
  refine ⟨⟨fun a => ?_, fun a => ?_⟩, ⟨fun a => ?_, fun a => ?_⟩⟩
  · by_contra hc; exact h1 ⟨a.le, not_lt.1 hc⟩
  · by_contra hc; exact h2 ⟨a.le, not_lt.1 hc⟩
  · by_contra hc; exact h2 ⟨not_lt.1 hc, a.le⟩
  · by_contra hc; exact h1 ⟨not_lt.1 hc, a.le⟩

section edge
variable (c d p q : P) (hf : Free c d p q)
include hf

/-- both endpoints of the edge in the strip: same side of `pq` -/
theorem MM_iff (hpq : p.y < q.y) (c1 : p.y ≤ c.y) (c2 : c.y ≤ q.y) (d1 : p.y ≤ d.y) (d2 : d.y ≤ q.y) :
    (orient p q c < 0 ↔ orient p q d < 0) := by
  have := sameSide_B c d p q hf hpq 0 1 (le_refl _) zero_le_one zero_le_one (le_refl _)
    (by rw [lerp_zero]; exact c1) (by rw [lerp_zero]; exact c2) (by rw [lerp_one]; exact d1) (by rw [lerp_one]; exact d2)
  rw [lerp_zero, lerp_one] at this
  exact (strict_same _ _ this).1

theorem LH_iff (hcd : c.y < d.y) (p1 : c.y ≤ p.y) (p2 : p.y ≤ d.y) (q1 : c.y ≤ q.y) (q2 : q.y ≤ d.y) :
    (0 < orient c d p ↔ 0 < orient c d q) :=
  (strict_same _ _ (sameSide_A c d p q hf hcd p1 p2 q1 q2)).2

theorem LM_iff (hpq : p.y < q.y) (hcd : c.y < d.y) (p1 : c.y ≤ p.y) (p2 : p.y ≤ d.y) (d2 : d.y ≤ q.y) :
    (0 < orient c d p ↔ orient p q d < 0) := by
  obtain ⟨u0, u1⟩ := atHeight_bounds c d p hcd p1 p2
  have hy := atHeight_y c d p hcd
  have := sameSide_B c d p q hf hpq (atHeight c d p) 1 u0 u1 zero_le_one (le_refl _)
    (by rw [hy]) (by rw [hy]; exact hpq.le) (by rw [lerp_one]; exact p2) (by rw [lerp_one]; exact d2)
  rw [lerp_one] at this
  have r := sign_rel _ _ _ _ (sub_pos.2 hcd) (sub_pos.2 hpq) (rel_at_p c d p q hcd)
  exact r.1.symm.trans (strict_same _ _ this).1

theorem MH_iff (hpq : p.y < q.y) (hcd : c.y < d.y) (c1 : p.y ≤ c.y) (q1 : c.y ≤ q.y) (q2 : q.y ≤ d.y) :
    (0 < orient c d q ↔ orient p q c < 0) := by
  obtain ⟨u0, u1⟩ := atHeight_bounds c d q hcd q1 q2
  have hy := atHeight_y c d q hcd
  have := sameSide_B c d p q hf hpq 0 (atHeight c d q) (le_refl _) zero_le_one u0 u1
    (by rw [lerp_zero]; exact c1) (by rw [lerp_zero]; exact q1) (by rw [hy]; exact hpq.le) (by rw [hy])
  rw [lerp_zero] at this
  have r := sign_rel _ _ _ _ (sub_pos.2 hcd) (sub_pos.2 hpq) (rel_at_q c d p q hcd)
  exact r.1.symm.trans (strict_same _ _ this).1.symm

end edge

theorem edge_up (c d p q : P) (hf : Free c d p q) (hpq : p.y < q.y) (hcd : c.y < d.y) :
    (crosses c d p ^^ crosses c d q) = (inS p q c ^^ inS p q d) := by
  rw [crosses_abv, crosses_abv]
  simp only [inS, if_pos hpq, abv]
  by_cases hcp : p.y < c.y <;> by_cases hcq : q.y < c.y <;> by_cases hdp : p.y < d.y <;> by_cases hdq : q.y < d.y
  all_goals first
    | (exfalso; linarith)
    | skip
  · -- HH
    simp [hcp, hcq, hdp, hdq]
  · -- MH
    have := MH_iff c d p q hf hpq hcd hcp.le (not_lt.1 hcq) hdq.le
    simp [hcp, hcq, hdp, hdq, this]
  · -- MM
    have := MM_iff c d p q hf hpq hcp.le (not_lt.1 hcq) hdp.le (not_lt.1 hdq)
    simp [hcp, hcq, hdp, hdq, this]
  · -- LH
    have := LH_iff c d p q hf hcd (not_lt.1 hcp) hdp.le (not_lt.1 hcq) hdq.le
    simp [hcp, hcq, hdp, hdq, this]
  · -- LM
    have := LM_iff c d p q hf hpq hcd (not_lt.1 hcp) hdp.le (not_lt.1 hdq)
    simp [hcp, hcq, hdp, hdq, this]
  · -- LL
    simp [hcp, hcq, hdp, hdq]

theorem edge_flat (c d p q : P) (hf : Free c d p q) (hpq : p.y < q.y) (hcd : c.y = d.y) :
    (crosses c d p ^^ crosses c d q) = (inS p q c ^^ inS p q d) := by
  rw [crosses_horizontal c d p hcd, crosses_horizontal c d q hcd]
  simp only [inS, if_pos hpq, abv, ← hcd]
  by_cases hcp : p.y < c.y <;> by_cases hcq : q.y < c.y
  · simp [hcp, hcq]
  · have := MM_iff c d p q hf hpq hcp.le (not_lt.1 hcq) (hcd ▸ hcp.le) (hcd ▸ not_lt.1 hcq)
    simp [hcp, hcq, this]
  · exfalso; linarith
  · simp [hcp, hcq]

/-- the per-edge lemma, mover going up -/
theorem edge_lt (c d p q : P) (hf : Free c d p q) (hpq : p.y < q.y) :
    (crosses c d p ^^ crosses c d q) = (inS p q c ^^ inS p q d) := by
  rcases lt_trichotomy c.y d.y with h | h | h
  · exact edge_up c d p q hf hpq h
  · exact edge_flat c d p q hf hpq h
  · have := edge_up d c p q hf.symm_edge hpq h
    rw [crosses_symm c d p, crosses_symm c d q, this, Bool.xor_comm]

/-- mover horizontal: both crossing tests agree -/
theorem edge_eq (c d p q : P) (hf : Free c d p q) (hpq : p.y = q.y) : crosses c d p = crosses c d q := by
  have up : ∀ c d : P, Free c d p q → c.y < d.y → crosses c d p = crosses c d q := by
    intro c d hf hcd
    rw [crosses_abv, crosses_abv]
    simp only [abv, ← hpq]
    by_cases hcp : p.y < c.y <;> by_cases hdp : p.y < d.y
    · simp [hcp, hdp]
    · exfalso; linarith
    · have := LH_iff c d p q hf hcd (not_lt.1 hcp) hdp.le (hpq ▸ not_lt.1 hcp) (hpq ▸ hdp.le)
      simp [hcp, hdp, this]
    · simp [hcp, hdp]
  rcases lt_trichotomy c.y d.y with h | h | h
  · exact up c d hf h
  · rw [crosses_horizontal c d p h, crosses_horizontal c d q h]
  · rw [crosses_symm c d p, crosses_symm c d q]; exact up d c hf.symm_edge h

/-- **the per-edge lemma**: if the closed segment `pq` does not meet the edge `cd`, the crossing
tests of the edge from `p` and from `q` differ exactly when one endpoint of the edge is in `inS` -/
theorem edge_lemma (c d p q : P) (hf : Free c d p q) :
    (crosses c d p ^^ crosses c d q) = (inS p q c ^^ inS p q d) := by
  rcases lt_trichotomy p.y q.y with h | h | h
  · exact edge_lt c d p q hf h
  · rw [edge_eq c d p q hf h]
    have : ∀ v, inS p q v = false := by intro v; simp [inS, abv, h]
    simp [this]
  · have := edge_lt c d q p hf.symm_move h
    rw [Bool.xor_comm, this, inS_symm q p c, inS_symm q p d]

/-! ## rings and contour lists -/

theorem xorEdges_pair (p q : P) (es : List (P × P)) (g : P → Bool)
    (h : ∀ e ∈ es, (crosses e.1 e.2 p ^^ crosses e.1 e.2 q) = (g e.1 ^^ g e.2)) :
    (xorEdges p es ^^ xorEdges q es) = es.foldr (fun e acc => (g e.1 ^^ g e.2) ^^ acc) false := by
  induction es with
  | nil => rfl
  | cons e es ih =>
    have h1 := h e (by simp)
    have h2 := ih (fun e he => h e (by simp [he]))
    show ((crosses e.1 e.2 p ^^ xorEdges p es) ^^ (crosses e.1 e.2 q ^^ xorEdges q es)) = _
    simp only [List.foldr_cons, ← h2, ← h1]
    cases crosses e.1 e.2 p <;> cases crosses e.1 e.2 q <;> cases xorEdges p es <;> cases xorEdges q es <;> rfl

/-- a ring no edge of which meets the closed segment `pq` has `p` and `q` on the same side -/
theorem insideRing_const (r : Ring) (p q : P) (hf : ∀ e ∈ edges r, Free e.1 e.2 p q) :
    insideRing r p = insideRing r q := by
  have key := xorEdges_pair p q (edges r) (inS p q) (fun e he => edge_lemma e.1 e.2 p q (hf e he))
  have tele : (edges r).foldr (fun e acc => (inS p q e.1 ^^ inS p q e.2) ^^ acc) false = false := by
    cases r with
    | nil => rfl
    | cons a t =>
      have := telescope (inS p q) a a t
      simp only [edges]; rw [this]; simp
  rw [tele] at key
  rw [insideRing_def, insideRing_def]
  cases h1 : xorEdges p (edges r) <;> cases h2 : xorEdges q (edges r) <;> simp_all

/-- `pq` meets no edge of the contour list -/
def FreeC (cs : Contours) (p q : P) : Prop :=
  ∀ s : Rat, 0 ≤ s → s ≤ 1 → onBoundary cs (lerp p q s) = false

/-- **Even–odd membership is constant along a segment that does not meet the boundary.** -/
theorem inside_const (cs : Contours) (p q : P) (hf : FreeC cs p q) : inside cs p = inside cs q := by
  induction cs with
  | nil => rfl
  | cons r cs ih =>
    have hr : ∀ e ∈ edges r, Free e.1 e.2 p q := by
      intro e he s s0 s1
      have := hf s s0 s1
      simp only [onBoundary, List.any_cons, Bool.or_eq_false_iff] at this
      have h2 := this.1
      rw [List.any_eq_false] at h2
      simpa using h2 e he
    have hcs : FreeC cs p q := by
      intro s s0 s1
      have := hf s s0 s1
      simp only [onBoundary, List.any_cons, Bool.or_eq_false_iff] at this
      exact this.2
    rw [inside_cons, inside_cons, insideRing_const r p q hr, ih hcs]

end GeomV.C01
