import GeomV.C14.Length
/-!
# C14: the segment form of the CLIPLINE contract implies the point-set form

`ClipLineSegsSpec` (the returned segments are, up to direction and order, the oracle's maximal inside
parts — what the correspondence run checks on every generated case) implies the point-set statement
of the property: `⋃ pieces = L ∩ closure(P)`.  So ONE contract, the one compared per case, carries
the headline (`C14_exact_of_segs`), the vertex clause (`C14_vertices_of_segs`), the emptiness clause
(`C14_empty_iff_of_segs`) and the length clause (`C14_length`).

Uses oracle completeness (`oracle_complete`) off the boundary; at the finitely many boundary points
of a segment the decidable hypothesis `closureOK` (one side of every boundary crossing is inside;
evaluated by the judge on every case).
-/
set_option linter.unusedSimpArgs false
set_option linter.unusedVariables false
namespace GeomV.C14
open GeomV GeomV.C01

/-- `τ` lies in one of the intervals -/
def Covered (l : List (Rat × Rat)) (τ : Rat) : Prop := ∃ iv ∈ l, iv.1 ≤ τ ∧ τ ≤ iv.2

/-! ## merging adjacent intervals keeps the covered set -/

theorem covered_mergeStep (x : Rat × Rat) (acc : List (Rat × Rat)) (hx : x.1 ≤ x.2)
    (hacc : ∀ iv ∈ acc, iv.1 ≤ iv.2) (τ : Rat) :
    Covered (mergeStep x acc) τ ↔ ((x.1 ≤ τ ∧ τ ≤ x.2) ∨ Covered acc τ) := by
  cases acc with
  | nil => simp [mergeStep, Covered]
  | cons h r =>
    obtain ⟨c, d⟩ := h
    have hcd : c ≤ d := hacc (c, d) (by simp)
    simp only [mergeStep]
    split
    · rename_i he
      simp only [Covered, List.mem_cons, exists_eq_or_imp]
      constructor
      · rintro (⟨h1, h2⟩ | h)
        · rcases le_total τ c with h | h
          · exact Or.inl ⟨h1, by rw [he]; exact h⟩
          · exact Or.inr (Or.inl ⟨h, h2⟩)
        · exact Or.inr (Or.inr h)
      · rintro (⟨h1, h2⟩ | ⟨h1, h2⟩ | h)
        · exact Or.inl ⟨h1, by show τ ≤ d; rw [he] at h2; linarith⟩
        · exact Or.inl ⟨by show x.1 ≤ τ; rw [he] at hx; linarith, h2⟩
        · exact Or.inr h
    · simp only [Covered, List.mem_cons, exists_eq_or_imp]

theorem covered_mergeAdj (l : List (Rat × Rat)) (h : ∀ iv ∈ l, iv.1 ≤ iv.2) (τ : Rat) :
    Covered (mergeAdj l) τ ↔ Covered l τ := by
  induction l with
  | nil => simp [mergeAdj, Covered]
  | cons x l ih =>
    have hl : ∀ iv ∈ l, iv.1 ≤ iv.2 := fun iv hiv => h iv (by simp [hiv])
    show Covered (mergeStep x (mergeAdj l)) τ ↔ _
    rw [covered_mergeStep x _ (h x (by simp)) (le_mergeAdj l hl) τ, ih hl]
    simp only [Covered, List.mem_cons, exists_eq_or_imp]

/-! ## points of a sub-segment -/

theorem onSeg_degenerate (a p : P) (h : onSeg a a p = true) : p = a := by
  simp only [onSeg, between, Bool.and_eq_true, Bool.or_eq_true, decide_eq_true_eq] at h
  apply pt_ext
  · rcases h.1.2 with h | h <;> linarith [h.1, h.2]
  · rcases h.2 with h | h <;> linarith [h.1, h.2]

theorem lerp_inj (a b : P) (hab : a ≠ b) (u v : Rat) (h : lerp a b u = lerp a b v) : u = v := by
  by_contra hne
  apply hab
  have hx : (lerp a b u).x = (lerp a b v).x := by rw [h]
  have hy : (lerp a b u).y = (lerp a b v).y := by rw [h]
  simp only [lerp] at hx hy
  have hd : u - v ≠ 0 := sub_ne_zero.2 hne
  apply pt_ext
  · have : (u - v) * (b.x - a.x) = 0 := by linarith
    rcases mul_eq_zero.1 this with h | h
    · exact absurd h hd
    · linarith
  · have : (u - v) * (b.y - a.y) = 0 := by linarith
    rcases mul_eq_zero.1 this with h | h
    · exact absurd h hd
    · linarith

/-- the points of the sub-segment `[u, v]` of `ab` are the `pointAt a b τ`, `τ ∈ [u, v]` -/
theorem onSeg_sub_iff (a b : P) (hab : a ≠ b) (u v : Rat) (huv : u ≤ v) (p : P) :
    onSeg (pointAt a b u) (pointAt a b v) p = true ↔ ∃ τ, u ≤ τ ∧ τ ≤ v ∧ p = pointAt a b τ := by
  simp only [pointAt_eq_lerp]
  constructor
  · intro h
    rcases eq_or_lt_of_le huv with e | hlt
    · subst e
      exact ⟨u, le_refl _, le_refl _, onSeg_degenerate _ _ h⟩
    · have hne : lerp a b u ≠ lerp a b v := fun e => (ne_of_lt hlt) (lerp_inj a b hab u v e)
      have h0 : orient (lerp a b u) (lerp a b v) p = 0 := by
        simp only [onSeg, Bool.and_eq_true, decide_eq_true_eq] at h; exact h.1.1
      obtain ⟨s, hs⟩ := rep_collinear _ _ p hne h0
      rw [hs] at h
      obtain ⟨s0, s1⟩ := param_of_onSeg _ _ s hne h
      refine ⟨u + s * (v - u), ?_, ?_, ?_⟩
      · nlinarith [mul_nonneg s0 (sub_nonneg.2 huv)]
      · nlinarith [mul_nonneg (sub_nonneg.2 s1) (sub_nonneg.2 huv)]
      · rw [hs, lerp_lerp]
  · rintro ⟨τ, h1, h2, rfl⟩
    rcases eq_or_lt_of_le huv with e | hlt
    · subst e
      have : τ = u := le_antisymm h2 h1
      subst this
      exact onSeg_left _ _
    · have hp : 0 < v - u := sub_pos.2 hlt
      obtain ⟨s0, s1⟩ := frac_bounds (τ - u) (v - u) hp (by linarith) (by linarith)
      have := onSeg_lerp (lerp a b u) (lerp a b v) ((τ - u) / (v - u)) s0 s1
      rw [lerp_lerp] at this
      have e : u + (τ - u) / (v - u) * (v - u) = τ := by
        rw [div_mul_cancel₀ _ (ne_of_gt hp)]; ring
      rw [e] at this; exact this

theorem onSeg_iff_param (a b : P) (hab : a ≠ b) (p : P) :
    onSeg a b p = true ↔ ∃ τ, 0 ≤ τ ∧ τ ≤ 1 ∧ p = pointAt a b τ := by
  have := onSeg_sub_iff a b hab 0 1 zero_le_one p
  simp only [pointAt_eq_lerp, lerp_zero, lerp_one] at this
  simpa [pointAt_eq_lerp] using this

/-! ## closed membership along a segment of the line = covered by the oracle -/

theorem ne_of_simplePath (l : Path) (h : simplePath l = true) (e : P × P) (he : e ∈ pairs l) : e.1 ≠ e.2 := by
  simp only [simplePath, Bool.or_eq_true, Bool.and_eq_true, List.all_eq_true, decide_eq_true_eq] at h
  rcases h with h | h
  · exact h.1.2 e he
  · exact h.1.2 e he

theorem vertex_off_boundary (ls : List Path) (cs : Contours) (hgp : gpLine ls cs = true)
    (l : Path) (hl : l ∈ ls) (e : P × P) (he : e ∈ pairs l) :
    onBoundary cs e.1 = false ∧ onBoundary cs e.2 = false := by
  simp only [gpLine, List.all_eq_true, Bool.not_eq_true'] at hgp
  have key := hgp l hl e he
  constructor
  · by_contra hb
    have hb : onBoundary cs e.1 = true := by simpa using hb
    simp only [onBoundary, List.any_eq_true] at hb
    obtain ⟨r, hr, f, hf, hon⟩ := hb
    have := key r hr f hf
    simp [touch, hon] at this
  · by_contra hb
    have hb : onBoundary cs e.2 = true := by simpa using hb
    simp only [onBoundary, List.any_eq_true] at hb
    obtain ⟨r, hr, f, hf, hon⟩ := hb
    have := key r hr f hf
    simp [touch, hon] at this

theorem oracleSeg_wf (cs : Contours) (a b : P) : ∀ iv ∈ oracleSeg cs a b, iv.1 ≤ iv.2 :=
  fun iv h => (oracle_endpoints_on_L cs a b iv h).2.1

/-- for a segment `ab` of a line in general position: a point of the segment lies inside or on `P`
exactly when its parameter is covered by the oracle's intervals -/
theorem closed_iff_covered (ls : List Path) (cs : Contours) (hgp : gpLine ls cs = true)
    (hc : closureOK cs ls = true) (l : Path) (hl : l ∈ ls) (a b : P) (hab : (a, b) ∈ pairs l) (τ : Rat)
    (h0 : 0 ≤ τ) (h1 : τ ≤ 1) :
    insideClosedC cs (pointAt a b τ) = true ↔ Covered (oracleSeg cs a b) τ := by
  by_cases hoff : onBoundary cs (pointAt a b τ) = false
  · have := oracle_complete ls cs hgp l hl a b hab τ h0 h1 hoff
    simp only [insideClosedC, hoff, Bool.or_false]
    exact this
  · have hon : onBoundary cs (pointAt a b τ) = true := by simpa using hoff
    simp only [insideClosedC, hon, Bool.or_true, true_iff]
    obtain ⟨v1, v2⟩ := vertex_off_boundary ls cs hgp l hl (a, b) hab
    have t0 : 0 < τ := by
      rcases eq_or_lt_of_le h0 with e | h
      · subst e; rw [pointAt_eq_lerp, lerp_zero] at hon; simp only at v1; rw [v1] at hon; cases hon
      · exact h
    have t1 : τ < 1 := by
      rcases eq_or_lt_of_le h1 with e | h
      · subst e; rw [pointAt_eq_lerp, lerp_one] at hon; simp only at v2; rw [v2] at hon; cases hon
      · exact h
    have hm := boundary_param_mem cs a b (colFree_of_gpLine ls cs hgp l hl a b hab) τ t0 t1
      (by rw [← pointAt_eq_lerp]; exact hon)
    simp only [closureOK, List.all_eq_true] at hc
    have := hc l hl (a, b) hab
    simp only [closureOKSeg, List.all_eq_true, Bool.or_eq_true, Bool.not_eq_true', List.any_eq_true,
      Bool.and_eq_true, decide_eq_true_eq] at this
    rcases this τ ((mem_sortDedup τ _).2 hm) with h | ⟨iv, hiv, h⟩
    · rw [hon] at h; cases h
    · exact ⟨iv, hiv, h⟩

/-! ## the oracle's segments, as a point set, are `L ∩ closure(P)` -/

theorem onSegs_oracle_iff (ls : List Path) (cs : Contours) (hs : simplePaths ls = true)
    (hgp : gpLine ls cs = true) (hc : closureOK cs ls = true) (p : P) :
    (∃ sg ∈ oracleSegments cs ls, onSeg sg.1 sg.2 p = true) ↔
      (onPaths ls p = true ∧ insideClosedC cs p = true) := by
  have hsimple : ∀ l ∈ ls, simplePath l = true := by
    simp only [simplePaths, Bool.and_eq_true, List.all_eq_true] at hs
    exact hs.1
  constructor
  · rintro ⟨sg, hsg, hon⟩
    simp only [oracleSegments, List.mem_flatMap, List.mem_map] at hsg
    obtain ⟨l, hl, e, he, iv, hiv, rfl⟩ := hsg
    have hne := ne_of_simplePath l (hsimple l hl) e he
    have hwf := le_mergeAdj (oracleSeg cs e.1 e.2) (oracleSeg_wf cs e.1 e.2) iv hiv
    obtain ⟨τ, h1, h2, rfl⟩ := (onSeg_sub_iff e.1 e.2 hne iv.1 iv.2 hwf p).1 hon
    have hcov : Covered (oracleSeg cs e.1 e.2) τ :=
      (covered_mergeAdj _ (oracleSeg_wf cs e.1 e.2) τ).1 ⟨iv, hiv, h1, h2⟩
    obtain ⟨j, hj, j1, j2⟩ := hcov
    obtain ⟨b0, _, b1, _, _⟩ := oracle_endpoints_on_L cs e.1 e.2 j hj
    have τ0 : 0 ≤ τ := le_trans b0 j1
    have τ1 : τ ≤ 1 := le_trans j2 b1
    refine ⟨?_, (closed_iff_covered ls cs hgp hc l hl e.1 e.2 he τ τ0 τ1).2 ⟨j, hj, j1, j2⟩⟩
    simp only [onPaths, onPath, List.any_eq_true]
    exact ⟨l, hl, e, he, onSeg_pointAt e.1 e.2 τ τ0 τ1⟩
  · rintro ⟨hon, hin⟩
    simp only [onPaths, onPath, List.any_eq_true] at hon
    obtain ⟨l, hl, e, he, hon⟩ := hon
    have hne := ne_of_simplePath l (hsimple l hl) e he
    obtain ⟨τ, τ0, τ1, rfl⟩ := (onSeg_iff_param e.1 e.2 hne p).1 hon
    have hcov := (closed_iff_covered ls cs hgp hc l hl e.1 e.2 he τ τ0 τ1).1 hin
    obtain ⟨iv, hiv, i1, i2⟩ := (covered_mergeAdj _ (oracleSeg_wf cs e.1 e.2) τ).2 hcov
    have hwf := le_mergeAdj (oracleSeg cs e.1 e.2) (oracleSeg_wf cs e.1 e.2) iv hiv
    refine ⟨(pointAt e.1 e.2 iv.1, pointAt e.1 e.2 iv.2), ?_, ?_⟩
    · simp only [oracleSegments, List.mem_flatMap, List.mem_map]
      exact ⟨l, hl, e, he, iv, hiv, rfl⟩
    · exact (onSeg_sub_iff e.1 e.2 hne iv.1 iv.2 hwf _).2 ⟨τ, i1, i2, rfl⟩

/-! ## transfer along `SegsEquiv` -/

theorem onPaths_iff_segs (R : List Path) (p : P) :
    onPaths R p = true ↔ ∃ sg ∈ segsOf R, onSeg sg.1 sg.2 p = true := by
  simp only [onPaths, onPath, List.any_eq_true, segsOf, List.mem_flatMap]
  constructor
  · rintro ⟨l, hl, e, he, h⟩; exact ⟨e, ⟨l, hl, he⟩, h⟩
  · rintro ⟨e, ⟨l, hl, he⟩, h⟩; exact ⟨l, hl, e, he, h⟩

theorem exists_of_forall2 {A B : List (P × P)} (hf : List.Forall₂ flipEq A B) (p : P) :
    (∃ x ∈ A, onSeg x.1 x.2 p = true) ↔ (∃ y ∈ B, onSeg y.1 y.2 p = true) := by
  induction hf with
  | nil => simp
  | @cons x y A B hxy _ ih =>
    have e : onSeg x.1 x.2 p = onSeg y.1 y.2 p := by
      rcases hxy with h | h
      · rw [h]
      · rw [h]; exact onSeg_symm _ _ _
    simp only [List.mem_cons, exists_eq_or_imp, e, ih]

theorem exists_of_segsEquiv {A B : List (P × P)} (h : SegsEquiv A B) (p : P) :
    (∃ x ∈ A, onSeg x.1 x.2 p = true) ↔ (∃ y ∈ B, onSeg y.1 y.2 p = true) := by
  obtain ⟨B', hp, hf⟩ := h
  rw [exists_of_forall2 hf p]
  constructor
  · rintro ⟨y, hy, h⟩; exact ⟨y, hp.mem_iff.1 hy, h⟩
  · rintro ⟨y, hy, h⟩; exact ⟨y, hp.mem_iff.2 hy, h⟩

/-- **The segment contract implies the point-set contract.**  If the segments of the returned pieces
are, up to direction and order, the oracle's maximal inside parts, then — for a simple line in general
position w.r.t. `P`, with the decidable closure hypothesis — the union of the pieces is, as a point
set, exactly `L ∩ closure(P)`. -/
theorem C14_pointset_of_segs (ls : List Path) (cs : Contours) (R : List Path)
    (hR : SegsEquiv (segsOf R) (oracleSegments cs ls))
    (hs : simplePaths ls = true) (hgp : gpLine ls cs = true) (hc : closureOK cs ls = true) (p : P) :
    onPaths R p = true ↔ (onPaths ls p = true ∧ insideClosedC cs p = true) := by
  rw [onPaths_iff_segs, exists_of_segsEquiv hR p]
  exact onSegs_oracle_iff ls cs hs hgp hc p

theorem closureOK_single (cs : Contours) (ls : List Path) (h : closureOK cs ls = true) (l : Path) (hl : l ∈ ls) :
    closureOK cs [l] = true := by
  simp only [closureOK, List.all_eq_true] at h
  simp only [closureOK, List.all_cons, List.all_nil, Bool.and_true, List.all_eq_true]
  exact h l hl

/-- one clipper call under the segment contract -/
theorem exactS_of_segs (core : ClipCore) (hseg : ClipLineSegsSpec core.line) (s : List Path) (arg : Operand)
    (hs : simplePaths s = true) (hv : validC (toContours arg) = true)
    (hg : gpLine s (toContours arg) = true) (hc : closureOK (toContours arg) s = true) (p : P) :
    onPaths (clipS core s arg) p = true ↔
      (onPaths s p = true ∧ insideClosedC (toContours arg) p = true) := by
  by_cases ht : trivialCase s (toContours arg) = true
  · have := trivialS core s arg ht
    rw [this.1]
    constructor
    · intro h; simp [onPaths] at h
    · intro h; exact absurd h (this.2 p)
  · have hne : s ≠ [] ∧ toContours arg ≠ [] ∧ overlaps (bbox s) (bbox (toContours arg)) = true := by
      simp only [trivialCase, Bool.or_eq_true, not_or, Bool.not_eq_true, Bool.not_eq_eq_eq_not, Bool.not_not,
        Bool.not_false] at ht
      refine ⟨?_, ?_, ?_⟩
      · intro e; rw [e] at ht; simp at ht
      · intro e; rw [e] at ht; simp at ht
      · simpa using ht.2
    have hR := hseg s (toContours arg) hne.1 hne.2.1 hne.2.2 hs hv hg
    rw [glueS]
    simp only [ht, Bool.false_eq_true, if_false]
    exact C14_pointset_of_segs s (toContours arg) _ hR hs hg hc p

/-- **C14, headline, from the segment contract alone.**  Under `ClipLineSegsSpec` — the contract that the
correspondence run checks on every generated case — for a simple line (or network of lines) in general
position w.r.t. a valid polygon, with the decidable closure hypothesis: in every case (trivial ones
included) the union of the pieces returned by `Clip` is, as a point set, exactly `L ∩ closure(P)`.
With `C14_length` (same contract) the headline and the length clause rest on ONE hypothesis. -/
theorem C14_exact_of_segs (core : ClipCore) (hseg : ClipLineSegsSpec core.line) (L : Lines) (arg : Operand)
    (hs : simplePaths L.paths = true) (hv : validC (toContours arg) = true)
    (hg : gpLine L.paths (toContours arg) = true) (hc : closureOK (toContours arg) L.paths = true) (p : P) :
    onPaths (clip core L arg) p = true ↔
      (onPaths L.paths p = true ∧ insideClosedC (toContours arg) p = true) := by
  rw [clip_eq, onPaths_flatMap]
  constructor
  · rintro ⟨l, hl, hp⟩
    have := (exactS_of_segs core hseg [l] arg (simplePaths_single _ hs l hl) hv (gpLine_single _ _ hg l hl)
      (closureOK_single _ _ hc l hl) p).1 hp
    rw [onPaths_single] at this
    refine ⟨?_, this.2⟩
    simp only [onPaths, List.any_eq_true]
    exact ⟨l, hl, this.1⟩
  · rintro ⟨h1, h2⟩
    simp only [onPaths, List.any_eq_true] at h1
    obtain ⟨l, hl, hp⟩ := h1
    exact ⟨l, hl, (exactS_of_segs core hseg [l] arg (simplePaths_single _ hs l hl) hv (gpLine_single _ _ hg l hl)
      (closureOK_single _ _ hc l hl) p).2 ⟨by rw [onPaths_single]; exact hp, h2⟩⟩

/-- non-vacuity: the hypotheses hold on a concrete case (the closure hypothesis included) -/
example : simplePaths thru = true ∧ validC sqC = true ∧ gpLine thru sqC = true ∧ closureOK sqC thru = true ∧
    closureOKSeg sqC ⟨0, 2⟩ ⟨6, 2⟩ = true ∧ sortDedup (crossParams sqC ⟨0, 2⟩ ⟨6, 2⟩) ≠ [] := by decide +kernel

end GeomV.C14
