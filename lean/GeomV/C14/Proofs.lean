import GeomV.C01.Model
import GeomV.C14.Spec
