import GeomV.C01.Lemmas
import GeomV.C14.Spec
/-!
# C14 theorems (property: Clip returns exactly the parts of a line that lie inside the polygon)

`core.line` — polyclip's CLIPLINE sweep — is a parameter; `ClipLineSpec core.line` is an explicit
hypothesis where it is needed (`C14_empty_iff`), compared per generated case with the exact oracle in
the correspondence run.  Proved for all inputs: the glue (`C14_glue`), the trivial cases including
the geometric fact that box-disjoint operands are set-disjoint (`C14_trivial`), soundness of the
oracle (`oracle_midpoints_inside`, `oracle_endpoints_on_L`).  Level: proof, **partial**.
-/
set_option linter.unusedSimpArgs false
set_option linter.unusedVariables false
namespace GeomV.C14
open GeomV GeomV.C01

/-! ## glue -/

theorem dropLast_closeRing (r : Ring) : (closeRing r).dropLast = r := by
  cases r with
  | nil => simp [closeRing]
  | cons h t =>
    show ((h :: t) ++ [h]).dropLast = h :: t
    rw [List.dropLast_concat]

theorem map_dropLast_close (cs : Contours) : (polyClipToPolygon cs).map List.dropLast = cs := by
  induction cs with
  | nil => rfl
  | cons r cs ih =>
    simp only [polyClipToPolygon, List.map_cons, dropLast_closeRing, List.map_map] at ih ⊢
    rw [ih]

/-- one clipper call in CLIPLINE mode with the paths `s` as subject (`clip1 core l arg = clipS core [l] arg`;
the pre-fix `MultiLineString.Clip` was `clipS core L.paths arg`) -/
def clipS (core : ClipCore) (s : List Path) (arg : Operand) : List (List P) :=
  (polyOp core .clipline s arg).map fun pp => pp.dropLast

/-- (one clipper call with subject paths `s`) For `LineString` and `MultiLineString` receivers and `Polygon`, `MultiPolygon`,
`*Bounds` arguments, `Clip` returns exactly the clipper's pieces (the artificial closing vertex added
by `polyClipToPolygon` is the one removed again): nothing in the trivial cases, the sweep's pieces
otherwise. -/
theorem glueS (core : ClipCore) (s : List Path) (arg : Operand) :
    clipS core s arg =
      if trivialCase s (toContours arg) then [] else core.line s (toContours arg) := by
  have h1 : clipperOp .clipline s (toContours arg) = .clipline := by simp [clipperOp]
  have : clipS core s arg = construct core .clipline s (toContours arg) := by
    simp only [clipS, polyOp, h1]
    exact map_dropLast_close _
  rw [this]
  unfold construct trivialCase
  by_cases e : (s.isEmpty || (toContours arg).isEmpty) = true
  · simp [e]
  · by_cases o : overlaps (bbox s) (bbox (toContours arg)) = true
    · simp [e, o]
    · simp [e, o]

/-! ## trivial cases: box-disjoint ⇒ set-disjoint -/

theorem mem_pairs (l : Path) (e : P × P) (h : e ∈ pairs l) : e.1 ∈ l ∧ e.2 ∈ l := by
  induction l with
  | nil => simp [pairs] at h
  | cons a l ih =>
    cases l with
    | nil => simp [pairs] at h
    | cons b r =>
      simp only [pairs, List.mem_cons] at h
      rcases h with h | h
      · subst h; simp
      · have := ih (by simpa using h)
        exact ⟨List.mem_cons_of_mem _ this.1, List.mem_cons_of_mem _ this.2⟩

theorem inBoxC_of_onSeg (mn mx a b p : P) (ha : inBoxC mn mx a) (hb : inBoxC mn mx b)
    (h : onSeg a b p = true) : inBoxC mn mx p := by
  simp only [onSeg, between, Bool.and_eq_true, Bool.or_eq_true, decide_eq_true_eq] at h
  obtain ⟨⟨_, hx⟩, hy⟩ := h
  obtain ⟨a1, a2, a3, a4⟩ := ha
  obtain ⟨b1, b2, b3, b4⟩ := hb
  refine ⟨?_, ?_, ?_, ?_⟩
  · rcases hx with hx | hx <;> linarith [hx.1, hx.2]
  · rcases hx with hx | hx <;> linarith [hx.1, hx.2]
  · rcases hy with hy | hy <;> linarith [hy.1, hy.2]
  · rcases hy with hy | hy <;> linarith [hy.1, hy.2]

theorem inBox_of_onPaths (s : List Path) (p : P) (h : onPaths s p = true) :
    ∃ mn mx, bbox s = some (mn, mx) ∧ inBoxC mn mx p := by
  simp only [onPaths, onPath, List.any_eq_true] at h
  obtain ⟨l, hl, e, he, hon⟩ := h
  have ⟨m1, m2⟩ := mem_pairs l e he
  obtain ⟨mn, mx, hb, i1⟩ := bbox_contains s l e.1 hl m1
  have i2 := bbox_some s mn mx hb l hl e.2 m2
  exact ⟨mn, mx, hb, inBoxC_of_onSeg mn mx e.1 e.2 p i1 i2 hon⟩

theorem inBox_of_onBoundary (c : Contours) (p : P) (h : onBoundary c p = true) :
    ∃ mn mx, bbox c = some (mn, mx) ∧ inBoxC mn mx p := by
  simp only [onBoundary, List.any_eq_true] at h
  obtain ⟨r, hr, e, he, hon⟩ := h
  have ⟨m1, m2⟩ := mem_edges r e he
  obtain ⟨mn, mx, hb, i1⟩ := bbox_contains c r e.1 hr m1
  have i2 := bbox_some c mn mx hb r hr e.2 m2
  exact ⟨mn, mx, hb, inBoxC_of_onSeg mn mx e.1 e.2 p i1 i2 hon⟩

theorem inBox_of_insideClosed (c : Contours) (p : P) (h : insideClosedC c p = true) :
    ∃ mn mx, bbox c = some (mn, mx) ∧ inBoxC mn mx p := by
  simp only [insideClosedC, Bool.or_eq_true] at h
  rcases h with h | h
  · exact inBox_of_inside c p h
  · exact inBox_of_onBoundary c p h

/-- **C14 trivial cases.** If an operand is empty or the bounding boxes do not overlap, `Clip`
returns no piece — and rightly so: no point of the line lies inside or on the polygon
(box-disjointness implies set-disjointness). -/
theorem trivialS (core : ClipCore) (s : List Path) (arg : Operand)
    (h : trivialCase s (toContours arg) = true) :
    clipS core s arg = [] ∧
    ∀ p, ¬ (onPaths s p = true ∧ insideClosedC (toContours arg) p = true) := by
  refine ⟨by rw [glueS, h]; rfl, ?_⟩
  rintro p ⟨h1, h2⟩
  obtain ⟨smn, smx, es, s1, s2, s3, s4⟩ := inBox_of_onPaths _ p h1
  obtain ⟨cmn, cmx, ec, c1, c2, c3, c4⟩ := inBox_of_insideClosed _ p h2
  simp only [trivialCase, Bool.or_eq_true] at h
  rcases h with (h | h) | h
  · rw [List.isEmpty_iff] at h; rw [h] at es; simp [bbox] at es
  · rw [List.isEmpty_iff] at h; rw [h] at ec; simp [bbox] at ec
  · rw [es, ec] at h
    simp only [overlaps, boxOverlaps, Bool.not_eq_true', Bool.and_eq_false_iff, decide_eq_false_iff_not,
      not_le, ge_iff_le] at h
    rcases h with ((h | h) | h) | h <;> linarith

/-! ## empty exactly when the line does not enter the polygon -/

theorem onSeg_left (a b : P) : onSeg a b a = true := by
  have : orient a b a = 0 := by simp only [orient]; ring
  simp [onSeg, between, this, le_total]

/-- **C14, emptiness.** Under the CLIPLINE contract, for a simple line in general position w.r.t. a
valid polygon: `Clip` returns no piece exactly when no point of the line lies inside or on the
polygon. -/
theorem emptyS_iff (core : ClipCore) (hline : ClipLineSpec core.line) (s : List Path) (arg : Operand)
    (hs : simplePaths s = true) (hv : validC (toContours arg) = true)
    (hg : gpLine s (toContours arg) = true) :
    clipS core s arg = [] ↔
      ∀ p, ¬ (onPaths s p = true ∧ insideClosedC (toContours arg) p = true) := by
  by_cases ht : trivialCase s (toContours arg) = true
  · have := trivialS core s arg ht
    exact ⟨fun _ => this.2, fun _ => this.1⟩
  · have hne : s ≠ [] ∧ toContours arg ≠ [] ∧ overlaps (bbox s) (bbox (toContours arg)) = true := by
      simp only [trivialCase, Bool.or_eq_true, not_or, Bool.not_eq_true, Bool.not_eq_eq_eq_not, Bool.not_not,
        Bool.not_false] at ht
      refine ⟨?_, ?_, ?_⟩
      · intro e; rw [e] at ht; simp at ht
      · intro e; rw [e] at ht; simp at ht
      · simpa using ht.2
    obtain ⟨hlen, hpts⟩ := hline s (toContours arg) hne.1 hne.2.1 hne.2.2 hs hv hg
    rw [glueS]
    simp only [ht, Bool.false_eq_true, if_false]
    constructor
    · intro he p hp
      have := (hpts p).2 hp
      rw [he] at this; simp [onPaths] at this
    · intro hall
      cases hR : core.line s (toContours arg) with
      | nil => rfl
      | cons piece rest =>
        exfalso
        have h2 : 2 ≤ piece.length := hlen piece (by rw [hR]; simp)
        match piece, h2 with
        | a :: b :: t, _ =>
          have hon : onPaths (core.line s (toContours arg)) a = true := by
            rw [hR]
            simp [onPaths, onPath, pairs, onSeg_left]
          exact hall a ((hpts a).1 hon)

/-! ## every returned vertex lies on the line and in the closed polygon -/

theorem onSeg_right (a b : P) : onSeg a b b = true := by
  have : orient a b b = 0 := by simp only [orient]; ring
  simp [onSeg, between, this, le_total]

theorem onPath_of_mem (l : Path) (v : P) (hl : 2 ≤ l.length) (hv : v ∈ l) : onPath l v = true := by
  induction l with
  | nil => simp at hl
  | cons a rest ih =>
    cases rest with
    | nil => simp at hl
    | cons b t =>
      simp only [onPath, pairs, List.any_cons, Bool.or_eq_true]
      rcases List.mem_cons.1 hv with h | h
      · subst h; exact Or.inl (onSeg_left _ _)
      · cases t with
        | nil =>
          have : v = b := by simpa using h
          subst this; exact Or.inl (onSeg_right _ _)
        | cons c t' =>
          exact Or.inr (ih (by simp) h)

/-- **C14, clause 1.** Under the CLIPLINE contract (simple line, valid polygon, general position):
every vertex of every returned piece lies on `L` and inside or on the boundary of `P`. -/
theorem verticesS (core : ClipCore) (hline : ClipLineSpec core.line) (s : List Path) (arg : Operand)
    (hs : simplePaths s = true) (hv : validC (toContours arg) = true)
    (hg : gpLine s (toContours arg) = true) :
    ∀ piece ∈ clipS core s arg, ∀ v ∈ piece,
      onPaths s v = true ∧ insideClosedC (toContours arg) v = true := by
  intro piece hp v hvp
  rw [glueS] at hp
  by_cases ht : trivialCase s (toContours arg) = true
  · simp [ht] at hp
  · simp only [ht, Bool.false_eq_true, if_false] at hp
    have hne : s ≠ [] ∧ toContours arg ≠ [] ∧ overlaps (bbox s) (bbox (toContours arg)) = true := by
      simp only [trivialCase, Bool.or_eq_true, not_or, Bool.not_eq_true, Bool.not_eq_eq_eq_not, Bool.not_not,
        Bool.not_false] at ht
      refine ⟨?_, ?_, ?_⟩
      · intro e; rw [e] at ht; simp at ht
      · intro e; rw [e] at ht; simp at ht
      · simpa using ht.2
    obtain ⟨hlen, hpts⟩ := hline s (toContours arg) hne.1 hne.2.1 hne.2.2 hs hv hg
    apply (hpts v).1
    simp only [onPaths, List.any_eq_true]
    exact ⟨piece, hp, onPath_of_mem piece v (hlen piece hp) hvp⟩

/-- **C14, headline.** Under the CLIPLINE contract (simple line, valid polygon, general position), in
every case — trivial ones included — the union of the returned pieces is, as a point set, exactly
the part of `L` that lies inside or on `P`. -/
theorem exactS (core : ClipCore) (hline : ClipLineSpec core.line) (s : List Path) (arg : Operand)
    (hs : simplePaths s = true) (hv : validC (toContours arg) = true)
    (hg : gpLine s (toContours arg) = true) (p : P) :
    onPaths (clipS core s arg) p = true ↔
      (onPaths s p = true ∧ insideClosedC (toContours arg) p = true) := by
  by_cases ht : trivialCase s (toContours arg) = true
  · have := trivialS core s arg ht
    rw [this.1]
    constructor
    · intro h; simp [onPaths] at h
    · intro h; exact absurd h (this.2 p)
  · have hne : s ≠ [] ∧ toContours arg ≠ [] ∧ overlaps (bbox s) (bbox (toContours arg)) = true := by
      simp only [trivialCase, Bool.or_eq_true, not_or, Bool.not_eq_true, Bool.not_eq_eq_eq_not, Bool.not_not,
        Bool.not_false] at ht
      refine ⟨?_, ?_, ?_⟩
      · intro e; rw [e] at ht; simp at ht
      · intro e; rw [e] at ht; simp at ht
      · simpa using ht.2
    obtain ⟨_, hpts⟩ := hline s (toContours arg) hne.1 hne.2.1 hne.2.2 hs hv hg
    rw [glueS]
    simp only [ht, Bool.false_eq_true, if_false]
    exact hpts p

/-! ## `Clip` clips line by line (after /repo fix 9635cd6) -/

theorem clip1_eq (core : ClipCore) (l : Path) (arg : Operand) : clip1 core l arg = clipS core [l] arg := rfl

theorem clip_eq (core : ClipCore) (L : Lines) (arg : Operand) :
    clip core L arg = L.paths.flatMap fun l => clipS core [l] arg := rfl

theorem idxPairs_single {α : Type} (x : α) : idxPairs [x] = [] := by
  simp [idxPairs, List.zipIdx]

theorem simplePaths_single (s : List Path) (hs : simplePaths s = true) (l : Path) (hl : l ∈ s) :
    simplePaths [l] = true := by
  simp only [simplePaths, Bool.and_eq_true, List.all_eq_true] at hs
  simp only [simplePaths, idxPairs_single, List.all_cons, List.all_nil, Bool.and_true]
  exact hs.1 l hl

theorem gpLine_single (s : List Path) (c : Contours) (hg : gpLine s c = true) (l : Path) (hl : l ∈ s) :
    gpLine [l] c = true := by
  simp only [gpLine, List.all_eq_true] at hg
  simp only [gpLine, List.all_cons, List.all_nil, Bool.and_true, List.all_eq_true]
  exact hg l hl

theorem onPaths_single (l : Path) (p : P) : onPaths [l] p = onPath l p := by simp [onPaths]

theorem onPaths_flatMap {α : Type} (xs : List α) (f : α → List Path) (p : P) :
    onPaths (xs.flatMap f) p = true ↔ ∃ x ∈ xs, onPaths (f x) p = true := by
  simp only [onPaths, List.any_eq_true, List.mem_flatMap]
  constructor
  · rintro ⟨l, ⟨x, hx, hl⟩, hp⟩; exact ⟨x, hx, l, hl, hp⟩
  · rintro ⟨x, hx, l, hl, hp⟩; exact ⟨l, ⟨x, hx, hl⟩, hp⟩

/-- **C14 glue.** For `LineString` and `MultiLineString` receivers and `Polygon`, `MultiPolygon`,
`*Bounds` arguments, for every core: `Clip` returns, member line by member line, exactly the clipper's
pieces (the closing vertex added by `polyClipToPolygon` is the one removed again): nothing for a
member in the trivial cases, the sweep's pieces otherwise. -/
theorem C14_glue (core : ClipCore) (L : Lines) (arg : Operand) :
    clip core L arg = L.paths.flatMap fun l =>
      if trivialCase [l] (toContours arg) then [] else core.line [l] (toContours arg) := by
  rw [clip_eq]
  congr 1
  funext l
  exact glueS core [l] arg

/-- **C14 trivial cases.** If for every member line an operand is empty or the bounding boxes do not
overlap, `Clip` returns no piece — rightly: no point of the line lies inside or on the polygon
(box-disjointness implies set-disjointness). -/
theorem C14_trivial (core : ClipCore) (L : Lines) (arg : Operand)
    (h : ∀ l ∈ L.paths, trivialCase [l] (toContours arg) = true) :
    clip core L arg = [] ∧
    ∀ p, ¬ (onPaths L.paths p = true ∧ insideClosedC (toContours arg) p = true) := by
  constructor
  · rw [clip_eq, List.flatMap_eq_nil_iff]
    intro l hl
    exact (trivialS core [l] arg (h l hl)).1
  · rintro p ⟨h1, h2⟩
    simp only [onPaths, List.any_eq_true] at h1
    obtain ⟨l, hl, hp⟩ := h1
    exact (trivialS core [l] arg (h l hl)).2 p ⟨by rw [onPaths_single]; exact hp, h2⟩

/-- **C14, headline.** Under the CLIPLINE contract (simple line or network of lines, valid polygon,
general position), in every case — trivial ones included — the union of the returned pieces is, as a
point set, exactly the part of `L` that lies inside or on `P`. -/
theorem C14_exact (core : ClipCore) (hline : ClipLineSpec core.line) (L : Lines) (arg : Operand)
    (hs : simplePaths L.paths = true) (hv : validC (toContours arg) = true)
    (hg : gpLine L.paths (toContours arg) = true) (p : P) :
    onPaths (clip core L arg) p = true ↔
      (onPaths L.paths p = true ∧ insideClosedC (toContours arg) p = true) := by
  rw [clip_eq, onPaths_flatMap]
  constructor
  · rintro ⟨l, hl, hp⟩
    have := (exactS core hline [l] arg (simplePaths_single _ hs l hl) hv (gpLine_single _ _ hg l hl) p).1 hp
    rw [onPaths_single] at this
    refine ⟨?_, this.2⟩
    simp only [onPaths, List.any_eq_true]
    exact ⟨l, hl, this.1⟩
  · rintro ⟨h1, h2⟩
    simp only [onPaths, List.any_eq_true] at h1
    obtain ⟨l, hl, hp⟩ := h1
    exact ⟨l, hl, (exactS core hline [l] arg (simplePaths_single _ hs l hl) hv (gpLine_single _ _ hg l hl) p).2
      ⟨by rw [onPaths_single]; exact hp, h2⟩⟩

/-- **C14, clause 1.** Under the CLIPLINE contract: every vertex of every returned piece lies on `L`
and inside or on the boundary of `P`. -/
theorem C14_vertices (core : ClipCore) (hline : ClipLineSpec core.line) (L : Lines) (arg : Operand)
    (hs : simplePaths L.paths = true) (hv : validC (toContours arg) = true)
    (hg : gpLine L.paths (toContours arg) = true) :
    ∀ piece ∈ clip core L arg, ∀ v ∈ piece,
      onPaths L.paths v = true ∧ insideClosedC (toContours arg) v = true := by
  intro piece hp v hvp
  rw [clip_eq, List.mem_flatMap] at hp
  obtain ⟨l, hl, hpl⟩ := hp
  have := verticesS core hline [l] arg (simplePaths_single _ hs l hl) hv (gpLine_single _ _ hg l hl) piece hpl v hvp
  rw [onPaths_single] at this
  refine ⟨?_, this.2⟩
  simp only [onPaths, List.any_eq_true]
  exact ⟨l, hl, this.1⟩

/-- **C14, emptiness.** Under the CLIPLINE contract: `Clip` returns no piece exactly when no point of
the line lies inside or on the polygon. -/
theorem C14_empty_iff (core : ClipCore) (hline : ClipLineSpec core.line) (L : Lines) (arg : Operand)
    (hs : simplePaths L.paths = true) (hv : validC (toContours arg) = true)
    (hg : gpLine L.paths (toContours arg) = true) :
    clip core L arg = [] ↔
      ∀ p, ¬ (onPaths L.paths p = true ∧ insideClosedC (toContours arg) p = true) := by
  rw [clip_eq, List.flatMap_eq_nil_iff]
  constructor
  · rintro h p ⟨h1, h2⟩
    simp only [onPaths, List.any_eq_true] at h1
    obtain ⟨l, hl, hp⟩ := h1
    exact (emptyS_iff core hline [l] arg (simplePaths_single _ hs l hl) hv (gpLine_single _ _ hg l hl)).1 (h l hl) p
      ⟨by rw [onPaths_single]; exact hp, h2⟩
  · intro h l hl
    apply (emptyS_iff core hline [l] arg (simplePaths_single _ hs l hl) hv (gpLine_single _ _ hg l hl)).2
    rintro p ⟨h1, h2⟩
    rw [onPaths_single] at h1
    refine h p ⟨?_, h2⟩
    simp only [onPaths, List.any_eq_true]
    exact ⟨l, hl, h1⟩

/-- **The defect repaired by /repo commit 9635cd6, on the model of the pre-fix code** (all members in
one clipper call, `clipS core L.paths arg`): a sweep that links the pieces of two routes between the
same junctions into a ring and, as the real connector does, returns only open chains, returns
nothing — although the contract for the two members taken one by one demands both routes.  Stated
as: the pre-fix glue hands both members to ONE call, so its answer is whatever that single call
returns (here `[]`), for every such core. -/
theorem C14_together_defect (core : ClipCore) (a b : Path) (arg : Operand)
    (hnt : trivialCase [a, b] (toContours arg) = false) (hdrop : core.line [a, b] (toContours arg) = []) :
    clipTogether core (.multi [a, b]) arg = [] := by
  show clipS core [a, b] arg = []
  rw [glueS]; simp [hnt, hdrop]

/-! ## the oracle is sound -/

/-- **Oracle, inside.** Every interval the oracle reports for segment `ab` has its midpoint inside
the polygon (even–odd rule). -/
theorem oracle_midpoints_inside (cs : Contours) (a b : P) (iv : Rat × Rat) (h : iv ∈ oracleSeg cs a b) :
    inside cs (pointAt a b ((iv.1 + iv.2) / 2)) = true := by
  simp only [oracleSeg, subIntervals, List.mem_map, List.mem_filter] at h
  obtain ⟨⟨t0, t1, f⟩, ⟨⟨⟨u0, u1⟩, _, hu⟩, hf⟩, rfl⟩ := h
  simp only [Prod.mk.injEq] at hu
  obtain ⟨rfl, rfl, rfl⟩ := hu
  simp only [Bool.and_eq_true] at hf
  exact hf.1.1.1

theorem onSeg_pointAt (a b : P) (t : Rat) (h0 : 0 ≤ t) (h1 : t ≤ 1) : onSeg a b (pointAt a b t) = true := by
  have ho : orient a b (pointAt a b t) = 0 := by simp only [orient, pointAt]; ring
  have bx : between a.x b.x (a.x + t * (b.x - a.x)) = true := by
    simp only [between, Bool.or_eq_true, Bool.and_eq_true, decide_eq_true_eq]
    rcases le_total a.x b.x with h | h
    · left
      have := mul_nonneg h0 (sub_nonneg.2 h)
      have := mul_le_mul_of_nonneg_right h1 (sub_nonneg.2 h)
      constructor <;> linarith
    · right
      have := mul_nonneg h0 (sub_nonneg.2 h)
      have := mul_le_mul_of_nonneg_right h1 (sub_nonneg.2 h)
      constructor <;> nlinarith
  have by' : between a.y b.y (a.y + t * (b.y - a.y)) = true := by
    simp only [between, Bool.or_eq_true, Bool.and_eq_true, decide_eq_true_eq]
    rcases le_total a.y b.y with h | h
    · left
      have := mul_nonneg h0 (sub_nonneg.2 h)
      have := mul_le_mul_of_nonneg_right h1 (sub_nonneg.2 h)
      constructor <;> linarith
    · right
      have := mul_nonneg h0 (sub_nonneg.2 h)
      have := mul_le_mul_of_nonneg_right h1 (sub_nonneg.2 h)
      constructor <;> nlinarith
  simp only [onSeg, ho, decide_true, Bool.true_and, Bool.and_eq_true]
  exact ⟨bx, by'⟩

/-- **Oracle, on the line.** Every interval the oracle reports for segment `ab` is a sub-interval
of `[0,1]` and both its end points lie on the segment. -/
theorem oracle_endpoints_on_L (cs : Contours) (a b : P) (iv : Rat × Rat) (h : iv ∈ oracleSeg cs a b) :
    0 ≤ iv.1 ∧ iv.1 ≤ iv.2 ∧ iv.2 ≤ 1 ∧
    onSeg a b (pointAt a b iv.1) = true ∧ onSeg a b (pointAt a b iv.2) = true := by
  simp only [oracleSeg, List.mem_map, List.mem_filter] at h
  obtain ⟨⟨t0, t1, f⟩, ⟨_, hf⟩, rfl⟩ := h
  simp only [Bool.and_eq_true, decide_eq_true_eq] at hf
  obtain ⟨⟨⟨_, h0⟩, h01⟩, h1⟩ := hf
  exact ⟨h0, h01, h1, onSeg_pointAt a b t0 h0 (le_trans h01 h1), onSeg_pointAt a b t1 (le_trans h0 h01) h1⟩

/-! ## the oracle looks at the whole segment -/

theorem between_split (a y z t : Rat) (h : between a z t = true) (hn : between a y t = false) :
    between y z t = true := by
  simp only [between, Bool.or_eq_true, Bool.and_eq_true, decide_eq_true_eq, Bool.or_eq_false_iff,
    Bool.and_eq_false_iff, decide_eq_false_iff_not, not_le] at h hn ⊢
  rcases h with ⟨h1, h2⟩ | ⟨h1, h2⟩
  · left
    rcases hn.1 with h3 | h3
    · exact absurd h1 (not_le.2 h3)
    · exact ⟨h3.le, h2⟩
  · right
    rcases hn.2 with h3 | h3
    · exact ⟨h1, h3.le⟩
    · exact absurd h2 (not_le.2 h3)

theorem consec_cover (l : List Rat) (a z t : Rat) (hh : l.head? = some a) (hl : l.getLast? = some z)
    (hlen : 2 ≤ l.length) (hb : between a z t = true) : ∃ uv ∈ consec l, between uv.1 uv.2 t = true := by
  induction l generalizing a with
  | nil => simp at hlen
  | cons x l ih =>
    cases l with
    | nil => simp at hlen
    | cons y r =>
      simp only [List.head?_cons, Option.some.injEq] at hh
      subst hh
      cases r with
      | nil =>
        simp only [List.getLast?_cons_cons, List.getLast?_singleton, Option.some.injEq] at hl
        subst hl
        exact ⟨(x, y), by simp [consec], hb⟩
      | cons w r' =>
        by_cases hxy : between x y t = true
        · exact ⟨(x, y), by simp [consec], hxy⟩
        · have hyz := between_split x y z t hb (by simpa using hxy)
          obtain ⟨uv, hm, hbt⟩ := ih y rfl (by simpa [List.getLast?_cons_cons] using hl) (by simp) hyz
          exact ⟨uv, by rw [consec]; exact List.mem_cons_of_mem _ hm, hbt⟩

/-- **Oracle, coverage.** The sub-intervals the oracle classifies tile the whole segment: every
parameter `t ∈ [0,1]` lies in one of them (so nothing of the segment is skipped; what remains
unproved is only that the status is constant inside a sub-interval). -/
theorem oracle_subintervals_cover (cs : Contours) (a b : P) (t : Rat) (h0 : 0 ≤ t) (h1 : t ≤ 1) :
    ∃ iv ∈ subIntervals cs a b, between iv.1 iv.2.1 t = true := by
  have hb : between 0 1 t = true := by simp [between, h0, h1]
  obtain ⟨uv, hm, hbt⟩ := consec_cover (0 :: (sortDedup (crossParams cs a b)) ++ [1]) 0 1 t rfl
    (by rw [List.getLast?_concat]) (by simp) hb
  refine ⟨(uv.1, uv.2, inside cs (pointAt a b ((uv.1 + uv.2) / 2))), ?_, hbt⟩
  simp only [subIntervals, List.mem_map]
  exact ⟨uv, hm, rfl⟩

/-! ## non-vacuity -/

def sqC : Contours := [[⟨1/2, 1/2⟩, ⟨9/2, 1/2⟩, ⟨9/2, 9/2⟩, ⟨1/2, 9/2⟩, ⟨1/2, 1/2⟩]]
def thru : List Path := [[⟨0, 2⟩, ⟨6, 2⟩]]

/-- the hypotheses of `C14_empty_iff` / `ClipLineSpec` are satisfiable, and on this case the oracle
reports exactly the interval between the two crossings -/
example : simplePaths thru = true ∧ validC sqC = true ∧ gpLine thru sqC = true ∧
    trivialCase thru sqC = false ∧ oracleSeg sqC ⟨0, 2⟩ ⟨6, 2⟩ = [(1/12, 3/4)] ∧
    oracleChains sqC thru = [[⟨1/2, 2⟩, ⟨9/2, 2⟩]] := by decide +kernel

/-- networks are inside the quantifier: two routes between the same junctions form a simple
multi-line string (members meet at common end points only); members whose interiors cross do not -/
example : simplePaths [[⟨2, 5⟩, ⟨5, 8⟩, ⟨8, 5⟩], [⟨2, 5⟩, ⟨5, 2⟩, ⟨8, 5⟩]] = true ∧
    simplePaths [[⟨2, 5⟩, ⟨5, 8⟩, ⟨8, 5⟩], [⟨8, 5⟩, ⟨9, 9⟩]] = true ∧
    simplePaths [[⟨2, 5⟩, ⟨8, 5⟩], [⟨5, 2⟩, ⟨5, 8⟩]] = false ∧
    simplePaths [[⟨2, 5⟩, ⟨8, 5⟩], [⟨5, 5⟩, ⟨5, 8⟩]] = false := by decide +kernel

/-- a box-disjoint case (hypothesis of `C14_trivial`) -/
example : trivialCase [[⟨10, 10⟩, ⟨12, 11⟩]] sqC = true := by decide +kernel

end GeomV.C14
