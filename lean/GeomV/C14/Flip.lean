import GeomV.C14.Unify
/-!
# C14: a proper crossing flips the even–odd status, hence `closureOK` follows from validity

`closureOK_of_valid`: for a valid contour list and a line in general position the decidable hypothesis
`closureOK` of `C14_pointset_of_segs` / `C14_exact_of_segs` (Unify.lean) holds; the primed corollaries
`C14_pointset_of_segs'` / `C14_exact_of_segs'` are those theorems without it.

* `cross_lemma` — the crossing analogue of `GeomV.C01.edge_lemma`: if `pq` and the edge `cd` cross at
  a point interior to both (non-parallel), then
  `crosses c d p ^^ crosses c d q = !(inS p q c ^^ inS p q d)`.
* `inside_flip` — two points separated by exactly one properly crossed edge (position in the list of
  all edges), every other edge missed by the closed segment between them: the even–odd status differs
  (`telescope` around each ring, parity of the number of edges through the crossing point).
* `uniqueHit_of_valid` — in a valid contour list a boundary point that is not a vertex lies on exactly
  one edge position (`segsMeet_of_common`, `adjacent_overlap`, `ring_pairwise`, `edges_openForm`).
* `flip_at_crossing`, `closureOKSeg_of_flip` — the plumbing through `breaks`/`consec`/`oracleSeg`.
-/
set_option linter.unusedSimpArgs false
set_option linter.unusedVariables false
namespace GeomV.C14
open GeomV GeomV.C01

/-! ## the per-edge lemma for an edge that is crossed properly -/

/-- cross product of the directions of `pq` and `cd` -/
def det (p q c d : P) : Rat := (q.x - p.x) * (d.y - c.y) - (q.y - p.y) * (d.x - c.x)

section cross
variable (c d p q : P) (s u : Rat) (hx : lerp p q s = lerp c d u)
include hx

theorem cross_o1 : orient c d p = s * det p q c d := by
  have hX : p.x + s * (q.x - p.x) = c.x + u * (d.x - c.x) := by
    have := congrArg Pt.x hx; simpa [lerp] using this
  have hY : p.y + s * (q.y - p.y) = c.y + u * (d.y - c.y) := by
    have := congrArg Pt.y hx; simpa [lerp] using this
  simp only [orient, det]
  linear_combination (d.x - c.x) * hY - (d.y - c.y) * hX

theorem cross_o2 : orient c d q = -((1 - s) * det p q c d) := by
  have hX : p.x + s * (q.x - p.x) = c.x + u * (d.x - c.x) := by
    have := congrArg Pt.x hx; simpa [lerp] using this
  have hY : p.y + s * (q.y - p.y) = c.y + u * (d.y - c.y) := by
    have := congrArg Pt.y hx; simpa [lerp] using this
  simp only [orient, det]
  linear_combination (d.x - c.x) * hY - (d.y - c.y) * hX

theorem cross_o3 : orient p q c = -(u * det p q c d) := by
  have hX : p.x + s * (q.x - p.x) = c.x + u * (d.x - c.x) := by
    have := congrArg Pt.x hx; simpa [lerp] using this
  have hY : p.y + s * (q.y - p.y) = c.y + u * (d.y - c.y) := by
    have := congrArg Pt.y hx; simpa [lerp] using this
  simp only [orient, det]
  linear_combination (q.y - p.y) * hX - (q.x - p.x) * hY

theorem cross_o4 : orient p q d = (1 - u) * det p q c d := by
  have hX : p.x + s * (q.x - p.x) = c.x + u * (d.x - c.x) := by
    have := congrArg Pt.x hx; simpa [lerp] using this
  have hY : p.y + s * (q.y - p.y) = c.y + u * (d.y - c.y) := by
    have := congrArg Pt.y hx; simpa [lerp] using this
  simp only [orient, det]
  linear_combination (q.y - p.y) * hX - (q.x - p.x) * hY

end cross

theorem lerp_y_eq {c d p q : P} {s u : Rat} (hx : lerp p q s = lerp c d u) :
    p.y + s * (q.y - p.y) = c.y + u * (d.y - c.y) := by
  have := congrArg Pt.y hx; simpa [lerp] using this

/-- mover and edge both going up -/
theorem cross_up (c d p q : P) (s u : Rat) (hx : lerp p q s = lerp c d u)
    (s0 : 0 < s) (s1 : s < 1) (u0 : 0 < u) (u1 : u < 1) (hK : det p q c d ≠ 0)
    (hpq : p.y < q.y) (hcd : c.y < d.y) :
    (crosses c d p ^^ crosses c d q) = !(inS p q c ^^ inS p q d) := by
  have hY := lerp_y_eq hx
  have cq : c.y < q.y := by
    nlinarith [mul_pos u0 (sub_pos.2 hcd), mul_pos (sub_pos.2 s1) (sub_pos.2 hpq)]
  have pd : p.y < d.y := by
    nlinarith [mul_pos s0 (sub_pos.2 hpq), mul_pos (sub_pos.2 u1) (sub_pos.2 hcd)]
  rw [crosses_abv, crosses_abv, cross_o1 c d p q s u hx, cross_o2 c d p q s u hx]
  simp only [inS, if_pos hpq, abv]
  rw [cross_o3 c d p q s u hx, cross_o4 c d p q s u hx]
  have ncq : ¬ q.y < c.y := not_lt.2 cq.le
  rcases lt_or_gt_of_ne hK with hk | hk
  · have a1 : s * det p q c d < 0 := mul_neg_of_pos_of_neg s0 hk
    have a2 : (1 - s) * det p q c d < 0 := mul_neg_of_pos_of_neg (sub_pos.2 s1) hk
    have a3 : u * det p q c d < 0 := mul_neg_of_pos_of_neg u0 hk
    have a4 : (1 - u) * det p q c d < 0 := mul_neg_of_pos_of_neg (sub_pos.2 u1) hk
    by_cases hcp : p.y < c.y <;> by_cases hdq : q.y < d.y <;>
      simp [hcp, hdq, pd, ncq, a1, a2, a3, a4, not_lt.2 a1.le, not_lt.2 a2.le, not_lt.2 a3.le, not_lt.2 a4.le]
  · have a1 : 0 < s * det p q c d := mul_pos s0 hk
    have a2 : 0 < (1 - s) * det p q c d := mul_pos (sub_pos.2 s1) hk
    have a3 : 0 < u * det p q c d := mul_pos u0 hk
    have a4 : 0 < (1 - u) * det p q c d := mul_pos (sub_pos.2 u1) hk
    by_cases hcp : p.y < c.y <;> by_cases hdq : q.y < d.y <;>
      simp [hcp, hdq, pd, ncq, a1, a2, a3, a4, not_lt.2 a1.le, not_lt.2 a2.le, not_lt.2 a3.le, not_lt.2 a4.le]

theorem lerp_rev (c d : P) (u : Rat) : lerp c d u = lerp d c (1 - u) := by
  apply pt_ext <;> simp only [lerp] <;> ring

theorem det_swap_edge (p q c d : P) : det p q d c = -det p q c d := by simp only [det]; ring
theorem det_swap_move (p q c d : P) : det q p c d = -det p q c d := by simp only [det]; ring

/-- mover going up, edge horizontal -/
theorem cross_flat (c d p q : P) (s u : Rat) (hx : lerp p q s = lerp c d u)
    (s0 : 0 < s) (s1 : s < 1) (u0 : 0 < u) (u1 : u < 1) (hK : det p q c d ≠ 0)
    (hpq : p.y < q.y) (hcd : c.y = d.y) :
    (crosses c d p ^^ crosses c d q) = !(inS p q c ^^ inS p q d) := by
  have hY := lerp_y_eq hx
  have e : p.y + s * (q.y - p.y) = c.y := by rw [hY, hcd]; ring
  have pc : p.y < c.y := by nlinarith [mul_pos s0 (sub_pos.2 hpq)]
  have cq : c.y < q.y := by nlinarith [mul_pos (sub_pos.2 s1) (sub_pos.2 hpq)]
  rw [crosses_horizontal c d p hcd, crosses_horizontal c d q hcd]
  simp only [inS, if_pos hpq, abv, ← hcd]
  rw [cross_o3 c d p q s u hx, cross_o4 c d p q s u hx]
  have ncq : ¬ q.y < c.y := not_lt.2 cq.le
  rcases lt_or_gt_of_ne hK with hk | hk
  · have a3 : u * det p q c d < 0 := mul_neg_of_pos_of_neg u0 hk
    have a4 : (1 - u) * det p q c d < 0 := mul_neg_of_pos_of_neg (sub_pos.2 u1) hk
    simp [pc, ncq, a3, a4, not_lt.2 a3.le, not_lt.2 a4.le]
  · have a3 : 0 < u * det p q c d := mul_pos u0 hk
    have a4 : 0 < (1 - u) * det p q c d := mul_pos (sub_pos.2 u1) hk
    simp [pc, ncq, a3, a4, not_lt.2 a3.le, not_lt.2 a4.le]

/-- mover going up -/
theorem cross_lt (c d p q : P) (s u : Rat) (hx : lerp p q s = lerp c d u)
    (s0 : 0 < s) (s1 : s < 1) (u0 : 0 < u) (u1 : u < 1) (hK : det p q c d ≠ 0)
    (hpq : p.y < q.y) :
    (crosses c d p ^^ crosses c d q) = !(inS p q c ^^ inS p q d) := by
  rcases lt_trichotomy c.y d.y with h | h | h
  · exact cross_up c d p q s u hx s0 s1 u0 u1 hK hpq h
  · exact cross_flat c d p q s u hx s0 s1 u0 u1 hK hpq h
  · have := cross_up d c p q s (1 - u) (by rw [hx]; exact lerp_rev c d u) s0 s1 (by linarith) (by linarith)
      (by rw [det_swap_edge]; exact neg_ne_zero.2 hK) hpq h
    rw [crosses_symm c d p, crosses_symm c d q, this, Bool.xor_comm]

/-- mover horizontal -/
theorem cross_eq (c d p q : P) (s u : Rat) (hx : lerp p q s = lerp c d u)
    (s0 : 0 < s) (s1 : s < 1) (u0 : 0 < u) (u1 : u < 1) (hK : det p q c d ≠ 0)
    (hpq : p.y = q.y) :
    (crosses c d p ^^ crosses c d q) = true := by
  have up : ∀ (c d : P) (u : Rat), lerp p q s = lerp c d u → 0 < u → u < 1 → det p q c d ≠ 0 → c.y < d.y →
      (crosses c d p ^^ crosses c d q) = true := by
    intro c d u hx u0 u1 hK hcd
    have hY := lerp_y_eq hx
    have e : p.y = c.y + u * (d.y - c.y) := by rw [← hY, ← hpq]; ring
    have cp : c.y < p.y := by nlinarith [mul_pos u0 (sub_pos.2 hcd)]
    have pd : p.y < d.y := by nlinarith [mul_pos (sub_pos.2 u1) (sub_pos.2 hcd)]
    rw [crosses_abv, crosses_abv, cross_o1 c d p q s u hx, cross_o2 c d p q s u hx]
    simp only [abv, ← hpq]
    have ncp : ¬ p.y < c.y := not_lt.2 cp.le
    rcases lt_or_gt_of_ne hK with hk | hk
    · have a1 : s * det p q c d < 0 := mul_neg_of_pos_of_neg s0 hk
      have a2 : (1 - s) * det p q c d < 0 := mul_neg_of_pos_of_neg (sub_pos.2 s1) hk
      simp [pd, ncp, a1, a2, not_lt.2 a1.le, not_lt.2 a2.le]
    · have a1 : 0 < s * det p q c d := mul_pos s0 hk
      have a2 : 0 < (1 - s) * det p q c d := mul_pos (sub_pos.2 s1) hk
      simp [pd, ncp, a1, a2, not_lt.2 a1.le, not_lt.2 a2.le]
  rcases lt_trichotomy c.y d.y with h | h | h
  · exact up c d u hx u0 u1 hK h
  · exfalso; apply hK; simp only [det, hpq, h]; ring
  · rw [crosses_symm c d p, crosses_symm c d q]
    exact up d c (1 - u) (by rw [hx]; exact lerp_rev c d u) (by linarith) (by linarith)
      (by rw [det_swap_edge]; exact neg_ne_zero.2 hK) h

/-- **the per-edge lemma for a properly crossed edge**: if `pq` and `cd` cross at a point interior to
both (and are not parallel), the crossing tests of the edge from `p` and from `q` differ exactly when
NOT exactly one endpoint of the edge is in `inS` -/
theorem cross_lemma (c d p q : P) (s u : Rat) (hx : lerp p q s = lerp c d u)
    (s0 : 0 < s) (s1 : s < 1) (u0 : 0 < u) (u1 : u < 1) (hK : det p q c d ≠ 0) :
    (crosses c d p ^^ crosses c d q) = !(inS p q c ^^ inS p q d) := by
  rcases lt_trichotomy p.y q.y with h | h | h
  · exact cross_lt c d p q s u hx s0 s1 u0 u1 hK h
  · rw [cross_eq c d p q s u hx s0 s1 u0 u1 hK h]
    have : ∀ v, inS p q v = false := by intro v; simp [inS, abv, h]
    simp [this]
  · have := cross_lt c d q p (1 - s) u (by rw [← hx]; exact (lerp_rev p q s).symm) (by linarith) (by linarith) u0 u1
      (by rw [det_swap_move]; exact neg_ne_zero.2 hK) h
    rw [Bool.xor_comm, this, inS_symm q p c, inS_symm q p d]

/-! ## rings and contour lists: the parity of the number of edges through the crossing point -/

/-- parity of the number of listed edges through `x` -/
def xorHit (x : P) (es : List (P × P)) : Bool := es.foldr (fun e acc => onSeg e.1 e.2 x ^^ acc) false

theorem xorHit_cons (x : P) (e : P × P) (es : List (P × P)) :
    xorHit x (e :: es) = (onSeg e.1 e.2 x ^^ xorHit x es) := rfl

theorem xorHit_append (x : P) (a b : List (P × P)) : xorHit x (a ++ b) = (xorHit x a ^^ xorHit x b) := by
  induction a with
  | nil => simp [xorHit]
  | cons e a ih => rw [List.cons_append, xorHit_cons, xorHit_cons, ih, Bool.xor_assoc]

theorem xorHit_false (x : P) (es : List (P × P)) (h : ∀ e ∈ es, onSeg e.1 e.2 x = false) : xorHit x es = false := by
  induction es with
  | nil => rfl
  | cons e es ih =>
    rw [xorHit_cons, h e (by simp), ih (fun e he => h e (by simp [he]))]; rfl

theorem xorEdges_pair_hit (p q x : P) (es : List (P × P)) (g : P → Bool)
    (h : ∀ e ∈ es, (crosses e.1 e.2 p ^^ crosses e.1 e.2 q) = ((g e.1 ^^ g e.2) ^^ onSeg e.1 e.2 x)) :
    (xorEdges p es ^^ xorEdges q es) =
      (es.foldr (fun e acc => (g e.1 ^^ g e.2) ^^ acc) false ^^ xorHit x es) := by
  induction es with
  | nil => rfl
  | cons e es ih =>
    have h1 := h e (by simp)
    have h2 := ih (fun e he => h e (by simp [he]))
    show ((crosses e.1 e.2 p ^^ xorEdges p es) ^^ (crosses e.1 e.2 q ^^ xorEdges q es)) = _
    rw [List.foldr_cons, xorHit_cons]
    generalize es.foldr (fun e acc => (g e.1 ^^ g e.2) ^^ acc) false = T at h2 ⊢
    generalize (g e.1 ^^ g e.2) = G at h1 ⊢
    revert h1 h2
    cases crosses e.1 e.2 p <;> cases crosses e.1 e.2 q <;> cases xorEdges p es <;> cases xorEdges q es <;>
      cases G <;> cases T <;> cases onSeg e.1 e.2 x <;> cases xorHit x es <;> simp

/-- the per-edge statement covering both kinds of edges -/
def EdgeRel (p q x : P) (e : P × P) : Prop :=
  (crosses e.1 e.2 p ^^ crosses e.1 e.2 q) = ((inS p q e.1 ^^ inS p q e.2) ^^ onSeg e.1 e.2 x)

theorem insideRing_flip (r : Ring) (p q x : P) (h : ∀ e ∈ edges r, EdgeRel p q x e) :
    (insideRing r p ^^ insideRing r q) = xorHit x (edges r) := by
  have key := xorEdges_pair_hit p q x (edges r) (inS p q) h
  have tele : (edges r).foldr (fun e acc => (inS p q e.1 ^^ inS p q e.2) ^^ acc) false = false := by
    cases r with
    | nil => rfl
    | cons a t =>
      have := telescope (inS p q) a a t
      simp only [edges]; rw [this]; simp
  rw [tele] at key
  rw [insideRing_def, insideRing_def, key]; simp

theorem inside_flip_parity (cs : Contours) (p q x : P) (h : ∀ r ∈ cs, ∀ e ∈ edges r, EdgeRel p q x e) :
    (inside cs p ^^ inside cs q) = xorHit x (allEdges cs) := by
  induction cs with
  | nil => rfl
  | cons r cs ih =>
    have h1 := insideRing_flip r p q x (h r (by simp))
    have h2 := ih (fun r' hr' => h r' (by simp [hr']))
    have e : allEdges (r :: cs) = edges r ++ allEdges cs := by simp [allEdges]
    rw [inside_cons, inside_cons, e, xorHit_append, ← h1, ← h2]
    cases insideRing r p <;> cases insideRing r q <;> cases inside cs p <;> cases inside cs q <;> rfl

/-- exactly one listed edge (position) passes through `x` -/
def UniqueHit (x : P) (E : List (P × P)) : Prop :=
  ∃ E1 e0 E2, E = E1 ++ e0 :: E2 ∧ onSeg e0.1 e0.2 x = true ∧
    (∀ e ∈ E1, onSeg e.1 e.2 x = false) ∧ (∀ e ∈ E2, onSeg e.1 e.2 x = false)

theorem xorHit_unique (x : P) (E : List (P × P)) (h : UniqueHit x E) : xorHit x E = true := by
  obtain ⟨E1, e0, E2, rfl, h0, h1, h2⟩ := h
  rw [xorHit_append, xorHit_cons, xorHit_false x E1 h1, xorHit_false x E2 h2, h0]; rfl

/-- **a proper crossing flips the even–odd status**: `p`, `q` are separated by exactly one edge
(position) of the contour list, which `pq` crosses properly at `x`; every other edge is missed by the
closed segment `pq`. -/
theorem inside_flip (cs : Contours) (p q x : P)
    (hfree : ∀ r ∈ cs, ∀ e ∈ edges r, onSeg e.1 e.2 x = false → Free e.1 e.2 p q)
    (hcross : ∀ r ∈ cs, ∀ e ∈ edges r, onSeg e.1 e.2 x = true →
      ∃ s u, lerp p q s = lerp e.1 e.2 u ∧ 0 < s ∧ s < 1 ∧ 0 < u ∧ u < 1 ∧ det p q e.1 e.2 ≠ 0)
    (huniq : UniqueHit x (allEdges cs)) :
    (inside cs p ^^ inside cs q) = true := by
  rw [inside_flip_parity cs p q x, xorHit_unique x _ huniq]
  intro r hr e he
  unfold EdgeRel
  cases hh : onSeg e.1 e.2 x with
  | false => rw [edge_lemma e.1 e.2 p q (hfree r hr e he hh)]; simp
  | true =>
    obtain ⟨s, u, hx, s0, s1, u0, u1, hK⟩ := hcross r hr e he hh
    rw [cross_lemma e.1 e.2 p q s u hx s0 s1 u0 u1 hK]; simp

/-! ## plumbing: from the flip at every boundary crossing to `closureOKSeg` -/

theorem consec_neighbours (x y t : Rat) (l : List Rat) (ht : t ∈ l) :
    ∃ u v, (u, t) ∈ consec (x :: l ++ [y]) ∧ (t, v) ∈ consec (x :: l ++ [y]) := by
  induction l generalizing x with
  | nil => simp at ht
  | cons z l ih =>
    rcases List.mem_cons.1 ht with rfl | h
    · refine ⟨x, ?_⟩
      cases l with
      | nil => exact ⟨y, by simp [consec]⟩
      | cons w l => exact ⟨w, by simp [consec]⟩
    · obtain ⟨u, v, h1, h2⟩ := ih z h
      refine ⟨u, v, ?_, ?_⟩
      · simp only [List.cons_append, consec, List.mem_cons] at h1 ⊢; exact Or.inr h1
      · simp only [List.cons_append, consec, List.mem_cons] at h2 ⊢; exact Or.inr h2

theorem mem_oracleSeg_iff (cs : Contours) (a b : P) (u v : Rat) : (u, v) ∈ oracleSeg cs a b ↔
    ((u, v) ∈ consec (breaks cs a b) ∧ inside cs (lerp a b ((u + v) / 2)) = true ∧ 0 ≤ u ∧ u ≤ v ∧ v ≤ 1) := by
  simp only [oracleSeg, subIntervals, List.mem_map, List.mem_filter, breaks]
  constructor
  · rintro ⟨⟨t0, t1, f⟩, ⟨⟨⟨w0, w1⟩, hw, hw2⟩, hf⟩, he⟩
    simp only [Prod.mk.injEq] at hw2 he
    obtain ⟨rfl, rfl, rfl⟩ := hw2
    obtain ⟨rfl, rfl⟩ := he
    simp only [Bool.and_eq_true, decide_eq_true_eq] at hf
    exact ⟨hw, hf.1.1.1, hf.1.1.2, hf.1.2, hf.2⟩
  · rintro ⟨hw, hin, c0, c1, c2⟩
    refine ⟨(u, v, inside cs (pointAt a b ((u + v) / 2))), ⟨⟨(u, v), hw, rfl⟩, ?_⟩, rfl⟩
    simp only [Bool.and_eq_true, decide_eq_true_eq]
    exact ⟨⟨⟨hin, c0⟩, c1⟩, c2⟩

/-- if the status flips at every crossing parameter whose point is on the boundary, every such
parameter is an end point of an inside interval -/
theorem closureOKSeg_of_flip (cs : Contours) (a b : P)
    (hflip : ∀ t u v, (u, t) ∈ consec (breaks cs a b) → (t, v) ∈ consec (breaks cs a b) →
      onBoundary cs (lerp a b t) = true →
      (inside cs (lerp a b ((u + t) / 2)) ^^ inside cs (lerp a b ((t + v) / 2))) = true) :
    closureOKSeg cs a b = true := by
  simp only [closureOKSeg, List.all_eq_true, Bool.or_eq_true, Bool.not_eq_true', List.any_eq_true,
    Bool.and_eq_true, decide_eq_true_eq]
  intro t ht
  by_cases hon : onBoundary cs (pointAt a b t) = false
  · exact Or.inl hon
  · right
    have hon : onBoundary cs (lerp a b t) = true := by simpa [pointAt_eq_lerp] using hon
    obtain ⟨u, v, h1, h2⟩ := consec_neighbours 0 1 t _ ht
    have h1' : (u, t) ∈ consec (breaks cs a b) := h1
    have h2' : (t, v) ∈ consec (breaks cs a b) := h2
    obtain ⟨l1, m1, n1, _⟩ := consec_sorted _ (sorted_breaks cs a b) u t h1'
    obtain ⟨l2, m2, n2, _⟩ := consec_sorted _ (sorted_breaks cs a b) t v h2'
    have ru := breaks_range cs a b u m1
    have rt := breaks_range cs a b t n1
    have rv := breaks_range cs a b v n2
    have := hflip t u v h1' h2' hon
    cases hA : inside cs (lerp a b ((u + t) / 2)) with
    | true =>
      exact ⟨(u, t), (mem_oracleSeg_iff cs a b u t).2 ⟨h1', hA, ru.1, l1.le, rt.2⟩, l1.le, le_refl _⟩
    | false =>
      rw [hA] at this
      have hB : inside cs (lerp a b ((t + v) / 2)) = true := by simpa using this
      exact ⟨(t, v), (mem_oracleSeg_iff cs a b t v).2 ⟨h2', hB, rt.1, l2.le, rv.2⟩, le_refl _, l2.le⟩

/-! ## the flip at a boundary crossing of a segment in general position -/

/-- the segment `ab` touches no edge (what `gpLine` says for each segment of the line) -/
def NoTouch (cs : Contours) (a b : P) : Prop := ∀ r ∈ cs, ∀ e ∈ edges r, touch a b e.1 e.2 = false

theorem colFree_of_noTouch (cs : Contours) (a b : P) (h : NoTouch cs a b) : ColFree cs a b := by
  intro r hr e he f0 f1 σ s0 s1
  exact collinear_free a b e.1 e.2 f0 f1 (h r hr e he) σ s0 s1

theorem flip_at_crossing (cs : Contours) (a b : P) (hnt : NoTouch cs a b)
    (huniq : ∀ t, 0 < t → t < 1 → onBoundary cs (lerp a b t) = true → UniqueHit (lerp a b t) (allEdges cs))
    (t u v : Rat) (h1 : (u, t) ∈ consec (breaks cs a b)) (h2 : (t, v) ∈ consec (breaks cs a b))
    (hon : onBoundary cs (lerp a b t) = true) :
    (inside cs (lerp a b ((u + t) / 2)) ^^ inside cs (lerp a b ((t + v) / 2))) = true := by
  have hcol := colFree_of_noTouch cs a b hnt
  obtain ⟨l1, mu, mt, g1⟩ := consec_sorted _ (sorted_breaks cs a b) u t h1
  obtain ⟨l2, _, mv, g2⟩ := consec_sorted _ (sorted_breaks cs a b) t v h2
  have ru := breaks_range cs a b u mu
  have rv := breaks_range cs a b v mv
  have t0 : 0 < t := by linarith [ru.1]
  have t1 : t < 1 := by linarith [rv.2]
  generalize hμ1 : (u + t) / 2 = μ1
  generalize hμ2 : (t + v) / 2 = μ2
  have a1 : u < μ1 := by rw [← hμ1]; linarith
  have a2 : μ1 < t := by rw [← hμ1]; linarith
  have a3 : t < μ2 := by rw [← hμ2]; linarith
  have a4 : μ2 < v := by rw [← hμ2]; linarith
  have hD : 0 < μ2 - μ1 := by linarith
  apply inside_flip cs _ _ (lerp a b t)
  · -- every edge that misses the crossing point misses the whole of `m1 m2`
    intro r hr e he hmiss σ σ0 σ1
    rw [lerp_lerp]
    by_contra hb
    have hb : onSeg e.1 e.2 (lerp a b (μ1 + σ * (μ2 - μ1))) = true := by simpa using hb
    generalize hτ : μ1 + σ * (μ2 - μ1) = τ at hb
    have τl : μ1 ≤ τ := by rw [← hτ]; nlinarith [mul_nonneg σ0 hD.le]
    have τr : τ ≤ μ2 := by rw [← hτ]; nlinarith [mul_nonneg (sub_nonneg.2 σ1) hD.le]
    have hbd : onBoundary cs (lerp a b τ) = true := by
      simp only [onBoundary, List.any_eq_true]; exact ⟨r, hr, e, he, hb⟩
    have hm := mem_breaks_of_boundary cs a b hcol τ (by linarith [ru.1]) (by linarith [rv.2]) hbd
    have e1 : ¬ τ < t := fun h => g1 τ hm ⟨by linarith, h⟩
    have e2 : ¬ t < τ := fun h => g2 τ hm ⟨h, by linarith⟩
    have : τ = t := le_antisymm (not_lt.1 e2) (not_lt.1 e1)
    rw [this, hmiss] at hb; cases hb
  · -- an edge through the crossing point is crossed properly
    intro r hr e he hhit
    have ht := hnt r hr e he
    simp only [touch, Bool.or_eq_false_iff] at ht
    obtain ⟨⟨⟨q1, q2⟩, q3⟩, q4⟩ := ht
    have hxab : onSeg a b (lerp a b t) = true := onSeg_lerp a b t t0.le t1.le
    have hne : e.1 ≠ e.2 := by
      intro h
      rw [← h] at hhit
      have := onSeg_degenerate _ _ hhit
      rw [this, q1] at hxab; cases hxab
    obtain ⟨w, w0, w1, hw⟩ := (onSeg_iff_param e.1 e.2 hne _).1 hhit
    rw [pointAt_eq_lerp] at hw
    have w0' : 0 < w := by
      rcases eq_or_lt_of_le w0 with h | h
      · exfalso; rw [← h, lerp_zero] at hw; rw [hw, q1] at hxab; cases hxab
      · exact h
    have w1' : w < 1 := by
      rcases eq_or_lt_of_le w1 with h | h
      · exfalso; rw [h, lerp_one] at hw; rw [hw, q2] at hxab; cases hxab
      · exact h
    have hK : det a b e.1 e.2 ≠ 0 := by
      intro hK
      have o1 := cross_o1 e.1 e.2 a b t w hw
      have o2 := cross_o2 e.1 e.2 a b t w hw
      rw [hK] at o1 o2
      have := collinear_free a b e.1 e.2 (by rw [o1]; ring) (by rw [o2]; ring) (hnt r hr e he) t t0.le t1.le
      rw [this] at hhit; cases hhit
    refine ⟨(t - μ1) / (μ2 - μ1), w, ?_, div_pos (by linarith) hD, ?_, w0', w1', ?_⟩
    · rw [lerp_lerp, div_mul_cancel₀ _ (ne_of_gt hD), ← hw]; congr 1; ring
    · rw [div_lt_one hD]; linarith
    · have : det (lerp a b μ1) (lerp a b μ2) e.1 e.2 = (μ2 - μ1) * det a b e.1 e.2 := by
        simp only [det, lerp]; ring
      rw [this]; exact mul_ne_zero (ne_of_gt hD) hK
  · exact huniq t t0 t1 hon

theorem closureOKSeg_of_unique (cs : Contours) (a b : P) (hnt : NoTouch cs a b)
    (huniq : ∀ t, 0 < t → t < 1 → onBoundary cs (lerp a b t) = true → UniqueHit (lerp a b t) (allEdges cs)) :
    closureOKSeg cs a b = true :=
  closureOKSeg_of_flip cs a b (fun t u v h1 h2 hon => flip_at_crossing cs a b hnt huniq t u v h1 h2 hon)

/-! ## uniqueness of the crossed edge from validity -/

theorem idxPairs_all_getElem {α : Type} (l : List α) (Q : (Nat × α) × (Nat × α) → Bool)
    (h : (idxPairs l).all Q = true) (i j : Nat) (hi : i < l.length) (hj : j < l.length) (hij : i < j) :
    Q ((i, l[i]), (j, l[j])) = true := by
  rw [List.all_eq_true] at h
  apply h
  simp only [idxPairs, List.mem_flatMap, List.mem_map, List.mem_filter, decide_eq_true_eq]
  refine ⟨(i, l[i]), ⟨(l[i], i), ?_, rfl⟩, (j, l[j]), ⟨⟨(l[j], j), ?_, rfl⟩, hij⟩, rfl⟩
  · rw [List.mem_zipIdx_iff_getElem?]; simp
  · rw [List.mem_zipIdx_iff_getElem?]; simp

theorem touch_comm (a b c d : P) : touch c d a b = touch a b c d := by
  simp only [touch]
  cases onSeg a b c <;> cases onSeg a b d <;> cases onSeg c d a <;> cases onSeg c d b <;> rfl

theorem opp_sign (g0 g1 s : Rat) (s0 : 0 < s) (s1 : s < 1) (h : (1 - s) * g0 + s * g1 = 0)
    (hne : ¬ (g0 = 0 ∧ g1 = 0)) : sgn g0 * sgn g1 < 0 := by
  have hs : 0 < 1 - s := sub_pos.2 s1
  rcases lt_trichotomy g0 0 with h0 | h0 | h0
  · have : 0 < g1 := by
      by_contra hc; rw [not_lt] at hc
      nlinarith [mul_neg_of_pos_of_neg hs h0, mul_nonneg s0.le (neg_nonneg.2 hc)]
    simp [sgn, h0, this, not_lt.2 h0.le]
  · exfalso; apply hne; refine ⟨h0, ?_⟩
    rw [h0] at h
    have : s * g1 = 0 := by linarith
    rcases mul_eq_zero.1 this with h | h
    · linarith
    · exact h
  · have : g1 < 0 := by
      by_contra hc; rw [not_lt] at hc
      nlinarith [mul_pos hs h0, mul_nonneg s0.le hc]
    simp [sgn, h0, this, not_lt.2 this.le]

theorem orient_zero_of_onSeg (c d x : P) (h : onSeg c d x = true) : orient c d x = 0 := by
  simp only [onSeg, Bool.and_eq_true, decide_eq_true_eq] at h; exact h.1.1

/-- interior parameter of a common point of two segments that do not touch -/
theorem interior_param (a b c d x : P) (ht : touch a b c d = false) (h1 : onSeg a b x = true)
    (h2 : onSeg c d x = true) : ∃ s, 0 < s ∧ s < 1 ∧ x = lerp a b s := by
  have ht0 := ht
  simp only [touch, Bool.or_eq_false_iff] at ht0
  obtain ⟨⟨⟨q1, q2⟩, q3⟩, q4⟩ := ht0
  have hab : a ≠ b := by
    intro h; subst h; have := onSeg_degenerate _ _ h1; subst this; rw [q3] at h2; cases h2
  obtain ⟨s, s0, s1, hs⟩ := (onSeg_iff_param a b hab x).1 h1
  rw [pointAt_eq_lerp] at hs
  refine ⟨s, ?_, ?_, hs⟩
  · rcases eq_or_lt_of_le s0 with h | h
    · exfalso; rw [← h, lerp_zero] at hs; rw [hs, q3] at h2; cases h2
    · exact h
  · rcases eq_or_lt_of_le s1 with h | h
    · exfalso; rw [h, lerp_one] at hs; rw [hs, q4] at h2; cases h2
    · exact h

/-- closed segments with a common point meet in the sense of `segsMeet` -/
theorem segsMeet_of_common (a b c d x : P) (h1 : onSeg a b x = true) (h2 : onSeg c d x = true) :
    segsMeet a b c d = true := by
  by_cases ht : touch a b c d = true
  · simp [segsMeet, ht]
  · have ht : touch a b c d = false := by simpa using ht
    have ht' : touch c d a b = false := by rw [touch_comm]; exact ht
    obtain ⟨s, s0, s1, hs⟩ := interior_param a b c d x ht h1 h2
    obtain ⟨u, u0, u1, hu⟩ := interior_param c d a b x ht' h2 h1
    have A : sgn (orient c d a) * sgn (orient c d b) < 0 := by
      apply opp_sign _ _ s s0 s1
      · rw [← orient_lerp, ← hs]; exact orient_zero_of_onSeg c d x h2
      · rintro ⟨z0, z1⟩
        have := collinear_free a b c d z0 z1 ht s s0.le s1.le
        rw [← hs, h2] at this; cases this
    have B : sgn (orient a b c) * sgn (orient a b d) < 0 := by
      apply opp_sign _ _ u u0 u1
      · rw [← orient_lerp, ← hu]; exact orient_zero_of_onSeg a b x h1
      · rintro ⟨z0, z1⟩
        have := collinear_free c d a b z0 z1 ht' u u0.le u1.le
        rw [← hu, h1] at this; cases this
    simp [segsMeet, properCross, A, B]

/-- two segments with a common end point `q` and a further common point overlap: the far end of one
lies on the other -/
theorem adjacent_overlap (p q r x : P) (h1 : onSeg p q x = true) (h2 : onSeg q r x = true) (hx : x ≠ q) :
    onSeg q r p = true ∨ onSeg p q r = true := by
  have hpq : q ≠ p := by
    intro h; subst h; exact hx (onSeg_degenerate _ _ h1)
  have hqr : q ≠ r := by
    intro h; subst h; exact hx (onSeg_degenerate _ _ h2)
  rw [onSeg_symm] at h1
  obtain ⟨α, α0, α1, hα⟩ := (onSeg_iff_param q p hpq x).1 h1
  obtain ⟨β, β0, β1, hβ⟩ := (onSeg_iff_param q r hqr x).1 h2
  rw [pointAt_eq_lerp] at hα hβ
  have α0' : 0 < α := by
    rcases eq_or_lt_of_le α0 with h | h
    · exfalso; rw [← h, lerp_zero] at hα; exact hx hα
    · exact h
  have β0' : 0 < β := by
    rcases eq_or_lt_of_le β0 with h | h
    · exfalso; rw [← h, lerp_zero] at hβ; exact hx hβ
    · exact h
  have ex : α * (p.x - q.x) = β * (r.x - q.x) := by
    have := congrArg Pt.x (hα.symm.trans hβ); simp only [lerp] at this; linarith
  have ey : α * (p.y - q.y) = β * (r.y - q.y) := by
    have := congrArg Pt.y (hα.symm.trans hβ); simp only [lerp] at this; linarith
  rcases le_total α β with h | h
  · right
    have hr : r = lerp q p (α / β) := by
      apply pt_ext
      · have : α / β * (p.x - q.x) = r.x - q.x := by
          rw [div_mul_eq_mul_div, div_eq_iff (ne_of_gt β0'), ex]; ring
        simp only [lerp]; linarith
      · have : α / β * (p.y - q.y) = r.y - q.y := by
          rw [div_mul_eq_mul_div, div_eq_iff (ne_of_gt β0'), ey]; ring
        simp only [lerp]; linarith
    obtain ⟨b0, b1⟩ := frac_bounds α β β0' α0 h
    rw [onSeg_symm, hr]; exact onSeg_lerp q p _ b0 b1
  · left
    have hr : p = lerp q r (β / α) := by
      apply pt_ext
      · have : β / α * (r.x - q.x) = p.x - q.x := by
          rw [div_mul_eq_mul_div, div_eq_iff (ne_of_gt α0'), ← ex]; ring
        simp only [lerp]; linarith
      · have : β / α * (r.y - q.y) = p.y - q.y := by
          rw [div_mul_eq_mul_div, div_eq_iff (ne_of_gt α0'), ← ey]; ring
        simp only [lerp]; linarith
    obtain ⟨b0, b1⟩ := frac_bounds β α α0' β0 h
    rw [hr]; exact onSeg_lerp q r _ b0 b1

/-! ### the edge list of a ring -/

theorem edgesFrom_head (f b : P) (r : List P) : ∃ y t, edgesFrom f (b :: r) = (b, y) :: t := by
  cases r <;> exact ⟨_, _, rfl⟩

theorem edgesFrom_adj (f : P) (l : List P) (i : Nat) (h : i + 1 < (edgesFrom f l).length) :
    ((edgesFrom f l)[i]).2 = ((edgesFrom f l)[i + 1]).1 := by
  induction l generalizing i with
  | nil => simp [edgesFrom] at h
  | cons a l ih =>
    cases l with
    | nil => simp [edgesFrom] at h
    | cons b r =>
      have h' : i + 1 < ((a, b) :: edgesFrom f (b :: r)).length := h
      show (((a, b) :: edgesFrom f (b :: r))[i]).2 = (((a, b) :: edgesFrom f (b :: r))[i + 1]).1
      cases i with
      | zero =>
        obtain ⟨y, t, ht⟩ := edgesFrom_head f b r
        simp [ht]
      | succ k =>
        simp only [List.getElem_cons_succ]
        exact ih k (by simpa using h')

theorem edgesFrom_last (f : P) (l : List P) (j : Nat) (hj : j + 1 = (edgesFrom f l).length) :
    ((edgesFrom f l)[j]).2 = f := by
  induction l generalizing j with
  | nil => simp [edgesFrom] at hj
  | cons a l ih =>
    cases l with
    | nil =>
      have : j = 0 := by simpa [edgesFrom] using hj
      subst this; rfl
    | cons b r =>
      have h' : j + 1 = ((a, b) :: edgesFrom f (b :: r)).length := hj
      show (((a, b) :: edgesFrom f (b :: r))[j]).2 = f
      cases j with
      | zero =>
        obtain ⟨y, t, ht⟩ := edgesFrom_head f b r
        rw [ht] at h'; simp at h'
      | succ k =>
        simp only [List.getElem_cons_succ]
        exact ih k (by simpa using h')

theorem edges_openForm (r : Ring) : edges r = edges (openForm r) ∨
    ∃ h, (h, h) ∈ edges r ∧ edges r = edges (openForm r) ++ [(h, h)] := by
  cases r with
  | nil => left; rfl
  | cons h t =>
    simp only [openForm]
    split
    · rename_i hl
      right
      have ht : t.dropLast ++ [h] = t := List.dropLast_append_getLast? h hl
      have e : edges (h :: t) = edges (h :: t.dropLast) ++ [(h, h)] := by
        conv_lhs => rw [← ht]
        show edgesFrom h ((h :: t.dropLast) ++ [h]) = edgesFrom h (h :: t.dropLast) ++ [(h, h)]
        exact edgesFrom_snoc h h (h :: t.dropLast) (by simp)
      exact ⟨h, by rw [e]; simp, e⟩
    · left; rfl

/-- in a valid ring no two edges (positions) of the open form pass through a point that is not a vertex -/
theorem ring_pairwise (r : Ring) (hv : validRing r = true) (x : P)
    (hnv : ∀ e ∈ edges (openForm r), x ≠ e.1 ∧ x ≠ e.2) :
    (edges (openForm r)).Pairwise (fun e f => ¬(onSeg e.1 e.2 x = true ∧ onSeg f.1 f.2 x = true)) := by
  simp only [validRing, Bool.and_eq_true] at hv
  obtain ⟨_, hall⟩ := hv
  generalize openForm r = o at hall hnv ⊢
  cases o with
  | nil => simp [edges]
  | cons h t =>
    have ee : edges (h :: t) = edgesFrom h (h :: t) := rfl
    rw [ee] at hall hnv ⊢
    have adj := edgesFrom_adj h (h :: t)
    have last := edgesFrom_last h (h :: t)
    have head : ∀ (h0 : 0 < (edgesFrom h (h :: t)).length), ((edgesFrom h (h :: t))[0]).1 = h := by
      intro h0
      obtain ⟨y, t', ht⟩ := edgesFrom_head h h t
      simp [ht]
    set es := edgesFrom h (h :: t) with hes
    rw [List.pairwise_iff_getElem]
    intro i j hi hj hij hboth
    obtain ⟨he, hf⟩ := hboth
    have Q := idxPairs_all_getElem es _ hall i j hi hj hij
    simp only at Q
    have nve := hnv es[i] (List.getElem_mem hi)
    have nvf := hnv es[j] (List.getElem_mem hj)
    by_cases c1 : j = i + 1
    · subst c1
      rw [if_pos rfl] at Q
      simp only [Bool.and_eq_true, decide_eq_true_eq, Bool.not_eq_true', ne_eq] at Q
      obtain ⟨⟨⟨_, _⟩, q3⟩, q4⟩ := Q
      have a := adj i hj
      rw [← a] at hf q3
      rcases adjacent_overlap es[i].1 es[i].2 es[i + 1].2 x he hf nve.2 with o | o
      · rw [q3] at o; cases o
      · rw [q4] at o; cases o
    · rw [if_neg c1] at Q
      by_cases c2 : i = 0 ∧ j + 1 = es.length
      · rw [if_pos c2] at Q
        obtain ⟨rfl, c3⟩ := c2
        simp only [Bool.and_eq_true, decide_eq_true_eq, Bool.not_eq_true', ne_eq] at Q
        obtain ⟨⟨_, q2⟩, q3⟩ := Q
        have a : es[j].2 = es[0].1 := by rw [last j c3, head hi]
        rw [← a] at he q2
        rcases adjacent_overlap es[j].1 es[j].2 es[0].2 x hf he nvf.2 with o | o
        · rw [q2] at o; cases o
        · rw [q3] at o; cases o
      · rw [if_neg c2] at Q
        have := segsMeet_of_common _ _ _ _ x he hf
        simp [this] at Q

/-- **uniqueness of the crossed edge**: in a valid contour list, a boundary point that is not a vertex
lies on exactly one edge (position in the list of all edges) -/
theorem uniqueHit_of_valid (cs : Contours) (hv : validC cs = true) (x : P) (hon : onBoundary cs x = true)
    (hnv : ∀ r ∈ cs, ∀ e ∈ edges r, x ≠ e.1 ∧ x ≠ e.2) : UniqueHit x (allEdges cs) := by
  simp only [validC, Bool.and_eq_true] at hv
  obtain ⟨hrings, hpairs⟩ := hv
  have PW : (allEdges cs).Pairwise (fun e f => ¬(onSeg e.1 e.2 x = true ∧ onSeg f.1 f.2 x = true)) := by
    rw [allEdges, List.pairwise_flatMap]
    refine ⟨fun r hr => ?_, ?_⟩
    · have vr : validRing r = true := (List.all_eq_true.1 hrings) r hr
      rcases edges_openForm r with e | ⟨h, hm, e⟩
      · rw [e]; exact ring_pairwise r vr x (by rw [← e]; exact hnv r hr)
      · rw [e, List.pairwise_append]
        refine ⟨ring_pairwise r vr x (fun e' he' => hnv r hr e' (by rw [e]; simp [he'])), by simp, ?_⟩
        intro e1 _ e2 he2 hb
        simp at he2; subst he2
        exact (hnv r hr (h, h) hm).1 (onSeg_degenerate _ _ hb.2)
    · rw [List.pairwise_iff_getElem]
      intro i j hi hj hij e he f hf hb
      have Q := idxPairs_all_getElem cs _ hpairs i j hi hj hij
      simp only [List.all_eq_true, Bool.not_eq_true'] at Q
      have := Q e he f hf
      rw [segsMeet_of_common _ _ _ _ x hb.1 hb.2] at this; cases this
  simp only [onBoundary, List.any_eq_true] at hon
  obtain ⟨r, hr, e0, he0, hit⟩ := hon
  have hm : e0 ∈ allEdges cs := by simp only [allEdges, List.mem_flatMap]; exact ⟨r, hr, he0⟩
  obtain ⟨E1, E2, hE⟩ := List.append_of_mem hm
  rw [hE, List.pairwise_append, List.pairwise_cons] at PW
  refine ⟨E1, e0, E2, hE, hit, ?_, ?_⟩
  · intro e he
    by_contra hc
    have hc : onSeg e.1 e.2 x = true := by simpa using hc
    exact PW.2.2 e he e0 (by simp) ⟨hc, hit⟩
  · intro e he
    by_contra hc
    have hc : onSeg e.1 e.2 x = true := by simpa using hc
    exact PW.2.1.1 e he ⟨hit, hc⟩

/-! ## the closure hypothesis follows from validity and general position -/

/-- **`closureOK` is a theorem**: for a valid polygon and a line in general position, every boundary
crossing of the line is an end point of one of the oracle's inside intervals. -/
theorem closureOK_of_valid (cs : Contours) (ls : List Path)
    (hv : validC cs = true) (hg : gpLine ls cs = true) : closureOK cs ls = true := by
  simp only [closureOK, List.all_eq_true]
  intro l hl e he
  have hnt : NoTouch cs e.1 e.2 := by
    simp only [gpLine, List.all_eq_true, Bool.not_eq_true'] at hg
    exact fun r hr f hf => hg l hl e he r hr f hf
  apply closureOKSeg_of_unique cs e.1 e.2 hnt
  intro t t0 t1 hon
  apply uniqueHit_of_valid cs hv _ hon
  intro r hr f hf
  have ht := hnt r hr f hf
  simp only [touch, Bool.or_eq_false_iff] at ht
  have hx := onSeg_lerp e.1 e.2 t t0.le t1.le
  constructor
  · intro h; rw [h, ht.1.1.1] at hx; cases hx
  · intro h; rw [h, ht.1.1.2] at hx; cases hx

/-- `C14_pointset_of_segs` without the closure hypothesis -/
theorem C14_pointset_of_segs' (ls : List Path) (cs : Contours) (R : List Path)
    (hR : SegsEquiv (segsOf R) (oracleSegments cs ls))
    (hs : simplePaths ls = true) (hv : validC cs = true) (hgp : gpLine ls cs = true) (p : P) :
    onPaths R p = true ↔ (onPaths ls p = true ∧ insideClosedC cs p = true) :=
  C14_pointset_of_segs ls cs R hR hs hgp (closureOK_of_valid cs ls hv hgp) p

/-- **C14, headline, from the segment contract alone** (`C14_exact_of_segs` without the closure
hypothesis): for a simple line in general position w.r.t. a valid polygon the union of the pieces
returned by `Clip` is, as a point set, exactly `L ∩ closure(P)`. -/
theorem C14_exact_of_segs' (core : ClipCore) (hseg : ClipLineSegsSpec core.line) (L : Lines) (arg : Operand)
    (hs : simplePaths L.paths = true) (hv : validC (toContours arg) = true)
    (hg : gpLine L.paths (toContours arg) = true) (p : P) :
    onPaths (clip core L arg) p = true ↔
      (onPaths L.paths p = true ∧ insideClosedC (toContours arg) p = true) :=
  C14_exact_of_segs core hseg L arg hs hv hg (closureOK_of_valid _ _ hv hg) p

/-- non-vacuity: the hypotheses of `closureOK_of_valid` hold on a concrete case in which the line does
cross the boundary (two crossing parameters, both on the boundary), and the conclusion evaluates to
true there -/
example : validC sqC = true ∧ gpLine thru sqC = true ∧ simplePaths thru = true ∧
    sortDedup (crossParams sqC ⟨0, 2⟩ ⟨6, 2⟩) = [1/12, 3/4] ∧
    onBoundary sqC (pointAt ⟨0, 2⟩ ⟨6, 2⟩ (1/12)) = true ∧ onBoundary sqC (pointAt ⟨0, 2⟩ ⟨6, 2⟩ (3/4)) = true ∧
    closureOK sqC thru = true := by decide +kernel


end GeomV.C14
