import GeomV.C14.Proofs
import GeomV.C14.Scale
/-!
# C14 finding (fixed in /repo by `clipLine`): the external sweep loses a vertex at coordinate scale 2^-30

polyclip-go v1.1.0 `findIntersection` decides "parallel" by `kross² > 1e-21 · |d0| · |d1|` with `|·|` the LENGTH
(`Point.Length`, not the squared length its variable names suggest): dimensionally inconsistent, so two
sub-segments of lengths `l0`, `l1` meeting at angle `θ` are treated as parallel when `l0·l1·sin²θ ≤ 1e-21` — at
coordinate scales below about 2^-29 that includes short sub-segments meeting at several degrees.  Witness (thorough
seed 1, the line of replay `C14-MLS2_MPG_cross_many_tiny-ccb5936c`): at scale 2^-30 the vertex `(9, 0)·2^-30` of the
second member lies inside `P`, both adjoining segments cross the boundary within 0.09 units of it, and the returned
piece joins the two crossing points directly.  The same figure is clipped correctly at every scale ≥ 2^-28.

Here: the answer observed from the real code BEFORE the fix violates the contract `ClipLineSpec` — proved on
the exact values (a statement about the raw sweep at that scale; it stays true).  The fix in geom
(`clipLine`, linestring.go) no longer hands the clipper operands of that size: `known_now_scaled` — for this
witness the factor is 2^25 (second member; 2^26 for the first), the clipper sees coordinates of order 1/2, where
the same figure was always clipped correctly; the corpus cases (scales 2^-28, 2^-30, 2^-40) are judged `OK`.
-/
namespace GeomV.C14
open GeomV GeomV.C01

def knownS : List Path := [[⟨(3/1073741824 : Rat), (0 : Rat)⟩, ⟨(7/536870912 : Rat), (1/1073741824 : Rat)⟩], [⟨(17/1073741824 : Rat), (5/536870912 : Rat)⟩, ⟨(1/1073741824 : Rat), (-1/1073741824 : Rat)⟩, ⟨(9/1073741824 : Rat), (0 : Rat)⟩, ⟨(1/536870912 : Rat), (-1/536870912 : Rat)⟩]]
def knownC : Contours := [[⟨(25/2147483648 : Rat), (15/2147483648 : Rat)⟩, ⟨(13/2147483648 : Rat), (17/2147483648 : Rat)⟩, ⟨(9/2147483648 : Rat), (11/2147483648 : Rat)⟩, ⟨(7/2147483648 : Rat), (9/2147483648 : Rat)⟩, ⟨(19/2147483648 : Rat), (-1/2147483648 : Rat)⟩, ⟨(23/2147483648 : Rat), (1/2147483648 : Rat)⟩, ⟨(27/2147483648 : Rat), (3/2147483648 : Rat)⟩, ⟨(29/2147483648 : Rat), (3/2147483648 : Rat)⟩], [⟨(19/2147483648 : Rat), (9/2147483648 : Rat)⟩, ⟨(21/2147483648 : Rat), (9/2147483648 : Rat)⟩, ⟨(21/2147483648 : Rat), (13/2147483648 : Rat)⟩]]
/-- the pieces returned by the real code (as the sweep's contours) -/
def knownR : Contours := [[⟨(6849224433292629/604462909807314587353088 : Rat), (3752999689475413/4835703278458516698824704 : Rat)⟩, ⟨(292722439919381/37778931862957161709568 : Rat), (2177970311597207/4835703278458516698824704 : Rat)⟩], [⟨(2512313887874897/302231454903657293676544 : Rat), (-95821268667459/4835703278458516698824704 : Rat)⟩, ⟨(5017597410929085/604462909807314587353088 : Rat), (-48952169862723/4835703278458516698824704 : Rat)⟩], [⟨(2747731915508785/302231454903657293676544 : Rat), (2828153337426115/604462909807314587353088 : Rat)⟩, ⟨(210624254833145/37778931862957161709568 : Rat), (1366888756766131/604462909807314587353088 : Rat)⟩], [⟨(3563759450895933/302231454903657293676544 : Rat), (3950191198583443/604462909807314587353088 : Rat)⟩, ⟨(21/2147483648 : Rat), (6227633859723263/1208925819614629174706176 : Rat)⟩]]
/-- the lost vertex `(9, 0)·2^-30` -/
def knownV : P := ⟨(9/1073741824 : Rat), (0 : Rat)⟩

/-- the input is inside the quantifier, the sweep is run (no trivial case), the vertex lies on `L` and strictly
inside `P`, and it is on none of the returned pieces -/
theorem known_small_scale_facts :
    simplePaths knownS = true ∧ validC knownC = true ∧ gpLine knownS knownC = true ∧
    trivialCase knownS knownC = false ∧
    onPaths knownS knownV = true ∧ inside knownC knownV = true ∧ onPaths knownR knownV = false := by
  decide +kernel

/-- **Negation of the contract for the observed answer**: no sweep that returns what polyclip-go returns on this
input satisfies `ClipLineSpec`. -/
theorem C14_known_small_scale (line : Contours → Contours → Contours) (h : line knownS knownC = knownR) :
    ¬ ClipLineSpec line := by
  intro hspec
  obtain ⟨f1, f2, f3, f4, f5, f6, f7⟩ := known_small_scale_facts
  have hne : knownS ≠ [] ∧ knownC ≠ [] ∧ overlaps (bbox knownS) (bbox knownC) = true := by
    simp only [trivialCase, Bool.or_eq_false_iff, Bool.not_eq_false'] at f4
    refine ⟨?_, ?_, f4.2⟩
    · intro e; rw [e] at f4; simp at f4
    · intro e; rw [e] at f4; simp at f4
  obtain ⟨_, hpts⟩ := hspec knownS knownC hne.1 hne.2.1 hne.2.2 f1 f2 f3
  have := (hpts knownV).2 ⟨f5, by simp [insideClosedC, f6]⟩
  rw [h, f7] at this
  cases this

/-- after the fix the clipper is called on the witness scaled up by 2^25 / 2^26 (largest coordinate in [1/2, 1)) -/
theorem known_now_scaled :
    scaleOf [[⟨(17/1073741824 : Rat), (5/536870912 : Rat)⟩, ⟨(1/1073741824 : Rat), (-1/1073741824 : Rat)⟩, ⟨(9/1073741824 : Rat), (0 : Rat)⟩, ⟨(1/536870912 : Rat), (-1/536870912 : Rat)⟩]] knownC = 33554432 ∧
    scaleOf [[⟨(3/1073741824 : Rat), (0 : Rat)⟩, ⟨(7/536870912 : Rat), (1/1073741824 : Rat)⟩]] knownC = 67108864 ∧
    Go.frexpExp (3/8) = -1 ∧ Go.frexpExp (1/2) = 0 ∧ Go.frexpExp 1 = 1 ∧ Go.frexpExp (17/1073741824) = -25 ∧
    Go.ldexp 3 (-2) = 3/4 ∧ Go.ldexp 3 2 = 12 := by
  decide +kernel

end GeomV.C14
