import GeomV.C14.Gen
import GeomV.C14.Scale
/-!
# T1 tie for C14: the definitions regenerated from the Go source denote the model's functions

`Gen.lean` is written by `harness/cmd/c14 extract` from the tree under test on every run; here every
regenerated function is proved to return — **without fault** — exactly the value of the hand-written
model (`GeomV.C01.clip`, `polyOp`, `clipperOp`, `polyClipToPolygon`, `toContours`, `polygonsOf`) that the
property theorems are about.  Since the /repo fix that scales small operands up before the clipper is
called (`clipLine`, `maxAbs`, `scalePath` in linestring.go) the model's value is `clip (scaledCore core)`:
the unchanged glue around the sweep conjugated by the scaling (`Scale.lean`).  If the Go source changes so that a function no longer denotes the
model's, this module stops compiling and the obligation is reported as broken.
-/
set_option linter.unusedSimpArgs false
set_option linter.unusedVariables false
namespace GeomV.C14
open GeomV GeomV.C01 GeomV.C14.Go

/-! ## the Go constructs -/

theorem len_eq {α : Type} (l : List α) : Go.len l = (l.length : Int) := rfl

theorem make_ok {α : Type} (n : Nat) (z : α) : Go.make (n : Int) z = .ok (List.replicate n z) := by
  simp [Go.make, pure, Except.pure]

theorem make3_zero {α : Type} (c : Nat) (z : α) : Go.make3 (0 : Int) (c : Int) z = .ok [] := by
  simp [Go.make3, pure, Except.pure]

theorem setIdx_ok {α : Type} (l : List α) (i : Nat) (v : α) (h : i < l.length) :
    Go.setIdx l (i : Int) v = .ok (l.set i v) := by
  simp [Go.setIdx, h, pure, Except.pure]

theorem idx_ok {α : Type} (l : List α) (i : Nat) (h : i < l.length) : Go.idx l (i : Int) = .ok l[i] := by
  simp [Go.idx, h, pure, Except.pure]

theorem setIdx2_ok {α : Type} (l : List (List α)) (i j : Nat) (v : α) (hi : i < l.length) (hj : j < l[i].length) :
    Go.setIdx2 l (i : Int) (j : Int) v = .ok (l.set i (l[i].set j v)) := by
  simp [Go.setIdx2, idx_ok l i hi, setIdx_ok l[i] j v hj, setIdx_ok l i _ hi, bind, Except.bind]

/-- `pp[0 : len(pp)-1]` of a non-empty slice -/
theorem slice_dropLast {α : Type} (l : List α) (h : l ≠ []) :
    Go.slice l 0 (Go.len l - 1) = .ok l.dropLast := by
  have hl : 0 < l.length := List.length_pos_iff.2 h
  have e : ((l.length : Int) - 1).toNat = l.length - 1 := by omega
  have c : (0 : Int) ≤ (l.length : Int) - 1 ∧ (l.length : Int) - 1 ≤ (l.length : Int) := by omega
  have c1 : (1 : Int) ≤ (l.length : Int) := by omega
  simp [Go.slice, len_eq, e, c, c1, pure, Except.pure, List.dropLast_eq_take]

/-- a range loop whose body stores `f x` at the loop index fills the slice with `xs.map f` -/
theorem forRangeAux_fill {α β : Type} (f : α → β) (body : List β → Int → α → M (List β)) :
    ∀ (xs : List α) (pre rest : List β), rest.length = xs.length →
      (∀ (o : List β) (i : Nat) (x : α), x ∈ xs → i < o.length → body o (i : Int) x = .ok (o.set i (f x))) →
      forRangeAux body xs (pre.length : Int) (pre ++ rest) = .ok (pre ++ xs.map f) := by
  intro xs
  induction xs with
  | nil => intro pre rest h _; cases rest with
    | nil => simp [forRangeAux, pure, Except.pure]
    | cons a r => simp at h
  | cons x xs ih =>
    intro pre rest h hb
    cases rest with
    | nil => simp at h
    | cons r0 rest =>
      have h1 := hb (pre ++ r0 :: rest) pre.length x (by simp) (by simp)
      have e : (pre ++ r0 :: rest).set pre.length (f x) = (pre ++ [f x]) ++ rest := by simp
      have hl : ((pre.length : Int) + 1) = ((pre ++ [f x]).length : Int) := by simp
      simp only [forRangeAux, h1, e, bind, Except.bind]
      rw [hl, ih (pre ++ [f x]) rest (by simpa using h) (fun o i y hy hi => hb o i y (by simp [hy]) hi)]
      simp

theorem forRange_fill {α β : Type} (f : α → β) (body : List β → Int → α → M (List β)) (xs : List α) (z : β)
    (hb : ∀ (o : List β) (i : Nat) (x : α), x ∈ xs → i < o.length → body o (i : Int) x = .ok (o.set i (f x))) :
    Go.forRange xs (List.replicate xs.length z) body = .ok (xs.map f) := by
  have := forRangeAux_fill f body xs [] (List.replicate xs.length z) (by simp) hb
  simpa [Go.forRange] using this

/-- a range loop whose body stores the loop value at `[i][j]` copies `xs` into row `i` -/
theorem forRangeAux_row {α : Type} (i : Nat) (body : List (List α) → Int → α → M (List (List α)))
    (hb : ∀ (o : List (List α)) (j : Nat) (x : α) (hi : i < o.length), j < o[i].length →
      body o (j : Int) x = .ok (o.set i (o[i].set j x))) :
    ∀ (xs : List α) (o : List (List α)) (pre rest : List α) (hi : i < o.length), o[i] = pre ++ rest →
      xs.length ≤ rest.length →
      forRangeAux body xs (pre.length : Int) o = .ok (o.set i (pre ++ xs ++ rest.drop xs.length)) := by
  intro xs
  induction xs with
  | nil =>
    intro o pre rest hi ho _
    simp [forRangeAux, pure, Except.pure, ← ho]
  | cons x xs ih =>
    intro o pre rest hi ho hlen
    cases rest with
    | nil => simp at hlen
    | cons r0 rest =>
      have hj : pre.length < o[i].length := by rw [ho]; simp
      have h1 := hb o pre.length x hi hj
      have e : o[i].set pre.length x = (pre ++ [x]) ++ rest := by rw [ho]; simp
      have hl : ((pre.length : Int) + 1) = ((pre ++ [x]).length : Int) := by simp
      simp only [forRangeAux, h1, bind, Except.bind]
      rw [hl, ih (o.set i (o[i].set pre.length x)) (pre ++ [x]) rest (by simpa using hi) (by simp [e])
        (by simpa using hlen)]
      simp

/-- a range loop whose body appends `g x` -/
theorem forRangeAux_append {α β : Type} (g : α → List β) (body : List β → Int → α → M (List β)) :
    ∀ (xs : List α) (k : Int) (o : List β),
      (∀ (o : List β) (k : Int) (x : α), x ∈ xs → body o k x = .ok (o ++ g x)) →
      forRangeAux body xs k o = .ok (o ++ xs.flatMap g) := by
  intro xs
  induction xs with
  | nil => intro k o _; simp [forRangeAux, pure, Except.pure]
  | cons x xs ih =>
    intro k o hb
    simp only [forRangeAux, hb o k x (by simp), bind, Except.bind]
    rw [ih (k + 1) (o ++ g x) (fun o k y hy => hb o k y (by simp [hy]))]
    simp

/-- a range loop whose body folds the loop value into the state (the index is not used) -/
theorem forRangeAux_fold {α σ : Type} (f : σ → α → σ) (body : σ → Int → α → M σ) :
    ∀ (xs : List α) (k : Int) (s : σ),
      (∀ (s : σ) (k : Int) (x : α), x ∈ xs → body s k x = .ok (f s x)) →
      forRangeAux body xs k s = .ok (xs.foldl f s) := by
  intro xs
  induction xs with
  | nil => intro k s _; simp [forRangeAux, pure, Except.pure]
  | cons x xs ih =>
    intro k s hb
    simp only [forRangeAux, hb s k x (by simp), bind, Except.bind, List.foldl_cons]
    exact ih (k + 1) (f s x) (fun s k y hy => hb s k y (by simp [hy]))

theorem forRange_fold {α σ : Type} (f : σ → α → σ) (body : σ → Int → α → M σ) (xs : List α) (s : σ)
    (hb : ∀ (s : σ) (k : Int) (x : α), x ∈ xs → body s k x = .ok (f s x)) :
    Go.forRange xs s body = .ok (xs.foldl f s) := forRangeAux_fold f body xs 0 s hb

/-- a range loop whose body stores `f x` at `[i][j]` fills row `i` with `xs.map f` -/
theorem forRangeAux_rowf {α β : Type} (f : α → β) (i : Nat) (body : List (List β) → Int → α → M (List (List β)))
    (hb : ∀ (o : List (List β)) (j : Nat) (x : α) (hi : i < o.length), j < o[i].length →
      body o (j : Int) x = .ok (o.set i (o[i].set j (f x)))) :
    ∀ (xs : List α) (o : List (List β)) (pre rest : List β) (hi : i < o.length), o[i] = pre ++ rest →
      xs.length ≤ rest.length →
      forRangeAux body xs (pre.length : Int) o = .ok (o.set i (pre ++ xs.map f ++ rest.drop xs.length)) := by
  intro xs
  induction xs with
  | nil =>
    intro o pre rest hi ho _
    simp [forRangeAux, pure, Except.pure, ← ho]
  | cons x xs ih =>
    intro o pre rest hi ho hlen
    cases rest with
    | nil => simp at hlen
    | cons r0 rest =>
      have hj : pre.length < o[i].length := by rw [ho]; simp
      have h1 := hb o pre.length x hi hj
      have e : o[i].set pre.length (f x) = (pre ++ [f x]) ++ rest := by rw [ho]; simp
      have hl : ((pre.length : Int) + 1) = ((pre ++ [f x]).length : Int) := by simp
      simp only [forRangeAux, h1, bind, Except.bind]
      rw [hl, ih (o.set i (o[i].set pre.length (f x))) (pre ++ [f x]) rest (by simpa using hi) (by simp [e])
        (by simpa using hlen)]
      simp

theorem forRange_rowf {α β : Type} (f : α → β) (i : Nat) (body : List (List β) → Int → α → M (List (List β)))
    (xs : List α) (o : List (List β)) (z : β) (hi : i < o.length) (ho : o[i] = List.replicate xs.length z)
    (hb : ∀ (o : List (List β)) (j : Nat) (x : α) (hi : i < o.length), j < o[i].length →
      body o (j : Int) x = .ok (o.set i (o[i].set j (f x)))) :
    Go.forRange xs o body = .ok (o.set i (xs.map f)) := by
  have := forRangeAux_rowf f i body hb xs o [] (List.replicate xs.length z) hi (by simpa using ho) (by simp)
  simpa [Go.forRange] using this

/-! ## polygon.go -/

/-- `Polygon.toPolyClip` copies its receiver (the conversion `polyclip.Point(pp)` is the identity on values) -/
theorem C14_tie_toPolyClip (p : List (List P)) : Gen.polygon_toPolyClip p = .ok p := by
  unfold Gen.polygon_toPolyClip
  simp only [len_eq, make_ok, bind, Except.bind, pure, Except.pure]
  rw [forRange_fill id]
  · simp
  · intro o i r _ hi
    simp only [make_ok, setIdx_ok o i _ hi, bind, Except.bind, pure, Except.pure, Go.forRange]
    have hi' : i < (o.set i (List.replicate r.length (⟨0, 0⟩ : P))).length := by simpa using hi
    have := forRangeAux_row i (fun (o : List (List P)) (j : Int) (pp : P) => do
        let o ← Go.setIdx2 o (i : Int) j pp
        pure o)
      (by
        intro o j x hi hj
        simp [setIdx2_ok o i j x hi hj, bind, Except.bind, pure, Except.pure])
      r (o.set i (List.replicate r.length (⟨0, 0⟩ : P))) [] (List.replicate r.length (⟨0, 0⟩ : P)) hi' (by simp) (by simp)
    simp only [List.length_nil, Int.natCast_zero, bind, Except.bind, pure, Except.pure] at this
    rw [this]
    simp

/-- `polyClipToPolygon` re-closes every contour: the model's `closeRing` (an empty contour becomes the zero point) -/
theorem C14_tie_polyClipToPolygon (cs : List (List P)) :
    Gen.polyClipToPolygon cs = .ok (C01.polyClipToPolygon cs) := by
  unfold Gen.polyClipToPolygon C01.polyClipToPolygon
  simp only [len_eq, make_ok, bind, Except.bind, pure, Except.pure]
  rw [forRange_fill closeRing]
  intro o i r _ hi
  have e1 : (r.length : Int) + 1 = ((r.length + 1 : Nat) : Int) := by simp
  simp only [e1, make_ok, setIdx_ok o i _ hi, bind, Except.bind, pure, Except.pure, Go.forRange]
  have hi' : i < (o.set i (List.replicate (r.length + 1) (⟨0, 0⟩ : P))).length := by simpa using hi
  have := forRangeAux_row i (fun (o : List (List P)) (j : Int) (pp : P) => do
      let o ← Go.setIdx2 o (i : Int) j pp
      pure o)
    (by
      intro o j x hi hj
      simp [setIdx2_ok o i j x hi hj, bind, Except.bind, pure, Except.pure])
    r (o.set i (List.replicate (r.length + 1) (⟨0, 0⟩ : P))) [] (List.replicate (r.length + 1) (⟨0, 0⟩ : P)) hi' (by simp) (by simp)
  simp only [List.length_nil, Int.natCast_zero, bind, Except.bind, pure, Except.pure] at this
  rw [this]
  simp only [List.set_set, List.nil_append, List.drop_replicate, Nat.add_sub_cancel_left, List.replicate_one]
  have hi2 : i < (o.set i (r ++ [(⟨0, 0⟩ : P)])).length := by simpa using hi
  have hrow : (o.set i (r ++ [(⟨0, 0⟩ : P)]))[i] = r ++ [(⟨0, 0⟩ : P)] := by simp
  have h0 : 0 < ((o.set i (r ++ [(⟨0, 0⟩ : P)]))[i]).length := by rw [hrow]; simp
  have hidx := idx_ok (o.set i (r ++ [(⟨0, 0⟩ : P)])) i hi2
  have hidx0 := idx_ok ((o.set i (r ++ [(⟨0, 0⟩ : P)]))[i]) 0 h0
  simp only [Int.natCast_zero] at hidx0
  have hset := setIdx2_ok (o.set i (r ++ [(⟨0, 0⟩ : P)])) i r.length ((o.set i (r ++ [(⟨0, 0⟩ : P)]))[i][0]) hi2
    (by rw [hrow]; simp)
  simp only [hidx, hidx0, hset]
  congr 1
  cases r with
  | nil => simp [closeRing]
  | cons h t => simp [closeRing, hrow]

/-- `clipperOp` -/
theorem C14_tie_clipperOp (op : COp) (s c : List (List P)) :
    Gen.clipperOp op s c = .ok (C01.clipperOp op s c) := by
  unfold Gen.clipperOp C01.clipperOp
  have e1 : decide (Go.len s = 0) = s.isEmpty := by
    cases s with
    | nil => simp [len_eq]
    | cons a t => simp only [len_eq, List.length_cons, List.isEmpty_cons]; exact decide_eq_false (by omega)
  have e2 : decide (Go.len c = 0) = c.isEmpty := by
    cases c with
    | nil => simp [len_eq]
    | cons a t => simp only [len_eq, List.length_cons, List.isEmpty_cons]; exact decide_eq_false (by omega)
  rw [e1, e2]
  by_cases h : op = COp.bool Op.xor
  · subst h
    cases hh : (s.isEmpty || c.isEmpty || !overlaps (bbox s) (bbox c)) <;> simp [hh, pure, Except.pure]
  · simp [h, pure, Except.pure]

/-- the three `Polygons()` methods behind the interface call: the model's `polygonsOf` -/
theorem C14_tie_Polygons (a : Operand) : Gen.polygonal_Polygons a = .ok (polygonsOf a) := by
  cases a <;> rfl

theorem foldl_append_flatMap {α : Type} (xs : List (List α)) (acc : List α) :
    xs.foldl (fun acc pg => acc ++ pg) acc = acc ++ xs.flatMap id := by
  induction xs generalizing acc with
  | nil => simp
  | cons x xs ih => simp [ih]

/-- `Polygon.op`: receiver and argument converted, the argument's polygons concatenated, `clipperOp`,
`Construct`, `polyClipToPolygon` — the model's `polyOp` -/
theorem C14_tie_op (core : ClipCore) (s : List (List P)) (arg : Operand) (op : COp) :
    Gen.polygon_op core s arg op = .ok (polyOp core op s arg) := by
  unfold Gen.polygon_op polyOp
  simp only [C14_tie_toPolyClip, C14_tie_Polygons, bind, Except.bind, pure, Except.pure, Go.forRange]
  rw [forRangeAux_append id]
  · simp only [List.nil_append, C14_tie_clipperOp, C14_tie_polyClipToPolygon]
    simp [toContours, foldl_append_flatMap]
  · intro o k x _
    simp [C14_tie_toPolyClip, bind, Except.bind, pure, Except.pure]

/-! ## linestring.go, multilinestring.go -/

/-- `maxAbs` -/
theorem C14_tie_maxAbs (r : List P) (m : Rat) : Gen.maxAbs r m = .ok (maxAbs r m) := by
  unfold Gen.maxAbs maxAbs
  simp only [bind, Except.bind, pure, Except.pure]
  rw [forRange_fold (fun m pt => Go.fmax m (Go.fmax (Go.fabs pt.x) (Go.fabs pt.y)))]
  intro s k x _; rfl

/-- `scalePath` returns a scaled copy -/
theorem C14_tie_scalePath (r : List P) (s : Rat) : Gen.scalePath r s = .ok (scalePath s r) := by
  unfold Gen.scalePath scalePath
  simp only [len_eq, make_ok, bind, Except.bind, pure, Except.pure]
  rw [forRange_fill (scaleP s)]
  intro o i pt _ hi
  simp [setIdx_ok o i _ hi, scaleP, bind, Except.bind, pure, Except.pure]

/-- the body of `clipLine`, statement by statement -/
theorem C14_tie_clipLine_body (core : ClipCore) (l : List P) (arg : Operand) :
    Gen.clipLine core l arg = .ok (clipLineM core l arg) := by
  unfold Gen.clipLine clipLineM
  simp only [C14_tie_Polygons, C14_tie_maxAbs, bind, Except.bind, pure, Except.pure]
  rw [forRange_fold (fun m pg => pg.foldl (fun m r => maxAbs r m) m)]
  · generalize List.foldl (fun m pg => List.foldl (fun m r => maxAbs r m) m pg) (maxAbs l 0) (polygonsOf arg) = m
    delta noScale tinyLo
    dsimp only
    split <;> rename_i h
    · simp only [C14_tie_op]
    · simp only [len_eq, make_ok, bind, Except.bind, pure, Except.pure]
      rw [forRange_fill (fun pg => pg.map (scalePath (Go.ldexp (1 : Rat) (-(Go.frexpExp m)))))]
      · simp only [C14_tie_scalePath, C14_tie_op, len_eq, make_ok, bind, Except.bind, pure, Except.pure]
        rw [forRange_fill (scalePath (1 / Go.ldexp (1 : Rat) (-(Go.frexpExp m))))]
        intro o i r _ hi
        simp [C14_tie_scalePath, setIdx_ok o i _ hi, bind, Except.bind, pure, Except.pure]
      · intro o i pg _ hi
        simp only [len_eq, make_ok, setIdx_ok o i _ hi, bind, Except.bind, pure, Except.pure]
        rw [forRange_rowf (scalePath (Go.ldexp (1 : Rat) (-(Go.frexpExp m)))) i _ pg _
          ([] : List P) (by simpa using hi) (by simp)]
        · simp
        · intro o j x hi hj
          simp [C14_tie_scalePath, setIdx2_ok o i j _ hi hj, bind, Except.bind, pure, Except.pure]
  · intro m k pg _
    rw [forRange_fold (fun m r => maxAbs r m)]
    intro m k r _
    rfl

/-- **T1 tie, `clipLine`**: the unchanged glue (`polyOp`) around the sweep conjugated by the scaling -/
theorem C14_tie_clipLine (core : ClipCore) (l : List P) (arg : Operand) :
    Gen.clipLine core l arg = .ok (polyOp (scaledCore core) .clipline [l] arg) := by
  rw [C14_tie_clipLine_body, clipLineM_eq]

theorem flatMap_single {α β : Type} (f : α → β) (xs : List α) : xs.flatMap (fun x => [f x]) = xs.map f := by
  induction xs with
  | nil => rfl
  | cons x xs ih => simp [ih]

theorem closeRing_ne_nil (r : Ring) : closeRing r ≠ [] := by cases r <;> simp [closeRing]

/-- **T1 tie, `LineString.Clip`.**  The function regenerated from linestring.go returns, for every
sweep `core`, line and polygonal argument, without fault (`pp[0:len(pp)-1]` is never out of range:
`polyClipToPolygon` returns rings of at least one vertex), exactly the model's `clip` for the sweep as
`clipLine` presents it (`scaledCore core`: conjugated by the power-of-two scaling of small operands). -/
theorem C14_tie_LineString_Clip (core : ClipCore) (l : List P) (arg : Operand) :
    Gen.lineString_Clip core l arg = .ok (clip (scaledCore core) (.line l) arg) := by
  unfold Gen.lineString_Clip
  simp only [C14_tie_clipLine, len_eq, make_ok, bind, Except.bind, pure, Except.pure]
  rw [forRange_fill List.dropLast]
  · simp [clip, Lines.paths, clip1]
  · intro o i x hx hi
    have hne : x ≠ [] := by
      simp only [polyOp, C01.polyClipToPolygon, List.mem_map] at hx
      obtain ⟨r, _, rfl⟩ := hx
      exact closeRing_ne_nil r
    have := slice_dropLast x hne
    simp only [len_eq] at this
    simp [this, setIdx_ok o i _ hi, bind, Except.bind, pure, Except.pure]

/-- **T1 tie, `MultiLineString.Clip`** (the code after /repo fix 9635cd6: member by member). -/
theorem C14_tie_MultiLineString_Clip (core : ClipCore) (ls : List (List P)) (arg : Operand) :
    Gen.multiLineString_Clip core ls arg = .ok (clip (scaledCore core) (.multi ls) arg) := by
  unfold Gen.multiLineString_Clip
  simp only [len_eq, make3_zero, bind, Except.bind, pure, Except.pure, Go.forRange]
  rw [forRangeAux_append (fun l => clip1 (scaledCore core) l arg)]
  · simp [clip, Lines.paths]
  · intro o k l _
    simp only [C14_tie_clipLine, bind, Except.bind, pure, Except.pure]
    rw [forRangeAux_append (fun pp => [pp.dropLast])]
    · simp [clip1, flatMap_single]
    · intro o k x hx
      have hne : x ≠ [] := by
        simp only [polyOp, C01.polyClipToPolygon, List.mem_map] at hx
        obtain ⟨r, _, rfl⟩ := hx
        exact closeRing_ne_nil r
      have := slice_dropLast x hne
      simp only [len_eq] at this
      simp [this, bind, Except.bind, pure, Except.pure]

/-- **`Clip` does not panic** (for every sweep, every receiver — empty lines and empty multi-line strings
included — and every polygonal argument) and returns the model's answer: the property theorems
(`C14_glue`, `C14_trivial`, `C14_exact`, …), stated for `GeomV.C01.clip`, are theorems about the
function regenerated from the Go source. -/
theorem C14_src_clip (core : ClipCore) (L : Lines) (arg : Operand) :
    (match L with
     | .line l => Gen.lineString_Clip core l arg
     | .multi ls => Gen.multiLineString_Clip core ls arg) = .ok (clip (scaledCore core) L arg) := by
  cases L with
  | line l => exact C14_tie_LineString_Clip core l arg
  | multi ls => exact C14_tie_MultiLineString_Clip core ls arg

end GeomV.C14
