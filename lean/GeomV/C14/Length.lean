import GeomV.C14.Complete
import Mathlib.Analysis.Real.Sqrt
/-!
# The length clause

`C14_length`: under the segment form of the CLIPLINE contract (`ClipLineSegsSpec`: the segments of the
returned pieces are, up to direction and order, the oracle's maximal inside intervals of the
segments of `L`), the total length of `L.Clip(P)` equals `oracleLength` = Σ over the segments `ab` of
`L` of `|ab| · Σ (t₁ − t₀)` over the oracle's intervals — which by `oracle_complete` are exactly the
parameters at which the segment is inside `P` (up to finitely many crossing points).
-/
set_option linter.unusedSimpArgs false
set_option linter.unusedVariables false
namespace GeomV.C14
open GeomV GeomV.C01

/-- Euclidean length of a segment with rational end points -/
noncomputable def segLen (e : P × P) : ℝ :=
  Real.sqrt ((((e.2.x - e.1.x : Rat)) : ℝ) ^ 2 + (((e.2.y - e.1.y : Rat)) : ℝ) ^ 2)

def segsOf (ps : List Path) : List (P × P) := ps.flatMap pairs

/-- total length of a multi-line string -/
noncomputable def totalLen (ps : List Path) : ℝ := ((segsOf ps).map segLen).sum

/-- total parameter length of a list of intervals -/
def ivSum (l : List (Rat × Rat)) : Rat := (l.map fun iv => iv.2 - iv.1).sum

/-- the length of `L ∩ P` according to the oracle -/
noncomputable def oracleLength (cs : Contours) (ls : List Path) : ℝ :=
  (ls.map fun l => ((pairs l).map fun e => segLen e * ((ivSum (oracleSeg cs e.1 e.2) : Rat) : ℝ)).sum).sum

/-- equal up to direction -/
def flipEq (x y : P × P) : Prop := x = y ∨ x = (y.2, y.1)

/-- equal as multisets of undirected segments -/
def SegsEquiv (A B : List (P × P)) : Prop := ∃ B', List.Perm B' B ∧ List.Forall₂ flipEq A B'

/-- segment form of the CLIPLINE contract: the returned pieces consist of exactly the oracle's
maximal inside parts of the segments of `L` (this is what the correspondence run checks, chain by
chain, on every generated case) -/
def ClipLineSegsSpec (line : Contours → Contours → Contours) : Prop :=
  ∀ s c, s ≠ [] → c ≠ [] → overlaps (bbox s) (bbox c) = true →
    simplePaths s = true → validC c = true → gpLine s c = true →
    SegsEquiv (segsOf (line s c)) (oracleSegments c s)

theorem segLen_flip (a b : P) : segLen (b, a) = segLen (a, b) := by
  simp only [segLen]; congr 1; push_cast; ring

theorem segLen_of_flipEq {x y : P × P} (h : flipEq x y) : segLen x = segLen y := by
  rcases h with rfl | rfl
  · rfl
  · exact segLen_flip _ _

theorem sum_of_forall2 {A B : List (P × P)} (hf : List.Forall₂ flipEq A B) :
    (A.map segLen).sum = (B.map segLen).sum := by
  induction hf with
  | nil => rfl
  | cons hxy _ ih => simp only [List.map_cons, List.sum_cons, ih, segLen_of_flipEq hxy]

theorem sum_of_segsEquiv {A B : List (P × P)} (h : SegsEquiv A B) :
    (A.map segLen).sum = (B.map segLen).sum := by
  obtain ⟨B', hp, hf⟩ := h
  rw [sum_of_forall2 hf]
  exact (hp.map segLen).sum_eq

/-- a sub-segment `[t₀,t₁]` of `ab` has length `(t₁ - t₀) |ab|` -/
theorem segLen_sub (a b : P) (t0 t1 : Rat) (h : t0 ≤ t1) :
    segLen (pointAt a b t0, pointAt a b t1) = ((t1 - t0 : Rat) : ℝ) * segLen (a, b) := by
  have hx : (pointAt a b t1).x - (pointAt a b t0).x = (t1 - t0) * (b.x - a.x) := by simp only [pointAt]; ring
  have hy : (pointAt a b t1).y - (pointAt a b t0).y = (t1 - t0) * (b.y - a.y) := by simp only [pointAt]; ring
  have hnn : (0 : ℝ) ≤ ((t1 - t0 : Rat) : ℝ) := by exact_mod_cast sub_nonneg.2 h
  simp only [segLen, hx, hy]
  push_cast
  have : (((t1 : ℝ) - t0) * ((b.x : ℝ) - a.x)) ^ 2 + (((t1 : ℝ) - t0) * ((b.y : ℝ) - a.y)) ^ 2
      = ((t1 : ℝ) - t0) ^ 2 * (((b.x : ℝ) - a.x) ^ 2 + ((b.y : ℝ) - a.y) ^ 2) := by ring
  rw [this, Real.sqrt_mul (sq_nonneg _), Real.sqrt_sq (by push_cast at hnn; exact hnn)]

/-! ## merging adjacent intervals keeps the total -/

theorem ivSum_mergeStep (x : Rat × Rat) (acc : List (Rat × Rat)) :
    ivSum (mergeStep x acc) = (x.2 - x.1) + ivSum acc := by
  cases acc with
  | nil => simp [mergeStep, ivSum]
  | cons y r =>
    obtain ⟨c, d⟩ := y
    simp only [mergeStep]
    split
    · rename_i h; simp only [ivSum, List.map_cons, List.sum_cons]; rw [h]; ring
    · simp [ivSum]

theorem ivSum_mergeAdj (l : List (Rat × Rat)) : ivSum (mergeAdj l) = ivSum l := by
  induction l with
  | nil => rfl
  | cons x l ih =>
    show ivSum (mergeStep x (mergeAdj l)) = _
    rw [ivSum_mergeStep, ih]; simp [ivSum]

theorem le_mergeStep (x : Rat × Rat) (acc : List (Rat × Rat)) (hx : x.1 ≤ x.2)
    (h : ∀ iv ∈ acc, iv.1 ≤ iv.2) : ∀ iv ∈ mergeStep x acc, iv.1 ≤ iv.2 := by
  cases acc with
  | nil => intro iv hiv; simp [mergeStep] at hiv; subst hiv; exact hx
  | cons y r =>
    obtain ⟨c, d⟩ := y
    have hcd : c ≤ d := h (c, d) (by simp)
    simp only [mergeStep]
    split
    · rename_i e
      intro iv hiv
      rcases List.mem_cons.1 hiv with rfl | hiv
      · show x.1 ≤ d; rw [e] at hx; exact le_trans hx hcd
      · exact h iv (by simp [hiv])
    · intro iv hiv
      rcases List.mem_cons.1 hiv with rfl | hiv
      · exact hx
      · exact h iv hiv

theorem le_mergeAdj (l : List (Rat × Rat)) (h : ∀ iv ∈ l, iv.1 ≤ iv.2) : ∀ iv ∈ mergeAdj l, iv.1 ≤ iv.2 := by
  induction l with
  | nil => intro iv hiv; simp [mergeAdj] at hiv
  | cons x l ih =>
    exact le_mergeStep x (mergeAdj l) (h x (by simp)) (ih (fun iv hiv => h iv (by simp [hiv])))

theorem sum_map_flatMap {α β : Type} (l : List α) (f : α → List β) (g : β → ℝ) :
    ((l.flatMap f).map g).sum = (l.map fun x => ((f x).map g).sum).sum := by
  induction l with
  | nil => rfl
  | cons a l ih => simp [List.flatMap_cons, ih]

/-- the oracle's segments of one segment `ab` of `L` add up to `|ab| · Σ (t₁ - t₀)` -/
theorem len_segIvs (cs : Contours) (a b : P) :
    (((segIvs cs a b).map fun iv => (pointAt a b iv.1, pointAt a b iv.2)).map segLen).sum
      = segLen (a, b) * ((ivSum (oracleSeg cs a b) : Rat) : ℝ) := by
  have hle : ∀ iv ∈ segIvs cs a b, iv.1 ≤ iv.2 :=
    le_mergeAdj _ (fun iv hiv => (oracle_endpoints_on_L cs a b iv hiv).2.1)
  rw [← ivSum_mergeAdj]
  show _ = segLen (a, b) * ((ivSum (segIvs cs a b) : Rat) : ℝ)
  generalize segIvs cs a b = l at hle
  induction l with
  | nil => simp [ivSum]
  | cons iv l ih =>
    have h1 := hle iv (by simp)
    have h2 := ih (fun x hx => hle x (by simp [hx]))
    simp only [List.map_cons, List.sum_cons, ivSum] at h2 ⊢
    rw [h2, segLen_sub a b iv.1 iv.2 h1]
    push_cast; ring

theorem len_oracleSegments (cs : Contours) (ls : List Path) :
    ((oracleSegments cs ls).map segLen).sum = oracleLength cs ls := by
  simp only [oracleSegments, oracleLength, sum_map_flatMap]
  congr 1
  apply List.map_congr_left
  intro l _
  congr 1
  apply List.map_congr_left
  intro e _
  exact len_segIvs cs e.1 e.2

/-- (one clipper call with subject paths `s`) Under the segment form of the CLIPLINE contract, for a simple line in
general position w.r.t. a valid polygon, in every case (trivial ones included): the total length of
`L.Clip(P)` is the oracle's length of `L ∩ P`. -/
theorem lengthS (core : ClipCore) (hline : ClipLineSegsSpec core.line) (s : List Path) (arg : Operand)
    (hs : simplePaths s = true) (hv : validC (toContours arg) = true)
    (hg : gpLine s (toContours arg) = true) :
    totalLen (clipS core s arg) = oracleLength (toContours arg) s := by
  by_cases ht : trivialCase s (toContours arg) = true
  · obtain ⟨hc, hno⟩ := trivialS core s arg ht
    rw [hc]
    have hz : ∀ l ∈ s, ∀ e ∈ pairs l, oracleSeg (toContours arg) e.1 e.2 = [] := by
      intro l hl e he
      cases hO : oracleSeg (toContours arg) e.1 e.2 with
      | nil => rfl
      | cons iv r =>
        exfalso
        have hm : iv ∈ oracleSeg (toContours arg) e.1 e.2 := by rw [hO]; simp
        have hin := oracle_midpoints_inside _ _ _ iv hm
        obtain ⟨b0, b1, b2, _, _⟩ := oracle_endpoints_on_L _ _ _ iv hm
        have hon : onSeg e.1 e.2 (pointAt e.1 e.2 ((iv.1 + iv.2) / 2)) = true :=
          onSeg_pointAt e.1 e.2 _ (by linarith) (by linarith)
        refine hno (pointAt e.1 e.2 ((iv.1 + iv.2) / 2)) ⟨?_, by simp [insideClosedC, hin]⟩
        simp only [onPaths, onPath, List.any_eq_true]
        exact ⟨l, hl, e, he, hon⟩
    have : oracleLength (toContours arg) s = 0 := by
      simp only [oracleLength]
      apply List.sum_eq_zero
      intro x hx
      simp only [List.mem_map] at hx
      obtain ⟨l, hl, rfl⟩ := hx
      apply List.sum_eq_zero
      intro y hy
      simp only [List.mem_map] at hy
      obtain ⟨e, he, rfl⟩ := hy
      rw [hz l hl e he]; simp [ivSum]
    rw [this]; simp [totalLen, segsOf]
  · have hne : s ≠ [] ∧ toContours arg ≠ [] ∧ overlaps (bbox s) (bbox (toContours arg)) = true := by
      simp only [trivialCase, Bool.or_eq_true, not_or, Bool.not_eq_true, Bool.not_eq_eq_eq_not, Bool.not_not,
        Bool.not_false] at ht
      refine ⟨?_, ?_, ?_⟩
      · intro e; rw [e] at ht; simp at ht
      · intro e; rw [e] at ht; simp at ht
      · simpa using ht.2
    have hse := hline s (toContours arg) hne.1 hne.2.1 hne.2.2 hs hv hg
    rw [glueS]
    simp only [ht, Bool.false_eq_true, if_false]
    rw [totalLen, sum_of_segsEquiv hse, len_oracleSegments]

theorem totalLen_append (a b : List Path) : totalLen (a ++ b) = totalLen a + totalLen b := by
  simp [totalLen, segsOf, List.flatMap_append]

theorem oracleLength_cons (cs : Contours) (l : Path) (ls : List Path) :
    oracleLength cs (l :: ls) = oracleLength cs [l] + oracleLength cs ls := by
  simp [oracleLength]

/-- **C14, length clause.** Under the segment form of the CLIPLINE contract, for a simple line (or
network of lines) in general position w.r.t. a valid polygon, in every case (trivial ones included):
the total length of `L.Clip(P)` is the oracle's length of `L ∩ P`. -/
theorem C14_length (core : ClipCore) (hline : ClipLineSegsSpec core.line) (L : Lines) (arg : Operand)
    (hs : simplePaths L.paths = true) (hv : validC (toContours arg) = true)
    (hg : gpLine L.paths (toContours arg) = true) :
    totalLen (clip core L arg) = oracleLength (toContours arg) L.paths := by
  rw [clip_eq]
  have key : ∀ ls : List Path, (∀ l ∈ ls, l ∈ L.paths) →
      totalLen (ls.flatMap fun l => clipS core [l] arg) = oracleLength (toContours arg) ls := by
    intro ls
    induction ls with
    | nil => intro _; simp [totalLen, segsOf, oracleLength]
    | cons l ls ih =>
      intro hmem
      have hl : l ∈ L.paths := hmem l (by simp)
      rw [List.flatMap_cons, totalLen_append, oracleLength_cons, ih (fun x hx => hmem x (by simp [hx])),
        lengthS core hline [l] arg (simplePaths_single _ hs l hl) hv (gpLine_single _ _ hg l hl)]
  exact key L.paths (fun l hl => hl)

end GeomV.C14
