import GeomV.C14.Flip
/-!
# C14: what still holds OUTSIDE the property's quantifier (non-simple lines, invalid polygons)

The property quantifies over simple open lines and valid polygons.  This file states precisely which parts of the
development do not need those hypotheses, and that the remaining parts do need them.

* **The yardstick survives.**  `C14_pointset_beyond`: the oracle's segments are, as a point set, exactly
  `L ∩ closure(P)` for EVERY line string / multi-line string without a zero-length segment (`noZeroSegs`: consecutive
  vertices differ) in general position — self-crossing lines, closed lines, members whose interiors cross or overlap
  included — and every contour list, valid or not, under the decidable per-case hypothesis `closureOK`
  (`C14_pointset_nonsimple`: for a valid polygon `closureOK` is a theorem, so no further hypothesis).  So whatever
  `Clip` returns for such an input can be judged against the same oracle at the point-set level.
* **Simplicity is used for exactly two things**: no zero-length segment (kept here as `noZeroSegs`, implied by
  `simplePaths`: `noZeroSegs_of_simple`) and the LENGTH clause (a self-overlapping line covers a stretch twice:
  `nonsimple_length_counts_twice` — the oracle's total parameter length of a line that runs through `P` twice along
  the same segment is twice the measure of the point set).
* **Validity is used for exactly one thing**: `closureOK` (`closureOK_of_valid`).  `invalid_closure_fails`: for two
  coincident member squares (an invalid multi-polygon: under the even–odd rule nothing is inside) `closureOK` is false
  on a line through them — a boundary crossing point with the outside on both sides — and the point-set statement
  fails there for the oracle's segments (`invalid_pointset_fails`): the hypothesis cannot be dropped.
* **The code gives no guarantee there**: `closed_line_lost` — for a closed line (a ring, first = last vertex) inside `P`
  the clipper's CLIPLINE mode returns no open chain; with a sweep that answers `[]` on that input `Clip` returns no
  piece although the whole line is inside `P` (stated for every core with that answer, as `C14_together_defect`).
  What the theorems for ALL inputs give is: no panic and the glue (`C14_src_clip`), no piece in the trivial cases
  (`C14_trivial`).
-/
set_option linter.unusedSimpArgs false
set_option linter.unusedVariables false
namespace GeomV.C14
open GeomV GeomV.C01

/-- consecutive vertices differ (no zero-length segment) -/
def noZeroSegs (ls : List Path) : Bool := ls.all fun l => (pairs l).all fun e => decide (e.1 ≠ e.2)

theorem noZeroSegs_of_simple (ls : List Path) (hs : simplePaths ls = true) : noZeroSegs ls = true := by
  simp only [noZeroSegs, List.all_eq_true, decide_eq_true_eq]
  intro l hl e he
  have hsimple : ∀ l ∈ ls, simplePath l = true := by
    simp only [simplePaths, Bool.and_eq_true, List.all_eq_true] at hs
    exact hs.1
  exact ne_of_simplePath l (hsimple l hl) e he

/-- `onSegs_oracle_iff` without simplicity -/
theorem onSegs_oracle_iff_beyond (ls : List Path) (cs : Contours) (hz : noZeroSegs ls = true)
    (hgp : gpLine ls cs = true) (hc : closureOK cs ls = true) (p : P) :
    (∃ sg ∈ oracleSegments cs ls, onSeg sg.1 sg.2 p = true) ↔
      (onPaths ls p = true ∧ insideClosedC cs p = true) := by
  have hne' : ∀ l ∈ ls, ∀ e ∈ pairs l, e.1 ≠ e.2 := by
    simp only [noZeroSegs, List.all_eq_true, decide_eq_true_eq] at hz
    exact hz
  constructor
  · rintro ⟨sg, hsg, hon⟩
    simp only [oracleSegments, List.mem_flatMap, List.mem_map] at hsg
    obtain ⟨l, hl, e, he, iv, hiv, rfl⟩ := hsg
    have hne := hne' l hl e he
    have hwf := le_mergeAdj (oracleSeg cs e.1 e.2) (oracleSeg_wf cs e.1 e.2) iv hiv
    obtain ⟨τ, h1, h2, rfl⟩ := (onSeg_sub_iff e.1 e.2 hne iv.1 iv.2 hwf p).1 hon
    have hcov : Covered (oracleSeg cs e.1 e.2) τ :=
      (covered_mergeAdj _ (oracleSeg_wf cs e.1 e.2) τ).1 ⟨iv, hiv, h1, h2⟩
    obtain ⟨j, hj, j1, j2⟩ := hcov
    obtain ⟨b0, _, b1, _, _⟩ := oracle_endpoints_on_L cs e.1 e.2 j hj
    have τ0 : 0 ≤ τ := le_trans b0 j1
    have τ1 : τ ≤ 1 := le_trans j2 b1
    refine ⟨?_, (closed_iff_covered ls cs hgp hc l hl e.1 e.2 he τ τ0 τ1).2 ⟨j, hj, j1, j2⟩⟩
    simp only [onPaths, onPath, List.any_eq_true]
    exact ⟨l, hl, e, he, onSeg_pointAt e.1 e.2 τ τ0 τ1⟩
  · rintro ⟨hon, hin⟩
    simp only [onPaths, onPath, List.any_eq_true] at hon
    obtain ⟨l, hl, e, he, hon⟩ := hon
    have hne := hne' l hl e he
    obtain ⟨τ, τ0, τ1, rfl⟩ := (onSeg_iff_param e.1 e.2 hne p).1 hon
    have hcov := (closed_iff_covered ls cs hgp hc l hl e.1 e.2 he τ τ0 τ1).1 hin
    obtain ⟨iv, hiv, i1, i2⟩ := (covered_mergeAdj _ (oracleSeg_wf cs e.1 e.2) τ).2 hcov
    have hwf := le_mergeAdj (oracleSeg cs e.1 e.2) (oracleSeg_wf cs e.1 e.2) iv hiv
    refine ⟨(pointAt e.1 e.2 iv.1, pointAt e.1 e.2 iv.2), ?_, ?_⟩
    · simp only [oracleSegments, List.mem_flatMap, List.mem_map]
      exact ⟨l, hl, e, he, iv, hiv, rfl⟩
    · exact (onSeg_sub_iff e.1 e.2 hne iv.1 iv.2 hwf _).2 ⟨τ, i1, i2, rfl⟩

/-- **Beyond the quantifier, point-set level.**  For every line (simple or not) without zero-length segment in general
position w.r.t. any contour list (valid or not) satisfying the decidable `closureOK`: pieces whose segments are, up to
direction and order, the oracle's have `⋃ pieces = L ∩ closure(P)`. -/
theorem C14_pointset_beyond (ls : List Path) (cs : Contours) (R : List Path)
    (hR : SegsEquiv (segsOf R) (oracleSegments cs ls))
    (hz : noZeroSegs ls = true) (hgp : gpLine ls cs = true) (hc : closureOK cs ls = true) (p : P) :
    onPaths R p = true ↔ (onPaths ls p = true ∧ insideClosedC cs p = true) := by
  rw [onPaths_iff_segs, exists_of_segsEquiv hR p]
  exact onSegs_oracle_iff_beyond ls cs hz hgp hc p

/-- **Non-simple lines against a valid polygon**: no hypothesis besides general position and distinct consecutive
vertices. -/
theorem C14_pointset_nonsimple (ls : List Path) (cs : Contours) (R : List Path)
    (hR : SegsEquiv (segsOf R) (oracleSegments cs ls))
    (hz : noZeroSegs ls = true) (hv : validC cs = true) (hgp : gpLine ls cs = true) (p : P) :
    onPaths R p = true ↔ (onPaths ls p = true ∧ insideClosedC cs p = true) :=
  C14_pointset_beyond ls cs R hR hz hgp (closureOK_of_valid cs ls hv hgp) p

/-! ## witnesses -/

/-- the square 0.5..4.5 -/
def bsq : Contours := [[⟨1/2, 1/2⟩, ⟨9/2, 1/2⟩, ⟨9/2, 9/2⟩, ⟨1/2, 9/2⟩]]
/-- a self-crossing line (a bow over the right edge of the square) -/
def bow : List Path := [[⟨1, 1⟩, ⟨6, 3⟩, ⟨6, 1⟩, ⟨1, 3⟩]]
/-- a line that runs through the square and back along the same segment -/
def back : List Path := [[⟨0, 2⟩, ⟨6, 2⟩, ⟨0, 2⟩]]
/-- a closed line inside the square -/
def loop : List Path := [[⟨1, 1⟩, ⟨3, 1⟩, ⟨2, 3⟩, ⟨1, 1⟩]]
/-- the same square twice (two coincident member polygons): invalid; under the even–odd rule nothing is inside, the
boundary is still the boundary -/
def twoSq : Contours := [[⟨1/2, 1/2⟩, ⟨9/2, 1/2⟩, ⟨9/2, 9/2⟩, ⟨1/2, 9/2⟩], [⟨1/2, 1/2⟩, ⟨9/2, 1/2⟩, ⟨9/2, 9/2⟩, ⟨1/2, 9/2⟩]]
def thruY2 : List Path := [[⟨0, 2⟩, ⟨8, 2⟩]]

/-- non-vacuity of `C14_pointset_nonsimple`: a self-crossing line and a closed line satisfy its hypotheses and are
outside the property's quantifier -/
example : simplePaths bow = false ∧ noZeroSegs bow = true ∧ validC bsq = true ∧ gpLine bow bsq = true ∧
    simplePaths loop = false ∧ noZeroSegs loop = true ∧ gpLine loop bsq = true ∧
    oracleSegments bsq bow ≠ [] := by decide +kernel

/-- sum of the parameter lengths of the oracle's intervals over all segments (each segment of `back` has length 6) -/
def paramTotal (cs : Contours) (ls : List Path) : Rat :=
  (ls.flatMap fun l => (pairs l).flatMap fun e => (segIvs cs e.1 e.2).map fun iv => iv.2 - iv.1).foldl (· + ·) 0

/-- **the length clause needs simplicity**: a line that runs through the square and back along the same segment is
inside `P` on a point set of length 4, the per-segment total (what `C14_length` equates with the clipped length) is 8 -/
theorem nonsimple_length_counts_twice :
    simplePaths back = false ∧ noZeroSegs back = true ∧ gpLine back bsq = true ∧
    6 * paramTotal bsq back = 8 := by decide +kernel

/-- **`closureOK` needs validity**: on the invalid multi-polygon `twoSq` it fails for the line `y = 2` … -/
theorem invalid_closure_fails :
    validC twoSq = false ∧ simplePaths thruY2 = true ∧ gpLine thruY2 twoSq = true ∧ closureOK twoSq thruY2 = false := by
  decide +kernel

/-- … and the point-set statement fails for the oracle's own segments: the crossing point `(1/2, 2)` lies on the line
and on the boundary (so in `L ∩ closure(P)` as the statement reads it) but on none of the oracle's segments. -/
theorem invalid_pointset_fails :
    onPaths thruY2 ⟨1/2, 2⟩ = true ∧ insideClosedC twoSq ⟨1/2, 2⟩ = true ∧
    (oracleSegments twoSq thruY2).all (fun sg => !onSeg sg.1 sg.2 ⟨1/2, 2⟩) = true := by decide +kernel

/-- **The code gives no guarantee for closed lines**: with a sweep that returns no open chain for the closed line
`loop` inside the square (as polyclip's CLIPLINE mode does: the chain closes into a ring, and only open chains are
returned), `Clip` returns nothing although every point of the line is inside `P`. -/
theorem closed_line_lost (core : ClipCore) (hdrop : core.line loop bsq = []) :
    clip core (.line [⟨1, 1⟩, ⟨3, 1⟩, ⟨2, 3⟩, ⟨1, 1⟩]) (.poly bsq) = [] ∧
    onPaths loop ⟨2, 1⟩ = true ∧ insideClosedC bsq ⟨2, 1⟩ = true := by
  refine ⟨?_, by decide +kernel, by decide +kernel⟩
  have h : clip core (.line [⟨1, 1⟩, ⟨3, 1⟩, ⟨2, 3⟩, ⟨1, 1⟩]) (.poly bsq) = clipS core loop (.poly bsq) := by
    simp [clip, Lines.paths, clip1, clipS, loop]
  rw [h, glueS]
  have : toContours (.poly bsq) = bsq := rfl
  rw [this, hdrop]
  simp

end GeomV.C14
