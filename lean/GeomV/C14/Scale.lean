import GeomV.C14.GenLib
import Mathlib.Tactic.Ring
import Mathlib.Tactic.Linarith
import Mathlib.Tactic.Positivity
import Mathlib.Algebra.Order.Field.Basic
/-!
# C14: `clipLine` (/repo fix: small operands are scaled up by a power of two before the clipper is called)

`clipLine(l, p)` (linestring.go) computes the largest absolute coordinate `m` of the line and the
polygonal; if `2^-1022 ≤ m < 1/2` both operands are multiplied by `s = 2^-e` (`m = f·2^e`, `1/2 ≤ f < 1`),
`Polygon.op(…, CLIPLINE)` is called on the scaled copies and the rings that come back are multiplied by
`1/s`; otherwise `op` is called on the operands as they are.

Model: the glue is unchanged (`GeomV.C01.polyOp`, `clip1`, `clip`) — what changes is the *sweep* that the
glue sees: `scaledCore core`, whose CLIPLINE mode is `core.line` conjugated by the scaling
(`scaledCore_line`).  `clipLineM_eq` proves that the two descriptions agree: the two trivial-case tests of
the clipper's head (an operand without contour; bounding boxes that do not overlap) have the same outcome on
the scaled operands (`trivialCase_scale`, for every positive factor), re-closing a contour commutes with the
scaling, and the factor is positive whatever `math.Frexp` returns.  So every theorem of the property, stated for
`clip core` for EVERY sweep `core`, applies to the fixed code with `core := scaledCore core`; the contract on
the sweep (`ClipLineSegsSpec`, compared per generated case) is then a contract on the conjugated sweep, which is
exactly what the run observes.
-/
set_option linter.unusedSimpArgs false
set_option linter.unusedVariables false
namespace GeomV.C14
open GeomV GeomV.C01

def scaleP (s : Rat) (p : P) : P := ⟨p.x * s, p.y * s⟩
def scalePath (s : Rat) (r : List P) : List P := r.map (scaleP s)
def scaleC (s : Rat) (cs : Contours) : Contours := cs.map (scalePath s)

/-- `maxAbs(r, m)` (linestring.go) -/
def maxAbs (r : List P) (m : Rat) : Rat :=
  r.foldl (fun m pt => Go.fmax m (Go.fmax (Go.fabs pt.x) (Go.fabs pt.y))) m

def maxAbsC (cs : Contours) (m : Rat) : Rat := cs.foldl (fun m r => maxAbs r m) m

/-- `0x1p-1022`, the smallest normal binary64 number -/
def tinyLo : Rat := ((1 : Rat) / (44942328371557897693232629769725618340449424473557664318357520289433168951375240783177119330601884005280028469967848339414697442203604155623211857659868531094441973356216371319075554900311523529863270738021251442209537670585615720368478277635206809290837627671146574559986811484619929076208839082406056034304 : Rat))

/-- the guard of `clipLine`: `!(m >= 0x1p-1022 && m < 0.5)` -/
def noScale (m : Rat) : Bool := !((decide (m ≥ tinyLo)) && (decide (m < ((1 : Rat) / (2 : Rat)))))

/-- the factor `clipLine` multiplies by (1 = the operands are clipped as they are) -/
def factor (m : Rat) : Rat := if noScale m then 1 else Go.ldexp (1 : Rat) (-(Go.frexpExp m))

/-- the factor for a subject and a clipping contour list -/
def scaleOf (ls cs : Contours) : Rat := factor (maxAbsC cs (maxAbsC ls 0))

/-- the sweep as the fixed `Clip` uses it: CLIPLINE mode conjugated by the scaling -/
def scaledCore (core : ClipCore) : ClipCore :=
  { bool := core.bool
    line := fun ls cs => scaleC (1 / scaleOf ls cs) (core.line (scaleC (scaleOf ls cs) ls) (scaleC (scaleOf ls cs) cs)) }

theorem scaledCore_line (core : ClipCore) (ls cs : Contours) :
    (scaledCore core).line ls cs =
      scaleC (1 / scaleOf ls cs) (core.line (scaleC (scaleOf ls cs) ls) (scaleC (scaleOf ls cs) cs)) := rfl

/-- what the body of `clipLine` computes, statement by statement (tie: `C14_tie_clipLine_body`) -/
def clipLineM (core : ClipCore) (l : List P) (arg : Operand) : List Ring :=
  let m := (polygonsOf arg).foldl (fun m pg => pg.foldl (fun m r => maxAbs r m) m) (maxAbs l 0)
  if noScale m then polyOp core .clipline [l] arg
  else
    let s := Go.ldexp (1 : Rat) (-(Go.frexpExp m))
    (polyOp core .clipline [scalePath s l] (.multi ((polygonsOf arg).map fun pg => pg.map (scalePath s)))).map
      (scalePath (1 / s))

/-! ## the factor is positive -/

theorem ldexp_one_pos (k : Int) : 0 < Go.ldexp (1 : Rat) k := by
  unfold Go.ldexp
  split
  · have : (0 : Rat) < ((2 ^ k.toNat : Nat) : Rat) := by positivity
    linarith
  · have : (0 : Rat) < ((2 ^ (-k).toNat : Nat) : Rat) := by positivity
    positivity

theorem factor_pos (m : Rat) : 0 < factor m := by
  unfold factor
  split
  · exact zero_lt_one
  · exact ldexp_one_pos _

theorem scaleOf_pos (ls cs : Contours) : 0 < scaleOf ls cs := factor_pos _

/-! ## scaling: identity, bounding boxes, the trivial-case tests, re-closing -/

theorem scaleP_one (p : P) : scaleP 1 p = p := by
  cases p; simp [scaleP]

theorem scalePath_one (r : List P) : scalePath 1 r = r := by
  unfold scalePath
  induction r with
  | nil => rfl
  | cons a t ih => simp [scaleP_one, ih]

theorem scaleC_one (cs : Contours) : scaleC 1 cs = cs := by
  unfold scaleC
  induction cs with
  | nil => rfl
  | cons a t ih => simp [scalePath_one, ih]

def scaleBox (s : Rat) (b : P × P) : P × P := (scaleP s b.1, scaleP s b.2)

theorem extendBox_scale (s : Rat) (hs : 0 ≤ s) (acc : Option (P × P)) (p : P) :
    extendBox (acc.map (scaleBox s)) (scaleP s p) = (extendBox acc p).map (scaleBox s) := by
  cases acc with
  | none => simp [extendBox, scaleBox]
  | some b =>
    obtain ⟨mn, mx⟩ := b
    simp only [Option.map_some, extendBox, scaleBox, scaleP, Option.some.injEq, Prod.mk.injEq, Pt.mk.injEq]
    refine ⟨⟨?_, ?_⟩, ⟨?_, ?_⟩⟩
    · exact (min_mul_of_nonneg _ _ hs).symm
    · exact (min_mul_of_nonneg _ _ hs).symm
    · exact (max_mul_of_nonneg _ _ hs).symm
    · exact (max_mul_of_nonneg _ _ hs).symm

theorem foldl_extendBox_scale (s : Rat) (hs : 0 ≤ s) (xs : List P) (acc : Option (P × P)) :
    (xs.map (scaleP s)).foldl extendBox (acc.map (scaleBox s)) = (xs.foldl extendBox acc).map (scaleBox s) := by
  induction xs generalizing acc with
  | nil => rfl
  | cons x xs ih =>
    simp only [List.map_cons, List.foldl_cons, extendBox_scale s hs, ih]

theorem flatten_scaleC (s : Rat) (cs : Contours) : (scaleC s cs).flatten = cs.flatten.map (scaleP s) := by
  unfold scaleC scalePath
  rw [List.map_flatten]

theorem bbox_scale (s : Rat) (hs : 0 ≤ s) (cs : Contours) : bbox (scaleC s cs) = (bbox cs).map (scaleBox s) := by
  unfold bbox
  rw [flatten_scaleC]
  exact foldl_extendBox_scale s hs cs.flatten none

theorem overlaps_scale (s : Rat) (hs : 0 < s) (a b : Option (P × P)) :
    overlaps (a.map (scaleBox s)) (b.map (scaleBox s)) = overlaps a b := by
  cases a with
  | none => rfl
  | some a =>
    cases b with
    | none => rfl
    | some b =>
      have e : ∀ u v : Rat, decide (u * s ≤ v * s) = decide (u ≤ v) := by
        intro u v
        apply decide_eq_decide.2
        constructor
        · intro h; exact le_of_mul_le_mul_right h hs
        · intro h; exact mul_le_mul_of_nonneg_right h (le_of_lt hs)
      show boxOverlaps (scaleBox s a) (scaleBox s b) = boxOverlaps a b
      unfold boxOverlaps scaleBox scaleP
      simp only [ge_iff_le, e]

theorem isEmpty_scaleC (s : Rat) (cs : Contours) : (scaleC s cs).isEmpty = cs.isEmpty := by
  cases cs <;> rfl

theorem trivialCase_scale (s : Rat) (hs : 0 < s) (ls cs : Contours) :
    trivialCase (scaleC s ls) (scaleC s cs) = trivialCase ls cs := by
  simp only [trivialCase, isEmpty_scaleC, bbox_scale s (le_of_lt hs), overlaps_scale s hs]

theorem closeRing_scale (t : Rat) (r : Ring) : scalePath t (closeRing r) = closeRing (scalePath t r) := by
  cases r with
  | nil => simp [closeRing, scalePath, scaleP]
  | cons h tl => simp [closeRing, scalePath]

theorem polyClipToPolygon_scale (t : Rat) (cs : Contours) :
    (C01.polyClipToPolygon cs).map (scalePath t) = C01.polyClipToPolygon (scaleC t cs) := by
  unfold C01.polyClipToPolygon scaleC
  simp only [List.map_map]
  apply List.map_congr_left
  intro r _
  exact closeRing_scale t r

/-! ## the glue with `CLIPLINE` -/

theorem polyOp_clipline (core : ClipCore) (s : Contours) (arg : Operand) :
    polyOp core .clipline s arg =
      C01.polyClipToPolygon (if trivialCase s (toContours arg) then [] else core.line s (toContours arg)) := by
  have e : C01.clipperOp .clipline s (toContours arg) = .clipline := by simp [C01.clipperOp]
  simp only [polyOp, e, construct, trivialCase]
  congr 1
  by_cases h1 : (s.isEmpty || (toContours arg).isEmpty) = true
  · simp [h1]
  · by_cases h3 : (!overlaps (bbox s) (bbox (toContours arg))) = true
    · simp [h1, h3]
    · simp [h1, h3]

theorem toContours_eq_flatten (arg : Operand) : toContours arg = (polygonsOf arg).flatten := by
  unfold toContours
  have : ∀ (xs : List (List Ring)) (acc : List Ring), xs.foldl (fun acc pg => acc ++ pg) acc = acc ++ xs.flatten := by
    intro xs
    induction xs with
    | nil => simp
    | cons x xs ih => intro acc; simp [ih]
  simpa using this (polygonsOf arg) []

theorem toContours_multi_scale (s : Rat) (arg : Operand) :
    toContours (.multi ((polygonsOf arg).map fun pg => pg.map (scalePath s))) = scaleC s (toContours arg) := by
  rw [toContours_eq_flatten, toContours_eq_flatten]
  simp only [polygonsOf, scaleC, List.map_flatten]

theorem maxAbs_polys (arg : Operand) (m0 : Rat) :
    (polygonsOf arg).foldl (fun m pg => pg.foldl (fun m r => maxAbs r m) m) m0 = maxAbsC (toContours arg) m0 := by
  rw [toContours_eq_flatten]
  unfold maxAbsC
  rw [List.foldl_flatten]

/-- **the fixed code's `clipLine` is the unchanged glue around the conjugated sweep** -/
theorem clipLineM_eq (core : ClipCore) (l : List P) (arg : Operand) :
    clipLineM core l arg = polyOp (scaledCore core) .clipline [l] arg := by
  unfold clipLineM
  simp only [maxAbs_polys]
  have hm : maxAbsC (toContours arg) (maxAbs l 0) = maxAbsC (toContours arg) (maxAbsC [l] 0) := by
    simp [maxAbsC]
  rw [polyOp_clipline (scaledCore core), scaledCore_line]
  by_cases hn : noScale (maxAbsC (toContours arg) (maxAbs l 0)) = true
  · have hf : scaleOf [l] (toContours arg) = 1 := by
      unfold scaleOf factor
      rw [← hm]; simp [hn]
    simp only [hn, if_true, hf, scaleC_one, div_one]
    exact polyOp_clipline core [l] arg
  · have hf : scaleOf [l] (toContours arg) = Go.ldexp (1 : Rat) (-(Go.frexpExp (maxAbsC (toContours arg) (maxAbs l 0)))) := by
      unfold scaleOf factor
      rw [← hm]; simp [hn]
    have hpos : 0 < scaleOf [l] (toContours arg) := scaleOf_pos _ _
    simp only [hn, Bool.false_eq_true, if_false]
    rw [← hf, polyOp_clipline core, toContours_multi_scale, polyClipToPolygon_scale]
    have e1 : [scalePath (scaleOf [l] (toContours arg)) l] = scaleC (scaleOf [l] (toContours arg)) [l] := rfl
    rw [e1, trivialCase_scale _ hpos]
    by_cases ht : trivialCase [l] (toContours arg) = true
    · simp [ht, scaleC]
    · simp [ht]

end GeomV.C14
