import GeomV.C14.Scale
import Mathlib.Tactic.Ring
import Mathlib.Tactic.Linarith
import Mathlib.Tactic.Positivity
import Mathlib.Tactic.NormNum
import Mathlib.Algebra.Order.Field.Basic
import Mathlib.Algebra.Order.Field.Power
/-!
# C14: the scaling in `clipLine` on an IEEE-754 binary64 model

The model (`Scale.lean`) multiplies exact rationals; the Go code multiplies `float64`s.  This file closes that
gap for finite inputs:

* `IsF64 x` — `x` is the value of a finite binary64 number: `x = n·2^e`, `|n| < 2^53`, `-1074 ≤ e ≤ 971`
  (normal and subnormal numbers and zero; nothing else).
* An IEEE operation returns the correctly rounded exact result; all that is used of the rounding function `rnd`
  is that it is the identity on representable values (`RoundsF64`).  So a product whose exact value is
  representable is computed exactly, whatever the rounding mode.
* `frexpExp_spec` / `frexpExp_unique` — the hand-written GenLib function `Go.frexpExp` satisfies, for every
  rational `m > 0`, the specification of the exponent of `math.Frexp` (`2^(e-1) ≤ m < 2^e`), and that specification
  determines `e`; `ldexp_eq_zpow` — `Go.ldexp x k = x·2^k`.
* `factor_spec` — when the guard of `clipLine` lets the scaled branch run (`2^-1022 ≤ m < 1/2`, i.e. `m` is a normal number below 1/2), the factor is
  `2^k` with `1 ≤ k ≤ 1021` and brings `m` into `[1/2, 1)`.
* `C14_scale_up_exact` — for representable operands every product of the way IN (`scalePath(r, s)` for the line and
  every ring) is representable and smaller than 1 in absolute value; the factor and its reciprocal are
  representable: the float computation of the scaled operands IS the model's (`C14_float_scale_up`).
* `C14_scale_back_exact` — on the way BACK (`scalePath(r, 1/s)`) the product is representable whenever its exact
  value is zero or at least `2^-1022` in absolute value (the normal range); `C14_scale_roundtrip` — a vertex of the
  operands that the sweep returns unchanged comes back bit for bit.  A computed crossing point whose scaled-back
  value is subnormal (smaller than the largest coordinate of the figure, since that is at least `2^-1022`) is rounded to the subnormal grid; that is the only inexact case and it is stated as such.
-/
set_option linter.unusedSimpArgs false
set_option linter.unusedVariables false
namespace GeomV.C14
open GeomV GeomV.C01

/-! ## `Ldexp`, `Frexp` -/

theorem natpow_cast_zpow (k : Int) (h : 0 ≤ k) : ((2 ^ k.toNat : Nat) : Rat) = (2 : Rat) ^ k := by
  have : (2 : Rat) ^ k = (2 : Rat) ^ ((k.toNat : Nat) : Int) := by rw [Int.toNat_of_nonneg h]
  rw [this, zpow_natCast]
  push_cast
  rfl

/-- `math.Ldexp(x, k) = x·2^k` -/
theorem ldexp_eq_zpow (x : Rat) (k : Int) : Go.ldexp x k = x * (2 : Rat) ^ k := by
  unfold Go.ldexp
  split
  · rename_i h
    rw [natpow_cast_zpow k h]
  · rename_i h
    have hk : 0 ≤ -k := by omega
    rw [natpow_cast_zpow (-k) hk, zpow_neg, div_eq_mul_inv, inv_inv]

theorem two_zpow_pos (k : Int) : (0 : Rat) < (2 : Rat) ^ k := zpow_pos (by norm_num) k

theorem two_zpow_lt {a b : Int} : (2 : Rat) ^ a < (2 : Rat) ^ b ↔ a < b :=
  zpow_lt_zpow_iff_right₀ (by norm_num)

theorem two_zpow_le {a b : Int} : (2 : Rat) ^ a ≤ (2 : Rat) ^ b ↔ a ≤ b :=
  zpow_le_zpow_iff_right₀ (by norm_num)

theorem two_zpow_add (a b : Int) : (2 : Rat) ^ (a + b) = (2 : Rat) ^ a * (2 : Rat) ^ b :=
  zpow_add₀ (by norm_num) a b

theorem nat_log2_bounds (a : Nat) (ha : a ≠ 0) :
    (2 : Rat) ^ ((Nat.log2 a : Nat) : Int) ≤ (a : Rat) ∧ (a : Rat) < (2 : Rat) ^ (((Nat.log2 a : Nat) : Int) + 1) := by
  constructor
  · rw [zpow_natCast]
    exact_mod_cast Nat.log2_self_le ha
  · have h : a < 2 ^ (Nat.log2 a + 1) := Nat.lt_log2_self
    have h2 : (((Nat.log2 a : Nat) : Int) + 1) = ((Nat.log2 a + 1 : Nat) : Int) := by push_cast; rfl
    rw [h2, zpow_natCast]
    exact_mod_cast h

/-- **`Go.frexpExp` meets the specification of `math.Frexp`'s exponent**: for `m > 0`, `m = f·2^e` with
`1/2 ≤ f < 1`, i.e. `2^(e-1) ≤ m < 2^e`. -/
theorem frexpExp_spec (m : Rat) (hm : 0 < m) :
    (2 : Rat) ^ (Go.frexpExp m - 1) ≤ m ∧ m < (2 : Rat) ^ (Go.frexpExp m) := by
  have hnum : 0 < m.num := Rat.num_pos.mpr hm
  have ha : m.num.natAbs ≠ 0 := by omega
  have hb : m.den ≠ 0 := m.den_nz
  obtain ⟨a1, a2⟩ := nat_log2_bounds _ ha
  obtain ⟨b1, b2⟩ := nat_log2_bounds _ hb
  have hA : ((m.num.natAbs : Nat) : Rat) = (m.num : Rat) := by
    rw [Nat.cast_natAbs, abs_of_pos hnum]
  have hB : (0 : Rat) < (m.den : Rat) := by exact_mod_cast Nat.pos_of_ne_zero hb
  have hmeq : m = (m.num : Rat) / (m.den : Rat) := (Rat.num_div_den m).symm
  rw [hA] at a1 a2
  set la : Int := ((Nat.log2 m.num.natAbs : Nat) : Int) with hla
  set lb : Int := ((Nat.log2 m.den : Nat) : Int) with hlb
  -- 2^(la-lb-1) < m < 2^(la-lb+1)
  have up : m < (2 : Rat) ^ (la - lb + 1) := by
    rw [hmeq, div_lt_iff₀ hB]
    have : (2 : Rat) ^ (la - lb + 1) * (2 : Rat) ^ lb = (2 : Rat) ^ (la + 1) := by
      rw [← two_zpow_add]; congr 1; ring
    calc (m.num : Rat) < (2 : Rat) ^ (la + 1) := a2
      _ = (2 : Rat) ^ (la - lb + 1) * (2 : Rat) ^ lb := this.symm
      _ ≤ (2 : Rat) ^ (la - lb + 1) * (m.den : Rat) :=
          mul_le_mul_of_nonneg_left b1 (le_of_lt (two_zpow_pos _))
  have lo : (2 : Rat) ^ (la - lb - 1) < m := by
    rw [hmeq, lt_div_iff₀ hB]
    have : (2 : Rat) ^ (la - lb - 1) * (2 : Rat) ^ (lb + 1) = (2 : Rat) ^ la := by
      rw [← two_zpow_add]; congr 1; ring
    calc (2 : Rat) ^ (la - lb - 1) * (m.den : Rat)
        < (2 : Rat) ^ (la - lb - 1) * (2 : Rat) ^ (lb + 1) := mul_lt_mul_of_pos_left b2 (two_zpow_pos _)
      _ = (2 : Rat) ^ la := this
      _ ≤ (m.num : Rat) := a1
  unfold Go.frexpExp
  rw [if_neg (not_le.mpr hm)]
  simp only [← hla, ← hlb]
  rw [ldexp_eq_zpow, one_mul]
  split
  · rename_i h
    refine ⟨?_, up⟩
    have : la - lb + 1 - 1 = la - lb := by ring
    rw [this]; exact h
  · rename_i h
    exact ⟨le_of_lt lo, not_le.mp h⟩

/-- the specification determines the exponent -/
theorem frexpExp_unique (m : Rat) (e e' : Int)
    (h : (2 : Rat) ^ (e - 1) ≤ m ∧ m < (2 : Rat) ^ e) (h' : (2 : Rat) ^ (e' - 1) ≤ m ∧ m < (2 : Rat) ^ e') : e = e' := by
  have h1 : e - 1 < e' := two_zpow_lt.mp (lt_of_le_of_lt h.1 h'.2)
  have h2 : e' - 1 < e := two_zpow_lt.mp (lt_of_le_of_lt h'.1 h.2)
  omega

/-! ## finite binary64 values -/

/-- `x` is the value of a finite IEEE-754 binary64 number -/
def IsF64 (x : Rat) : Prop :=
  ∃ n e : Int, n.natAbs < 2 ^ 53 ∧ -1074 ≤ e ∧ e ≤ 971 ∧ x = (n : Rat) * (2 : Rat) ^ e

/-- all that is used of IEEE rounding: a representable exact result is returned as it is -/
def RoundsF64 (rnd : Rat → Rat) : Prop := ∀ x, IsF64 x → rnd x = x

theorem isF64_zero : IsF64 0 := ⟨0, 0, by decide, by decide, by decide, by simp⟩

theorem isF64_two_zpow (k : Int) (h1 : -1074 ≤ k) (h2 : k ≤ 1023) : IsF64 ((2 : Rat) ^ k) := by
  by_cases h : k ≤ 971
  · exact ⟨1, k, by decide, h1, h, by simp⟩
  · refine ⟨2 ^ 52, k - 52, by decide, by omega, by omega, ?_⟩
    have : (((2 : Int) ^ 52 : Int) : Rat) = (2 : Rat) ^ (52 : Int) := by norm_num
    rw [this, ← two_zpow_add]
    congr 1; ring

theorem int_abs_lt_of_natAbs (n : Int) (h : n.natAbs < 2 ^ 53) : |(n : Rat)| < (2 : Rat) ^ (53 : Int) := by
  have h1 : ((n.natAbs : Nat) : Rat) < ((2 ^ 53 : Nat) : Rat) := by exact_mod_cast h
  have h2 : ((n.natAbs : Nat) : Rat) = |(n : Rat)| := by
    rw [Nat.cast_natAbs, Int.cast_abs]
  rw [h2] at h1
  have h3 : ((2 ^ 53 : Nat) : Rat) = (2 : Rat) ^ (53 : Int) := by norm_num
  rw [h3] at h1
  exact h1

theorem one_le_abs_int (n : Int) (h : n ≠ 0) : (1 : Rat) ≤ |(n : Rat)| := by
  rw [← Int.cast_abs]
  exact_mod_cast Int.one_le_abs h

/-- multiplying a representable value UP by a power of two is exact as long as the product stays below 1 -/
theorem isF64_mul_up (x : Rat) (k : Int) (hx : IsF64 x) (hk : 0 ≤ k) (hb : |x| * (2 : Rat) ^ k < 1) :
    IsF64 (x * (2 : Rat) ^ k) := by
  obtain ⟨n, e, hn, he1, he2, rfl⟩ := hx
  by_cases h0 : n = 0
  · subst h0; simpa using isF64_zero
  · have hn1 := one_le_abs_int n h0
    have hlt : (2 : Rat) ^ (e + k) < (2 : Rat) ^ (0 : Int) := by
      rw [zpow_zero, two_zpow_add]
      calc (2 : Rat) ^ e * (2 : Rat) ^ k ≤ |(n : Rat)| * (2 : Rat) ^ e * (2 : Rat) ^ k := by
            have := mul_le_mul_of_nonneg_right hn1 (le_of_lt (mul_pos (two_zpow_pos e) (two_zpow_pos k)))
            nlinarith [this]
        _ = |(n : Rat) * (2 : Rat) ^ e| * (2 : Rat) ^ k := by
            rw [abs_mul, abs_of_pos (two_zpow_pos e)]
        _ < 1 := hb
    have hek : e + k < 0 := two_zpow_lt.mp hlt
    exact ⟨n, e + k, hn, by omega, by omega, by rw [two_zpow_add]; ring⟩

/-- multiplying a representable value DOWN by a power of two is exact when the product is in the normal range -/
theorem isF64_mul_down (y : Rat) (k : Int) (hy : IsF64 y) (hk : k ≤ 0)
    (hb : (2 : Rat) ^ (-1022 : Int) ≤ |y * (2 : Rat) ^ k|) : IsF64 (y * (2 : Rat) ^ k) := by
  obtain ⟨n, e, hn, he1, he2, rfl⟩ := hy
  have hlt := int_abs_lt_of_natAbs n hn
  have hek : -1074 ≤ e + k := by
    by_contra hc
    have hc' : e + k ≤ -1075 := by omega
    have h1 : |(n : Rat) * (2 : Rat) ^ e * (2 : Rat) ^ k| = |(n : Rat)| * (2 : Rat) ^ (e + k) := by
      rw [mul_assoc, ← two_zpow_add, abs_mul, abs_of_pos (two_zpow_pos _)]
    rw [h1] at hb
    have h2 : (2 : Rat) ^ (e + k) ≤ (2 : Rat) ^ (-1075 : Int) := two_zpow_le.mpr hc'
    have h3 : |(n : Rat)| * (2 : Rat) ^ (e + k) < (2 : Rat) ^ (53 : Int) * (2 : Rat) ^ (-1075 : Int) := by
      calc |(n : Rat)| * (2 : Rat) ^ (e + k) ≤ |(n : Rat)| * (2 : Rat) ^ (-1075 : Int) :=
            mul_le_mul_of_nonneg_left h2 (abs_nonneg _)
        _ < (2 : Rat) ^ (53 : Int) * (2 : Rat) ^ (-1075 : Int) := mul_lt_mul_of_pos_right hlt (two_zpow_pos _)
    have h4 : (2 : Rat) ^ (53 : Int) * (2 : Rat) ^ (-1075 : Int) = (2 : Rat) ^ (-1022 : Int) := by
      rw [← two_zpow_add]; norm_num
    rw [h4] at h3
    exact absurd hb (not_le.mpr h3)
  exact ⟨n, e + k, hn, hek, by omega, by rw [two_zpow_add]; ring⟩

/-! ## the factor -/

set_option exponentiation.threshold 1100 in
theorem tinyLo_eq : tinyLo = (2 : Rat) ^ (-1022 : Int) := by
  unfold tinyLo
  rw [zpow_neg, one_div]
  norm_num

/-- **the factor of the scaled branch**: if the guard lets the scaled branch run, the factor is `2^k`, `1 ≤ k ≤ 1021`,
and brings the largest absolute coordinate into `[1/2, 1)` -/
theorem factor_spec (m : Rat) (hg : noScale m = false) :
    ∃ k : Int, 1 ≤ k ∧ k ≤ 1021 ∧ factor m = (2 : Rat) ^ k ∧ 1 / factor m = (2 : Rat) ^ (-k) ∧
      (1 : Rat) / 2 ≤ m * factor m ∧ m * factor m < 1 := by
  have hg' : tinyLo ≤ m ∧ m < (1 : Rat) / 2 := by
    unfold noScale at hg
    simp only [Bool.not_eq_false', Bool.and_eq_true, decide_eq_true_eq, ge_iff_le] at hg
    exact hg
  obtain ⟨hlo, hhi⟩ := hg'
  rw [tinyLo_eq] at hlo
  have hm : 0 < m := lt_of_lt_of_le (two_zpow_pos _) hlo
  obtain ⟨s1, s2⟩ := frexpExp_spec m hm
  set e := Go.frexpExp m with he
  have hhalf : (1 : Rat) / 2 = (2 : Rat) ^ (-1 : Int) := by norm_num
  have e_hi : e - 1 < -1 := two_zpow_lt.mp (by rw [← hhalf]; exact lt_of_le_of_lt s1 hhi)
  have e_lo : -1022 < e := two_zpow_lt.mp (lt_of_le_of_lt hlo s2)
  have hf : factor m = (2 : Rat) ^ (-e) := by
    unfold factor
    rw [hg]
    simp only [Bool.false_eq_true, if_false]
    rw [ldexp_eq_zpow, one_mul]
  refine ⟨-e, by omega, by omega, hf, ?_, ?_, ?_⟩
  · rw [hf, one_div, ← zpow_neg]
  · rw [hf, hhalf]
    have : (2 : Rat) ^ (-1 : Int) = (2 : Rat) ^ (e - 1) * (2 : Rat) ^ (-e) := by
      rw [← two_zpow_add]; congr 1; ring
    rw [this]
    exact mul_le_mul_of_nonneg_right s1 (le_of_lt (two_zpow_pos _))
  · rw [hf]
    have : (1 : Rat) = (2 : Rat) ^ e * (2 : Rat) ^ (-e) := by
      rw [← two_zpow_add]; simp
    calc m * (2 : Rat) ^ (-e) < (2 : Rat) ^ e * (2 : Rat) ^ (-e) := mul_lt_mul_of_pos_right s2 (two_zpow_pos _)
      _ = 1 := this.symm

/-! ## `maxAbs` bounds every coordinate -/

theorem fmax_eq (a b : Rat) : Go.fmax a b = max a b := by
  unfold Go.fmax
  split
  · rename_i h; exact (max_eq_right (le_of_lt h)).symm
  · rename_i h; exact (max_eq_left (not_lt.mp h)).symm

theorem fabs_eq (a : Rat) : Go.fabs a = |a| := by
  unfold Go.fabs
  split
  · rename_i h; exact (abs_of_neg h).symm
  · rename_i h; exact (abs_of_nonneg (not_lt.mp h)).symm

theorem maxAbs_ge (r : List P) (m0 : Rat) :
    m0 ≤ maxAbs r m0 ∧ ∀ p ∈ r, |p.x| ≤ maxAbs r m0 ∧ |p.y| ≤ maxAbs r m0 := by
  unfold maxAbs
  induction r generalizing m0 with
  | nil => simp
  | cons a t ih =>
    simp only [List.foldl_cons, fmax_eq, fabs_eq]
    obtain ⟨i1, i2⟩ := ih (max m0 (max |a.x| |a.y|))
    simp only [fmax_eq, fabs_eq] at i1 i2
    refine ⟨le_trans (le_max_left _ _) i1, ?_⟩
    intro p hp
    rcases List.mem_cons.mp hp with rfl | hp
    · exact ⟨le_trans (le_trans (le_max_left _ _) (le_max_right _ _)) i1,
        le_trans (le_trans (le_max_right _ _) (le_max_right _ _)) i1⟩
    · exact i2 p hp

theorem maxAbsC_ge (cs : Contours) (m0 : Rat) :
    m0 ≤ maxAbsC cs m0 ∧ ∀ r ∈ cs, ∀ p ∈ r, |p.x| ≤ maxAbsC cs m0 ∧ |p.y| ≤ maxAbsC cs m0 := by
  unfold maxAbsC
  induction cs generalizing m0 with
  | nil => simp
  | cons a t ih =>
    simp only [List.foldl_cons]
    obtain ⟨i1, i2⟩ := ih (maxAbs a m0)
    obtain ⟨j1, j2⟩ := maxAbs_ge a m0
    refine ⟨le_trans j1 i1, ?_⟩
    intro r hr p hp
    rcases List.mem_cons.mp hr with rfl | hr
    · exact ⟨le_trans (j2 p hp).1 i1, le_trans (j2 p hp).2 i1⟩
    · exact i2 r hr p hp

/-! ## the way in is exact -/

def F64P (p : P) : Prop := IsF64 p.x ∧ IsF64 p.y
/-- every coordinate of a contour list is a finite binary64 value -/
def F64C (cs : Contours) : Prop := ∀ r ∈ cs, ∀ p ∈ r, F64P p
/-- every coordinate is smaller than 1 in absolute value -/
def Below1 (cs : Contours) : Prop := ∀ r ∈ cs, ∀ p ∈ r, |p.x| < 1 ∧ |p.y| < 1

theorem scale_coord_exact (x m : Rat) (k : Int) (hx : IsF64 x) (hk : 1 ≤ k) (hxm : |x| ≤ m)
    (hm : m * (2 : Rat) ^ k < 1) : IsF64 (x * (2 : Rat) ^ k) ∧ |x * (2 : Rat) ^ k| < 1 := by
  have hb : |x| * (2 : Rat) ^ k < 1 :=
    lt_of_le_of_lt (mul_le_mul_of_nonneg_right hxm (le_of_lt (two_zpow_pos _))) hm
  refine ⟨isF64_mul_up x k hx (by omega) hb, ?_⟩
  rw [abs_mul, abs_of_pos (two_zpow_pos _)]
  exact hb

theorem mem_scaleC {s : Rat} {cs : Contours} {r : List P} (hr : r ∈ scaleC s cs) :
    ∃ r0 ∈ cs, r = scalePath s r0 := by
  unfold scaleC at hr
  obtain ⟨r0, h0, rfl⟩ := List.mem_map.mp hr
  exact ⟨r0, h0, rfl⟩

theorem mem_scalePath {s : Rat} {r : List P} {p : P} (hp : p ∈ scalePath s r) :
    ∃ p0 ∈ r, p = scaleP s p0 := by
  unfold scalePath at hp
  obtain ⟨p0, h0, rfl⟩ := List.mem_map.mp hp
  exact ⟨p0, h0, rfl⟩

/-- **The way in is exact.**  For operands with finite binary64 coordinates, when the guard of `clipLine` lets the
scaled branch run: every coordinate of the scaled line and of the scaled rings (exact rational product, as in the
model) is a finite binary64 value smaller than 1 in absolute value, and the factor and its reciprocal are finite
binary64 values.  Hence the float products of `scalePath(r, s)` are not rounded. -/
theorem C14_scale_up_exact (ls cs : Contours) (hl : F64C ls) (hc : F64C cs)
    (hg : noScale (maxAbsC cs (maxAbsC ls 0)) = false) :
    F64C (scaleC (scaleOf ls cs) ls) ∧ F64C (scaleC (scaleOf ls cs) cs) ∧
    Below1 (scaleC (scaleOf ls cs) ls) ∧ Below1 (scaleC (scaleOf ls cs) cs) ∧
    IsF64 (scaleOf ls cs) ∧ IsF64 (1 / scaleOf ls cs) := by
  obtain ⟨k, k1, k2, hf, hinv, _, hlt⟩ := factor_spec _ hg
  have hs : scaleOf ls cs = (2 : Rat) ^ k := hf
  obtain ⟨c1, c2⟩ := maxAbsC_ge cs (maxAbsC ls 0)
  obtain ⟨l1, l2⟩ := maxAbsC_ge ls 0
  set M := maxAbsC cs (maxAbsC ls 0) with hM
  rw [hf] at hlt
  have key : ∀ (ds : Contours), F64C ds → (∀ r ∈ ds, ∀ p ∈ r, |p.x| ≤ M ∧ |p.y| ≤ M) →
      F64C (scaleC ((2 : Rat) ^ k) ds) ∧ Below1 (scaleC ((2 : Rat) ^ k) ds) := by
    intro ds hd hb
    constructor
    · intro r hr p hp
      obtain ⟨r0, hr0, rfl⟩ := mem_scaleC hr
      obtain ⟨p0, hp0, rfl⟩ := mem_scalePath hp
      exact ⟨(scale_coord_exact p0.x M k (hd r0 hr0 p0 hp0).1 k1 (hb r0 hr0 p0 hp0).1 hlt).1,
        (scale_coord_exact p0.y M k (hd r0 hr0 p0 hp0).2 k1 (hb r0 hr0 p0 hp0).2 hlt).1⟩
    · intro r hr p hp
      obtain ⟨r0, hr0, rfl⟩ := mem_scaleC hr
      obtain ⟨p0, hp0, rfl⟩ := mem_scalePath hp
      exact ⟨(scale_coord_exact p0.x M k (hd r0 hr0 p0 hp0).1 k1 (hb r0 hr0 p0 hp0).1 hlt).2,
        (scale_coord_exact p0.y M k (hd r0 hr0 p0 hp0).2 k1 (hb r0 hr0 p0 hp0).2 hlt).2⟩
  have hlb : ∀ r ∈ ls, ∀ p ∈ r, |p.x| ≤ M ∧ |p.y| ≤ M := fun r hr p hp =>
    ⟨le_trans (l2 r hr p hp).1 c1, le_trans (l2 r hr p hp).2 c1⟩
  rw [hs]
  obtain ⟨a1, a2⟩ := key ls hl hlb
  obtain ⟨b1, b2⟩ := key cs hc c2
  refine ⟨a1, b1, a2, b2, isF64_two_zpow k (by omega) (by omega), ?_⟩
  have hinv' : 1 / scaleOf ls cs = (2 : Rat) ^ (-k) := hinv
  rw [← hs, hinv']
  exact isF64_two_zpow (-k) (by omega) (by omega)

/-! ## float evaluation of `scalePath` -/

/-- `scalePath(r, s)` evaluated in floating point: every product is rounded -/
def fScalePath (rnd : Rat → Rat) (s : Rat) (r : List P) : List P := r.map fun p => ⟨rnd (p.x * s), rnd (p.y * s)⟩
def fScaleC (rnd : Rat → Rat) (s : Rat) (cs : Contours) : Contours := cs.map (fScalePath rnd s)

theorem fScaleC_eq (rnd : Rat → Rat) (hr : RoundsF64 rnd) (s : Rat) (cs : Contours) (h : F64C (scaleC s cs)) :
    fScaleC rnd s cs = scaleC s cs := by
  unfold fScaleC scaleC
  apply List.map_congr_left
  intro r hr'
  unfold fScalePath scalePath
  apply List.map_congr_left
  intro p hp
  have hmem : scaleP s p ∈ scalePath s r := List.mem_map.mpr ⟨p, hp, rfl⟩
  have hrm : scalePath s r ∈ scaleC s cs := List.mem_map.mpr ⟨r, hr', rfl⟩
  obtain ⟨hx, hy⟩ := h _ hrm _ hmem
  simp only [scaleP] at hx hy ⊢
  rw [hr _ hx, hr _ hy]

/-- **the float computation of the scaled operands is the model's** (any rounding mode) -/
theorem C14_float_scale_up (rnd : Rat → Rat) (hr : RoundsF64 rnd) (ls cs : Contours) (hl : F64C ls) (hc : F64C cs)
    (hg : noScale (maxAbsC cs (maxAbsC ls 0)) = false) :
    fScaleC rnd (scaleOf ls cs) ls = scaleC (scaleOf ls cs) ls ∧
    fScaleC rnd (scaleOf ls cs) cs = scaleC (scaleOf ls cs) cs := by
  obtain ⟨a, b, _⟩ := C14_scale_up_exact ls cs hl hc hg
  exact ⟨fScaleC_eq rnd hr _ _ a, fScaleC_eq rnd hr _ _ b⟩

/-! ## the way back -/

/-- the exact scaled-back value of every coordinate is zero or in the normal range -/
def NormalBack (t : Rat) (ps : Contours) : Prop :=
  ∀ r ∈ ps, ∀ p ∈ r, (p.x = 0 ∨ (2 : Rat) ^ (-1022 : Int) ≤ |p.x * t|) ∧ (p.y = 0 ∨ (2 : Rat) ^ (-1022 : Int) ≤ |p.y * t|)

/-- **The way back is exact in the normal range.**  For pieces with finite binary64 coordinates (what the clipper
returned), scaled back by `1/s`: when every exact product is zero or at least `2^-1022` in absolute value, the float
computation of `scalePath(r, 1/s)` is the model's. -/
theorem C14_scale_back_exact (rnd : Rat → Rat) (hr : RoundsF64 rnd) (ls cs ps : Contours) (hp : F64C ps)
    (hg : noScale (maxAbsC cs (maxAbsC ls 0)) = false) (hn : NormalBack (1 / scaleOf ls cs) ps) :
    fScaleC rnd (1 / scaleOf ls cs) ps = scaleC (1 / scaleOf ls cs) ps := by
  obtain ⟨k, k1, k2, hf, hinv, _, _⟩ := factor_spec _ hg
  have hs : 1 / scaleOf ls cs = (2 : Rat) ^ (-k) := hinv
  rw [hs] at hn ⊢
  apply fScaleC_eq rnd hr
  intro r hr' p hp'
  obtain ⟨r0, hr0, rfl⟩ := mem_scaleC hr'
  obtain ⟨p0, hp0, rfl⟩ := mem_scalePath hp'
  obtain ⟨nx, ny⟩ := hn r0 hr0 p0 hp0
  obtain ⟨fx, fy⟩ := hp r0 hr0 p0 hp0
  constructor
  · simp only [scaleP]
    rcases nx with h0 | h1
    · rw [h0, zero_mul]; exact isF64_zero
    · exact isF64_mul_down _ _ fx (by omega) h1
  · simp only [scaleP]
    rcases ny with h0 | h1
    · rw [h0, zero_mul]; exact isF64_zero
    · exact isF64_mul_down _ _ fy (by omega) h1

/-- a vertex that passes through the sweep unchanged comes back exactly -/
theorem C14_scale_roundtrip (ls cs : Contours) :
    scaleC (1 / scaleOf ls cs) (scaleC (scaleOf ls cs) ls) = ls := by
  have hs : scaleOf ls cs ≠ 0 := ne_of_gt (scaleOf_pos ls cs)
  unfold scaleC scalePath
  rw [List.map_map]
  conv_rhs => rw [← List.map_id ls]
  apply List.map_congr_left
  intro r _
  simp only [Function.comp, List.map_map, id]
  conv_rhs => rw [← List.map_id r]
  apply List.map_congr_left
  intro p _
  cases p
  simp only [Function.comp, scaleP, id, Pt.mk.injEq]
  constructor
  · rw [mul_assoc, mul_one_div_cancel hs, mul_one]
  · rw [mul_assoc, mul_one_div_cancel hs, mul_one]

/-! ## non-vacuity -/

example : IsF64 ((1 : Rat) / 2) := by
  have := isF64_two_zpow (-1) (by decide) (by decide)
  norm_num at this
  exact this

/-- the guard lets the scaled branch run for a small figure, and the hypotheses of `C14_scale_up_exact` hold -/
example : noScale (maxAbsC [[⟨1/4, 0⟩, ⟨1/8, 1/8⟩]] (maxAbsC [[⟨0, 1/16⟩, ⟨-1/4, 1/8⟩]] 0)) = false := by decide +kernel

example : Go.frexpExp ((3 : Rat) / 16) = -2 := by decide +kernel

end GeomV.C14
