import GeomV.C01.Const
import GeomV.C14.Proofs
import Mathlib.Tactic.LinearCombination
/-!
# The oracle is complete

`oracle_complete`: for every parameter `τ ∈ [0,1]` whose point is off the boundary,
`pointAt a b τ` is inside `P` iff `τ` lies in one of the intervals of `oracleSeg`.  The boundary is met
at finitely many parameters, all of them in `crossParams` (`boundary_param_mem`).  Tool:
`GeomV.C01.inside_const` (membership is constant along a boundary-free segment).
-/
set_option linter.unusedSimpArgs false
set_option linter.unusedVariables false
namespace GeomV.C14
open GeomV GeomV.C01

theorem pointAt_eq_lerp (a b : P) (t : Rat) : pointAt a b t = lerp a b t := rfl

/-! ## sorting -/

abbrev Sorted (l : List Rat) : Prop := l.Pairwise (· < ·)

theorem mem_insertSorted (a x : Rat) (l : List Rat) : x ∈ insertSorted a l ↔ x = a ∨ x ∈ l := by
  induction l with
  | nil => simp [insertSorted]
  | cons b r ih =>
    simp only [insertSorted]
    split
    · simp
    · split
      · rename_i h; subst h; simp
      · simp only [List.mem_cons, ih]; tauto

theorem sorted_insertSorted (a : Rat) (l : List Rat) (h : Sorted l) : Sorted (insertSorted a l) := by
  induction l with
  | nil => simp [insertSorted, Sorted]
  | cons b r ih =>
    simp only [insertSorted]
    have hb : ∀ y ∈ r, b < y := (List.pairwise_cons.1 h).1
    have hr : Sorted r := (List.pairwise_cons.1 h).2
    split
    · rename_i hab
      refine List.pairwise_cons.2 ⟨?_, h⟩
      intro y hy
      rcases List.mem_cons.1 hy with rfl | hy
      · exact hab
      · exact lt_trans hab (hb y hy)
    · split
      · exact h
      · rename_i h1 h2
        have hba : b < a := lt_of_le_of_ne (not_lt.1 h1) (Ne.symm h2)
        refine List.pairwise_cons.2 ⟨?_, ih hr⟩
        intro y hy
        rcases (mem_insertSorted a y r).1 hy with rfl | hy
        · exact hba
        · exact hb y hy

theorem mem_sortDedup (x : Rat) (l : List Rat) : x ∈ sortDedup l ↔ x ∈ l := by
  induction l with
  | nil => simp [sortDedup]
  | cons a l ih =>
    show x ∈ insertSorted a (sortDedup l) ↔ _
    rw [mem_insertSorted, ih]; simp

theorem sorted_sortDedup (l : List Rat) : Sorted (sortDedup l) := by
  induction l with
  | nil => simp [sortDedup, Sorted]
  | cons a l ih => exact sorted_insertSorted a _ ih

/-- in a strictly sorted list, a consecutive pair is increasing and nothing lies strictly between -/
theorem consec_sorted (l : List Rat) (h : Sorted l) (u v : Rat) (huv : (u, v) ∈ consec l) :
    u < v ∧ u ∈ l ∧ v ∈ l ∧ ∀ x ∈ l, ¬ (u < x ∧ x < v) := by
  induction l with
  | nil => simp [consec] at huv
  | cons a l ih =>
    cases l with
    | nil => simp [consec] at huv
    | cons b r =>
      have ha : ∀ y ∈ b :: r, a < y := (List.pairwise_cons.1 h).1
      have hr : Sorted (b :: r) := (List.pairwise_cons.1 h).2
      simp only [consec, List.mem_cons] at huv
      rcases huv with e | e
      · simp only [Prod.mk.injEq] at e
        obtain ⟨rfl, rfl⟩ := e
        refine ⟨ha v (by simp), by simp, by simp, ?_⟩
        intro x hx ⟨h1, h2⟩
        rcases List.mem_cons.1 hx with rfl | hx
        · exact lt_irrefl _ h1
        · rcases List.mem_cons.1 hx with rfl | hx
          · exact lt_irrefl _ h2
          · exact lt_asymm h2 ((List.pairwise_cons.1 hr).1 x hx)
      · obtain ⟨h1, h2, h3, h4⟩ := ih hr e
        refine ⟨h1, List.mem_cons_of_mem _ h2, List.mem_cons_of_mem _ h3, ?_⟩
        intro x hx hb
        rcases List.mem_cons.1 hx with rfl | hx
        · exact lt_asymm hb.1 (ha u h2)
        · exact h4 x hx hb

/-! ## the parameter list of a segment -/

/-- the break parameters of segment `ab`: 0, the crossing parameters, 1 -/
def breaks (cs : Contours) (a b : P) : List Rat := 0 :: (sortDedup (crossParams cs a b)) ++ [1]

theorem crossParam_range (a b c d : P) (t : Rat) (h : crossParam a b c d = some t) : 0 < t ∧ t < 1 := by
  simp only [crossParam] at h
  split at h
  · cases h
  · split at h
    · rename_i hh; cases h; exact hh
    · cases h

theorem crossParams_range (cs : Contours) (a b : P) (t : Rat) (h : t ∈ crossParams cs a b) : 0 < t ∧ t < 1 := by
  simp only [crossParams, List.mem_flatMap, List.mem_filterMap] at h
  obtain ⟨r, _, e, _, he⟩ := h
  exact crossParam_range a b e.1 e.2 t he

theorem sorted_breaks (cs : Contours) (a b : P) : Sorted (breaks cs a b) := by
  have hs := sorted_sortDedup (crossParams cs a b)
  have hr : ∀ x ∈ sortDedup (crossParams cs a b), 0 < x ∧ x < 1 := fun x hx =>
    crossParams_range cs a b x ((mem_sortDedup x _).1 hx)
  show List.Pairwise (· < ·) (0 :: (sortDedup (crossParams cs a b) ++ [1]))
  refine List.pairwise_cons.2 ⟨?_, ?_⟩
  · intro y hy
    rcases List.mem_append.1 hy with hy | hy
    · exact (hr y hy).1
    · simp at hy; subst hy; exact zero_lt_one
  · refine List.pairwise_append.2 ⟨hs, by simp, ?_⟩
    intro x hx y hy
    simp at hy; subst hy; exact (hr x hx).2

theorem breaks_range (cs : Contours) (a b : P) (x : Rat) (h : x ∈ breaks cs a b) : 0 ≤ x ∧ x ≤ 1 := by
  simp only [breaks, List.cons_append, List.mem_cons, List.mem_append, List.mem_singleton, List.not_mem_nil, or_false] at h
  rcases h with rfl | h | rfl
  · exact ⟨le_refl _, zero_le_one⟩
  · have := crossParams_range cs a b x ((mem_sortDedup x _).1 h); exact ⟨this.1.le, this.2.le⟩
  · exact ⟨zero_le_one, le_refl _⟩

/-! ## where the boundary is met -/

/-- edges collinear with `ab` do not meet it (follows from general position: `colFree_of_noTouch`) -/
def ColFree (cs : Contours) (a b : P) : Prop :=
  ∀ r ∈ cs, ∀ e ∈ edges r, orient e.1 e.2 a = 0 → orient e.1 e.2 b = 0 →
    ∀ σ : Rat, 0 ≤ σ → σ ≤ 1 → onSeg e.1 e.2 (lerp a b σ) = false

/-- **the boundary is met only at the listed crossing parameters** -/
theorem boundary_param_mem (cs : Contours) (a b : P) (hcol : ColFree cs a b) (σ : Rat)
    (h0 : 0 < σ) (h1 : σ < 1) (hb : onBoundary cs (lerp a b σ) = true) : σ ∈ crossParams cs a b := by
  simp only [onBoundary, List.any_eq_true] at hb
  obtain ⟨r, hr, e, he, hon⟩ := hb
  have ho : orient e.1 e.2 (lerp a b σ) = 0 := by
    simp only [onSeg, Bool.and_eq_true, decide_eq_true_eq] at hon
    exact hon.1.1
  rw [orient_lerp] at ho
  by_cases hf : orient e.1 e.2 a = orient e.1 e.2 b
  · have z0 : orient e.1 e.2 a = 0 := by rw [← hf] at ho; linarith
    have z1 : orient e.1 e.2 b = 0 := by rw [← hf]; exact z0
    rw [hcol r hr e he z0 z1 σ h0.le h1.le] at hon; cases hon
  · have hne : orient e.1 e.2 a - orient e.1 e.2 b ≠ 0 := sub_ne_zero.2 hf
    have hs : orient e.1 e.2 a / (orient e.1 e.2 a - orient e.1 e.2 b) = σ := by
      rw [div_eq_iff hne]; linarith
    simp only [crossParams, List.mem_flatMap, List.mem_filterMap]
    refine ⟨r, hr, e, he, ?_⟩
    simp only [crossParam, hf, if_false, hs, h0, h1, and_self, if_true]

theorem mem_breaks_of_boundary (cs : Contours) (a b : P) (hcol : ColFree cs a b) (σ : Rat)
    (h0 : 0 ≤ σ) (h1 : σ ≤ 1) (hb : onBoundary cs (lerp a b σ) = true) : σ ∈ breaks cs a b := by
  rcases eq_or_lt_of_le h0 with e | h0'
  · subst e; simp [breaks]
  · rcases eq_or_lt_of_le h1 with e | h1'
    · subst e; simp [breaks]
    · have := boundary_param_mem cs a b hcol σ h0' h1' hb
      simp only [breaks, List.cons_append, List.mem_cons, List.mem_append]
      exact Or.inr (Or.inl ((mem_sortDedup σ _).2 this))

/-- membership is constant on a gap between consecutive break parameters (closed at an end that is
off the boundary) -/
theorem const_in_gap (cs : Contours) (a b : P) (hcol : ColFree cs a b) (u v τ : Rat)
    (huv : (u, v) ∈ consec (breaks cs a b)) (hu : u ≤ τ) (hv : τ ≤ v)
    (hoff : onBoundary cs (lerp a b τ) = false) :
    inside cs (lerp a b τ) = inside cs (lerp a b ((u + v) / 2)) := by
  obtain ⟨luv, mu, mv, gap⟩ := consec_sorted _ (sorted_breaks cs a b) u v huv
  have ru := breaks_range cs a b u mu
  have rv := breaks_range cs a b v mv
  set mid := (u + v) / 2 with hmid
  have m1 : u < mid := by rw [hmid]; linarith
  have m2 : mid < v := by rw [hmid]; linarith
  apply inside_const
  intro s s0 s1
  rw [lerp_lerp]
  by_contra hb
  have hb' : onBoundary cs (lerp a b (τ + s * (mid - τ))) = true := by simpa using hb
  set σ := τ + s * (mid - τ) with hσ
  have t1 : 0 ≤ s * (mid - u) := mul_nonneg s0 (by linarith)
  have t2 : 0 ≤ (1 - s) * (τ - u) := mul_nonneg (by linarith) (by linarith)
  have t3 : 0 ≤ s * (v - mid) := mul_nonneg s0 (by linarith)
  have t4 : 0 ≤ (1 - s) * (v - τ) := mul_nonneg (by linarith) (by linarith)
  have e1 : σ - u = (1 - s) * (τ - u) + s * (mid - u) := by rw [hσ]; ring
  have e2 : v - σ = (1 - s) * (v - τ) + s * (v - mid) := by rw [hσ]; ring
  have σ0 : 0 ≤ σ := by linarith [ru.1]
  have σ1 : σ ≤ 1 := by linarith [rv.2]
  have hm := mem_breaks_of_boundary cs a b hcol σ σ0 σ1 hb'
  have hs0 : s = 0 := by
    have hcase : ¬ (u < σ ∧ σ < v) := gap σ hm
    by_cases hl : u < σ
    · have : ¬ σ < v := fun h => hcase ⟨hl, h⟩
      have hz : s * (v - mid) = 0 := by linarith [not_lt.1 this]
      rcases mul_eq_zero.1 hz with h | h
      · exact h
      · exfalso; linarith
    · have hz : s * (mid - u) = 0 := by linarith [not_lt.1 hl]
      rcases mul_eq_zero.1 hz with h | h
      · exact h
      · exfalso; linarith
  have : σ = τ := by rw [hσ, hs0]; ring
  rw [this, hoff] at hb'; cases hb'

/-- **Oracle, completeness.** For a parameter `τ ∈ [0,1]` whose point is off the boundary of `P`:
the point of the segment is inside `P` exactly when `τ` lies in one of the oracle's intervals. -/
theorem oracle_complete_col (cs : Contours) (a b : P) (hcol : ColFree cs a b) (τ : Rat)
    (h0 : 0 ≤ τ) (h1 : τ ≤ 1) (hoff : onBoundary cs (pointAt a b τ) = false) :
    inside cs (pointAt a b τ) = true ↔ ∃ iv ∈ oracleSeg cs a b, iv.1 ≤ τ ∧ τ ≤ iv.2 := by
  rw [pointAt_eq_lerp] at hoff ⊢
  have memO : ∀ u v, (u, v) ∈ oracleSeg cs a b ↔
      ((u, v) ∈ consec (breaks cs a b) ∧ inside cs (lerp a b ((u + v) / 2)) = true ∧ 0 ≤ u ∧ u ≤ v ∧ v ≤ 1) := by
    intro u v
    simp only [oracleSeg, subIntervals, List.mem_map, List.mem_filter, breaks]
    constructor
    · rintro ⟨⟨t0, t1, f⟩, ⟨⟨⟨w0, w1⟩, hw, hw2⟩, hf⟩, he⟩
      simp only [Prod.mk.injEq] at hw2 he
      obtain ⟨rfl, rfl, rfl⟩ := hw2
      obtain ⟨rfl, rfl⟩ := he
      simp only [Bool.and_eq_true, decide_eq_true_eq] at hf
      exact ⟨hw, hf.1.1.1, hf.1.1.2, hf.1.2, hf.2⟩
    · rintro ⟨hw, hin, c0, c1, c2⟩
      refine ⟨(u, v, inside cs (pointAt a b ((u + v) / 2))), ⟨⟨(u, v), hw, rfl⟩, ?_⟩, rfl⟩
      simp only [Bool.and_eq_true, decide_eq_true_eq]
      exact ⟨⟨⟨hin, c0⟩, c1⟩, c2⟩
  constructor
  · intro hin
    obtain ⟨uv, hm, hbt⟩ := consec_cover (breaks cs a b) 0 1 τ rfl
      (by show (0 :: (sortDedup (crossParams cs a b)) ++ [1]).getLast? = some 1; rw [List.getLast?_concat])
      (by simp [breaks]) (by simp [between, h0, h1])
    obtain ⟨u, v⟩ := uv
    obtain ⟨luv, mu, mv, _⟩ := consec_sorted _ (sorted_breaks cs a b) u v hm
    have hτ : u ≤ τ ∧ τ ≤ v := by
      simp only [between, Bool.or_eq_true, Bool.and_eq_true, decide_eq_true_eq] at hbt
      rcases hbt with h | h
      · exact h
      · exact ⟨by linarith [h.1, h.2], by linarith [h.1, h.2]⟩
    have := const_in_gap cs a b hcol u v τ hm hτ.1 hτ.2 hoff
    refine ⟨(u, v), (memO u v).2 ⟨hm, by rw [← this]; exact hin, (breaks_range cs a b u mu).1, luv.le,
      (breaks_range cs a b v mv).2⟩, hτ.1, hτ.2⟩
  · rintro ⟨⟨u, v⟩, hm, hu, hv⟩
    obtain ⟨hc, hin, _⟩ := (memO u v).1 hm
    rw [const_in_gap cs a b hcol u v τ hc hu hv hoff]; exact hin

/-- the oracle's intervals of a segment do not overlap (they meet at most in an end point) -/
theorem oracle_intervals_disjoint (cs : Contours) (a b : P) (i j : Rat × Rat)
    (hi : i ∈ oracleSeg cs a b) (hj : j ∈ oracleSeg cs a b) : i = j ∨ i.2 ≤ j.1 ∨ j.2 ≤ i.1 := by
  have memC : ∀ k ∈ oracleSeg cs a b, k ∈ consec (breaks cs a b) := by
    intro k hk
    simp only [oracleSeg, subIntervals, List.mem_map, List.mem_filter] at hk
    obtain ⟨⟨t0, t1, f⟩, ⟨⟨w, hw, hw2⟩, _⟩, rfl⟩ := hk
    simp only [Prod.mk.injEq] at hw2
    obtain ⟨rfl, rfl, _⟩ := hw2
    exact hw
  obtain ⟨u, v⟩ := i
  obtain ⟨u', v'⟩ := j
  obtain ⟨l1, m1, n1, g1⟩ := consec_sorted _ (sorted_breaks cs a b) u v (memC _ hi)
  obtain ⟨l2, m2, n2, g2⟩ := consec_sorted _ (sorted_breaks cs a b) u' v' (memC _ hj)
  by_contra hc
  simp only [not_or, not_le, Prod.mk.injEq, not_and] at hc
  obtain ⟨hne, h1, h2⟩ := hc
  rcases lt_trichotomy u u' with h | h | h
  · exact g1 u' m2 ⟨h, h1⟩
  · subst h
    rcases lt_trichotomy v v' with h | h | h
    · exact g2 v n1 ⟨l1, h⟩
    · exact hne rfl h
    · exact g1 v' n2 ⟨l2, h⟩
  · exact g2 u m1 ⟨h, h2⟩

/-! ## edges collinear with the segment: general position suffices -/

theorem param_of_between (u w t : Rat) (h : between u w (u + t * (w - u)) = true) (hne : u ≠ w) :
    0 ≤ t ∧ t ≤ 1 := by
  simp only [between, Bool.or_eq_true, Bool.and_eq_true, decide_eq_true_eq] at h
  rcases lt_or_gt_of_ne hne with hl | hl
  · have hp : 0 < w - u := sub_pos.2 hl
    rcases h with ⟨h1, h2⟩ | ⟨h1, h2⟩
    · constructor
      · by_contra hc; rw [not_le] at hc; nlinarith [mul_neg_of_neg_of_pos hc hp]
      · by_contra hc; rw [not_le] at hc; nlinarith [mul_pos (sub_pos.2 hc) hp]
    · exfalso; nlinarith
  · have hp : 0 < u - w := sub_pos.2 hl
    rcases h with ⟨h1, h2⟩ | ⟨h1, h2⟩
    · exfalso; nlinarith
    · constructor
      · by_contra hc; rw [not_le] at hc; nlinarith [mul_neg_of_neg_of_pos hc hp]
      · by_contra hc; rw [not_le] at hc; nlinarith [mul_pos (sub_pos.2 hc) hp]

/-- on a non-degenerate segment, `lerp c d t` lies on the segment only for `t ∈ [0,1]` -/
theorem param_of_onSeg (c d : P) (t : Rat) (hne : c ≠ d) (h : onSeg c d (lerp c d t) = true) :
    0 ≤ t ∧ t ≤ 1 := by
  simp only [onSeg, Bool.and_eq_true] at h
  by_cases hx : c.x = d.x
  · have hy : c.y ≠ d.y := fun hy => hne (pt_ext hx hy)
    exact param_of_between c.y d.y t h.2 hy
  · exact param_of_between c.x d.x t h.1.2 hx

/-- a point of the line `cd` is `lerp c d λ` -/
theorem rep_collinear (c d x : P) (hne : c ≠ d) (h0 : orient c d x = 0) : ∃ t, x = lerp c d t := by
  have hE : 0 < (d.x - c.x) * (d.x - c.x) + (d.y - c.y) * (d.y - c.y) := by
    by_cases hx : c.x = d.x
    · have hy : c.y ≠ d.y := fun hy => hne (pt_ext hx hy)
      have : 0 < (d.y - c.y) * (d.y - c.y) := mul_self_pos.2 (sub_ne_zero.2 (Ne.symm hy))
      nlinarith [mul_self_nonneg (d.x - c.x)]
    · have : 0 < (d.x - c.x) * (d.x - c.x) := mul_self_pos.2 (sub_ne_zero.2 (Ne.symm hx))
      nlinarith [mul_self_nonneg (d.y - c.y)]
  have hEne := ne_of_gt hE
  simp only [orient] at h0
  refine ⟨((x.x - c.x) * (d.x - c.x) + (x.y - c.y) * (d.y - c.y)) /
    ((d.x - c.x) * (d.x - c.x) + (d.y - c.y) * (d.y - c.y)), ?_⟩
  apply pt_ext
  · simp only [lerp]
    rw [div_mul_eq_mul_div]
    have key : ((x.x - c.x) * (d.x - c.x) + (x.y - c.y) * (d.y - c.y)) * (d.x - c.x) /
        ((d.x - c.x) * (d.x - c.x) + (d.y - c.y) * (d.y - c.y)) = x.x - c.x := by
      rw [div_eq_iff hEne]; linear_combination (d.y - c.y) * h0
    rw [key]; ring
  · simp only [lerp]
    rw [div_mul_eq_mul_div]
    have key : ((x.x - c.x) * (d.x - c.x) + (x.y - c.y) * (d.y - c.y)) * (d.y - c.y) /
        ((d.x - c.x) * (d.x - c.x) + (d.y - c.y) * (d.y - c.y)) = x.y - c.y := by
      rw [div_eq_iff hEne]; linear_combination (-(d.x - c.x)) * h0
    rw [key]; ring

/-- an edge collinear with `ab` that does not touch it does not meet it -/
theorem collinear_free (a b c d : P) (f0 : orient c d a = 0) (f1 : orient c d b = 0)
    (ht : touch a b c d = false) (σ : Rat) (s0 : 0 ≤ σ) (s1 : σ ≤ 1) :
    onSeg c d (lerp a b σ) = false := by
  simp only [touch, Bool.or_eq_false_iff] at ht
  obtain ⟨⟨⟨t1, t2⟩, t3⟩, t4⟩ := ht
  by_contra hon
  have hon : onSeg c d (lerp a b σ) = true := by simpa using hon
  by_cases hcd : c = d
  · -- degenerate edge: the point is `c` itself, which then lies on `ab`
    subst hcd
    have hm : lerp a b σ = c := by
      simp only [onSeg, between, Bool.and_eq_true, Bool.or_eq_true, decide_eq_true_eq, or_self] at hon
      exact pt_ext (le_antisymm hon.1.2.2 hon.1.2.1) (le_antisymm hon.2.2 hon.2.1)
    have := onSeg_lerp a b σ s0 s1
    rw [hm, t1] at this; cases this
  · obtain ⟨α, ha⟩ := rep_collinear c d a hcd f0
    obtain ⟨β, hb⟩ := rep_collinear c d b hcd f1
    have hm : lerp a b σ = lerp c d (α + σ * (β - α)) := by rw [ha, hb, lerp_lerp]
    rw [hm] at hon
    obtain ⟨m0, m1⟩ := param_of_onSeg c d _ hcd hon
    have na : ¬ (0 ≤ α ∧ α ≤ 1) := by
      rintro ⟨x0, x1⟩
      have := onSeg_lerp c d α x0 x1
      rw [← ha, t3] at this; cases this
    have nb : ¬ (0 ≤ β ∧ β ≤ 1) := by
      rintro ⟨x0, x1⟩
      have := onSeg_lerp c d β x0 x1
      rw [← hb, t4] at this; cases this
    -- α and β lie on opposite sides of [0,1]; hence c = lerp a b w with w ∈ (0,1)
    have hne : β - α ≠ 0 := by
      intro h
      have : β = α := by linarith
      rw [this] at m0 m1
      exact na ⟨by nlinarith, by nlinarith⟩
    have key : lerp a b (-α / (β - α)) = c := by
      rw [ha, hb, lerp_lerp]
      have : α + -α / (β - α) * (β - α) = 0 := by field_simp; ring
      rw [this, lerp_zero]
    have wb : 0 ≤ -α / (β - α) ∧ -α / (β - α) ≤ 1 := by
      have e1 : α + σ * (β - α) = (1 - σ) * α + σ * β := by ring
      rw [e1] at m0 m1
      have hσ' : 0 ≤ 1 - σ := by linarith
      rcases lt_or_ge α 0 with hα | hα
      · have hβ : 1 < β := by
          by_contra hc; rw [not_lt] at hc
          have : 0 ≤ β := by
            by_contra hc2; rw [not_le] at hc2
            nlinarith [mul_nonneg hσ' (neg_nonneg.2 hα.le), mul_nonneg s0 (neg_nonneg.2 hc2.le),
              mul_pos_of_neg_of_neg hα hc2]
          exact nb ⟨this, hc⟩
        have hp : 0 < β - α := by linarith
        exact frac_bounds (-α) (β - α) hp (by linarith) (by linarith)
      · have hα1 : 1 < α := by
          by_contra hc; rw [not_lt] at hc; exact na ⟨hα, hc⟩
        have hβ : β < 0 := by
          by_contra hc; rw [not_lt] at hc
          have : β ≤ 1 := by
            by_contra hc2; rw [not_le] at hc2
            nlinarith [mul_nonneg hσ' (by linarith : (0:Rat) ≤ α - 1), mul_nonneg s0 (by linarith : (0:Rat) ≤ β - 1)]
          exact nb ⟨hc, this⟩
        have hp : 0 < α - β := by linarith
        have e : -α / (β - α) = α / (α - β) := by
          rw [neg_div, ← div_neg, neg_sub]
        rw [e]
        exact frac_bounds α (α - β) hp (by linarith) (by linarith)
    have := onSeg_lerp a b _ wb.1 wb.2
    rw [key, t1] at this; cases this

/-- general position of a segment of `L` w.r.t. the contours yields `ColFree` -/
theorem colFree_of_gpLine (ls : List Path) (cs : Contours) (hgp : gpLine ls cs = true)
    (l : Path) (hl : l ∈ ls) (a b : P) (hab : (a, b) ∈ pairs l) : ColFree cs a b := by
  intro r hr e he f0 f1 σ s0 s1
  simp only [gpLine, List.all_eq_true, Bool.not_eq_true'] at hgp
  exact collinear_free a b e.1 e.2 f0 f1 (hgp l hl (a, b) hab r hr e he) σ s0 s1

/-- **Oracle, completeness (general position).** For a segment `ab` of a line in general position
w.r.t. `P` and a parameter `τ ∈ [0,1]` whose point is off the boundary: the point is inside `P`
exactly when `τ` lies in one of the oracle's intervals.  Together with `boundary_param_mem` (the
boundary is met only at the finitely many listed crossing parameters) the oracle's intervals are
`{τ | L(τ) ∈ P}` up to those finitely many parameters. -/
theorem oracle_complete (ls : List Path) (cs : Contours) (hgp : gpLine ls cs = true)
    (l : Path) (hl : l ∈ ls) (a b : P) (hab : (a, b) ∈ pairs l) (τ : Rat)
    (h0 : 0 ≤ τ) (h1 : τ ≤ 1) (hoff : onBoundary cs (pointAt a b τ) = false) :
    inside cs (pointAt a b τ) = true ↔ ∃ iv ∈ oracleSeg cs a b, iv.1 ≤ τ ∧ τ ≤ iv.2 :=
  oracle_complete_col cs a b (colFree_of_gpLine ls cs hgp l hl a b hab) τ h0 h1 hoff

/-- non-vacuity: the hypotheses of `oracle_complete` hold on a concrete case, and both sides of its
equivalence are true there (the segment (0,2)-(6,2) through the square (1/2,1/2)-(9/2,9/2), τ = 1/2) -/
example : gpLine thru sqC = true ∧ onBoundary sqC (pointAt ⟨0, 2⟩ ⟨6, 2⟩ (1/2)) = false ∧
    inside sqC (pointAt ⟨0, 2⟩ ⟨6, 2⟩ (1/2)) = true ∧ ((1/12 : Rat), (3/4 : Rat)) ∈ oracleSeg sqC ⟨0, 2⟩ ⟨6, 2⟩ := by
  decide +kernel

end GeomV.C14
