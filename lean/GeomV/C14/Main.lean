import GeomV.C01.Model
import GeomV.C14.Spec
/-!
Driver for C14.  `geomv_c14 judge` reads `clip <line geom> | <polygonal geom> => ok <MLS>` lines and prints
  OK <class> | DIFF <class> <why> (implementation ≠ model) | SPEC <class> <why> (answer violates Spec).

Model: `GeomV.C01.clip` with the CLIPLINE sweep instantiated by the implementation's own pieces; in
the trivial cases (an empty operand, bounding boxes that do not overlap) the model's answer (no
pieces) is exact.  Spec: the pieces, as undirected chains, are the oracle's maximal inside chains
(vertex by vertex, tolerance 1e-9·extent), the total length agrees to 1e-9 relative, and the result
is empty exactly when the oracle finds no inside interval.
-/
namespace GeomV.C14
open GeomV GeomV.C01

def ptOfBits (p : Pt UInt64) : Option P := do
  let x ← bitsToRat p.x; let y ← bitsToRat p.y; pure ⟨x, y⟩

def pathOfBits (r : List (Pt UInt64)) : Option Path := r.mapM ptOfBits

def linesOf : BGeom → Option Lines
  | .lineString l => do let l ← pathOfBits l; pure (.line l)
  | .multiLineString ls => do let ls ← ls.mapM pathOfBits; pure (.multi ls)
  | _ => none

def operandOf : BGeom → Option Operand
  | .polygon rs => do let rs ← rs.mapM pathOfBits; pure (.poly rs)
  | .multiPolygon ps => do let ps ← ps.mapM (fun rs => rs.mapM pathOfBits); pure (.multi ps)
  | .bounds a b => do let a ← ptOfBits a; let b ← ptOfBits b; pure (.box a b)
  | _ => none

def kindName : Operand → String
  | .poly _ => "PG" | .multi _ => "MPG" | .box _ _ => "B"

/-- robust conversion: numerator and denominator are shifted down together until both fit a binary64 (the crossing
points of figures at scale 2^-400 … 2^-1022 have numerators and denominators far beyond 2^1024) -/
def ratToFloat (q : Rat) : Float :=
  let k := max (Nat.log2 q.num.natAbs) (Nat.log2 q.den)
  if k ≤ 900 then Float.ofInt q.num / Float.ofNat q.den
  else
    let sh := k - 900
    Float.ofInt (q.num / ((2 ^ sh : Nat) : Int)) / Float.ofNat (q.den >>> sh)

/-- length of a path in units of `u` (the division is exact, so tiny and huge figures are measured alike) -/
def pathLenU (u : Rat) (l : Path) : Float :=
  (pairs l).foldl (fun acc (a, b) =>
    let dx := ratToFloat ((b.x - a.x) / u); let dy := ratToFloat ((b.y - a.y) / u)
    acc + Float.sqrt (dx * dx + dy * dy)) 0

def fabs (x : Float) : Float := if x < 0 then -x else x

def extentOf (ls : List Path) (c : Contours) : Rat :=
  match bbox (ls ++ c) with
  | some (mn, mx) => let e := max (mx.x - mn.x) (mx.y - mn.y); if e = 0 then 1 else e
  | none => 1

/-- the extent that the tolerances are relative to: the polygon and the member lines whose box meets the polygon's
(a member far away from a small polygon yields nothing and must not widen the tolerance for the other members) -/
def extentRel (ls : List Path) (c : Contours) : Rat :=
  extentOf (ls.filter fun l => !trivialCase [l] c) c

def judgeClip (L : Lines) (A : Operand) (rhs : Tok) : String :=
  let s := L.paths
  let c := toContours A
  let lk := match L with | .line _ => "LS" | .multi ls => s!"MLS{ls.length}"
  let ok := simplePaths s && Valid A && gpLine s c
  let want := oracleChains c s
  let ncross := (s.flatMap fun l => (pairs l).flatMap fun e => c.flatMap fun r => (edges r).filter fun f => properCross e.1 e.2 f.1 f.2).length
  let cfg :=
    if trivialCase s c then (if s.isEmpty || c.isEmpty then "trivial-empty" else "trivial-boxdisjoint")
    else if ncross = 0 then (if want.isEmpty then "nocross-outside" else "nocross-inside")
    else if s.all (fun l => l.all fun v => inside c v) then "vertices-inside-crossing"
    else if ncross ≤ 4 then "cross-few" else "cross-many"
  let ext := extentOf s c
  let scale := if ext < 1 / 8388608 then "-tiny30" else if ext < 1 / 1024 then "-tiny" else if ext > 32768 then "-huge" else ""
  let long := if s.any (fun l => decide (l.length > 1024)) then "-long" else ""
  let cls := s!"{lk}-{kindName A}-{cfg}{long}{scale}" ++ (if ok then "" else "-outside-quantifier")
  match rhs with
  | "panic" :: m => s!"SPEC {cls} panic {" ".intercalate m}"
  | "mutated" :: _ => s!"SPEC {cls} an-operand-was-modified-by-the-call"
  -- the model's result is a fresh value: a result that shares memory with an operand or whose pieces share
  -- memory differs from the model (not a statement of the property: DIFF)
  | "aliased" :: m => s!"DIFF {cls} result-shares-memory {" ".intercalate m}"
  | "crash" :: m => s!"SPEC {cls} crash {" ".intercalate m}"
  | "timeout" :: m => s!"SPEC {cls} timeout {" ".intercalate m}"
  | "ok" :: rt =>
    match Proto.pGeom 4 rt with
    | some (.multiLineString ps, _) =>
      match ps.mapM pathOfBits with
      | none => s!"SPEC {cls} non-finite-coordinate-in-result"
      | some got =>
        -- the model with the sweep instantiated by the oracle: member by member, in member order
        -- (`clip {line := oracleChains} L A` is `want`: the oracle returns nothing for a member whose
        -- box misses the polygon's, so the member-by-member concatenation is `oracleChains c s`)
        if !ok then
          (if (s.all fun l => trivialCase [l] c) && !got.isEmpty then s!"DIFF {cls} model-differs (model has no piece, implementation {got.length})"
           else s!"OK {cls}")
        else if (want.flatMap pairs) ≠ oracleSegments c s then s!"DIFF {cls} oracle-chains-inconsistent-with-oracleSegments"
        -- the decidable hypothesis of `C14_exact_of_segs` (one side of every boundary crossing is inside)
        else if !closureOK c s then s!"DIFF {cls} closure-hypothesis-of-C14_exact_of_segs-fails"
        else
          -- emptiness, exactly
          if got.isEmpty ≠ oracleEmpty c s then
            s!"SPEC {cls} " ++ (if got.isEmpty then "empty-result-but-the-line-enters-the-polygon" else "non-empty-result-but-the-line-does-not-enter-the-polygon")
          else
            -- length clause: total length against the oracle's inside intervals
            let lw := (want.map (pathLenU (extentRel s c))).foldl (· + ·) 0
            let lg := (got.map (pathLenU (extentRel s c))).foldl (· + ·) 0
            if fabs (lw - lg) > 1e-9 * (lw + 1) then
              s!"SPEC {cls} length-clause total-length/extent want={lw} got={lg} pieces want={want.length} got={got.length}"
            else
              -- not only the vertices: the midpoint of every returned segment lies inside or on P (exact)
              match (got.flatMap pairs).find? (fun e => !insideClosedC c (pointAt e.1 e.2 (1/2))) with
              | some e => s!"SPEC {cls} returned-segment-leaves-the-polygon midpoint-of ({ratToFloat e.1.x},{ratToFloat e.1.y})-({ratToFloat e.2.x},{ratToFloat e.2.y}) is outside P"
              | none =>
                -- the same chains, member by member, as the model predicts?  (implies the same segments)
                match matchChains (extentRel s c) want got with
                | none => s!"OK {cls}"
                | some whyChains =>
                  -- exactly the inside parts: the returned segments are the oracle's segments (undirected
                  -- multiset); how pieces are linked is not part of the property, so a mere difference
                  -- in the chains is a DIFF (implementation ≠ model), not a SPEC
                  match matchChains (extentRel s c) ((want.flatMap pairs).map fun e => [e.1, e.2]) ((got.flatMap pairs).map fun e => [e.1, e.2]) with
                  | some why => s!"SPEC {cls} segments: {why}"
                  | none => s!"DIFF {cls} model-differs: {whyChains}"
    | _ => s!"DIFF {cls} result-is-not-a-MultiLineString"
  | _ => s!"DIFF {cls} bad-answer"

/-- split a token list at the separator `;;` -/
def splitOn2 (t : Tok) : List Tok :=
  let (cur, acc) := t.foldl (fun (st : Tok × List Tok) x => if x = ";;" then ([], st.2 ++ [st.1]) else (st.1 ++ [x], st.2)) ([], [])
  acc ++ [cur]

def parseCase (t : Tok) : Option (Lines × Operand) := do
  let (g, t) ← Proto.pGeom 4 t
  let L ← linesOf g
  let t ← match t with | "|" :: t => some t | _ => none
  let (h, _) ← Proto.pGeom 4 t
  let A ← operandOf h
  pure (L, A)

def judgeLine (line : String) : String :=
  let (lhs, rhs) := splitArrow (tokens line)
  match lhs with
  | "clip" :: t =>
    match parseCase t with
    | some (L, A) => judgeClip L A rhs
    | none => "DIFF parse bad-case-line"
  | "cc" :: t =>
    -- concurrent callers: the answer is the first one that differed from the answer computed alone
    -- (or that answer itself); judged like any other answer, class prefix `conc-`
    match parseCase t with
    | some (L, A) =>
      match (judgeClip L A rhs).splitOn " " with
      | k :: c :: why => " ".intercalate (k :: s!"conc-{c}" :: why)
      | _ => "DIFF conc bad-verdict"
    | none => "DIFF parse bad-case-line"
  | "hclip" :: t =>
    -- a history: the same polygon object, its coordinates changed in place between calls; every
    -- answer is judged against the polygon as it was at that call
    let steps := splitOn2 t
    let answers := splitOn2 rhs
    if rhs.head? == some "panic" then s!"SPEC hist panic {" ".intercalate rhs}"
    else if steps.length ≠ answers.length then s!"DIFF hist {answers.length} answers for {steps.length} calls"
    else
      let vs := (List.zip steps answers).zipIdx.map fun ((st, an), i) =>
        match parseCase st with
        | some (L, A) => (i, judgeClip L A an)
        | none => (i, "DIFF parse bad-case-line")
      match vs.find? fun (_, v) => !v.startsWith "OK" with
      | some (i, v) =>
        match v.splitOn " " with
        | k :: c :: why => s!"{k} hist-{c} call#{i + 1}-of-{steps.length} {" ".intercalate why}"
        | _ => v
      | none => s!"OK hist{steps.length}-" ++ (match vs.getLast? with | some (_, v) => (v.drop 3).toString | none => "")
  | _ => "DIFF parse bad-line"

end GeomV.C14

open GeomV GeomV.C14 in
def main (args : List String) : IO Unit := do
  let out ← IO.getStdout
  match args with
  | ["judge"] => forEachLine fun l => out.putStrLn (judgeLine l)
  | _ => IO.eprintln "usage: geomv_c14 judge"
