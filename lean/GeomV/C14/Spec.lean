import GeomV.C01.Spec
/-!
# C14 specification: `Clip` returns exactly the parts of a line that lie inside the polygon

* `onPaths L p` — `p` lies on the line (string or multi-line string) `L`;
  `insideClosed P p` — `p` lies inside or on the boundary of the polygonal `P` (even–odd rule of C01).
* `ClipLineSpec` — the contract assumed of the external CLIPLINE sweep (hypothesis, never an axiom).
* the exact `Rat` **oracle**: for every segment of `L` the crossing parameters with every edge of `P`,
  the inside/outside status of every sub-interval's midpoint, hence the maximal inside chains.
  `oracleSeg` is what the theorems `oracle_midpoints_inside` / `oracle_endpoints_on_L` are about.

Core Lean only.
-/
namespace GeomV.C14
open GeomV GeomV.C01

abbrev Path := List P

/-- consecutive pairs (a line string has no closing segment) -/
def pairs : List P → List (P × P)
  | a :: b :: r => (a, b) :: pairs (b :: r)
  | _ => []

def onPath (l : Path) (p : P) : Bool := (pairs l).any fun e => onSeg e.1 e.2 p
def onPaths (ls : List Path) (p : P) : Bool := ls.any fun l => onPath l p

/-- inside or on the boundary (over a contour list) -/
def insideClosedC (c : Contours) (p : P) : Bool := inside c p || onBoundary c p

def insideClosed (A : Operand) (p : P) : Bool := member A p || onBoundary A.rings p

/-! ## quantifier -/

/-- a simple open path: at least two vertices, no zero-length segment, adjacent segments meet only
in their common vertex, non-adjacent segments do not meet -/
def simplePath (l : Path) : Bool :=
  let es := pairs l
  decide (2 ≤ l.length) && es.all (fun e => decide (e.1 ≠ e.2)) &&
  -- a path whose abscissae strictly increase is simple (segments occupy disjoint x-ranges); this
  -- keeps the test linear for the lines of thousands of vertices
  (es.all (fun e => decide (e.1.x < e.2.x))) ||
  decide (2 ≤ l.length) && es.all (fun e => decide (e.1 ≠ e.2)) &&
  (idxPairs es).all fun ((i, e), (j, f)) =>
    if j = i + 1 then !onSeg f.1 f.2 e.1 && !onSeg e.1 e.2 f.2
    else !segsMeet e.1 e.2 f.1 f.2

/-- end points of a path -/
def pathEnds (l : Path) : List P :=
  match l.head?, l.getLast? with
  | some a, some b => [a, b]
  | _, _ => []

/-- segments `e` of member `l` and `f` of member `m` are disjoint, or meet in exactly one point that
is an end point of both members (a junction) -/
def contactOK (l m : Path) (e f : P × P) : Bool :=
  !segsMeet e.1 e.2 f.1 f.2 ||
  (!properCross e.1 e.2 f.1 f.2 &&
   [(e.1, e.2), (e.2, e.1)].any fun (v, x) => [(f.1, f.2), (f.2, f.1)].any fun (w, y) =>
     decide (v = w) && decide (v ∈ pathEnds l) && decide (v ∈ pathEnds m) &&
     !onSeg f.1 f.2 x && !onSeg e.1 e.2 y)

/-- every member simple; different members meet at most in common end points (junctions of a
network), their interiors neither cross nor touch -/
def simplePaths (ls : List Path) : Bool :=
  ls.all simplePath &&
  (idxPairs ls).all fun ((_, l), (_, m)) =>
    (pairs l).all fun e => (pairs m).all fun f => contactOK l m e f

/-- no line vertex on the polygon boundary, no polygon vertex on the line (hence no collinear
overlap): every line segment and polygon edge are disjoint or cross properly -/
def gpLine (ls : List Path) (c : Contours) : Bool :=
  ls.all fun l => (pairs l).all fun e => c.all fun r => (edges r).all fun f => !touch e.1 e.2 f.1 f.2

/-! ## contract of the external CLIPLINE sweep -/

/-- For non-empty operands with overlapping boxes, a simple line in general position w.r.t. a valid
polygon: every returned piece is a chain (≥ 2 vertices) and the union of the pieces, as a point set,
is `L ∩ closure(P)`. -/
def ClipLineSpec (line : Contours → Contours → Contours) : Prop :=
  ∀ s c, s ≠ [] → c ≠ [] → overlaps (bbox s) (bbox c) = true →
    simplePaths s = true → validC c = true → gpLine s c = true →
    (∀ piece ∈ line s c, 2 ≤ piece.length) ∧
    ∀ p, onPaths (line s c) p = true ↔ (onPaths s p = true ∧ insideClosedC c p = true)

/-! ## the oracle -/

def pointAt (a b : P) (t : Rat) : P := ⟨a.x + t * (b.x - a.x), a.y + t * (b.y - a.y)⟩

/-- parameter in `(0,1)` at which the segment `ab` crosses the LINE through the edge `cd` (every
point of `ab` on the edge is among these; the extra ones only refine the sub-intervals) -/
def crossParam (a b c d : P) : Option Rat :=
  let f0 := orient c d a; let f1 := orient c d b
  if f0 = f1 then none
  else
    let t := f0 / (f0 - f1)
    if 0 < t ∧ t < 1 then some t else none

def crossParams (cs : Contours) (a b : P) : List Rat :=
  cs.flatMap fun r => (edges r).filterMap fun e => crossParam a b e.1 e.2

/-- consecutive pairs of a parameter list -/
def consec : List Rat → List (Rat × Rat)
  | a :: b :: r => (a, b) :: consec (b :: r)
  | _ => []

/-- the sub-intervals of `[0,1]` between consecutive crossings, each with the status of its midpoint -/
def subIntervals (cs : Contours) (a b : P) : List (Rat × Rat × Bool) :=
  let ts := 0 :: (sortDedup (crossParams cs a b)) ++ [1]
  (consec ts).map fun (t0, t1) => (t0, t1, inside cs (pointAt a b ((t0 + t1) / 2)))

/-- the inside sub-intervals of segment `ab` (defensively restricted to well-formed ones, so that
the two oracle theorems hold by construction) -/
def oracleSeg (cs : Contours) (a b : P) : List (Rat × Rat) :=
  ((subIntervals cs a b).filter fun (t0, t1, f) =>
      f && decide (0 ≤ t0) && decide (t0 ≤ t1) && decide (t1 ≤ 1)).map fun (t0, t1, _) => (t0, t1)

/-- join `x` with the first interval of `acc` when they are adjacent -/
def mergeStep (x : Rat × Rat) (acc : List (Rat × Rat)) : List (Rat × Rat) :=
  match acc with
  | (c, d) :: r => if x.2 = c then (x.1, d) :: r else x :: acc
  | [] => [x]

/-- adjacent intervals merged (in parameter space) -/
def mergeAdj (l : List (Rat × Rat)) : List (Rat × Rat) := l.foldr mergeStep []

/-- the maximal inside intervals of segment `ab` -/
def segIvs (cs : Contours) (a b : P) : List (Rat × Rat) := mergeAdj (oracleSeg cs a b)

/-- the oracle's answer as segments: for every segment of `L` its maximal inside intervals -/
def oracleSegments (cs : Contours) (ls : List Path) : List (P × P) :=
  ls.flatMap fun l => (pairs l).flatMap fun e =>
    (segIvs cs e.1 e.2).map fun iv => (pointAt e.1 e.2 iv.1, pointAt e.1 e.2 iv.2)

/-- maximal inside chains of one path: an interval that starts at parameter 0 continues the chain
that the previous segment left open at parameter 1 -/
def pathChains (cs : Contours) (l : Path) : List Path :=
  let flush (st : List Path × Path) : List Path × Path := if st.2.isEmpty then st else (st.1 ++ [st.2], [])
  let (done, cur) := (pairs l).foldl (fun (st : List Path × Path) (e : P × P) =>
      let ivs := segIvs cs e.1 e.2
      let st := match ivs with
        | (t0, _) :: _ => if t0 = 0 then st else flush st
        | [] => flush st
      ivs.foldl (fun (st : List Path × Path) (iv : Rat × Rat) =>
        let p0 := pointAt e.1 e.2 iv.1; let p1 := pointAt e.1 e.2 iv.2
        let st := if iv.1 = 0 ∧ !st.2.isEmpty then (st.1, st.2 ++ [p1]) else ((flush st).1, [p0, p1])
        if iv.2 = 1 then st else flush st) st) ([], [])
  if cur.isEmpty then done else done ++ [cur]

def oracleChains (cs : Contours) (ls : List Path) : List Path := ls.flatMap (pathChains cs)

/-- the oracle finds no inside interval at all -/
def oracleEmpty (cs : Contours) (ls : List Path) : Bool :=
  ls.all fun l => (pairs l).all fun e => (oracleSeg cs e.1 e.2).isEmpty

/-- every crossing parameter of segment `ab` whose point lies on the boundary of `P` is covered by
(is an end point of) one of the oracle's inside intervals: at a boundary point the line has `P` on at
least one side.  (True for every valid polygon in general position — a proper crossing flips the
even–odd status —; that geometric fact is not proved here, so the predicate is an explicit, decidable
hypothesis of `C14_pointset_of_segs`, evaluated by the judge on every case.) -/
def closureOKSeg (cs : Contours) (a b : P) : Bool :=
  let ivs := oracleSeg cs a b
  (sortDedup (crossParams cs a b)).all fun t =>
    !onBoundary cs (pointAt a b t) || ivs.any fun iv => decide (iv.1 ≤ t) && decide (t ≤ iv.2)

def closureOK (cs : Contours) (ls : List Path) : Bool :=
  ls.all fun l => (pairs l).all fun e => closureOKSeg cs e.1 e.2

/-! ## comparison of the implementation's pieces with the oracle (undirected chains, tolerance) -/

def tol : Rat := 1 / 1000000000

def ptClose (extent : Rat) (p q : P) : Bool :=
  decide ((p.x - q.x) * (p.x - q.x) ≤ tol * tol * extent * extent) &&
  decide ((p.y - q.y) * (p.y - q.y) ≤ tol * tol * extent * extent)

def chainClose (extent : Rat) (a b : Path) : Bool :=
  a.length = b.length && (List.zip a b).all fun (p, q) => ptClose extent p q

def chainMatch (extent : Rat) (a b : Path) : Bool := chainClose extent a b || chainClose extent a b.reverse

/-- remove the first element satisfying `f` -/
def removeFirst {α : Type} (f : α → Bool) : List α → Option (List α)
  | [] => none
  | x :: r => if f x then some r else (removeFirst f r).map (x :: ·)

/-- multiset equality of chains up to direction and tolerance; `none` = equal, `some why` otherwise -/
def matchChains (extent : Rat) (want got : List Path) : Option String :=
  if want.length ≠ got.length then some s!"piece-count want={want.length} got={got.length}"
  else
    let rec go : List Path → List Path → Option String
      | [], _ => none
      | w :: ws, got =>
        match removeFirst (chainMatch extent w) got with
        | some rest => go ws rest
        | none => some s!"no-returned-piece-equals-an-inside-part-of-the-line (part with {w.length} vertices)"
    go want got

end GeomV.C14
