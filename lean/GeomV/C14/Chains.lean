import GeomV.C14.Unify
/-!
# C14: chain linkage — the oracle's chains consist of exactly the oracle's segments

The judge compares the implementation's pieces with `oracleChains` (the model's answer with the sweep instantiated by
the oracle) and the theorems speak about `oracleSegments`.  Until now the judge re-checked per case that the two agree
(`DIFF … oracle-chains-inconsistent-with-oracleSegments`).  Here it is a theorem, for every contour list and every
path (no hypothesis):

* `pathChains_segs` / **`oracleChains_segs`** — `(oracleChains cs ls).flatMap pairs = oracleSegments cs ls`: linking
  the maximal inside intervals of consecutive segments into chains neither loses, adds, reorders nor alters a segment.

Used: the inside intervals of one segment start at strictly increasing parameters `≥ 0` (`segIvs_starts`), so only
the first interval of a segment can start at parameter 0 and continue the chain left open by the previous segment,
whose last vertex is then the common vertex of the two segments.
-/
set_option linter.unusedSimpArgs false
set_option linter.unusedVariables false
namespace GeomV.C14
open GeomV GeomV.C01

/-! ## the intervals of a segment start at strictly increasing parameters -/

abbrev StartsInc (l : List (Rat × Rat)) : Prop := l.Pairwise (fun a b => a.1 < b.1)

theorem consec_fst_mem (l : List Rat) (y : Rat × Rat) (h : y ∈ consec l) : y.1 ∈ l := by
  induction l with
  | nil => simp [consec] at h
  | cons a l ih =>
    cases l with
    | nil => simp [consec] at h
    | cons b r =>
      simp only [consec, List.mem_cons] at h
      rcases h with rfl | h
      · simp
      · exact List.mem_cons_of_mem _ (ih h)

theorem consec_startsInc (l : List Rat) (h : Sorted l) : StartsInc (consec l) := by
  induction l with
  | nil => simp [consec, StartsInc]
  | cons a l ih =>
    cases l with
    | nil => simp [consec, StartsInc]
    | cons b r =>
      have ha : ∀ y ∈ b :: r, a < y := (List.pairwise_cons.1 h).1
      have hr : Sorted (b :: r) := (List.pairwise_cons.1 h).2
      show List.Pairwise _ ((a, b) :: consec (b :: r))
      refine List.pairwise_cons.2 ⟨?_, ih hr⟩
      intro y hy
      exact ha _ (consec_fst_mem _ y hy)

theorem oracleSeg_startsInc (cs : Contours) (a b : P) : StartsInc (oracleSeg cs a b) := by
  have h0 : StartsInc (consec (breaks cs a b)) := consec_startsInc _ (sorted_breaks cs a b)
  unfold oracleSeg subIntervals
  show List.Pairwise _ (List.map _ (List.filter _ (List.map _ (consec (breaks cs a b)))))
  rw [List.pairwise_map]
  apply List.Pairwise.filter
  rw [List.pairwise_map]
  exact h0.imp (fun {x y} hxy => hxy)

theorem mergeStep_starts (x : Rat × Rat) (acc : List (Rat × Rat)) :
    ∀ y ∈ mergeStep x acc, y.1 = x.1 ∨ y ∈ acc := by
  intro y hy
  unfold mergeStep at hy
  cases acc with
  | nil => simp at hy; left; rw [hy]
  | cons c r =>
    obtain ⟨c1, c2⟩ := c
    simp only at hy
    split at hy
    · rcases List.mem_cons.1 hy with rfl | hy
      · left; rfl
      · right; exact List.mem_cons_of_mem _ hy
    · rcases List.mem_cons.1 hy with rfl | hy
      · left; rfl
      · right; exact hy

theorem mergeAdj_starts (l : List (Rat × Rat)) : ∀ y ∈ mergeAdj l, ∃ z ∈ l, y.1 = z.1 := by
  induction l with
  | nil => intro y hy; simp [mergeAdj] at hy
  | cons x l ih =>
    intro y hy
    have hy' : y ∈ mergeStep x (mergeAdj l) := hy
    rcases mergeStep_starts x _ y hy' with h | h
    · exact ⟨x, by simp, h⟩
    · obtain ⟨z, hz, e⟩ := ih y h
      exact ⟨z, List.mem_cons_of_mem _ hz, e⟩

theorem mergeAdj_startsInc (l : List (Rat × Rat)) (h : StartsInc l) : StartsInc (mergeAdj l) := by
  induction l with
  | nil => simp [mergeAdj, StartsInc]
  | cons x l ih =>
    have hx : ∀ y ∈ l, x.1 < y.1 := (List.pairwise_cons.1 h).1
    have hl : StartsInc l := (List.pairwise_cons.1 h).2
    have ihl := ih hl
    have hx' : ∀ y ∈ mergeAdj l, x.1 < y.1 := by
      intro y hy
      obtain ⟨z, hz, e⟩ := mergeAdj_starts l y hy
      rw [e]; exact hx z hz
    show StartsInc (mergeStep x (mergeAdj l))
    unfold mergeStep
    cases hm : mergeAdj l with
    | nil => simp [StartsInc]
    | cons c r =>
      obtain ⟨c1, c2⟩ := c
      rw [hm] at ihl hx'
      simp only
      split
      · refine List.pairwise_cons.2 ⟨?_, (List.pairwise_cons.1 ihl).2⟩
        intro y hy
        exact hx' y (List.mem_cons_of_mem _ hy)
      · exact List.pairwise_cons.2 ⟨hx', ihl⟩

theorem oracleSeg_start_nonneg (cs : Contours) (a b : P) : ∀ iv ∈ oracleSeg cs a b, 0 ≤ iv.1 := by
  intro iv hiv
  simp only [oracleSeg, List.mem_map, List.mem_filter] at hiv
  obtain ⟨⟨t0, t1, f⟩, ⟨_, hf⟩, rfl⟩ := hiv
  simp only [Bool.and_eq_true, decide_eq_true_eq] at hf
  exact hf.1.1.2

/-- the maximal inside intervals of a segment start at strictly increasing parameters, all `≥ 0` -/
theorem segIvs_starts (cs : Contours) (a b : P) :
    StartsInc (segIvs cs a b) ∧ ∀ iv ∈ segIvs cs a b, 0 ≤ iv.1 := by
  refine ⟨mergeAdj_startsInc _ (oracleSeg_startsInc cs a b), ?_⟩
  intro iv hiv
  obtain ⟨z, hz, e⟩ := mergeAdj_starts _ iv hiv
  rw [e]; exact oracleSeg_start_nonneg cs a b z hz

/-- only the first interval of a segment can start at parameter 0 -/
theorem segIvs_tail_pos (cs : Contours) (a b : P) (iv0 : Rat × Rat) (rest : List (Rat × Rat))
    (h : segIvs cs a b = iv0 :: rest) : ∀ iv ∈ rest, iv.1 ≠ 0 := by
  obtain ⟨h1, h2⟩ := segIvs_starts cs a b
  rw [h] at h1 h2
  intro iv hiv
  have := (List.pairwise_cons.1 h1).1 iv hiv
  have h0 := h2 iv0 (by simp)
  exact ne_of_gt (lt_of_le_of_lt h0 this)

/-! ## the chain builder, step by step -/

abbrev St := List Path × Path

def flushSt (st : St) : St := if st.2.isEmpty then st else (st.1 ++ [st.2], [])

def ivStep (e : P × P) (st : St) (iv : Rat × Rat) : St :=
  let p0 := pointAt e.1 e.2 iv.1; let p1 := pointAt e.1 e.2 iv.2
  let st := if iv.1 = 0 ∧ !st.2.isEmpty then (st.1, st.2 ++ [p1]) else ((flushSt st).1, [p0, p1])
  if iv.2 = 1 then st else flushSt st

def segStep (cs : Contours) (st : St) (e : P × P) : St :=
  let ivs := segIvs cs e.1 e.2
  let st := match ivs with
    | (t0, _) :: _ => if t0 = 0 then st else flushSt st
    | [] => flushSt st
  ivs.foldl (ivStep e) st

theorem pathChains_eq (cs : Contours) (l : Path) :
    pathChains cs l =
      (if ((pairs l).foldl (segStep cs) ([], [])).2.isEmpty then ((pairs l).foldl (segStep cs) ([], [])).1
       else ((pairs l).foldl (segStep cs) ([], [])).1 ++ [((pairs l).foldl (segStep cs) ([], [])).2]) := rfl

/-- the segments of a builder state -/
def stSegs (st : St) : List (P × P) := st.1.flatMap pairs ++ pairs st.2

def segOf (e : P × P) (iv : Rat × Rat) : P × P := (pointAt e.1 e.2 iv.1, pointAt e.1 e.2 iv.2)

theorem pairs_append_single (cur : Path) (a p : P) (h : cur.getLast? = some a) :
    pairs (cur ++ [p]) = pairs cur ++ [(a, p)] := by
  induction cur with
  | nil => simp at h
  | cons x t ih =>
    cases t with
    | nil =>
      simp at h
      subst h
      simp [pairs]
    | cons y r =>
      have h' : (y :: r).getLast? = some a := by simpa [List.getLast?_cons_cons] using h
      have := ih h'
      simp only [List.cons_append, pairs] at this ⊢
      rw [this]

theorem getLast_append_single (cur : Path) (p : P) : (cur ++ [p]).getLast? = some p := by simp

theorem flush_segs (st : St) : stSegs (flushSt st) = stSegs st := by
  unfold flushSt stSegs
  split
  · rfl
  · simp [pairs]

theorem flush_cur (st : St) : (flushSt st).2 = [] := by
  unfold flushSt
  split
  · rename_i h; exact List.isEmpty_iff.1 h
  · rfl

theorem pointAt_zero' (a b : P) : pointAt a b 0 = a := by
  cases a; simp [pointAt]

theorem pointAt_one' (a b : P) : pointAt a b 1 = b := by
  cases b; simp [pointAt]

/-- one interval: its segment is appended; a chain left open ends at the segment's end vertex -/
theorem ivStep_spec (e : P × P) (st : St) (iv : Rat × Rat)
    (hA : iv.1 = 0 → st.2 ≠ [] → st.2.getLast? = some e.1) :
    stSegs (ivStep e st iv) = stSegs st ++ [segOf e iv] ∧
    ((ivStep e st iv).2 ≠ [] → (ivStep e st iv).2.getLast? = some e.2) := by
  have key : ∀ st1 : St, (st1 = (if iv.1 = 0 ∧ (!st.2.isEmpty) = true then (st.1, st.2 ++ [pointAt e.1 e.2 iv.2])
        else ((flushSt st).1, [pointAt e.1 e.2 iv.1, pointAt e.1 e.2 iv.2]))) →
      stSegs st1 = stSegs st ++ [segOf e iv] ∧ st1.2.getLast? = some (pointAt e.1 e.2 iv.2) := by
    intro st1 h1
    split at h1
    · rename_i hc
      obtain ⟨h0, hne⟩ := hc
      have hne' : st.2 ≠ [] := by
        intro hcon; rw [hcon] at hne; simp at hne
      have hl := hA h0 hne'
      subst h1
      refine ⟨?_, by simp⟩
      simp only [stSegs, segOf]
      rw [pairs_append_single st.2 e.1 _ hl, h0, pointAt_zero', List.append_assoc]
    · subst h1
      refine ⟨?_, by simp⟩
      have h2 := flush_segs st
      have h3 := flush_cur st
      simp only [stSegs] at h2 ⊢
      rw [h3] at h2
      simp only [pairs, List.append_nil] at h2
      rw [h2]
      simp [pairs, segOf]
  obtain ⟨k1, k2⟩ := key _ rfl
  unfold ivStep
  simp only
  split
  · rename_i h1
    refine ⟨k1, fun _ => ?_⟩
    rw [k2, h1, pointAt_one']
  · refine ⟨by rw [flush_segs]; exact k1, fun hne => ?_⟩
    exact absurd (flush_cur _) hne

theorem fold_rest (e : P × P) (ivs : List (Rat × Rat)) (h : ∀ iv ∈ ivs, iv.1 ≠ 0) (st : St)
    (hI : st.2 ≠ [] → st.2.getLast? = some e.2) :
    stSegs (ivs.foldl (ivStep e) st) = stSegs st ++ ivs.map (segOf e) ∧
    ((ivs.foldl (ivStep e) st).2 ≠ [] → (ivs.foldl (ivStep e) st).2.getLast? = some e.2) := by
  induction ivs generalizing st with
  | nil => simp; exact hI
  | cons iv r ih =>
    have h0 : iv.1 ≠ 0 := h iv (by simp)
    obtain ⟨s1, s2⟩ := ivStep_spec e st iv (fun hz => absurd hz h0)
    obtain ⟨r1, r2⟩ := ih (fun x hx => h x (List.mem_cons_of_mem _ hx)) (ivStep e st iv) s2
    simp only [List.foldl_cons, List.map_cons]
    refine ⟨?_, r2⟩
    rw [r1, s1, List.append_assoc]
    rfl

/-- one segment of the line: the segments of its maximal inside intervals are appended, in order -/
theorem segStep_spec (cs : Contours) (st : St) (e : P × P)
    (hI : st.2 ≠ [] → st.2.getLast? = some e.1) :
    stSegs (segStep cs st e) = stSegs st ++ (segIvs cs e.1 e.2).map (segOf e) ∧
    ((segStep cs st e).2 ≠ [] → (segStep cs st e).2.getLast? = some e.2) := by
  unfold segStep
  cases hivs : segIvs cs e.1 e.2 with
  | nil =>
    simp only [List.foldl_nil, List.map_nil, List.append_nil]
    exact ⟨flush_segs st, fun hne => absurd (flush_cur st) hne⟩
  | cons iv0 rest =>
    obtain ⟨t0, t1⟩ := iv0
    have htail := segIvs_tail_pos cs e.1 e.2 (t0, t1) rest hivs
    simp only [List.foldl_cons, List.map_cons]
    -- the state after the test on the first interval
    have pre : ∀ st0 : St, st0 = (if t0 = 0 then st else flushSt st) →
        stSegs st0 = stSegs st ∧ (st0.2 ≠ [] → st0.2.getLast? = some e.1) := by
      intro st0 h0
      split at h0
      · subst h0; exact ⟨rfl, hI⟩
      · subst h0; exact ⟨flush_segs st, fun hne => absurd (flush_cur st) hne⟩
    obtain ⟨p1, p2⟩ := pre _ rfl
    obtain ⟨s1, s2⟩ := ivStep_spec e (if t0 = 0 then st else flushSt st) (t0, t1) (fun _ => p2)
    obtain ⟨r1, r2⟩ := fold_rest e rest htail _ s2
    refine ⟨?_, r2⟩
    rw [r1, s1, p1, List.append_assoc]
    rfl

theorem fold_path (cs : Contours) (a : P) (r : List P) (st : St)
    (hI : st.2 ≠ [] → st.2.getLast? = some a) :
    stSegs ((pairs (a :: r)).foldl (segStep cs) st) =
      stSegs st ++ (pairs (a :: r)).flatMap fun e => (segIvs cs e.1 e.2).map (segOf e) := by
  induction r generalizing a st with
  | nil => simp [pairs]
  | cons b t ih =>
    obtain ⟨s1, s2⟩ := segStep_spec cs st (a, b) hI
    have := ih b (segStep cs st (a, b)) s2
    simp only [pairs, List.foldl_cons, List.flatMap_cons]
    rw [this, s1, List.append_assoc]

/-- **the chains of one path consist of exactly the oracle's segments of that path, in order** -/
theorem pathChains_segs (cs : Contours) (l : Path) :
    (pathChains cs l).flatMap pairs = (pairs l).flatMap fun e => (segIvs cs e.1 e.2).map (segOf e) := by
  have hfin : ∀ st : St, (if st.2.isEmpty then st.1 else st.1 ++ [st.2]).flatMap pairs = stSegs st := by
    intro st
    unfold stSegs
    split
    · rename_i h
      rw [List.isEmpty_iff.1 h]; simp [pairs]
    · simp
  rw [pathChains_eq, hfin]
  cases l with
  | nil => simp [pairs, stSegs]
  | cons a r =>
    rw [fold_path cs a r ([], []) (fun h => absurd rfl h)]
    simp [stSegs, pairs]

/-- **Chain linkage.**  The oracle's chains (what the judge compares the returned pieces with, member by member)
consist of exactly the oracle's segments (what the theorems speak about): for every contour list and all paths. -/
theorem oracleChains_segs (cs : Contours) (ls : List Path) :
    (oracleChains cs ls).flatMap pairs = oracleSegments cs ls := by
  unfold oracleChains oracleSegments
  induction ls with
  | nil => rfl
  | cons l t ih =>
    simp only [List.flatMap_cons, List.flatMap_append]
    rw [ih, pathChains_segs]
    rfl

end GeomV.C14
