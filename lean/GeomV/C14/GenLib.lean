import GeomV.C01.Model
/-!
# Go constructs used by the regenerated definitions (`Gen.lean`) of C14

`harness/cmd/c14/extract.go` renders `LineString.Clip`, `MultiLineString.Clip`, `Polygon.op`,
`clipperOp`, `Polygon.toPolyClip`, `polyClipToPolygon` and the three `Polygons()` methods from the
Go source of the tree under test into the monad `M = Except Fault`: every Go construct that can
panic (`a[i]`, `a[i] = v`, `a[lo:hi]`, `make(T, n)`) is a faulting operation here, nothing is
totalised.  Slices are modelled as values (`List`); the capacity of a slice is taken to be its
length (`a[lo:hi]` with `hi > len(a)` faults), aliasing between slices is not modelled (the harness
observes it: operands are compared with a snapshot after every call).

Core Lean only.
-/
namespace GeomV.C14.Go
open GeomV GeomV.C01

inductive Fault
  | indexOutOfRange
  | sliceBounds
  | makeLen
deriving Repr, DecidableEq, Inhabited

abbrev M := Except Fault

/-- `*Bounds` -/
structure Box where
  Min : P
  Max : P

/-- `len(l)` -/
def len {α : Type} (l : List α) : Int := l.length

/-- `l[i]` -/
def idx {α : Type} (l : List α) (i : Int) : M α :=
  if 0 ≤ i then
    match l[i.toNat]? with
    | some v => pure v
    | none => throw .indexOutOfRange
  else throw .indexOutOfRange

/-- `l[i] = v` -/
def setIdx {α : Type} (l : List α) (i : Int) (v : α) : M (List α) :=
  if 0 ≤ i ∧ i < l.length then pure (l.set i.toNat v) else throw .indexOutOfRange

/-- `l[i][j] = v` -/
def setIdx2 {α : Type} (l : List (List α)) (i j : Int) (v : α) : M (List (List α)) := do
  let row ← idx l i
  let row ← setIdx row j v
  setIdx l i row

/-- `l[lo:hi]` (capacity = length) -/
def slice {α : Type} (l : List α) (lo hi : Int) : M (List α) :=
  if 0 ≤ lo ∧ lo ≤ hi ∧ hi ≤ l.length then pure ((l.take hi.toNat).drop lo.toNat) else throw .sliceBounds

/-- `make([]T, n)` -/
def make {α : Type} (n : Int) (z : α) : M (List α) :=
  if 0 ≤ n then pure (List.replicate n.toNat z) else throw .makeLen

/-- `make([]T, n, c)` -/
def make3 {α : Type} (n c : Int) (z : α) : M (List α) :=
  if 0 ≤ n ∧ n ≤ c then pure (List.replicate n.toNat z) else throw .makeLen

/-! ### `float64` (finite values): the exact rational value

`math.Max`, `math.Abs` on finite values; `math.Ldexp(x, k)` = `x·2^k` (exact in binary floating point
as long as the result neither overflows nor is subnormal — `clipLine` keeps `|k| ≤ 1021` and the
coordinates below 1); `math.Frexp(m)` returns `(f, e)` with `m = f·2^e`, `1/2 ≤ f < 1` for finite `m > 0`;
only `e` is used.  NaN and ±Inf have no counterpart (the property is about finite coordinates; with a
NaN or Inf coordinate `clipLine` takes the unscaled branch). -/

def fmax (a b : Rat) : Rat := if a < b then b else a

def fabs (a : Rat) : Rat := if a < 0 then -a else a

/-- `math.Ldexp(x, k)` -/
def ldexp (x : Rat) (k : Int) : Rat :=
  if 0 ≤ k then x * ((2 ^ k.toNat : Nat) : Rat) else x / ((2 ^ (-k).toNat : Nat) : Rat)

/-- the exponent returned by `math.Frexp(m)` for a finite `m > 0`: the `e` with `2^(e-1) ≤ m < 2^e` -/
def frexpExp (m : Rat) : Int :=
  if m ≤ 0 then 0 else
    let k : Int := (Nat.log2 m.num.natAbs : Int) - (Nat.log2 m.den : Int)
    if ldexp 1 k ≤ m then k + 1 else k

def forRangeAux {α σ : Type} (body : σ → Int → α → M σ) : List α → Int → σ → M σ
  | [], _, s => pure s
  | x :: xs, i, s => do
    let s ← body s i x
    forRangeAux body xs (i + 1) s

/-- `for i, x := range xs { body }` with the variables assigned in the body as state -/
def forRange {α σ : Type} (xs : List α) (init : σ) (body : σ → Int → α → M σ) : M σ :=
  forRangeAux body xs 0 init

end GeomV.C14.Go
