import GeomV.C14.Unify
import GeomV.C14.Flip
import GeomV.C14.Ties
/-!
# C14: all clauses from ONE contract, stated for the functions regenerated from the Go source

`ClipLineContract` = the segment form of the contract (`ClipLineSegsSpec`) + "every returned chain has
at least two vertices" — exactly what the judge's chain comparison establishes per generated case.
Under it, for simple lines / networks in general position w.r.t. a valid polygon (the closure
hypothesis of `C14_exact_of_segs` is now a theorem: `closureOK_of_valid`, Flip.lean), the functions `Gen.lineString_Clip` / `Gen.multiLineString_Clip` rendered from
linestring.go / multilinestring.go return, without fault, a multi-line string `R` such that

* `⋃ R = L ∩ closure(P)` (title of the property),
* every vertex of `R` lies on `L` and inside or on `P` (clause 1),
* `totalLen R = oracleLength P L` (clause 2),
* `R = []` exactly when no point of `L` lies inside or on `P` (clause 3).
-/
set_option linter.unusedSimpArgs false
set_option linter.unusedVariables false
namespace GeomV.C14
open GeomV GeomV.C01

/-- the contract of the CLIPLINE sweep that the correspondence run checks per case -/
def ClipLineContract (line : Contours → Contours → Contours) : Prop :=
  ClipLineSegsSpec line ∧
  ∀ s c, s ≠ [] → c ≠ [] → overlaps (bbox s) (bbox c) = true →
    simplePaths s = true → validC c = true → gpLine s c = true → ∀ piece ∈ line s c, 2 ≤ piece.length

theorem piece_len_clip (core : ClipCore) (hk : ClipLineContract core.line) (L : Lines) (arg : Operand)
    (hs : simplePaths L.paths = true) (hv : validC (toContours arg) = true)
    (hg : gpLine L.paths (toContours arg) = true) : ∀ piece ∈ clip core L arg, 2 ≤ piece.length := by
  intro piece hp
  rw [C14_glue, List.mem_flatMap] at hp
  obtain ⟨l, hl, hpl⟩ := hp
  by_cases ht : trivialCase [l] (toContours arg) = true
  · simp [ht] at hpl
  · simp only [ht, Bool.false_eq_true, if_false] at hpl
    have hne : toContours arg ≠ [] ∧ overlaps (bbox [l]) (bbox (toContours arg)) = true := by
      simp only [trivialCase, Bool.or_eq_true, not_or, Bool.not_eq_true, Bool.not_eq_eq_eq_not, Bool.not_not,
        Bool.not_false] at ht
      refine ⟨?_, ?_⟩
      · intro e; rw [e] at ht; simp at ht
      · simpa using ht.2
    exact hk.2 [l] (toContours arg) (by simp) hne.1 hne.2 (simplePaths_single _ hs l hl) hv
      (gpLine_single _ _ hg l hl) piece hpl

/-- **C14, clause 1, from the one contract**: every vertex of every returned piece lies on `L` and inside
or on the boundary of `P`. -/
theorem C14_vertices_of_contract (core : ClipCore) (hk : ClipLineContract core.line) (L : Lines) (arg : Operand)
    (hs : simplePaths L.paths = true) (hv : validC (toContours arg) = true)
    (hg : gpLine L.paths (toContours arg) = true) :
    ∀ piece ∈ clip core L arg, ∀ v ∈ piece,
      onPaths L.paths v = true ∧ insideClosedC (toContours arg) v = true := by
  intro piece hp v hvp
  apply (C14_exact_of_segs' core hk.1 L arg hs hv hg v).1
  simp only [onPaths, List.any_eq_true]
  exact ⟨piece, hp, onPath_of_mem piece v (piece_len_clip core hk L arg hs hv hg piece hp) hvp⟩

/-- **C14, clause 3, from the one contract**: no piece exactly when no point of `L` lies inside or on `P`. -/
theorem C14_empty_iff_of_contract (core : ClipCore) (hk : ClipLineContract core.line) (L : Lines) (arg : Operand)
    (hs : simplePaths L.paths = true) (hv : validC (toContours arg) = true)
    (hg : gpLine L.paths (toContours arg) = true) :
    clip core L arg = [] ↔
      ∀ p, ¬ (onPaths L.paths p = true ∧ insideClosedC (toContours arg) p = true) := by
  constructor
  · intro he p hp
    have := (C14_exact_of_segs' core hk.1 L arg hs hv hg p).2 hp
    rw [he] at this; simp [onPaths] at this
  · intro hall
    cases hR : clip core L arg with
    | nil => rfl
    | cons piece rest =>
      exfalso
      have h2 : 2 ≤ piece.length := piece_len_clip core hk L arg hs hv hg piece (by rw [hR]; simp)
      match piece, h2 with
      | a :: b :: t, _ =>
        have hon : onPaths (clip core L arg) a = true := by
          rw [hR]
          simp [onPaths, onPath, pairs, onSeg_left]
        exact hall a ((C14_exact_of_segs' core hk.1 L arg hs hv hg a).1 hon)

/-- **C14 for the functions regenerated from the Go source** (`Gen.lineString_Clip` for a `LineString`
receiver, `Gen.multiLineString_Clip` for a `MultiLineString`): under the one contract on the sweep as `clipLine`
presents it (`scaledCore core`: `core.line` conjugated by the power-of-two scaling of small operands, Scale.lean)
the call returns without fault a multi-line string with all clauses of the property.  No closure hypothesis:
validity and general position suffice (`closureOK_of_valid`). -/
theorem C14_src (core : ClipCore) (hk : ClipLineContract (scaledCore core).line) (L : Lines) (arg : Operand)
    (hs : simplePaths L.paths = true) (hv : validC (toContours arg) = true)
    (hg : gpLine L.paths (toContours arg) = true) :
    ∃ R, (match L with
          | .line l => Gen.lineString_Clip core l arg
          | .multi ls => Gen.multiLineString_Clip core ls arg) = .ok R ∧
      (∀ p, onPaths R p = true ↔ (onPaths L.paths p = true ∧ insideClosedC (toContours arg) p = true)) ∧
      (∀ piece ∈ R, ∀ v ∈ piece, onPaths L.paths v = true ∧ insideClosedC (toContours arg) v = true) ∧
      totalLen R = oracleLength (toContours arg) L.paths ∧
      (R = [] ↔ ∀ p, ¬ (onPaths L.paths p = true ∧ insideClosedC (toContours arg) p = true)) :=
  ⟨clip (scaledCore core) L arg, C14_src_clip core L arg,
    fun p => C14_exact_of_segs' (scaledCore core) hk.1 L arg hs hv hg p,
    C14_vertices_of_contract (scaledCore core) hk L arg hs hv hg,
    C14_length (scaledCore core) hk.1 L arg hs hv hg,
    C14_empty_iff_of_contract (scaledCore core) hk L arg hs hv hg⟩

end GeomV.C14
