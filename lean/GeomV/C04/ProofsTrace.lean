import GeomV.C04.ProofsAfter
/-!
# C04 — the whole life of an iterator (phase 4)

`C04_points_trace`: in the machine that keeps its state across panics (`nextS`), a fresh iterator of a geometry without
nil members returns its `Len()` vertices in storage order on the first `Len()` calls and panics on every one of any
number of further calls — `C04_points` and `C04_points_after_fault` as one statement about one run.
-/
set_option linter.unusedSimpArgs false
set_option linter.unusedVariables false
set_option linter.unusedSectionVars false
namespace GeomV.C04
open GeomV GeomV.C04.Spec
variable {α : Type} [LT α] [DecidableLT α]

/-- the results of `a + b` calls are those of `a` calls followed by those of `b` calls from the state reached -/
theorem callsS_add (g : Geom α) (a b : Nat) (s : ItSt) :
    (callsS g (a + b) s).1 = (callsS g a s).1 ++ (callsS g b (callsS g a s).2).1 := by
  induction a generalizing s with
  | zero => simp [callsS]
  | succ a ih =>
    have : a + 1 + b = (a + b) + 1 := by omega
    rw [this]
    simp only [callsS, List.cons_append]
    rw [ih]

/-- `n` successful calls of the `Except` machine are `n` successful calls of `nextS`, ending in the same state -/
theorem callsS_of_drain (g : Geom α) (n : Nat) (s : ItSt) (vs : List (Pt α)) (h : drain g n s = .ok vs) :
    ∃ s', runN g n s = .ok s' ∧ callsS g n s = (vs.map .ok, s') := by
  induction n generalizing s vs with
  | zero =>
    simp only [drain] at h
    injection h with h; subst h
    exact ⟨s, rfl, rfl⟩
  | succ n ih =>
    simp only [drain, bind, Except.bind] at h
    cases hn : next g s with
    | error e => rw [hn] at h; cases h
    | ok r =>
      obtain ⟨v, s1⟩ := r
      rw [hn] at h
      simp only at h
      cases hd : drain g n s1 with
      | error e => rw [hd] at h; cases h
      | ok vs' =>
        rw [hd] at h
        simp only [pure, Except.pure] at h
        injection h with h; subst h
        obtain ⟨s', hr, hc⟩ := ih s1 vs' hd
        have hag := C04_nextS_next g s
        rw [hn] at hag
        simp only [Agrees] at hag
        refine ⟨s', by simp [runN, hn, hr, bind, Except.bind], ?_⟩
        simp only [callsS, hag, hc, List.map_cons]

/-- **C04_points_trace.** The whole life of an iterator of a geometry without nil members (other than a `Point` / a
`*Bounds` without points), in the machine that keeps its state across panics: the first `Len()` calls return the
vertices in storage order, and each of any number `n` of further calls panics. -/
theorem C04_points_trace (g : Geom α) (h : noNil g = true) (hne : neverEnds g = false) (n : Nat) :
    ∃ s0 errs, init g = .ok s0 ∧ lenG g = .ok (vertices g).length ∧
      (callsS g ((vertices g).length + n) s0).1 = (vertices g).map .ok ++ errs ∧
      errs.length = n ∧ ∀ r ∈ errs, ∃ e, r = .error e := by
  have hg := good g h C04_len
  obtain ⟨s0, hs0, hr0⟩ := hg.2.1
  have hd := drain_of_good g hg (vertices g) s0 hr0
  obtain ⟨s', hrun, hcalls⟩ := callsS_of_drain g _ s0 _ hd
  obtain ⟨s'', hrun', hrel⟩ := runN_of_good g hg (vertices g) s0 hr0
  rw [hrun] at hrun'
  injection hrun' with hss; subst hss
  refine ⟨s0, (callsS g n s').1, hs0, hg.1, ?_, ?_, dead_forever g h hne n s' hrel⟩
  · rw [callsS_add, hcalls]
  · have : ∀ (m : Nat) (s : ItSt), (callsS g m s).1.length = m := by
      intro m
      induction m with
      | zero => intro s; rfl
      | succ m ih => intro s; simp [callsS, ih]
    exact this n s'

end GeomV.C04
