import GeomV.C04.Proofs
/-!
# C04 — outside the hypotheses: nil members, and the first call beyond `Len()`

* **nil members** (`noNil g = false`; nil is not one of the eight types): `Len()` and `Bounds()` panic with a nil
  dereference — and that is the ONLY way they can panic (`C04_len_fault_iff`, `C04_bounds_fault_iff`); so does the
  harness's `pointsOf` (it asks `Len()` first).
* **the call after the last vertex** (`C04_points_exhausted`): after exactly `Len()` calls from a fresh iterator, one
  more call — returns the point again for a `Point`; returns `Min` for a `*Bounds` without points (its closure hands
  out the four stored corners although `Len()` is 0, then panics); panics "out of bounds" for a `*Bounds` with points;
  panics with an index fault for every other type, collections included, whatever their members are.
  (After a panic the Go closure's captured variables may have been advanced half-way; the `Except` model has no state
  after a fault, so nothing is claimed about calls after the first panic.)

All for arbitrary coordinate types (only `<` is used, by `(*Bounds).Len`).
-/
set_option linter.unusedVariables false
set_option linter.unusedSectionVars false
namespace GeomV.C04
open GeomV GeomV.C04.Spec

/-! ## nil members: Len -/
section len
variable {α : Type} [LT α] [DecidableLT α]

mutual
theorem lenG_nil (g : Geom α) (h : noNil g = false) : lenG g = .error .nilDeref := by
  cases g with
  | nil => rfl
  | collection gs => simp only [lenG]; exact lenL_nil gs (by simpa [noNil] using h)
  | point _ => simp [noNil] at h
  | multiPoint _ => simp [noNil] at h
  | lineString _ => simp [noNil] at h
  | multiLineString _ => simp [noNil] at h
  | polygon _ => simp [noNil] at h
  | multiPolygon _ => simp [noNil] at h
  | bounds _ _ => simp [noNil] at h
theorem lenL_nil (gs : List (Geom α)) (h : noNilL gs = false) : lenL gs = .error .nilDeref := by
  cases gs with
  | nil => simp [noNilL] at h
  | cons g gs =>
    cases hg : noNil g with
    | false => simp [lenL, lenG_nil g hg, bind, Except.bind]
    | true =>
      have hgs : noNilL gs = false := by simpa [noNilL, hg] using h
      simp [lenL, C04_len g hg, lenL_nil gs hgs, bind, Except.bind]
end

/-- **C04_len_fault_iff.** `Len()` panics exactly when some member (at any depth) is a nil interface value, and then
with a nil dereference; otherwise it is the number of vertices (`C04_len`). -/
theorem C04_len_fault_iff (g : Geom α) (e : Fault) : lenG g = .error e ↔ (noNil g = false ∧ e = .nilDeref) := by
  cases h : noNil g with
  | true => simp [C04_len g h]
  | false =>
    rw [lenG_nil g h]
    constructor
    · intro h'; injection h' with h'; exact ⟨rfl, h'.symm⟩
    · rintro ⟨_, rfl⟩; rfl

/-- the harness's drain (`n := Len(); it := Points(); n × it()`) of a geometry with a nil member panics in `Len()` -/
theorem C04_pointsOf_nil (g : Geom α) (h : noNil g = false) : pointsOf g = .error .nilDeref := by
  simp [pointsOf, lenG_nil g h, bind, Except.bind]

end len

/-! ## nil members: Bounds -/
section bounds
variable {α : Type} [LE α] [LT α] [Min α] [Max α] [DecidableLE α] [DecidableLT α] [HasInf α]

mutual
theorem boundsG_ok (g : Geom α) (h : noNil g = true) : ∃ b, boundsG g = .ok b := by
  cases g with
  | nil => simp [noNil] at h
  | collection gs => simp only [boundsG]; exact boundsL_ok gs (by simpa [noNil] using h) _
  | point _ => exact ⟨_, rfl⟩
  | multiPoint _ => exact ⟨_, rfl⟩
  | lineString _ => exact ⟨_, rfl⟩
  | multiLineString _ => exact ⟨_, rfl⟩
  | polygon _ => exact ⟨_, rfl⟩
  | multiPolygon _ => exact ⟨_, rfl⟩
  | bounds _ _ => exact ⟨_, rfl⟩
theorem boundsL_ok (gs : List (Geom α)) (h : noNilL gs = true) (b : Box α) : ∃ r, boundsL gs b = .ok r := by
  cases gs with
  | nil => exact ⟨_, rfl⟩
  | cons g gs =>
    simp only [noNilL, Bool.and_eq_true] at h
    obtain ⟨bg, hbg⟩ := boundsG_ok g h.1
    obtain ⟨r, hr⟩ := boundsL_ok gs h.2 (b.extend (some bg))
    exact ⟨r, by simp [boundsL, hbg, hr, bind, Except.bind]⟩
end

mutual
theorem boundsG_nil (g : Geom α) (h : noNil g = false) : boundsG g = .error .nilDeref := by
  cases g with
  | nil => rfl
  | collection gs => simp only [boundsG]; exact boundsL_nil gs (by simpa [noNil] using h) _
  | point _ => simp [noNil] at h
  | multiPoint _ => simp [noNil] at h
  | lineString _ => simp [noNil] at h
  | multiLineString _ => simp [noNil] at h
  | polygon _ => simp [noNil] at h
  | multiPolygon _ => simp [noNil] at h
  | bounds _ _ => simp [noNil] at h
theorem boundsL_nil (gs : List (Geom α)) (h : noNilL gs = false) (b : Box α) : boundsL gs b = .error .nilDeref := by
  cases gs with
  | nil => simp [noNilL] at h
  | cons g gs =>
    cases hg : noNil g with
    | false => simp [boundsL, boundsG_nil g hg, bind, Except.bind]
    | true =>
      have hgs : noNilL gs = false := by simpa [noNilL, hg] using h
      obtain ⟨bg, hbg⟩ := boundsG_ok g hg
      simp [boundsL, hbg, boundsL_nil gs hgs, bind, Except.bind]
end

/-- **C04_bounds_fault_iff.** `Bounds()` panics exactly when some member (at any depth) is a nil interface value, and
then with a nil dereference — for every coordinate type (NaN included: no order law is used). -/
theorem C04_bounds_fault_iff (g : Geom α) (e : Fault) : boundsG g = .error e ↔ (noNil g = false ∧ e = .nilDeref) := by
  cases h : noNil g with
  | true => obtain ⟨b, hb⟩ := boundsG_ok g h; simp [hb]
  | false =>
    rw [boundsG_nil g h]
    constructor
    · intro h'; injection h' with h'; exact ⟨rfl, h'.symm⟩
    · rintro ⟨_, rfl⟩; rfl

end bounds

/-! ## the first call beyond Len() -/
section exhausted
variable {α : Type} [LT α] [DecidableLT α]

theorem runN_of_good (g : Geom α) (hg : Good g) (vs : List (Pt α)) (s : ItSt) (h : Rel g s vs) :
    ∃ s', runN g vs.length s = .ok s' ∧ Rel g s' [] := by
  induction vs generalizing s with
  | nil => exact ⟨s, rfl, h⟩
  | cons v vs ih =>
    obtain ⟨s1, hnx, hr⟩ := hg.2.2 s v vs h
    obtain ⟨s', h1, h2⟩ := ih s1 hr
    exact ⟨s', by simp [runN, hnx, h1, bind, Except.bind], h2⟩

theorem skip3_none {β : Type} (M : List (List (List β))) (i j k : Nat) (h : Z3 M i j []) :
    skip3 i j k M = .error .index := by
  induction M generalizing i j k with
  | nil => rfl
  | cons p prest ih =>
    obtain ⟨cur, hz, hv⟩ := h
    have hcur : cur = [] := by
      cases cur with
      | nil => rfl
      | cons _ _ => simp at hv
    subst hcur
    have hf : flat2 prest = [] := by simpa using hv.symm
    have hz3 : Z3 prest 0 0 [] := by simpa [hf] using Z3_zero prest
    simp only [skip3, skipRings_none _ i j hz]
    exact ih 0 0 (k+1) hz3

theorem skipColl_none (L : List (Geom α)) (hL : ∀ g ∈ L, Good g) (i j : Nat) (p : Option ItSt)
    (hne : L ≠ []) (h : RelHead L i p []) : skipColl i j p L = .error .index := by
  induction L generalizing i j p with
  | nil => exact absurd rfl hne
  | cons g rest ih =>
    obtain ⟨s, rem, hp, hrel, hi, hv⟩ := h
    have hrem : rem = [] := by
      cases rem with
      | nil => rfl
      | cons _ _ => simp at hv
    subst hrem
    have hrest : verticesL rest = [] := by simpa using hv.symm
    have hg := hL g List.mem_cons_self
    rw [skipColl_cons]
    have hi' : i = (vertices g).length := by simpa using hi
    simp only [hg.1, bind, Except.bind, hi', beq_self_eq_true, if_true]
    cases rest with
    | nil => rfl
    | cons g2 rest2 =>
      have hg2 := hL g2 (List.mem_cons_of_mem _ List.mem_cons_self)
      obtain ⟨s0, hs0, hr0⟩ := hg2.2.1
      have hv2 : vertices g2 = [] ∧ verticesL rest2 = [] := by
        simpa [verticesL] using hrest
      simp only [initHead, hs0]
      apply ih (fun g' hg' => hL g' (List.mem_cons_of_mem _ hg')) 0 (j+1) (some s0) (by simp)
      refine ⟨s0, [], rfl, ?_, by simp [hv2.1], by simp [hv2.2]⟩
      simpa [hv2.1] using hr0

/-- what one more call does in a state that owes no vertex any more -/
def BeyondOk (g : Geom α) (s : ItSt) : Prop :=
  match g with
  | .point p => next g s = .ok (p, .pt)
  | .bounds mn mx =>
    if Box.empty (⟨mn, mx⟩ : Box α) then s = .one 0 ∧ next g s = .ok (mn, .one 1)
    else next g s = .error .explicit
  | _ => next g s = .error .index

/-- **C04_points_exhausted.** After exactly `Len()` calls on a fresh iterator of a geometry without nil members
(they all succeed, `C04_points`), the next call: a `Point` returns itself again; a `*Bounds` without points (`Len()`
= 0) returns its stored `Min` corner; a `*Bounds` with points panics "out of bounds"; every other type — collections
included, whatever their members — panics with an index out of range. -/
theorem C04_points_exhausted (g : Geom α) (h : noNil g = true) :
    ∃ s, afterLen g = .ok s ∧ BeyondOk g s := by
  have hg := good g h C04_len
  obtain ⟨s0, hs0, hr0⟩ := hg.2.1
  obtain ⟨s, hrun, hrel⟩ := runN_of_good g hg (vertices g) s0 hr0
  refine ⟨s, by simp [afterLen, hg.1, hs0, hrun, bind, Except.bind], ?_⟩
  cases g with
  | nil => simp [noNil] at h
  | point p =>
    obtain ⟨rfl, _⟩ := hrel
    rfl
  | multiPoint ps =>
    obtain ⟨i, rfl, hv⟩ := hrel
    have : ps[i]? = none := by
      have := List.drop_eq_nil_iff.1 hv.symm
      exact List.getElem?_eq_none this
    simp [BeyondOk, next, idx, this, bind, Except.bind]
  | lineString ps =>
    obtain ⟨i, rfl, hv⟩ := hrel
    have : ps[i]? = none := by
      have := List.drop_eq_nil_iff.1 hv.symm
      exact List.getElem?_eq_none this
    simp [BeyondOk, next, idx, this, bind, Except.bind]
  | multiLineString ls =>
    obtain ⟨i, j, rfl, hz⟩ := hrel
    simp [BeyondOk, next, next2, skip2_eq, skipRings_none _ i j hz, bind, Except.bind]
  | polygon ls =>
    obtain ⟨i, j, rfl, hz⟩ := hrel
    simp [BeyondOk, next, next2, skip2_eq, skipRings_none _ i j hz, bind, Except.bind]
  | multiPolygon mp =>
    obtain ⟨i, j, k, rfl, hz⟩ := hrel
    simp [BeyondOk, next, next3, skip3_none _ i j k hz, bind, Except.bind]
  | bounds mn mx =>
    obtain ⟨i, rfl, hv⟩ := hrel
    simp only [BeyondOk]
    by_cases he : Box.empty (⟨mn, mx⟩ : Box α) = true
    · -- no vertices: Len() = 0, the state is the initial one
      have hlen : (vertices (.bounds mn mx : Geom α)).length = 0 := by
        simp only [Box.empty] at he
        simp [vertices, he]
      simp only [hlen, runN] at hrun
      simp only [init] at hs0
      injection hs0 with hs0; injection hrun with hrun
      subst hs0
      simp only [he, if_true]
      exact ⟨hrun.symm, by rw [← hrun]; rfl⟩
    · have he' : (decide (mx.x < mn.x) || decide (mx.y < mn.y)) = false := by
        simpa [Box.empty] using he
      simp only [he]
      simp only [vertices, he', Bool.false_eq_true, if_false] at hv
      have hi : 4 ≤ i := by
        have := List.drop_eq_nil_iff.1 hv.symm
        simpa using this
      match i, hi with
      | i+4, _ => rfl
  | collection gs =>
    obtain ⟨i, j, p, rfl, hrel⟩ := hrel
    rw [relAt_iff] at hrel
    have hL := goodL gs (by simpa [noNil] using h) C04_len
    simp only [BeyondOk, next]
    cases hd : gs.drop j with
    | nil => simp [skipColl, bind, Except.bind]
    | cons g' rest' =>
      have hL' : ∀ g ∈ gs.drop j, Good g := fun g hg => hL g (List.mem_of_mem_drop hg)
      rw [hd] at hrel hL'
      simp [skipColl_none (g' :: rest') hL' i j p (by simp) hrel, bind, Except.bind]

/-- a `Point`'s iterator never ends: any number of calls returns the point again (so "one more call" above is every
further call for a `Point`) -/
theorem C04_point_forever (p : Pt α) (n : Nat) : drain (.point p : Geom α) n .pt = .ok (List.replicate n p) := by
  induction n with
  | zero => rfl
  | succ n ih => simp [drain, next, ih, bind, Except.bind, pure, Except.pure, List.replicate_succ]

/-- non-vacuity / the `*Bounds`-without-points case is real: `NewBounds()`-like box over `Nat`, `Len()` = 0, yet the
closure returns `Min` -/
example : afterLen (.bounds ⟨5, 5⟩ ⟨0, 0⟩ : Geom Nat) = .ok (.one 0) ∧
    next (.bounds ⟨5, 5⟩ ⟨0, 0⟩ : Geom Nat) (.one 0) = .ok (⟨5, 5⟩, .one 1) := ⟨by rfl, by rfl⟩

example : afterLen (.collection [.point ⟨1, 2⟩, .multiPoint []] : Geom Nat) = .ok (.coll 1 0 (some .pt)) ∧
    next (.collection [.point ⟨1, 2⟩, .multiPoint []] : Geom Nat) (.coll 1 0 (some .pt)) = .error .index := ⟨by rfl, by rfl⟩

end exhausted
end GeomV.C04
