import GeomV.C04.ProofsNaNBox
/-!
# C04 — `*Bounds` members in a geometry with NaN coordinates (phase 4; NaN is outside the property's quantifier)

`C04_nan_envelope` (ProofsNaN.lean) excluded every geometry with a `*Bounds` member.  Here:

* **`C04_nan_bounds_flat_boxes`** — over any coordinates obeying `NLaws`: if every `*Bounds` member is `Empty()` or has
  ordered sides (`min lo hi = lo`, `max lo hi = hi` on both axes — for float64: no NaN side), then `Bounds()` of a
  collection is still the plain `math.Min/Max` fold over all vertices, the member boxes contributing their four corners
  (or nothing when empty), whatever NaN the OTHER members carry;
* **`C04_nan_envelope_boxes`** — hence the envelope clause read with NaN (`IsEnvelopeNaN`) holds for every geometry all of
  whose `*Bounds` members have value sides (`noNaNBoxes`); the judge now applies it there (SPEC) instead of only to
  geometries without any box;
* **`C04_nan_box_member_position`** — for a member box WITH a NaN side no such clause exists: the result depends on the
  member's position (the first non-empty member box is copied, later ones are folded with `math.Min/Max`), shown on
  `GC{B, P}` against `GC{P, B}`.  Those stay correspondence only (DIFF against the model at `NV FKey`).
-/
set_option linter.unusedSimpArgs false
set_option linter.unusedVariables false
set_option linter.unusedSectionVars false
namespace GeomV.C04
open GeomV GeomV.C04.Spec

section flatBoxes
variable {β : Type} [LE β] [LT β] [Min β] [Max β] [DecidableLE β] [DecidableLT β] [HasInf β] [NLaws β]
open NLaws

/-- the sides of the box are ordered on both axes, in terms of `math.Min/Max` -/
def OrdBox (b : Box β) : Prop :=
  min b.mn.x b.mx.x = b.mn.x ∧ max b.mn.x b.mx.x = b.mx.x ∧ min b.mn.y b.mx.y = b.mn.y ∧ max b.mn.y b.mx.y = b.mx.y

mutual
/-- every `*Bounds` member (at any depth) is `Empty()` or has ordered sides -/
def BoxesOrd : Geom β → Prop
  | .bounds mn mx => Box.empty ⟨mn, mx⟩ = true ∨ OrdBox ⟨mn, mx⟩
  | .collection gs => BoxesOrdL gs
  | _ => True
def BoxesOrdL : List (Geom β) → Prop
  | [] => True
  | g :: gs => BoxesOrd g ∧ BoxesOrdL gs
end

theorem minL_nil' : minL ([] : List β) = pinf := rfl
theorem maxL_nil' : maxL ([] : List β) = ninf := rfl
theorem min_pinf_r (a : β) : min a pinf = a := by rw [nmin_comm, min_pinf]
theorem max_ninf_r (a : β) : max a ninf = a := by rw [nmax_comm, max_ninf]

/-- a box with ordered sides is the fold of its four corners -/
theorem ordBox_flat (mn mx : Pt β) (h : OrdBox ⟨mn, mx⟩) :
    (Box.new : Box β).extendPoints [mn, ⟨mx.x, mn.y⟩, mx, ⟨mn.x, mx.y⟩] = ⟨mn, mx⟩ := by
  obtain ⟨h1, h2, h3, h4⟩ := h
  simp only at h1 h2 h3 h4
  have h1' : min mx.x mn.x = mn.x := by rw [nmin_comm]; exact h1
  have h2' : max mx.x mn.x = mx.x := by rw [nmax_comm]; exact h2
  rw [flat_new]
  simp only [List.map_cons, List.map_nil, minL_cons, maxL_cons, minL_nil', maxL_nil', min_pinf_r, max_ninf_r]
  obtain ⟨a, b⟩ := mn
  obtain ⟨c, d⟩ := mx
  simp only at h1 h2 h3 h4 h1' h2'
  simp only [h1', h2', nmin_idem, nmax_idem, h1, h2, h3, h4]

/-- `Extend` by a member box = folding its corners in (none when it is empty) -/
theorem extend_box (T : List (Pt β)) (mn mx : Pt β) (h : Box.empty ⟨mn, mx⟩ = true ∨ OrdBox ⟨mn, mx⟩) :
    ((Box.new : Box β).extendPoints T).extend (some ⟨mn, mx⟩) =
      Box.new.extendPoints (T ++ vertices (.bounds mn mx : Geom β)) := by
  by_cases he : Box.empty (⟨mn, mx⟩ : Box β) = true
  · have hv : vertices (.bounds mn mx : Geom β) = [] := by
      simp only [Box.empty] at he
      simp [vertices, he]
    simp [Box.extend, he, hv]
  · have ho : OrdBox ⟨mn, mx⟩ := h.resolve_left he
    have he' : (decide (mx.x < mn.x) || decide (mx.y < mn.y)) = false := by simpa [Box.empty] using he
    have hv : vertices (.bounds mn mx : Geom β) = [mn, ⟨mx.x, mn.y⟩, mx, ⟨mn.x, mx.y⟩] := by
      simp [vertices, he']
    rw [hv, ← extend_flat, ordBox_flat mn mx ho]

mutual
theorem bounds_flat_boxes (g : Geom β) (h : noNil g = true) (hb : BoxesOrd g) (hnb : isBox g = false) :
    boundsG g = .ok (Box.new.extendPoints (vertices g)) := by
  cases g with
  | nil => simp [noNil] at h
  | bounds mn mx => simp [isBox] at hnb
  | point p => exact bounds_flat _ h rfl
  | multiPoint ps => rfl
  | lineString ps => rfl
  | multiLineString ls => exact bounds_flat _ h rfl
  | polygon rs => exact bounds_flat _ h rfl
  | multiPolygon ps => exact bounds_flat _ h rfl
  | collection gs =>
    have := boundsL_flat_boxes gs (by simpa [noNil] using h) (by simpa [BoxesOrd] using hb) []
    simpa [boundsG, vertices, Box.extendPoints] using this
theorem boundsL_flat_boxes (gs : List (Geom β)) (h : noNilL gs = true) (hb : BoxesOrdL gs) (T : List (Pt β)) :
    boundsL gs (Box.new.extendPoints T) = .ok (Box.new.extendPoints (T ++ verticesL gs)) := by
  cases gs with
  | nil => simp [boundsL, verticesL]
  | cons g gs =>
    simp only [noNilL, Bool.and_eq_true] at h
    simp only [BoxesOrdL] at hb
    by_cases hbx : isBox g = true
    · cases g with
      | bounds mn mx =>
        simp only [boundsL, boundsG, bind, Except.bind, verticesL]
        rw [extend_box T mn mx (by simpa [BoxesOrd] using hb.1), boundsL_flat_boxes gs h.2 hb.2, List.append_assoc]
      | _ => simp [isBox] at hbx
    · simp only [boundsL, bounds_flat_boxes g h.1 hb.1 (by simpa using hbx), bind, Except.bind, verticesL]
      rw [extend_flat, boundsL_flat_boxes gs h.2 hb.2, List.append_assoc]
end

/-- **C04_nan_bounds_flat_boxes.** `C04_nan_bounds_flat` with `*Bounds` members admitted, provided each is `Empty()` or
has ordered sides: `Bounds()` is the plain fold per axis over all vertices, the boxes' corners included. -/
theorem C04_nan_bounds_flat_boxes (g : Geom β) (h : noNil g = true) (hb : BoxesOrd g) (hnb : isBox g = false) :
    boundsG g = .ok ⟨⟨minL ((vertices g).map (·.x)), minL ((vertices g).map (·.y))⟩,
                     ⟨maxL ((vertices g).map (·.x)), maxL ((vertices g).map (·.y))⟩⟩ := by
  rw [bounds_flat_boxes g h hb hnb, flat_new]

end flatBoxes

section nvBoxes
attribute [local instance] infOfBounded
variable {α : Type} [LinearOrder α] [BoundedOrder α]

theorem ordBox_of_vals (mn mx : Pt (NV α))
    (h : (isVal mn.x && isVal mn.y && isVal mx.x && isVal mx.y) = true) :
    Box.empty (⟨mn, mx⟩ : Box (NV α)) = true ∨ @OrdBox (NV α) _ _ ⟨mn, mx⟩ := by
  obtain ⟨a, b⟩ := mn
  obtain ⟨c, d⟩ := mx
  cases a <;> cases b <;> cases c <;> cases d <;> simp [isVal] at h
  rename_i a b c d
  by_cases he : Box.empty (⟨⟨.val a, .val b⟩, ⟨.val c, .val d⟩⟩ : Box (NV α)) = true
  · exact Or.inl he
  · right
    simp only [Box.empty, Bool.or_eq_true, decide_eq_true_eq, not_or, NV.lt_val, not_lt] at he
    simp only [OrdBox, NV.min_val, NV.max_val, min_eq_left he.1, max_eq_right he.1, min_eq_left he.2, max_eq_right he.2,
      and_self]

mutual
theorem boxesOrd_of_noNaN (g : Geom (NV α)) (h : noNaNBoxes g = true) : @BoxesOrd (NV α) _ _ _ _ g := by
  cases g with
  | bounds mn mx => exact ordBox_of_vals mn mx (by simpa [noNaNBoxes] using h)
  | collection gs => simp only [BoxesOrd]; exact boxesOrdL_of_noNaN gs (by simpa [noNaNBoxes] using h)
  | nil => trivial
  | point _ => trivial
  | multiPoint _ => trivial
  | lineString _ => trivial
  | multiLineString _ => trivial
  | polygon _ => trivial
  | multiPolygon _ => trivial
theorem boxesOrdL_of_noNaN (gs : List (Geom (NV α))) (h : noNaNBoxesL gs = true) : @BoxesOrdL (NV α) _ _ _ _ gs := by
  cases gs with
  | nil => trivial
  | cons g gs =>
    simp only [noNaNBoxesL, Bool.and_eq_true] at h
    exact ⟨boxesOrd_of_noNaN g h.1, boxesOrdL_of_noNaN gs h.2⟩
end

/-- **C04_nan_envelope_boxes.** float64 with NaN: for every geometry without nil members all of whose `*Bounds` members
have value sides (the other members may carry any NaN), not itself a `*Bounds`: `Bounds()` does not panic and satisfies
the envelope clause read with NaN — an axis without NaN has non-NaN sides, a non-NaN side is an attained bound of the
non-NaN coordinates of its axis, the member boxes' corners counted among the vertices. -/
theorem C04_nan_envelope_boxes (hne : (⊥ : α) < ⊤) (g : Geom (NV α)) (h : noNil g = true)
    (hb : noNaNBoxes g = true) (hnb : isBox g = false) :
    ∃ b, boundsG g = .ok b ∧ Spec.IsEnvelopeNaN (vertices g) b := by
  have := NV.nlaws (α := α) hne
  exact ⟨_, C04_nan_bounds_flat_boxes g h (boxesOrd_of_noNaN g hb) hnb,
    loSide_minL hne _, loSide_minL hne _, hiSide_maxL hne _, hiSide_maxL hne _⟩

end nvBoxes

/-- **C04_nan_envelope_boxes_exec.** the same for exactly what Main.lean runs (`NV FKey`, core instances spelled out) -/
theorem C04_nan_envelope_boxes_exec (g : Geom (NV FKey)) (h : Spec.noNil g = true) (hb : noNaNBoxes g = true)
    (hnb : isBox g = false) :
    ∃ b, @boundsG (NV FKey) (@NV.instLT FKey FKey.instLT) (@NV.instMin FKey FKey.instMin FKey.instHasInf _)
        (@NV.instMax FKey FKey.instMax FKey.instHasInf _) (@NV.instDecidableLT FKey FKey.instLT FKey.instDecLT)
        (@NV.instHasInf FKey FKey.instHasInf) g = .ok b ∧
      @Spec.isEnvelopeNaNB FKey FKey.instLE FKey.instDecLE _ FKey.instHasInf
        (@Spec.vertices (NV FKey) (@NV.instLT FKey FKey.instLT) (@NV.instDecidableLT FKey FKey.instLT FKey.instDecLT) g) b = true := by
  obtain ⟨b, h1, h2⟩ := C04_nan_envelope_boxes (α := FKey) (by decide) g h hb hnb
  exact ⟨b, h1, (C04_spec_envelopeNaN _ _).2 h2⟩

/-- **C04_nan_box_member_position.** a member box WITH a NaN side: `Bounds()` depends on where the member stands.  An
empty receiver is REPLACED by the first non-empty member box, a non-empty one folds the box's two corners in with
`math.Min/Max` — and then `Min.X` of the box reaches `Max.X` of the result.  `B = (NaN,0)-(3,1)`, `P = (1,0)`:
`GC{B, P}.Bounds()` has `Max.X = math.Max(3, 1) = 3`, `GC{P, B}.Bounds()` has `Max.X = math.Max(math.Max(1, NaN), 3) = NaN`.
(A box that is `Empty()` is skipped wherever it stands.) -/
theorem C04_nan_box_member_position :
    let k (n : Int) (h : -KMAX ≤ n ∧ n ≤ KMAX := by decide) : NV FKey := .val ⟨n, h⟩
    let b : Geom (NV FKey) := .bounds ⟨.nan, k 0⟩ ⟨k 3, k 1⟩
    let e : Geom (NV FKey) := .bounds ⟨.nan, k 1⟩ ⟨k 3, k 0⟩      -- Y inverted: Empty()
    let p : Geom (NV FKey) := .point ⟨k 1, k 0⟩
    boundsG (.collection [b, p]) = .ok ⟨⟨.nan, k 0⟩, ⟨k 3, k 1⟩⟩ ∧
    boundsG (.collection [p, b]) = .ok ⟨⟨.nan, k 0⟩, ⟨.nan, k 1⟩⟩ ∧
    boundsG (.collection [e, p]) = boundsG p ∧ boundsG (.collection [p, e]) = boundsG p := by
  decide +kernel

end GeomV.C04
