import GeomV.C04.After
import GeomV.C04.ProofsMore
/-!
# C04 — an iterator after its first panic (phase 4; unspecified by the property)

* **`C04_nextS_next`** — the machine with a state after a faulting call (`nextS`, After.lean) agrees with the `Except`
  machine the theorems and the regenerated ties are about (`next`): a successful call returns the same vertex and
  leaves the same captured variables; a faulting call faults with the same fault.
* **`C04_points_after_fault`** — for every geometry without nil members: a state that owes no vertex any more (such is
  the state after `Len()` calls of a fresh iterator) makes the call panic and leaves again such a state — so EVERY later
  call panics: an exhausted iterator never hands out a vertex again, however often it is called and recovered.
  The exceptions are exactly the two of `C04_points_exhausted`: a `Point` (returns itself for ever, `C04_point_forever`)
  and a `*Bounds` without points used directly (its closure hands out the four stored corners, then panics for ever:
  `C04_bounds_after_fault`).
-/
set_option linter.unusedSimpArgs false
set_option linter.unusedVariables false
set_option linter.unusedSectionVars false
namespace GeomV.C04
open GeomV GeomV.C04.Spec

variable {α β : Type}

/-- `q` (result, state afterwards) is what `r` says -/
def Agrees (r : Except Fault (Pt α × ItSt)) (q : Except Fault (Pt α) × ItSt) : Prop :=
  match r with
  | .ok (v, s') => q = (.ok v, s')
  | .error e => q.1 = .error e

theorem skip2S_spec (L : List (List β)) (i j : Nat) :
    skip2 i j L = match skip2S i j L with
      | (none, i', j') => .ok (i', j')
      | (some e, _, _) => .error e := by
  induction L generalizing i j with
  | nil => rfl
  | cons r rest ih =>
    simp only [skip2, skip2S]
    split
    · exact ih 0 (j+1)
    · rfl

theorem skip3S_spec (M : List (List (List β))) (i j k : Nat) :
    skip3 i j k M = match skip3S i j k M with
      | (none, i', j', k') => .ok (i', j', k')
      | (some e, _, _, _) => .error e := by
  induction M generalizing i j k with
  | nil => rfl
  | cons p rest ih =>
    simp only [skip3, skip3S]
    cases hs : skipRings i j (p.drop j) with
    | some x => rfl
    | none => exact ih 0 0 (k+1)

section
variable [LT α] [DecidableLT α]

theorem skipCollS_spec (L : List (Geom α)) (i j : Nat) (p : Option ItSt) :
    skipColl i j p L = match skipCollS i j p L with
      | (none, i', j', p') => .ok (i', j', p')
      | (some e, _, _, _) => .error e := by
  induction L generalizing i j p with
  | nil => rfl
  | cons g rest ih =>
    rw [skipColl_cons]
    simp only [skipCollS]
    cases hl : lenG g with
    | error e => simp [bind, Except.bind]
    | ok n =>
      simp only [bind, Except.bind]
      by_cases hi : (i == n) = true
      · simp only [hi, if_true]
        cases hh : initHead rest with
        | error e => simp
        | ok p' => simpa using ih 0 (j+1) (some p')
      · simp [hi, pure, Except.pure]

theorem next2S_agrees (p : List (List (Pt α))) (i j : Nat) : Agrees (next2 p i j) (next2S p i j) := by
  simp only [next2, next2S, skip2S_spec]
  rcases hs : skip2S i j (p.drop j) with ⟨_ | e, i', j'⟩
  · simp only [bind, Except.bind]
    cases h1 : idx p j' with
    | error e => simp [Agrees]
    | ok r =>
      cases h2 : idx r i' with
      | error e => simp [Agrees, h2]
      | ok v => simp [Agrees, h2, pure, Except.pure]
  · simp [Agrees, bind, Except.bind]

theorem next3S_agrees (mp : List (List (List (Pt α)))) (i j k : Nat) : Agrees (next3 mp i j k) (next3S mp i j k) := by
  simp only [next3, next3S, skip3S_spec]
  rcases hs : skip3S i j k (mp.drop k) with ⟨_ | e, i', j', k'⟩
  · simp only [bind, Except.bind]
    cases h0 : idx mp k' with
    | error e => simp [Agrees]
    | ok p =>
      cases h1 : idx p j' with
      | error e => simp [Agrees, h1]
      | ok r =>
        cases h2 : idx r i' with
        | error e => simp [Agrees, h1, h2]
        | ok v => simp [Agrees, h1, h2, pure, Except.pure]
  · simp [Agrees, bind, Except.bind]

mutual
/-- **C04_nextS_next.** one call in the machine that keeps a state after a panic is one call of the `Except` machine -/
theorem C04_nextS_next (g : Geom α) (s : ItSt) : Agrees (next g s) (nextS g s) := by
  cases g with
  | nil => simp [next, nextS, Agrees]
  | point p => cases s <;> simp [next, nextS, Agrees]
  | multiPoint ps =>
    cases s <;> simp only [next, nextS, Agrees]
    rename_i i
    cases h : idx ps i <;> simp [bind, Except.bind, pure, Except.pure]
  | lineString ps =>
    cases s <;> simp only [next, nextS, Agrees]
    rename_i i
    cases h : idx ps i <;> simp [bind, Except.bind, pure, Except.pure]
  | multiLineString ls =>
    cases s <;> simp only [next, nextS, Agrees]
    exact next2S_agrees ls _ _
  | polygon ls =>
    cases s <;> simp only [next, nextS, Agrees]
    exact next2S_agrees ls _ _
  | multiPolygon mp =>
    cases s <;> simp only [next, nextS, Agrees]
    exact next3S_agrees mp _ _ _
  | bounds mn mx =>
    cases s <;> simp only [next, nextS, Agrees]
    rename_i i
    rcases i with _ | _ | _ | _ | i <;> simp [nextB, nextBS]
  | collection gs =>
    cases s <;> simp only [next, nextS, Agrees]
    rename_i i j p
    rw [skipCollS_spec]
    rcases hs : skipCollS i j p (gs.drop j) with ⟨_ | e, i', j', p'⟩
    · simp only [bind, Except.bind]
      cases p' with
      | none => simp
      | some s' =>
        have := nextAtS_nextAt gs j' s'
        simp only [Agrees] at this
        cases hn : nextAt gs j' s' with
        | error e => rw [hn] at this; simp [this, hn]
        | ok r =>
          obtain ⟨v, s''⟩ := r
          rw [hn] at this
          simp [this, hn, pure, Except.pure]
    · simp [bind, Except.bind]
theorem nextAtS_nextAt (gs : List (Geom α)) (j : Nat) (s : ItSt) : Agrees (nextAt gs j s) (nextAtS gs j s) := by
  cases gs with
  | nil => simp [nextAt, nextAtS, Agrees]
  | cons g rest =>
    cases j with
    | zero => simpa [nextAt, nextAtS] using C04_nextS_next g s
    | succ j => simpa [nextAt, nextAtS] using nextAtS_nextAt rest j s
end

/-! ## after the first panic -/

theorem skip2S_none (L : List (List β)) (i j : Nat) (h : Z2 L i []) :
    ∃ i', skip2S i j L = (some .index, i', j + L.length) := by
  induction L generalizing i j with
  | nil => exact ⟨i, rfl⟩
  | cons r rest ih =>
    obtain ⟨hi, he⟩ := h
    have h1 : r.drop i = [] := (List.append_eq_nil_iff.1 he.symm).1
    have h2 : rest.flatten = [] := (List.append_eq_nil_iff.1 he.symm).2
    have : i = r.length := by have := List.drop_eq_nil_iff.1 h1; omega
    obtain ⟨i', hi'⟩ := ih 0 (j+1) (by rw [← h2]; exact Z2_zero rest)
    refine ⟨i', ?_⟩
    simp only [skip2S, this, beq_self_eq_true, if_true, hi', List.length_cons]
    congr 2; omega

theorem skip3S_none (M : List (List (List β))) (i j k : Nat) (h : Z3 M i j []) :
    ∃ i' j', skip3S i j k M = (some .index, i', j', k + M.length) := by
  induction M generalizing i j k with
  | nil => exact ⟨i, j, rfl⟩
  | cons p prest ih =>
    obtain ⟨cur, hz, hv⟩ := h
    have hcur : cur = [] := by
      cases cur with
      | nil => rfl
      | cons _ _ => simp at hv
    subst hcur
    have hf : flat2 prest = [] := by simpa using hv.symm
    have hz3 : Z3 prest 0 0 [] := by simpa [hf] using Z3_zero prest
    obtain ⟨i', j', h'⟩ := ih 0 0 (k+1) hz3
    refine ⟨i', j', ?_⟩
    simp only [skip3S, skipRings_none _ i j hz, h', List.length_cons]
    congr 3; omega

theorem drop_add_length_drop (l : List β) (j : Nat) : l.drop (j + (l.drop j).length) = [] := by
  apply List.drop_of_length_le
  simp only [List.length_drop]; omega

theorem skipCollS_none (L : List (Geom α)) (hL : ∀ g ∈ L, Good g) (i j : Nat) (p : Option ItSt)
    (h : RelHead L i p []) : ∃ i' p', skipCollS i j p L = (some .index, i', j + L.length, p') := by
  induction L generalizing i j p with
  | nil => exact ⟨i, p, rfl⟩
  | cons g rest ih =>
    obtain ⟨s, rem, hp, hrel, hi, hv⟩ := h
    have hrem : rem = [] := by
      cases rem with
      | nil => rfl
      | cons _ _ => simp at hv
    subst hrem
    have hrest : verticesL rest = [] := by simpa using hv.symm
    have hg := hL g List.mem_cons_self
    have hi' : i = (vertices g).length := by simpa using hi
    simp only [skipCollS, hg.1, hi', beq_self_eq_true, if_true]
    cases rest with
    | nil => exact ⟨0, p, rfl⟩
    | cons g2 rest2 =>
      have hg2 := hL g2 (List.mem_cons_of_mem _ List.mem_cons_self)
      obtain ⟨s0, hs0, hr0⟩ := hg2.2.1
      have hv2 : vertices g2 = [] ∧ verticesL rest2 = [] := by
        simpa [verticesL] using hrest
      simp only [initHead, hs0]
      obtain ⟨i', p', h'⟩ := ih (fun g' hg' => hL g' (List.mem_cons_of_mem _ hg')) 0 (j+1) (some s0)
        ⟨s0, [], rfl, by simpa [hv2.1] using hr0, by simp [hv2.1], by simp [hv2.2]⟩
      refine ⟨i', p', ?_⟩
      rw [h']
      simp only [List.length_cons]
      congr 3; omega

/-- the geometries whose exhausted iterator does not panic: a `Point`, and a `*Bounds` without points used directly -/
def neverEnds : Geom α → Bool
  | .point _ => true
  | .bounds mn mx => Box.empty ⟨mn, mx⟩
  | _ => false

/-- one call in a state that owes no vertex: it panics and leaves a state that owes no vertex -/
theorem dead_step (g : Geom α) (h : noNil g = true) (hne : neverEnds g = false) (s : ItSt) (hr : Rel g s []) :
    ∃ e s', nextS g s = (.error e, s') ∧ Rel g s' [] := by
  cases g with
  | nil => simp [noNil] at h
  | point p => simp [neverEnds] at hne
  | multiPoint ps =>
    obtain ⟨i, rfl, hv⟩ := hr
    have hlen := List.drop_eq_nil_iff.1 hv.symm
    have : ps[i]? = none := List.getElem?_eq_none hlen
    exact ⟨.index, .one (i+1), by simp [nextS, idx, this], i+1, rfl, (List.drop_of_length_le (by omega)).symm⟩
  | lineString ps =>
    obtain ⟨i, rfl, hv⟩ := hr
    have hlen := List.drop_eq_nil_iff.1 hv.symm
    have : ps[i]? = none := List.getElem?_eq_none hlen
    exact ⟨.index, .one (i+1), by simp [nextS, idx, this], i+1, rfl, (List.drop_of_length_le (by omega)).symm⟩
  | multiLineString ls =>
    obtain ⟨i, j, rfl, hz⟩ := hr
    obtain ⟨i', hs⟩ := skip2S_none _ i j hz
    refine ⟨.index, .two i' (j + (ls.drop j).length), by simp [nextS, next2S, hs], i', _, rfl, ?_⟩
    rw [drop_add_length_drop]; rfl
  | polygon ls =>
    obtain ⟨i, j, rfl, hz⟩ := hr
    obtain ⟨i', hs⟩ := skip2S_none _ i j hz
    refine ⟨.index, .two i' (j + (ls.drop j).length), by simp [nextS, next2S, hs], i', _, rfl, ?_⟩
    rw [drop_add_length_drop]; rfl
  | multiPolygon mp =>
    obtain ⟨i, j, k, rfl, hz⟩ := hr
    obtain ⟨i', j', hs⟩ := skip3S_none _ i j k hz
    refine ⟨.index, .three i' j' (k + (mp.drop k).length), by simp [nextS, next3S, hs], i', j', _, rfl, ?_⟩
    rw [drop_add_length_drop]; rfl
  | bounds mn mx =>
    obtain ⟨i, rfl, hv⟩ := hr
    have he : (decide (mx.x < mn.x) || decide (mx.y < mn.y)) = false := by simpa [neverEnds, Box.empty] using hne
    simp only [vertices, he, Bool.false_eq_true, if_false] at hv
    have hi : 4 ≤ i := by
      have := List.drop_eq_nil_iff.1 hv.symm
      simpa using this
    refine ⟨.explicit, .one (i+1), ?_, i+1, rfl, ?_⟩
    · match i, hi with
      | i+4, _ => rfl
    · simp only [vertices, he, Bool.false_eq_true, if_false]
      exact (List.drop_of_length_le (by simp; omega)).symm
  | collection gs =>
    obtain ⟨i, j, p, rfl, hrel⟩ := hr
    rw [relAt_iff] at hrel
    have hL := goodL gs (by simpa [noNil] using h) C04_len
    have hL' : ∀ g ∈ gs.drop j, Good g := fun g hg => hL g (List.mem_of_mem_drop hg)
    obtain ⟨i', p', hs⟩ := skipCollS_none (gs.drop j) hL' i j p hrel
    refine ⟨.index, .coll i' (j + (gs.drop j).length) p', by simp [nextS, hs], i', _, p', rfl, ?_⟩
    rw [relAt_iff, drop_add_length_drop]; rfl

/-- every one of `n` calls from a state that owes no vertex panics -/
theorem dead_forever (g : Geom α) (h : noNil g = true) (hne : neverEnds g = false) (n : Nat) (s : ItSt)
    (hr : Rel g s []) : ∀ r ∈ (callsS g n s).1, ∃ e, r = .error e := by
  induction n generalizing s with
  | zero => intro r hr'; simp [callsS] at hr'
  | succ n ih =>
    obtain ⟨e, s', hs, hr'⟩ := dead_step g h hne s hr
    intro r hmem
    simp only [callsS, hs, List.mem_cons] at hmem
    rcases hmem with rfl | hmem
    · exact ⟨e, rfl⟩
    · exact ih s' hr' r hmem

/-- **C04_points_after_fault.** A geometry without nil members, other than a `Point` or a `*Bounds` without points:
after exactly `Len()` calls on a fresh iterator (all successful, `C04_points`) EVERY further call panics, however many
are made — the captured variables a recovered panic leaves behind (`nextS`) never let the closure return a vertex
again. -/
theorem C04_points_after_fault (g : Geom α) (h : noNil g = true) (hne : neverEnds g = false) (n : Nat) :
    ∃ s, afterLen g = .ok s ∧ ∀ r ∈ (callsS g n s).1, ∃ e, r = .error e := by
  have hg := good g h C04_len
  obtain ⟨s0, hs0, hr0⟩ := hg.2.1
  obtain ⟨s, hrun, hrel⟩ := runN_of_good g hg (vertices g) s0 hr0
  exact ⟨s, by simp [afterLen, hg.1, hs0, hrun, bind, Except.bind], dead_forever g h hne n s hrel⟩

/-- **C04_bounds_after_fault.** the closure of a `*Bounds` (with or without points; `Len()` is not consulted) hands out
the four stored corners on its first four calls and panics "out of bounds" on every later one -/
theorem C04_bounds_after_fault (mn mx : Pt α) (n : Nat) :
    (callsS (.bounds mn mx : Geom α) (4 + n) (.one 0)).1 =
      [.ok mn, .ok ⟨mx.x, mn.y⟩, .ok mx, .ok ⟨mn.x, mx.y⟩] ++ List.replicate n (.error .explicit) := by
  have hdead : ∀ n i, 4 ≤ i → (callsS (.bounds mn mx : Geom α) n (.one i)).1 = List.replicate n (.error .explicit) := by
    intro n
    induction n with
    | zero => intro i _; rfl
    | succ n ih =>
      intro i hi
      have : nextS (.bounds mn mx : Geom α) (.one i) = (.error .explicit, .one (i+1)) := by
        match i, hi with
        | i+4, _ => rfl
      simp only [callsS, this, List.replicate_succ, ih (i+1) (by omega)]
  have : 4 + n = n + 1 + 1 + 1 + 1 := by omega
  rw [this]
  simp only [callsS, nextS, nextBS, nextB, hdead n 4 (by omega)]
  rfl

/-- non-vacuity: a polygon with a trailing empty ring, a collection ending in an empty member -/
example : noNil (.polygon [[⟨1, 2⟩], []] : Geom Nat) = true ∧ neverEnds (.polygon [[⟨1, 2⟩], []] : Geom Nat) = false ∧
    afterLen (.polygon [[⟨1, 2⟩], []] : Geom Nat) = .ok (.two 1 0) ∧
    (callsS (.polygon [[⟨1, 2⟩], []] : Geom Nat) 3 (.two 1 0)) =
      ([.error .index, .error .index, .error .index], .two 0 2) := ⟨by rfl, by rfl, by rfl, by rfl⟩

example : (callsS (.collection [.point ⟨1, 2⟩, .multiPoint []] : Geom Nat) 2 (.coll 1 0 (some .pt))) =
      ([.error .index, .error .index], .coll 0 2 (some (.one 0))) := by rfl

end
end GeomV.C04
