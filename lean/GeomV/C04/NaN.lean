import GeomV.C04.Model
/-!
# C04 — coordinates with NaN (outside the property's quantifier; stated for completeness)

`NV α` adds one element `nan` to a coordinate order `α`.  The instances follow Go:

* `<`, `<=` (and `>`, `>=`, which the source writes with the operands swapped) are false when either side is NaN;
* `math.Min(x, y)`: `-Inf` if either is `-Inf`, else NaN if either is NaN, else the smaller value
  (`math.Max` dually with `+Inf`) — the special cases listed in package math, in that order.

`Model.lean` is generic in the instances, so `boundsG`, `lenG`, … run unchanged at `NV FKey`: the driver uses this
for lines with NaN coordinates (correspondence only).  Core Lean only.
-/
namespace GeomV.C04
open GeomV

inductive NV (α : Type) where
  | nan
  | val (a : α)
deriving DecidableEq, Repr, Inhabited

namespace NV
variable {α : Type}

instance [LE α] : LE (NV α) := ⟨fun a b => match a, b with | .val x, .val y => x ≤ y | _, _ => False⟩
instance [LT α] : LT (NV α) := ⟨fun a b => match a, b with | .val x, .val y => x < y | _, _ => False⟩

instance [LE α] [DecidableLE α] : DecidableLE (NV α) := fun a b =>
  match a, b with
  | .val x, .val y => inferInstanceAs (Decidable (x ≤ y))
  | .nan, _ => isFalse (fun h => h)
  | .val _, .nan => isFalse (fun h => h)

instance [LT α] [DecidableLT α] : DecidableLT (NV α) := fun a b =>
  match a, b with
  | .val x, .val y => inferInstanceAs (Decidable (x < y))
  | .nan, _ => isFalse (fun h => h)
  | .val _, .nan => isFalse (fun h => h)

instance [HasInf α] : HasInf (NV α) := ⟨.val pinf, .val ninf⟩

/-- `math.Min` -/
instance instMin [Min α] [HasInf α] [DecidableEq α] : Min (NV α) := ⟨fun a b =>
  if a = .val ninf ∨ b = .val ninf then .val ninf
  else match a, b with
    | .val x, .val y => .val (min x y)
    | _, _ => .nan⟩

/-- `math.Max` -/
instance instMax [Max α] [HasInf α] [DecidableEq α] : Max (NV α) := ⟨fun a b =>
  if a = .val pinf ∨ b = .val pinf then .val pinf
  else match a, b with
    | .val x, .val y => .val (max x y)
    | _, _ => .nan⟩

end NV

/-- a float64 bit pattern as a value or NaN -/
def nvOfBits (u : UInt64) : NV FKey :=
  match keyOfBits u with
  | some k => .val k
  | none => .nan

def ptNV (p : Pt UInt64) : Pt (NV FKey) := ⟨nvOfBits p.x, nvOfBits p.y⟩

mutual
def geomNV : Geom UInt64 → Geom (NV FKey)
  | .point p => .point (ptNV p)
  | .multiPoint ps => .multiPoint (ps.map ptNV)
  | .lineString ps => .lineString (ps.map ptNV)
  | .multiLineString ls => .multiLineString (ls.map (·.map ptNV))
  | .polygon ls => .polygon (ls.map (·.map ptNV))
  | .multiPolygon ps => .multiPolygon (ps.map (·.map (·.map ptNV)))
  | .collection gs => .collection (geomsNV gs)
  | .bounds a b => .bounds (ptNV a) (ptNV b)
  | .nil => .nil
def geomsNV : List (Geom UInt64) → List (Geom (NV FKey))
  | [] => []
  | g :: gs => geomNV g :: geomsNV gs
end

end GeomV.C04
