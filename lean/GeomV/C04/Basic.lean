import GeomV.Common.Geom
/-!
# C04 shared data: boxes over an ordered coordinate type, faults, and the executable coordinate type

Coordinates are elements of an arbitrary type `α` carrying `≤ < min max` and two distinguished
elements `pinf`/`ninf` (`math.Inf(1)`, `math.Inf(-1)`).  The theorems (Proofs.lean) are stated for
every linear order with a least and a greatest element; the driver runs the same definitions at
`FKey`, the order of non-NaN float64 *values* (`-0` and `+0` are one value).  Core Lean only.
-/
namespace GeomV.C04

/-- Go run-time panics that the modelled code can raise -/
inductive Fault
  | index        -- slice index out of range
  | nilDeref     -- method call on a nil interface value
  | nilFunc      -- call of a nil func value
  | explicit     -- `panic("out of bounds")` in `(*Bounds).Points`
  | badState     -- an iterator state of another type (unreachable: closures are typed)
  | fuel         -- a translated `for` loop ran out of its bound (Go has none; proved not to happen)
deriving Repr, DecidableEq, Inhabited

/-- `math.Inf(1)` and `math.Inf(-1)` -/
class HasInf (α : Type) where
  pinf : α
  ninf : α
export HasInf (pinf ninf)

/-- `geom.Bounds{Min, Max}` -/
structure Box (α : Type) where
  mn : Pt α
  mx : Pt α
deriving Repr, DecidableEq, Inhabited

/-! ## float64 values as an order

For non-NaN doubles the IEEE order of *values* is the integer order of the sign-magnitude key
`±(bits mod 2^63)`; both zeros map to `0`; `±Inf` map to `±KMAX`. -/

abbrev KMAX : Int := 0x7ff0000000000000

structure FKey where
  val : Int
  inRange : -KMAX ≤ val ∧ val ≤ KMAX
deriving DecidableEq

instance : Repr FKey := ⟨fun k _ => repr k.val⟩
instance : Inhabited FKey := ⟨⟨0, by decide⟩⟩
instance FKey.instLE : LE FKey := ⟨fun a b => a.val ≤ b.val⟩
instance FKey.instLT : LT FKey := ⟨fun a b => a.val < b.val⟩
instance FKey.instDecLE : DecidableLE FKey := fun a b => inferInstanceAs (Decidable (a.val ≤ b.val))
instance FKey.instDecLT : DecidableLT FKey := fun a b => inferInstanceAs (Decidable (a.val < b.val))
instance FKey.instMin : Min FKey := ⟨fun a b => if a.val ≤ b.val then a else b⟩
instance FKey.instMax : Max FKey := ⟨fun a b => if a.val ≤ b.val then b else a⟩
instance FKey.instHasInf : HasInf FKey := ⟨⟨KMAX, by decide⟩, ⟨-KMAX, by decide⟩⟩

/-- value key of a float64 bit pattern; `none` for NaN -/
def keyOfBits (u : UInt64) : Option FKey :=
  let mag : Nat := u.toNat % 2^63
  if h : mag ≤ 0x7ff0000000000000 then
    if u.toNat < 2^63 then some ⟨(mag : Int), by simp only [KMAX]; constructor <;> omega⟩
    else some ⟨-(mag : Int), by simp only [KMAX]; constructor <;> omega⟩
  else none

def ptKey (p : Pt UInt64) : Option (Pt FKey) := do
  let x ← keyOfBits p.x; let y ← keyOfBits p.y; pure ⟨x, y⟩

def ptsKey : List (Pt UInt64) → Option (List (Pt FKey))
  | [] => some []
  | p :: ps => do let a ← ptKey p; let r ← ptsKey ps; pure (a :: r)

def ptssKey : List (List (Pt UInt64)) → Option (List (List (Pt FKey)))
  | [] => some []
  | p :: ps => do let a ← ptsKey p; let r ← ptssKey ps; pure (a :: r)

def ptsssKey : List (List (List (Pt UInt64))) → Option (List (List (List (Pt FKey))))
  | [] => some []
  | p :: ps => do let a ← ptssKey p; let r ← ptsssKey ps; pure (a :: r)

mutual
/-- the same geometry over float values; `none` when a coordinate is NaN -/
def geomKey : Geom UInt64 → Option (Geom FKey)
  | .point p => do let a ← ptKey p; pure (.point a)
  | .multiPoint ps => do let a ← ptsKey ps; pure (.multiPoint a)
  | .lineString ps => do let a ← ptsKey ps; pure (.lineString a)
  | .multiLineString ls => do let a ← ptssKey ls; pure (.multiLineString a)
  | .polygon ls => do let a ← ptssKey ls; pure (.polygon a)
  | .multiPolygon ps => do let a ← ptsssKey ps; pure (.multiPolygon a)
  | .collection gs => do let a ← geomsKey gs; pure (.collection a)
  | .bounds a b => do let x ← ptKey a; let y ← ptKey b; pure (.bounds x y)
  | .nil => some .nil
def geomsKey : List (Geom UInt64) → Option (List (Geom FKey))
  | [] => some []
  | g :: gs => do let a ← geomKey g; let r ← geomsKey gs; pure (a :: r)
end

end GeomV.C04
