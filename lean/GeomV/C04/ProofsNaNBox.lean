import GeomV.C04.ProofsNaN
/-!
# C04 — box predicates when sides are NaN (phase 4; NaN is outside the property's quantifier)

For the model run at float64-with-NaN (`NV α`, NaN.lean):

* **`C04_nan_overlaps`** — `a.Overlaps(b)` is `true` exactly when NONE of the eight sides is NaN and the two value boxes
  share a point (each of the eight sides occurs in one of the four comparisons, every comparison with NaN is false);
* **`C04_nan_overlaps_ok` / `C04_nan_intersection_ok` / `C04_nan_empty_ok`** — the model's answers satisfy the clauses
  of SpecNaN.lean that every reading of the property demands axis by axis (`OverlapsOkNaN`, `IntersectionOkNaN`,
  `EmptyOkNaN`);
* **`C04_nan_intersection_side`** — a NaN side on an axis makes the result's sides on that axis NaN unless the infinite
  extreme is present (`math.Max(NaN, +Inf) = +Inf`), and then the box is returned (never nil on account of that axis);
* **`C04_spec_boxNaN`** — the decidable forms the judge runs are those clauses.
-/
set_option linter.unusedVariables false
set_option linter.unusedSectionVars false
set_option linter.unusedSimpArgs false
namespace GeomV.C04
open GeomV GeomV.C04.Spec

section nvbox
attribute [local instance] infOfBounded
variable {α : Type} [LinearOrder α] [BoundedOrder α]

/-- a box of values as a box of values-or-NaN -/
def liftBox (b : Box α) : Box (NV α) := ⟨⟨.val b.mn.x, .val b.mn.y⟩, ⟨.val b.mx.x, .val b.mx.y⟩⟩

theorem NV.le_val (x y : α) : (NV.val x ≤ NV.val y) ↔ x ≤ y := Iff.rfl
theorem NV.lt_val (x y : α) : (NV.val x < NV.val y) ↔ x < y := Iff.rfl
theorem NV.not_le_nan_l (y : NV α) : ¬ (NV.nan ≤ y) := fun h => h
theorem NV.not_le_nan_r (x : NV α) : ¬ (x ≤ NV.nan) := by cases x <;> exact fun h => h
theorem NV.not_lt_nan_l (y : NV α) : ¬ (NV.nan < y) := fun h => h
theorem NV.not_lt_nan_r (x : NV α) : ¬ (x < NV.nan) := by cases x <;> exact fun h => h

theorem NV.max_val (x y : α) : max (NV.val x) (NV.val y) = NV.val (max x y) := by
  rw [NV.max_def']
  split_ifs with h
  · rcases h with h | h <;> (injection h with h; subst h; simp)
  · rfl

theorem NV.min_val (x y : α) : min (NV.val x) (NV.val y) = NV.val (min x y) := by
  rw [NV.min_def']
  split_ifs with h
  · rcases h with h | h <;> (injection h with h; subst h; simp)
  · rfl

/-- value boxes: the model at `NV α` on lifted boxes is the model at `α` -/
theorem overlaps_lift (a b : Box α) : (liftBox a).overlaps (liftBox b) = a.overlaps b := by
  simp only [Box.overlaps, Box.empty, liftBox, NV.le_val, NV.lt_val]

theorem sharePoint_iff (a b : Box α) : SharePoint a b ↔
    (a.mn.x ≤ a.mx.x ∧ b.mn.x ≤ b.mx.x ∧ a.mn.x ≤ b.mx.x ∧ b.mn.x ≤ a.mx.x) ∧
    (a.mn.y ≤ a.mx.y ∧ b.mn.y ≤ b.mx.y ∧ a.mn.y ≤ b.mx.y ∧ b.mn.y ≤ a.mx.y) := by
  constructor
  · rintro ⟨p, ⟨h1, h2, h3, h4⟩, ⟨h5, h6, h7, h8⟩⟩
    exact ⟨⟨le_trans h1 h2, le_trans h5 h6, le_trans h1 h6, le_trans h5 h2⟩,
           ⟨le_trans h3 h4, le_trans h7 h8, le_trans h3 h8, le_trans h7 h4⟩⟩
  · rintro ⟨⟨x1, x2, x3, x4⟩, ⟨y1, y2, y3, y4⟩⟩
    refine ⟨⟨max a.mn.x b.mn.x, max a.mn.y b.mn.y⟩, ⟨le_max_left _ _, max_le x1 x4, le_max_left _ _, max_le y1 y4⟩,
      ⟨le_max_right _ _, max_le x3 x2, le_max_right _ _, max_le y3 y2⟩⟩

theorem overlaps_iff_vals (a b : Box α) : a.overlaps b = true ↔
    (a.mn.x ≤ a.mx.x ∧ b.mn.x ≤ b.mx.x ∧ a.mn.x ≤ b.mx.x ∧ b.mn.x ≤ a.mx.x) ∧
    (a.mn.y ≤ a.mx.y ∧ b.mn.y ≤ b.mx.y ∧ a.mn.y ≤ b.mx.y ∧ b.mn.y ≤ a.mx.y) := by
  simp only [Box.overlaps, Box.empty, Bool.and_eq_true, Bool.not_eq_true', Bool.or_eq_false_iff, decide_eq_false_iff_not,
    decide_eq_true_eq, not_lt]
  tauto

/-- **C04_nan_overlaps.** With NaN admitted as a side, `a.Overlaps(b)` is `true` exactly when none of the eight sides is
NaN and the two boxes of values share a point: a box with a NaN side overlaps nothing (not even itself). -/
theorem C04_nan_overlaps (a b : Box (NV α)) :
    a.overlaps b = true ↔ ∃ a' b' : Box α, a = liftBox a' ∧ b = liftBox b' ∧ SharePoint a' b' := by
  constructor
  · intro h
    obtain ⟨⟨ax, ay⟩, ⟨aX, aY⟩⟩ := a
    obtain ⟨⟨bx, by'⟩, ⟨bX, bY⟩⟩ := b
    simp only [Box.overlaps, Box.empty, Bool.and_eq_true, Bool.not_eq_true', Bool.or_eq_false_iff,
      decide_eq_false_iff_not, decide_eq_true_eq] at h
    obtain ⟨⟨⟨⟨⟨hea, heb⟩, h1⟩, h2⟩, h3⟩, h4⟩ := h
    cases ax with
    | nan => exact absurd h1 (NV.not_le_nan_l _)
    | val ax =>
    cases bX with
    | nan => exact absurd h1 (NV.not_le_nan_r _)
    | val bX =>
    cases ay with
    | nan => exact absurd h2 (NV.not_le_nan_l _)
    | val ay =>
    cases bY with
    | nan => exact absurd h2 (NV.not_le_nan_r _)
    | val bY =>
    cases bx with
    | nan => exact absurd h3 (NV.not_le_nan_l _)
    | val bx =>
    cases aX with
    | nan => exact absurd h3 (NV.not_le_nan_r _)
    | val aX =>
    cases by' with
    | nan => exact absurd h4 (NV.not_le_nan_l _)
    | val by' =>
    cases aY with
    | nan => exact absurd h4 (NV.not_le_nan_r _)
    | val aY =>
    refine ⟨⟨⟨ax, ay⟩, ⟨aX, aY⟩⟩, ⟨⟨bx, by'⟩, ⟨bX, bY⟩⟩, rfl, rfl, ?_⟩
    have e1 : ¬ aX < ax := hea.1
    have e2 : ¬ aY < ay := hea.2
    have e3 : ¬ bX < bx := heb.1
    have e4 : ¬ bY < by' := heb.2
    have g1 : ax ≤ bX := h1
    have g2 : ay ≤ bY := h2
    have g3 : bx ≤ aX := h3
    have g4 : by' ≤ aY := h4
    exact (sharePoint_iff _ _).2 ⟨⟨not_lt.1 e1, not_lt.1 e3, g1, g3⟩, ⟨not_lt.1 e2, not_lt.1 e4, g2, g4⟩⟩
  · rintro ⟨a', b', rfl, rfl, hs⟩
    rw [overlaps_lift]
    exact (overlaps_iff_vals _ _).2 ((sharePoint_iff _ _).1 hs)

theorem axisMeet_iff (l1 h1 l2 h2 : α) : AxisMeet l1 h1 l2 h2 ↔ (l1 ≤ h1 ∧ l2 ≤ h2 ∧ l1 ≤ h2 ∧ l2 ≤ h1) := by
  constructor
  · rintro ⟨v, a, b, c, d⟩
    exact ⟨le_trans a b, le_trans c d, le_trans a d, le_trans c b⟩
  · rintro ⟨a, b, c, d⟩
    exact ⟨max l1 l2, le_max_left _ _, max_le a d, le_max_right _ _, max_le c b⟩

/-- **C04_nan_overlaps_ok.** the model's `Overlaps` satisfies the clause every reading demands with NaN sides -/
theorem C04_nan_overlaps_ok (a b : Box (NV α)) : OverlapsOkNaN a b (a.overlaps b) := by
  intro h
  obtain ⟨a', b', rfl, rfl, hs⟩ := (C04_nan_overlaps a b).1 h
  have := (sharePoint_iff _ _).1 hs
  constructor
  · intro l1 h1 l2 h2 e1 e2 e3 e4
    simp only [liftBox] at e1 e2 e3 e4
    injection e1 with e1; injection e2 with e2; injection e3 with e3; injection e4 with e4
    subst e1 e2 e3 e4
    exact (axisMeet_iff _ _ _ _).2 this.1
  · intro l1 h1 l2 h2 e1 e2 e3 e4
    simp only [liftBox] at e1 e2 e3 e4
    injection e1 with e1; injection e2 with e2; injection e3 with e3; injection e4 with e4
    subst e1 e2 e3 e4
    exact (axisMeet_iff _ _ _ _).2 this.2

theorem axisCommon_iff (l1 h1 l2 h2 lo hi : α) :
    AxisCommon l1 h1 l2 h2 lo hi ↔ (lo = max l1 l2 ∧ hi = min h1 h2 ∧ max l1 l2 < min h1 h2) := by
  constructor
  · rintro ⟨hlt, hiff⟩
    have hlo := (hiff lo).1 ⟨le_refl _, le_of_lt hlt⟩
    have hhi := (hiff hi).1 ⟨le_of_lt hlt, le_refl _⟩
    obtain ⟨a1, a2, a3, a4⟩ := hlo
    obtain ⟨b1, b2, b3, b4⟩ := hhi
    have e1 : lo = max l1 l2 := by
      apply le_antisymm
      · exact ((hiff (max l1 l2)).2 ⟨le_max_left _ _, max_le (le_trans a1 a2) (le_trans a3 a2),
          le_max_right _ _, max_le (le_trans a1 a4) (le_trans a3 a4)⟩).1
      · exact max_le a1 a3
    have e2 : hi = min h1 h2 := by
      apply le_antisymm
      · exact le_min b2 b4
      · exact ((hiff (min h1 h2)).2 ⟨le_min (le_trans b1 b2) (le_trans b1 b4), min_le_left _ _,
          le_min (le_trans b3 b2) (le_trans b3 b4), min_le_right _ _⟩).2
    exact ⟨e1, e2, e1 ▸ e2 ▸ hlt⟩
  · rintro ⟨rfl, rfl, hlt⟩
    refine ⟨hlt, fun v => ?_⟩
    simp only [max_le_iff, le_min_iff]
    tauto

theorem intersection_none_or (a b : Box (NV α)) (c : Box (NV α)) (h : a.intersection b = some c) :
    c = ⟨⟨max a.mn.x b.mn.x, max a.mn.y b.mn.y⟩, ⟨min a.mx.x b.mx.x, min a.mx.y b.mx.y⟩⟩ ∧
    ¬ (min a.mx.x b.mx.x ≤ max a.mn.x b.mn.x) ∧ ¬ (min a.mx.y b.mx.y ≤ max a.mn.y b.mn.y) := by
  simp only [Box.intersection] at h
  split_ifs at h with hc
  simp only [Bool.or_eq_true, decide_eq_true_eq, not_or] at hc
  injection h with h
  exact ⟨h.symm, hc.1, hc.2⟩

/-- **C04_nan_intersection_ok.** the model's box–box `Intersection` satisfies the clause every reading demands with NaN
sides: a returned box carries, on every axis all four of whose operand sides are values, exactly the common interval
of the operands, of positive length -/
theorem C04_nan_intersection_ok (a b : Box (NV α)) : IntersectionOkNaN a b (a.intersection b) := by
  intro c hc
  obtain ⟨rfl, hx, hy⟩ := intersection_none_or a b c hc
  constructor
  · intro l1 h1 l2 h2 e1 e2 e3 e4
    rw [e1, e2, e3, e4, NV.max_val, NV.min_val, NV.le_val] at hx
    refine ⟨max l1 l2, min h1 h2, ?_, ?_, (axisCommon_iff _ _ _ _ _ _).2 ⟨rfl, rfl, not_le.1 hx⟩⟩
    · show max a.mn.x b.mn.x = _
      rw [e1, e3, NV.max_val]
    · show min a.mx.x b.mx.x = _
      rw [e2, e4, NV.min_val]
  · intro l1 h1 l2 h2 e1 e2 e3 e4
    rw [e1, e2, e3, e4, NV.max_val, NV.min_val, NV.le_val] at hy
    refine ⟨max l1 l2, min h1 h2, ?_, ?_, (axisCommon_iff _ _ _ _ _ _).2 ⟨rfl, rfl, not_le.1 hy⟩⟩
    · show max a.mn.y b.mn.y = _
      rw [e1, e3, NV.max_val]
    · show min a.mx.y b.mx.y = _
      rw [e2, e4, NV.min_val]

/-- **C04_nan_intersection_side.** a NaN among the two `Min.X` sides makes the result's `Min.X` NaN unless the other is
`+Inf` (`math.Max(NaN, +Inf) = +Inf`); the X axis then never makes the result nil (`>=` with NaN is false): whether a
box comes back is decided by the Y axis alone, and it carries the NaN.  (Same for the other three sides.) -/
theorem C04_nan_intersection_side (a b : Box (NV α)) (hx : a.mn.x = .nan) (hb : b.mn.x ≠ .val ⊤) :
    a.intersection b =
      if min a.mx.y b.mx.y ≤ max a.mn.y b.mn.y then none
      else some ⟨⟨.nan, max a.mn.y b.mn.y⟩, ⟨min a.mx.x b.mx.x, min a.mx.y b.mx.y⟩⟩ := by
  have hm : max a.mn.x b.mn.x = .nan := by
    rw [NV.max_def', hx]
    simp only [reduceCtorEq, false_or]
    rw [if_neg hb]
  simp only [Box.intersection, hm, Bool.or_eq_true, decide_eq_true_eq]
  have : ¬ (min a.mx.x b.mx.x ≤ (NV.nan : NV α)) := NV.not_le_nan_r _
  simp only [this, false_or]

/-- **C04_nan_empty_ok.** the model's `Empty` satisfies the clause every reading demands with NaN sides -/
theorem C04_nan_empty_ok (b : Box (NV α)) : EmptyOkNaN b b.empty := by
  refine ⟨?_, ?_, ?_⟩
  · intro l h e1 e2 hlt
    simp only [Box.empty, e1, e2, Bool.or_eq_true, decide_eq_true_eq]
    exact Or.inl hlt
  · intro l h e1 e2 hlt
    simp only [Box.empty, e1, e2, Bool.or_eq_true, decide_eq_true_eq]
    exact Or.inr hlt
  · intro he
    rintro ⟨lx, hx, ly, hy, e1, e2, e3, e4, h1, h2⟩
    simp only [Box.empty, e1, e2, e3, e4, Bool.or_eq_true, decide_eq_true_eq, NV.lt_val] at he
    rcases he with he | he
    · exact absurd h1 (not_le.2 he)
    · exact absurd h2 (not_le.2 he)

/-- `Empty()` of a box with a NaN side looks at the other axis only -/
theorem C04_nan_empty_nan_axis (b : Box (NV α)) (h : b.mn.x = .nan ∨ b.mx.x = .nan) :
    b.empty = decide (b.mx.y < b.mn.y) := by
  have : ¬ (b.mx.x < b.mn.x) := by
    rcases h with h | h
    · rw [h]; exact NV.not_lt_nan_r _
    · rw [h]; exact NV.not_lt_nan_l _
  simp only [Box.empty, this, decide_false, Bool.false_or]

/-- **C04_extend_self_alias.** `c.Extend(c)` with one pointer on both sides reads its own half-updated `Max`
(`Box.extendSelf`); for every box of values that is the same as extending by a copy — so the aliasing is invisible
inside the property's quantifier … -/
theorem C04_extend_self_alias (b : Box α) : b.extendSelf = b.extend (some b) := by
  unfold Box.extendSelf Box.extend
  by_cases he : b.empty = true
  · simp [he]
  · have he' : b.empty = false := by simpa using he
    simp only [he', Bool.false_eq_true, if_false]
    simp only [Box.empty, Bool.or_eq_false_iff, decide_eq_false_iff_not, not_lt] at he'
    have : b.extendPoint b.mn = b := by
      obtain ⟨⟨ax, ay⟩, ⟨aX, aY⟩⟩ := b
      simp only [Box.extendPoint, min_self, max_eq_left he'.1, max_eq_left he'.2]
    simp only [this]

/-- … and visible with a NaN side: `(-2,+Inf)-(-1,NaN)` extended by itself through the same pointer keeps
`Min.Y = +Inf` (the first step already turned `Max.Y` into `+Inf`), extended by a copy it gets `Min.Y = NaN`. -/
theorem C04_extend_self_alias_nan :
    let k (n : Int) (h : -KMAX ≤ n ∧ n ≤ KMAX := by decide) : NV FKey := .val ⟨n, h⟩
    let b : Box (NV FKey) := ⟨⟨k (-2), k KMAX⟩, ⟨k (-1), .nan⟩⟩
    b.extendSelf = ⟨⟨k (-2), k KMAX⟩, ⟨k (-1), k KMAX⟩⟩ ∧ b.extend (some b) = ⟨⟨k (-2), .nan⟩, ⟨k (-1), k KMAX⟩⟩ := by
  decide +kernel

/-! ## the judge's decidable forms are those clauses -/

theorem axisMeetB_iff (lo1 hi1 lo2 hi2 : NV α) :
    axisMeetB lo1 hi1 lo2 hi2 = true ↔
      ∀ l1 h1 l2 h2, lo1 = .val l1 → hi1 = .val h1 → lo2 = .val l2 → hi2 = .val h2 → AxisMeet l1 h1 l2 h2 := by
  cases lo1 <;> cases hi1 <;> cases lo2 <;> cases hi2 <;>
    simp only [axisMeetB, reduceCtorEq, false_imp_iff, implies_true, NV.val.injEq, Bool.and_eq_true, decide_eq_true_eq]
  rename_i l1 h1 l2 h2
  constructor
  · rintro ⟨⟨⟨a, b⟩, c⟩, d⟩ _ _ _ _ rfl rfl rfl rfl
    exact (axisMeet_iff _ _ _ _).2 ⟨a, b, c, d⟩
  · intro h
    obtain ⟨a, b, c, d⟩ := (axisMeet_iff _ _ _ _).1 (h _ _ _ _ rfl rfl rfl rfl)
    exact ⟨⟨⟨a, b⟩, c⟩, d⟩

theorem axisCommonB_iff (lo1 hi1 lo2 hi2 clo chi : NV α) :
    axisCommonB lo1 hi1 lo2 hi2 clo chi = true ↔
      ∀ l1 h1 l2 h2, lo1 = .val l1 → hi1 = .val h1 → lo2 = .val l2 → hi2 = .val h2 →
        ∃ lo hi, clo = .val lo ∧ chi = .val hi ∧ AxisCommon l1 h1 l2 h2 lo hi := by
  cases lo1 <;> cases hi1 <;> cases lo2 <;> cases hi2 <;>
    simp only [axisCommonB, reduceCtorEq, false_imp_iff, implies_true, NV.val.injEq, Bool.and_eq_true, decide_eq_true_eq]
  rename_i l1 h1 l2 h2
  constructor
  · rintro ⟨⟨a, b⟩, c⟩ _ _ _ _ rfl rfl rfl rfl
    exact ⟨_, _, a, b, (axisCommon_iff _ _ _ _ _ _).2 ⟨rfl, rfl, c⟩⟩
  · intro h
    obtain ⟨lo, hi, a, b, c⟩ := h _ _ _ _ rfl rfl rfl rfl
    obtain ⟨e1, e2, c'⟩ := (axisCommon_iff _ _ _ _ _ _).1 c
    subst e1 e2
    exact ⟨⟨a, b⟩, c'⟩

/-- **C04_spec_boxNaN.** the checks the judge runs on `Overlaps` / `Intersection` / `Empty` answers for boxes with NaN
sides are the clauses of SpecNaN.lean -/
theorem C04_spec_boxNaN (a b : Box (NV α)) :
    (∀ o, overlapsOkNaNB a b o = true ↔ OverlapsOkNaN a b o) ∧
    (∀ r, intersectionOkNaNB a b r = true ↔ IntersectionOkNaN a b r) ∧
    (∀ e, emptyOkNaNB a e = true ↔ EmptyOkNaN a e) := by
  refine ⟨?_, ?_, ?_⟩
  · intro o
    simp only [overlapsOkNaNB, OverlapsOkNaN, Bool.or_eq_true, Bool.not_eq_true', Bool.and_eq_true, axisMeetB_iff]
    cases o <;> simp
  · intro r
    cases r with
    | none => simp [intersectionOkNaNB, IntersectionOkNaN]
    | some c =>
      simp only [intersectionOkNaNB, IntersectionOkNaN, Bool.and_eq_true, axisCommonB_iff, Option.some.injEq]
      constructor
      · rintro h c' rfl; exact h
      · intro h; exact h c rfl
  · intro e
    obtain ⟨⟨ax, ay⟩, ⟨aX, aY⟩⟩ := a
    cases ax <;> cases aX <;> cases ay <;> cases aY <;> cases e <;>
      simp only [emptyOkNaNB, EmptyOkNaN, axisKind, reduceCtorEq, false_imp_iff, implies_true, NV.val.injEq,
        false_and, and_false, exists_false, not_false_eq_true, true_and, and_true, Bool.not_true, Bool.not_false,
        beq_self_eq_true, Bool.or_self, Bool.and_self, Bool.or_false, Bool.false_or, Bool.and_true, Bool.true_and,
        if_true, if_false, Bool.false_eq_true, exists_and_left, exists_eq_left', forall_eq', forall_apply_eq_imp_iff] <;>
      (try (split_ifs <;> simp_all [not_lt, not_le]))

end nvbox

/-- **C04_nan_box_exec.** the three `_ok` theorems for exactly what Main.lean runs (`NV FKey`, core instances): the
judge's decidable checks hold of the model's answers, so a `SPEC …-nan` verdict on a box line is never raised against
an implementation that agrees with the model. -/
theorem C04_nan_box_exec (a b : Box (NV FKey)) :
    overlapsOkNaNB a b (a.overlaps b) = true ∧ intersectionOkNaNB a b (a.intersection b) = true ∧
    emptyOkNaNB a a.empty = true := by
  obtain ⟨h1, h2, h3⟩ := C04_spec_boxNaN (α := FKey) a b
  exact ⟨(h1 _).2 (C04_nan_overlaps_ok a b), (h2 _).2 (C04_nan_intersection_ok a b), (h3 _).2 (C04_nan_empty_ok a)⟩

/-- non-vacuity / witnesses: `[NaN,3]×[0,1]` overlaps nothing, is not `Empty()`, and its intersection with `[0,5]×[0,1]`
is the non-nil box `[NaN,3]×[0,1]` -/
example :
    let k (n : Int) (h : -KMAX ≤ n ∧ n ≤ KMAX := by decide) : NV FKey := .val ⟨n, h⟩
    let a : Box (NV FKey) := ⟨⟨.nan, k 0⟩, ⟨k 3, k 1⟩⟩
    let b : Box (NV FKey) := ⟨⟨k 0, k 0⟩, ⟨k 5, k 1⟩⟩
    a.overlaps b = false ∧ a.overlaps a = false ∧ a.empty = false ∧
    a.intersection b = some ⟨⟨.nan, k 0⟩, ⟨k 3, k 1⟩⟩ := by
  decide +kernel

end GeomV.C04
