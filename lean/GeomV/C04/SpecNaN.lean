import GeomV.C04.NaN
import GeomV.C04.Spec
/-!
# C04 — the envelope clause read with NaN coordinates (specification side; core Lean only)

The property quantifies over "all coordinate values including negative zero and infinities"; NaN is not a value and
no box "contains" a NaN vertex.  What every reading of "tight envelope" still demands, axis by axis (the sides of one
axis depend on the coordinates of that axis only), is stated here without mentioning the Go functions:

* an axis on which NO vertex has a NaN coordinate has non-NaN sides;
* a side that is not NaN is a bound of every non-NaN coordinate of its axis and is ATTAINED by one of them — or the
  axis has no non-NaN coordinate at all and the side is the empty box's (`+Inf` for Min, `-Inf` for Max).

Hence: an axis without NaN carries exactly the envelope of its values (in particular a geometry without NaN gets
`IsEnvelope`), whatever NaN the other axis has; with NaN on the axis the side may be NaN (that is what `math.Min/Max`
give unless the infinite extreme is present, `C04_nan_axis_min/max`) or the tight bound of the non-NaN values, never
anything else.  `isEnvelopeNaNB` is the decidable form the judge runs on the implementation's answer
(`C04_spec_envelopeNaN`: equivalent); `C04_nan_envelope` proves the clause for the model at float64-with-NaN.
-/
namespace GeomV.C04
open GeomV

variable {α : Type}

mutual
/-- no `*Bounds` value anywhere (a hand-written box with a NaN side is not the fold of its corners) -/
def noBoxes : Geom α → Bool
  | .bounds _ _ => false
  | .collection gs => noBoxesL gs
  | _ => true
def noBoxesL : List (Geom α) → Bool
  | [] => true
  | g :: gs => noBoxes g && noBoxesL gs
end

namespace Spec

/-- the Min side `lo` of one axis whose vertex coordinates are `l` -/
def LoSideNaN [LE α] [HasInf α] (l : List (NV α)) (lo : NV α) : Prop :=
  (NV.nan ∉ l → lo ≠ .nan) ∧
  ∀ a, lo = .val a → (∀ v, NV.val v ∈ l → a ≤ v) ∧ (NV.val a ∈ l ∨ ((∀ v, NV.val v ∉ l) ∧ a = pinf))

/-- the Max side `hi` of one axis -/
def HiSideNaN [LE α] [HasInf α] (l : List (NV α)) (hi : NV α) : Prop :=
  (NV.nan ∉ l → hi ≠ .nan) ∧
  ∀ a, hi = .val a → (∀ v, NV.val v ∈ l → v ≤ a) ∧ (NV.val a ∈ l ∨ ((∀ v, NV.val v ∉ l) ∧ a = ninf))

/-- the envelope clause for vertices that may have NaN coordinates, side by side -/
def IsEnvelopeNaN [LE α] [HasInf α] (vs : List (Pt (NV α))) (b : Box (NV α)) : Prop :=
  LoSideNaN (vs.map (·.x)) b.mn.x ∧ LoSideNaN (vs.map (·.y)) b.mn.y ∧
  HiSideNaN (vs.map (·.x)) b.mx.x ∧ HiSideNaN (vs.map (·.y)) b.mx.y

def isVal : NV α → Bool
  | .val _ => true
  | .nan => false

/-- `a ≤ v` for a value, nothing demanded of NaN -/
def belowB [LE α] [DecidableLE α] (a : α) : NV α → Bool
  | .val v => decide (a ≤ v)
  | .nan => true

/-- `v ≤ a` for a value, nothing demanded of NaN -/
def aboveB [LE α] [DecidableLE α] (a : α) : NV α → Bool
  | .val v => decide (v ≤ a)
  | .nan => true

def loSideNaNB [LE α] [DecidableLE α] [DecidableEq α] [HasInf α] (l : List (NV α)) (lo : NV α) : Bool :=
  match lo with
  | .nan => l.contains .nan
  | .val a =>
    l.all (belowB a) &&
    (l.contains (.val a) || (l.all (fun v => !isVal v) && decide (a = pinf)))

def hiSideNaNB [LE α] [DecidableLE α] [DecidableEq α] [HasInf α] (l : List (NV α)) (hi : NV α) : Bool :=
  match hi with
  | .nan => l.contains .nan
  | .val a =>
    l.all (aboveB a) &&
    (l.contains (.val a) || (l.all (fun v => !isVal v) && decide (a = ninf)))

def isEnvelopeNaNB [LE α] [DecidableLE α] [DecidableEq α] [HasInf α] (vs : List (Pt (NV α))) (b : Box (NV α)) : Bool :=
  loSideNaNB (vs.map (·.x)) b.mn.x && loSideNaNB (vs.map (·.y)) b.mn.y &&
  hiSideNaNB (vs.map (·.x)) b.mx.x && hiSideNaNB (vs.map (·.y)) b.mx.y

end Spec
end GeomV.C04
