import GeomV.C04.NaN
import GeomV.C04.Spec
/-!
# C04 — the envelope clause read with NaN coordinates (specification side; core Lean only)

The property quantifies over "all coordinate values including negative zero and infinities"; NaN is not a value and
no box "contains" a NaN vertex.  What every reading of "tight envelope" still demands, axis by axis (the sides of one
axis depend on the coordinates of that axis only), is stated here without mentioning the Go functions:

* an axis on which NO vertex has a NaN coordinate has non-NaN sides;
* a side that is not NaN is a bound of every non-NaN coordinate of its axis and is ATTAINED by one of them — or the
  axis has no non-NaN coordinate at all and the side is the empty box's (`+Inf` for Min, `-Inf` for Max).

Hence: an axis without NaN carries exactly the envelope of its values (in particular a geometry without NaN gets
`IsEnvelope`), whatever NaN the other axis has; with NaN on the axis the side may be NaN (that is what `math.Min/Max`
give unless the infinite extreme is present, `C04_nan_axis_min/max`) or the tight bound of the non-NaN values, never
anything else.  `isEnvelopeNaNB` is the decidable form the judge runs on the implementation's answer
(`C04_spec_envelopeNaN`: equivalent); `C04_nan_envelope` proves the clause for the model at float64-with-NaN.
-/
namespace GeomV.C04
open GeomV

variable {α : Type}

mutual
/-- no `*Bounds` value anywhere (a hand-written box with a NaN side is not the fold of its corners) -/
def noBoxes : Geom α → Bool
  | .bounds _ _ => false
  | .collection gs => noBoxesL gs
  | _ => true
def noBoxesL : List (Geom α) → Bool
  | [] => true
  | g :: gs => noBoxes g && noBoxesL gs
end

namespace Spec

/-- the Min side `lo` of one axis whose vertex coordinates are `l` -/
def LoSideNaN [LE α] [HasInf α] (l : List (NV α)) (lo : NV α) : Prop :=
  (NV.nan ∉ l → lo ≠ .nan) ∧
  ∀ a, lo = .val a → (∀ v, NV.val v ∈ l → a ≤ v) ∧ (NV.val a ∈ l ∨ ((∀ v, NV.val v ∉ l) ∧ a = pinf))

/-- the Max side `hi` of one axis -/
def HiSideNaN [LE α] [HasInf α] (l : List (NV α)) (hi : NV α) : Prop :=
  (NV.nan ∉ l → hi ≠ .nan) ∧
  ∀ a, hi = .val a → (∀ v, NV.val v ∈ l → v ≤ a) ∧ (NV.val a ∈ l ∨ ((∀ v, NV.val v ∉ l) ∧ a = ninf))

/-- the envelope clause for vertices that may have NaN coordinates, side by side -/
def IsEnvelopeNaN [LE α] [HasInf α] (vs : List (Pt (NV α))) (b : Box (NV α)) : Prop :=
  LoSideNaN (vs.map (·.x)) b.mn.x ∧ LoSideNaN (vs.map (·.y)) b.mn.y ∧
  HiSideNaN (vs.map (·.x)) b.mx.x ∧ HiSideNaN (vs.map (·.y)) b.mx.y

def isVal : NV α → Bool
  | .val _ => true
  | .nan => false

/-- `a ≤ v` for a value, nothing demanded of NaN -/
def belowB [LE α] [DecidableLE α] (a : α) : NV α → Bool
  | .val v => decide (a ≤ v)
  | .nan => true

/-- `v ≤ a` for a value, nothing demanded of NaN -/
def aboveB [LE α] [DecidableLE α] (a : α) : NV α → Bool
  | .val v => decide (v ≤ a)
  | .nan => true

def loSideNaNB [LE α] [DecidableLE α] [DecidableEq α] [HasInf α] (l : List (NV α)) (lo : NV α) : Bool :=
  match lo with
  | .nan => l.contains .nan
  | .val a =>
    l.all (belowB a) &&
    (l.contains (.val a) || (l.all (fun v => !isVal v) && decide (a = pinf)))

def hiSideNaNB [LE α] [DecidableLE α] [DecidableEq α] [HasInf α] (l : List (NV α)) (hi : NV α) : Bool :=
  match hi with
  | .nan => l.contains .nan
  | .val a =>
    l.all (aboveB a) &&
    (l.contains (.val a) || (l.all (fun v => !isVal v) && decide (a = ninf)))

def isEnvelopeNaNB [LE α] [DecidableLE α] [DecidableEq α] [HasInf α] (vs : List (Pt (NV α))) (b : Box (NV α)) : Bool :=
  loSideNaNB (vs.map (·.x)) b.mn.x && loSideNaNB (vs.map (·.y)) b.mn.y &&
  hiSideNaNB (vs.map (·.x)) b.mx.x && hiSideNaNB (vs.map (·.y)) b.mx.y

/-! ## box predicates with NaN sides (phase 4)

The sides of a hand-written box may be NaN; whether such a box "has points" is not decided by the property (no point
lies in it as a set, yet `Max < Min` is false).  What EVERY reading still demands is stated axis by axis, for an axis
all four of whose sides (two boxes) are values:

* `Overlaps` may answer `true` only if the two closed intervals of that axis share a value (an axis without NaN on
  which the boxes are separated, or on which one of them is inverted, forces `false` whatever the other axis holds);
* a non-nil `Intersection` has, on that axis, exactly the common interval of the operands, of positive length
  (nil is never wrong for operands with a NaN side: under the reading "no point lies in such a box" there is no area);
* `Empty` must be `true` if an axis without NaN is inverted, and may be `true` only if some axis is inverted or has NaN.
-/

/-- the closed intervals `[l1,h1]`, `[l2,h2]` share a value -/
def AxisMeet [LE α] (l1 h1 l2 h2 : α) : Prop := ∃ v, l1 ≤ v ∧ v ≤ h1 ∧ l2 ≤ v ∧ v ≤ h2

/-- `[lo,hi]` is exactly the common part of `[l1,h1]` and `[l2,h2]` and has positive length -/
def AxisCommon [LE α] [LT α] (l1 h1 l2 h2 lo hi : α) : Prop :=
  lo < hi ∧ ∀ v, (lo ≤ v ∧ v ≤ hi) ↔ (l1 ≤ v ∧ v ≤ h1 ∧ l2 ≤ v ∧ v ≤ h2)

/-- the Overlaps clause with NaN sides: `o` is the answer of `a.Overlaps(b)` -/
def OverlapsOkNaN [LE α] (a b : Box (NV α)) (o : Bool) : Prop :=
  o = true →
    (∀ l1 h1 l2 h2, a.mn.x = .val l1 → a.mx.x = .val h1 → b.mn.x = .val l2 → b.mx.x = .val h2 → AxisMeet l1 h1 l2 h2) ∧
    (∀ l1 h1 l2 h2, a.mn.y = .val l1 → a.mx.y = .val h1 → b.mn.y = .val l2 → b.mx.y = .val h2 → AxisMeet l1 h1 l2 h2)

/-- the Intersection clause with NaN sides: `r` is the answer of `a.Intersection(b)` (`none` = nil) -/
def IntersectionOkNaN [LE α] [LT α] (a b : Box (NV α)) (r : Option (Box (NV α))) : Prop :=
  ∀ c, r = some c →
    (∀ l1 h1 l2 h2, a.mn.x = .val l1 → a.mx.x = .val h1 → b.mn.x = .val l2 → b.mx.x = .val h2 →
      ∃ lo hi, c.mn.x = .val lo ∧ c.mx.x = .val hi ∧ AxisCommon l1 h1 l2 h2 lo hi) ∧
    (∀ l1 h1 l2 h2, a.mn.y = .val l1 → a.mx.y = .val h1 → b.mn.y = .val l2 → b.mx.y = .val h2 →
      ∃ lo hi, c.mn.y = .val lo ∧ c.mx.y = .val hi ∧ AxisCommon l1 h1 l2 h2 lo hi)

/-- the Empty clause with NaN sides: `e` is the answer of `b.Empty()` -/
def EmptyOkNaN [LE α] [LT α] (b : Box (NV α)) (e : Bool) : Prop :=
  (∀ l h, b.mn.x = .val l → b.mx.x = .val h → h < l → e = true) ∧
  (∀ l h, b.mn.y = .val l → b.mx.y = .val h → h < l → e = true) ∧
  (e = true → ¬ ∃ lx hx ly hy, b.mn.x = .val lx ∧ b.mx.x = .val hx ∧ b.mn.y = .val ly ∧ b.mx.y = .val hy ∧ lx ≤ hx ∧ ly ≤ hy)

/-! decidable forms (run by the judge on the implementation's answers; `C04_spec_boxNaN`: equivalent) -/

def axisMeetB [LE α] [DecidableLE α] (lo1 hi1 lo2 hi2 : NV α) : Bool :=
  match lo1, hi1, lo2, hi2 with
  | .val l1, .val h1, .val l2, .val h2 => decide (l1 ≤ h1) && decide (l2 ≤ h2) && decide (l1 ≤ h2) && decide (l2 ≤ h1)
  | _, _, _, _ => true

def overlapsOkNaNB [LE α] [DecidableLE α] (a b : Box (NV α)) (o : Bool) : Bool :=
  !o || (axisMeetB a.mn.x a.mx.x b.mn.x b.mx.x && axisMeetB a.mn.y a.mx.y b.mn.y b.mx.y)

def axisCommonB [LT α] [DecidableLT α] [Min α] [Max α] [DecidableEq α] (lo1 hi1 lo2 hi2 clo chi : NV α) : Bool :=
  match lo1, hi1, lo2, hi2 with
  | .val l1, .val h1, .val l2, .val h2 =>
    decide (clo = .val (max l1 l2)) && decide (chi = .val (min h1 h2)) && decide (max l1 l2 < min h1 h2)
  | _, _, _, _ => true

def intersectionOkNaNB [LT α] [DecidableLT α] [Min α] [Max α] [DecidableEq α] (a b : Box (NV α)) (r : Option (Box (NV α))) : Bool :=
  match r with
  | none => true
  | some c => axisCommonB a.mn.x a.mx.x b.mn.x b.mx.x c.mn.x c.mx.x && axisCommonB a.mn.y a.mx.y b.mn.y b.mx.y c.mn.y c.mx.y

/-- 0 = this axis is values and inverted, 1 = values and not inverted, 2 = has a NaN side -/
def axisKind [LT α] [DecidableLT α] (lo hi : NV α) : Nat :=
  match lo, hi with
  | .val l, .val h => if h < l then 0 else 1
  | _, _ => 2

def emptyOkNaNB [LT α] [DecidableLT α] (b : Box (NV α)) (e : Bool) : Bool :=
  let kx := axisKind b.mn.x b.mx.x
  let ky := axisKind b.mn.y b.mx.y
  if kx == 0 || ky == 0 then e else if kx == 1 && ky == 1 then !e else true

end Spec

/-! ## which geometries with NaN coordinates get the envelope clause (phase 4: `*Bounds` members with value sides too) -/

/-- the geometry is itself a `*Bounds` value -/
def isBox : Geom α → Bool
  | .bounds _ _ => true
  | _ => false

mutual
/-- every `*Bounds` value (at any depth) has four value sides; the other members may carry any NaN -/
def noNaNBoxes : Geom (NV α) → Bool
  | .bounds mn mx => Spec.isVal mn.x && Spec.isVal mn.y && Spec.isVal mx.x && Spec.isVal mx.y
  | .collection gs => noNaNBoxesL gs
  | _ => true
def noNaNBoxesL : List (Geom (NV α)) → Bool
  | [] => true
  | g :: gs => noNaNBoxes g && noNaNBoxesL gs
end

end GeomV.C04
