import GeomV.C04.Gen
/-!
# C04 — T1 tie: the definitions regenerated from the Go source of the tree under test
(`Gen.lean`, written by `harness/cmd/c04 extract` on every run) ARE the model's definitions the
theorems of `Proofs.lean` talk about.  Each tie is proved by `rfl` (definitional unfolding only), so a
change to one of these Go functions either still denotes the same function or breaks exactly the
obligation named after it (the check then searches for a failing input).
-/
set_option linter.unusedSectionVars false
namespace GeomV.C04
open GeomV

section
variable {α : Type} [LE α] [LT α] [Min α] [Max α] [DecidableLE α] [DecidableLT α] [DecidableEq α] [HasInf α]

theorem C04_tie_pointEquals (p q : Pt α) : Gen.pointEquals p q = ptEquals p q := rfl
theorem C04_tie_NewBounds : (Gen.newBounds : Box α) = Box.new := rfl
theorem C04_tie_NewBoundsPoint (p : Pt α) : Gen.newBoundsPoint p = Box.ofPoint p := rfl
theorem C04_tie_Copy (b : Box α) : Gen.copy b = b.copy := rfl
theorem C04_tie_Empty (b : Box α) : Gen.empty b = b.empty := rfl
theorem C04_tie_extendPoint (b : Box α) (p : Pt α) : Gen.extendPoint b p = b.extendPoint p := rfl
theorem C04_tie_extendPoints (b : Box α) (ps : List (Pt α)) : Gen.extendPoints b ps = b.extendPoints ps := rfl
theorem C04_tie_extendPointss (b : Box α) (pss : List (List (Pt α))) :
    Gen.extendPointss b pss = b.extendPointss pss := rfl
theorem C04_tie_Extend (b : Box α) (b2 : Option (Box α)) : Gen.extend b b2 = b.extend b2 := rfl
theorem C04_tie_Overlaps (b b2 : Box α) : Gen.overlaps b b2 = b.overlaps b2 := rfl
theorem C04_tie_Within (b bp : Box α) : Gen.withinBox b bp = b.within bp := rfl
theorem C04_tie_Intersection (b bp : Box α) : Gen.intersectionBox b bp = b.intersection bp := rfl
end

section
variable {α : Type} [Add α] [Sub α] [Mul α] [Div α] [OfNat α 2]
theorem C04_tie_Area (b : Box α) : Gen.area b = b.area := rfl
theorem C04_tie_Centroid (b : Box α) : Gen.centroid b = b.centroid := rfl
end

end GeomV.C04
