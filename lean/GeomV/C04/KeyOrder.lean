import Mathlib.Order.MinMax
import Mathlib.Order.BoundedOrder.Basic
import GeomV.C04.Basic
/-!
# The executable coordinate type `FKey` is a bounded linear order

…whose `≤ < min max ⊤ ⊥` are, by `rfl`, the core instances the driver runs with; so every theorem
of `Proofs.lean` (stated for an arbitrary bounded linear order) speaks about the executed model.
-/
namespace GeomV.C04

theorem FKey.ext' {a b : FKey} (h : a.val = b.val) : a = b := by
  cases a; cases b; simp at h; subst h; rfl

instance FKey.instLinearOrder : LinearOrder FKey where
  le a b := a.val ≤ b.val
  lt a b := a.val < b.val
  le_refl a := Int.le_refl _
  le_trans a b c := Int.le_trans
  le_antisymm a b h1 h2 := FKey.ext' (Int.le_antisymm h1 h2)
  le_total a b := Int.le_total _ _
  lt_iff_le_not_ge a b := by
    show a.val < b.val ↔ a.val ≤ b.val ∧ ¬ b.val ≤ a.val
    omega
  toDecidableLE := FKey.instDecLE
  toDecidableLT := FKey.instDecLT
  toDecidableEq := instDecidableEqFKey
  min := FKey.instMin.min
  max := FKey.instMax.max
  min_def a b := rfl
  max_def a b := rfl

instance FKey.instBoundedOrder : BoundedOrder FKey where
  top := pinf
  bot := ninf
  le_top a := a.inRange.2
  bot_le a := a.inRange.1

/-- the order structure used in the proofs is the one the driver executes -/
theorem FKey.instances_agree :
    (FKey.instLinearOrder.toLE = FKey.instLE) ∧ (FKey.instLinearOrder.toLT = FKey.instLT) ∧
    (FKey.instLinearOrder.toMin = FKey.instMin) ∧ (FKey.instLinearOrder.toMax = FKey.instMax) ∧
    ((⊤ : FKey) = pinf) ∧ ((⊥ : FKey) = ninf) ∧ ((⊥ : FKey) < ⊤) :=
  ⟨rfl, rfl, rfl, rfl, rfl, rfl, by decide⟩

end GeomV.C04
