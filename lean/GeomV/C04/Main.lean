import GeomV.C04.Model
import GeomV.C04.After
import GeomV.C04.Spec
import GeomV.C04.NaN
import GeomV.C04.SpecNaN
/-!
Driver for C04: `geomv_c04 judge` reads `<input> => <implementation's answer>` lines and prints
  OK <class> | DIFF <class> <why> (implementation ≠ model) | SPEC <class> <why> (answer violates Spec).
`Points()` sequences are compared as bit patterns; boxes are compared as float *values* (`FKey`).
-/
namespace GeomV.C04
open GeomV GeomV.C04.Spec

abbrev KBox := Box FKey

def boxOfBits (a b c d : UInt64) : Option KBox := do
  let a ← keyOfBits a; let b ← keyOfBits b; let c ← keyOfBits c; let d ← keyOfBits d
  pure ⟨⟨a, b⟩, ⟨c, d⟩⟩

/-- parse `B minx miny maxx maxy` or `NIL`; returns raw bits -/
def pBoxBits : Tok → Option (Option (UInt64 × UInt64 × UInt64 × UInt64) × Tok)
  | "NIL" :: t => some (none, t)
  | "B" :: a :: b :: c :: d :: t => do
    let a ← parseU64 a; let b ← parseU64 b; let c ← parseU64 c; let d ← parseU64 d
    pure (some (a, b, c, d), t)
  | _ => none

/-- an implementation box result: `ok a b c d` | `nil`; returns (result, rest) -/
def pBoxRes : Tok → Option (Option (UInt64 × UInt64 × UInt64 × UInt64) × Tok)
  | "nil" :: t => some (none, t)
  | "ok" :: a :: b :: c :: d :: t => do
    let a ← parseU64 a; let b ← parseU64 b; let c ← parseU64 c; let d ← parseU64 d
    pure (some (a, b, c, d), t)
  | _ => none

def kbox (q : UInt64 × UInt64 × UInt64 × UInt64) : Option KBox := boxOfBits q.1 q.2.1 q.2.2.1 q.2.2.2

def pPtsN : Nat → Tok → Option (List (Pt UInt64) × Tok) := Proto.pMany Proto.pPt

structure GeomAns where
  len : Option Nat            -- none = panic
  ptsOk : Bool
  ptsNoLen : Bool
  nilDrain : Option (List (Pt UInt64))   -- Len() panicked: the points the iterator returned before it panicked
  pts : List (Pt UInt64)
  indep : Bool
  beyond : Option (Option (Pt UInt64))   -- the call after the last vertex: absent | panic | the point returned
  after : Option (List (Option (Pt UInt64)))   -- the calls after `Len()` calls / after the first panic: panic | point
  bnd : Option (Option (UInt64 × UInt64 × UInt64 × UInt64))   -- none = panic, some none = nil
  again : Bool
  swap : Option (Option (Nat × Bool × List (Pt UInt64) × Option (Option (UInt64 × UInt64 × UInt64 × UInt64))))
                                   -- absent | Len panicked | (Len, Points ok?, points, Bounds: panic / nil / box)
  hist : Option (Option (Option (UInt64 × UInt64 × UInt64 × UInt64)))   -- absent | panic | nil/box
  mutated : Bool

def pGeomAns (t : Tok) : Option GeomAns := do
  let (len, t) ← match t with
    | "len" :: "ok" :: n :: t => do let n ← n.toNat?; pure (some n, t)
    | "len" :: "panic" :: t => pure (none, t)
    | _ => none
  let (ptsOk, noLen, pts, nilDrain, t) ← match t with
    | "pts" :: "nolen" :: "drained" :: k :: t => do
      let k ← k.toNat?
      let (ps, t) ← pPtsN k t
      pure (false, true, [], some ps, t)
    | "pts" :: "nolen" :: t => pure (false, true, [], none, t)
    | "pts" :: st :: k :: t => do
      let k ← k.toNat?
      let (ps, t) ← pPtsN k t
      pure (st == "ok", false, ps, none, t)
    | _ => none
  let (indep, t) := match t with
    | "indep" :: d :: t => (d == "1", t)
    | _ => (true, t)
  let (beyond, t) ← match t with
    | "beyond" :: "panic" :: t => pure (some none, t)
    | "beyond" :: "ok" :: x :: y :: t => do
      let x ← parseU64 x; let y ← parseU64 y
      pure (some (some (⟨x, y⟩ : Pt UInt64)), t)
    | t => pure (none, t)
  let (after, t) ← match t with
    | "after" :: k :: t => do
      let k ← k.toNat?
      let rec go : Nat → Tok → Option (List (Option (Pt UInt64)) × Tok)
        | 0, t => some ([], t)
        | n+1, "p" :: "p" :: t => do let (rs, t) ← go n t; pure (none :: rs, t)
        | n+1, x :: y :: t => do
          let x ← parseU64 x; let y ← parseU64 y
          let (rs, t) ← go n t
          pure (some (⟨x, y⟩ : Pt UInt64) :: rs, t)
        | _, _ => none
      let (rs, t) ← go k t
      pure (some rs, t)
    | t => pure (none, t)
  let (bnd, t) ← match t with
    | "bnd" :: "panic" :: t => pure (none, t)
    | "bnd" :: t => do let (r, t) ← pBoxRes t; pure (some r, t)
    | _ => none
  let (again, t) := match t with
    | "again" :: d :: t => (d == "1", t)
    | _ => (true, t)
  let (hist, t) ← match t with
    | "hist" :: "panic" :: t => pure (some none, t)
    | "hist" :: t => do let (r, t) ← pBoxRes t; pure (some (some r), t)
    | t => pure (none, t)
  let (mutd, t) ← match t with
    | "mut" :: d :: t => pure (d == "1", t)
    | _ => none
  let swap ← match t with
    | [] => pure none
    | ["swap", "panic"] => pure (some none)
    | "swap" :: n :: st :: k :: t => do
      let n ← n.toNat?
      let k ← k.toNat?
      let (ps, t) ← pPtsN k t
      match t with
      | ["bnd", "panic"] => pure (some (some (n, st == "ok", ps, none)))
      | "bnd" :: t => do let (r, _) ← pBoxRes t; pure (some (some (n, st == "ok", ps, some r)))
      | _ => none
    | _ => none
  pure { len := len, ptsOk := ptsOk, ptsNoLen := noLen, nilDrain := nilDrain, pts := pts, indep := indep, beyond := beyond, after := after, bnd := bnd, again := again, swap := swap, hist := hist, mutated := mutd }

def geomClass : BGeom → String
  | .point _ => "point" | .multiPoint _ => "multipoint" | .lineString _ => "linestring"
  | .multiLineString _ => "multilinestring" | .polygon _ => "polygon" | .multiPolygon _ => "multipolygon"
  | .collection _ => "collection" | .bounds _ _ => "bounds" | .nil => "nil"

/-- Go's `<` on float64 bit patterns: the order of the values, false when either side is NaN.  `vertices`, `lenG`,
`pointsOf` of a geometry given by bit patterns decide "this `*Bounds` has no point" with it. -/
def bitsLtB (a b : UInt64) : Bool :=
  match keyOfBits a, keyOfBits b with
  | some x, some y => decide (x.val < y.val)
  | _, _ => false
@[instance_reducible] def bitsLT : LT UInt64 := ⟨fun a b => bitsLtB a b = true⟩
@[instance_reducible] def bitsDecLT : @DecidableLT UInt64 bitsLT := fun a b => inferInstanceAs (Decidable (bitsLtB a b = true))
def verticesBits (g : BGeom) : List (Pt UInt64) := @vertices UInt64 bitsLT bitsDecLT g
def lenBits (g : BGeom) : Except Fault Nat := @lenG UInt64 bitsLT bitsDecLT g
def pointsBits (g : BGeom) : Except Fault (List (Pt UInt64)) := @pointsOf UInt64 bitsLT bitsDecLT g

/-- longest run of consecutive members without vertices, over all member lists -/
def maxRun (emp : List Bool) : Nat :=
  (emp.foldl (fun (acc : Nat × Nat) e => if e then (max acc.1 (acc.2 + 1), acc.2 + 1) else (acc.1, 0)) (0, 0)).1

mutual
def emptyRun : BGeom → Nat
  | .multiLineString ls => maxRun (ls.map (·.isEmpty))
  | .polygon ls => maxRun (ls.map (·.isEmpty))
  | .multiPolygon ps =>
    max (maxRun (ps.map fun p => p.all (·.isEmpty))) (ps.foldl (fun m p => max m (maxRun (p.map (·.isEmpty)))) 0)
  | .collection gs => max (maxRun (emptyFlags gs)) (emptyRunL gs)
  | _ => 0
def emptyRunL : List BGeom → Nat
  | [] => 0
  | g :: gs => max (emptyRun g) (emptyRunL gs)
def emptyFlags : List BGeom → List Bool
  | [] => []
  | g :: gs => (verticesBits g).isEmpty :: emptyFlags gs
end


def swapPt (p : Pt UInt64) : Pt UInt64 := ⟨p.y, p.x⟩
mutual
/-- every vertex transposed (what the harness does in place before asking again) -/
def swapG : BGeom → BGeom
  | .point p => .point (swapPt p)
  | .multiPoint ps => .multiPoint (ps.map swapPt)
  | .lineString ps => .lineString (ps.map swapPt)
  | .multiLineString ls => .multiLineString (ls.map (·.map swapPt))
  | .polygon ls => .polygon (ls.map (·.map swapPt))
  | .multiPolygon ps => .multiPolygon (ps.map (·.map (·.map swapPt)))
  | .collection gs => .collection (swapL gs)
  | .bounds a b => .bounds (swapPt a) (swapPt b)
  | .nil => .nil
def swapL : List BGeom → List BGeom
  | [] => []
  | g :: gs => swapG g :: swapL gs
end

/-- the envelope clause: literally (`NewBounds()` when there is no vertex) — except for a non-canonical empty
`*Bounds` given directly as the geometry, whose `Bounds()` is that box: there as point sets (C04_bounds_sets) -/
def envOk (gk : Geom FKey) (b : Box FKey) : Bool :=
  if topCanon gk then isEnvelopeB (vertices gk) b else isEnvelopeSetB (vertices gk) b

def showFault : Fault → String
  | .index => "index" | .nilDeref => "nilDeref" | .nilFunc => "nilFunc" | .explicit => "explicit" | .badState => "badState" | .fuel => "fuel"

mutual
/-- some `*Bounds` value (at any depth) has a NaN side: whether such a box "has points" — hence its `Len()` and corners —
is not decided by the property (no point lies in it as a set, yet `Max < Min` is false), so nothing about it is SPEC -/
def nanBoxG : BGeom → Bool
  | .bounds a b => (keyOfBits a.x).isNone || (keyOfBits a.y).isNone || (keyOfBits b.x).isNone || (keyOfBits b.y).isNone
  | .collection gs => nanBoxL gs
  | _ => false
def nanBoxL : List BGeom → Bool
  | [] => false
  | g :: gs => nanBoxG g || nanBoxL gs
end

/-- a geometry with NaN coordinates (outside the property's quantifier).  Len/Points do not look at coordinates
(`C04_len`, `C04_points` hold for every coordinate type), so they are judged as usual, bit for bit; `Bounds()` is
only compared with the model run at `NV FKey` (`math.Min/Max/<` with their NaN cases, NaN.lean; what that model
computes is `C04_nan_bounds`): a difference is DIFF, never SPEC. -/
def judgeGeomNaN (g : BGeom) (cls0 : String) (rhs : Tok) : String :=
  let cls := cls0 ++ "-nan"
  match pGeomAns rhs with
  | none => s!"DIFF {cls} unparsable-answer {" ".intercalate (rhs.take 6)}"
  | some a =>
    if !noNil g then s!"OK {cls}-nil-outside" else
    let vs := verticesBits g
    let spec : Option String :=
      if a.mutated then some "geometry-mutated"
      else match a.len with
      | none => some "Len-panicked"
      | some n =>
        if n != vs.length then some s!"Len={n}-but-{vs.length}-vertices"
        else if !a.ptsOk then some s!"Points-panicked-after-{a.pts.length}-of-{n}"
        else if a.pts != vs then some "Points-sequence-differs-from-storage-order"
        else if !a.indep then some "two-iterators-interfere"
        else none
    match spec with
    | some why => if nanBoxG g then s!"DIFF {cls} {why} (a *Bounds with a NaN side: outside the specification)" else s!"SPEC {cls} {why}"
    | none =>
      let nvq (q : UInt64 × UInt64 × UInt64 × UInt64) : Box (NV FKey) :=
        ⟨⟨nvOfBits q.1, nvOfBits q.2.1⟩, ⟨nvOfBits q.2.2.1, nvOfBits q.2.2.2⟩⟩
      -- the envelope clause read with NaN (SpecNaN.lean: an axis without NaN has non-NaN sides; a non-NaN side is an
      -- attained bound of the non-NaN coordinates of its axis), on the implementation's answers; proved for the model
      -- (C04_nan_envelope_boxes / _exec) for geometries whose `*Bounds` members all have value sides (phase 4; before:
      -- only for geometries without any `*Bounds` member)
      let vsN := vertices (geomNV g)
      let specB : Option String :=
        if !(noNaNBoxes (geomNV g)) || isBox g then none else
        match a.bnd with
        | none => some "Bounds-panicked"
        | some none => some "Bounds-nil"
        | some (some q) =>
          if !isEnvelopeNaNB vsN (nvq q) then some "Bounds-side-is-not-the-attained-bound-of-the-non-NaN-coordinates-of-its-axis"
          else match a.hist with
            | none => none
            | some (some (some q2)) =>
              if isEnvelopeNaNB vsN (nvq q2) then none
              else some "Bounds-depends-on-call-history:-after-the-caller-mutated-an-earlier-result-a-side-is-not-the-attained-bound-of-its-axis"
            | _ => some "Bounds-panicked-or-nil-after-the-caller-mutated-an-earlier-result"
      match specB with
      | some why => s!"SPEC {cls} {why}"
      | none =>
      match boundsG (geomNV g), a.bnd with
      | .ok b, some (some q) =>
        if nvq q != b then s!"DIFF {cls} bounds differ from the model with NaN"
        else if !a.again then s!"DIFF {cls} second-Bounds-call-differs"
        else match a.hist with
          | some (some (some q2)) => if nvq q2 == b then s!"OK {cls}" else s!"DIFF {cls} Bounds-depends-on-call-history"
          | none => s!"OK {cls}"
          | _ => s!"DIFF {cls} Bounds-panicked-or-nil-after-the-caller-mutated-an-earlier-result"
      | .ok _, _ => s!"DIFF {cls} bounds model=ok impl=panic/nil"
      | .error _, none => s!"OK {cls}"
      | .error e, some _ => s!"DIFF {cls} bounds model=fault-{showFault e}"

/-- the points a fresh iterator returns until it panics (at most `fuel` calls); `[]` when `Points()` itself panics -/
def drainToFault (g : BGeom) (fuel : Nat) : List (Pt UInt64) :=
  let rec go : Nat → ItSt → List (Pt UInt64) → List (Pt UInt64)
    | 0, _, acc => acc.reverse
    | n+1, s, acc =>
      match @next UInt64 bitsLT bitsDecLT g s with
      | .ok (v, s') => go n s' (v :: acc)
      | .error _ => acc.reverse
  match init g with
  | .error _ => []
  | .ok s => go fuel s []

def judgeGeom (g : BGeom) (rhs : Tok) : String :=
  let run := emptyRun g
  let cls0 := "geom-" ++ geomClass g ++ (if run ≥ 2 then "-emptyrun" else if run = 1 then "-emptymember" else "")
  match geomKey g with
  | none => judgeGeomNaN g cls0 rhs
  | some gk =>
  match pGeomAns rhs with
  | none => s!"DIFF {cls0} unparsable-answer {" ".intercalate (rhs.take 6)}"
  | some a =>
    let inHyp := noNil g
    let boxesOk := boxesNonEmpty gk
    let cls := cls0 ++ (if !inHyp then "-nil-outside" else if !boxesOk then "-emptybox" else "")
    let vs := verticesBits g
    -- the specification, on the implementation's answers
    let spec : Option String :=
      if !inHyp then none
      else if a.mutated then some "geometry-mutated"
      else match a.len with
      | none => some "Len-panicked"
      | some n =>
        if n != vs.length then some s!"Len={n}-but-{vs.length}-vertices"
        else if !a.ptsOk then some s!"Points-panicked-after-{a.pts.length}-of-{n}"
        else if a.pts != vs then some "Points-sequence-differs-from-storage-order"
        else if !a.indep then some "two-iterators-interfere"
        else match a.bnd with
        | none => some "Bounds-panicked"
        | some none => some "Bounds-nil"
        | some (some q) =>
          match kbox q with
          | none => some "Bounds-NaN"
          | some b =>
            if !envOk gk b then some "Bounds-is-not-the-envelope-of-the-vertices"
            else if !a.again then some "second-Bounds-call-differs"
            else match a.hist with
            | none => none
            | some none => some "Bounds-panicked-after-the-caller-mutated-an-earlier-result"
            | some (some none) => some "Bounds-nil-after-the-caller-mutated-an-earlier-result"
            | some (some (some q2)) =>
              match kbox q2 with
              | none => some "Bounds-NaN"
              | some b2 =>
                if !envOk gk b2 then
                  some "Bounds-depends-on-call-history:-after-the-caller-mutated-an-earlier-result-it-is-not-the-envelope"
                else match a.swap with
                | none => none
                | some none => some "Len-panicked-after-in-place-change-of-the-coordinates"
                | some (some (n2, ok2, ps2, b2r)) =>
                  let g2 := swapG g
                  let vs2 := verticesBits g2
                  if n2 != vs2.length then some "Len-changed-after-in-place-change-of-the-coordinates"
                  else if !ok2 then some s!"Points-panicked-after-in-place-change-of-the-coordinates"
                  else if ps2 != vs2 then some "Points-stale-after-in-place-change-of-the-coordinates"
                  else match b2r, geomKey g2 with
                  | some (some q3), some gk2 =>
                    match kbox q3 with
                    | some b3 =>
                      if !envOk gk2 b3 then some "Bounds-stale-after-in-place-change-of-the-coordinates-(same-address,-same-length)"
                      else none
                    | none => some "Bounds-NaN"
                  | _, _ => some "Bounds-panicked-or-nil-after-in-place-change-of-the-coordinates"
    match spec with
    | some why => s!"SPEC {cls} {why}"
    | none =>
      -- more than 2^16 vertices (hugeCorpus): judged by the specification only; running the model's closures — every
      -- call re-walks the members up to `j` — is quadratic there
      if vs.length > 50000 then s!"OK {cls}-huge" else
      -- correspondence with the model
      let mLen := lenBits g
      let mPts := pointsBits g
      let mBnd := boundsG gk
      let dLen : Option String := match mLen, a.len with
        | .ok n, some m => if n == m then none else some s!"len model={n}"
        | .error _, none => none
        | .ok n, none => some s!"len model={n} impl=panic"
        | .error e, some _ => some s!"len model=fault-{showFault e}"
      let dPts : Option String := match mPts with
        | .ok ps => if a.ptsOk && a.pts == ps then none else some s!"points model=ok-{ps.length}"
        | .error e => if !a.ptsOk then none else some s!"points model=fault-{showFault e}"
      let dBnd : Option String := match mBnd, a.bnd with
        | .ok b, some (some q) => if kbox q == some b then none else some "bounds model-differs"
        | .error _, none => none
        | .ok _, _ => some "bounds model=ok impl=panic/nil"
        | .error e, some _ => some s!"bounds model=fault-{showFault e}"
      -- the call after the last vertex (unspecified by the property; what the model does is C04_points_exhausted)
      let dBey : Option String := match a.beyond with
        | none => none
        | some r =>
          match @beyondLen UInt64 bitsLT bitsDecLT g, r with
          | .ok v, some w => if v == w then none else some "call-beyond-Len model-returns-another-point"
          | .ok _, none => some "call-beyond-Len model=ok impl=panic"
          | .error _, none => none
          | .error e, some _ => some s!"call-beyond-Len model=fault-{showFault e} impl=ok"
      -- Len() panicked (nil member): the points handed out before the iterator panics (C04_nil_points_prefix/_fault)
      let dNil : Option String := match a.nilDrain with
        | none => none
        | some ps =>
          if ps == drainToFault g ((verticesBits g).length + 2) then none
          else some s!"points-before-the-nil-member impl={ps.length}"
      -- the calls after `Len()` calls, resp. after the first panic (unspecified by the property; the model's `nextS`
      -- keeps the captured variables where the panic left them; C04_points_after_fault)
      let dAft : Option String := match a.after with
        | none => none
        | some rs =>
          let m := match a.len with
            | some n => @afterCalls UInt64 bitsLT bitsDecLT g n rs.length
            | none => @afterFirstFault UInt64 bitsLT bitsDecLT g ((verticesBits g).length + 2) rs.length
          match m with
          | none => some "calls-after-the-panic model=Points()-panics"
          | some ms =>
            let same := ms.length == rs.length && (ms.zip rs).all fun (mr, r) =>
              match mr, r with
              | .ok v, some w => v == w
              | .error _, none => true
              | _, _ => false
            if same then none else
              let sh := fun (l : List Bool) => String.ofList (l.map fun b => if b then 'v' else 'p')
              some s!"calls-after-the-panic model={sh (ms.map fun r => match r with | .ok _ => true | .error _ => false)} impl={sh (rs.map (·.isSome))}"
      let dNil := match dNil with | some w => some w | none => dAft
      let dPts := match dPts with | some w => some w | none => (match dBey with | some w => some w | none => dNil)
      match dLen, dPts, dBnd with
      | none, none, none => s!"OK {cls}"
      | some w, _, _ => s!"DIFF {cls} {w}"
      | _, some w, _ => s!"DIFF {cls} {w}"
      | _, _, some w => s!"DIFF {cls} {w}"

def boxRel (a b : KBox) : String :=
  if emptyB a || emptyB b then "emptybox"
  else if hasCommonAreaB a b then "area"
  else if sharePointB a b then "touch"
  else "disjoint"

def canon (a : KBox) : Bool := canonB a

/-- two boxes from the start of the token list -/
def pTwo (t : Tok) : Option (KBox × Option KBox × Tok) := do
  let (a, t) ← pBoxBits t
  let (b, t) ← pBoxBits t
  let a ← a
  let ka ← kbox a
  match b with
  | none => pure (ka, none, t)
  | some b => do let kb ← kbox b; pure (ka, some kb, t)

def resEq (r : Option (UInt64 × UInt64 × UInt64 × UInt64)) (m : Option KBox) : Bool :=
  match r, m with
  | none, none => true
  | some q, some b => kbox q == some b
  | _, _ => false

def hasNaNBox (t : Tok) : Bool :=
  t.any fun s => s.length == 16 && (match parseU64 s with | some u => (keyOfBits u).isNone | none => false)

/-! ### box lines with NaN sides (phase 4)

NaN is outside the property's quantifier.  `Overlaps`, `Intersection`, `Empty` answers are judged by the clauses every
reading demands axis by axis (SpecNaN.lean `OverlapsOkNaN`, `IntersectionOkNaN`, `EmptyOkNaN`; the decidable forms are
`C04_spec_boxNaN`, the model satisfies them: `C04_nan_box_exec`) — SPEC — and every answer, `Extend` included, is
compared with the model run at `NV FKey` (`math.Min/Max/<` with their NaN cases) — DIFF. -/

abbrev NBox := Box (NV FKey)

def nvq (q : UInt64 × UInt64 × UInt64 × UInt64) : NBox :=
  ⟨⟨nvOfBits q.1, nvOfBits q.2.1⟩, ⟨nvOfBits q.2.2.1, nvOfBits q.2.2.2⟩⟩

def pTwoN (t : Tok) : Option (NBox × Option NBox × Tok) := do
  let (a, t) ← pBoxBits t
  let (b, t) ← pBoxBits t
  let a ← a
  pure (nvq a, b.map nvq, t)

def pBool : String → Option Bool
  | "true" => some true
  | "false" => some false
  | _ => none

def pBoxResN (n : Nat) (t : Tok) : Option (List (Option NBox) × Tok) :=
  match n with
  | 0 => some ([], t)
  | n+1 => do
    let (q, t) ← pBoxRes t
    let (qs, t) ← pBoxResN n t
    pure (q.map nvq :: qs, t)

def judgeBoxNaN (kind : String) (t rhs : Tok) : String :=
  let cls := kind ++ "-nan"
  match kind with
  | "ovl" =>
    match pTwoN t, rhs.map pBool with
    | some (a, some b, _), [some o1, some o2] =>
      if !overlapsOkNaNB a b o1 || !overlapsOkNaNB b a o2 then
        s!"SPEC {cls} Overlaps=true-although-on-an-axis-without-NaN-the-intervals-share-no-value"
      else if o1 != a.overlaps b || o2 != b.overlaps a then s!"DIFF {cls} model={a.overlaps b},{b.overlaps a}"
      else s!"OK {cls}"
    | some _, _ => s!"DIFF {cls} unexpected-result {" ".intercalate rhs}"
    | none, _ => s!"DIFF {cls} unparsable-input"
  | "empty" =>
    match pTwoN (t ++ ["NIL"]), rhs.map pBool with
    | some (a, _, _), [some e] =>
      if !emptyOkNaNB a e then s!"SPEC {cls} Empty={e}-contradicts-an-axis-without-NaN"
      else if e != a.empty then s!"DIFF {cls} model={a.empty}"
      else s!"OK {cls}"
    | some _, _ => s!"DIFF {cls} unexpected-result {" ".intercalate rhs}"
    | none, _ => s!"DIFF {cls} unparsable-input"
  | "int" =>
    match pTwoN t, pBoxResN 2 rhs with
    | some (a, some b, _), some ([r1, r2], t2) =>
      if t2.contains "argmut" then s!"SPEC {cls} Intersection-mutated-an-operand"
      else if !intersectionOkNaNB a b r1 || !intersectionOkNaNB b a r2 then
        s!"SPEC {cls} Intersection-is-a-box-whose-sides-on-an-axis-without-NaN-are-not-the-common-interval"
      else if r1 != a.intersection b || r2 != b.intersection a then s!"DIFF {cls} model-differs"
      else s!"OK {cls}"
    | some _, _ => s!"DIFF {cls} unexpected-result {" ".intercalate (rhs.take 6)}"
    | none, _ => s!"DIFF {cls} unparsable-input"
  | "ext" =>
    match pTwoN t, pBoxResN 1 rhs with
    | some (a, ob, _), some ([some j], t1) =>
      if t1.contains "argmut" then s!"SPEC {cls} Extend-mutated-its-argument"
      else if j != a.extend ob then s!"DIFF {cls} model-differs"
      else s!"OK {cls}"
    | some _, _ => s!"DIFF {cls} unexpected-result {" ".intercalate (rhs.take 6)}"
    | none, _ => s!"DIFF {cls} unparsable-input"
  | "ext3" =>
    match pTwoN t with
    | some (a, some b, t') =>
      match pTwoN (t' ++ ["NIL"]), pBoxResN 4 rhs with
      | some (c, _, _), some ([some l, some r, some ba, some aa], _) =>
        if l != (a.extend (some b)).extend (some c) || r != a.extend (some (b.extend (some c)))
           || ba != b.extend (some a) || aa != a.extend (some a) then s!"DIFF {cls} model-differs"
        else s!"OK {cls}"
      | some _, _ => s!"DIFF {cls} unexpected-result {" ".intercalate (rhs.take 6)}"
      | none, _ => s!"DIFF {cls} unparsable-input"
    | _ => s!"DIFF {cls} unparsable-input"
  | "self" =>
    match pTwoN (t ++ ["NIL"]), rhs with
    | some (b, _, _), "ovl" :: o1 :: o2 :: o3 :: o4 :: "int" :: r =>
      match [o1, o2, o3, o4].map pBool, pBoxResN 2 r with
      | [some o1, some o2, some o3, some o4], some ([i1, i2], "ext" :: r) =>
        match pBoxResN 2 r with
        | some ([some e1, some e2], r) =>
          let os := [o1, o2, o3, o4]
          if r.contains "argmut" then s!"SPEC {cls} operand-mutated"
          else if os.any (fun o => !overlapsOkNaNB b b o) then s!"SPEC {cls} b.Overlaps(b)=true-although-an-axis-without-NaN-is-inverted"
          else if !intersectionOkNaNB b b i1 || !intersectionOkNaNB b b i2 then
            s!"SPEC {cls} b.Intersection(b)-is-a-box-whose-sides-on-an-axis-without-NaN-are-not-the-common-interval"
          else if os.any (· != b.overlaps b) || i1 != b.intersection b || i2 != b.intersection b
               || e1 != b.extendSelf || e2 != b.extendSelf then s!"DIFF {cls} model-differs"
          else s!"OK {cls}"
        | _ => s!"DIFF {cls} unexpected-result"
      | _, _ => s!"DIFF {cls} unexpected-result"
    | some _, _ => s!"DIFF {cls} unexpected-result {" ".intercalate (rhs.take 4)}"
    | none, _ => s!"DIFF {cls} unparsable-input"
  | "self3" =>
    -- DIFF only: all-pairs Overlaps/Intersection over {a, b, a} and the joins (a+b)+b, (a+a)+b, (b+a)+itself, the
    -- one-pointer joins through `extendSelf`
    match pTwoN t, rhs with
    | some (a, some b, _), "ovl" :: r =>
      let os := (r.take 9).map pBool
      match r.drop 9 with
      | "int" :: r =>
        match pBoxResN 9 r with
        | some (is, "ext" :: r) =>
          match pBoxResN 3 r with
          | some ([some t1, some t2, some t3], r) =>
            let xs := [a, b, a]
            let pairs := xs.flatMap fun x => xs.map fun y => (x, y)
            if r.contains "argmut" then s!"SPEC {cls} operand-mutated"
            else if os.length != 9 || !((pairs.zip os).all fun ((x, y), o) => match o with | some o => overlapsOkNaNB x y o | none => false) then
              s!"SPEC {cls} all-pairs-Overlaps=true-although-an-axis-without-NaN-separates-the-boxes"
            else if !((pairs.zip is).all fun ((x, y), i) => intersectionOkNaNB x y i) then
              s!"SPEC {cls} all-pairs-Intersection-is-a-box-whose-sides-on-an-axis-without-NaN-are-not-the-common-interval"
            else if !((pairs.zip os).all fun ((x, y), o) => o == some (x.overlaps y))
                 || !((pairs.zip is).all fun ((x, y), i) => i == x.intersection y)
                 || t1 != (a.extend (some b)).extend (some b) || t2 != a.extendSelf.extend (some b)
                 || t3 != (b.extend (some a)).extendSelf then s!"DIFF {cls} model-differs"
            else s!"OK {cls}"
          | _ => s!"DIFF {cls} unexpected-result"
        | _ => s!"DIFF {cls} unexpected-result"
      | _ => s!"DIFF {cls} unexpected-result"
    | some _, _ => s!"DIFF {cls} unexpected-result {" ".intercalate (rhs.take 4)}"
    | none, _ => s!"DIFF {cls} unparsable-input"
  | "fcmp" =>
    -- the trusted reading of float64 made an exercised one: Go's `<`, `<=`, `==`, math.Min, math.Max on two bit patterns
    -- against the order/min/max of `NV FKey` (values by `keyOfBits`, NaN unordered, the special cases of package math)
    match t, rhs with
    | [x, y], [lt, le, eq, mn, mx] =>
      match parseU64 x, parseU64 y, pBool lt, pBool le, pBool eq, parseU64 mn, parseU64 mx with
      | some x, some y, some lt, some le, some eq, some mn, some mx =>
        let a := nvOfBits x
        let b := nvOfBits y
        let eqM := match a, b with | .val p, .val q => decide (p = q) | _, _ => false
        if lt != decide (a < b) || le != decide (a ≤ b) || eq != eqM then
          s!"DIFF fcmp Go-comparison-of-float64-differs-from-the-value-order-of-the-model lt={lt} le={le} eq={eq}"
        else if nvOfBits mn != min a b || nvOfBits mx != max a b then
          s!"DIFF fcmp math.Min/Max-differ-from-the-model"
        else s!"OK fcmp{if a == .nan || b == .nan then "-nan" else ""}"
      | _, _, _, _, _, _, _ => "DIFF fcmp unparsable"
    | _, _ => "DIFF fcmp unparsable"
  | _ => "OK skipped-nan"

def judgeLine1 (line : String) : String :=
  let (lhs, rhs) := splitArrow (tokens line)
  if rhs.head? == some "timeout" then s!"SPEC {lhs.headD "?"} call-did-not-return-within-3s"
  else
  match lhs with
  | "geom" :: gt =>
    match Proto.pGeom 64 gt with
    | some (g, []) => judgeGeom g rhs
    | _ => "DIFF geom unparsable-input"
  | "hist" :: t =>
    -- `Bounds()` is a pure function of the geometry in the model; any dependence of the
    -- implementation's answer on what happened before (other calls, caller-side mutation of
    -- earlier results) therefore shows up as SPEC (not the envelope) or DIFF (not the model's box).
    let rec splitBar : Tok → List Tok → Tok → List Tok
      | [], acc, cur => (cur.reverse :: acc).reverse
      | "|" :: r, acc, cur => splitBar r (cur.reverse :: acc) []
      | x :: r, acc, cur => splitBar r acc (x :: cur)
    let gsT := splitBar t [] []
    let gs := gsT.map fun gt => match Proto.pGeom 64 gt with | some (g, []) => some g | _ => none
    if gs.any (·.isNone) then "DIFF hist unparsable-input" else
    let gs := gs.filterMap id
    let rec results : Nat → Tok → Option (List (Option (Option (UInt64 × UInt64 × UInt64 × UInt64))))
      | 0, [] => some []
      | 0, _ => none
      | n+1, "panic" :: r => do let rest ← results n r; pure (none :: rest)
      | n+1, r => do let (q, r') ← pBoxRes r; let rest ← results n r'; pure (some q :: rest)
    match results (2 * gs.length) rhs with
    | none => s!"DIFF hist unparsable-answer {" ".intercalate (rhs.take 6)}"
    | some rs =>
      let pairs := (gs ++ gs).zip rs
      let verdicts := pairs.map fun (g, r) =>
        match geomKey g with
        | none => (none : Option String)
        | some gk =>
          let inHyp := noNil g
          match r with
          | none => if noNil g then some "SPEC Bounds-panicked" else none
          | some none => some "SPEC Bounds-nil"
          | some (some q) =>
            match kbox q with
            | none => some "SPEC Bounds-NaN"
            | some b =>
              if inHyp && !envOk gk b then
                some s!"SPEC Bounds-of-{geomClass g}-depends-on-call-history:-not-the-envelope-of-its-vertices"
              else match boundsG gk with
                | .ok mb => if mb == b then none else if inHyp then some "DIFF model-differs" else none
                | .error _ => some "DIFF model-faults"
      match verdicts.filterMap id with
      | [] => "OK hist"
      | w :: _ =>
        match w.splitOn " " with
        | k :: rest => s!"{k} hist {" ".intercalate rest}"
        | [] => "DIFF hist ?"
  | "self" :: t =>
    -- one pointer on both sides; the specification does not care about pointers: a box shares a
    -- point with itself iff it has a point, its common rectangle with itself is itself (nil without area),
    -- its join with itself is itself
    if hasNaNBox t then judgeBoxNaN "self" t rhs else
    match pTwo (t ++ ["NIL"]) with
    | some (b, _, _) =>
      let cls := "self-" ++ (if emptyB b then (if canon b then "emptybox" else "inverted") else if hasCommonAreaB b b then "area" else "degenerate")
      match rhs with
      | "ovl" :: o1 :: o2 :: o3 :: o4 :: "int" :: r =>
        match pBoxRes r with
        | some (i1, r) => match pBoxRes r with
          | some (i2, "ext" :: r) => match pBoxRes r with
            | some (some e1, r) => match pBoxRes r with
              | some (some e2, "within" :: w1 :: w2 :: r) =>
                let kk (q : Option (UInt64 × UInt64 × UInt64 × UInt64)) : Option (Option KBox) :=
                  match q with | none => some none | some q => (kbox q).map some
                match kk i1, kk i2, kbox e1, kbox e2 with
                | some i1, some i2, some e1, some e2 =>
                  let want := toString (sharePointB b b)
                  if r.contains "argmut" then s!"SPEC {cls} operand-mutated"
                  else if [o1, o2, o3, o4] != [want, want, want, want] then
                    s!"SPEC {cls} b.Overlaps(b)={o1},{o2},{o3},{o4}-but-b-has-a-point={want}"
                  else if !intersectionOkB b b i1 || !intersectionOkB b b i2 then s!"SPEC {cls} b.Intersection(b)-is-not-the-common-rectangle-or-nil"
                  else if !isJoinB b b e1 || !isJoinB b b e2 || e1 != b || e2 != b then s!"SPEC {cls} c.Extend(c)-is-not-c"
                  else if w1 != w2 then s!"SPEC {cls} b.Within(b)-unstable"
                  else if want != toString (b.overlaps b) || i1 != b.intersection b || e1 != b.extend (some b) then s!"DIFF {cls} model-differs"
                  else s!"OK {cls}"
                | _, _, _, _ => s!"SPEC {cls} NaN-in-result"
              | _ => s!"SPEC {cls} unexpected-result"
            | _ => s!"SPEC {cls} unexpected-result"
          | _ => s!"SPEC {cls} unexpected-result"
        | none => s!"SPEC {cls} unexpected-result"
      | _ => s!"SPEC {cls} unexpected-result {" ".intercalate (rhs.take 4)}"
    | none => "DIFF self unparsable-input"
  | "self3" :: t =>
    if hasNaNBox t then judgeBoxNaN "self3" t rhs else
    match pTwo t with
    | some (a, some b, _) =>
      let cls := "self3-" ++ boxRel a b
      let xs := [a, b, a]
      let pairs := xs.flatMap fun x => xs.map fun y => (x, y)
      match rhs with
      | "ovl" :: r =>
        let os := r.take 9
        match r.drop 9 with
        | "int" :: r =>
          let rec ints : Nat → Tok → Option (List (Option (UInt64 × UInt64 × UInt64 × UInt64)) × Tok)
            | 0, r => some ([], r)
            | n+1, r => do let (q, r) ← pBoxRes r; let (qs, r) ← ints n r; pure (q :: qs, r)
          match ints 9 r with
          | some (is, "ext" :: r) =>
            match ints 3 r with
            | some ([some t1, some t2, some t3], r) =>
              let kk (q : Option (UInt64 × UInt64 × UInt64 × UInt64)) : Option (Option KBox) :=
                match q with | none => some none | some q => (kbox q).map some
              let isK := is.map kk
              match kbox t1, kbox t2, kbox t3 with
              | some t1, some t2, some t3 =>
                if isK.any (·.isNone) then s!"SPEC {cls} NaN-in-result" else
                let isK := isK.filterMap id
                let ovlOk := (pairs.zip os).all fun ((x, y), o) => o == toString (sharePointB x y)
                let intOk := (pairs.zip isK).all fun ((x, y), i) => intersectionOkB x y i
                if r.contains "argmut" then s!"SPEC {cls} operand-mutated"
                else if os.length != 9 || !ovlOk then s!"SPEC {cls} all-pairs-Overlaps-(with-repeated-pointer)-wrong:{",".intercalate os}"
                else if !intOk then s!"SPEC {cls} all-pairs-Intersection-(with-repeated-pointer)-wrong"
                else if !isJoinB a b t1 then s!"SPEC {cls} (a+b)+b-is-not-the-join"
                else if !isJoinB a b t2 then s!"SPEC {cls} (a+a)+b-is-not-the-join"
                else if !isJoinB a b t3 then s!"SPEC {cls} (b+a)+itself-is-not-the-join"
                else if t1 != (a.extend (some b)).extend (some b) || t2 != (a.extend (some a)).extend (some b)
                     || t3 != (b.extend (some a)).extend (some (b.extend (some a)))
                     || !((pairs.zip isK).all fun ((x, y), i) => i == x.intersection y) then s!"DIFF {cls} model-differs"
                else s!"OK {cls}"
              | _, _, _ => s!"SPEC {cls} NaN-in-result"
            | _ => s!"SPEC {cls} unexpected-result"
          | _ => s!"SPEC {cls} unexpected-result"
        | _ => s!"SPEC {cls} unexpected-result"
      | _ => s!"SPEC {cls} unexpected-result {" ".intercalate (rhs.take 4)}"
    | _ => "DIFF self3 unparsable-input"
  | "fcmp" :: t => judgeBoxNaN "fcmp" t rhs
  | ["new"] =>
    if rhs == ["ok", "7ff0000000000000", "7ff0000000000000", "fff0000000000000", "fff0000000000000"]
    then "OK new" else "SPEC new NewBounds-is-not-the-empty-box"
  | ["nbp", x, y] =>
    if rhs == ["ok", x, y, x, y] then "OK nbp" else "SPEC nbp NewBoundsPoint-differs"
  | "copy" :: "B" :: a :: b :: c :: d :: [] =>
    if rhs == ["ok", a, b, c, d, "alias", "0"] then "OK copy"
    else if rhs.getLast? == some "1" then "SPEC copy Copy-aliases-the-receiver"
    else "SPEC copy Copy-differs"
  | "empty" :: t =>
    if hasNaNBox t then judgeBoxNaN "empty" t rhs else
    match pTwo (t ++ ["NIL"]) with
    | some (a, _, _) =>
      let want := emptyB a
      let m := a.empty
      if rhs != [toString want] then s!"SPEC empty-{want} Empty-wrong"
      else if m != want then s!"DIFF empty-{want} model={m}"
      else s!"OK empty-{want}"
    | none => "DIFF empty unparsable-input"
  | "ovl" :: t =>
    if hasNaNBox t then judgeBoxNaN "ovl" t rhs else
    match pTwo t with
    | some (a, some b, _) =>
      let cls := "ovl-" ++ boxRel a b
      let want := sharePointB a b
      let m1 := a.overlaps b
      let m2 := b.overlaps a
      if rhs != [toString want, toString want] then s!"SPEC {cls} Overlaps={" ".intercalate rhs}-but-share-a-point={want}"
      else if rhs != [toString m1, toString m2] then s!"DIFF {cls} model={m1},{m2}"
      else s!"OK {cls}"
    | _ => "DIFF ovl unparsable-input"
  | "int" :: t =>
    if hasNaNBox t then judgeBoxNaN "int" t rhs else
    match pTwo t with
    | some (a, some b, _) =>
      let cls := "int-" ++ boxRel a b
      match pBoxRes rhs with
      | some (r1, t1) =>
        match pBoxRes t1 with
        | some (r2, t2) =>
          let k1 := match r1 with | none => some none | some q => (kbox q).map some
          let k2 := match r2 with | none => some none | some q => (kbox q).map some
          match k1, k2 with
          | some k1, some k2 =>
            if t2.contains "argmut" then s!"SPEC {cls} Intersection-mutated-an-operand"
            else if !intersectionOkB a b k1 then s!"SPEC {cls} a.Intersection(b)-is-not-the-common-rectangle-or-nil"
            else if !intersectionOkB b a k2 then s!"SPEC {cls} b.Intersection(a)-is-not-the-common-rectangle-or-nil"
            else if k1 != a.intersection b || k2 != b.intersection a then s!"DIFF {cls} model-differs"
            else s!"OK {cls}"
          | _, _ => s!"SPEC {cls} NaN-in-result"
        | none => s!"SPEC {cls} unexpected-result {" ".intercalate rhs}"
      | none => s!"SPEC {cls} unexpected-result {" ".intercalate rhs}"
    | _ => "DIFF int unparsable-input"
  | "ext" :: t =>
    if hasNaNBox t then judgeBoxNaN "ext" t rhs else
    match pTwo t with
    | some (a, ob, _) =>
      let cls := match ob with
        | none => "ext-nil"
        | some b => "ext-" ++ (if emptyB a then "E" else "N") ++ (if emptyB b then "E" else "N")
      match pBoxRes rhs with
      | some (some q, t1) =>
        match kbox q with
        | none => s!"SPEC {cls} NaN-in-result"
        | some j =>
          let specOk := match ob with
            | none => j == a
            | some b => isJoinB a b j && (!(emptyB b) || j == a)
          if t1.contains "argmut" then s!"SPEC {cls} Extend-mutated-its-argument"
          else if !specOk then s!"SPEC {cls} Extend-is-not-the-join"
          else if j != a.extend ob then s!"DIFF {cls} model-differs"
          else s!"OK {cls}"
      | _ => s!"SPEC {cls} unexpected-result {" ".intercalate rhs}"
    | none => "DIFF ext unparsable-input"
  | "ext3" :: t =>
    if hasNaNBox t then judgeBoxNaN "ext3" t rhs else
    match pTwo t with
    | some (a, some b, t') =>
      match pTwo (t' ++ ["NIL"]) with
      | some (c, _, _) =>
        let cls := "ext3"
        match pBoxRes rhs with
        | some (some l, t1) => match pBoxRes t1 with
          | some (some r, t2) => match pBoxRes t2 with
            | some (some ba, t3) => match pBoxRes t3 with
              | some (some aa, _) =>
                match kbox l, kbox r, kbox ba, kbox aa with
                | some l, some r, some ba, some aa =>
                  let allCanon := canon a && canon b && canon c
                  let same (x y : KBox) : Bool := if allCanon then x == y else (emptyB x && emptyB y) || x == y
                  let cs := corners a ++ corners b ++ corners c
                  let join3 (j : KBox) : Bool := match cs with | [] => emptyB j | _ :: _ => tightB cs j
                  let ml := (a.extend (some b)).extend (some c)
                  let mr := a.extend (some (b.extend (some c)))
                  let mba := b.extend (some a)
                  let maa := a.extend (some a)
                  if !(join3 l) then s!"SPEC {cls} (a+b)+c-is-not-the-join"
                  else if !(join3 r) then s!"SPEC {cls} a+(b+c)-is-not-the-join"
                  else if !(same l r) then s!"SPEC {cls} Extend-not-associative"
                  else if !(isJoinB a b ba) then s!"SPEC {cls} b+a-is-not-the-join"
                  else if !(same aa a) then s!"SPEC {cls} Extend-not-idempotent"
                  else if l != ml || r != mr || ba != mba || aa != maa then s!"DIFF {cls} model-differs"
                  else s!"OK {cls}{if allCanon then "" else "-noncanonical"}"
                | _, _, _, _ => s!"SPEC {cls} NaN-in-result"
              | _ => s!"SPEC {cls} unexpected-result"
            | _ => s!"SPEC {cls} unexpected-result"
          | _ => s!"SPEC {cls} unexpected-result"
        | _ => s!"SPEC {cls} unexpected-result {" ".intercalate (rhs.take 3)}"
      | none => "DIFF ext3 unparsable-input"
    | _ => "DIFF ext3 unparsable-input"
  | _ => "DIFF line unknown-line-kind"

/-- `cc <line>`: the answer reported for `<line>` under concurrent callers (the first one that differed from the
answer computed alone, else that one) is judged exactly like `<line>` — `boundsG`, `lenG`, `pointsOf`, the box
functions are pure functions of their operands — with the class prefixed `conc-`. -/
def judgeLine (line : String) : String :=
  match tokens line with
  | "cc" :: rest =>
    let inner := " ".intercalate rest
    let (lhs, rhs) := splitArrow rest
    let kind := lhs.headD "?"
    if rhs.head? == some "panic" then s!"SPEC conc-{kind} panicked-under-concurrent-callers"
    else
      match (judgeLine1 inner).splitOn " " with
      | v :: cls :: rest => " ".intercalate (v :: ("conc-" ++ cls) :: rest)
      | _ => s!"DIFF conc-{kind} unparsable-verdict"
  | _ => judgeLine1 line

end GeomV.C04

open GeomV GeomV.C04 in
def main (args : List String) : IO Unit := do
  let out ← IO.getStdout
  match args with
  | ["judge"] => forEachLine fun l => out.putStrLn (judgeLine l)
  | _ => IO.eprintln "usage: geomv_c04 judge"
