import GeomV.C04.Model
/-!
# C04 model, continued: the captured variables of a `Points()` closure AFTER a call that panicked (phase 4)

`Model.next` answers `Except Fault (Pt × ItSt)`: a faulting call has no state afterwards.  The Go closures do: a
recovered panic leaves the captured `i, j, k, p` wherever the statement that panicked found them, and the next call
starts from there.  `nextS` is one call with the state afterwards in BOTH cases, statement by statement:

* MultiPoint / LineString — `i++; return mp[i-1]`: `i` is incremented before the indexing panics;
* MultiLineString / Polygon — `for i == len(p[j]) { j++; i = 0 }`: the panic is `p[j]` in the loop condition, after the
  body has set `j = len(p)`, `i = 0` (`skip2S`); the later `i++` is not reached;
* MultiPolygon — the same with `k` (`skip3S`);
* `*Bounds` — `defer func() { i++ }()` runs also when the `default:` branch panics;
* GeometryCollection — `for i == gc[j].Len() { j++; i = 0; p = gc[j].Points() }; i++; return p()`: the panic is `gc[j]`
  or `gc[j].Len()` in the condition (nothing changed in this iteration), or `gc[j].Points()` in the body (`j++; i = 0`
  done, `p` still the previous member's closure), or — not reachable from a fresh iterator — `p()` after `i++`, and then
  the member closure `p` has advanced to its own state after the panic.

`ProofsAfter.lean`: `nextS` agrees with `next` (`C04_nextS_next`), and a nil-free iterator that has panicked once panics
on every later call (`C04_points_after_fault`).  The harness's `after` probe compares the five calls after `Len()`
calls (and the five calls after the first panic of a geometry with a nil member) with this machine.  Core Lean only.
-/
namespace GeomV.C04
open GeomV

variable {α : Type}

/-- the loop of the MultiLineString/Polygon closure on the members `p[j:]`: fault (if any) and the final `i, j` -/
def skip2S {β : Type} (i j : Nat) : List (List β) → Option Fault × Nat × Nat
  | [] => (some .index, i, j)
  | r :: rest => if i == r.length then skip2S 0 (j+1) rest else (none, i, j)

/-- one call of the MultiLineString/Polygon closure and the captured `i, j` afterwards -/
def next2S {β : Type} (p : List (List β)) (i j : Nat) : Except Fault β × ItSt :=
  match skip2S i j (p.drop j) with
  | (some e, i, j) => (.error e, .two i j)
  | (none, i, j) =>
    -- `i++` precedes `return p[j][i-1]`
    match idx p j with
    | .error e => (.error e, .two (i+1) j)
    | .ok r => (idx r i, .two (i+1) j)

/-- the loop of the MultiPolygon closure on the polygons `mp[k:]` -/
def skip3S {β : Type} (i j k : Nat) : List (List (List β)) → Option Fault × Nat × Nat × Nat
  | [] => (some .index, i, j, k)
  | p :: rest =>
    match skipRings i j (p.drop j) with
    | some (i, j) => (none, i, j, k)
    | none => skip3S 0 0 (k+1) rest

def next3S {β : Type} (mp : List (List (List β))) (i j k : Nat) : Except Fault β × ItSt :=
  match skip3S i j k (mp.drop k) with
  | (some e, i, j, k) => (.error e, .three i j k)
  | (none, i, j, k) =>
    match idx mp k with
    | .error e => (.error e, .three (i+1) j k)
    | .ok p =>
      match idx p j with
      | .error e => (.error e, .three (i+1) j k)
      | .ok r => (idx r i, .three (i+1) j k)

/-- one call of the `*Bounds` closure: the deferred `i++` always runs -/
def nextBS (mn mx : Pt α) (i : Nat) : Except Fault (Pt α) × ItSt :=
  (match nextB mn mx i with
   | .ok (v, _) => .ok v
   | .error e => .error e, .one (i+1))

/-- the loop of the GeometryCollection closure on the members `gc[j:]`: fault (if any) and the final `i, j, p` -/
def skipCollS [LT α] [DecidableLT α] (i j : Nat) (p : Option ItSt) :
    List (Geom α) → Option Fault × Nat × Nat × Option ItSt
  | [] => (some .index, i, j, p)                         -- `gc[j]` in the condition
  | g :: rest =>
    match lenG g with
    | .error e => (some e, i, j, p)                      -- `gc[j].Len()` in the condition
    | .ok n =>
      if i == n then
        match initHead rest with
        | .error e => (some e, 0, j+1, p)                -- `j++; i = 0` done, `p = gc[j].Points()` panicked
        | .ok p' => skipCollS 0 (j+1) (some p') rest
      else (none, i, j, p)

mutual
/-- one call of the closure returned by `g.Points()` in state `s`: what it returns or how it panics, and the captured
variables afterwards -/
def nextS [LT α] [DecidableLT α] : Geom α → ItSt → Except Fault (Pt α) × ItSt
  | .point p, .pt => (.ok p, .pt)
  | .multiPoint ps, .one i => (idx ps i, .one (i+1))
  | .lineString ps, .one i => (idx ps i, .one (i+1))
  | .multiLineString ls, .two i j => next2S ls i j
  | .polygon rs, .two i j => next2S rs i j
  | .multiPolygon mp, .three i j k => next3S mp i j k
  | .bounds mn mx, .one i => nextBS mn mx i
  | .collection gs, .coll i j p =>
    match skipCollS i j p (gs.drop j) with
    | (some e, i, j, p) => (.error e, .coll i j p)
    | (none, i, j, p) =>
      match p with
      | none => (.error .nilFunc, .coll (i+1) j none)    -- `i++` precedes `return p()`
      | some s =>
        let r := nextAtS gs j s
        (r.1, .coll (i+1) j (some r.2))
  | .nil, s => (.error .nilDeref, s)
  | _, s => (.error .badState, s)
/-- `p()` where `p` is the closure made from `gc[j]` and is in state `s` -/
def nextAtS [LT α] [DecidableLT α] : List (Geom α) → Nat → ItSt → Except Fault (Pt α) × ItSt
  | [], _, s => (.error .index, s)
  | g :: _, 0, s => nextS g s
  | _ :: gs, j+1, s => nextAtS gs j s
end

/-- the results of `n` consecutive calls starting in state `s` (panics included), and the state afterwards -/
def callsS [LT α] [DecidableLT α] (g : Geom α) : Nat → ItSt → List (Except Fault (Pt α)) × ItSt
  | 0, s => ([], s)
  | n+1, s =>
    let r := nextS g s
    let rest := callsS g n r.2
    (r.1 :: rest.1, rest.2)

/-- the harness's `after` probe on a geometry whose `Len()` returns `n`: a fresh iterator, `n` calls, then `k` more —
the results of those `k` (`none` when `Points()` itself panics) -/
def afterCalls [LT α] [DecidableLT α] (g : Geom α) (n k : Nat) : Option (List (Except Fault (Pt α))) :=
  match init g with
  | .error _ => none
  | .ok s => some ((callsS g k (callsS g n s).2).1)

/-- … and when `Len()` panics: calls until the first panic (at most `fuel`), then `k` more -/
def afterFirstFault [LT α] [DecidableLT α] (g : Geom α) (fuel k : Nat) : Option (List (Except Fault (Pt α))) :=
  let rec go : Nat → ItSt → Option ItSt
    | 0, _ => none
    | n+1, s =>
      match nextS g s with
      | (.ok _, s') => go n s'
      | (.error _, s') => some s'
  match init g with
  | .error _ => none
  | .ok s => (go fuel s).map fun s' => (callsS g k s').1

end GeomV.C04
