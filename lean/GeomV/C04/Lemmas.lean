import Mathlib.Order.MinMax
import Mathlib.Order.BoundedOrder.Basic
import Mathlib.Tactic.Order
import Mathlib.Tactic.Tauto
import GeomV.C04.Model
import GeomV.C04.Spec
/-!
# C04 helper lemmas: boxes over a bounded linear order

`α` is any linear order with least and greatest element; `pinf = ⊤`, `ninf = ⊥`.
-/
set_option linter.unusedSimpArgs false
set_option linter.unusedVariables false
set_option linter.unusedSectionVars false
namespace GeomV.C04
open GeomV GeomV.C04.Spec

/-- `math.Inf(±1)` of a bounded order -/
@[reducible] def infOfBounded (α : Type) [LE α] [OrderTop α] [OrderBot α] : HasInf α := ⟨⊤, ⊥⟩
attribute [local instance] infOfBounded

variable {α : Type} [LinearOrder α] [BoundedOrder α]

theorem pinf_eq : (pinf : α) = ⊤ := rfl
theorem ninf_eq : (ninf : α) = ⊥ := rfl

/-! ## decidable forms = semantic forms -/

theorem memB_iff (p : Pt α) (b : Box α) : memB p b = true ↔ mem p b := by
  simp [memB, mem, and_assoc]

theorem emptyB_iff (b : Box α) : emptyB b = true ↔ NoPoint b := by
  simp only [emptyB, NoPoint, mem, Bool.not_eq_true', Bool.and_eq_false_iff, decide_eq_false_iff_not]
  constructor
  · rintro h p ⟨h1, h2, h3, h4⟩
    rcases h with h | h
    · exact h (le_trans h1 h2)
    · exact h (le_trans h3 h4)
  · intro h
    by_contra hc
    simp only [not_or, not_not] at hc
    exact h b.mn ⟨le_refl _, hc.1, le_refl _, hc.2⟩

theorem model_empty_eq (b : Box α) : b.empty = emptyB b := by
  simp only [Box.empty, emptyB]
  by_cases h1 : b.mn.x ≤ b.mx.x <;> by_cases h2 : b.mn.y ≤ b.mx.y <;> simp [h1, h2, not_lt.mpr, lt_of_not_ge]

theorem not_emptyB (b : Box α) : emptyB b = false ↔ b.mn.x ≤ b.mx.x ∧ b.mn.y ≤ b.mx.y := by
  simp [emptyB]

/-- inclusion of a non-empty box is comparison of the corners -/
theorem sub_iff_of_nonempty (a c : Box α) (ha : emptyB a = false) :
    Sub a c ↔ (c.mn.x ≤ a.mn.x ∧ c.mn.y ≤ a.mn.y ∧ a.mx.x ≤ c.mx.x ∧ a.mx.y ≤ c.mx.y) := by
  rw [not_emptyB] at ha
  constructor
  · intro h
    have h1 := h a.mn ⟨le_refl _, ha.1, le_refl _, ha.2⟩
    have h2 := h a.mx ⟨ha.1, le_refl _, ha.2, le_refl _⟩
    exact ⟨h1.1, h1.2.2.1, h2.2.1, h2.2.2.2⟩
  · rintro ⟨h1, h2, h3, h4⟩ p ⟨p1, p2, p3, p4⟩
    exact ⟨le_trans h1 p1, le_trans p2 h3, le_trans h2 p3, le_trans p4 h4⟩

theorem sub_of_empty (a c : Box α) (ha : emptyB a = true) : Sub a c := by
  intro p hp; exact absurd hp ((emptyB_iff a).1 ha p)

/-! ## the envelope invariant -/

/-- a lower side `m` is `+Inf` or attained by one of the points -/
def AttMin (S : List (Pt α)) (f : Pt α → α) (m : α) : Prop := m = ⊤ ∨ ∃ v ∈ S, f v = m
/-- an upper side `m` is `-Inf` or attained by one of the points -/
def AttMax (S : List (Pt α)) (f : Pt α → α) (m : α) : Prop := m = ⊥ ∨ ∃ v ∈ S, f v = m

theorem AttMin.mono {S T : List (Pt α)} {f : Pt α → α} {m : α} (h : AttMin S f m) (hs : ∀ v ∈ S, v ∈ T) :
    AttMin T f m := by
  rcases h with h | ⟨v, hv, e⟩
  · exact Or.inl h
  · exact Or.inr ⟨v, hs v hv, e⟩

theorem AttMax.mono {S T : List (Pt α)} {f : Pt α → α} {m : α} (h : AttMax S f m) (hs : ∀ v ∈ S, v ∈ T) :
    AttMax T f m := by
  rcases h with h | ⟨v, hv, e⟩
  · exact Or.inl h
  · exact Or.inr ⟨v, hs v hv, e⟩

theorem AttMin.min {S T : List (Pt α)} {f : Pt α → α} {m m' : α} (h : AttMin S f m) (h' : AttMin T f m') :
    AttMin (S ++ T) f (min m m') := by
  rcases min_choice m m' with e | e <;> rw [e]
  · exact h.mono (fun v hv => List.mem_append_left _ hv)
  · exact h'.mono (fun v hv => List.mem_append_right _ hv)

theorem AttMax.max {S T : List (Pt α)} {f : Pt α → α} {m m' : α} (h : AttMax S f m) (h' : AttMax T f m') :
    AttMax (S ++ T) f (max m m') := by
  rcases max_choice m m' with e | e <;> rw [e]
  · exact h.mono (fun v hv => List.mem_append_left _ hv)
  · exact h'.mono (fun v hv => List.mem_append_right _ hv)

/-- `b` contains the points `S` and each side is at infinity (never extended) or touched by a point -/
structure Inv (S : List (Pt α)) (b : Box α) : Prop where
  cont : ∀ v ∈ S, mem v b
  minx : AttMin S (·.x) b.mn.x
  miny : AttMin S (·.y) b.mn.y
  maxx : AttMax S (·.x) b.mx.x
  maxy : AttMax S (·.y) b.mx.y

theorem Inv.new : Inv ([] : List (Pt α)) Box.new :=
  ⟨by simp, Or.inl rfl, Or.inl rfl, Or.inl rfl, Or.inl rfl⟩

theorem Inv.congr {S T : List (Pt α)} {b : Box α} (h : Inv S b) (e : ∀ v, v ∈ S ↔ v ∈ T) : Inv T b :=
  ⟨fun v hv => h.cont v ((e v).2 hv), h.minx.mono fun v hv => (e v).1 hv, h.miny.mono fun v hv => (e v).1 hv,
   h.maxx.mono fun v hv => (e v).1 hv, h.maxy.mono fun v hv => (e v).1 hv⟩

theorem Inv.extendPoint {S : List (Pt α)} {b : Box α} (h : Inv S b) (p : Pt α) :
    Inv (S ++ [p]) (b.extendPoint p) := by
  have sp : ∀ f : Pt α → α, AttMin [p] f (f p) := fun f => Or.inr ⟨p, by simp, rfl⟩
  have sq : ∀ f : Pt α → α, AttMax [p] f (f p) := fun f => Or.inr ⟨p, by simp, rfl⟩
  refine ⟨?_, h.minx.min (sp _), h.miny.min (sp _), h.maxx.max (sq _), h.maxy.max (sq _)⟩
  intro v hv
  rcases List.mem_append.1 hv with hv | hv
  · obtain ⟨h1, h2, h3, h4⟩ := h.cont v hv
    exact ⟨le_trans (min_le_left _ _) h1, le_trans h2 (le_max_left _ _),
           le_trans (min_le_left _ _) h3, le_trans h4 (le_max_left _ _)⟩
  · simp at hv; subst hv
    exact ⟨min_le_right _ _, le_max_right _ _, min_le_right _ _, le_max_right _ _⟩

theorem Inv.extendPoints {S : List (Pt α)} {b : Box α} (h : Inv S b) (ps : List (Pt α)) :
    Inv (S ++ ps) (b.extendPoints ps) := by
  induction ps generalizing S b with
  | nil => simpa [Box.extendPoints] using h
  | cons p ps ih =>
    have := ih (h.extendPoint p)
    simpa [Box.extendPoints, List.append_assoc] using this

theorem Inv.extendPointss {S : List (Pt α)} {b : Box α} (h : Inv S b) (pss : List (List (Pt α))) :
    Inv (S ++ pss.flatten) (b.extendPointss pss) := by
  induction pss generalizing S b with
  | nil => simpa [Box.extendPointss] using h
  | cons p ps ih =>
    have := ih (h.extendPoints p)
    simpa [Box.extendPointss, List.append_assoc] using this

/-- an `Inv` box with a point is not empty; one without points that is not empty exists only if `⊤ ≤ ⊥` -/
theorem Inv.nonempty_of_mem {S : List (Pt α)} {b : Box α} (h : Inv S b) {v : Pt α} (hv : v ∈ S) :
    emptyB b = false := by
  obtain ⟨h1, h2, h3, h4⟩ := h.cont v hv
  rw [not_emptyB]; exact ⟨le_trans h1 h2, le_trans h3 h4⟩

theorem Inv.extend {S T : List (Pt α)} {b b2 : Box α} (h : Inv S b) (h2 : Inv T b2) :
    Inv (S ++ T) (b.extend (some b2)) := by
  simp only [Box.extend, model_empty_eq]
  cases he : emptyB b2 with
  | true =>
    have hT : T = [] := by
      cases T with
      | nil => rfl
      | cons v vs => have := h2.nonempty_of_mem (v := v) (by simp); simp [he] at this
    subst hT; simpa using h
  | false =>
    simp only [Bool.false_eq_true, if_false]
    cases hb : emptyB b with
    | true =>
      have hS : S = [] := by
        cases S with
        | nil => rfl
        | cons v vs => have := h.nonempty_of_mem (v := v) (by simp); simp [hb] at this
      subst hS
      have e : (⟨b2.mn, b2.mx⟩ : Box α) = b2 := rfl
      simpa [e] using h2
    | false =>
    simp only [Bool.false_eq_true, if_false]
    obtain ⟨ex, ey⟩ := (not_emptyB b2).1 he
    have e1 : min (min b.mn.x b2.mn.x) b2.mx.x = min b.mn.x b2.mn.x := by
      apply min_eq_left; exact le_trans (min_le_right _ _) ex
    have e2 : min (min b.mn.y b2.mn.y) b2.mx.y = min b.mn.y b2.mn.y := by
      apply min_eq_left; exact le_trans (min_le_right _ _) ey
    have e3 : max (max b.mx.x b2.mn.x) b2.mx.x = max b.mx.x b2.mx.x := by
      rw [max_assoc, max_eq_right ex]
    have e4 : max (max b.mx.y b2.mn.y) b2.mx.y = max b.mx.y b2.mx.y := by
      rw [max_assoc, max_eq_right ey]
    simp only [Box.extendPoint, e1, e2, e3, e4]
    refine ⟨?_, h.minx.min h2.minx, h.miny.min h2.miny, h.maxx.max h2.maxx, h.maxy.max h2.maxy⟩
    intro v hv
    rcases List.mem_append.1 hv with hv | hv
    · obtain ⟨h1, h2, h3, h4⟩ := h.cont v hv
      exact ⟨le_trans (min_le_left _ _) h1, le_trans h2 (le_max_left _ _),
             le_trans (min_le_left _ _) h3, le_trans h4 (le_max_left _ _)⟩
    · obtain ⟨h1, h2', h3, h4⟩ := h2.cont v hv
      exact ⟨le_trans (min_le_right _ _) h1, le_trans h2' (le_max_right _ _),
             le_trans (min_le_right _ _) h3, le_trans h4 (le_max_right _ _)⟩

/-- the invariant characterises the envelope -/
theorem Inv.isEnvelope {S : List (Pt α)} {b : Box α} (h : Inv S b) : IsEnvelope S b := by
  cases S with
  | nil =>
    simp only [IsEnvelope, emptyBox]
    have e1 : b.mn.x = ⊤ := by rcases h.minx with e | ⟨v, hv, _⟩; exact e; simp at hv
    have e2 : b.mn.y = ⊤ := by rcases h.miny with e | ⟨v, hv, _⟩; exact e; simp at hv
    have e3 : b.mx.x = ⊥ := by rcases h.maxx with e | ⟨v, hv, _⟩; exact e; simp at hv
    have e4 : b.mx.y = ⊥ := by rcases h.maxy with e | ⟨v, hv, _⟩; exact e; simp at hv
    obtain ⟨⟨a, b'⟩, ⟨c, d⟩⟩ := b
    simp at e1 e2 e3 e4; subst e1 e2 e3 e4; rfl
  | cons w ws =>
    refine ⟨h.cont, ?_⟩
    intro c hc p ⟨p1, p2, p3, p4⟩
    obtain ⟨w1, w2, w3, w4⟩ := h.cont w (by simp)
    have a1 : c.mn.x ≤ b.mn.x := by
      rcases h.minx with e | ⟨v, hv, e⟩
      · rw [e]; exact le_top
      · rw [← e]; exact (hc v hv).1
    have a2 : c.mn.y ≤ b.mn.y := by
      rcases h.miny with e | ⟨v, hv, e⟩
      · rw [e]; exact le_top
      · rw [← e]; exact (hc v hv).2.2.1
    have a3 : b.mx.x ≤ c.mx.x := by
      rcases h.maxx with e | ⟨v, hv, e⟩
      · rw [e]; exact bot_le
      · rw [← e]; exact (hc v hv).2.1
    have a4 : b.mx.y ≤ c.mx.y := by
      rcases h.maxy with e | ⟨v, hv, e⟩
      · rw [e]; exact bot_le
      · rw [← e]; exact (hc v hv).2.2.2
    exact ⟨le_trans a1 p1, le_trans p2 a3, le_trans a2 p3, le_trans p4 a4⟩

end GeomV.C04

namespace GeomV.C04
open GeomV GeomV.C04.Spec
attribute [local instance] infOfBounded

section boundsfold
variable {α : Type} [LinearOrder α] [BoundedOrder α]

theorem Inv.foldLines {S : List (Pt α)} {b : Box α} (h : Inv S b) (ls : List (List (Pt α))) :
    Inv (S ++ ls.flatten) (ls.foldl (fun b l => b.extend (some (Box.new.extendPoints l))) b) := by
  induction ls generalizing S b with
  | nil => simpa using h
  | cons l ls ih =>
    have hl : Inv l (Box.new.extendPoints l) := by simpa using Inv.new.extendPoints l
    have := ih (h.extend hl)
    simpa [List.append_assoc] using this

theorem Inv.foldPolys {S : List (Pt α)} {b : Box α} (h : Inv S b) (ps : List (List (List (Pt α)))) :
    Inv (S ++ (ps.map List.flatten).flatten)
      (ps.foldl (fun b p => b.extend (some (Box.new.extendPointss p))) b) := by
  induction ps generalizing S b with
  | nil => simpa using h
  | cons p ps ih =>
    have hl : Inv p.flatten (Box.new.extendPointss p) := by simpa using Inv.new.extendPointss p
    have := ih (h.extend hl)
    simpa [List.append_assoc] using this

theorem Inv.ofPoint (p : Pt α) : Inv [p] (Box.ofPoint p) :=
  ⟨by simp [mem, Box.ofPoint], Or.inr ⟨p, by simp, rfl⟩, Or.inr ⟨p, by simp, rfl⟩,
   Or.inr ⟨p, by simp, rfl⟩, Or.inr ⟨p, by simp, rfl⟩⟩

theorem Inv.corners (mn mx : Pt α) (h : emptyB (⟨mn, mx⟩ : Box α) = false) :
    Inv [mn, ⟨mx.x, mn.y⟩, mx, ⟨mn.x, mx.y⟩] (⟨mn, mx⟩ : Box α) := by
  obtain ⟨hx, hy⟩ := (not_emptyB _).1 h
  simp only at hx hy
  refine ⟨?_, Or.inr ⟨mn, by simp, rfl⟩, Or.inr ⟨mn, by simp, rfl⟩, Or.inr ⟨mx, by simp, rfl⟩, Or.inr ⟨mx, by simp, rfl⟩⟩
  intro v hv
  simp at hv
  rcases hv with e | e | e | e <;> subst e <;> simp [mem, hx, hy]

end boundsfold

section lens
variable {β : Type}

theorem foldl_len (ls : List (List β)) (a : Nat) :
    ls.foldl (fun i l => i + l.length) a = a + ls.flatten.length := by
  induction ls generalizing a with
  | nil => simp
  | cons l ls ih => simp [ih, Nat.add_assoc]

theorem sumLen_eq (ls : List (List β)) : sumLen ls = ls.flatten.length := by
  simp [sumLen, foldl_len]

theorem foldl_len2 (ps : List (List (List β))) (a : Nat) :
    ps.foldl (fun i p => i + sumLen p) a = a + (ps.map List.flatten).flatten.length := by
  induction ps generalizing a with
  | nil => simp
  | cons p ps ih =>
    rw [List.foldl_cons, ih, sumLen_eq]
    simp [Nat.add_assoc]

theorem sumLen2_eq (ps : List (List (List β))) : sumLen2 ps = (ps.map List.flatten).flatten.length := by
  simp [sumLen2, foldl_len2]

end lens

end GeomV.C04

/-! ## the judge's decidable checks are the semantic specification -/
namespace GeomV.C04
open GeomV GeomV.C04.Spec
attribute [local instance] infOfBounded

section checkers
variable {α : Type} [LinearOrder α] [BoundedOrder α]

theorem sharePointB_iff (a b : Box α) : sharePointB a b = true ↔ SharePoint a b := by
  simp only [sharePointB, Bool.and_eq_true, memB_iff]
  constructor
  · intro h; exact ⟨lo a b, h.1, h.2⟩
  · rintro ⟨p, ⟨a1, a2, a3, a4⟩, ⟨b1, b2, b3, b4⟩⟩
    exact ⟨⟨le_max_left _ _, le_trans (max_le a1 b1) a2, le_max_left _ _, le_trans (max_le a3 b3) a4⟩,
           ⟨le_max_right _ _, le_trans (max_le a1 b1) b2, le_max_right _ _, le_trans (max_le a3 b3) b4⟩⟩

theorem box_ext {r s : Box α} (h1 : r.mn.x = s.mn.x) (h2 : r.mn.y = s.mn.y) (h3 : r.mx.x = s.mx.x)
    (h4 : r.mx.y = s.mx.y) : r = s := by
  obtain ⟨⟨a, b⟩, ⟨c, d⟩⟩ := r
  obtain ⟨⟨a', b'⟩, ⟨c', d'⟩⟩ := s
  simp at h1 h2 h3 h4; subst h1 h2 h3 h4; rfl

/-- two boxes with the same points, one of them with a point, are equal -/
theorem eq_of_same_points (r s : Box α) (hr : emptyB r = false) (h : ∀ p, mem p r ↔ mem p s) : r = s := by
  have hs : emptyB s = false := by
    obtain ⟨hx, hy⟩ := (not_emptyB r).1 hr
    obtain ⟨s1, s2, s3, s4⟩ := (h r.mn).1 ⟨le_refl _, hx, le_refl _, hy⟩
    rw [not_emptyB]; exact ⟨le_trans s1 s2, le_trans s3 s4⟩
  obtain ⟨a1, a2, a3, a4⟩ := (sub_iff_of_nonempty r s hr).1 (fun p hp => (h p).1 hp)
  obtain ⟨b1, b2, b3, b4⟩ := (sub_iff_of_nonempty s r hs).1 (fun p hp => (h p).2 hp)
  exact box_ext (le_antisymm b1 a1) (le_antisymm b2 a2) (le_antisymm a3 b3) (le_antisymm a4 b4)

/-- `tightB` gives the invariant -/
theorem inv_of_tightB (S : List (Pt α)) (b : Box α) (h : tightB S b = true) : Inv S b := by
  simp only [tightB, Bool.and_eq_true, List.all_eq_true, List.any_eq_true, decide_eq_true_eq, memB_iff] at h
  obtain ⟨⟨⟨⟨hc, ⟨w1, m1, l1⟩⟩, ⟨w2, m2, l2⟩⟩, ⟨w3, m3, l3⟩⟩, ⟨w4, m4, l4⟩⟩ := h
  exact ⟨hc, Or.inr ⟨w1, m1, le_antisymm l1 (hc w1 m1).1⟩, Or.inr ⟨w2, m2, le_antisymm l2 (hc w2 m2).2.2.1⟩,
    Or.inr ⟨w3, m3, le_antisymm (hc w3 m3).2.1 l3⟩, Or.inr ⟨w4, m4, le_antisymm (hc w4 m4).2.2.2 l4⟩⟩

/-- the "smallest box containing" form of `IsEnvelope` for a non-empty point list -/
def Smallest (S : List (Pt α)) (b : Box α) : Prop :=
  (∀ v ∈ S, mem v b) ∧ ∀ c : Box α, (∀ v ∈ S, mem v c) → Sub b c

theorem tightB_iff (v : Pt α) (vs : List (Pt α)) (b : Box α) :
    tightB (v :: vs) b = true ↔ Smallest (v :: vs) b := by
  constructor
  · intro h
    have := (inv_of_tightB _ _ h).isEnvelope
    simpa [IsEnvelope, Smallest] using this
  · rintro ⟨hc, hmin⟩
    have hi : Inv (v :: vs) (Box.new.extendPoints (v :: vs)) := by
      simpa using Inv.new.extendPoints (v :: vs)
    have hb : emptyB b = false := by
      obtain ⟨h1, h2, h3, h4⟩ := hc v (by simp)
      rw [not_emptyB]; exact ⟨le_trans h1 h2, le_trans h3 h4⟩
    obtain ⟨c1, c2, c3, c4⟩ := (sub_iff_of_nonempty b _ hb).1 (hmin _ hi.cont)
    simp only [tightB, Bool.and_eq_true, List.all_eq_true, List.any_eq_true, decide_eq_true_eq, memB_iff]
    refine ⟨⟨⟨⟨hc, ?_⟩, ?_⟩, ?_⟩, ?_⟩
    · rcases hi.minx with e | ⟨w, hw, e⟩
      · exact ⟨v, by simp, le_trans le_top (by rw [← e]; exact c1)⟩
      · exact ⟨w, hw, by simp only at e; rw [e]; exact c1⟩
    · rcases hi.miny with e | ⟨w, hw, e⟩
      · exact ⟨v, by simp, le_trans le_top (by rw [← e]; exact c2)⟩
      · exact ⟨w, hw, by simp only at e; rw [e]; exact c2⟩
    · rcases hi.maxx with e | ⟨w, hw, e⟩
      · exact ⟨v, by simp, le_trans (by rw [← e]; exact c3) bot_le⟩
      · exact ⟨w, hw, by simp only at e; rw [e]; exact c3⟩
    · rcases hi.maxy with e | ⟨w, hw, e⟩
      · exact ⟨v, by simp, le_trans (by rw [← e]; exact c4) bot_le⟩
      · exact ⟨w, hw, by simp only at e; rw [e]; exact c4⟩

theorem isEnvelopeB_iff (vs : List (Pt α)) (b : Box α) : isEnvelopeB vs b = true ↔ IsEnvelope vs b := by
  cases vs with
  | nil => simp [isEnvelopeB, IsEnvelope]
  | cons v vs => simpa [isEnvelopeB, IsEnvelope, Smallest] using tightB_iff v vs b

/-- containing the extreme corners of `a` is containing `a` -/
theorem corners_mem_iff (a c : Box α) : (∀ v ∈ corners a, mem v c) ↔ Sub a c := by
  simp only [corners]
  cases ha : emptyB a with
  | true => simp [sub_of_empty a c ha]
  | false =>
    obtain ⟨hx, hy⟩ := (not_emptyB a).1 ha
    rw [sub_iff_of_nonempty a c ha]
    simp only [Bool.false_eq_true, if_false, List.mem_cons, List.not_mem_nil, or_false, forall_eq_or_imp, forall_eq, mem]
    constructor
    · rintro ⟨⟨h1, _, h3, _⟩, ⟨_, h6, _, h8⟩⟩; exact ⟨h1, h3, h6, h8⟩
    · rintro ⟨h1, h2, h3, h4⟩
      exact ⟨⟨h1, le_trans hx h3, h2, le_trans hy h4⟩, ⟨le_trans h1 hx, h3, le_trans h2 hy, h4⟩⟩

theorem isJoin_iff_smallest (a b j : Box α) : IsJoin a b j ↔ Smallest (corners a ++ corners b) j := by
  simp only [IsJoin, Smallest, List.mem_append, or_imp, forall_and, corners_mem_iff]
  constructor
  · rintro ⟨h1, h2, h3⟩; exact ⟨⟨h1, h2⟩, fun c hc => h3 c hc.1 hc.2⟩
  · rintro ⟨⟨h1, h2⟩, h3⟩; exact ⟨h1, h2, fun c ha hb => h3 c ⟨ha, hb⟩⟩

theorem isJoinB_iff (a b j : Box α) : isJoinB a b j = true ↔ IsJoin a b j := by
  rw [isJoin_iff_smallest]
  simp only [isJoinB]
  cases hcs : corners a ++ corners b with
  | cons c cs => exact tightB_iff c cs j
  | nil =>
    have ha : emptyB a = true := by
      cases h : emptyB a with
      | true => rfl
      | false => simp [corners, h] at hcs
    simp only [Smallest, List.not_mem_nil, false_imp_iff, implies_true, true_and, forall_const]
    constructor
    · intro hj c; exact sub_of_empty j c hj
    · intro h
      -- an empty box exists, so `⊥ < ⊤`, so `NewBounds()` has no point
      have hne : (⊥ : α) < ⊤ := by
        simp only [emptyB, Bool.not_eq_true', Bool.and_eq_false_iff, decide_eq_false_iff_not, not_le] at ha
        rcases ha with ha | ha
        · exact lt_of_le_of_lt bot_le (lt_of_lt_of_le ha le_top)
        · exact lt_of_le_of_lt bot_le (lt_of_lt_of_le ha le_top)
      rw [emptyB_iff]
      intro p hp
      obtain ⟨h1, h2, _, _⟩ := h Box.new p hp
      simp only [Box.new, pinf_eq, ninf_eq] at h1 h2
      exact absurd (le_trans h1 h2) (not_le.mpr hne)

end checkers
end GeomV.C04
