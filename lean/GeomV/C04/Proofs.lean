import GeomV.C04.Lemmas
import GeomV.C04.Iter
import GeomV.C04.KeyOrder
/-!
# C04 — property theorems

`α` is an arbitrary linear order with least and greatest element (`-Inf`, `+Inf`): the statements hold
for every coordinate value including infinities; the sign of zero is invisible because the order
is on values.  Geometries range over all of `Geom α` (eight types, nested collections, any number
of empty members anywhere).
-/
set_option linter.unusedSimpArgs false
set_option linter.unusedVariables false
set_option linter.unusedSectionVars false
namespace GeomV.C04
open GeomV GeomV.C04.Spec
attribute [local instance] infOfBounded

/-! ## Len -/

section len
variable {α : Type} [LT α] [DecidableLT α]

mutual
/-- **C04_len.** `Len()` is the number of vertices, for every geometry without nil members. -/
theorem C04_len (g : Geom α) (h : noNil g = true) : lenG g = .ok (vertices g).length := by
  cases g with
  | collection gs => simp only [lenG, vertices]; exact C04_lenL gs (by simpa [noNil] using h)
  | nil => simp [noNil] at h
  | point p => rfl
  | multiPoint ps => rfl
  | lineString ps => rfl
  | multiLineString ls => simp [lenG, vertices, sumLen_eq]
  | polygon rs => simp [lenG, vertices, sumLen_eq]
  | multiPolygon ps => simp [lenG, vertices, sumLen2_eq]
  | bounds mn mx =>
    by_cases hE : (decide (mx.x < mn.x) || decide (mx.y < mn.y)) = true <;> simp [lenG, vertices, Box.empty, hE]
theorem C04_lenL (gs : List (Geom α)) (h : noNilL gs = true) : lenL gs = .ok (verticesL gs).length := by
  cases gs with
  | nil => rfl
  | cons g gs =>
    simp only [noNilL, Bool.and_eq_true] at h
    simp [lenL, verticesL, C04_len g h.1, C04_lenL gs h.2, bind, Except.bind, pure, Except.pure]
end

/-- **C04_points.** For every geometry without nil members — any of the eight types, collections
nested to any depth, any number of consecutive members without vertices (empty rings, line strings,
polygons, collections) anywhere — calling the closure returned by `Points()` exactly `Len()` times
raises no fault and returns exactly the vertices in storage order. -/
theorem C04_points (g : Geom α) (h : noNil g = true) : pointsOf g = .ok (vertices g) := by
  have hg := good g h C04_len
  obtain ⟨s0, hs0, hr0⟩ := hg.2.1
  simp [pointsOf, hg.1, hs0, drain_of_good g hg (vertices g) s0 hr0, bind, Except.bind]

/-- every single call within the first `Len()` calls returns without a fault (prefix form):
after any `n ≤ Len()` calls the closure has returned the first `n` vertices. -/
theorem C04_points_prefix (g : Geom α) (h : noNil g = true) (n : Nat) (hn : n ≤ (vertices g).length) :
    ∃ s0, init g = .ok s0 ∧ drain g n s0 = .ok ((vertices g).take n) := by
  have hg := good g h C04_len
  obtain ⟨s0, hs0, hr0⟩ := hg.2.1
  refine ⟨s0, hs0, ?_⟩
  clear hs0
  generalize vertices g = vs at hn hr0
  induction n generalizing s0 vs with
  | zero => rfl
  | succ n ih =>
    cases vs with
    | nil => simp at hn
    | cons v vs =>
      obtain ⟨s', hnx, hr⟩ := hg.2.2 s0 v vs hr0
      simp [drain, hnx, ih s' vs (by simpa using hn) hr, bind, Except.bind, pure, Except.pure]

end len

section boxes
variable {α : Type} [LinearOrder α] [BoundedOrder α]

/-! ## boxes -/

/-- **C04_copy.** `Copy` returns an equal box. -/
theorem C04_copy (b : Box α) : b.copy = b := rfl

/-- `Empty()` is true exactly when the box has no point. -/
theorem C04_empty (b : Box α) : b.empty = true ↔ NoPoint b := by
  rw [model_empty_eq, emptyB_iff]

/-- **C04_overlaps.** For all boxes (with or without points): `Overlaps` is true exactly when the
closed boxes share a point. -/
theorem C04_overlaps (a b : Box α) : a.overlaps b = true ↔ SharePoint a b := by
  simp only [Box.overlaps, model_empty_eq]
  cases ha : emptyB a with
  | true =>
    simp only [Bool.not_true, Bool.false_and, Bool.false_eq_true, false_iff]
    rintro ⟨p, hp, _⟩; exact (emptyB_iff a).1 ha p hp
  | false =>
  cases hb : emptyB b with
  | true =>
    simp only [Bool.not_true, Bool.and_false, Bool.false_and, Bool.false_eq_true, false_iff]
    rintro ⟨p, _, hp⟩; exact (emptyB_iff b).1 hb p hp
  | false =>
  obtain ⟨ax, ay⟩ := (not_emptyB a).1 ha
  obtain ⟨bx, by'⟩ := (not_emptyB b).1 hb
  simp only [Bool.not_false, Bool.true_and, Bool.and_eq_true, decide_eq_true_eq, SharePoint, mem]
  constructor
  · rintro ⟨⟨⟨h1, h2⟩, h3⟩, h4⟩
    exact ⟨⟨max a.mn.x b.mn.x, max a.mn.y b.mn.y⟩,
      ⟨le_max_left _ _, max_le ax h3, le_max_left _ _, max_le ay h4⟩,
      ⟨le_max_right _ _, max_le h1 bx, le_max_right _ _, max_le h2 by'⟩⟩
  · rintro ⟨p, ⟨a1, a2, a3, a4⟩, ⟨b1, b2, b3, b4⟩⟩
    exact ⟨⟨⟨le_trans a1 b2, le_trans a3 b4⟩, le_trans b1 a2⟩, le_trans b3 a4⟩

theorem lo_hi_area (a b : Box α) :
    HasCommonArea a b ↔ (max a.mn.x b.mn.x < min a.mx.x b.mx.x ∧ max a.mn.y b.mn.y < min a.mx.y b.mx.y) := by
  constructor
  · rintro ⟨p, q, ⟨pa1, _, pa3, _⟩, ⟨pb1, _, pb3, _⟩, ⟨_, qa2, _, qa4⟩, ⟨_, qb2, _, qb4⟩, hx, hy⟩
    exact ⟨lt_of_le_of_lt (max_le pa1 pb1) (lt_of_lt_of_le hx (le_min qa2 qb2)),
           lt_of_le_of_lt (max_le pa3 pb3) (lt_of_lt_of_le hy (le_min qa4 qb4))⟩
  · rintro ⟨hx, hy⟩
    have hx' := le_of_lt hx
    have hy' := le_of_lt hy
    refine ⟨⟨max a.mn.x b.mn.x, max a.mn.y b.mn.y⟩, ⟨min a.mx.x b.mx.x, min a.mx.y b.mx.y⟩, ?_, ?_, ?_, ?_, hx, hy⟩
    · exact ⟨le_max_left _ _, le_trans hx' (min_le_left _ _), le_max_left _ _, le_trans hy' (min_le_left _ _)⟩
    · exact ⟨le_max_right _ _, le_trans hx' (min_le_right _ _), le_max_right _ _, le_trans hy' (min_le_right _ _)⟩
    · exact ⟨le_trans (le_max_left _ _) hx', min_le_left _ _, le_trans (le_max_left _ _) hy', min_le_left _ _⟩
    · exact ⟨le_trans (le_max_right _ _) hx', min_le_right _ _, le_trans (le_max_right _ _) hy', min_le_right _ _⟩

theorem commonRect_lo_hi (a b : Box α) : IsCommonRect a b ⟨lo a b, hi a b⟩ := by
  intro p
  simp only [mem, lo, hi, max_le_iff, le_min_iff]
  tauto

/-- **C04_intersection.** For all boxes (empty or not): box–box `Intersection` is nil exactly when
the boxes share no area, and otherwise it is exactly their common rectangle. -/
theorem C04_intersection (a b : Box α) :
    (a.intersection b = none ↔ ¬ HasCommonArea a b) ∧
    (∀ r, a.intersection b = some r → IsCommonRect a b r ∧ HasCommonArea a b) := by
  rw [lo_hi_area]
  simp only [Box.intersection]
  by_cases hx : min a.mx.x b.mx.x ≤ max a.mn.x b.mn.x
  · simp [hx, not_lt.mpr hx]
  · by_cases hy : min a.mx.y b.mx.y ≤ max a.mn.y b.mn.y
    · simp [hx, hy, not_lt.mpr hy]
    · simp only [hx, hy, decide_false, Bool.or_self, Bool.false_eq_true, if_false]
      refine ⟨by simp [not_le.mp hx, not_le.mp hy], ?_⟩
      intro r hr
      simp at hr; subst hr
      exact ⟨commonRect_lo_hi a b, not_le.mp hx, not_le.mp hy⟩

/-! ### Extend is the lattice join -/

/-- componentwise min of the Min corners and max of the Max corners -/
def cw (a b : Box α) : Box α :=
  ⟨⟨min a.mn.x b.mn.x, min a.mn.y b.mn.y⟩, ⟨max a.mx.x b.mx.x, max a.mx.y b.mx.y⟩⟩

theorem extend_nonempty (a b : Box α) (ha : emptyB a = false) (hb : emptyB b = false) :
    a.extend (some b) = cw a b := by
  obtain ⟨ex, ey⟩ := (not_emptyB b).1 hb
  simp only [Box.extend, model_empty_eq, ha, hb, Bool.false_eq_true, if_false, Box.extendPoint, cw]
  have e1 : min (min a.mn.x b.mn.x) b.mx.x = min a.mn.x b.mn.x :=
    min_eq_left (le_trans (min_le_right _ _) ex)
  have e2 : min (min a.mn.y b.mn.y) b.mx.y = min a.mn.y b.mn.y :=
    min_eq_left (le_trans (min_le_right _ _) ey)
  have e3 : max (max a.mx.x b.mn.x) b.mx.x = max a.mx.x b.mx.x := by rw [max_assoc, max_eq_right ex]
  have e4 : max (max a.mx.y b.mn.y) b.mx.y = max a.mx.y b.mx.y := by rw [max_assoc, max_eq_right ey]
  rw [e1, e2, e3, e4]

theorem extend_empty_right (a b : Box α) (hb : emptyB b = true) : a.extend (some b) = a := by
  simp [Box.extend, model_empty_eq, hb]

theorem extend_empty_left (a b : Box α) (ha : emptyB a = true) (hb : emptyB b = false) :
    a.extend (some b) = b := by
  simp [Box.extend, model_empty_eq, ha, hb]

theorem cw_new_right (a : Box α) : cw a Box.new = a := by
  simp [cw, Box.new, pinf_eq, ninf_eq]

theorem cw_new_left (a : Box α) : cw Box.new a = a := by
  simp [cw, Box.new, pinf_eq, ninf_eq]

theorem new_eq_emptyBox : (Box.new : Box α) = emptyBox := rfl

/-- on canonical boxes `Extend` is the componentwise formula -/
theorem extend_canon (a b : Box α) (ha : Canon a) (hb : Canon b) : a.extend (some b) = cw a b := by
  cases hea : emptyB a with
  | false =>
    cases heb : emptyB b with
    | false => exact extend_nonempty a b hea heb
    | true =>
      rcases hb with hb | hb
      · simp [heb] at hb
      · rw [extend_empty_right a b heb, hb, ← new_eq_emptyBox, cw_new_right]
  | true =>
    rcases ha with ha | ha
    · simp [hea] at ha
    · cases heb : emptyB b with
      | false => rw [extend_empty_left a b hea heb, ha, ← new_eq_emptyBox, cw_new_left]
      | true =>
        rcases hb with hb | hb
        · simp [heb] at hb
        · rw [extend_empty_right a b heb, ha, hb, ← new_eq_emptyBox, cw_new_right]

theorem canon_cw (a b : Box α) (ha : Canon a) (hb : Canon b) : Canon (cw a b) := by
  rcases ha with ha | ha
  · left
    obtain ⟨ex, ey⟩ := (not_emptyB a).1 ha
    rw [not_emptyB]
    exact ⟨le_trans (min_le_left _ _) (le_trans ex (le_max_left _ _)),
           le_trans (min_le_left _ _) (le_trans ey (le_max_left _ _))⟩
  · rw [← new_eq_emptyBox] at ha; subst ha; rw [cw_new_left]; exact hb

theorem sub_refl (a : Box α) : Sub a a := fun _ h => h
theorem sub_trans {a b c : Box α} (h1 : Sub a b) (h2 : Sub b c) : Sub a c := fun p h => h2 p (h1 p h)

/-- **C04_extend_join.** For ALL boxes `a`, `b` (with or without points, canonical or not; nil
excluded): `a.Extend(b)` is the least upper bound of `a` and `b` in the inclusion order of boxes. -/
theorem C04_extend_join (a b : Box α) : IsJoin a b (a.extend (some b)) := by
  cases hb : emptyB b with
  | true =>
    rw [extend_empty_right a b hb]
    exact ⟨sub_refl a, sub_of_empty b a hb, fun c h _ => h⟩
  | false =>
  cases ha : emptyB a with
  | true =>
    rw [extend_empty_left a b ha hb]
    exact ⟨sub_of_empty a b ha, sub_refl b, fun c _ h => h⟩
  | false =>
    rw [extend_nonempty a b ha hb]
    obtain ⟨bx, by'⟩ := (not_emptyB b).1 hb
    have hj : emptyB (cw a b) = false := by
      rw [not_emptyB]
      exact ⟨le_trans (min_le_right _ _) (le_trans bx (le_max_right _ _)),
             le_trans (min_le_right _ _) (le_trans by' (le_max_right _ _))⟩
    refine ⟨?_, ?_, ?_⟩
    · rw [sub_iff_of_nonempty a _ ha]
      exact ⟨min_le_left _ _, min_le_left _ _, le_max_left _ _, le_max_left _ _⟩
    · rw [sub_iff_of_nonempty b _ hb]
      exact ⟨min_le_right _ _, min_le_right _ _, le_max_right _ _, le_max_right _ _⟩
    · intro c hac hbc
      rw [sub_iff_of_nonempty _ c hj]
      rw [sub_iff_of_nonempty b c hb] at hbc
      rw [sub_iff_of_nonempty a c ha] at hac
      obtain ⟨b1, b2, b3, b4⟩ := hbc
      obtain ⟨a1, a2, a3, a4⟩ := hac
      exact ⟨le_min a1 b1, le_min a2 b2, max_le a3 b3, max_le a4 b4⟩

/-- `Extend` keeps boxes canonical (has a point, or is exactly `NewBounds()`). -/
theorem C04_extend_canon (a b : Box α) (ha : Canon a) (hb : Canon b) : Canon (a.extend (some b)) := by
  rw [extend_canon a b ha hb]; exact canon_cw a b ha hb

/-- **C04_extend_laws.** On canonical boxes (every box the library produces) `Extend` is commutative,
associative and idempotent *as an equation between boxes*, the empty box is its identity on both
sides, and a nil argument changes nothing. -/
theorem C04_extend_laws (a b c : Box α) (ha : Canon a) (hb : Canon b) (hc : Canon c) :
    a.extend (some b) = b.extend (some a) ∧
    (a.extend (some b)).extend (some c) = a.extend (some (b.extend (some c))) ∧
    a.extend (some a) = a ∧
    a.extend (some Box.new) = a ∧ (Box.new : Box α).extend (some a) = a ∧
    a.extend none = a := by
  have hn : Canon (Box.new : Box α) := Or.inr rfl
  have hab := C04_extend_canon a b ha hb
  have hbc := C04_extend_canon b c hb hc
  rw [extend_canon _ c hab hc, extend_canon a _ ha hbc, extend_canon a b ha hb, extend_canon b a hb ha,
      extend_canon b c hb hc, extend_canon a a ha ha, extend_canon a _ ha hn, extend_canon _ a hn ha]
  refine ⟨?_, ?_, ?_, cw_new_right a, cw_new_left a, rfl⟩
  · simp [cw, min_comm, max_comm]
  · simp [cw, min_assoc, max_assoc]
  · simp [cw]

/-- the same point set -/
def SameSet (a b : Box α) : Prop := Sub a b ∧ Sub b a

/-- **C04_extend_laws_sets.** For ALL boxes, including arbitrary empty structs, the join laws hold
as equations between point sets (pairs and triples of boxes). -/
theorem C04_extend_laws_sets (a b c : Box α) :
    SameSet (a.extend (some b)) (b.extend (some a)) ∧
    SameSet ((a.extend (some b)).extend (some c)) (a.extend (some (b.extend (some c)))) ∧
    SameSet (a.extend (some a)) a := by
  obtain ⟨ab1, ab2, ab3⟩ := C04_extend_join a b
  obtain ⟨ba1, ba2, ba3⟩ := C04_extend_join b a
  obtain ⟨bc1, bc2, bc3⟩ := C04_extend_join b c
  obtain ⟨l1, l2, l3⟩ := C04_extend_join (a.extend (some b)) c
  obtain ⟨r1, r2, r3⟩ := C04_extend_join a (b.extend (some c))
  obtain ⟨aa1, _, aa3⟩ := C04_extend_join a a
  refine ⟨⟨ab3 _ ba2 ba1, ba3 _ ab2 ab1⟩, ⟨?_, ?_⟩, ⟨aa3 a (sub_refl a) (sub_refl a), aa1⟩⟩
  · exact l3 _ (ab3 _ r1 (sub_trans bc1 r2)) (sub_trans bc2 r2)
  · exact r3 _ (sub_trans ab1 l1) (bc3 _ (sub_trans ab2 l1) l2)

/-- An empty argument of any shape (not only `NewBounds()`) is ignored. -/
theorem C04_extend_empty (a b : Box α) (hb : b.empty = true) : a.extend (some b) = a := by
  simp [Box.extend, hb]

/-! ## Bounds() -/

/-- `vertices` of a `*Bounds`, by emptiness of the box -/
theorem vertices_bounds_empty (mn mx : Pt α) (h : Box.empty (⟨mn, mx⟩ : Box α) = true) :
    vertices (.bounds mn mx) = [] := by
  simp only [Box.empty] at h; simp [vertices, h]

theorem vertices_bounds_nonempty (mn mx : Pt α) (h : Box.empty (⟨mn, mx⟩ : Box α) = false) :
    vertices (.bounds mn mx) = [mn, ⟨mx.x, mn.y⟩, mx, ⟨mn.x, mx.y⟩] := by
  simp only [Box.empty] at h; simp [vertices, h]

mutual
/-- `Bounds()` of any geometry satisfies the envelope invariant — or the geometry is a `*Bounds` without points
(then `Bounds()` is that box, possibly not in canonical form, and there is no vertex) -/
theorem bounds_inv' (g : Geom α) (h : noNil g = true) :
    ∃ b, boundsG g = .ok b ∧
      (Inv (vertices g) b ∨ (∃ mn mx, g = .bounds mn mx ∧ b = ⟨mn, mx⟩ ∧ b.empty = true ∧ vertices g = [])) := by
  cases g with
  | nil => simp [noNil] at h
  | point p => exact ⟨_, rfl, .inl (Inv.ofPoint p)⟩
  | multiPoint ps => exact ⟨_, rfl, .inl (by simpa [vertices, Box.extendPoints] using Inv.new.extendPoints ps)⟩
  | lineString ps => exact ⟨_, rfl, .inl (by simpa [vertices] using Inv.new.extendPoints ps)⟩
  | multiLineString ls => exact ⟨_, rfl, .inl (by simpa [vertices] using Inv.new.foldLines ls)⟩
  | polygon rs => exact ⟨_, rfl, .inl (by simpa [vertices] using Inv.new.extendPointss rs)⟩
  | multiPolygon ps => exact ⟨_, rfl, .inl (by simpa [vertices] using Inv.new.foldPolys ps)⟩
  | bounds mn mx =>
    refine ⟨⟨mn, mx⟩, rfl, ?_⟩
    cases hE : Box.empty (⟨mn, mx⟩ : Box α) with
    | true => exact .inr ⟨mn, mx, rfl, rfl, by first | exact hE | rfl, vertices_bounds_empty mn mx hE⟩
    | false =>
      rw [vertices_bounds_nonempty mn mx hE]
      exact .inl (Inv.corners mn mx (by rw [← model_empty_eq]; exact hE))
  | collection gs =>
    obtain ⟨b, e, hb⟩ := boundsL_inv gs (by simpa [noNil] using h) [] Box.new Inv.new
    exact ⟨b, by simpa [boundsG] using e, .inl (by simpa [vertices] using hb)⟩
theorem boundsL_inv (gs : List (Geom α)) (h : noNilL gs = true)
    (S : List (Pt α)) (b : Box α) (hi : Inv S b) :
    ∃ b', boundsL gs b = .ok b' ∧ Inv (S ++ verticesL gs) b' := by
  cases gs with
  | nil => exact ⟨b, rfl, by simpa [verticesL] using hi⟩
  | cons g gs =>
    simp only [noNilL, Bool.and_eq_true] at h
    obtain ⟨bg, e, hg⟩ := bounds_inv' g h.1
    rcases hg with hg | ⟨mn, mx, _, _, hE, hv⟩
    · obtain ⟨b', e', h'⟩ := boundsL_inv gs h.2 (S ++ vertices g) (b.extend (some bg)) (hi.extend hg)
      exact ⟨b', by simp [boundsL, e, e', bind, Except.bind], by simpa [verticesL, List.append_assoc] using h'⟩
    · -- a member without points: `Extend` ignores its box, and it has no vertex
      obtain ⟨b', e', h'⟩ := boundsL_inv gs h.2 S b hi
      have hx : b.extend (some bg) = b := C04_extend_empty b bg hE
      exact ⟨b', by simp [boundsL, e, hx, e', bind, Except.bind], by simpa [verticesL, hv] using h'⟩
end

/-- the strict reading needs a canonical box only when the geometry IS the box -/
theorem bounds_inv (g : Geom α) (h : noNil g = true) (hc : topCanon g = true) :
    ∃ b, boundsG g = .ok b ∧ Inv (vertices g) b := by
  obtain ⟨b, e, hb⟩ := bounds_inv' g h
  refine ⟨b, e, ?_⟩
  rcases hb with hb | ⟨mn, mx, rfl, rfl, hE, hv⟩
  · exact hb
  · rw [hv]
    simp only [topCanon, canonB, Bool.or_eq_true, Bool.not_eq_true', decide_eq_true_eq] at hc
    rcases hc with hc | hc
    · rw [model_empty_eq] at hE; rw [hE] at hc; cases hc
    · rw [hc]; exact Inv.new

/-- **C04_bounds.** For every geometry (no nil members) `Bounds()` does not panic and returns the smallest box
containing exactly the vertices — the empty box `(+Inf,+Inf)-(-Inf,-Inf)` when there are none — whatever empty
members it has, `*Bounds` without points among them.  (`topCanon`: if the geometry is itself a `*Bounds` without
points, "the empty box" is read literally only for `NewBounds()`; see `C04_bounds_sets` for all boxes.) -/
theorem C04_bounds (g : Geom α) (h : noNil g = true) (hc : topCanon g = true) :
    ∃ b, boundsG g = .ok b ∧ IsEnvelope (vertices g) b := by
  obtain ⟨b, e, hi⟩ := bounds_inv g h hc
  exact ⟨b, e, hi.isEnvelope⟩

/-- the literal reading implies the point-set reading -/
theorem isEnvelopeSet_of_isEnvelope (vs : List (Pt α)) (b : Box α) (h : IsEnvelope vs b) : IsEnvelopeSet vs b := by
  cases vs with
  | nil =>
    simp only [IsEnvelope] at h
    subst h
    refine ⟨by simp, fun c _ p hp => ?_⟩
    obtain ⟨h1, h2, _, _⟩ := hp
    simp only [emptyBox, pinf_eq, ninf_eq] at h1 h2
    have tb : (⊤ : α) ≤ ⊥ := le_trans h1 h2
    have all : ∀ x y : α, x ≤ y := fun x y => le_trans le_top (le_trans tb bot_le)
    exact ⟨all _ _, all _ _, all _ _, all _ _⟩
  | cons v vs => exact h

/-- **C04_bounds_sets.** The Bounds clause for ALL geometries without nil members, boxes read as point sets:
`Bounds()` contains every vertex and is included in every box that does; with no vertex it is a box without
points.  No hypothesis about `*Bounds` values (since `fix: (*Bounds).Len is 0 for an empty box`). -/
theorem C04_bounds_sets (g : Geom α) (h : noNil g = true) :
    ∃ b, boundsG g = .ok b ∧ IsEnvelopeSet (vertices g) b := by
  obtain ⟨b, e, hb⟩ := bounds_inv' g h
  refine ⟨b, e, ?_⟩
  rcases hb with hb | ⟨mn, mx, _, _, hE, hv⟩
  · exact isEnvelopeSet_of_isEnvelope _ _ hb.isEnvelope
  · rw [hv]
    exact ⟨by simp, fun c _ => sub_of_empty b c (by rw [← model_empty_eq]; exact hE)⟩

/-- The strict form `C04_bounds` with its (weak) hypothesis spelled out once more; the statement without
`topCanon` is false only for a hand-written non-canonical empty box used directly as a geometry
(`C04_bounds_noncanon_counterexample`), where `C04_bounds_sets` applies. -/
theorem C04_bounds_partial (g : Geom α) (h : noNil g = true) (hc : topCanon g = true) :
    ∃ b, boundsG g = .ok b ∧ IsEnvelope (vertices g) b := C04_bounds g h hc

/-- … in particular `Bounds()` is empty iff there is no vertex (given `-Inf < +Inf`), for all geometries. -/
theorem C04_bounds_empty_iff (hne : (⊥ : α) < ⊤) (g : Geom α) (h : noNil g = true) :
    ∃ b, boundsG g = .ok b ∧ (b.empty = true ↔ vertices g = []) := by
  obtain ⟨b, e, hb⟩ := bounds_inv' g h
  refine ⟨b, e, ?_⟩
  rcases hb with hi | ⟨mn, mx, _, _, hE, hv⟩
  · rw [model_empty_eq]
    constructor
    · intro he
      cases hv : vertices g with
      | nil => rfl
      | cons v vs =>
        have := hi.nonempty_of_mem (v := v) (by simp [hv])
        simp [he] at this
    · intro hv
      have := hi.isEnvelope
      rw [hv] at this
      simp only [IsEnvelope] at this
      subst this
      simp [emptyB, emptyBox, pinf_eq, ninf_eq, not_le.mpr hne]
  · simp [hE, hv]

/-- `topCanon` cannot be dropped from the literal reading: an inverted box other than `NewBounds()` used as a
geometry has no vertex and `Bounds()` returns it unchanged — a box without points, but not the struct
`(+Inf,+Inf)-(-Inf,-Inf)`. -/
theorem C04_bounds_noncanon_counterexample (hne : (⊥ : α) < ⊤) :
    boundsG (.bounds ⟨⊤, ⊥⟩ ⟨⊥, ⊥⟩ : Geom α) = .ok ⟨⟨⊤, ⊥⟩, ⟨⊥, ⊥⟩⟩ ∧
    vertices (.bounds ⟨⊤, ⊥⟩ ⟨⊥, ⊥⟩ : Geom α) = [] ∧
    ¬ IsEnvelope (vertices (.bounds ⟨⊤, ⊥⟩ ⟨⊥, ⊥⟩ : Geom α)) ⟨⟨⊤, ⊥⟩, ⟨⊥, ⊥⟩⟩ := by
  have hv : vertices (.bounds ⟨⊤, ⊥⟩ ⟨⊥, ⊥⟩ : Geom α) = [] := by simp [vertices, hne]
  refine ⟨rfl, hv, ?_⟩
  rw [hv]
  simp only [IsEnvelope, emptyBox, pinf_eq, ninf_eq]
  intro h
  have : (⊥ : α) = ⊤ := by
    have := congrArg (fun b : Box α => b.mn.y) h
    simpa using this
  exact absurd this (ne_of_lt hne)

/-! ## the run-time judge checks exactly the specification

`Spec.…B` are the decidable functions `geomv_c04 judge` evaluates on the implementation's answers;
each is equivalent to the semantic statement it stands for. -/

/-- judge, `Bounds()` verdict: `isEnvelopeB` ⇔ "smallest box containing exactly the vertices" -/
theorem C04_spec_envelope (vs : List (Pt α)) (b : Box α) : isEnvelopeB vs b = true ↔ IsEnvelope vs b :=
  isEnvelopeB_iff vs b

/-- `isEnvelopeSetB` (used by the judge for a non-canonical empty `*Bounds` given directly as the geometry)
decides the point-set reading of the envelope clause (given `-Inf < +Inf`, i.e. boxes without points exist). -/
theorem C04_spec_envelopeSet (hne : (⊥ : α) < ⊤) (vs : List (Pt α)) (b : Box α) :
    isEnvelopeSetB vs b = true ↔ IsEnvelopeSet vs b := by
  cases vs with
  | cons v vs => simpa [isEnvelopeSetB, IsEnvelopeSet, Smallest] using tightB_iff v vs b
  | nil =>
    simp only [isEnvelopeSetB, IsEnvelopeSet]
    constructor
    · intro h; exact ⟨by simp, fun c _ => sub_of_empty b c h⟩
    · rintro ⟨_, h⟩
      cases he : emptyB b with
      | true => rfl
      | false =>
        obtain ⟨hx, hy⟩ := (not_emptyB b).1 he
        have hm : mem b.mn b := ⟨le_refl _, hx, le_refl _, hy⟩
        obtain ⟨h1, h2, _, _⟩ := h emptyBox (by simp) b.mn hm
        simp only [emptyBox, pinf_eq, ninf_eq] at h1 h2
        exact absurd (le_trans h1 h2) (not_le.mpr hne)

/-- judge, `Extend` verdict: `isJoinB` ⇔ least upper bound (all boxes, canonical or not) -/
theorem C04_spec_join (a b j : Box α) : isJoinB a b j = true ↔ IsJoin a b j := isJoinB_iff a b j

/-- judge, `Overlaps` verdict: `sharePointB` ⇔ the closed boxes share a point -/
theorem C04_spec_sharePoint (a b : Box α) : sharePointB a b = true ↔ SharePoint a b := sharePointB_iff a b

/-- judge, `Intersection` verdict: `intersectionOkB` ⇔ nil iff no common area, else exactly the
common rectangle -/
theorem C04_spec_intersection (a b : Box α) (r : Option (Box α)) :
    intersectionOkB a b r = true ↔
      ((r = none ↔ ¬ HasCommonArea a b) ∧ ∀ r', r = some r' → IsCommonRect a b r') := by
  have harea : hasCommonAreaB a b = true ↔ HasCommonArea a b := by
    rw [lo_hi_area]; simp [hasCommonAreaB, lo, hi]
  cases r with
  | none => simp [intersectionOkB, ← harea]
  | some r' =>
    simp only [intersectionOkB, Bool.and_eq_true, decide_eq_true_eq, harea, reduceCtorEq, false_iff,
      not_not, Option.some.injEq, forall_eq']
    constructor
    · rintro ⟨h, rfl⟩; exact ⟨h, commonRect_lo_hi a b⟩
    · rintro ⟨h, hr⟩
      refine ⟨h, (eq_of_same_points _ _ ?_ ?_).symm⟩
      · obtain ⟨hx, hy⟩ := (lo_hi_area a b).1 h
        rw [not_emptyB]; exact ⟨le_of_lt hx, le_of_lt hy⟩
      · intro p; rw [hr p]; exact commonRect_lo_hi a b p

/-- judge, `Empty` verdict -/
theorem C04_spec_empty (b : Box α) : emptyB b = true ↔ NoPoint b := emptyB_iff b

end boxes

end GeomV.C04

/-! ## non-vacuity of the hypotheses -/
namespace GeomV.C04
open GeomV GeomV.C04.Spec

/-- `noNil` holds for a nested collection with runs of empty members -/
example : noNil (.collection [.collection [], .polygon [[], [], [⟨1, 1⟩]], .multiPolygon [[], [[]], [[⟨2, 2⟩]]],
    .collection [.multiPoint [], .point ⟨3, 3⟩]] : Geom Nat) = true := by decide

/-- … and the model really runs on it: five empty members in a row at two depths -/
example : pointsOf (.collection [.collection [], .polygon [[], [], [⟨1, 1⟩]], .multiPolygon [[], [[]], [[⟨2, 2⟩]]],
    .collection [.multiPoint [], .point ⟨3, 3⟩]] : Geom Nat) = .ok [⟨1, 1⟩, ⟨2, 2⟩, ⟨3, 3⟩] := by decide

private def fk (n : Nat) (h : n ≤ 1000 := by decide) : FKey := ⟨n, by simp only [KMAX]; constructor <;> omega⟩

/-- `topCanon` / `Canon` / non-emptiness hold for ordinary boxes; members of a collection are unrestricted -/
example : topCanon (.bounds ⟨fk 0, fk 0⟩ ⟨fk 1, fk 2⟩ : Geom FKey) = true := by decide
example : topCanon (.bounds ⟨pinf, pinf⟩ ⟨ninf, ninf⟩ : Geom FKey) = true := by decide
example : topCanon (.collection [.bounds ⟨fk 2, fk 0⟩ ⟨fk 1, fk 1⟩, .point ⟨fk 5, fk 5⟩] : Geom FKey) = true := by decide
example : emptyB (⟨⟨0, 0⟩, ⟨1, 2⟩⟩ : Box Nat) = false := by decide

end GeomV.C04

/-! ## the executed instance -/
namespace GeomV.C04
open GeomV GeomV.C04.Spec

/-- **C04_exec.** The model the driver runs (coordinates = float64 *values*, `FKey`, with the core
`≤ < min max ±Inf` instances) is an instance of the theorems: stated here for `Bounds()`, with every
instance argument spelled out. -/
theorem C04_exec (g : Geom FKey) (h : noNil g = true) :
    ∃ b, @boundsG FKey FKey.instLT FKey.instMin FKey.instMax FKey.instDecLT FKey.instHasInf g = .ok b ∧
      @IsEnvelopeSet FKey FKey.instLE (@vertices FKey FKey.instLT FKey.instDecLT g) b :=
  C04_bounds_sets g h

end GeomV.C04
