import GeomV.C04.Model
import GeomV.C04.Spec
namespace GeomV.C04
end GeomV.C04
