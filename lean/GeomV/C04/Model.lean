import GeomV.C04.Basic
/-!
# C04 model: bounds.go and the Len/Points/Bounds methods of the eight geometry types

Function by function after the Go source (with the `fix:` commits of this property applied):

* `Box.*` — `NewBounds`, `NewBoundsPoint`, `Copy`, `Empty`, `extendPoint(s)(s)`, `Extend`, `Overlaps`,
  box–box branch of `Intersection`.  `math.Min/Max` on non-NaN values are `min`/`max` of the order.
* `lenG`, `boundsG` — `Len()` and `Bounds()` of every type.
* `init`/`next` — every `Points()` closure as a state machine: the state (`ItSt`) holds exactly the
  variables captured by the Go closure (`i`, `j`, `k`, and for a collection the current member's
  closure `p`), `next` is one call of the closure.  Every slice index of the Go code is a
  possibly-faulting lookup here (`Fault.index`); loops `for cond { j++ … }` are recursion over the
  members from `j` on (`drop j`), so the `p[j]` bounds check of each iteration is the `[]` case.
* `pointsOf` — what the harness does: `it := g.Points(); for n := g.Len(); n > 0; n-- { it() }`.

Core Lean only.
-/
namespace GeomV.C04
open GeomV

variable {α : Type}

/-! ## bounds.go -/

section box
variable [LE α] [LT α] [Min α] [Max α] [DecidableLE α] [DecidableLT α]

/-- `NewBounds()` -/
def Box.new [HasInf α] : Box α := ⟨⟨pinf, pinf⟩, ⟨ninf, ninf⟩⟩

/-- `NewBoundsPoint(p)` -/
def Box.ofPoint (p : Pt α) : Box α := ⟨⟨p.x, p.y⟩, ⟨p.x, p.y⟩⟩

/-- `b.Copy()` -/
def Box.copy (b : Box α) : Box α := ⟨⟨b.mn.x, b.mn.y⟩, ⟨b.mx.x, b.mx.y⟩⟩

/-- `b.Empty()`: `b.Max.X < b.Min.X || b.Max.Y < b.Min.Y` -/
def Box.empty (b : Box α) : Bool := decide (b.mx.x < b.mn.x) || decide (b.mx.y < b.mn.y)

/-- `b.extendPoint(p)` -/
def Box.extendPoint (b : Box α) (p : Pt α) : Box α :=
  ⟨⟨min b.mn.x p.x, min b.mn.y p.y⟩, ⟨max b.mx.x p.x, max b.mx.y p.y⟩⟩

/-- `b.extendPoints(ps)` -/
def Box.extendPoints (b : Box α) (ps : List (Pt α)) : Box α := ps.foldl Box.extendPoint b

/-- `b.extendPointss(pss)` -/
def Box.extendPointss (b : Box α) (pss : List (List (Pt α))) : Box α := pss.foldl Box.extendPoints b

/-- `b.Extend(b2)`: nothing for a nil or empty `b2`; an empty receiver takes over `b2`
(`b.Min, b.Max = b2.Min, b2.Max`); otherwise fold `b2.Min` and `b2.Max` in -/
def Box.extend (b : Box α) (b2 : Option (Box α)) : Box α :=
  match b2 with
  | none => b
  | some b2 =>
    if b2.empty then b
    else if b.empty then ⟨b2.mn, b2.mx⟩
    else (b.extendPoint b2.mn).extendPoint b2.mx

/-- `b.Extend(b)` — ONE pointer on both sides: `b2.Min` is copied before the first `extendPoint` call, but `b2.Max` is
read after it and is then the receiver's updated `Max`.  For every box of values this is `b.extend (some b)`
(`C04_extend_self_alias`); with a NaN side it is not (`Max` may have swallowed the NaN meanwhile). -/
def Box.extendSelf (b : Box α) : Box α :=
  if b.empty then b
  else
    let b1 := b.extendPoint b.mn
    b1.extendPoint b1.mx

/-- `b.Overlaps(b2)`: `!b.Empty() && !b2.Empty() &&` the four comparisons -/
def Box.overlaps (b b2 : Box α) : Bool :=
  !b.empty && !b2.empty &&
  decide (b.mn.x ≤ b2.mx.x) && decide (b.mn.y ≤ b2.mx.y) &&
  decide (b2.mn.x ≤ b.mx.x) && decide (b2.mn.y ≤ b.mx.y)

/-- box–box branch of `b.Intersection(bp)`; `none` is the nil result -/
def Box.intersection (b bp : Box α) : Option (Box α) :=
  let i : Box α := ⟨⟨max b.mn.x bp.mn.x, max b.mn.y bp.mn.y⟩, ⟨min b.mx.x bp.mx.x, min b.mx.y bp.mx.y⟩⟩
  if decide (i.mx.x ≤ i.mn.x) || decide (i.mx.y ≤ i.mn.y) then none else some i

/-- `geom.WithinStatus` -/
inductive WithinStatus | outside | inside | onEdge
deriving DecidableEq, Repr, Inhabited

/-- `p.Equals(p2)` (`==` on float64 is equality of values) -/
def ptEquals [DecidableEq α] (p p2 : Pt α) : Bool := decide (p.x = p2.x) && decide (p.y = p2.y)

/-- `b.Within(bp)` for a `*Bounds` argument (the first branch of the method) -/
def Box.within [DecidableEq α] (b bp : Box α) : WithinStatus :=
  if ptEquals b.mn bp.mn && ptEquals b.mx bp.mx then .onEdge
  else if decide (b.mn.x ≥ bp.mn.x) && decide (b.mn.y ≥ bp.mn.y) && decide (b.mx.x ≤ bp.mx.x) && decide (b.mx.y ≤ bp.mx.y)
  then .inside
  else .outside

end box

/-- `b.Area()`, over any coordinate type with `-` and `*` (float64 rounding is not modelled here) -/
def Box.area [Sub α] [Mul α] (b : Box α) : α := (b.mx.x - b.mn.x) * (b.mx.y - b.mn.y)

/-- `b.Centroid()` -/
def Box.centroid [Add α] [Div α] [OfNat α 2] (b : Box α) : Pt α :=
  ⟨(b.mn.x + b.mx.x) / 2, (b.mn.y + b.mx.y) / 2⟩

/-! ## Len() -/

/-- `var i int; for _, l := range ls { i += len(l) }; return i` -/
def sumLen {β : Type} (ls : List (List β)) : Nat := ls.foldl (fun i l => i + l.length) 0

/-- `var i int; for _, p := range mp { i += p.Len() }; return i` -/
def sumLen2 {β : Type} (ps : List (List (List β))) : Nat := ps.foldl (fun i p => i + sumLen p) 0

mutual
def lenG [LT α] [DecidableLT α] : Geom α → Except Fault Nat
  | .point _ => .ok 1
  | .multiPoint ps => .ok ps.length
  | .lineString ps => .ok ps.length
  | .multiLineString ls => .ok (sumLen ls)
  | .polygon rs => .ok (sumLen rs)
  | .multiPolygon ps => .ok (sumLen2 ps)
  | .collection gs => lenL gs
  | .bounds mn mx => .ok (if Box.empty ⟨mn, mx⟩ then 0 else 4)   -- `if b.Empty() { return 0 }; return 4`
  | .nil => .error .nilDeref
/-- `for _, g := range gc { i += g.Len() }` -/
def lenL [LT α] [DecidableLT α] : List (Geom α) → Except Fault Nat
  | [] => .ok 0
  | g :: gs => do let a ← lenG g; let b ← lenL gs; pure (a + b)
end

/-! ## Bounds()

`boundsG` (like `lenG`, `init`/`next`, `Box.new`, `Box.copy`, `Box.intersection`) is a *pure function* of
its arguments: the model has no package-level state and every result is a fresh value.  Hence any
dependence of the implementation's answer on call history — earlier calls, or the caller mutating a
box it was handed earlier (`acc := g.Bounds(); acc.Extend(…)`) — is a SPEC/DIFF verdict.  The
harness provokes this on every line (`hist` probes; `poison` in harness/cmd/c04). -/

section bounds
variable [LE α] [LT α] [Min α] [Max α] [DecidableLE α] [DecidableLT α] [HasInf α]

mutual
def boundsG : Geom α → Except Fault (Box α)
  | .point p => .ok (Box.ofPoint p)
  | .multiPoint ps => .ok (ps.foldl Box.extendPoint Box.new)
  | .lineString ps => .ok (Box.new.extendPoints ps)
  | .multiLineString ls => .ok (ls.foldl (fun b l => b.extend (some (Box.new.extendPoints l))) Box.new)
  | .polygon rs => .ok (Box.new.extendPointss rs)
  | .multiPolygon ps => .ok (ps.foldl (fun b p => b.extend (some (Box.new.extendPointss p))) Box.new)
  | .collection gs => boundsL gs Box.new
  | .bounds mn mx => .ok ⟨mn, mx⟩
  | .nil => .error .nilDeref
/-- `for _, g := range gc { b.Extend(g.Bounds()) }` -/
def boundsL : List (Geom α) → Box α → Except Fault (Box α)
  | [], b => .ok b
  | g :: gs, b => do let bg ← boundsG g; boundsL gs (b.extend (some bg))
end

end bounds

/-! ## Points() -/

/-- variables captured by a `Points()` closure -/
inductive ItSt where
  | pt                                      -- Point: nothing captured but the point
  | one (i : Nat)                           -- MultiPoint, LineString, *Bounds: `i`
  | two (i j : Nat)                         -- MultiLineString, Polygon: `i, j`
  | three (i j k : Nat)                     -- MultiPolygon: `i, j, k`
  | coll (i j : Nat) (p : Option ItSt)      -- GeometryCollection: `i, j` and the member closure `p` (nil = none)
deriving Inhabited

/-- `l[i]` -/
def idx {β : Type} (l : List β) (i : Nat) : Except Fault β :=
  match l[i]? with
  | some x => .ok x
  | none => .error .index

/-- `for cond { body }` over the captured variables `σ`, as the extractor (harness/cmd/c04 extract) renders a
Go loop.  Go has no fuel: `fuel` is a bound computed from the receiver (`loopFuel2/3`) under which the loop
terminates or faults; the tie lemmas (Ties/Points*.lean) equate the rendered closures with the fuel-free
structural functions below, so `Fault.fuel` never occurs. -/
def whileFuel {σ : Type} : Nat → (σ → Except Fault Bool) → (σ → Except Fault σ) → σ → Except Fault σ
  | 0, _, _, _ => .error .fuel
  | n+1, c, b, s =>
    match c s with
    | .error e => .error e
    | .ok false => .ok s
    | .ok true =>
      match b s with
      | .error e => .error e
      | .ok s' => whileFuel n c b s'

/-- number of members + 1: bound for a loop that moves to the next member in every iteration -/
def loopFuel2 {β : Type} (p : List (List β)) : Nat := p.length + 1

/-- rings and polygons still ahead, counting one extra step per polygon -/
def slots {β : Type} : List (List (List β)) → Nat
  | [] => 0
  | p :: rest => p.length + 1 + slots rest

def loopFuel3 {β : Type} (mp : List (List (List β))) : Nat := slots mp + 1

/-- members + 1: bound for the loop of `GeometryCollection.Points` (one member further in every iteration) -/
def loopFuelC {β : Type} (gc : List β) : Nat := gc.length + 1

/-- `for i == len(p[j]) { j++; i = 0 }`, run on the members `p[j:]` -/
def skip2 {β : Type} (i j : Nat) : List (List β) → Except Fault (Nat × Nat)
  | [] => .error .index
  | r :: rest => if i == r.length then skip2 0 (j+1) rest else .ok (i, j)

/-- one call of the MultiLineString/Polygon closure: the loop, `i++`, `return p[j][i-1]` -/
def next2 {β : Type} (p : List (List β)) (i j : Nat) : Except Fault (β × ItSt) := do
  let (i, j) ← skip2 i j (p.drop j)
  let r ← idx p j
  let v ← idx r i
  pure (v, .two (i+1) j)

/-- the rings `mp[k][j:]` of the current polygon: the first ring with `i ≠ len`, or `none` when
the polygon is used up (`j >= len(mp[k])`) -/
def skipRings {β : Type} (i j : Nat) : List (List β) → Option (Nat × Nat)
  | [] => none
  | r :: rest => if i == r.length then skipRings 0 (j+1) rest else some (i, j)

/-- `for j >= len(mp[k]) || i == len(mp[k][j]) { j++; i = 0; if j >= len(mp[k]) { k++; j = 0 } }`,
run on the polygons `mp[k:]` -/
def skip3 {β : Type} (i j k : Nat) : List (List (List β)) → Except Fault (Nat × Nat × Nat)
  | [] => .error .index
  | p :: rest =>
    match skipRings i j (p.drop j) with
    | some (i, j) => .ok (i, j, k)
    | none => skip3 0 0 (k+1) rest

/-- one call of the MultiPolygon closure -/
def next3 {β : Type} (mp : List (List (List β))) (i j k : Nat) : Except Fault (β × ItSt) := do
  let (i, j, k) ← skip3 i j k (mp.drop k)
  let p ← idx mp k
  let r ← idx p j
  let v ← idx r i
  pure (v, .three (i+1) j k)

/-- one call of the *Bounds closure (`defer i++` runs also when it panics, but then nobody looks) -/
def nextB (mn mx : Pt α) (i : Nat) : Except Fault (Pt α × ItSt) :=
  match i with
  | 0 => .ok (mn, .one 1)
  | 1 => .ok (⟨mx.x, mn.y⟩, .one 2)
  | 2 => .ok (mx, .one 3)
  | 3 => .ok (⟨mn.x, mx.y⟩, .one 4)
  | _ => .error .explicit

mutual
/-- `g.Points()`: the initial closure state.  A collection eagerly creates the closure of its first
member (`if len(gc) > 0 { p = gc[0].Points() }`). -/
def init : Geom α → Except Fault ItSt
  | .point _ => .ok .pt
  | .multiPoint _ => .ok (.one 0)
  | .lineString _ => .ok (.one 0)
  | .multiLineString _ => .ok (.two 0 0)
  | .polygon _ => .ok (.two 0 0)
  | .multiPolygon _ => .ok (.three 0 0 0)
  | .collection gs => do let p ← initFirst gs; pure (.coll 0 0 p)
  | .bounds _ _ => .ok (.one 0)
  | .nil => .error .nilDeref
def initFirst : List (Geom α) → Except Fault (Option ItSt)
  | [] => .ok none
  | g :: _ => do let s ← init g; pure (some s)
end

/-- `gc[j].Points()` where `gs = gc[j:]` -/
def initHead : List (Geom α) → Except Fault ItSt
  | [] => .error .index
  | g :: _ => init g

/-- `for i == gc[j].Len() { j++; i = 0; p = gc[j].Points() }`, run on the members `gc[j:]` -/
def skipColl [LT α] [DecidableLT α] (i j : Nat) (p : Option ItSt) : List (Geom α) → Except Fault (Nat × Nat × Option ItSt)
  | [] => .error .index
  | g :: rest => do
    let n ← lenG g
    if i == n then do
      let p' ← initHead rest
      skipColl 0 (j+1) (some p') rest
    else pure (i, j, p)

mutual
/-- one call of the closure returned by `g.Points()` in state `s` -/
def next [LT α] [DecidableLT α] : Geom α → ItSt → Except Fault (Pt α × ItSt)
  | .point p, .pt => .ok (p, .pt)
  | .multiPoint ps, .one i => do let v ← idx ps i; pure (v, .one (i+1))
  | .lineString ps, .one i => do let v ← idx ps i; pure (v, .one (i+1))
  | .multiLineString ls, .two i j => next2 ls i j
  | .polygon rs, .two i j => next2 rs i j
  | .multiPolygon mp, .three i j k => next3 mp i j k
  | .bounds mn mx, .one i => nextB mn mx i
  | .collection gs, .coll i j p => do
    let (i, j, p) ← skipColl i j p (gs.drop j)
    match p with
    | none => .error .nilFunc
    | some s => do
      let (v, s') ← nextAt gs j s
      pure (v, .coll (i+1) j (some s'))
  | .nil, _ => .error .nilDeref
  | _, _ => .error .badState
/-- `p()` where `p` is the closure made from `gc[j]` and is in state `s` -/
def nextAt [LT α] [DecidableLT α] : List (Geom α) → Nat → ItSt → Except Fault (Pt α × ItSt)
  | [], _, _ => .error .index
  | g :: _, 0, s => next g s
  | _ :: gs, j+1, s => nextAt gs j s
end

/-- call the closure `n` times -/
def drain [LT α] [DecidableLT α] (g : Geom α) : Nat → ItSt → Except Fault (List (Pt α))
  | 0, _ => .ok []
  | n+1, s => do
    let (v, s') ← next g s
    let vs ← drain g n s'
    pure (v :: vs)

/-- call a rendered closure `step` (state `σ` = its captured variables) `n` times -/
def drainStep {σ : Type} (step : σ → Except Fault (Pt α × σ)) : Nat → σ → Except Fault (List (Pt α))
  | 0, _ => .ok []
  | n+1, s =>
    match step s with
    | .error e => .error e
    | .ok (v, s') =>
      match drainStep step n s' with
      | .error e => .error e
      | .ok vs => .ok (v :: vs)

/-- `n := g.Len(); it := g.Points(); n times it()` -/
def pointsOf [LT α] [DecidableLT α] (g : Geom α) : Except Fault (List (Pt α)) := do
  let n ← lenG g
  let s ← init g
  drain g n s

/-- the closure state after `n` calls -/
def runN [LT α] [DecidableLT α] (g : Geom α) : Nat → ItSt → Except Fault ItSt
  | 0, s => .ok s
  | n+1, s => do
    let (_, s') ← next g s
    runN g n s'

/-- the closure state after exactly `Len()` calls from a fresh iterator -/
def afterLen [LT α] [DecidableLT α] (g : Geom α) : Except Fault ItSt := do
  let n ← lenG g
  let s ← init g
  runN g n s

/-- what the first call beyond `Len()` returns (the harness's `beyond` probe; `C04_points_exhausted`) -/
def beyondLen [LT α] [DecidableLT α] (g : Geom α) : Except Fault (Pt α) := do
  let s ← afterLen g
  let (v, _) ← next g s
  pure v

end GeomV.C04
