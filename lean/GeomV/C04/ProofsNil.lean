import GeomV.C04.ProofsMore
/-!
# C04 — `Points()` of a collection with a nil member (outside the hypothesis `noNil`)

`gc = pre ++ m :: post` where the members `pre` are nil-free and `m` is nil or contains a nil at some depth
(`noNil m = false`); `vs` = the vertices of `pre`.

* `C04_nil_points_prefix` — every one of the first `|vs|` calls succeeds and returns the vertices of `pre` in storage
  order (whatever `m` and `post` are: the closure never looks at `gc[j]` for a member it has not reached);
* `C04_nil_points_fault` — construction plus `|vs| + 1` calls panics with a nil dereference: `Points()` itself when
  `pre` is empty and `m.Points()` panics, otherwise the call that would have to move on to `m`
  (`gc[j].Points()` of a nil interface value, or `gc[j].Len()` of a collection with a nil inside).

So a nil member is reached exactly when the iterator has handed out everything before it; no index fault, no nil
func call, no wrong vertex occurs on the way.
-/
set_option linter.unusedVariables false
set_option linter.unusedSectionVars false
namespace GeomV.C04
open GeomV GeomV.C04.Spec

variable {α : Type} [LT α] [DecidableLT α]

/-- `skipColl_spec` for a list `A ++ B` of which only `A` is known to be good, the pending vertex lying in `A` -/
theorem skipColl_spec_app (A B : List (Geom α)) (hL : ∀ g ∈ A, Good g) (i j : Nat) (p : Option ItSt)
    (v : Pt α) (vs : List (Pt α)) (h : RelHead A i p (v :: vs)) :
    ∃ i' d g' rest' s' rem', skipColl i j p (A ++ B) = .ok (i', j + d, some s') ∧ A.drop d = g' :: rest' ∧
      Rel g' s' (v :: rem') ∧ i' + (rem'.length + 1) = (vertices g').length ∧
      vs = rem' ++ verticesL rest' := by
  induction A generalizing i j p with
  | nil => cases h
  | cons g rest ih =>
    obtain ⟨s, rem, hp, hr, hn, he⟩ := h
    have hlen := (hL g (by simp)).1
    by_cases hi : i = (vertices g).length
    · have hrem : rem = [] := by
        cases rem with
        | nil => rfl
        | cons _ _ => simp at hn; omega
      subst hrem
      rw [List.nil_append] at he
      cases rest with
      | nil => simp [verticesL] at he
      | cons g2 rest2 =>
        obtain ⟨s2, hs2, hr2⟩ := (hL g2 (by simp)).2.1
        obtain ⟨i', d, g', rest', s', rem', e1, e2, e3, e4, e5⟩ :=
          ih (fun x hx => hL x (List.mem_cons_of_mem _ hx)) 0 (j+1) (some s2)
            ⟨s2, vertices g2, rfl, hr2, by simp, by simpa [verticesL] using he⟩
        refine ⟨i', d+1, g', rest', s', rem', ?_, by simpa using e2, e3, e4, e5⟩
        rw [List.cons_append, skipColl_cons]
        simp only [hlen, hi, List.cons_append, initHead, hs2, bind, Except.bind, beq_self_eq_true, if_true]
        rw [← List.cons_append, e1]; congr 3; omega
    · cases rem with
      | nil => simp at hn; omega
      | cons c rem' =>
        rw [List.cons_append] at he
        injection he with hv hvs
        subst hv
        refine ⟨i, 0, g, rest, s, rem', ?_, rfl, hr, by simpa using hn, hvs⟩
        rw [List.cons_append, skipColl_cons]
        simp [hlen, hi, hp, bind, Except.bind, pure, Except.pure]

theorem relAt_nonempty_lt (A : List (Geom α)) (j i : Nat) (p : Option ItSt) (v : Pt α) (vs : List (Pt α))
    (h : RelAt A j i p (v :: vs)) : j < A.length := by
  induction A generalizing j with
  | nil => simp [RelAt] at h
  | cons g rest ih =>
    cases j with
    | zero => simp
    | succ j => simp only [RelAt] at h; have := ih j h; simp; omega

/-- one call of the closure of `A ++ B`, the pending vertex lying in the good part `A`: the same as for `A` alone -/
theorem collection_step_app (A B : List (Geom α)) (hL : ∀ g ∈ A, Good g) (i j : Nat) (p : Option ItSt)
    (v : Pt α) (vs : List (Pt α)) (h : RelAt A j i p (v :: vs)) :
    ∃ s', next (.collection (A ++ B)) (.coll i j p) = .ok (v, s') ∧ Rel (.collection A) s' vs ∧
      ∃ i' j' p', s' = .coll i' j' p' ∧ j' < A.length := by
  have hj := relAt_nonempty_lt A j i p v vs h
  rw [relAt_iff] at h
  obtain ⟨i', d, g', rest', s', rem', e1, e2, e3, e4, e5⟩ :=
    skipColl_spec_app (A.drop j) B (fun g hg => hL g (List.mem_of_mem_drop hg)) i j p v vs h
  rw [List.drop_drop] at e2
  have hg' : g' ∈ A := List.mem_of_mem_drop (by rw [e2]; simp)
  obtain ⟨s'', hn, hr⟩ := (hL g' hg').2.2 s' v rem' e3
  have hjd : j + d ≤ A.length := by
    by_contra hc
    have : A.drop (j + d) = [] := List.drop_eq_nil_iff.2 (by omega)
    rw [this] at e2; cases e2
  have hdropj : (A ++ B).drop j = A.drop j ++ B := List.drop_append_of_le_length (by omega)
  have hdropjd : (A ++ B).drop (j + d) = g' :: (rest' ++ B) := by
    rw [List.drop_append_of_le_length hjd, e2]; rfl
  refine ⟨.coll (i'+1) (j+d) (some s''), ?_, ?_⟩
  · simp [next, hdropj, e1, nextAt_drop (A ++ B) (j+d) g' (rest' ++ B) s' hdropjd, hn, bind, Except.bind, pure, Except.pure]
  · refine ⟨⟨i'+1, j+d, some s'', rfl, ?_⟩, i'+1, j+d, some s'', rfl, ?_⟩
    · rw [relAt_iff, e2]
      exact ⟨s'', rem', rfl, hr, by omega, e5⟩
    · by_contra hc
      have : A.drop (j + d) = [] := List.drop_eq_nil_iff.2 (by omega)
      rw [this] at e2; cases e2

/-- `init` can only fail with a nil dereference -/
theorem init_fault (g : Geom α) (e : Fault) (h : init g = .error e) : e = .nilDeref := by
  cases g with
  | nil => simp only [init] at h; injection h with h; exact h.symm
  | collection gs =>
    cases gs with
    | nil => simp [init, initFirst, bind, Except.bind, pure, Except.pure] at h
    | cons g rest =>
      simp only [init, initFirst, bind, Except.bind] at h
      cases hg : init g with
      | error e' =>
        rw [hg] at h
        simp at h
        rw [← h]; exact init_fault g e' hg
      | ok s => rw [hg] at h; simp [pure, Except.pure] at h
  | point _ => simp [init] at h
  | multiPoint _ => simp [init] at h
  | lineString _ => simp [init] at h
  | multiLineString _ => simp [init] at h
  | polygon _ => simp [init] at h
  | multiPolygon _ => simp [init] at h
  | bounds _ _ => simp [init] at h

/-- the loop of the collection closure, everything before `m` used up: it reaches `m` and panics there -/
theorem skipColl_nil (A : List (Geom α)) (m : Geom α) (post : List (Geom α)) (hL : ∀ g ∈ A, Good g)
    (hm : noNil m = false) (i j : Nat) (p : Option ItSt) (hne : A ≠ []) (h : RelHead A i p []) :
    skipColl i j p (A ++ m :: post) = .error .nilDeref := by
  induction A generalizing i j p with
  | nil => exact absurd rfl hne
  | cons g rest ih =>
    obtain ⟨s, rem, hp, hrel, hi, hv⟩ := h
    have hrem : rem = [] := by
      cases rem with
      | nil => rfl
      | cons _ _ => simp at hv
    subst hrem
    have hrest : verticesL rest = [] := by simpa using hv.symm
    have hg := hL g List.mem_cons_self
    rw [List.cons_append, skipColl_cons]
    have hi' : i = (vertices g).length := by simpa using hi
    simp only [hg.1, bind, Except.bind, hi', beq_self_eq_true, if_true]
    cases rest with
    | nil =>
      simp only [List.nil_append, initHead]
      cases hinit : init m with
      | error e => rw [init_fault m e hinit]
      | ok s0 => simp [skipColl_cons, lenG_nil m hm, bind, Except.bind]
    | cons g2 rest2 =>
      have hg2 := hL g2 (List.mem_cons_of_mem _ List.mem_cons_self)
      obtain ⟨s0, hs0, hr0⟩ := hg2.2.1
      have hv2 : vertices g2 = [] ∧ verticesL rest2 = [] := by
        simpa [verticesL] using hrest
      simp only [List.cons_append, initHead, hs0]
      rw [← List.cons_append]
      apply ih (fun g' hg' => hL g' (List.mem_cons_of_mem _ hg')) 0 (j+1) (some s0) (by simp)
      refine ⟨s0, [], rfl, ?_, by simp [hv2.1], by simp [hv2.2]⟩
      simpa [hv2.1] using hr0

section main
variable (pre post : List (Geom α)) (m : Geom α)

/-- draining the closure of `pre ++ B` while the owed vertices lie in `pre` -/
theorem drain_app (B : List (Geom α)) (hL : ∀ g ∈ pre, Good g) (n : Nat) (s : ItSt) (vs : List (Pt α))
    (h : Rel (.collection pre) s vs) (hn : n ≤ vs.length)
    (hj : ∃ i j p, s = .coll i j p ∧ j < pre.length) :
    ∃ s', drain (.collection (pre ++ B)) n s = .ok (vs.take n) ∧ runN (.collection (pre ++ B)) n s = .ok s' ∧
      Rel (.collection pre) s' (vs.drop n) ∧ ∃ i j p, s' = .coll i j p ∧ j < pre.length := by
  induction n generalizing s vs with
  | zero => exact ⟨s, rfl, rfl, by simpa using h, hj⟩
  | succ n ih =>
    cases vs with
    | nil => simp at hn
    | cons v vs =>
      obtain ⟨i, j, p, rfl, hrel⟩ := h
      obtain ⟨s1, hnx, hr, hj1⟩ := collection_step_app pre B hL i j p v vs hrel
      obtain ⟨s', h1, h2, h3, h4⟩ := ih s1 vs hr (by simpa using hn) hj1
      exact ⟨s', by simp [drain, hnx, h1, bind, Except.bind, pure, Except.pure],
        by simp [runN, hnx, h2, bind, Except.bind], by simpa using h3, h4⟩

theorem drain_error_of_runN (g : Geom α) (n : Nat) (s s' : ItSt) (e : Fault)
    (h1 : runN g n s = .ok s') (h2 : next g s' = .error e) : drain g (n+1) s = .error e := by
  induction n generalizing s with
  | zero =>
    simp only [runN] at h1; injection h1 with h1; subst h1
    simp [drain, h2, bind, Except.bind]
  | succ n ih =>
    simp only [runN, bind, Except.bind] at h1
    cases hn : next g s with
    | error e' => rw [hn] at h1; simp at h1
    | ok r =>
      obtain ⟨v, s1⟩ := r
      rw [hn] at h1
      have := ih s1 h1
      rw [drain]
      simp only [hn, bind, Except.bind, this]

/-- **C04_nil_points_prefix.** a collection whose member `m` is (or contains) a nil, after nil-free members `pre`:
if `Points()` returns at all, each of the first `|vertices of pre|` calls succeeds and they return those vertices in
storage order -/
theorem C04_nil_points_prefix (hpre : noNilL pre = true) (s0 : ItSt)
    (hs0 : init (.collection (pre ++ m :: post) : Geom α) = .ok s0) (n : Nat) (hn : n ≤ (verticesL pre).length) :
    drain (.collection (pre ++ m :: post)) n s0 = .ok ((verticesL pre).take n) := by
  have hL := goodL pre hpre C04_len
  cases hp : pre with
  | nil =>
    subst hp
    have : n = 0 := by simpa [verticesL] using hn
    subst this; rfl
  | cons g rest =>
    subst hp
    have hgood := good (.collection (g :: rest)) (by simpa [noNil] using hpre) C04_len
    obtain ⟨s1, hs1, hr1⟩ := hgood.2.1
    have : s1 = s0 := by
      simp only [init, initFirst, List.cons_append] at hs0 hs1
      rw [hs1] at hs0; injection hs0
    subst this
    have hj0 : ∃ i j p, s1 = .coll i j p ∧ j < (g :: rest).length := by
      simp only [init, bind, Except.bind] at hs1
      cases hf : initFirst (g :: rest) with
      | error e => rw [hf] at hs1; simp at hs1
      | ok q => rw [hf] at hs1; simp [pure, Except.pure] at hs1; exact ⟨0, 0, q, hs1.symm, by simp⟩
    obtain ⟨s', h1, _, _⟩ := drain_app (g :: rest) (m :: post) hL n s1 (verticesL (g :: rest)) (by simpa [vertices] using hr1) hn hj0
    exact h1

/-- **C04_nil_points_fault.** …and construction followed by one call more than that panics with a nil dereference
(in `Points()` itself, or in the call that would have to move on to `m`) -/
theorem C04_nil_points_fault (hpre : noNilL pre = true) (hm : noNil m = false) :
    (do let s ← init (.collection (pre ++ m :: post) : Geom α)
        drain (.collection (pre ++ m :: post)) ((verticesL pre).length + 1) s) = .error .nilDeref := by
  have hL := goodL pre hpre C04_len
  cases hp : pre with
  | nil =>
    simp only [List.nil_append, verticesL, List.length_nil, Nat.zero_add, init, initFirst, bind, Except.bind]
    cases hinit : init m with
    | error e => simp [init_fault m e hinit]
    | ok s => simp [pure, Except.pure, drain, next, skipColl, lenG_nil m hm, bind, Except.bind]
  | cons g rest =>
    subst hp
    have hgood := good (.collection (g :: rest)) (by simpa [noNil] using hpre) C04_len
    obtain ⟨s1, hs1, hr1⟩ := hgood.2.1
    have hs0 : init (.collection ((g :: rest) ++ m :: post) : Geom α) = .ok s1 := by
      simp only [init, initFirst, List.cons_append] at hs1 ⊢
      exact hs1
    have hj0 : ∃ i j p, s1 = .coll i j p ∧ j < (g :: rest).length := by
      simp only [init, bind, Except.bind] at hs1
      cases hf : initFirst (g :: rest) with
      | error e => rw [hf] at hs1; simp at hs1
      | ok q => rw [hf] at hs1; simp [pure, Except.pure] at hs1; exact ⟨0, 0, q, hs1.symm, by simp⟩
    obtain ⟨s', _, h2, h3, i, j, p, rfl, hjlt⟩ := drain_app (g :: rest) (m :: post) hL (verticesL (g :: rest)).length s1
      (verticesL (g :: rest)) (by simpa [vertices] using hr1) (Nat.le_refl _) hj0
    have h3' : Rel (.collection (g :: rest)) (.coll i j p) [] := by simpa using h3
    obtain ⟨i2, j2, p2, heq, hrel⟩ := h3'
    injection heq with e1 e2 e3; subst e1 e2 e3
    rw [relAt_iff] at hrel
    have hnext : next (.collection ((g :: rest) ++ m :: post)) (.coll i j p) = .error .nilDeref := by
      simp only [next]
      have hj : j < (g :: rest).length := hjlt
      have hdrop : ((g :: rest) ++ m :: post).drop j = (g :: rest).drop j ++ m :: post :=
        List.drop_append_of_le_length (by omega)
      have hne : (g :: rest).drop j ≠ [] := by
        intro hc; have := List.drop_eq_nil_iff.1 hc; omega
      rw [hdrop, skipColl_nil ((g :: rest).drop j) m post
        (fun x hx => hL x (List.mem_of_mem_drop hx)) hm i j p hne hrel]
      rfl
    simp only [hs0, bind, Except.bind]
    exact drain_error_of_runN _ _ s1 (.coll i j p) .nilDeref h2 hnext

end main

/-- non-vacuity: `GC{Point(1,2), MultiPoint{}, nil, Point(3,4)}` — one vertex comes out, the second call panics with a
nil dereference (not an index fault, and `Point(3,4)` is never reached) -/
example :
    drain (.collection [.point ⟨1, 2⟩, .multiPoint [], .nil, .point ⟨3, 4⟩] : Geom Nat) 1 (.coll 0 0 (some .pt)) = .ok [⟨1, 2⟩] ∧
    (do let s ← init (.collection [.point ⟨1, 2⟩, .multiPoint [], .nil, .point ⟨3, 4⟩] : Geom Nat)
        drain (.collection [.point ⟨1, 2⟩, .multiPoint [], .nil, .point ⟨3, 4⟩]) 2 s) = .error .nilDeref :=
  ⟨by rfl, by rfl⟩

end GeomV.C04
