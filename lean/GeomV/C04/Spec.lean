import GeomV.C04.Basic
/-!
# C04 specification

Reads like the property statement and does not mention the Go functions:

* `vertices g` — the vertices of `g` in storage order (a `*Bounds` that has a point contributes its four corners in
  the documented order Min, (Max.X,Min.Y), Max, (Min.X,Max.Y); one without points contributes nothing).
* a box is the closed point set `mem · b`; `IsEnvelope vs b` — `b` is the smallest box containing the
  points `vs` (the empty box `(+Inf,+Inf)-(-Inf,-Inf)` when there are none);
* `IsJoin a b j` — `j` is the least upper bound of `a` and `b` in the inclusion order of boxes;
* `SharePoint a b` — the closed boxes have a common point;
* `HasCommonArea a b` / `IsCommonRect a b r` — the boxes share area / `r` is exactly their common part.

The `…B` functions are the decidable forms used by the run-time judge on the implementation's
answers; `Proofs.lean` proves each equivalent to the corresponding `Prop` (`Spec.*_iff`).
Core Lean only.
-/
namespace GeomV.C04.Spec
open GeomV GeomV.C04

variable {α : Type}

/-! ## vertices in storage order -/

mutual
def vertices [LT α] [DecidableLT α] : Geom α → List (Pt α)
  | .point p => [p]
  | .multiPoint ps => ps
  | .lineString ps => ps
  | .multiLineString ls => ls.flatten
  | .polygon rs => rs.flatten
  | .multiPolygon ps => (ps.map List.flatten).flatten
  | .collection gs => verticesL gs
  | .bounds mn mx =>
    -- a box that is inverted on some axis has no point, hence no corner
    if decide (mx.x < mn.x) || decide (mx.y < mn.y) then [] else [mn, ⟨mx.x, mn.y⟩, mx, ⟨mn.x, mx.y⟩]
  | .nil => []
def verticesL [LT α] [DecidableLT α] : List (Geom α) → List (Pt α)
  | [] => []
  | g :: gs => vertices g ++ verticesL gs
end

mutual
/-- no nil interface value anywhere (nil is not one of the eight geometry types) -/
def noNil : Geom α → Bool
  | .collection gs => noNilL gs
  | .nil => false
  | _ => true
def noNilL : List (Geom α) → Bool
  | [] => true
  | g :: gs => noNil g && noNilL gs
end

/-! ## boxes as closed point sets -/

section order
variable [LE α] [LT α]

def mem (p : Pt α) (b : Box α) : Prop :=
  b.mn.x ≤ p.x ∧ p.x ≤ b.mx.x ∧ b.mn.y ≤ p.y ∧ p.y ≤ b.mx.y

/-- `a ⊆ b` as point sets -/
def Sub (a b : Box α) : Prop := ∀ p, mem p a → mem p b

/-- the box has no point -/
def NoPoint (b : Box α) : Prop := ∀ p, ¬ mem p b

/-- the canonical empty box `NewBounds()` -/
def emptyBox [HasInf α] : Box α := ⟨⟨pinf, pinf⟩, ⟨ninf, ninf⟩⟩

/-- `b` is the smallest box containing exactly the points `vs`; the empty box when there are none -/
def IsEnvelope [HasInf α] (vs : List (Pt α)) (b : Box α) : Prop :=
  match vs with
  | [] => b = emptyBox
  | _ :: _ => (∀ v ∈ vs, mem v b) ∧ ∀ c : Box α, (∀ v ∈ vs, mem v c) → Sub b c

/-- least upper bound in the lattice of boxes ordered by inclusion -/
def IsJoin (a b j : Box α) : Prop :=
  Sub a j ∧ Sub b j ∧ ∀ c : Box α, Sub a c → Sub b c → Sub j c

def SharePoint (a b : Box α) : Prop := ∃ p, mem p a ∧ mem p b

/-- the common part of the two boxes has positive extent on both axes -/
def HasCommonArea (a b : Box α) : Prop :=
  ∃ p q, mem p a ∧ mem p b ∧ mem q a ∧ mem q b ∧ p.x < q.x ∧ p.y < q.y

def IsCommonRect (a b r : Box α) : Prop := ∀ p, mem p r ↔ (mem p a ∧ mem p b)

/-! ## decidable forms (run by the judge) -/

variable [DecidableLE α] [DecidableLT α]

def memB (p : Pt α) (b : Box α) : Bool :=
  decide (b.mn.x ≤ p.x) && decide (p.x ≤ b.mx.x) && decide (b.mn.y ≤ p.y) && decide (p.y ≤ b.mx.y)

/-- a box has a point iff its Min corner is one -/
def emptyB (b : Box α) : Bool := !(decide (b.mn.x ≤ b.mx.x) && decide (b.mn.y ≤ b.mx.y))

/-- all points inside, and each of the four sides touched by some point -/
def tightB (vs : List (Pt α)) (b : Box α) : Bool :=
  vs.all (memB · b) &&
  vs.any (fun v => decide (v.x ≤ b.mn.x)) && vs.any (fun v => decide (v.y ≤ b.mn.y)) &&
  vs.any (fun v => decide (b.mx.x ≤ v.x)) && vs.any (fun v => decide (b.mx.y ≤ v.y))

def isEnvelopeB [HasInf α] [DecidableEq α] (vs : List (Pt α)) (b : Box α) : Bool :=
  match vs with
  | [] => decide (b = emptyBox)
  | _ :: _ => tightB vs b

/-- a box in canonical form: it has a point, or it is `NewBounds()`.  Every box the library itself
produces is canonical; a hand-written struct with `Max < Min` other than `NewBounds()` is not. -/
def Canon [HasInf α] (b : Box α) : Prop := emptyB b = false ∨ b = emptyBox

def canonB [HasInf α] [DecidableEq α] (b : Box α) : Bool := !emptyB b || decide (b = emptyBox)

mutual
/-- every `*Bounds` used as a geometry (at any depth) is a box with at least one point -/
def boxesNonEmpty : Geom α → Bool
  | .bounds mn mx => !emptyB (⟨mn, mx⟩ : Box α)
  | .collection gs => boxesNonEmptyL gs
  | _ => true
def boxesNonEmptyL : List (Geom α) → Bool
  | [] => true
  | g :: gs => boxesNonEmpty g && boxesNonEmptyL gs
end

/-- a `*Bounds` used as a geometry BY ITSELF is in canonical form: it has a point or it is `NewBounds()` (then its
`Bounds()`, the box itself, is literally "the empty box"); members of a collection may be any box -/
def topCanon [HasInf α] [DecidableEq α] : Geom α → Bool
  | .bounds mn mx => canonB (⟨mn, mx⟩ : Box α)
  | _ => true

/-- the envelope clause read on point sets: `b` contains the points `vs` and is included in every box that does
(for `vs = []`: `b` is included in every box, i.e. it is AN empty box, not necessarily the struct `NewBounds()`) -/
def IsEnvelopeSet (vs : List (Pt α)) (b : Box α) : Prop :=
  (∀ v ∈ vs, mem v b) ∧ ∀ c : Box α, (∀ v ∈ vs, mem v c) → Sub b c

def isEnvelopeSetB (vs : List (Pt α)) (b : Box α) : Bool :=
  match vs with
  | [] => emptyB b
  | _ :: _ => tightB vs b

/-- the extreme corners of a box, none if it is empty -/
def corners (b : Box α) : List (Pt α) := if emptyB b then [] else [b.mn, b.mx]

/-- `j` is the join: an empty box if both are empty, otherwise the tight box around all corners -/
def isJoinB (a b j : Box α) : Bool :=
  match corners a ++ corners b with
  | [] => emptyB j
  | c :: cs => tightB (c :: cs) j

variable [Min α] [Max α]

def lo (a b : Box α) : Pt α := ⟨max a.mn.x b.mn.x, max a.mn.y b.mn.y⟩
def hi (a b : Box α) : Pt α := ⟨min a.mx.x b.mx.x, min a.mx.y b.mx.y⟩

/-- if there is a common point then the componentwise largest Min corner is one -/
def sharePointB (a b : Box α) : Bool := memB (lo a b) a && memB (lo a b) b

def hasCommonAreaB (a b : Box α) : Bool :=
  decide ((lo a b).x < (hi a b).x) && decide ((lo a b).y < (hi a b).y)

/-- verdict on an answer `r` of box-box Intersection (`none` = nil) -/
def intersectionOkB [DecidableEq α] (a b : Box α) (r : Option (Box α)) : Bool :=
  match r with
  | none => !hasCommonAreaB a b
  | some r => hasCommonAreaB a b && decide (r = ⟨lo a b, hi a b⟩)

end order

end GeomV.C04.Spec
