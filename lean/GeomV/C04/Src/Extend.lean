import GeomV.C04.Proofs
import GeomV.C04.Ties.Extend
/-! C04 — box theorems restated for the definitions regenerated from the current Go source (`Gen.*`). -/
set_option linter.unusedSectionVars false
namespace GeomV.C04
open GeomV GeomV.C04.Spec
attribute [local instance] infOfBounded
variable {α : Type} [LinearOrder α] [BoundedOrder α]

/-- `Extend` as written in bounds.go is the lattice join (all boxes; nil argument: no change). -/
theorem C04_extend_join_src (a b : Box α) :
    IsJoin a b (Gen.extend a (some b)) ∧ Gen.extend a none = a := by
  rw [C04_tie_Extend, C04_tie_Extend]; exact ⟨C04_extend_join a b, rfl⟩

/-- join laws for `Extend` as written in bounds.go (all boxes, as point sets). -/
theorem C04_extend_laws_src (a b c : Box α) :
    SameSet (Gen.extend a (some b)) (Gen.extend b (some a)) ∧
    SameSet (Gen.extend (Gen.extend a (some b)) (some c)) (Gen.extend a (some (Gen.extend b (some c)))) ∧
    SameSet (Gen.extend a (some a)) a := by
  simp only [C04_tie_Extend]; exact C04_extend_laws_sets a b c

end GeomV.C04
