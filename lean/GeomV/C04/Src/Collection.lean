import GeomV.C04.Proofs
import GeomV.C04.Ties.CollectionLenBounds
import GeomV.C04.Ties.PointsCollection
import GeomV.C04.Ties.PointsBounds
import GeomV.C04.Ties.Lens
/-! C04 — the property clauses restated for the methods of GeometryCollection and the corner iterator of `*Bounds`
as rendered from the current Go source (geometrycollection.go, bounds.go).  The calls on interface values and on
the captured func value are the rendered definitions' parameters, instantiated with the model's dispatch
(`lenG`, `boundsG`, `mkClo`, `callClo`). -/
set_option linter.unusedVariables false
set_option linter.unusedSimpArgs false
set_option linter.unusedSectionVars false
namespace GeomV.C04
open GeomV GeomV.C04.Spec
variable {α : Type} [LT α] [DecidableLT α]

/-- **C04_points_src (*Bounds).** `(*Bounds).Points()` as written in bounds.go, called `Len()`-as-written times:
the four corners in the documented order (none for a box without points), no panic. -/
theorem C04_points_src_Bounds (mn mx : Pt α) :
    drainStep (fun i : Nat => Gen.boundsPointsNext ⟨mn, mx⟩ i) (Gen.boundsLen (⟨mn, mx⟩ : Box α)) Gen.boundsPointsInit
      = .ok (vertices (.bounds mn mx)) := by
  have hl : Gen.boundsLen (⟨mn, mx⟩ : Box α) = if Box.empty (⟨mn, mx⟩ : Box α) then 0 else 4 := rfl
  rw [hl]
  cases hE : Box.empty (⟨mn, mx⟩ : Box α) with
  | true => simp only [Box.empty] at hE; simp [vertices, hE, drainStep]
  | false => simp only [Box.empty] at hE; simp [vertices, hE]; rfl

/-- **C04_len_src (GeometryCollection).** `GeometryCollection.Len` as written. -/
theorem C04_len_src_GeometryCollection (gs : List (Geom α)) (h : noNilL gs = true) :
    Gen.geometryCollectionLen lenG gs = .ok (verticesL gs).length := by
  rw [← C04_tie_GeometryCollection_Len, lenG]; exact C04_lenL gs h

theorem drain_eq_drainStep_inv {σ : Type} (g : Geom α) (enc : σ → ItSt) (Inv : σ → Prop)
    (step : σ → Except Fault (Pt α × σ))
    (he : ∀ s e, Inv s → step s = .error e → next g (enc s) = .error e)
    (ho : ∀ s v s', Inv s → step s = .ok (v, s') → next g (enc s) = .ok (v, enc s') ∧ Inv s') :
    ∀ n s, Inv s → drain g n (enc s) = drainStep step n s := by
  intro n
  induction n with
  | zero => intro s _; rfl
  | succ n ih =>
    intro s hs
    simp only [drain, drainStep, bind, Except.bind, pure, Except.pure]
    cases hst : step s with
    | error e => rw [he s e hs hst]
    | ok r =>
      obtain ⟨v, s'⟩ := r
      obtain ⟨h1, h2⟩ := ho s v s' hs hst
      rw [h1]
      dsimp only
      rw [ih s' h2]
      cases drainStep step n s' <;> rfl

/-- **C04_points_src (GeometryCollection).** `GeometryCollection.Points()`/`Len()` as written in
geometrycollection.go: the constructor does not panic, and calling the closure `Len()` times returns the vertices
of all members in storage order without a panic — any nesting, any runs of members without vertices, and without
running out of the rendered loop's fuel. -/
theorem C04_points_src_GeometryCollection (gs : List (Geom α)) (h : noNilL gs = true) :
    ∃ n st0, Gen.geometryCollectionLen lenG gs = .ok n ∧
      Gen.geometryCollectionPointsInit mkClo gs = .ok st0 ∧
      drainStep (fun st : Nat × Nat × Option (Clo α) =>
          Gen.geometryCollectionPointsNext lenG mkClo callClo gs st.1 st.2.1 st.2.2) n st0
        = .ok (verticesL gs) := by
  have hp := C04_points (.collection gs) (by simpa [noNil] using h)
  have hlen := C04_len_src_GeometryCollection gs h
  obtain ⟨hi, hn⟩ := C04_tie_GeometryCollection_Points gs
  have hlenM : lenG (.collection gs) = .ok (verticesL gs).length := by rw [lenG]; exact C04_lenL gs h
  simp only [pointsOf, hlenM, bind, Except.bind, vertices] at hp
  cases hst : Gen.geometryCollectionPointsInit mkClo gs with
  | error e => rw [hst] at hi; simp only at hi; rw [hi] at hp; cases hp
  | ok st0 =>
    rw [hst] at hi
    simp only at hi
    rw [hi.1] at hp
    simp only at hp
    refine ⟨_, st0, hlen, rfl, ?_⟩
    rw [← drain_eq_drainStep_inv (.collection gs) encC (GoodC gs) _
      (fun s e hs hst => by have := hn s hs; rw [hst] at this; exact this)
      (fun s v s' hs hst => by have := hn s hs; rw [hst] at this; exact this) _ st0 hi.2]
    exact hp

section
attribute [local instance] infOfBounded
variable {α : Type} [LinearOrder α] [BoundedOrder α]

/-- **C04_bounds_src (GeometryCollection).** `GeometryCollection.Bounds` as written: the envelope of the vertices
of all members, whatever the members are (`*Bounds` without points included). -/
theorem C04_bounds_src_GeometryCollection (gs : List (Geom α)) (h : noNilL gs = true) :
    ∃ b, Gen.geometryCollectionBounds boundsG gs = .ok b ∧ IsEnvelope (verticesL gs) b := by
  rw [← C04_tie_GeometryCollection_Bounds]
  have := C04_bounds (.collection gs) (by simpa [noNil] using h) rfl
  simpa [vertices] using this
end

end GeomV.C04
