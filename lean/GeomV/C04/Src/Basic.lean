import GeomV.C04.Proofs
import GeomV.C04.Ties.Empty
import GeomV.C04.Ties.Copy
import GeomV.C04.Ties.NewBounds
import GeomV.C04.Ties.NewBoundsPoint
import GeomV.C04.Ties.ExtendPoints
/-! C04 — box theorems restated for the definitions regenerated from the current Go source (`Gen.*`). -/
set_option linter.unusedSectionVars false
namespace GeomV.C04
open GeomV GeomV.C04.Spec
attribute [local instance] infOfBounded
variable {α : Type} [LinearOrder α] [BoundedOrder α]

/-- `Empty` as written in bounds.go -/
theorem C04_empty_src (b : Box α) : Gen.empty b = true ↔ NoPoint b := by
  rw [C04_tie_Empty]; exact C04_empty b

/-- `Copy` as written in bounds.go -/
theorem C04_copy_src (b : Box α) : Gen.copy b = b := by rw [C04_tie_Copy]; rfl

/-- `NewBounds`, `NewBoundsPoint` as written in bounds.go -/
theorem C04_newBounds_src : (Gen.newBounds : Box α) = emptyBox ∧
    ∀ p : Pt α, IsEnvelope [p] (Gen.newBoundsPoint p) := by
  refine ⟨by rw [C04_tie_NewBounds]; rfl, fun p => ?_⟩
  rw [C04_tie_NewBoundsPoint]; exact (Inv.ofPoint p).isEnvelope

/-- `extendPoints` as written in bounds.go, started from `NewBounds()`, computes the envelope
(this is `Bounds()` of MultiPoint/LineString; the other types fold `Extend`/`extendPointss` the same way). -/
theorem C04_extendPoints_src (ps : List (Pt α)) : IsEnvelope ps (Gen.extendPoints Gen.newBounds ps) := by
  rw [C04_tie_extendPoints, C04_tie_NewBounds]
  simpa using (Inv.new.extendPoints ps).isEnvelope

end GeomV.C04
