import GeomV.C04.Proofs
import GeomV.C04.Ties.Intersection
/-! C04 — box theorems restated for the definitions regenerated from the current Go source (`Gen.*`). -/
set_option linter.unusedSectionVars false
namespace GeomV.C04
open GeomV GeomV.C04.Spec
attribute [local instance] infOfBounded
variable {α : Type} [LinearOrder α] [BoundedOrder α]

/-- box–box branch of `Intersection` as written in bounds.go: nil iff no common area, else exactly
the common rectangle (all boxes). -/
theorem C04_intersection_src (a b : Box α) :
    (Gen.intersectionBox a b = none ↔ ¬ HasCommonArea a b) ∧
    (∀ r, Gen.intersectionBox a b = some r → IsCommonRect a b r ∧ HasCommonArea a b) := by
  rw [C04_tie_Intersection]; exact C04_intersection a b

end GeomV.C04
