import GeomV.C04.Proofs
import GeomV.C04.Ties.PointsSimple
import GeomV.C04.Ties.PointsMultiLineString
import GeomV.C04.Ties.PointsPolygon
import GeomV.C04.Ties.PointsMultiPolygon
import GeomV.C04.Ties.Lens
/-! C04 — the vertex-enumeration theorem restated for the closures and `Len()` methods as rendered from the
current Go source: calling the rendered closure `Len()` times from its zero state returns exactly the
vertices in storage order, without a fault (in particular without running out of loop fuel). -/
set_option linter.unusedVariables false
set_option linter.unusedSimpArgs false
set_option linter.unusedSectionVars false
namespace GeomV.C04
open GeomV GeomV.C04.Spec
variable {α : Type} [LT α] [DecidableLT α]

theorem drain_eq_drainStep {σ : Type} (g : Geom α) (enc : σ → ItSt) (step : σ → Except Fault (Pt α × σ))
    (h : ∀ s, next g (enc s) = match step s with | .error e => .error e | .ok (v, s') => .ok (v, enc s')) :
    ∀ n s, drain g n (enc s) = drainStep step n s := by
  intro n
  induction n with
  | zero => intro s; rfl
  | succ n ih =>
    intro s
    simp only [drain, drainStep, h s, bind, Except.bind, pure, Except.pure]
    cases step s with
    | error e => rfl
    | ok r =>
      obtain ⟨v, s'⟩ := r
      dsimp only
      rw [ih s']
      cases drainStep step n s' <;> rfl

theorem points_src_of (g : Geom α) (hn : noNil g = true) {σ : Type} (enc : σ → ItSt)
    (step : σ → Except Fault (Pt α × σ)) (s0 : σ) (n : Nat)
    (hlen : lenG g = .ok n) (hinit : init g = .ok (enc s0))
    (h : ∀ s, next g (enc s) = match step s with | .error e => .error e | .ok (v, s') => .ok (v, enc s')) :
    drainStep step n s0 = .ok (vertices g) := by
  have := C04_points g hn
  simp only [pointsOf, hlen, hinit, bind, Except.bind] at this
  rw [← drain_eq_drainStep g enc step h n s0]; exact this

/-- **C04_points_src (Polygon).** `Polygon.Points()`/`Len()` as written in polygon.go. -/
theorem C04_points_src_Polygon (p : List (List (Pt α))) :
    drainStep (fun s : Nat × Nat => Gen.polygonPointsNext p s.1 s.2) (Gen.polygonLen p) Gen.polygonPointsInit
      = .ok p.flatten :=
  points_src_of (.polygon p) rfl (fun s => ItSt.two s.1 s.2) _ _ _ (C04_tie_Polygon_Len p)
    (C04_tie_Polygon_Points p 0 0).1 (fun s => by
      rw [(C04_tie_Polygon_Points p s.1 s.2).2]
      rcases Gen.polygonPointsNext p s.1 s.2 with e | ⟨v, i', j'⟩ <;> rfl)

/-- **C04_points_src (MultiLineString).** as written in multilinestring.go. -/
theorem C04_points_src_MultiLineString (ls : List (List (Pt α))) :
    drainStep (fun s : Nat × Nat => Gen.multiLineStringPointsNext ls s.1 s.2) (Gen.multiLineStringLen ls)
      Gen.multiLineStringPointsInit = .ok ls.flatten :=
  points_src_of (.multiLineString ls) rfl (fun s => ItSt.two s.1 s.2) _ _ _ (C04_tie_MultiLineString_Len ls)
    (C04_tie_MultiLineString_Points ls 0 0).1 (fun s => by
      rw [(C04_tie_MultiLineString_Points ls s.1 s.2).2]
      rcases Gen.multiLineStringPointsNext ls s.1 s.2 with e | ⟨v, i', j'⟩ <;> rfl)

/-- **C04_points_src (MultiPolygon).** as written in multipolygon.go: any number of empty rings and
empty polygons in a row. -/
theorem C04_points_src_MultiPolygon (mp : List (List (List (Pt α)))) :
    drainStep (fun s : Nat × Nat × Nat => Gen.multiPolygonPointsNext mp s.1 s.2.1 s.2.2) (Gen.multiPolygonLen mp)
      Gen.multiPolygonPointsInit = .ok (mp.map List.flatten).flatten :=
  points_src_of (.multiPolygon mp) rfl (fun s => ItSt.three s.1 s.2.1 s.2.2) _ _ _ (C04_tie_MultiPolygon_Len mp)
    (C04_tie_MultiPolygon_Points mp 0 0 0).1 (fun s => by
      rw [(C04_tie_MultiPolygon_Points mp s.1 s.2.1 s.2.2).2]
      rcases Gen.multiPolygonPointsNext mp s.1 s.2.1 s.2.2 with e | ⟨v, i', j', k'⟩ <;> rfl)

/-- **C04_points_src (MultiPoint, LineString).** -/
theorem C04_points_src_MultiPoint (ps : List (Pt α)) :
    drainStep (fun i : Nat => Gen.multiPointPointsNext ps i) (Gen.multiPointLen ps) Gen.multiPointPointsInit = .ok ps :=
  points_src_of (.multiPoint ps) rfl ItSt.one _ _ _ (C04_tie_MultiPoint_Len ps)
    (C04_tie_MultiPoint_Points ps 0).1 (fun i => by
      rw [(C04_tie_MultiPoint_Points ps i).2]
      rcases Gen.multiPointPointsNext ps i with e | ⟨v, i'⟩ <;> rfl)

theorem C04_points_src_LineString (ps : List (Pt α)) :
    drainStep (fun i : Nat => Gen.lineStringPointsNext ps i) (Gen.lineStringLen ps) Gen.lineStringPointsInit = .ok ps :=
  points_src_of (.lineString ps) rfl ItSt.one _ _ _ (C04_tie_LineString_Len ps)
    (C04_tie_LineString_Points ps 0).1 (fun i => by
      rw [(C04_tie_LineString_Points ps i).2]
      rcases Gen.lineStringPointsNext ps i with e | ⟨v, i'⟩ <;> rfl)

end GeomV.C04
