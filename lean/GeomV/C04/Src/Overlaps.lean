import GeomV.C04.Proofs
import GeomV.C04.Ties.Overlaps
/-! C04 — box theorems restated for the definitions regenerated from the current Go source (`Gen.*`). -/
set_option linter.unusedSectionVars false
namespace GeomV.C04
open GeomV GeomV.C04.Spec
attribute [local instance] infOfBounded
variable {α : Type} [LinearOrder α] [BoundedOrder α]

/-- `Overlaps` as written in bounds.go: true exactly when the closed boxes share a point (all boxes). -/
theorem C04_overlaps_src (a b : Box α) : Gen.overlaps a b = true ↔ SharePoint a b := by
  rw [C04_tie_Overlaps]; exact C04_overlaps a b

end GeomV.C04
