import GeomV.C04.Model
/-!
# C04 — loops of the rendered closures

`whileFuel` with the receiver-derived fuel, run on a condition/body that satisfy the stated equations,
is the model's fuel-free structural skip function (`skip2`, `skip3`).  Used by Ties/Points*.lean, where the
equations are discharged for the condition/body the extractor rendered from the Go source.  Core only.
-/
set_option linter.unusedVariables false
set_option linter.unusedSimpArgs false
namespace GeomV.C04
open GeomV
variable {α : Type}

theorem idx_drop {β : Type} (l : List β) (j : Nat) :
    idx l j = match l.drop j with | [] => .error .index | x :: _ => .ok x := by
  induction l generalizing j with
  | nil => simp [idx]
  | cons a l ih =>
    cases j with
    | zero => simp [idx]
    | succ j => simpa [idx] using ih j

theorem drop_succ_of_drop {β : Type} {l : List β} {j : Nat} {x : β} {rest : List β} (h : l.drop j = x :: rest) :
    l.drop (j+1) = rest := by
  have := List.drop_drop (i := 1) (j := j) (l := l)
  rw [h] at this; simpa using this.symm

theorem drop_lt {β : Type} {l : List β} {j : Nat} {x : β} {rest : List β} (h : l.drop j = x :: rest) : j < l.length := by
  rcases Nat.lt_or_ge j l.length with h' | h'
  · exact h'
  · rw [List.drop_of_length_le h'] at h; cases h

theorem loop2 {β : Type} (p : List (List β)) (c : Nat × Nat → Except Fault Bool) (b : Nat × Nat → Except Fault (Nat × Nat))
    (hc : ∀ i j, c (i, j) = match idx p j with | .error e => .error e | .ok r => .ok (i == r.length))
    (hb : ∀ i j, b (i, j) = .ok (0, j+1)) :
    ∀ n i j, p.length ≤ n + j → whileFuel (n+1) c b (i, j) = skip2 i j (p.drop j) := by
  intro n
  induction n with
  | zero =>
    intro i j h
    rw [whileFuel, hc, idx_drop]
    have : p.drop j = [] := List.drop_of_length_le (by omega)
    simp [this, skip2]
  | succ n ih =>
    intro i j h
    rw [whileFuel, hc, idx_drop]
    cases hd : p.drop j with
    | nil => simp [skip2]
    | cons r rest =>
      simp only [skip2]
      by_cases hi : i = r.length
      · have hlt := drop_lt hd
        simp only [hi, beq_self_eq_true, if_true, hb]
        rw [ih 0 (j+1) (by omega), drop_succ_of_drop hd]
      · have : (i == r.length) = false := by simp [hi]
        simp [this, hi]

def mu3 {β : Type} (j : Nat) : List (List (List β)) → Nat
  | [] => 0
  | p :: rest => (p.length - j) + 1 + slots rest

theorem mu3_zero {β : Type} (M : List (List (List β))) : mu3 0 M = slots M := by
  cases M <;> simp [mu3, slots]

theorem slots_drop_le {β : Type} (M : List (List (List β))) (k : Nat) : slots (M.drop k) ≤ slots M := by
  induction M generalizing k with
  | nil => simp [slots]
  | cons p rest ih =>
    cases k with
    | zero => simp
    | succ k => simp only [List.drop_succ_cons, slots]; have := ih k; omega

theorem mu3_le {β : Type} (M : List (List (List β))) (j : Nat) : mu3 j M ≤ slots M := by
  cases M with
  | nil => simp [mu3, slots]
  | cons p rest => simp [mu3, slots]

theorem loop3 {β : Type} (mp : List (List (List β))) (c : Nat × Nat × Nat → Except Fault Bool)
    (b : Nat × Nat × Nat → Except Fault (Nat × Nat × Nat))
    (hc : ∀ i j k, c (i, j, k) = match idx mp k with
      | .error e => .error e
      | .ok pk => if j ≥ pk.length then .ok true else
        match idx pk j with | .error e => .error e | .ok r => .ok (i == r.length))
    (hb : ∀ i j k, b (i, j, k) = match idx mp k with
      | .error e => .error e
      | .ok pk => if j + 1 ≥ pk.length then .ok (0, 0, k+1) else .ok (0, j+1, k)) :
    ∀ n i j k, mu3 j (mp.drop k) ≤ n → whileFuel (n+1) c b (i, j, k) = skip3 i j k (mp.drop k) := by
  intro n
  induction n with
  | zero =>
    intro i j k h
    rw [whileFuel, hc, idx_drop]
    cases hd : mp.drop k with
    | nil => simp [skip3]
    | cons p rest => rw [hd] at h; simp [mu3] at h
  | succ n ih =>
    intro i j k h
    rw [whileFuel, hc, idx_drop]
    cases hd : mp.drop k with
    | nil => simp [skip3]
    | cons p rest =>
      rw [hd] at h
      have hrest : mp.drop (k+1) = rest := drop_succ_of_drop hd
      have hk : idx mp k = .ok p := by rw [idx_drop, hd]
      have next_poly : whileFuel (n+1) c b (0, 0, k+1) = skip3 0 0 (k+1) rest := by
        rw [ih 0 0 (k+1) (by rw [hrest, mu3_zero]; simp [mu3] at h; omega), hrest]
      simp only [skip3]
      by_cases hj : j ≥ p.length
      · simp only [hj, if_true, hb, hk]
        have : j + 1 ≥ p.length := by omega
        simp only [this, if_true, next_poly]
        rw [List.drop_of_length_le hj]; simp [skipRings]
      · simp only [hj, if_false, idx_drop p j]
        cases hr : p.drop j with
        | nil => exact absurd (List.drop_eq_nil_iff.1 hr) (by omega)
        | cons r rest' =>
          have hrest' : p.drop (j+1) = rest' := drop_succ_of_drop hr
          simp only [skipRings]
          by_cases hi : i = r.length
          · simp only [hi, beq_self_eq_true, if_true, hb, hk]
            by_cases hj1 : j + 1 ≥ p.length
            · simp only [hj1, if_true, next_poly]
              have : rest' = [] := by rw [← hrest']; exact List.drop_of_length_le hj1
              simp [this, skipRings]
            · simp only [hj1, if_false]
              rw [ih 0 (j+1) k (by rw [hd]; simp [mu3] at h ⊢; omega), hd]
              simp only [skip3, hrest']
          · have : (i == r.length) = false := by simp [hi]
            simp [this, hi]
end GeomV.C04
