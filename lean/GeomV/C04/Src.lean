import GeomV.C04.Proofs
import GeomV.C04.Ties
/-!
# C04 — the box theorems, restated for the definitions regenerated from the current Go source

`Gen.*` is what `harness/cmd/c04 extract` reads out of bounds.go on this run; these statements are
therefore about the code as it is now (modulo the translation table in extract.go), and each is
re-checked by `lake build` whenever the source changes.
-/
set_option linter.unusedSectionVars false
namespace GeomV.C04
open GeomV GeomV.C04.Spec
attribute [local instance] infOfBounded

variable {α : Type} [LinearOrder α] [BoundedOrder α]

/-- `Overlaps` as written in bounds.go: true exactly when the closed boxes share a point (all boxes). -/
theorem C04_overlaps_src (a b : Box α) : Gen.overlaps a b = true ↔ SharePoint a b := by
  rw [C04_tie_Overlaps]; exact C04_overlaps a b

/-- box–box branch of `Intersection` as written in bounds.go: nil iff no common area, else exactly
the common rectangle (all boxes). -/
theorem C04_intersection_src (a b : Box α) :
    (Gen.intersectionBox a b = none ↔ ¬ HasCommonArea a b) ∧
    (∀ r, Gen.intersectionBox a b = some r → IsCommonRect a b r ∧ HasCommonArea a b) := by
  rw [C04_tie_Intersection]; exact C04_intersection a b

/-- `Extend` as written in bounds.go is the lattice join (all boxes; nil argument: no change). -/
theorem C04_extend_join_src (a b : Box α) :
    IsJoin a b (Gen.extend a (some b)) ∧ Gen.extend a none = a := by
  rw [C04_tie_Extend, C04_tie_Extend]; exact ⟨C04_extend_join a b, rfl⟩

/-- join laws for `Extend` as written in bounds.go (all boxes, as point sets). -/
theorem C04_extend_laws_src (a b c : Box α) :
    SameSet (Gen.extend a (some b)) (Gen.extend b (some a)) ∧
    SameSet (Gen.extend (Gen.extend a (some b)) (some c)) (Gen.extend a (some (Gen.extend b (some c)))) ∧
    SameSet (Gen.extend a (some a)) a := by
  simp only [C04_tie_Extend]; exact C04_extend_laws_sets a b c

/-- `Empty`, `Copy`, `NewBounds`, `NewBoundsPoint` as written in bounds.go. -/
theorem C04_empty_src (b : Box α) : Gen.empty b = true ↔ NoPoint b := by
  rw [C04_tie_Empty]; exact C04_empty b

theorem C04_copy_src (b : Box α) : Gen.copy b = b := rfl

theorem C04_newBounds_src : (Gen.newBounds : Box α) = emptyBox ∧
    ∀ p : Pt α, IsEnvelope [p] (Gen.newBoundsPoint p) := by
  refine ⟨rfl, fun p => ?_⟩
  rw [C04_tie_NewBoundsPoint]; exact (Inv.ofPoint p).isEnvelope

/-- `extendPoints` as written in bounds.go, started from `NewBounds()`, computes the envelope
(this is `Bounds()` of MultiPoint/LineString; the other types fold `Extend`/`extendPointss` the same way). -/
theorem C04_extendPoints_src (ps : List (Pt α)) : IsEnvelope ps (Gen.extendPoints Gen.newBounds ps) := by
  rw [C04_tie_extendPoints, C04_tie_NewBounds]
  simpa using (Inv.new.extendPoints ps).isEnvelope

end GeomV.C04
