import GeomV.C04.NaN
import GeomV.C04.Spec
import GeomV.C04.SpecNaN
import Mathlib.Order.BoundedOrder.Basic
import Mathlib.Order.Lattice
import Mathlib.Order.MinMax
import Mathlib.Order.BoundedOrder.Lattice
import GeomV.C04.Lemmas
import GeomV.C04.KeyOrder
/-!
# C04 — what holds with NaN coordinates

NaN is outside the property's quantifier ("all coordinate values including negative zero and infinities"), and the
envelope clause cannot hold literally (a box "containing" a NaN vertex does not exist: every comparison with NaN is
false).  What does hold, for every geometry without nil and without `*Bounds` members:

* `C04_points`/`C04_len` do not look at coordinates: they are stated for an arbitrary coordinate type and so cover
  NaN patterns as they are (Proofs.lean);
* **`C04_nan_bounds_flat`** — `Bounds()` is the plain left fold of `extendPoint` over all vertices in storage order
  starting from `NewBounds()`, whatever the member structure (empty members, nesting): the `Extend`/`Empty()` detour
  through member boxes never loses or invents anything, even though `Empty()` is false for any box with a NaN side;
* **`C04_nan_axis`** — hence each side of the box is decided by its own axis alone: `Min.X` is `-Inf` if some vertex
  has `X = -Inf`, else NaN if some vertex has `X = NaN`, else the least `X` (dually for `Max` with `+Inf`).

The first is proved from a short list of algebraic laws (`NLaws`) that `math.Min/Max/</<=` satisfy on values-or-NaN;
`NV α` is shown to satisfy them for every bounded linear order `α` with `⊥ < ⊤`.
-/
set_option linter.unusedVariables false
set_option linter.unusedSectionVars false
set_option linter.unusedSimpArgs false
namespace GeomV.C04
open GeomV GeomV.C04.Spec

/-- laws of `math.Min`, `math.Max`, `<` on float64 including NaN -/
class NLaws (β : Type) [LT β] [Min β] [Max β] [HasInf β] : Prop where
  nmin_assoc : ∀ a b c : β, min (min a b) c = min a (min b c)
  nmin_comm : ∀ a b : β, min a b = min b a
  nmin_idem : ∀ a : β, min a a = a
  nmax_assoc : ∀ a b c : β, max (max a b) c = max a (max b c)
  nmax_comm : ∀ a b : β, max a b = max b a
  nmax_idem : ∀ a : β, max a a = a
  min_pinf : ∀ a : β, min pinf a = a
  max_ninf : ∀ a : β, max ninf a = a
  /-- if `m` is below `x` and `y` for `min`, it is below `max x y` -/
  min_max_mono : ∀ m x y : β, min m x = m → min m y = m → min m (max x y) = m
  max_min_mono : ∀ m x y : β, max m x = m → max m y = m → max m (min x y) = m
  /-- `lo = min lo hi` and `hi = max lo hi` exclude `hi < lo` -/
  not_lt_of_min : ∀ a b : β, min a b = a → max a b = b → ¬ b < a
  ninf_lt_pinf : (ninf : β) < pinf

section flat
variable {β : Type} [LE β] [LT β] [Min β] [Max β] [DecidableLE β] [DecidableLT β] [HasInf β] [NLaws β]
open NLaws

def minL (l : List β) : β := l.foldl min pinf
def maxL (l : List β) : β := l.foldl max ninf

theorem foldl_min_eq (a : β) (l : List β) : l.foldl min a = min a (minL l) := by
  unfold minL
  induction l generalizing a with
  | nil => simp [nmin_comm a pinf, min_pinf]
  | cons x l ih => simp only [List.foldl_cons]; rw [ih (min a x), ih (min pinf x), min_pinf, nmin_assoc]

theorem foldl_max_eq (a : β) (l : List β) : l.foldl max a = max a (maxL l) := by
  unfold maxL
  induction l generalizing a with
  | nil => simp [nmax_comm a ninf, max_ninf]
  | cons x l ih => simp only [List.foldl_cons]; rw [ih (max a x), ih (max ninf x), max_ninf, nmax_assoc]

theorem minL_cons (x : β) (l : List β) : minL (x :: l) = min x (minL l) := by
  show (x :: l).foldl min pinf = _
  rw [List.foldl_cons, min_pinf, foldl_min_eq]

theorem maxL_cons (x : β) (l : List β) : maxL (x :: l) = max x (maxL l) := by
  show (x :: l).foldl max ninf = _
  rw [List.foldl_cons, max_ninf, foldl_max_eq]

theorem minL_append (s t : List β) : minL (s ++ t) = min (minL s) (minL t) := by
  show (s ++ t).foldl min pinf = _
  rw [List.foldl_append, foldl_min_eq]; rfl

theorem maxL_append (s t : List β) : maxL (s ++ t) = max (maxL s) (maxL t) := by
  show (s ++ t).foldl max ninf = _
  rw [List.foldl_append, foldl_max_eq]; rfl

/-- the least element (for `min`) of a non-empty list is below every element, hence below their `max` -/
theorem minL_le_all (l : List β) : ∀ x ∈ l, min (minL l) x = minL l := by
  induction l with
  | nil => intro x hx; cases hx
  | cons y l ih =>
    intro x hx
    rw [minL_cons]
    rcases List.mem_cons.1 hx with e | hx
    · subst e; rw [nmin_comm x (minL l), nmin_assoc, nmin_idem]
    · rw [nmin_assoc, ih x hx]

theorem maxL_ge_all (l : List β) : ∀ x ∈ l, max (maxL l) x = maxL l := by
  induction l with
  | nil => intro x hx; cases hx
  | cons y l ih =>
    intro x hx
    rw [maxL_cons]
    rcases List.mem_cons.1 hx with e | hx
    · subst e; rw [nmax_comm x (maxL l), nmax_assoc, nmax_idem]
    · rw [nmax_assoc, ih x hx]

theorem min_below_maxL (m : β) (l : List β) (hne : l ≠ []) (h : ∀ x ∈ l, min m x = m) : min m (maxL l) = m := by
  induction l with
  | nil => exact absurd rfl hne
  | cons y l ih =>
    rw [maxL_cons]
    cases l with
    | nil =>
      have : maxL ([] : List β) = ninf := rfl
      rw [this, nmax_comm, max_ninf]; exact h y (by simp)
    | cons z l' =>
      exact min_max_mono m y _ (h y (by simp)) (ih (by simp) (fun x hx => h x (List.mem_cons_of_mem _ hx)))

theorem max_above_minL (m : β) (l : List β) (hne : l ≠ []) (h : ∀ x ∈ l, max m x = m) : max m (minL l) = m := by
  induction l with
  | nil => exact absurd rfl hne
  | cons y l ih =>
    rw [minL_cons]
    cases l with
    | nil =>
      have : minL ([] : List β) = pinf := rfl
      rw [this, nmin_comm, min_pinf]; exact h y (by simp)
    | cons z l' =>
      exact max_min_mono m y _ (h y (by simp)) (ih (by simp) (fun x hx => h x (List.mem_cons_of_mem _ hx)))

theorem minL_maxL (l : List β) (hne : l ≠ []) : min (minL l) (maxL l) = minL l :=
  min_below_maxL _ l hne (minL_le_all l)

theorem maxL_minL (l : List β) (hne : l ≠ []) : max (maxL l) (minL l) = maxL l :=
  max_above_minL _ l hne (maxL_ge_all l)

/-- the flat fold, side by side -/
theorem extendPoints_eq (b : Box β) (ps : List (Pt β)) :
    b.extendPoints ps = ⟨⟨min b.mn.x (minL (ps.map (·.x))), min b.mn.y (minL (ps.map (·.y)))⟩,
                         ⟨max b.mx.x (maxL (ps.map (·.x))), max b.mx.y (maxL (ps.map (·.y)))⟩⟩ := by
  unfold Box.extendPoints
  induction ps generalizing b with
  | nil =>
    have h1 : minL ([] : List β) = pinf := rfl
    have h2 : maxL ([] : List β) = ninf := rfl
    simp [h1, h2, nmin_comm _ (pinf : β), min_pinf, nmax_comm _ (ninf : β), max_ninf]
  | cons p ps ih =>
    simp only [List.foldl_cons, List.map_cons]
    rw [ih]
    simp [Box.extendPoint, minL_cons, maxL_cons, nmin_assoc, nmax_assoc]

theorem flat_new (ps : List (Pt β)) :
    (Box.new : Box β).extendPoints ps = ⟨⟨minL (ps.map (·.x)), minL (ps.map (·.y))⟩, ⟨maxL (ps.map (·.x)), maxL (ps.map (·.y))⟩⟩ := by
  rw [extendPoints_eq]; simp [Box.new, min_pinf, max_ninf]

theorem new_empty : (Box.new : Box β).empty = true := by
  simp [Box.empty, Box.new, ninf_lt_pinf]

theorem flat_nonempty (ps : List (Pt β)) (hne : ps ≠ []) : ((Box.new : Box β).extendPoints ps).empty = false := by
  rw [flat_new]
  have hx : ps.map (·.x) ≠ [] := by simpa using hne
  have hy : ps.map (·.y) ≠ [] := by simpa using hne
  have h1 := not_lt_of_min _ _ (minL_maxL _ hx) (by rw [nmax_comm]; exact maxL_minL _ hx)
  have h2 := not_lt_of_min _ _ (minL_maxL _ hy) (by rw [nmax_comm]; exact maxL_minL _ hy)
  simp [Box.empty, h1, h2]

/-- **`Extend` by the box of a point list = folding the points in**, for boxes that are themselves such folds -/
theorem extend_flat (T S : List (Pt β)) :
    ((Box.new : Box β).extendPoints T).extend (some (Box.new.extendPoints S)) = Box.new.extendPoints (T ++ S) := by
  cases S with
  | nil => simp [Box.extend, Box.extendPoints, new_empty]
  | cons s S =>
    have hS := flat_nonempty (s :: S) (by simp)
    cases T with
    | nil =>
      have : (Box.new : Box β).extendPoints [] = Box.new := rfl
      simp [Box.extend, hS, this, new_empty]
    | cons t T =>
      have hT := flat_nonempty (t :: T) (by simp)
      simp only [Box.extend, hS, hT, Bool.false_eq_true, if_false]
      rw [flat_new (t :: T ++ (s :: S)), flat_new (t :: T), flat_new (s :: S)]
      have hx : (s :: S).map (·.x) ≠ [] := by simp
      have hy : (s :: S).map (·.y) ≠ [] := by simp
      simp only [Box.extendPoint, List.map_append, minL_append, maxL_append]
      congr 2
      · rw [nmin_assoc, minL_maxL _ hx]
      · rw [nmin_assoc, minL_maxL _ hy]
      · rw [nmax_assoc, nmax_comm (minL _) (maxL _), maxL_minL _ hx]
      · rw [nmax_assoc, nmax_comm (minL _) (maxL _), maxL_minL _ hy]

theorem extendPoints_append (b : Box β) (s t : List (Pt β)) : b.extendPoints (s ++ t) = (b.extendPoints s).extendPoints t := by
  simp [Box.extendPoints, List.foldl_append]

theorem extendPointss_flat (b : Box β) (rs : List (List (Pt β))) : b.extendPointss rs = b.extendPoints rs.flatten := by
  unfold Box.extendPointss
  induction rs generalizing b with
  | nil => rfl
  | cons r rs ih => simp only [List.foldl_cons, List.flatten_cons, extendPoints_append]; exact ih _

theorem foldLines_flat (T : List (Pt β)) (ls : List (List (Pt β))) :
    ls.foldl (fun b l => b.extend (some (Box.new.extendPoints l))) ((Box.new : Box β).extendPoints T)
      = Box.new.extendPoints (T ++ ls.flatten) := by
  induction ls generalizing T with
  | nil => simp
  | cons l ls ih => simp only [List.foldl_cons, List.flatten_cons]; rw [extend_flat, ih, List.append_assoc]

theorem foldPolys_flat (T : List (Pt β)) (ps : List (List (List (Pt β)))) :
    ps.foldl (fun b p => b.extend (some (Box.new.extendPointss p))) ((Box.new : Box β).extendPoints T)
      = Box.new.extendPoints (T ++ (ps.map List.flatten).flatten) := by
  induction ps generalizing T with
  | nil => simp
  | cons p ps ih =>
    simp only [List.foldl_cons, List.map_cons, List.flatten_cons]
    rw [extendPointss_flat, extend_flat, ih, List.append_assoc]

mutual
theorem bounds_flat (g : Geom β) (h : noNil g = true) (hb : noBoxes g = true) :
    boundsG g = .ok (Box.new.extendPoints (vertices g)) := by
  cases g with
  | nil => simp [noNil] at h
  | bounds mn mx => simp [noBoxes] at hb
  | point p =>
    simp only [boundsG, vertices]
    rw [flat_new]; simp [Box.ofPoint, minL_cons, maxL_cons, minL, maxL, nmin_comm _ (pinf : β), min_pinf, nmax_comm _ (ninf : β), max_ninf]
  | multiPoint ps => rfl
  | lineString ps => rfl
  | multiLineString ls =>
    simp only [boundsG, vertices]
    have := foldLines_flat ([] : List (Pt β)) ls
    simpa [Box.extendPoints] using this
  | polygon rs => simp only [boundsG, vertices, extendPointss_flat]
  | multiPolygon ps =>
    simp only [boundsG, vertices]
    have := foldPolys_flat ([] : List (Pt β)) ps
    simpa [Box.extendPoints] using this
  | collection gs =>
    have := boundsL_flat gs (by simpa [noNil] using h) (by simpa [noBoxes] using hb) []
    simpa [boundsG, vertices, Box.extendPoints] using this
theorem boundsL_flat (gs : List (Geom β)) (h : noNilL gs = true) (hb : noBoxesL gs = true) (T : List (Pt β)) :
    boundsL gs (Box.new.extendPoints T) = .ok (Box.new.extendPoints (T ++ verticesL gs)) := by
  cases gs with
  | nil => simp [boundsL, verticesL]
  | cons g gs =>
    simp only [noNilL, Bool.and_eq_true] at h
    simp only [noBoxesL, Bool.and_eq_true] at hb
    simp only [boundsL, bounds_flat g h.1 hb.1, bind, Except.bind, verticesL]
    rw [extend_flat, boundsL_flat gs h.2 hb.2, List.append_assoc]
end

/-- **C04_nan_bounds_flat.** With any coordinates obeying `NLaws` (float64 with NaN: `NV`), for every geometry
without nil and `*Bounds` members, `Bounds()` does not panic and equals the plain fold of `extendPoint` over all
vertices in storage order from `NewBounds()` — each side is `math.Min`/`math.Max` folded over that axis alone. -/
theorem C04_nan_bounds_flat (g : Geom β) (h : noNil g = true) (hb : noBoxes g = true) :
    boundsG g = .ok ⟨⟨minL ((vertices g).map (·.x)), minL ((vertices g).map (·.y))⟩,
                     ⟨maxL ((vertices g).map (·.x)), maxL ((vertices g).map (·.y))⟩⟩ := by
  rw [bounds_flat g h hb, flat_new]

end flat

/-! ## float64 values or NaN satisfy the laws -/
section nv
attribute [local instance] infOfBounded
variable {α : Type} [LinearOrder α] [BoundedOrder α]

theorem NV.min_def' (a b : NV α) : min a b =
    if a = .val ⊥ ∨ b = .val ⊥ then .val ⊥ else match a, b with | .val x, .val y => .val (min x y) | _, _ => .nan := rfl
theorem NV.max_def' (a b : NV α) : max a b =
    if a = .val ⊤ ∨ b = .val ⊤ then .val ⊤ else match a, b with | .val x, .val y => .val (max x y) | _, _ => .nan := rfl
theorem NV.lt_def' (a b : NV α) : a < b ↔ match a, b with | .val x, .val y => x < y | _, _ => False := Iff.rfl

theorem NV.nlaws (hne : (⊥ : α) < ⊤) : NLaws (NV α) where
  nmin_assoc a b c := by
    rcases a with _ | a <;> rcases b with _ | b <;> rcases c with _ | c <;>
      simp only [NV.min_def', NV.val.injEq, reduceCtorEq, false_or, or_false, or_self, if_false] <;>
      (repeat' split_ifs) <;> simp_all [min_assoc, min_eq_bot]
  nmin_comm a b := by
    rcases a with _ | a <;> rcases b with _ | b <;>
      simp only [NV.min_def', NV.val.injEq, reduceCtorEq, false_or, or_false, or_self, if_false] <;>
      (repeat' split_ifs) <;> simp_all [min_comm, min_eq_bot]
  nmin_idem a := by
    rcases a with _ | a <;> simp [NV.min_def']
    intro h; exact h.symm
  nmax_assoc a b c := by
    rcases a with _ | a <;> rcases b with _ | b <;> rcases c with _ | c <;>
      simp only [NV.max_def', NV.val.injEq, reduceCtorEq, false_or, or_false, or_self, if_false] <;>
      (repeat' split_ifs) <;> simp_all [max_assoc, max_eq_top]
  nmax_comm a b := by
    rcases a with _ | a <;> rcases b with _ | b <;>
      simp only [NV.max_def', NV.val.injEq, reduceCtorEq, false_or, or_false, or_self, if_false] <;>
      (repeat' split_ifs) <;> simp_all [max_comm, max_eq_top]
  nmax_idem a := by
    rcases a with _ | a <;> simp [NV.max_def']
    intro h; exact h.symm
  min_pinf a := by
    rcases a with _ | a <;> simp [NV.min_def', pinf, ne_of_gt hne, (ne_of_gt hne).symm]
    intro h; simp [h]
  max_ninf a := by
    rcases a with _ | a <;> simp [NV.max_def', ninf, ne_of_gt hne, (ne_of_gt hne).symm]
    intro h; simp [h]
  min_max_mono m x y := by
    rcases m with _ | m <;> rcases x with _ | x <;> rcases y with _ | y <;>
      simp only [NV.min_def', NV.max_def', NV.val.injEq, reduceCtorEq, false_or, or_false, or_self, if_false] <;>
      (repeat' split_ifs) <;> simp_all [min_eq_bot, max_eq_top, ne_of_gt hne, (ne_of_gt hne).symm]
  max_min_mono m x y := by
    rcases m with _ | m <;> rcases x with _ | x <;> rcases y with _ | y <;>
      simp only [NV.min_def', NV.max_def', NV.val.injEq, reduceCtorEq, false_or, or_false, or_self, if_false] <;>
      (repeat' split_ifs) <;> simp_all [min_eq_bot, max_eq_top, ne_of_gt hne, (ne_of_gt hne).symm]
  not_lt_of_min a b := by
    rcases a with _ | a <;> rcases b with _ | b <;>
      simp only [NV.min_def', NV.max_def', NV.lt_def', NV.val.injEq, reduceCtorEq, false_or, or_false, or_self, if_false, not_false_eq_true, implies_true] <;>
      (repeat' split_ifs) <;> simp_all [min_eq_bot, max_eq_top, ne_of_gt hne, (ne_of_gt hne).symm] <;>
      (try (intro h1 h2; rw [← h1]; exact bot_le))
  ninf_lt_pinf := by
    show (NV.val (⊥ : α)) < NV.val ⊤
    exact hne

def NV.toVal : NV α → Option α
  | .nan => none
  | .val a => some a

theorem NV.mem_vals (l : List (NV α)) (a : α) : a ∈ l.filterMap NV.toVal ↔ NV.val a ∈ l := by
  induction l with
  | nil => simp
  | cons x l ih => rcases x with _ | x <;> simp [List.filterMap_cons, NV.toVal, ih]

theorem foldl_min_val (a : α) (vs : List α) : vs.foldl min a = min a (vs.foldl min ⊤) := by
  induction vs generalizing a with
  | nil => simp
  | cons v vs ih => simp only [List.foldl_cons]; rw [ih (min a v), ih (min ⊤ v), top_inf_eq, min_assoc]

theorem foldl_max_val (a : α) (vs : List α) : vs.foldl max a = max a (vs.foldl max ⊥) := by
  induction vs generalizing a with
  | nil => simp
  | cons v vs ih => simp only [List.foldl_cons]; rw [ih (max a v), ih (max ⊥ v), bot_sup_eq, max_assoc]

theorem foldl_min_eq_bot (hne : (⊥ : α) < ⊤) (vs : List α) : vs.foldl min ⊤ = ⊥ ↔ ⊥ ∈ vs := by
  induction vs with
  | nil => simp [ne_of_gt hne]
  | cons v vs ih => simp only [List.foldl_cons, List.mem_cons]; rw [foldl_min_val, top_inf_eq, min_eq_bot, ih, eq_comm]

theorem foldl_max_eq_top (hne : (⊥ : α) < ⊤) (vs : List α) : vs.foldl max ⊥ = ⊤ ↔ ⊤ ∈ vs := by
  induction vs with
  | nil => simp [ne_of_lt hne]
  | cons v vs ih => simp only [List.foldl_cons, List.mem_cons]; rw [foldl_max_val, bot_sup_eq, max_eq_top, ih, eq_comm]

/-- **C04_nan_axis (min side).** `math.Min` folded over one axis: `-Inf` if present, else NaN if present, else the
least value (`+Inf` for no value). -/
theorem C04_nan_axis_min (hne : (⊥ : α) < ⊤) (l : List (NV α)) :
    minL l = if .val ⊥ ∈ l then .val ⊥ else if .nan ∈ l then .nan else .val ((l.filterMap NV.toVal).foldl min ⊤) := by
  have := NV.nlaws hne
  induction l with
  | nil => simp [minL, pinf]
  | cons x l ih =>
    rw [minL_cons, ih]
    have hF : NV.val (⊥ : α) ∉ l → ¬ (l.filterMap NV.toVal).foldl min ⊤ = ⊥ := fun h1 h => by
      rw [foldl_min_eq_bot hne, NV.mem_vals] at h; exact h1 h
    rcases x with _ | x
    · by_cases h1 : NV.val (⊥ : α) ∈ l <;> by_cases h2 : NV.nan ∈ l <;> simp [h1, h2, NV.min_def', NV.toVal, hF]
    · by_cases hx : x = ⊥
      · subst hx; simp [NV.min_def']
      · have hx' : ¬ (⊥ : α) = x := fun h => hx h.symm
        by_cases h1 : NV.val (⊥ : α) ∈ l <;> by_cases h2 : NV.nan ∈ l <;>
          simp [h1, h2, hx, hx', NV.min_def', NV.toVal, List.foldl_cons, hF]
        rw [foldl_min_val x]

/-- **C04_nan_axis (max side).** dually: `+Inf` if present, else NaN if present, else the greatest value. -/
theorem C04_nan_axis_max (hne : (⊥ : α) < ⊤) (l : List (NV α)) :
    maxL l = if .val ⊤ ∈ l then .val ⊤ else if .nan ∈ l then .nan else .val ((l.filterMap NV.toVal).foldl max ⊥) := by
  have := NV.nlaws hne
  induction l with
  | nil => simp [maxL, ninf]
  | cons x l ih =>
    rw [maxL_cons, ih]
    have hF : NV.val (⊤ : α) ∉ l → ¬ (l.filterMap NV.toVal).foldl max ⊥ = ⊤ := fun h1 h => by
      rw [foldl_max_eq_top hne, NV.mem_vals] at h; exact h1 h
    rcases x with _ | x
    · by_cases h1 : NV.val (⊤ : α) ∈ l <;> by_cases h2 : NV.nan ∈ l <;> simp [h1, h2, NV.max_def', NV.toVal, hF]
    · by_cases hx : x = ⊤
      · subst hx; simp [NV.max_def']
      · have hx' : ¬ (⊤ : α) = x := fun h => hx h.symm
        by_cases h1 : NV.val (⊤ : α) ∈ l <;> by_cases h2 : NV.nan ∈ l <;>
          simp [h1, h2, hx, hx', NV.max_def', NV.toVal, List.foldl_cons, hF]
        rw [foldl_max_val x]

/-- **C04_nan_bounds.** `C04_nan_bounds_flat` at float64-with-NaN: for every geometry without nil / `*Bounds`
members, whatever NaN coordinates it has, `Bounds()` is side by side the `math.Min`/`math.Max` fold of that axis. -/
theorem C04_nan_bounds (hne : (⊥ : α) < ⊤) (g : Geom (NV α)) (h : noNil g = true) (hb : noBoxes g = true) :
    boundsG g = .ok ⟨⟨minL ((vertices g).map (·.x)), minL ((vertices g).map (·.y))⟩,
                     ⟨maxL ((vertices g).map (·.x)), maxL ((vertices g).map (·.y))⟩⟩ :=
  have := NV.nlaws hne
  C04_nan_bounds_flat g h hb

/-! ## the envelope clause with NaN (`Spec.IsEnvelopeNaN`, SpecNaN.lean) -/

theorem foldl_min_top_cons (v : α) (vs : List α) : (v :: vs).foldl min ⊤ = min v (vs.foldl min ⊤) := by
  simp only [List.foldl_cons]; rw [foldl_min_val, top_inf_eq]

theorem foldl_max_bot_cons (v : α) (vs : List α) : (v :: vs).foldl max ⊥ = max v (vs.foldl max ⊥) := by
  simp only [List.foldl_cons]; rw [foldl_max_val, bot_sup_eq]

theorem foldl_min_top_le (vs : List α) : ∀ v ∈ vs, vs.foldl min ⊤ ≤ v := by
  induction vs with
  | nil => simp
  | cons w vs ih =>
    intro v hv
    rw [foldl_min_top_cons]
    rcases List.mem_cons.1 hv with rfl | hv
    · exact min_le_left _ _
    · exact le_trans (min_le_right _ _) (ih v hv)

theorem foldl_max_bot_ge (vs : List α) : ∀ v ∈ vs, v ≤ vs.foldl max ⊥ := by
  induction vs with
  | nil => simp
  | cons w vs ih =>
    intro v hv
    rw [foldl_max_bot_cons]
    rcases List.mem_cons.1 hv with rfl | hv
    · exact le_max_left _ _
    · exact le_trans (ih v hv) (le_max_right _ _)

theorem foldl_min_top_mem (vs : List α) : vs.foldl min ⊤ ∈ vs ∨ (vs = [] ∧ vs.foldl min ⊤ = ⊤) := by
  induction vs with
  | nil => simp
  | cons w vs ih =>
    left
    rw [foldl_min_top_cons]
    rcases min_choice w (vs.foldl min ⊤) with h | h
    · rw [h]; exact List.mem_cons_self
    · rw [h]
      rcases ih with ih | ⟨rfl, _⟩
      · exact List.mem_cons_of_mem _ ih
      · simp at h ⊢; exact h.symm

theorem foldl_max_bot_mem (vs : List α) : vs.foldl max ⊥ ∈ vs ∨ (vs = [] ∧ vs.foldl max ⊥ = ⊥) := by
  induction vs with
  | nil => simp
  | cons w vs ih =>
    left
    rw [foldl_max_bot_cons]
    rcases max_choice w (vs.foldl max ⊥) with h | h
    · rw [h]; exact List.mem_cons_self
    · rw [h]
      rcases ih with ih | ⟨rfl, _⟩
      · exact List.mem_cons_of_mem _ ih
      · simp at h ⊢; exact h.symm

theorem loSide_minL (hne : (⊥ : α) < ⊤) (l : List (NV α)) : Spec.LoSideNaN l (minL l) := by
  rw [C04_nan_axis_min hne]
  by_cases h1 : NV.val (⊥ : α) ∈ l
  · simp only [h1, if_true]
    refine ⟨fun _ => by simp, fun a ha => ?_⟩
    injection ha with ha; subst ha
    exact ⟨fun v _ => bot_le, Or.inl h1⟩
  · by_cases h2 : NV.nan ∈ l
    · simp only [h1, h2, if_true, if_false]
      exact ⟨fun h => absurd h2 h, fun a ha => by cases ha⟩
    · simp only [h1, h2, if_false]
      refine ⟨fun _ => by simp, fun a ha => ?_⟩
      injection ha with ha; subst ha
      refine ⟨fun v hv => foldl_min_top_le _ v ((NV.mem_vals l v).2 hv), ?_⟩
      rcases foldl_min_top_mem (l.filterMap NV.toVal) with h | ⟨h, h'⟩
      · exact Or.inl ((NV.mem_vals l _).1 h)
      · right
        refine ⟨fun v hv => ?_, by rw [h']; rfl⟩
        have := (NV.mem_vals l v).2 hv
        rw [h] at this; simp at this

theorem hiSide_maxL (hne : (⊥ : α) < ⊤) (l : List (NV α)) : Spec.HiSideNaN l (maxL l) := by
  rw [C04_nan_axis_max hne]
  by_cases h1 : NV.val (⊤ : α) ∈ l
  · simp only [h1, if_true]
    refine ⟨fun _ => by simp, fun a ha => ?_⟩
    injection ha with ha; subst ha
    exact ⟨fun v _ => le_top, Or.inl h1⟩
  · by_cases h2 : NV.nan ∈ l
    · simp only [h1, h2, if_true, if_false]
      exact ⟨fun h => absurd h2 h, fun a ha => by cases ha⟩
    · simp only [h1, h2, if_false]
      refine ⟨fun _ => by simp, fun a ha => ?_⟩
      injection ha with ha; subst ha
      refine ⟨fun v hv => foldl_max_bot_ge _ v ((NV.mem_vals l v).2 hv), ?_⟩
      rcases foldl_max_bot_mem (l.filterMap NV.toVal) with h | ⟨h, h'⟩
      · exact Or.inl ((NV.mem_vals l _).1 h)
      · right
        refine ⟨fun v hv => ?_, by rw [h']; rfl⟩
        have := (NV.mem_vals l v).2 hv
        rw [h] at this; simp at this

/-- **C04_nan_envelope.** The envelope clause with NaN coordinates, for the model at float64-with-NaN and every
geometry without nil / `*Bounds` members: `Bounds()` does not panic, and side by side (`Spec.IsEnvelopeNaN`) an axis
without NaN has non-NaN sides, and a non-NaN side is a bound of all non-NaN coordinates of its axis attained by one
of them (or the empty box's side when the axis has no non-NaN coordinate).  So every axis free of NaN carries its
exact envelope whatever the other axis holds. -/
theorem C04_nan_envelope (hne : (⊥ : α) < ⊤) (g : Geom (NV α)) (h : noNil g = true) (hb : noBoxes g = true) :
    ∃ b, boundsG g = .ok b ∧ Spec.IsEnvelopeNaN (vertices g) b :=
  ⟨_, C04_nan_bounds hne g h hb, loSide_minL hne _, loSide_minL hne _, hiSide_maxL hne _, hiSide_maxL hne _⟩

/-- a `*Bounds` value with NaN sides used as a geometry by itself: `Bounds()` is that box, side for side; it counts
as having points (`Len() = 4`) unless an axis WITHOUT NaN is inverted (`<` with NaN is false) -/
theorem C04_nan_box_geometry (mn mx : Pt (NV α)) :
    boundsG (.bounds mn mx : Geom (NV α)) = .ok ⟨mn, mx⟩ ∧
    lenG (.bounds mn mx : Geom (NV α)) = .ok (if (mx.x < mn.x ∨ mx.y < mn.y) then 0 else 4) := by
  refine ⟨rfl, ?_⟩
  simp only [lenG, Box.empty, Bool.or_eq_true, decide_eq_true_eq]

end nv

/-! ## the judge's decidable form is that specification (any coordinate type, no order laws needed) -/
section specB
variable {α : Type} [LE α] [DecidableLE α] [DecidableEq α] [HasInf α]

theorem all_isNotVal (l : List (NV α)) : l.all (fun v => !Spec.isVal v) = true ↔ ∀ v, NV.val v ∉ l := by
  simp only [List.all_eq_true]
  constructor
  · intro h v hv; have := h _ hv; simp [Spec.isVal] at this
  · intro h x hx; cases x with
    | nan => rfl
    | val v => exact absurd hx (h v)

theorem loSideNaNB_iff (l : List (NV α)) (lo : NV α) : Spec.loSideNaNB l lo = true ↔ Spec.LoSideNaN l lo := by
  cases lo with
  | nan =>
    simp only [Spec.loSideNaNB, Spec.LoSideNaN, List.contains_iff_mem]
    constructor
    · intro h; exact ⟨fun h' => absurd h h', fun a ha => by cases ha⟩
    · intro h; by_contra hc; exact h.1 hc rfl
  | val a =>
    simp only [Spec.loSideNaNB, Spec.LoSideNaN, Bool.and_eq_true, Bool.or_eq_true, List.contains_iff_mem,
      decide_eq_true_eq, all_isNotVal]
    have hall : (l.all (Spec.belowB a) = true) ↔ ∀ v, NV.val v ∈ l → a ≤ v := by
      simp only [List.all_eq_true]
      constructor
      · intro h v hv; simpa [Spec.belowB, Spec.aboveB] using h _ hv
      · intro h x hx; cases x with
        | nan => rfl
        | val v => simpa [Spec.belowB, Spec.aboveB] using h v hx
    rw [hall]
    constructor
    · intro h; refine ⟨fun _ => by simp, fun a' ha' => ?_⟩
      injection ha' with ha'; subst ha'; exact h
    · intro h; exact h.2 a rfl

theorem hiSideNaNB_iff (l : List (NV α)) (hi : NV α) : Spec.hiSideNaNB l hi = true ↔ Spec.HiSideNaN l hi := by
  cases hi with
  | nan =>
    simp only [Spec.hiSideNaNB, Spec.HiSideNaN, List.contains_iff_mem]
    constructor
    · intro h; exact ⟨fun h' => absurd h h', fun a ha => by cases ha⟩
    · intro h; by_contra hc; exact h.1 hc rfl
  | val a =>
    simp only [Spec.hiSideNaNB, Spec.HiSideNaN, Bool.and_eq_true, Bool.or_eq_true, List.contains_iff_mem,
      decide_eq_true_eq, all_isNotVal]
    have hall : (l.all (Spec.aboveB a) = true) ↔ ∀ v, NV.val v ∈ l → v ≤ a := by
      simp only [List.all_eq_true]
      constructor
      · intro h v hv; simpa [Spec.belowB, Spec.aboveB] using h _ hv
      · intro h x hx; cases x with
        | nan => rfl
        | val v => simpa [Spec.belowB, Spec.aboveB] using h v hx
    rw [hall]
    constructor
    · intro h; refine ⟨fun _ => by simp, fun a' ha' => ?_⟩
      injection ha' with ha'; subst ha'; exact h
    · intro h; exact h.2 a rfl

/-- **C04_spec_envelopeNaN.** the check the judge runs on `Bounds()` of a geometry with NaN coordinates is the
specification `Spec.IsEnvelopeNaN` -/
theorem C04_spec_envelopeNaN (vs : List (Pt (NV α))) (b : Box (NV α)) :
    Spec.isEnvelopeNaNB vs b = true ↔ Spec.IsEnvelopeNaN vs b := by
  simp only [Spec.isEnvelopeNaNB, Spec.IsEnvelopeNaN, Bool.and_eq_true, loSideNaNB_iff, hiSideNaNB_iff, and_assoc]

end specB

/-- **C04_nan_exec.** `C04_nan_envelope` for what the judge executes: coordinates `NV FKey` with the core instances of
NaN.lean/Basic.lean spelled out (the same `boundsG (geomNV g)` and `isEnvelopeNaNB` that Main.lean calls). -/
theorem C04_nan_exec (g : Geom (NV FKey)) (h : Spec.noNil g = true) (hb : noBoxes g = true) :
    ∃ b, @boundsG (NV FKey) (@NV.instLT FKey FKey.instLT) (@NV.instMin FKey FKey.instMin FKey.instHasInf _)
        (@NV.instMax FKey FKey.instMax FKey.instHasInf _) (@NV.instDecidableLT FKey FKey.instLT FKey.instDecLT)
        (@NV.instHasInf FKey FKey.instHasInf) g = .ok b ∧
      @Spec.isEnvelopeNaNB FKey FKey.instLE FKey.instDecLE _ FKey.instHasInf
        (@Spec.vertices (NV FKey) (@NV.instLT FKey FKey.instLT) (@NV.instDecidableLT FKey FKey.instLT FKey.instDecLT) g) b = true := by
  obtain ⟨b, h1, h2⟩ := C04_nan_envelope (α := FKey) (by decide) g h hb
  exact ⟨b, h1, (C04_spec_envelopeNaN _ _).2 h2⟩

/-- non-vacuity: a line string with a NaN ordinate satisfies the hypotheses, and its X axis (no NaN) gets the exact
envelope while the Y sides are NaN -/
example : Spec.noNil (.lineString [⟨.val (⟨1, by decide⟩ : FKey), .nan⟩, ⟨.val ⟨3, by decide⟩, .val ⟨2, by decide⟩⟩] : Geom (NV FKey)) = true ∧
    noBoxes (.lineString [⟨.val (⟨1, by decide⟩ : FKey), .nan⟩, ⟨.val ⟨3, by decide⟩, .val ⟨2, by decide⟩⟩] : Geom (NV FKey)) = true ∧
    boundsG (.lineString [⟨.val (⟨1, by decide⟩ : FKey), .nan⟩, ⟨.val ⟨3, by decide⟩, .val ⟨2, by decide⟩⟩] : Geom (NV FKey)) =
      .ok ⟨⟨.val ⟨1, by decide⟩, .nan⟩, ⟨.val ⟨3, by decide⟩, .nan⟩⟩ := by
  decide +kernel

end GeomV.C04
