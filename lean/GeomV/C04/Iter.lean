import GeomV.C04.Model
import GeomV.C04.Spec
/-!
# C04 helper lemmas: the `Points()` state machines

`Rel g s vs` — "in closure state `s` the vertices still to be returned are exactly `vs`" — is the
index invariant: for a two-level type `(i, j)` addresses the next unread vertex of ring `j` (or the
end of ring `j`, with only empty rings… or more vertices after it), and so on for three levels and
for collections.  `Good g` packages: `Len` is the vertex count, the initial state is related to all
vertices, and one call of the closure in a state related to `v :: vs` returns `v` without a fault
and leaves a state related to `vs`.
-/
set_option linter.unusedSimpArgs false
set_option linter.unusedVariables false
set_option linter.unusedSectionVars false
namespace GeomV.C04
open GeomV GeomV.C04.Spec

variable {α β : Type}

theorem drop_cons {l : List β} {i : Nat} {v : β} {vs : List β} (h : l.drop i = v :: vs) :
    l[i]? = some v ∧ l.drop (i+1) = vs := by
  have hi : i < l.length := by
    rcases Nat.lt_or_ge i l.length with hi | hi
    · exact hi
    · rw [List.drop_of_length_le hi] at h; cases h
  rw [List.drop_eq_getElem_cons hi] at h
  injection h with h1 h2
  exact ⟨by rw [List.getElem?_eq_getElem hi, h1], h2⟩

theorem idx_of_drop {l : List β} {i : Nat} {v : β} {vs : List β} (h : l.drop i = v :: vs) :
    idx l i = .ok v := by
  simp [idx, (drop_cons h).1]

theorem idx_of_get {l : List β} {i : Nat} {v : β} (h : l[i]? = some v) : idx l i = .ok v := by
  simp [idx, h]

/-! ## two levels -/

/-- members from `j` on, index `i` into the first of them, vertices still to come -/
def Z2 : List (List β) → Nat → List β → Prop
  | [], _, vs => vs = []
  | r :: rest, i, vs => i ≤ r.length ∧ vs = r.drop i ++ rest.flatten

theorem Z2_zero (L : List (List β)) : Z2 L 0 L.flatten := by
  cases L with
  | nil => rfl
  | cons r rest => exact ⟨Nat.zero_le _, by simp⟩

theorem skipRings_none (L : List (List β)) (i j : Nat) (h : Z2 L i []) : skipRings i j L = none := by
  induction L generalizing i j with
  | nil => rfl
  | cons r rest ih =>
    obtain ⟨hi, he⟩ := h
    have h1 : r.drop i = [] := (List.append_eq_nil_iff.1 he.symm).1
    have h2 : rest.flatten = [] := (List.append_eq_nil_iff.1 he.symm).2
    have : i = r.length := by have := List.drop_eq_nil_iff.1 h1; omega
    simp only [skipRings, this, beq_self_eq_true, if_true]
    exact ih 0 (j+1) (by rw [← h2]; exact Z2_zero rest)

theorem skipRings_some (L : List (List β)) (i j : Nat) (v : β) (vs : List β) (h : Z2 L i (v :: vs)) :
    ∃ i' d r' rest', skipRings i j L = some (i', j + d) ∧ L.drop d = r' :: rest' ∧
      r'[i']? = some v ∧ Z2 (r' :: rest') (i'+1) vs := by
  induction L generalizing i j with
  | nil => cases h
  | cons r rest ih =>
    obtain ⟨hi, he⟩ := h
    by_cases hlen : i = r.length
    · have h1 : r.drop i = [] := List.drop_of_length_le (by omega)
      rw [h1, List.nil_append] at he
      obtain ⟨i', d, r', rest', e1, e2, e3, e4⟩ := ih 0 (j+1) (by rw [he]; exact Z2_zero rest)
      refine ⟨i', d+1, r', rest', ?_, by simpa using e2, e3, e4⟩
      simp only [skipRings, hlen, beq_self_eq_true, if_true]
      rw [e1]; congr 2; omega
    · have hlt : i < r.length := by omega
      rw [List.drop_eq_getElem_cons hlt, List.cons_append] at he
      injection he with hv hvs
      refine ⟨i, 0, r, rest, ?_, rfl, by rw [List.getElem?_eq_getElem hlt, hv], ⟨by omega, hvs⟩⟩
      simp [skipRings, hlen]

theorem skip2_eq (L : List (List β)) (i j : Nat) :
    skip2 i j L = match skipRings i j L with | some x => .ok x | none => .error .index := by
  induction L generalizing i j with
  | nil => rfl
  | cons r rest ih =>
    simp only [skip2, skipRings]
    split
    · exact ih 0 (j+1)
    · rfl

/-- one call of a two-level closure -/
theorem next2_step (p : List (List β)) (i j : Nat) (v : β) (vs : List β)
    (h : Z2 (p.drop j) i (v :: vs)) :
    ∃ i' j', next2 p i j = .ok (v, .two i' j') ∧ Z2 (p.drop j') i' vs := by
  obtain ⟨i', d, r', rest', e1, e2, e3, e4⟩ := skipRings_some (p.drop j) i j v vs h
  rw [List.drop_drop] at e2
  refine ⟨i'+1, j+d, ?_, by rw [e2]; exact e4⟩
  simp [next2, skip2_eq, e1, idx_of_drop e2, idx_of_get e3, bind, Except.bind, pure, Except.pure]

/-! ## three levels -/

def flat2 (M : List (List (List β))) : List β := (M.map List.flatten).flatten

def Z3 : List (List (List β)) → Nat → Nat → List β → Prop
  | [], _, _, vs => vs = []
  | p :: prest, i, j, vs => ∃ cur, Z2 (p.drop j) i cur ∧ vs = cur ++ flat2 prest

theorem Z3_zero (M : List (List (List β))) : Z3 M 0 0 (flat2 M) := by
  cases M with
  | nil => rfl
  | cons p prest => exact ⟨p.flatten, by simpa using Z2_zero p, by simp [flat2]⟩

theorem skip3_spec (M : List (List (List β))) (i j k : Nat) (v : β) (vs : List β)
    (h : Z3 M i j (v :: vs)) :
    ∃ i' j' e p' prest' r' rest', skip3 i j k M = .ok (i', j', k + e) ∧ M.drop e = p' :: prest' ∧
      p'.drop j' = r' :: rest' ∧ r'[i']? = some v ∧ Z3 (p' :: prest') (i'+1) j' vs := by
  induction M generalizing i j k with
  | nil => cases h
  | cons p prest ih =>
    obtain ⟨cur, hz, he⟩ := h
    cases cur with
    | nil =>
      rw [List.nil_append] at he
      obtain ⟨i', j', e, p', prest', r', rest', e1, e2, e3, e4, e5⟩ :=
        ih 0 0 (k+1) (by rw [he]; exact Z3_zero prest)
      refine ⟨i', j', e+1, p', prest', r', rest', ?_, by simpa using e2, e3, e4, e5⟩
      simp only [skip3, skipRings_none _ i j hz]
      rw [e1]; congr 3; omega
    | cons c cs =>
      rw [List.cons_append] at he
      injection he with hv hvs
      subst hv
      obtain ⟨i', d, r', rest', e1, e2, e3, e4⟩ := skipRings_some (p.drop j) i j v cs hz
      rw [List.drop_drop] at e2
      refine ⟨i', j+d, 0, p, prest, r', rest', ?_, rfl, e2, e3, ⟨cs, by rw [e2]; exact e4, hvs⟩⟩
      simp [skip3, e1]

theorem next3_step (mp : List (List (List β))) (i j k : Nat) (v : β) (vs : List β)
    (h : Z3 (mp.drop k) i j (v :: vs)) :
    ∃ i' j' k', next3 mp i j k = .ok (v, .three i' j' k') ∧ Z3 (mp.drop k') i' j' vs := by
  obtain ⟨i', j', e, p', prest', r', rest', e1, e2, e3, e4, e5⟩ := skip3_spec (mp.drop k) i j k v vs h
  rw [List.drop_drop] at e2
  refine ⟨i'+1, j', k+e, ?_, by rw [e2]; exact e5⟩
  simp [next3, e1, idx_of_drop e2, idx_of_drop e3, idx_of_get e4, bind, Except.bind, pure, Except.pure]

/-! ## the relation between closure states and remaining vertices -/

variable [LT α] [DecidableLT α]

mutual
def Rel : Geom α → ItSt → List (Pt α) → Prop
  | .point p, s, vs => s = .pt ∧ (vs = [p] ∨ vs = [])
  | .multiPoint ps, s, vs => ∃ i, s = .one i ∧ vs = ps.drop i
  | .lineString ps, s, vs => ∃ i, s = .one i ∧ vs = ps.drop i
  | .multiLineString ls, s, vs => ∃ i j, s = .two i j ∧ Z2 (ls.drop j) i vs
  | .polygon ls, s, vs => ∃ i j, s = .two i j ∧ Z2 (ls.drop j) i vs
  | .multiPolygon mp, s, vs => ∃ i j k, s = .three i j k ∧ Z3 (mp.drop k) i j vs
  | .bounds mn mx, s, vs => ∃ i, s = .one i ∧ vs = (vertices (.bounds mn mx)).drop i
  | .collection gs, s, vs => ∃ i j p, s = .coll i j p ∧ RelAt gs j i p vs
  | .nil, _, _ => False
/-- member `j` of `gs` has returned `i` vertices, its closure `p` is related to the rest of them -/
def RelAt : List (Geom α) → Nat → Nat → Option ItSt → List (Pt α) → Prop
  | [], _, _, _, vs => vs = []
  | g :: rest, 0, i, p, vs =>
    ∃ s rem, p = some s ∧ Rel g s rem ∧ i + rem.length = (vertices g).length ∧ vs = rem ++ verticesL rest
  | _ :: rest, j+1, i, p, vs => RelAt rest j i p vs
end

/-- `RelAt` on the members from `j` on -/
def RelHead : List (Geom α) → Nat → Option ItSt → List (Pt α) → Prop
  | [], _, _, vs => vs = []
  | g :: rest, i, p, vs =>
    ∃ s rem, p = some s ∧ Rel g s rem ∧ i + rem.length = (vertices g).length ∧ vs = rem ++ verticesL rest

theorem relAt_iff (gs : List (Geom α)) (j i : Nat) (p : Option ItSt) (vs : List (Pt α)) :
    RelAt gs j i p vs ↔ RelHead (gs.drop j) i p vs := by
  induction gs generalizing j with
  | nil => simp [RelAt, RelHead]
  | cons g rest ih =>
    cases j with
    | zero => simp [RelAt, RelHead]
    | succ j => simpa [RelAt] using ih j

theorem nextAt_drop (gs : List (Geom α)) (j : Nat) (g : Geom α) (rest : List (Geom α)) (s : ItSt)
    (h : gs.drop j = g :: rest) : nextAt gs j s = next g s := by
  induction gs generalizing j with
  | nil => simp at h
  | cons a as ih =>
    cases j with
    | zero => simp at h; simp [nextAt, h.1]
    | succ j => simp at h; simpa [nextAt] using ih j h

/-- what the theorem needs of one geometry -/
def Good (g : Geom α) : Prop :=
  lenG g = .ok (vertices g).length ∧
  (∃ s0, init g = .ok s0 ∧ Rel g s0 (vertices g)) ∧
  (∀ s v vs, Rel g s (v :: vs) → ∃ s', next g s = .ok (v, s') ∧ Rel g s' vs)

theorem skipColl_cons (i j : Nat) (p : Option ItSt) (g : Geom α) (rest : List (Geom α)) :
    skipColl i j p (g :: rest) =
      (do let n ← lenG g
          if i == n then do
            let p' ← initHead rest
            skipColl 0 (j+1) (some p') rest
          else pure (i, j, p)) := rfl

theorem skipColl_spec (L : List (Geom α)) (hL : ∀ g ∈ L, Good g) (i j : Nat) (p : Option ItSt)
    (v : Pt α) (vs : List (Pt α)) (h : RelHead L i p (v :: vs)) :
    ∃ i' d g' rest' s' rem', skipColl i j p L = .ok (i', j + d, some s') ∧ L.drop d = g' :: rest' ∧
      Rel g' s' (v :: rem') ∧ i' + (rem'.length + 1) = (vertices g').length ∧
      vs = rem' ++ verticesL rest' := by
  induction L generalizing i j p with
  | nil => cases h
  | cons g rest ih =>
    obtain ⟨s, rem, hp, hr, hn, he⟩ := h
    have hlen := (hL g (by simp)).1
    by_cases hi : i = (vertices g).length
    · have hrem : rem = [] := by
        cases rem with
        | nil => rfl
        | cons _ _ => simp at hn; omega
      subst hrem
      rw [List.nil_append] at he
      cases rest with
      | nil => simp [verticesL] at he
      | cons g2 rest2 =>
        obtain ⟨s2, hs2, hr2⟩ := (hL g2 (by simp)).2.1
        obtain ⟨i', d, g', rest', s', rem', e1, e2, e3, e4, e5⟩ :=
          ih (fun x hx => hL x (List.mem_cons_of_mem _ hx)) 0 (j+1) (some s2)
            ⟨s2, vertices g2, rfl, hr2, by simp, by simpa [verticesL] using he⟩
        refine ⟨i', d+1, g', rest', s', rem', ?_, by simpa using e2, e3, e4, e5⟩
        rw [skipColl_cons]
        simp only [hlen, hi, initHead, hs2, bind, Except.bind, beq_self_eq_true, if_true]
        rw [e1]; congr 3; omega
    · cases rem with
      | nil => simp at hn; omega
      | cons c rem' =>
        rw [List.cons_append] at he
        injection he with hv hvs
        subst hv
        refine ⟨i, 0, g, rest, s, rem', ?_, rfl, hr, by simpa using hn, hvs⟩
        rw [skipColl_cons]
        simp [hlen, hi, hp, bind, Except.bind, pure, Except.pure]

/-- one call of a collection closure, given that all members are `Good` -/
theorem collection_step (gs : List (Geom α)) (hL : ∀ g ∈ gs, Good g) (i j : Nat) (p : Option ItSt)
    (v : Pt α) (vs : List (Pt α)) (h : RelAt gs j i p (v :: vs)) :
    ∃ s', next (.collection gs) (.coll i j p) = .ok (v, s') ∧ Rel (.collection gs) s' vs := by
  rw [relAt_iff] at h
  obtain ⟨i', d, g', rest', s', rem', e1, e2, e3, e4, e5⟩ :=
    skipColl_spec (gs.drop j) (fun g hg => hL g (List.mem_of_mem_drop hg)) i j p v vs h
  rw [List.drop_drop] at e2
  have hg' : g' ∈ gs := List.mem_of_mem_drop (by rw [e2]; simp)
  obtain ⟨s'', hn, hr⟩ := (hL g' hg').2.2 s' v rem' e3
  refine ⟨.coll (i'+1) (j+d) (some s''), ?_, ?_⟩
  · simp [next, e1, nextAt_drop gs (j+d) g' rest' s' e2, hn, bind, Except.bind, pure, Except.pure]
  · refine ⟨i'+1, j+d, some s'', rfl, ?_⟩
    rw [relAt_iff, e2]
    exact ⟨s'', rem', rfl, hr, by omega, e5⟩


mutual
theorem good (g : Geom α) (h : noNil g = true)
    (hlen : ∀ g : Geom α, noNil g = true → lenG g = .ok (vertices g).length) : Good g := by
  refine ⟨hlen g h, ?_⟩
  cases g with
  | nil => simp [noNil] at h
  | point p =>
    refine ⟨⟨.pt, rfl, rfl, Or.inl rfl⟩, ?_⟩
    rintro s v vs ⟨rfl, h | h⟩
    · simp [vertices] at h; obtain ⟨rfl, rfl⟩ := h
      exact ⟨.pt, rfl, rfl, Or.inr rfl⟩
    · cases h
  | multiPoint ps =>
    refine ⟨⟨.one 0, rfl, 0, rfl, rfl⟩, ?_⟩
    rintro s v vs ⟨i, rfl, h⟩
    obtain ⟨h1, h2⟩ := drop_cons h.symm
    exact ⟨.one (i+1), by simp [next, idx_of_get h1, bind, Except.bind, pure, Except.pure], i+1, rfl, h2.symm⟩
  | lineString ps =>
    refine ⟨⟨.one 0, rfl, 0, rfl, rfl⟩, ?_⟩
    rintro s v vs ⟨i, rfl, h⟩
    obtain ⟨h1, h2⟩ := drop_cons h.symm
    exact ⟨.one (i+1), by simp [next, idx_of_get h1, bind, Except.bind, pure, Except.pure], i+1, rfl, h2.symm⟩
  | multiLineString ls =>
    refine ⟨⟨.two 0 0, rfl, 0, 0, rfl, by simpa [vertices] using Z2_zero ls⟩, ?_⟩
    rintro s v vs ⟨i, j, rfl, h⟩
    obtain ⟨i', j', e, hz⟩ := next2_step ls i j v vs h
    exact ⟨.two i' j', by simpa [next] using e, i', j', rfl, hz⟩
  | polygon ls =>
    refine ⟨⟨.two 0 0, rfl, 0, 0, rfl, by simpa [vertices] using Z2_zero ls⟩, ?_⟩
    rintro s v vs ⟨i, j, rfl, h⟩
    obtain ⟨i', j', e, hz⟩ := next2_step ls i j v vs h
    exact ⟨.two i' j', by simpa [next] using e, i', j', rfl, hz⟩
  | multiPolygon mp =>
    refine ⟨⟨.three 0 0 0, rfl, 0, 0, 0, rfl, by simpa [vertices, flat2] using Z3_zero mp⟩, ?_⟩
    rintro s v vs ⟨i, j, k, rfl, h⟩
    obtain ⟨i', j', k', e, hz⟩ := next3_step mp i j k v vs h
    exact ⟨.three i' j' k', by simpa [next] using e, i', j', k', rfl, hz⟩
  | bounds mn mx =>
    refine ⟨⟨.one 0, rfl, 0, rfl, rfl⟩, ?_⟩
    rintro s v vs ⟨i, rfl, h⟩
    by_cases hE : (decide (mx.x < mn.x) || decide (mx.y < mn.y)) = true
    · simp [vertices, hE] at h
    · have hv : vertices (.bounds mn mx) = [mn, ⟨mx.x, mn.y⟩, mx, ⟨mn.x, mx.y⟩] := by simp [vertices, hE]
      rw [hv] at h
      rcases i with _ | _ | _ | _ | i
      · simp at h; exact ⟨.one 1, by simp [next, nextB, h.1], 1, rfl, by simp [hv, h.2]⟩
      · simp at h; exact ⟨.one 2, by simp [next, nextB, h.1], 2, rfl, by simp [hv, h.2]⟩
      · simp at h; exact ⟨.one 3, by simp [next, nextB, h.1], 3, rfl, by simp [hv, h.2]⟩
      · simp at h; exact ⟨.one 4, by simp [next, nextB, h.1], 4, rfl, by simp [hv, h.2]⟩
      · simp at h
  | collection gs =>
    have hL := goodL gs (by simpa [noNil] using h) hlen
    refine ⟨?_, ?_⟩
    · cases gs with
      | nil => exact ⟨.coll 0 0 none, rfl, 0, 0, none, rfl, rfl⟩
      | cons g rest =>
        obtain ⟨s0, hs0, hr0⟩ := (hL g (by simp)).2.1
        refine ⟨.coll 0 0 (some s0), by simp [init, initFirst, hs0, bind, Except.bind, pure, Except.pure], 0, 0, some s0, rfl, ?_⟩
        exact ⟨s0, vertices g, rfl, hr0, by simp, by simp [vertices, verticesL]⟩
    · rintro s v vs ⟨i, j, p, rfl, hr⟩
      exact collection_step gs hL i j p v vs hr
theorem goodL (gs : List (Geom α)) (h : noNilL gs = true)
    (hlen : ∀ g : Geom α, noNil g = true → lenG g = .ok (vertices g).length) : ∀ g ∈ gs, Good g := by
  cases gs with
  | nil => intro g hg; cases hg
  | cons a as =>
    simp only [noNilL, Bool.and_eq_true] at h
    intro g hg
    rcases List.mem_cons.1 hg with e | hg
    · rw [e]; exact good a h.1 hlen
    · exact goodL as h.2 hlen g hg
end

/-- calling a closure related to `vs` exactly `|vs|` times returns `vs`, no fault -/
theorem drain_of_good (g : Geom α) (hg : Good g) (vs : List (Pt α)) (s : ItSt) (h : Rel g s vs) :
    drain g vs.length s = .ok vs := by
  induction vs generalizing s with
  | nil => rfl
  | cons v vs ih =>
    obtain ⟨s', hn, hr⟩ := hg.2.2 s v vs h
    simp [drain, hn, ih s' hr, bind, Except.bind, pure, Except.pure]

end GeomV.C04
