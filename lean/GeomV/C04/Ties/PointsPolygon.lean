import GeomV.C04.Gen
import GeomV.C04.LoopLemmas
/-! C04 — T1 tie: the `Points()` closure of Polygon as rendered from the Go source (a `for` loop with
receiver-derived fuel) is the model's fuel-free state machine `next2`. -/
set_option linter.unusedVariables false
set_option linter.unusedSimpArgs false
set_option linter.unusedSectionVars false
namespace GeomV.C04
open GeomV
variable {α : Type} [LT α] [DecidableLT α]

theorem C04_tie_Polygon_Points (rs : List (List (Pt α))) (i j : Nat) :
    init (.polygon rs) = .ok (.two Gen.polygonPointsInit.1 Gen.polygonPointsInit.2) ∧
    next (.polygon rs) (.two i j) =
      (match Gen.polygonPointsNext rs i j with | .error e => .error e | .ok (v, (i', j')) => .ok (v, ItSt.two i' j')) := by
  refine ⟨rfl, ?_⟩
  simp only [next]
  unfold Gen.polygonPointsNext next2 loopFuel2
  rw [loop2 rs _ _ (fun i j => by simp only [bind, Except.bind, pure, Except.pure]; cases idx rs j <;> rfl)
    (fun i j => rfl) rs.length i j (by omega)]
  cases skip2 i j (rs.drop j) with
  | error e => rfl
  | ok st =>
    obtain ⟨i', j'⟩ := st
    simp only [bind, Except.bind, pure, Except.pure, Nat.add_sub_cancel]
    cases idx rs j' with
    | error e => rfl
    | ok r => dsimp only; cases idx r i' <;> rfl

end GeomV.C04
