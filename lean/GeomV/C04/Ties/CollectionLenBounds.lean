import GeomV.C04.Gen
import GeomV.C04.Ties.Extend
import GeomV.C04.Ties.NewBounds
/-! C04 — T1 tie: `GeometryCollection.Len` and `GeometryCollection.Bounds` as rendered from geometrycollection.go.

The Go methods call `g.Len()` / `geom.Bounds()` on interface values; the rendered definitions take that dispatch
as a parameter (`ifaceLen`, `ifaceBounds`).  Instantiated with the model's own dispatch (`lenG`, `boundsG`, whose
cases for the other seven types are tied to their regenerated methods in Ties/Lens.lean and Ties/*Bounds.lean),
the rendered `range` loop (a monadic left fold: the first faulting member ends it) is the collection case of the
model. -/
set_option linter.unusedVariables false
set_option linter.unusedSectionVars false
namespace GeomV.C04
open GeomV
variable {α : Type}

section
variable [LT α] [DecidableLT α]

theorem foldlM_len (gs : List (Geom α)) (acc : Nat) :
    gs.foldlM (fun i g => do let t ← lenG g; pure (i + t)) acc
      = (match lenL gs with | .error e => .error e | .ok n => .ok (acc + n) : Except Fault Nat) := by
  induction gs generalizing acc with
  | nil => simp [lenL, pure, Except.pure]
  | cons g gs ih =>
    simp only [List.foldlM_cons, lenL, bind, Except.bind, pure, Except.pure]
    cases lenG g with
    | error e => rfl
    | ok a =>
      have := ih (acc + a)
      simp only [bind, Except.bind, pure, Except.pure] at this
      simp only [this]
      cases lenL gs with
      | error e => rfl
      | ok b => simp [Nat.add_assoc]

theorem C04_tie_GeometryCollection_Len (gs : List (Geom α)) :
    lenG (.collection gs) = Gen.geometryCollectionLen lenG gs := by
  rw [lenG]; unfold Gen.geometryCollectionLen
  show lenL gs = (gs.foldlM (fun i g => do let t ← lenG g; pure (i + t)) 0)
  rw [foldlM_len gs 0]
  cases lenL gs <;> simp
end

section
variable [LE α] [LT α] [Min α] [Max α] [DecidableLE α] [DecidableLT α] [DecidableEq α] [HasInf α]

theorem foldlM_bounds (gs : List (Geom α)) (b : Box α) :
    gs.foldlM (fun b geom => do let t ← boundsG geom; pure (b.extend (some t))) b = boundsL gs b := by
  induction gs generalizing b with
  | nil => rfl
  | cons g gs ih =>
    rw [List.foldlM_cons, boundsL]
    cases boundsG g with
    | error e => rfl
    | ok bg => exact ih (b.extend (some bg))

/-- `Gen.extend`/`Gen.newBounds` inside the rendered definition are the model's by `rfl` (Ties/Extend, Ties/NewBounds) -/
theorem C04_tie_GeometryCollection_Bounds (gs : List (Geom α)) :
    boundsG (.collection gs) = Gen.geometryCollectionBounds boundsG gs := by
  have h1 : ∀ (b : Box α) b2, Gen.extend b b2 = b.extend b2 := C04_tie_Extend
  have h2 : (Gen.newBounds : Box α) = Box.new := C04_tie_NewBounds
  rw [boundsG]; unfold Gen.geometryCollectionBounds
  show boundsL gs Box.new = (gs.foldlM (fun b geom => do let t ← boundsG geom; pure (b.extend (some t))) Box.new)
  rw [foldlM_bounds]
end

end GeomV.C04
