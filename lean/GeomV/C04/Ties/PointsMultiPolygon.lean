import GeomV.C04.Gen
import GeomV.C04.LoopLemmas
/-! C04 — T1 tie: the `Points()` closure of MultiPolygon as rendered from the Go source (loop with a
short-circuit condition and a nested `if`, receiver-derived fuel) is the model's fuel-free `next3`. -/
set_option linter.unusedVariables false
set_option linter.unusedSimpArgs false
set_option linter.unusedSectionVars false
namespace GeomV.C04
open GeomV
variable {α : Type} [LT α] [DecidableLT α]

theorem C04_tie_MultiPolygon_Points (mp : List (List (List (Pt α)))) (i j k : Nat) :
    init (.multiPolygon mp) = .ok (.three Gen.multiPolygonPointsInit.1 Gen.multiPolygonPointsInit.2.1
      Gen.multiPolygonPointsInit.2.2) ∧
    next (.multiPolygon mp) (.three i j k) =
      (match Gen.multiPolygonPointsNext mp i j k with
        | .error e => .error e | .ok (v, (i', j', k')) => .ok (v, ItSt.three i' j' k')) := by
  refine ⟨rfl, ?_⟩
  simp only [next]
  unfold Gen.multiPolygonPointsNext next3 loopFuel3
  rw [loop3 mp _ _
    (fun i j k => by
      simp only [bind, Except.bind, pure, Except.pure]
      cases idx mp k with
      | error e => rfl
      | ok pk =>
        dsimp only
        by_cases h : j ≥ pk.length
        · simp [h]
        · simp only [h, decide_false, if_false, Bool.false_eq_true]
          cases idx pk j <;> rfl)
    (fun i j k => by
      simp only [bind, Except.bind, pure, Except.pure]
      cases idx mp k with
      | error e => rfl
      | ok pk =>
        dsimp only
        by_cases h : j + 1 ≥ pk.length <;> simp [h])
    (slots mp) i j k (Nat.le_trans (mu3_le _ j) (slots_drop_le mp k))]
  cases skip3 i j k (mp.drop k) with
  | error e => rfl
  | ok st =>
    obtain ⟨i', j', k'⟩ := st
    simp only [bind, Except.bind, pure, Except.pure, Nat.add_sub_cancel]
    cases idx mp k' with
    | error e => rfl
    | ok p =>
      dsimp only
      cases idx p j' with
      | error e => rfl
      | ok r => dsimp only; cases idx r i' <;> rfl

end GeomV.C04
