import GeomV.C04.GenState
/-! Regenerated tie against HIDDEN STATE (the regenerated definitions of `Gen.lean` read every anchored Go
function as a pure function of its arguments, a pointer receiver as a value threaded through the statements
and a `Points()` iterator as a step function on its own counters): in the Go source of the tree under test
(go/ast extraction on every run, `harness/cmd/c04/state.go` → `GenState.lean`), no function of the extractor's
`targets` table, no function literal inside them and no function or method of package geom they (transitively,
calls resolved by name) call inside bounds.go, point.go, multipoint.go, linestring.go, multilinestring.go,
polygon.go, multipolygon.go, geometrycollection.go

* assigns to or stores through a package-level variable (and these eight files declare none),
* stores through a parameter (a `*Bounds`, a point slice, a map), through a slice receiver (the geometry's own
  points) or through a local initialised from one of them (`q := b2`, `bp, ok := poly.(*Bounds)`,
  `for _, r := range p`),
* takes the address of anything but a fresh composite literal, appends to a slice it did not make itself, or
  starts a goroutine.

The ONLY writes that are not to a local variable of the function itself are
(a) the documented in-place update of the RECEIVER by `(*Bounds).extendPoint` (its four coordinates) and
    `(*Bounds).Extend` (`b.Min, b.Max = b2.Min, b2.Max`); `extendPoints`/`extendPointss` and the `Bounds()`
    methods only call these on the receiver resp. on a box fresh from `NewBounds()`;
(b) every `Points()` closure assigning its OWN captured counters `i`, `j`, `k` (and the current member
    iterator `p` of `GeometryCollection.Points`; for `(*Bounds).Points` the increment sits in the deferred
    literal `func1/func1`): variables declared by that `Points()` call, private to the one iterator value.

A package-level scratch box or cache, an iterator keeping its index in a package variable, `Overlaps`
clipping `b.Min.X` in place and restoring it, a write to `b2` or to an element of the receiver's slice all
break this tie.  NOT seen here: state kept by calls of foreign methods, a store through a local that got its
alias from a function result (`q := b.extendPoint(p)`), reflection/unsafe; the run-time checks (inputs
compared before/after every call, goroutine probe) cover those. -/
namespace GeomV.C04

def stateModel : List (String × List String) :=
  [("(*Bounds).Extend", ["recv-field b.Max", "recv-field b.Min"]),
   ("(*Bounds).Points/func1/func1", ["captured i"]),
   ("(*Bounds).extendPoint",
    ["recv-field b.Max.X", "recv-field b.Max.Y", "recv-field b.Min.X", "recv-field b.Min.Y"]),
   ("GeometryCollection.Points/func1", ["captured i", "captured j", "captured p"]),
   ("LineString.Points/func1", ["captured i"]),
   ("MultiLineString.Points/func1", ["captured i", "captured j"]),
   ("MultiPoint.Points/func1", ["captured i"]),
   ("MultiPolygon.Points/func1", ["captured i", "captured j", "captured k"]),
   ("Polygon.Points/func1", ["captured i", "captured j"])]

/-- the functions of the extractor's `targets` table and their function literals: all must be among the
analysed ones (a rename cannot silently drop one) -/
def stateRequired : List String :=
  ["Point.Equals", "NewBounds", "NewBoundsPoint", "(*Bounds).Copy", "(*Bounds).Empty", "(*Bounds).extendPoint",
   "(*Bounds).extendPoints", "(*Bounds).extendPointss", "(*Bounds).Extend", "(*Bounds).Overlaps",
   "(*Bounds).Within", "(*Bounds).Intersection", "(*Bounds).Area", "(*Bounds).Centroid",
   "Point.Bounds", "Point.Len", "MultiPoint.Bounds", "MultiPoint.Len", "LineString.Bounds", "LineString.Len",
   "MultiLineString.Bounds", "MultiLineString.Len", "Polygon.Bounds", "Polygon.Len",
   "MultiPolygon.Bounds", "MultiPolygon.Len", "(*Bounds).Len",
   "Point.Points", "Point.Points/func1", "MultiPoint.Points", "MultiPoint.Points/func1",
   "LineString.Points", "LineString.Points/func1", "MultiLineString.Points", "MultiLineString.Points/func1",
   "Polygon.Points", "Polygon.Points/func1", "MultiPolygon.Points", "MultiPolygon.Points/func1",
   "(*Bounds).Points", "(*Bounds).Points/func1", "(*Bounds).Points/func1/func1",
   "GeometryCollection.Len", "GeometryCollection.Bounds", "GeometryCollection.Points",
   "GeometryCollection.Points/func1"]

theorem C04_tie_State :
    Gen.nonlocalWrites = stateModel ∧ stateRequired.all (fun n => Gen.analysed.contains n) = true ∧
      Gen.packageVars = [] ∧ Gen.missingTargets = [] := by
  decide
end GeomV.C04
