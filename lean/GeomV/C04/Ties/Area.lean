import GeomV.C04.Gen
/-! C04 — T1 tie (one module per Go function so that a broken tie is reported as that obligation):
the definition regenerated from the tree under test is the model's definition, by `rfl`. -/
set_option linter.unusedSectionVars false
namespace GeomV.C04
open GeomV
variable {α : Type} [Add α] [Sub α] [Mul α] [Div α] [OfNat α 2]

theorem C04_tie_Area (b : Box α) : Gen.area b = b.area := rfl

end GeomV.C04
