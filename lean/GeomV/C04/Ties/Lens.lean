import GeomV.C04.Gen
/-! C04 — T1 tie (the seven `Len()` methods; one module so that a broken tie is reported as that obligation):
the definition regenerated from the tree under test is the model's definition, by `rfl`. -/
set_option linter.unusedSectionVars false
namespace GeomV.C04
open GeomV
variable {α : Type} [LT α] [DecidableLT α]

theorem C04_tie_Point_Len (p : Pt α) : lenG (.point p) = .ok (Gen.pointLen p) := rfl
theorem C04_tie_MultiPoint_Len (ps : List (Pt α)) : lenG (.multiPoint ps) = .ok (Gen.multiPointLen ps) := rfl
theorem C04_tie_LineString_Len (ps : List (Pt α)) : lenG (.lineString ps) = .ok (Gen.lineStringLen ps) := rfl
theorem C04_tie_MultiLineString_Len (ls : List (List (Pt α))) :
    lenG (.multiLineString ls) = .ok (Gen.multiLineStringLen ls) := rfl
theorem C04_tie_Polygon_Len (rs : List (List (Pt α))) : lenG (.polygon rs) = .ok (Gen.polygonLen rs) := rfl
theorem C04_tie_MultiPolygon_Len (ps : List (List (List (Pt α)))) :
    lenG (.multiPolygon ps) = .ok (Gen.multiPolygonLen ps) := rfl
theorem C04_tie_Bounds_Len (mn mx : Pt α) : lenG (.bounds mn mx) = .ok (Gen.boundsLen ⟨mn, mx⟩) := rfl

end GeomV.C04
