import GeomV.C04.Gen
import GeomV.C04.LoopLemmas
/-! C04 — T1 tie: the `Points()` closure of MultiLineString as rendered from the Go source (a `for` loop with
receiver-derived fuel) is the model's fuel-free state machine `next2`. -/
set_option linter.unusedVariables false
set_option linter.unusedSimpArgs false
set_option linter.unusedSectionVars false
namespace GeomV.C04
open GeomV
variable {α : Type} [LT α] [DecidableLT α]

theorem C04_tie_MultiLineString_Points (ls : List (List (Pt α))) (i j : Nat) :
    init (.multiLineString ls) = .ok (.two Gen.multiLineStringPointsInit.1 Gen.multiLineStringPointsInit.2) ∧
    next (.multiLineString ls) (.two i j) =
      (match Gen.multiLineStringPointsNext ls i j with | .error e => .error e | .ok (v, (i', j')) => .ok (v, ItSt.two i' j')) := by
  refine ⟨rfl, ?_⟩
  simp only [next]
  unfold Gen.multiLineStringPointsNext next2 loopFuel2
  rw [loop2 ls _ _ (fun i j => by simp only [bind, Except.bind, pure, Except.pure]; cases idx ls j <;> rfl)
    (fun i j => rfl) ls.length i j (by omega)]
  cases skip2 i j (ls.drop j) with
  | error e => rfl
  | ok st =>
    obtain ⟨i', j'⟩ := st
    simp only [bind, Except.bind, pure, Except.pure, Nat.add_sub_cancel]
    cases idx ls j' with
    | error e => rfl
    | ok r => dsimp only; cases idx r i' <;> rfl

end GeomV.C04
