import GeomV.C04.Gen
/-! C04 — T1 tie: the `Points()` closures of Point, MultiPoint, LineString as rendered from the Go source
are the model's state machines (`init`/`next`). -/
set_option linter.unusedVariables false
set_option linter.unusedSectionVars false
namespace GeomV.C04
open GeomV
variable {α : Type} [LT α] [DecidableLT α]

theorem C04_tie_Point_Points (p : Pt α) :
    init (.point p) = .ok .pt ∧
    next (.point p) .pt = (match Gen.pointPointsNext p with | .error e => .error e | .ok (v, _) => .ok (v, ItSt.pt)) :=
  ⟨rfl, rfl⟩

theorem C04_tie_MultiPoint_Points (ps : List (Pt α)) (i : Nat) :
    init (.multiPoint ps) = .ok (.one Gen.multiPointPointsInit) ∧
    next (.multiPoint ps) (.one i) =
      (match Gen.multiPointPointsNext ps i with | .error e => .error e | .ok (v, i') => .ok (v, ItSt.one i')) := by
  refine ⟨rfl, ?_⟩
  simp only [next, Gen.multiPointPointsNext, bind, Except.bind, pure, Except.pure, Nat.add_sub_cancel]
  cases idx ps i <;> rfl

theorem C04_tie_LineString_Points (ps : List (Pt α)) (i : Nat) :
    init (.lineString ps) = .ok (.one Gen.lineStringPointsInit) ∧
    next (.lineString ps) (.one i) =
      (match Gen.lineStringPointsNext ps i with | .error e => .error e | .ok (v, i') => .ok (v, ItSt.one i')) := by
  refine ⟨rfl, ?_⟩
  simp only [next, Gen.lineStringPointsNext, bind, Except.bind, pure, Except.pure, Nat.add_sub_cancel]
  cases idx ps i <;> rfl

end GeomV.C04
