import GeomV.C04.Gen
import GeomV.C04.LoopLemmas
/-! C04 — T1 tie: the `Points()` closure of GeometryCollection as rendered from geometrycollection.go.

The Go closure captures `i, j int` and a func value `p`, calls `gc[j].Len()` / `gc[j].Points()` on interface
values and `p()`.  The rendered definition (Gen.lean) takes these as parameters; here they are instantiated with
the model's own dispatch: a func value made by `g.Points()` is the pair `(g, s)` of the geometry it was made from
and the captured state of that closure (`mkClo`/`callClo` = the model's `init`/`next`, whose cases for the other
seven types are tied to their rendered closures in Ties/Points*.lean).  Under the invariant `GoodC` ("`p` was made
from `gc[j]`", established by the rendered constructor and preserved by every call) the rendered closure — loop
with the fuel `len(gc)+1` included — is the model's `next` on the state `.coll i j (state of p)`. -/
set_option linter.unusedVariables false
set_option linter.unusedSimpArgs false
set_option linter.unusedSectionVars false
namespace GeomV.C04
open GeomV
variable {α : Type} [LT α] [DecidableLT α]

/-- a `func() Point` value made by `g.Points()` -/
abbrev Clo (α : Type) := Geom α × ItSt

/-- `g.Points()` on an interface value -/
def mkClo (g : Geom α) : Except Fault (Clo α) :=
  match init g with
  | .error e => .error e
  | .ok s => .ok (g, s)

/-- `p()` -/
def callClo (c : Clo α) : Except Fault (Pt α × Clo α) :=
  match next c.1 c.2 with
  | .error e => .error e
  | .ok (v, s') => .ok (v, (c.1, s'))

/-- captured variables of the rendered closure ↦ the model's iterator state -/
def encC : Nat × Nat × Option (Clo α) → ItSt
  | (i, j, p) => .coll i j (p.map (·.2))

/-- the func value held in `p` was made from `gc[j]` -/
def GoodC (gs : List (Geom α)) : Nat × Nat × Option (Clo α) → Prop
  | (_, j, none) => True
  | (_, j, some (g, _)) => gs[j]? = some g

theorem nextAt_get (gs : List (Geom α)) (j : Nat) (g : Geom α) (s : ItSt) (h : gs[j]? = some g) :
    nextAt gs j s = next g s := by
  induction gs generalizing j with
  | nil => simp at h
  | cons a gs ih =>
    cases j with
    | zero => simp at h; subst h; rw [nextAt]
    | succ j => rw [nextAt]; exact ih j (by simpa using h)

theorem idx_get {β : Type} (l : List β) (j : Nat) (x : β) (h : idx l j = .ok x) : l[j]? = some x := by
  unfold idx at h
  cases hl : l[j]? with
  | none => rw [hl] at h; cases h
  | some y => rw [hl] at h; cases h; rfl

theorem initHead_drop (gs : List (Geom α)) (j : Nat) :
    initHead (gs.drop j) = match idx gs j with | .error e => .error e | .ok g => init g := by
  rw [idx_drop]
  cases gs.drop j <;> rfl

/-- `skipColl` on func values that remember the member they were made from -/
def skipCollC (i j : Nat) (p : Option (Clo α)) : List (Geom α) → Except Fault (Nat × Nat × Option (Clo α))
  | [] => .error .index
  | g :: rest =>
    match lenG g with
    | .error e => .error e
    | .ok n =>
      if i == n then
        match rest with
        | [] => .error .index
        | g' :: _ =>
          match init g' with
          | .error e => .error e
          | .ok s => skipCollC 0 (j+1) (some (g', s)) rest
      else .ok (i, j, p)

/-- the rendered loop `for i == gc[j].Len() { j++; i = 0; p = gc[j].Points() }` with fuel is `skipCollC` -/
theorem loopC (gs : List (Geom α)) (c : Nat × Nat × Option (Clo α) → Except Fault Bool)
    (b : Nat × Nat × Option (Clo α) → Except Fault (Nat × Nat × Option (Clo α)))
    (hc : ∀ i j p, c (i, j, p) = match idx gs j with
      | .error e => .error e
      | .ok g => match lenG g with | .error e => .error e | .ok n => .ok (i == n))
    (hb : ∀ i j p, b (i, j, p) = match idx gs (j+1) with
      | .error e => .error e
      | .ok g => match init g with | .error e => .error e | .ok s => .ok (0, j+1, some (g, s))) :
    ∀ n i j p, gs.length ≤ n + j → whileFuel (n+1) c b (i, j, p) = skipCollC i j p (gs.drop j) := by
  intro n
  induction n with
  | zero =>
    intro i j p h
    rw [whileFuel, hc, idx_drop]
    have : gs.drop j = [] := List.drop_of_length_le (by omega)
    simp [this, skipCollC]
  | succ n ih =>
    intro i j p h
    rw [whileFuel, hc, idx_drop]
    cases hd : gs.drop j with
    | nil => simp [skipCollC]
    | cons g rest =>
      have hrest : gs.drop (j+1) = rest := drop_succ_of_drop hd
      simp only [skipCollC]
      cases lenG g with
      | error e => rfl
      | ok m =>
        by_cases hi : i = m
        · have hlt := drop_lt hd
          simp only [hi, beq_self_eq_true, if_true, hb]
          rw [idx_drop, hrest]
          cases hr : rest with
          | nil => rfl
          | cons g' rest' =>
            dsimp only
            cases init g' with
            | error e => rfl
            | ok s =>
              dsimp only
              rw [ih 0 (j+1) (some (g', s)) (by omega), hrest, hr]
        · have : (i == m) = false := by simp [hi]
          simp [this]

/-- forgetting the member gives the model's `skipColl`; the invariant is kept -/
theorem skipCollC_spec (gs : List (Geom α)) (L : List (Geom α)) :
    ∀ i j p, gs.drop j = L → GoodC gs (i, j, p) →
      match skipCollC i j p L with
      | .error e => skipColl i j (p.map (·.2)) L = .error e
      | .ok (i', j', p') => skipColl i j (p.map (·.2)) L = .ok (i', j', p'.map (·.2)) ∧ GoodC gs (i', j', p') := by
  induction L with
  | nil => intro i j p _ _; simp [skipCollC, skipColl]
  | cons g rest ih =>
    intro i j p hd hg
    have hrest : gs.drop (j+1) = rest := drop_succ_of_drop hd
    simp only [skipCollC, skipColl, bind, Except.bind, pure, Except.pure]
    cases lenG g with
    | error e => simp
    | ok m =>
      by_cases hi : i = m
      · simp only [hi, beq_self_eq_true, if_true]
        cases hr : rest with
        | nil => simp [initHead]
        | cons g' rest' =>
          simp only [initHead]
          cases init g' with
          | error e => simp
          | ok s =>
            have hget : gs[j+1]? = some g' := by
              have := idx_drop gs (j+1); rw [hrest, hr] at this; exact idx_get _ _ _ this
            have := ih 0 (j+1) (some (g', s)) hrest hget
            rw [hr] at this
            simpa using this
      · have : (i == m) = false := by simp [hi]
        simp only [this, Bool.false_eq_true, if_false]
        exact ⟨trivial, hg⟩

theorem C04_tie_GeometryCollection_Points (gs : List (Geom α)) :
    (match Gen.geometryCollectionPointsInit mkClo gs with
      | .error e => init (.collection gs) = .error e
      | .ok st => init (.collection gs) = .ok (encC st) ∧ GoodC gs st) ∧
    ∀ st, GoodC gs st →
      match Gen.geometryCollectionPointsNext lenG mkClo callClo gs st.1 st.2.1 st.2.2 with
      | .error e => next (.collection gs) (encC st) = .error e
      | .ok (v, st') => next (.collection gs) (encC st) = .ok (v, encC st') ∧ GoodC gs st' := by
  constructor
  · unfold Gen.geometryCollectionPointsInit
    rw [init]
    cases gs with
    | nil => simp [initFirst, bind, Except.bind, pure, Except.pure, encC, GoodC]
    | cons g rest =>
      simp only [initFirst, bind, Except.bind, pure, Except.pure, idx, mkClo, List.length_cons,
        List.getElem?_cons_zero]
      cases init g with
      | error e => simp
      | ok s => simp [encC, GoodC]
  · rintro ⟨i, j, p⟩ hg
    unfold Gen.geometryCollectionPointsNext loopFuelC
    simp only [encC]
    rw [next]
    rw [loopC gs _ _
      (fun i j p => by
        simp only [bind, Except.bind, pure, Except.pure]
        cases idx gs j with
        | error e => rfl
        | ok g => dsimp only; cases lenG g <;> rfl)
      (fun i j p => by
        simp only [bind, Except.bind, pure, Except.pure, mkClo]
        cases idx gs (j+1) with
        | error e => rfl
        | ok g => dsimp only; cases init g <;> rfl)
      gs.length i j p (by omega)]
    have hl := skipCollC_spec gs _ i j p rfl hg
    simp only [bind, Except.bind, pure, Except.pure] at hl ⊢
    generalize skipCollC i j p (gs.drop j) = w at hl ⊢
    cases w with
    | error e => simp [hl]
    | ok st =>
      obtain ⟨i', j', p'⟩ := st
      obtain ⟨hl, hg'⟩ := hl
      simp only [hl]
      cases p' with
      | none => simp
      | some cl =>
        obtain ⟨g, s⟩ := cl
        simp only [GoodC] at hg'
        simp only [Option.map_some, nextAt_get gs j' g s hg', callClo]
        cases next g s with
        | error e => simp
        | ok r =>
          obtain ⟨v, s'⟩ := r
          simp [encC, GoodC, hg']

end GeomV.C04
