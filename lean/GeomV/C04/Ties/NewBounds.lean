import GeomV.C04.Gen
/-! C04 — T1 tie (one module per Go function so that a broken tie is reported as that obligation):
the definition regenerated from the tree under test is the model's definition, by `rfl`. -/
set_option linter.unusedSectionVars false
namespace GeomV.C04
open GeomV
variable {α : Type} [LE α] [LT α] [Min α] [Max α] [DecidableLE α] [DecidableLT α] [DecidableEq α] [HasInf α]

theorem C04_tie_NewBounds : (Gen.newBounds : Box α) = Box.new := rfl

end GeomV.C04
