import GeomV.C04.Gen
/-! C04 — T1 tie: the `Points()` closure of `*Bounds` as rendered from bounds.go (`defer func() { i++ }()` and a
`switch i` with a panicking default) is the model's `nextB`: four corners in the documented order, then
`panic("out of bounds")`. -/
set_option linter.unusedVariables false
set_option linter.unusedSectionVars false
namespace GeomV.C04
open GeomV
variable {α : Type} [LT α] [DecidableLT α]

theorem C04_tie_Bounds_Points (mn mx : Pt α) (i : Nat) :
    init (.bounds mn mx) = .ok (.one Gen.boundsPointsInit) ∧
    next (.bounds mn mx) (.one i) =
      (match Gen.boundsPointsNext ⟨mn, mx⟩ i with | .error e => .error e | .ok (v, i') => .ok (v, ItSt.one i')) := by
  refine ⟨rfl, ?_⟩
  rcases i with _ | _ | _ | _ | _ | i <;> rfl

end GeomV.C04
