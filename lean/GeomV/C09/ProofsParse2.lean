import GeomV.C09.ProofsFold
import GeomV.C09.ProofsDatum
/-!
C09: `getDatum` (datum.go) against `datum.js`, the table lookups of `DeriveConstants` against deriveConstants.js, and
their composition with `projString` (ProofsFold) and the regenerated arithmetic (ProofsParse): what `proj.Parse`
leaves for ONE definition string is what `new Proj(def)` leaves, up to `init` of the projection.
-/
open GeomV.C09 GeomV.C09.Gen.Go
namespace GeomV.C09
set_option linter.unusedSimpArgs false
set_option linter.unusedVariables false
set_option maxRecDepth 8000

theorem secToRad_eq : (c_secToRad : ℝ) = Js.SEC_TO_RAD := go_consts_eq_js.2.2.2.2.2.2.2.2.2.2

/-- the three translation terms are not all zero (then the datum is of the 3- or 7-parameter type whatever its code) -/
def shiftNZ {α : Type} [RTrans α] (ps : List α) : Bool :=
  ne (Model.listGet ps 0) 0 || ne (Model.listGet ps 1) 0 || ne (Model.listGet ps 2) 0

/-- **`getDatum` = `datum.js`**: for the same datum code, `towgs84` terms, `a`, `b`, `es`, `ep2` on both sides, without
`+nadgrids` (grid shifts are supported by neither side), the two datum objects are the same (`DatumSame`: type, the
terms with rotations converted to radians and the scale to a factor by the same constants, `a`, `b`, `es`, `ep2`) —
PROVIDED a datum code is given or the translation terms are not all zero: a definition with neither has the type
`pjdNoDatum` in the port (as in PROJ.4) and `PJD_WGS84` in proj4js, the deliberate difference the property scopes out. -/
theorem go_getDatum_eq_js (s : Model.SR ℝ) (o : Js.Obj ℝ)
    (hdc : o.datumCode.getD "" = s.datumCode) (hdp : o.datum_params.getD [] = s.datumParams)
    (ha : o.a = s.a) (hb : o.b = s.b) (hes : o.es = s.es) (hep : o.ep2 = s.ep2)
    (hng : s.nadGrids = "")
    (hcode : s.datumCode ≠ "" ∨ shiftNZ s.datumParams = true) :
    DatumSame (Model.getDatum s).1 (Js.mkDatum o) := by
  have hty0 : s.datumCode ≠ "" →
      (if o.datumCode == some "none" then Js.PJD_NODATUM else Js.PJD_WGS84) =
      (if (s.datumCode == "" || s.datumCode == "none") = true then Model.pjdNoDatum else Model.pjdWGS84) := by
    intro hne
    cases ho : o.datumCode with
    | none => rw [ho] at hdc; exact absurd hdc.symm hne
    | some c =>
      rw [ho] at hdc; simp only [Option.getD_some] at hdc
      have h1 : (c == "") = false := by rw [hdc]; simpa using hne
      rw [← hdc]
      by_cases hn : c = "none"
      · subst hn; rfl
      · have h2 : (c == "none") = false := by simpa using hn
        have h3 : (some c == some "none") = false := by simpa using hn
        simp only [h1, h2, h3, Bool.or_self, Bool.false_eq_true, if_false]; rfl
  have hnil : shiftNZ ([] : List ℝ) = false := by
    simp only [shiftNZ, Model.listGet, List.getElem?_nil, Option.getD_none]; rnum; simp
  have hlg : ∀ (l : List ℝ) i, Js.listGet l i = Model.listGet l i := fun _ _ => rfl
  have hng' : (s.nadGrids != "") = false := by simp [hng]
  unfold Model.getDatum Js.mkDatum
  cases hp : o.datum_params with
  | none =>
    rw [hp] at hdp; simp only [Option.getD_none] at hdp
    have hc : s.datumCode ≠ "" := by
      rcases hcode with h | h
      · exact h
      · rw [← hdp, hnil] at h; cases h
    simp only [← hdp, List.length_nil, Nat.lt_irrefl, if_false, hng', Bool.false_eq_true, gt_iff_lt]
    constructor <;> simp only [hty0 hc, ha, hb, hes, hep, Js.num, Model.gnum, Option.getD_none] <;> rfl
  | some ps =>
    rw [hp] at hdp; simp only [Option.getD_some] at hdp
    subst hdp
    simp only [hng', Bool.false_eq_true, if_false, hlg, Js.listSet, gt_iff_lt, ← secToRad_eq]
    have fin : ∀ (t : ℕ) (l : List ℝ) (g : String), DatumSame
        { datum_type := t, datum_params := l, a := Model.gnum s.a, b := Model.gnum s.b, es := s.es, ep2 := s.ep2, nadGrids := g }
        { datum_type := t, datum_params := some l, a := Js.num o.a, b := Js.num o.b, es := o.es, ep2 := o.ep2 } := by
      intro t l g
      constructor <;> first | rfl | (simp only [ha, hb, hes, hep]; done) | (simp only [ha, hb, hes, hep]; rfl)
    by_cases hsn : shiftNZ s.datumParams = true
    · have hsn' := hsn
      unfold shiftNZ at hsn'
      simp only [hsn', if_true]
      split_ifs <;>
        first
        | exact fin _ _ _
        | (exfalso; have : s.datumParams = [] := List.eq_nil_of_length_eq_zero (by omega)
           rw [this, hnil] at hsn; cases hsn)
    · have hc : s.datumCode ≠ "" := by
        rcases hcode with h | h
        · exact h
        · exact absurd h hsn
      have hsn' := hsn
      unfold shiftNZ at hsn'
      simp only [hsn', hty0 hc, if_false]
      split_ifs <;>
        first
        | exact fin _ _ _
        | (exfalso; omega)
        | (have : s.datumParams = [] := List.eq_nil_of_length_eq_zero (by omega)
           rw [this]; exact fin _ _ _)

/-! ## the table lookups of `DeriveConstants` -/

/-- the literal `0` as the number-class generic models elaborate it -/
local notation "z0" => (@OfNat.ofNat ℝ 0 (@instOfNatOfRNum ℝ _ 0))

theorem ofSci_ne_zero (n e : ℕ) (h : n ≠ 0) : (RNum.ofSci n true e : ℝ) ≠ 0 := by
  show ((Rat.ofScientific n true e : ℚ) : ℝ) ≠ 0
  rw [Rat.ofScientific_true_def]
  have : mkRat (n : ℤ) (10 ^ e) ≠ 0 := by
    rw [Ne, Rat.mkRat_eq_zero (by positivity)]
    exact_mod_cast h
  exact_mod_cast this
theorem dec_toNum_ne_zero (d : Dec) (h : d.num ≠ 0) (hd : d.den ≠ 0) : (d.toNum : ℝ) ≠ 0 := by
  unfold Dec.toNum
  have hn : d.num.natAbs ≠ 0 := by simpa using h
  have h1 := ofSci_ne_zero d.num.natAbs d.exp10 hn
  have h2 : (RNum.ofNat d.den : ℝ) ≠ 0 := by
    show ((d.den : ℕ) : ℝ) ≠ 0
    exact_mod_cast hd
  simp only []
  split_ifs <;> first
    | exact h1
    | exact neg_ne_zero.mpr h1
    | exact div_ne_zero h1 h2
    | exact neg_ne_zero.mpr (div_ne_zero h1 h2)
theorem ell_nz : ∀ r ∈ Gen.goEllipsoids,
    (∀ d, r.a = some d → d.num ≠ 0 ∧ d.den ≠ 0) ∧ (∀ d, r.b = some d → d.num ≠ 0 ∧ d.den ≠ 0) ∧ (∀ d, r.rf = some d → d.num ≠ 0 ∧ d.den ≠ 0) := by
  decide
theorem ell_empty : lookupEll Gen.goEllipsoids "" = none := by decide
theorem ell_default : (lookupEll Gen.goEllipsoids "WGS84").getD default ∈ Gen.goEllipsoids := by decide

/-- `ParamSame` when only the fields the lookups write change -/
theorem paramSame_upd (s : Model.SR ℝ) (o : Js.Obj ℝ) (h : ParamSame s o)
    (dp : List ℝ) (dpj : Option (List ℝ)) (el : String) (elj : Option String) (a b rf aj bj rfj : Option ℝ)
    (h1 : dpj.getD [] = dp) (h2 : elj.getD "" = el) (h3 : aj = a) (h4 : bj = b) (h5 : rfj = rf) :
    ParamSame { s with datumParams := dp, ellps := el, a := a, b := b, rf := rf }
      { o with datum_params := dpj, ellps := elj, a := aj, b := bj, rf := rfj } := by
  constructor <;> first
    | exact h.name | exact h.datumCode | exact h.units | exact h.nadgrids | exact h.axis | exact h.lat0
    | exact h.lat1 | exact h.lat2 | exact h.latts | exact h.long0 | exact h.x0 | exact h.y0 | exact h.k0
    | exact h.zone | exact h.fg | exact h.tm | exact h.ra | exact h.south | exact h1 | exact h2 | exact h3 | exact h4 | exact h5 | rfl

/-- the datum-table lookup -/
def dtDatumG {α : Type} [RTrans α] (json : Model.SR α) : Model.SR α :=
  if json.datumCode != "" && json.datumCode != "none" then
    match lookupDatum Gen.goDatums json.datumCode with
    | some dd => { json with datumParams := dd.towgs84.map Dec.toNum, ellps := dd.ellipse }
    | none => json
  else json
def dtDatumJ {α : Type} [RTrans α] (json : Js.Obj α) : Js.Obj α :=
  match json.datumCode with
  | some dc =>
    if dc ≠ "" && dc ≠ "none" then
      match lookupDatum Gen.jsDatums dc with
      | some dd =>
        let ps : Option (List α) := if dd.towgs84.isEmpty then none else some (dd.towgs84.map Dec.toNum)
        { json with datum_params := ps, ellps := some dd.ellipse }
      | none => json
    else json
  | none => json

theorem dtDatum_same (s : Model.SR ℝ) (o : Js.Obj ℝ) (h : ParamSame s o) : ParamSame (dtDatumG s) (dtDatumJ o) := by
  unfold dtDatumG dtDatumJ
  have hdc := h.datumCode
  rw [← C09_datums]
  cases hd : o.datumCode with
  | none =>
    rw [hd] at hdc; simp only [Option.getD_none] at hdc
    have : (s.datumCode != "" && s.datumCode != "none") = false := by rw [← hdc]; decide
    simp only [this, Bool.false_eq_true, if_false]; exact h
  | some dc =>
    rw [hd] at hdc; simp only [Option.getD_some] at hdc
    rw [← hdc]
    have hc : (decide (dc ≠ "") && decide (dc ≠ "none")) = (dc != "" && dc != "none") := by
      by_cases h1 : dc = "" <;> by_cases h2 : dc = "none" <;> simp [h1, h2]
    simp only [hc]
    cases hcnd : (dc != "" && dc != "none") with
    | false => simp only [Bool.false_eq_true, if_false]; exact h
    | true =>
      simp only [if_true]
      cases hl : lookupDatum Gen.goDatums dc with
      | none => exact h
      | some dd =>
        have h1 : (if dd.towgs84.isEmpty then (none : Option (List ℝ)) else some (dd.towgs84.map Dec.toNum)).getD [] =
            dd.towgs84.map Dec.toNum := by
          cases dd.towgs84 <;> rfl
        have x := paramSame_upd s o h _ _ dd.ellipse (some dd.ellipse) s.a s.b s.rf o.a o.b o.rf h1 rfl h.a h.b h.rf
        rw [hd, ← hdc] at x
        exact x

/-- `if row.f != 0 { json.F = row.f }` (an absent table field is Go's zero value) -/
def cpG {α : Type} [RTrans α] (od : Option Dec) (json : Model.SR α) (f : α → Model.SR α) : Model.SR α :=
  match Model.decO (α := α) od with | some v => if ne v 0 then f v else json | none => json
/-- `extend(json, ellipse)` for one property of the row -/
def cpJ {α : Type} [RTrans α] (od : Option Dec) (json : Js.Obj α) (f : α → Js.Obj α) : Js.Obj α :=
  match Js.decO (α := α) od with | some v => f v | none => json

theorem copy_a (s : Model.SR ℝ) (o : Js.Obj ℝ) (h : ParamSame s o) (od : Option Dec)
    (hnz : ∀ d, od = some d → d.num ≠ 0 ∧ d.den ≠ 0) :
    ParamSame (cpG od s (fun v => { s with a := some v })) (cpJ od o (fun v => { o with a := some v })) := by
  unfold cpG cpJ
  cases od with
  | none => exact h
  | some d =>
    have hv : (ne (d.toNum : ℝ) z0) = true := by
      have := dec_toNum_ne_zero d (hnz d rfl).1 (hnz d rfl).2
      rnum; simpa using this
    simp only [Model.decO, Js.decO, Option.map_some, hv, if_true]
    exact paramSame_upd s o h s.datumParams o.datum_params s.ellps o.ellps (some d.toNum) s.b s.rf (some d.toNum) o.b o.rf h.dp h.ellps rfl h.b h.rf

theorem copy_b (s : Model.SR ℝ) (o : Js.Obj ℝ) (h : ParamSame s o) (od : Option Dec)
    (hnz : ∀ d, od = some d → d.num ≠ 0 ∧ d.den ≠ 0) :
    ParamSame (cpG od s (fun v => { s with b := some v })) (cpJ od o (fun v => { o with b := some v })) := by
  unfold cpG cpJ
  cases od with
  | none => exact h
  | some d =>
    have hv : (ne (d.toNum : ℝ) z0) = true := by
      have := dec_toNum_ne_zero d (hnz d rfl).1 (hnz d rfl).2
      rnum; simpa using this
    simp only [Model.decO, Js.decO, Option.map_some, hv, if_true]
    exact paramSame_upd s o h s.datumParams o.datum_params s.ellps o.ellps s.a (some d.toNum) s.rf o.a (some d.toNum) o.rf h.dp h.ellps h.a rfl h.rf

theorem copy_rf (s : Model.SR ℝ) (o : Js.Obj ℝ) (h : ParamSame s o) (od : Option Dec)
    (hnz : ∀ d, od = some d → d.num ≠ 0 ∧ d.den ≠ 0) :
    ParamSame (cpG od s (fun v => { s with rf := some v })) (cpJ od o (fun v => { o with rf := some v })) := by
  unfold cpG cpJ
  cases od with
  | none => exact h
  | some d =>
    have hv : (ne (d.toNum : ℝ) z0) = true := by
      have := dec_toNum_ne_zero d (hnz d rfl).1 (hnz d rfl).2
      rnum; simpa using this
    simp only [Model.decO, Js.decO, Option.map_some, hv, if_true]
    exact paramSame_upd s o h s.datumParams o.datum_params s.ellps o.ellps s.a s.b (some d.toNum) o.a o.b (some d.toNum) h.dp h.ellps h.a h.b rfl

/-- the ellipsoid-table lookup -/
def dtEllG {α : Type} [RTrans α] (json : Model.SR α) : Model.SR α :=
  if Model.gNaN json.a then
    let row := match lookupEll Gen.goEllipsoids json.ellps with
      | some r => r
      | none => (lookupEll Gen.goEllipsoids "WGS84").getD default
    let json := cpG row.a json (fun v => { json with a := some v })
    let json := cpG row.b json (fun v => { json with b := some v })
    cpG row.rf json (fun v => { json with rf := some v })
  else json
def dtEllJ {α : Type} [RTrans α] (json : Js.Obj α) : Js.Obj α :=
  if !Js.truthyO json.a then
    let row := match json.ellps.bind (lookupEll Gen.jsEllipsoids) with
      | some r => r
      | none => (lookupEll Gen.jsEllipsoids "WGS84").getD default
    let json := cpJ row.a json (fun v => { json with a := some v })
    let json := cpJ row.b json (fun v => { json with b := some v })
    cpJ row.rf json (fun v => { json with rf := some v })
  else json

theorem go_deriveTables_split {α : Type} [RTrans α] (s : Model.SR α) : Model.deriveTables s = dtEllG (dtDatumG s) := by
  unfold Model.deriveTables dtEllG dtDatumG cpG
  rfl
theorem js_deriveTables_split {α : Type} [RTrans α] (o : Js.Obj α) : Js.deriveTables o = dtEllJ (dtDatumJ o) := by
  unfold Js.deriveTables dtEllJ dtDatumJ cpJ
  rfl

theorem dtEll_same (s : Model.SR ℝ) (o : Js.Obj ℝ) (h : ParamSame s o) (hz : NZ s.a) : ParamSame (dtEllG s) (dtEllJ o) := by
  unfold dtEllG dtEllJ
  rw [← C09_ellipsoids]
  have hcond : (!Js.truthyO o.a) = Model.gNaN s.a := by
    rw [h.a]
    unfold NZ at hz
    cases ha : s.a with
    | none => rfl
    | some v =>
      have hv : v ≠ 0 := by intro hc; rw [ha, hc] at hz; exact hz rfl
      simp only [Js.truthyO, Model.gNaN]; rnum; simp [hv]
  rw [hcond]
  cases Model.gNaN s.a with
  | false => simp only [Bool.false_eq_true, if_false]; exact h
  | true =>
    simp only [if_true]
    have hrow : (match o.ellps.bind (lookupEll Gen.goEllipsoids) with
        | some r => r | none => (lookupEll Gen.goEllipsoids "WGS84").getD default) =
        (match lookupEll Gen.goEllipsoids s.ellps with
        | some r => r | none => (lookupEll Gen.goEllipsoids "WGS84").getD default) := by
      have he := h.ellps
      cases hoe : o.ellps with
      | none => rw [hoe] at he; simp only [Option.getD_none] at he; rw [← he, ell_empty]; rfl
      | some e => rw [hoe] at he; simp only [Option.getD_some] at he; rw [← he]; rfl
    rw [hrow]
    have hmem : (match lookupEll Gen.goEllipsoids s.ellps with
        | some r => r | none => (lookupEll Gen.goEllipsoids "WGS84").getD default) ∈ Gen.goEllipsoids := by
      cases hl : lookupEll Gen.goEllipsoids s.ellps with
      | none => exact ell_default
      | some r => exact List.mem_of_find?_eq_some hl
    generalize (match lookupEll Gen.goEllipsoids s.ellps with
        | some r => r | none => (lookupEll Gen.goEllipsoids "WGS84").getD default) = row at hmem ⊢
    obtain ⟨na, nb, nrf⟩ := ell_nz row hmem
    exact copy_rf _ _ (copy_b _ _ (copy_a _ _ h _ na) _ nb) _ nrf

/-- **the two table lookups at the head of `DeriveConstants` = deriveConstants.js**: a recognised `+datum` name replaces
the `towgs84` terms and the ellipsoid name by its row's (`C09_datums`: the same row on both sides; a row without terms
leaves an empty list in the port and `null` in proj4js); without `+a` the row of the named ellipsoid — WGS84 when the
name is absent or unknown — fills `a`, `b`, `rf` as far as it defines them (`C09_ellipsoids`; the port's `!= 0` tests
change nothing: every number of the table is non-zero, `ell_nz` by `decide` over the regenerated table). `+a=0` is
excluded (proj4js' `!json.a` then reads the table, the port's `IsNaN` does not). -/
theorem go_deriveTables_eq_js (s : Model.SR ℝ) (o : Js.Obj ℝ) (h : ParamSame s o) (hz : NZ s.a) :
    ParamSame (Model.deriveTables s) (Js.deriveTables o) := by
  rw [go_deriveTables_split, js_deriveTables_split]
  refine dtEll_same _ _ (dtDatum_same s o h) ?_
  have : (dtDatumG s).a = s.a := by
    unfold dtDatumG; split_ifs <;> [split <;> rfl; rfl]
  rw [this]; exact hz

end GeomV.C09
