import GeomV.C09.ProofsFold
import GeomV.C09.ProofsDatum
import GeomV.C09.ProofsInit4
/-!
C09: `getDatum` (datum.go) against `datum.js`, the table lookups of `DeriveConstants` against deriveConstants.js, and
their composition with `projString` (ProofsFold) and the regenerated arithmetic (ProofsParse): what `proj.Parse`
leaves for ONE definition string is what `new Proj(def)` leaves, up to `init` of the projection.
-/
open GeomV.C09 GeomV.C09.Gen.Go
namespace GeomV.C09
set_option linter.unusedSimpArgs false
set_option linter.unusedVariables false
set_option maxRecDepth 8000

theorem secToRad_eq : (c_secToRad : ℝ) = Js.SEC_TO_RAD := go_consts_eq_js.2.2.2.2.2.2.2.2.2.2

/-- the three translation terms are not all zero (then the datum is of the 3- or 7-parameter type whatever its code) -/
def shiftNZ {α : Type} [RTrans α] (ps : List α) : Bool :=
  ne (Model.listGet ps 0) 0 || ne (Model.listGet ps 1) 0 || ne (Model.listGet ps 2) 0

/-- **`getDatum` = `datum.js`**: for the same datum code, `towgs84` terms, `a`, `b`, `es`, `ep2` on both sides, without
`+nadgrids` (grid shifts are supported by neither side), the two datum objects are the same (`DatumSame`: type, the
terms with rotations converted to radians and the scale to a factor by the same constants, `a`, `b`, `es`, `ep2`) —
PROVIDED a datum code is given or the translation terms are not all zero: a definition with neither has the type
`pjdNoDatum` in the port (as in PROJ.4) and `PJD_WGS84` in proj4js, the deliberate difference the property scopes out. -/
theorem go_getDatum_eq_js (s : Model.SR ℝ) (o : Js.Obj ℝ)
    (hdc : o.datumCode.getD "" = s.datumCode) (hdp : o.datum_params.getD [] = s.datumParams)
    (ha : o.a = s.a) (hb : o.b = s.b) (hes : o.es = s.es) (hep : o.ep2 = s.ep2)
    (hng : s.nadGrids = "")
    (hcode : s.datumCode ≠ "" ∨ shiftNZ s.datumParams = true) :
    DatumSame (Model.getDatum s).1 (Js.mkDatum o) := by
  have hty0 : s.datumCode ≠ "" →
      (if o.datumCode == some "none" then Js.PJD_NODATUM else Js.PJD_WGS84) =
      (if (s.datumCode == "" || s.datumCode == "none") = true then Model.pjdNoDatum else Model.pjdWGS84) := by
    intro hne
    cases ho : o.datumCode with
    | none => rw [ho] at hdc; exact absurd hdc.symm hne
    | some c =>
      rw [ho] at hdc; simp only [Option.getD_some] at hdc
      have h1 : (c == "") = false := by rw [hdc]; simpa using hne
      rw [← hdc]
      by_cases hn : c = "none"
      · subst hn; rfl
      · have h2 : (c == "none") = false := by simpa using hn
        have h3 : (some c == some "none") = false := by simpa using hn
        simp only [h1, h2, h3, Bool.or_self, Bool.false_eq_true, if_false]; rfl
  have hnil : shiftNZ ([] : List ℝ) = false := by
    simp only [shiftNZ, Model.listGet, List.getElem?_nil, Option.getD_none]; rnum; simp
  have hlg : ∀ (l : List ℝ) i, Js.listGet l i = Model.listGet l i := fun _ _ => rfl
  have hng' : (s.nadGrids != "") = false := by simp [hng]
  unfold Model.getDatum Js.mkDatum
  cases hp : o.datum_params with
  | none =>
    rw [hp] at hdp; simp only [Option.getD_none] at hdp
    have hc : s.datumCode ≠ "" := by
      rcases hcode with h | h
      · exact h
      · rw [← hdp, hnil] at h; cases h
    simp only [← hdp, List.length_nil, Nat.lt_irrefl, if_false, hng', Bool.false_eq_true, gt_iff_lt]
    constructor <;> simp only [hty0 hc, ha, hb, hes, hep, Js.num, Model.gnum, Option.getD_none] <;> rfl
  | some ps =>
    rw [hp] at hdp; simp only [Option.getD_some] at hdp
    subst hdp
    simp only [hng', Bool.false_eq_true, if_false, hlg, Js.listSet, gt_iff_lt, ← secToRad_eq]
    have fin : ∀ (t : ℕ) (l : List ℝ) (g : String), DatumSame
        { datum_type := t, datum_params := l, a := Model.gnum s.a, b := Model.gnum s.b, es := s.es, ep2 := s.ep2, nadGrids := g }
        { datum_type := t, datum_params := some l, a := Js.num o.a, b := Js.num o.b, es := o.es, ep2 := o.ep2 } := by
      intro t l g
      constructor <;> first | rfl | (simp only [ha, hb, hes, hep]; done) | (simp only [ha, hb, hes, hep]; rfl)
    by_cases hsn : shiftNZ s.datumParams = true
    · have hsn' := hsn
      unfold shiftNZ at hsn'
      simp only [hsn', if_true]
      split_ifs <;>
        first
        | exact fin _ _ _
        | (exfalso; have : s.datumParams = [] := List.eq_nil_of_length_eq_zero (by omega)
           rw [this, hnil] at hsn; cases hsn)
    · have hc : s.datumCode ≠ "" := by
        rcases hcode with h | h
        · exact h
        · exact absurd h hsn
      have hsn' := hsn
      unfold shiftNZ at hsn'
      simp only [hsn', hty0 hc, if_false]
      split_ifs <;>
        first
        | exact fin _ _ _
        | (exfalso; omega)
        | (have : s.datumParams = [] := List.eq_nil_of_length_eq_zero (by omega)
           rw [this]; exact fin _ _ _)

/-! ## the table lookups of `DeriveConstants` -/

/-- the literal `0` as the number-class generic models elaborate it -/
local notation "z0" => (@OfNat.ofNat ℝ 0 (@instOfNatOfRNum ℝ _ 0))

theorem ofSci_ne_zero (n e : ℕ) (h : n ≠ 0) : (RNum.ofSci n true e : ℝ) ≠ 0 := by
  show ((Rat.ofScientific n true e : ℚ) : ℝ) ≠ 0
  rw [Rat.ofScientific_true_def]
  have : mkRat (n : ℤ) (10 ^ e) ≠ 0 := by
    rw [Ne, Rat.mkRat_eq_zero (by positivity)]
    exact_mod_cast h
  exact_mod_cast this
theorem dec_toNum_ne_zero (d : Dec) (h : d.num ≠ 0) (hd : d.den ≠ 0) : (d.toNum : ℝ) ≠ 0 := by
  unfold Dec.toNum
  have hn : d.num.natAbs ≠ 0 := by simpa using h
  have h1 := ofSci_ne_zero d.num.natAbs d.exp10 hn
  have h2 : (RNum.ofNat d.den : ℝ) ≠ 0 := by
    show ((d.den : ℕ) : ℝ) ≠ 0
    exact_mod_cast hd
  simp only []
  split_ifs <;> first
    | exact h1
    | exact neg_ne_zero.mpr h1
    | exact div_ne_zero h1 h2
    | exact neg_ne_zero.mpr (div_ne_zero h1 h2)
theorem ell_nz : ∀ r ∈ Gen.goEllipsoids,
    (∀ d, r.a = some d → d.num ≠ 0 ∧ d.den ≠ 0) ∧ (∀ d, r.b = some d → d.num ≠ 0 ∧ d.den ≠ 0) ∧ (∀ d, r.rf = some d → d.num ≠ 0 ∧ d.den ≠ 0) := by
  decide
theorem ell_empty : lookupEll Gen.goEllipsoids "" = none := by decide
theorem ell_default : (lookupEll Gen.goEllipsoids "WGS84").getD default ∈ Gen.goEllipsoids := by decide

/-- `ParamSame` when only the fields the lookups write change -/
theorem paramSame_upd (s : Model.SR ℝ) (o : Js.Obj ℝ) (h : ParamSame s o)
    (dp : List ℝ) (dpj : Option (List ℝ)) (el : String) (elj : Option String) (a b rf aj bj rfj : Option ℝ)
    (h1 : dpj.getD [] = dp) (h2 : elj.getD "" = el) (h3 : aj = a) (h4 : bj = b) (h5 : rfj = rf) :
    ParamSame { s with datumParams := dp, ellps := el, a := a, b := b, rf := rf }
      { o with datum_params := dpj, ellps := elj, a := aj, b := bj, rf := rfj } := by
  constructor <;> first
    | exact h.name | exact h.datumCode | exact h.units | exact h.nadgrids | exact h.axis | exact h.lat0
    | exact h.lat1 | exact h.lat2 | exact h.latts | exact h.long0 | exact h.x0 | exact h.y0 | exact h.k0
    | exact h.zone | exact h.fg | exact h.tm | exact h.ra | exact h.south | exact h.kk | exact h.czech | exact h1 | exact h2 | exact h3 | exact h4 | exact h5 | rfl

/-- the datum-table lookup -/
def dtDatumG {α : Type} [RTrans α] (json : Model.SR α) : Model.SR α :=
  if json.datumCode != "" && json.datumCode != "none" then
    match lookupDatum Gen.goDatums json.datumCode with
    | some dd => { json with datumParams := dd.towgs84.map Dec.toNum, ellps := dd.ellipse }
    | none => json
  else json
def dtDatumJ {α : Type} [RTrans α] (json : Js.Obj α) : Js.Obj α :=
  match json.datumCode with
  | some dc =>
    if dc ≠ "" && dc ≠ "none" then
      match lookupDatum Gen.jsDatums dc with
      | some dd =>
        let ps : Option (List α) := if dd.towgs84.isEmpty then none else some (dd.towgs84.map Dec.toNum)
        { json with datum_params := ps, ellps := some dd.ellipse }
      | none => json
    else json
  | none => json

theorem dtDatum_same (s : Model.SR ℝ) (o : Js.Obj ℝ) (h : ParamSame s o) : ParamSame (dtDatumG s) (dtDatumJ o) := by
  unfold dtDatumG dtDatumJ
  have hdc := h.datumCode
  rw [← C09_datums]
  cases hd : o.datumCode with
  | none =>
    rw [hd] at hdc; simp only [Option.getD_none] at hdc
    have : (s.datumCode != "" && s.datumCode != "none") = false := by rw [← hdc]; decide
    simp only [this, Bool.false_eq_true, if_false]; exact h
  | some dc =>
    rw [hd] at hdc; simp only [Option.getD_some] at hdc
    rw [← hdc]
    have hc : (decide (dc ≠ "") && decide (dc ≠ "none")) = (dc != "" && dc != "none") := by
      by_cases h1 : dc = "" <;> by_cases h2 : dc = "none" <;> simp [h1, h2]
    simp only [hc]
    cases hcnd : (dc != "" && dc != "none") with
    | false => simp only [Bool.false_eq_true, if_false]; exact h
    | true =>
      simp only [if_true]
      cases hl : lookupDatum Gen.goDatums dc with
      | none => exact h
      | some dd =>
        have h1 : (if dd.towgs84.isEmpty then (none : Option (List ℝ)) else some (dd.towgs84.map Dec.toNum)).getD [] =
            dd.towgs84.map Dec.toNum := by
          cases dd.towgs84 <;> rfl
        have x := paramSame_upd s o h _ _ dd.ellipse (some dd.ellipse) s.a s.b s.rf o.a o.b o.rf h1 rfl h.a h.b h.rf
        rw [hd, ← hdc] at x
        exact x

/-- `if row.f != 0 { json.F = row.f }` (an absent table field is Go's zero value) -/
def cpG {α : Type} [RTrans α] (od : Option Dec) (json : Model.SR α) (f : α → Model.SR α) : Model.SR α :=
  match Model.decO (α := α) od with | some v => if ne v 0 then f v else json | none => json
/-- `extend(json, ellipse)` for one property of the row -/
def cpJ {α : Type} [RTrans α] (od : Option Dec) (json : Js.Obj α) (f : α → Js.Obj α) : Js.Obj α :=
  match Js.decO (α := α) od with | some v => f v | none => json

theorem copy_a (s : Model.SR ℝ) (o : Js.Obj ℝ) (h : ParamSame s o) (od : Option Dec)
    (hnz : ∀ d, od = some d → d.num ≠ 0 ∧ d.den ≠ 0) :
    ParamSame (cpG od s (fun v => { s with a := some v })) (cpJ od o (fun v => { o with a := some v })) := by
  unfold cpG cpJ
  cases od with
  | none => exact h
  | some d =>
    have hv : (ne (d.toNum : ℝ) z0) = true := by
      have := dec_toNum_ne_zero d (hnz d rfl).1 (hnz d rfl).2
      rnum; simpa using this
    simp only [Model.decO, Js.decO, Option.map_some, hv, if_true]
    exact paramSame_upd s o h s.datumParams o.datum_params s.ellps o.ellps (some d.toNum) s.b s.rf (some d.toNum) o.b o.rf h.dp h.ellps rfl h.b h.rf

theorem copy_b (s : Model.SR ℝ) (o : Js.Obj ℝ) (h : ParamSame s o) (od : Option Dec)
    (hnz : ∀ d, od = some d → d.num ≠ 0 ∧ d.den ≠ 0) :
    ParamSame (cpG od s (fun v => { s with b := some v })) (cpJ od o (fun v => { o with b := some v })) := by
  unfold cpG cpJ
  cases od with
  | none => exact h
  | some d =>
    have hv : (ne (d.toNum : ℝ) z0) = true := by
      have := dec_toNum_ne_zero d (hnz d rfl).1 (hnz d rfl).2
      rnum; simpa using this
    simp only [Model.decO, Js.decO, Option.map_some, hv, if_true]
    exact paramSame_upd s o h s.datumParams o.datum_params s.ellps o.ellps s.a (some d.toNum) s.rf o.a (some d.toNum) o.rf h.dp h.ellps h.a rfl h.rf

theorem copy_rf (s : Model.SR ℝ) (o : Js.Obj ℝ) (h : ParamSame s o) (od : Option Dec)
    (hnz : ∀ d, od = some d → d.num ≠ 0 ∧ d.den ≠ 0) :
    ParamSame (cpG od s (fun v => { s with rf := some v })) (cpJ od o (fun v => { o with rf := some v })) := by
  unfold cpG cpJ
  cases od with
  | none => exact h
  | some d =>
    have hv : (ne (d.toNum : ℝ) z0) = true := by
      have := dec_toNum_ne_zero d (hnz d rfl).1 (hnz d rfl).2
      rnum; simpa using this
    simp only [Model.decO, Js.decO, Option.map_some, hv, if_true]
    exact paramSame_upd s o h s.datumParams o.datum_params s.ellps o.ellps s.a s.b (some d.toNum) o.a o.b (some d.toNum) h.dp h.ellps h.a h.b rfl

/-- the ellipsoid-table lookup -/
def dtEllG {α : Type} [RTrans α] (json : Model.SR α) : Model.SR α :=
  if Model.gNaN json.a then
    let row := match lookupEll Gen.goEllipsoids json.ellps with
      | some r => r
      | none => (lookupEll Gen.goEllipsoids "WGS84").getD default
    let json := cpG row.a json (fun v => { json with a := some v })
    let json := cpG row.b json (fun v => { json with b := some v })
    cpG row.rf json (fun v => { json with rf := some v })
  else json
def dtEllJ {α : Type} [RTrans α] (json : Js.Obj α) : Js.Obj α :=
  if !Js.truthyO json.a then
    let row := match json.ellps.bind (lookupEll Gen.jsEllipsoids) with
      | some r => r
      | none => (lookupEll Gen.jsEllipsoids "WGS84").getD default
    let json := cpJ row.a json (fun v => { json with a := some v })
    let json := cpJ row.b json (fun v => { json with b := some v })
    cpJ row.rf json (fun v => { json with rf := some v })
  else json

theorem go_deriveTables_split {α : Type} [RTrans α] (s : Model.SR α) : Model.deriveTables s = dtEllG (dtDatumG s) := by
  unfold Model.deriveTables dtEllG dtDatumG cpG
  rfl
theorem js_deriveTables_split {α : Type} [RTrans α] (o : Js.Obj α) : Js.deriveTables o = dtEllJ (dtDatumJ o) := by
  unfold Js.deriveTables dtEllJ dtDatumJ cpJ
  rfl

theorem dtEll_same (s : Model.SR ℝ) (o : Js.Obj ℝ) (h : ParamSame s o) (hz : NZ s.a) : ParamSame (dtEllG s) (dtEllJ o) := by
  unfold dtEllG dtEllJ
  rw [← C09_ellipsoids]
  have hcond : (!Js.truthyO o.a) = Model.gNaN s.a := by
    rw [h.a]
    unfold NZ at hz
    cases ha : s.a with
    | none => rfl
    | some v =>
      have hv : v ≠ 0 := by intro hc; rw [ha, hc] at hz; exact hz rfl
      simp only [Js.truthyO, Model.gNaN]; rnum; simp [hv]
  rw [hcond]
  cases Model.gNaN s.a with
  | false => simp only [Bool.false_eq_true, if_false]; exact h
  | true =>
    simp only [if_true]
    have hrow : (match o.ellps.bind (lookupEll Gen.goEllipsoids) with
        | some r => r | none => (lookupEll Gen.goEllipsoids "WGS84").getD default) =
        (match lookupEll Gen.goEllipsoids s.ellps with
        | some r => r | none => (lookupEll Gen.goEllipsoids "WGS84").getD default) := by
      have he := h.ellps
      cases hoe : o.ellps with
      | none => rw [hoe] at he; simp only [Option.getD_none] at he; rw [← he, ell_empty]; rfl
      | some e => rw [hoe] at he; simp only [Option.getD_some] at he; rw [← he]; rfl
    rw [hrow]
    have hmem : (match lookupEll Gen.goEllipsoids s.ellps with
        | some r => r | none => (lookupEll Gen.goEllipsoids "WGS84").getD default) ∈ Gen.goEllipsoids := by
      cases hl : lookupEll Gen.goEllipsoids s.ellps with
      | none => exact ell_default
      | some r => exact List.mem_of_find?_eq_some hl
    generalize (match lookupEll Gen.goEllipsoids s.ellps with
        | some r => r | none => (lookupEll Gen.goEllipsoids "WGS84").getD default) = row at hmem ⊢
    obtain ⟨na, nb, nrf⟩ := ell_nz row hmem
    exact copy_rf _ _ (copy_b _ _ (copy_a _ _ h _ na) _ nb) _ nrf

/-- **the two table lookups at the head of `DeriveConstants` = deriveConstants.js**: a recognised `+datum` name replaces
the `towgs84` terms and the ellipsoid name by its row's (`C09_datums`: the same row on both sides; a row without terms
leaves an empty list in the port and `null` in proj4js); without `+a` the row of the named ellipsoid — WGS84 when the
name is absent or unknown — fills `a`, `b`, `rf` as far as it defines them (`C09_ellipsoids`; the port's `!= 0` tests
change nothing: every number of the table is non-zero, `ell_nz` by `decide` over the regenerated table). `+a=0` is
excluded (proj4js' `!json.a` then reads the table, the port's `IsNaN` does not). -/
theorem go_deriveTables_eq_js (s : Model.SR ℝ) (o : Js.Obj ℝ) (h : ParamSame s o) (hz : NZ s.a) :
    ParamSame (Model.deriveTables s) (Js.deriveTables o) := by
  rw [go_deriveTables_split, js_deriveTables_split]
  refine dtEll_same _ _ (dtDatum_same s o h) ?_
  have : (dtDatumG s).a = s.a := by
    unfold dtDatumG; split_ifs <;> [split <;> rfl; rfl]
  rw [this]; exact hz

/-! ## what `projString` does NOT touch (the derived constants and the datum stay as `NewSR()` / `{}` left them) -/

def KeepG (s s' : Model.SR ℝ) : Prop :=
  s'.sphere = s.sphere ∧ s'.a2 = s.a2 ∧ s'.b2 = s.b2 ∧ s'.es = s.es ∧ s'.e = s.e ∧ s'.ep2 = s.ep2 ∧ s'.datum = s.datum
def KeepJ (o o' : Js.Obj ℝ) : Prop :=
  o'.sphere = o.sphere ∧ o'.a2 = o.a2 ∧ o'.b2 = o.b2 ∧ o'.es = o.es ∧ o'.e = o.e ∧ o'.ep2 = o.ep2 ∧ o'.datum = o.datum

theorem keepG_refl (s : Model.SR ℝ) : KeepG s s := ⟨rfl, rfl, rfl, rfl, rfl, rfl, rfl⟩
theorem keepG_trans {a b c : Model.SR ℝ} (h1 : KeepG a b) (h2 : KeepG b c) : KeepG a c := by
  obtain ⟨p1, p2, p3, p4, p5, p6, p7⟩ := h1
  obtain ⟨q1, q2, q3, q4, q5, q6, q7⟩ := h2
  exact ⟨q1.trans p1, q2.trans p2, q3.trans p3, q4.trans p4, q5.trans p5, q6.trans p6, q7.trans p7⟩
theorem keepJ_refl (o : Js.Obj ℝ) : KeepJ o o := ⟨rfl, rfl, rfl, rfl, rfl, rfl, rfl⟩
theorem keepJ_trans {a b c : Js.Obj ℝ} (h1 : KeepJ a b) (h2 : KeepJ b c) : KeepJ a c := by
  obtain ⟨p1, p2, p3, p4, p5, p6, p7⟩ := h1
  obtain ⟨q1, q2, q3, q4, q5, q6, q7⟩ := h2
  exact ⟨q1.trans p1, q2.trans p2, q3.trans p3, q4.trans p4, q5.trans p5, q6.trans p6, q7.trans p7⟩

theorem setNum_keeps (s s' : Model.SR ℝ) (fld : String) (v : ℝ) (h : Model.setNum s fld v = .ok s') : KeepG s s' := by
  unfold Model.setNum at h
  split at h <;> simp only [pure, Except.pure, throw, throwThe, MonadExceptOf.throw, Except.ok.injEq, reduceCtorEq] at h <;>
    subst h <;> exact keepG_refl _
theorem setStr_keeps (s s' : Model.SR ℝ) (fld v : String) (h : Model.setStr s fld v = .ok s') : KeepG s s' := by
  unfold Model.setStr at h
  split at h <;> simp only [pure, Except.pure, throw, throwThe, MonadExceptOf.throw, Except.ok.injEq, reduceCtorEq] at h <;>
    subst h <;> exact keepG_refl _
theorem setFlag_keeps (s s' : Model.SR ℝ) (fld : String) (h : Model.setFlag s fld = .ok s') : KeepG s s' := by
  unfold Model.setFlag at h
  split at h <;> simp only [pure, Except.pure, throw, throwThe, MonadExceptOf.throw, Except.ok.injEq, reduceCtorEq] at h <;>
    subst h <;> exact keepG_refl _

theorem applySpecial_keeps (s s' : Model.SR ℝ) (k v : String) (h : Model.applySpecial s k v = .ok s') : KeepG s s' := by
  unfold Model.applySpecial at h
  split at h
  · cases hm : (v.splitOn ",").mapM (fun s => Model.parseFloat (α := ℝ) s) with
    | error e => simp only [hm, bind, Except.bind, reduceCtorEq] at h
    | ok ps => simp only [hm, bind, Except.bind, pure, Except.pure, Except.ok.injEq] at h; subst h; exact keepG_refl _
  · split at h <;> simp only [pure, Except.pure, Except.ok.injEq] at h <;> subst h <;> exact keepG_refl _
  · split at h
    · simp only [pure, Except.pure, Except.ok.injEq] at h; subst h; exact keepG_refl _
    · cases hp : Model.parseFloat (α := ℝ) v with
      | error e => simp only [hp, bind, Except.bind, reduceCtorEq] at h
      | ok x => simp only [hp, bind, Except.bind, pure, Except.pure, Except.ok.injEq] at h; subst h; exact keepG_refl _
  · split at h <;> simp only [pure, Except.pure, Except.ok.injEq] at h <;> subst h <;> exact keepG_refl _
  · split at h <;> simp only [pure, Except.pure, Except.ok.injEq] at h <;> subst h <;> exact keepG_refl _
  · simp only [throw, throwThe, MonadExceptOf.throw, reduceCtorEq] at h

theorem applyKV_keeps (s s' : Model.SR ℝ) (k v : String) (h : Model.applyKV s k v = .ok s') : KeepG s s' := by
  unfold Model.applyKV at h
  split at h
  · cases hp : Model.parseFloat (α := ℝ) v with
    | error e => simp only [hp, bind, Except.bind, reduceCtorEq] at h
    | ok x => simp only [hp, bind, Except.bind] at h; exact setNum_keeps _ _ _ _ h
  · split at h
    · exact setStr_keeps _ _ _ _ h
    · split at h
      · exact setFlag_keeps _ _ _ h
      · exact applySpecial_keeps _ _ _ _ h

theorem goFold_keeps (l : List (String × Option String)) : ∀ (s s' : Model.SR ℝ), goFold s l = .ok s' → KeepG s s' := by
  induction l with
  | nil => intro s s' h; simp only [goFold, List.foldlM_nil, pure, Except.pure, Except.ok.injEq] at h; subst h; exact keepG_refl _
  | cons kv t ih =>
    intro s s' h
    simp only [goFold, List.foldlM_cons, bind, Except.bind] at h
    cases h1 : Model.applyKV s kv.1 (kv.2.getD "true") with
    | error e => simp only [h1, reduceCtorEq] at h
    | ok s1 => simp only [h1] at h; exact keepG_trans (applyKV_keeps _ _ _ _ h1) (ih s1 s' h)

theorem js_applyParam_keeps (o : Js.Obj ℝ) (kv : String × Option String) : KeepJ o (Js.applyParam o kv) := by
  unfold KeepJ
  refine ⟨?_, ?_, ?_, ?_, ?_, ?_, ?_⟩ <;>
    (unfold Js.applyParam; split <;> (try simp only []) <;> (try split) <;> (try split) <;> rfl)

theorem js_fold_keeps (l : List (String × Option String)) : ∀ o : Js.Obj ℝ, KeepJ o (l.foldl Js.applyParam o) := by
  induction l with
  | nil => intro o; exact keepJ_refl _
  | cons kv t ih => intro o; exact keepJ_trans (js_applyParam_keeps o kv) (ih _)

/-! ## the tail of `DeriveConstants`: axis default and datum -/

theorem paramSame_axis (c : Model.SR ℝ) (oc : Js.Obj ℝ) (h : ParamSame c oc) (ax : String) :
    ParamSame { c with axis := ax } { oc with axis := some ax } := by
  constructor <;> first
    | exact h.name | exact h.datumCode | exact h.ellps | exact h.units | exact h.nadgrids | exact h.rf | exact h.lat0
    | exact h.lat1 | exact h.lat2 | exact h.latts | exact h.long0 | exact h.x0 | exact h.y0 | exact h.k0 | exact h.a
    | exact h.b | exact h.zone | exact h.fg | exact h.tm | exact h.dp | exact h.ra | exact h.south | exact h.kk | exact h.czech | rfl

def axG {α : Type} [RTrans α] (json : Model.SR α) : Model.SR α := if json.axis == "" then { json with axis := "enu" } else json
def axJ {α : Type} [RTrans α] (json : Js.Obj α) : Js.Obj α :=
  if json.axis.isNone || json.axis == some "" then { json with axis := some "enu" } else json
theorem go_deriveTail_split {α : Type} [RTrans α] (c : Model.SR α) : Model.deriveTail c =
    (if (axG c).datum.isNone then { axG c with datum := some (Model.getDatum (axG c)).1, datumParams := (Model.getDatum (axG c)).2 } else axG c) := by
  unfold Model.deriveTail axG
  rfl
theorem js_deriveTail_split {α : Type} [RTrans α] (c : Js.Obj α) : Js.deriveTail c =
    (if (axJ c).datum.isNone then { axJ c with datum := some (Js.mkDatum (axJ c)) } else axJ c) := by
  unfold Js.deriveTail axJ
  rfl

/-- **the tail of `DeriveConstants` = the tail of deriveConstants.js**: the axis default `enu` (absent or empty on either
side) and the datum object built once (`getDatum` = `datum.js`, `go_getDatum_eq_js`). The port's exported `DatumParams`
afterwards holds the datum's CONVERTED terms (`getDatum` converts the shared slice in place); proj4js keeps the raw
terms on the projection — the statement compares the raw ones. -/
theorem go_deriveTail_eq_js (c : Model.SR ℝ) (oc : Js.Obj ℝ) (h : ParamSame c oc)
    (hd : c.datum = none) (hod : oc.datum = none) (hes : oc.es = c.es) (hep : oc.ep2 = c.ep2)
    (hng : c.nadGrids = "") (hcode : c.datumCode ≠ "" ∨ shiftNZ c.datumParams = true) :
    ParamSame { Model.deriveTail c with datumParams := c.datumParams } (Js.deriveTail oc) ∧
    (Js.deriveTail oc).axis = some (Model.deriveTail c).axis ∧
    (∃ dg dj, (Model.deriveTail c).datum = some dg ∧ (Js.deriveTail oc).datum = some dj ∧ DatumSame dg dj) := by
  -- the axis default on both sides
  have hax : ∃ ax : String, axG c = { c with axis := ax } ∧ axJ oc = { oc with axis := some ax } := by
    have ha := h.axis
    unfold axG axJ
    by_cases hc : c.axis = ""
    · refine ⟨"enu", ?_, ?_⟩
      · simp [hc]
      · cases hoa : oc.axis with
        | none => simp
        | some a =>
          rw [hoa] at ha; simp only [Option.getD_some] at ha
          rw [ha, hc]; simp
    · refine ⟨c.axis, ?_, ?_⟩
      · have : (c.axis == "") = false := by simpa using hc
        simp [this]
      · cases hoa : oc.axis with
        | none => rw [hoa] at ha; simp only [Option.getD_none] at ha; exact absurd ha.symm hc
        | some a =>
          rw [hoa] at ha; simp only [Option.getD_some] at ha
          have h2 : (some a == some "") = false := by rw [ha]; simpa using hc
          simp only [Option.isNone_some, h2, Bool.or_self, Bool.false_eq_true, if_false]
          rw [← ha, ← hoa]
  obtain ⟨ax, e1, e2⟩ := hax
  rw [go_deriveTail_split, js_deriveTail_split, e1, e2]
  simp only [hd, hod, Option.isNone_none, if_true]
  have hp := paramSame_axis c oc h ax
  have hds := go_getDatum_eq_js { c with axis := ax } { oc with axis := some ax } hp.datumCode hp.dp hp.a hp.b hes hep hng hcode
  refine ⟨?_, by first | trivial | rfl, _, _, rfl, rfl, hds⟩
  constructor <;> first
    | exact hp.name | exact hp.datumCode | exact hp.ellps | exact hp.units | exact hp.nadgrids | exact hp.axis | exact hp.rf
    | exact hp.lat0 | exact hp.lat1 | exact hp.lat2 | exact hp.latts | exact hp.long0 | exact hp.x0 | exact hp.y0
    | exact hp.k0 | exact hp.a | exact hp.b | exact hp.zone | exact hp.fg | exact hp.tm | exact hp.dp | exact hp.ra
    | exact hp.south | exact hp.kk | exact hp.czech | rfl

/-! ## composition: what `proj.Parse` leaves for one definition = what `new Proj(def)` leaves (before `init`) -/

/-- fields the table lookups do not write (Go side) -/
def KeepT (s s' : Model.SR ℝ) : Prop :=
  KeepG s s' ∧ s'.nadGrids = s.nadGrids ∧ s'.datumCode = s.datumCode ∧ s'.k0 = s.k0
theorem keepT_refl (s : Model.SR ℝ) : KeepT s s := ⟨keepG_refl s, rfl, rfl, rfl⟩
theorem keepT_trans {a b c : Model.SR ℝ} (h1 : KeepT a b) (h2 : KeepT b c) : KeepT a c :=
  ⟨keepG_trans h1.1 h2.1, h2.2.1.trans h1.2.1, h2.2.2.1.trans h1.2.2.1, h2.2.2.2.trans h1.2.2.2⟩

theorem cpG_keeps (od : Option Dec) (u : Model.SR ℝ) (f : ℝ → Model.SR ℝ) (hf : ∀ v, KeepT u (f v)) : KeepT u (cpG od u f) := by
  unfold cpG
  split
  · split_ifs
    · exact hf _
    · exact keepT_refl u
  · exact keepT_refl u

theorem cp3G_keeps (oa ob orf : Option Dec) (u : Model.SR ℝ) :
    let j1 := cpG oa u (fun v => { u with a := some v })
    let j2 := cpG ob j1 (fun v => { j1 with b := some v })
    KeepT u (cpG orf j2 (fun v => { j2 with rf := some v })) := by
  intro j1 j2
  have k1 : KeepT u j1 := cpG_keeps oa u _ (fun v => keepT_refl u)
  have k2 : KeepT j1 j2 := cpG_keeps ob j1 _ (fun v => keepT_refl j1)
  exact keepT_trans (keepT_trans k1 k2) (cpG_keeps orf j2 _ (fun v => keepT_refl j2))

theorem deriveTables_keepsG (s : Model.SR ℝ) : KeepT s (Model.deriveTables s) := by
  rw [go_deriveTables_split]
  have h1 : KeepT s (dtDatumG s) := by
    unfold dtDatumG
    split_ifs
    · split
      · exact keepT_refl s
      · exact keepT_refl s
    · exact keepT_refl s
  have h2 : ∀ u : Model.SR ℝ, KeepT u (dtEllG u) := by
    intro u
    unfold dtEllG
    split_ifs
    · exact cp3G_keeps _ _ _ u
    · exact keepT_refl u
  exact keepT_trans h1 (h2 _)

theorem cpJ_keeps (od : Option Dec) (u : Js.Obj ℝ) (f : ℝ → Js.Obj ℝ) (hf : ∀ v, KeepJ u (f v)) : KeepJ u (cpJ od u f) := by
  unfold cpJ
  split
  · exact hf _
  · exact keepJ_refl u

theorem cp3J_keeps (oa ob orf : Option Dec) (u : Js.Obj ℝ) :
    let j1 := cpJ oa u (fun v => { u with a := some v })
    let j2 := cpJ ob j1 (fun v => { j1 with b := some v })
    KeepJ u (cpJ orf j2 (fun v => { j2 with rf := some v })) := by
  intro j1 j2
  have k1 : KeepJ u j1 := cpJ_keeps oa u _ (fun v => keepJ_refl u)
  have k2 : KeepJ j1 j2 := cpJ_keeps ob j1 _ (fun v => keepJ_refl j1)
  exact keepJ_trans (keepJ_trans k1 k2) (cpJ_keeps orf j2 _ (fun v => keepJ_refl j2))

theorem deriveTables_keepsJ (o : Js.Obj ℝ) : KeepJ o (Js.deriveTables o) := by
  rw [js_deriveTables_split]
  have h1 : KeepJ o (dtDatumJ o) := by
    unfold dtDatumJ
    split
    · split_ifs
      · split
        · exact keepJ_refl o
        · exact keepJ_refl o
      · exact keepJ_refl o
    · exact keepJ_refl o
  have h2 : ∀ u : Js.Obj ℝ, KeepJ u (dtEllJ u) := by
    intro u
    unfold dtEllJ
    split_ifs
    · exact cp3J_keeps _ _ _ u
    · exact keepJ_refl u
  exact keepJ_trans h1 (h2 _)

/-- after `projString`: the derived constants and the datum are as `NewSR()` / `{}` left them, the same on both sides -/
structure FreshRel (p : Model.SR ℝ) (o : Js.Obj ℝ) : Prop where
  sp : o.sphere = p.sphere
  a2 : o.a2 = p.a2
  b2 : o.b2 = p.b2
  es : o.es = p.es
  e : o.e = p.e
  ep2 : o.ep2 = p.ep2
  dg : p.datum = none
  dj : o.datum = none

/-- **`DeriveConstants` = deriveConstants.js as a whole** (table lookups, REGENERATED arithmetic, axis default, datum), from
`ParamSame` states: the parameters stay the same (`ParamSame`, the port's `DatumParams` read before `getDatum` converted
them in place), the derived constants `sphere a2 b2 es e ep2` are the same, and the two datum objects are `DatumSame`.
Hypotheses (all on the port's own state): `a`, and after the lookups `b`, `rf`, `k_0`, are absent or non-zero (proj4js tests
truthiness); no `+nadgrids`; a datum code is given or the shift terms are not all zero (else `pjdNoDatum` vs `PJD_WGS84`). -/
theorem go_deriveConstants_eq_js (p : Model.SR ℝ) (o : Js.Obj ℝ) (h : ParamSame p o) (hf : FreshRel p o)
    (hza : NZ p.a) (hzb : NZ (Model.deriveTables p).b) (hzrf : NZ (Model.deriveTables p).rf) (hzk : NZ p.k0)
    (hng : p.nadGrids = "") (hcode : p.datumCode ≠ "" ∨ shiftNZ (Model.deriveTables p).datumParams = true) :
    ParamSame { Model.deriveConstants p with datumParams := (Model.deriveTables p).datumParams } (Js.deriveConstants o) ∧
    ((Js.deriveConstants o).sphere = (Model.deriveConstants p).sphere ∧ (Js.deriveConstants o).a2 = (Model.deriveConstants p).a2 ∧
     (Js.deriveConstants o).b2 = (Model.deriveConstants p).b2 ∧ (Js.deriveConstants o).es = (Model.deriveConstants p).es ∧
     (Js.deriveConstants o).e = (Model.deriveConstants p).e ∧ (Js.deriveConstants o).ep2 = (Model.deriveConstants p).ep2) ∧
    (Js.deriveConstants o).axis = some (Model.deriveConstants p).axis ∧
    (∃ dg dj, (Model.deriveConstants p).datum = some dg ∧ (Js.deriveConstants o).datum = some dj ∧ DatumSame dg dj) := by
  have ht := go_deriveTables_eq_js p o h hza
  obtain ⟨⟨k1, k2, k3, k4, k5, k6, k7⟩, kn, kd, kk⟩ := deriveTables_keepsG p
  obtain ⟨j1, j2, j3, j4, j5, j6, j7⟩ := deriveTables_keepsJ o
  have hcore := go_deriveCore_eq_js (Model.deriveTables p) (Js.deriveTables o) ht.a ht.b ht.rf ht.k0 ht.ra
    (by rw [j1, k1]; exact hf.sp) (by rw [j2, k2]; exact hf.a2) (by rw [j3, k3]; exact hf.b2) (by rw [j4, k4]; exact hf.es)
    (by rw [j5, k5]; exact hf.e) (by rw [j6, k6]; exact hf.ep2) hzb hzrf (by rw [kk]; exact hzk)
  obtain ⟨c1, c2, c3, c4, c5, c6, c7, c8, c9, c10, c11⟩ := hcore
  have hc : ParamSame (Model.deriveCore (Model.deriveTables p)) (Js.deriveCore (Js.deriveTables o)) := by
    constructor <;> first
      | exact c1 | exact c2 | exact c3 | exact c4 | exact c5
      | exact ht.name | exact ht.datumCode | exact ht.ellps | exact ht.units | exact ht.nadgrids | exact ht.axis
      | exact ht.lat0 | exact ht.lat1 | exact ht.lat2 | exact ht.latts | exact ht.long0 | exact ht.x0 | exact ht.y0
      | exact ht.zone | exact ht.fg | exact ht.tm | exact ht.dp | exact ht.south | exact ht.kk | exact ht.czech
  have htail := go_deriveTail_eq_js (Model.deriveCore (Model.deriveTables p)) (Js.deriveCore (Js.deriveTables o)) hc
    (by show (Model.deriveTables p).datum = none; rw [k7]; exact hf.dg)
    (by show (Js.deriveTables o).datum = none; rw [j7]; exact hf.dj) c9 c11
    (by show (Model.deriveTables p).nadGrids = ""; rw [kn]; exact hng)
    (by
      show (Model.deriveTables p).datumCode ≠ "" ∨ shiftNZ (Model.deriveTables p).datumParams = true
      rw [kd]; exact hcode)
  obtain ⟨t1, t2, t3⟩ := htail
  refine ⟨t1, ?_, t2, t3⟩
  -- the tail leaves the derived constants alone
  have e1 : ∀ c : Model.SR ℝ, (Model.deriveTail c).sphere = c.sphere ∧ (Model.deriveTail c).a2 = c.a2 ∧ (Model.deriveTail c).b2 = c.b2 ∧
      (Model.deriveTail c).es = c.es ∧ (Model.deriveTail c).e = c.e ∧ (Model.deriveTail c).ep2 = c.ep2 := by
    intro c
    rw [go_deriveTail_split]
    unfold axG
    refine ⟨?_, ?_, ?_, ?_, ?_, ?_⟩ <;> (split_ifs <;> rfl)
  have e2 : ∀ c : Js.Obj ℝ, (Js.deriveTail c).sphere = c.sphere ∧ (Js.deriveTail c).a2 = c.a2 ∧ (Js.deriveTail c).b2 = c.b2 ∧
      (Js.deriveTail c).es = c.es ∧ (Js.deriveTail c).e = c.e ∧ (Js.deriveTail c).ep2 = c.ep2 := by
    intro c
    rw [js_deriveTail_split]
    unfold axJ
    refine ⟨?_, ?_, ?_, ?_, ?_, ?_⟩ <;> (split_ifs <;> rfl)
  obtain ⟨g1, g2, g3, g4, g5, g6⟩ := e1 (Model.deriveCore (Model.deriveTables p))
  obtain ⟨q1, q2, q3, q4, q5, q6⟩ := e2 (Js.deriveCore (Js.deriveTables o))
  unfold Model.deriveConstants Js.deriveConstants
  exact ⟨by rw [q1, g1]; exact c6, by rw [q2, g2]; exact c7, by rw [q3, g3]; exact c8, by rw [q4, g4]; exact c9,
    by rw [q5, g5]; exact c10, by rw [q6, g6]; exact c11⟩

theorem fresh_of_projString (code : String) (hw : WellFormed code) (p : Model.SR ℝ)
    (hnd : ((partsOf code).map (·.1)).Nodup) (hp : Model.projString code = .ok p) : FreshRel p (Js.projString code) := by
  rw [go_projString_unfold] at hp
  rw [js_projString_unfold code hw, dedupKV_nodup _ hnd]
  cases hf : goFold Model.newSR (((code.splitOn "+").drop 1).map kvOf) with
  | error e => simp only [hf, Except.map, reduceCtorEq] at hp
  | ok p1 =>
    simp only [hf, Except.map, Except.ok.injEq] at hp
    subst hp
    obtain ⟨k1, k2, k3, k4, k5, k6, k7⟩ := goFold_keeps _ _ _ hf
    obtain ⟨j1, j2, j3, j4, j5, j6, j7⟩ := js_fold_keeps (partsOf code) (Js.Obj.empty : Js.Obj ℝ)
    have fg : KeepG p1 (goFinish p1) := by unfold goFinish; split_ifs <;> exact keepG_refl p1
    obtain ⟨f1, f2, f3, f4, f5, f6, f7⟩ := fg
    have fj : ∀ u : Js.Obj ℝ, KeepJ u (match u.datumCode with
        | some dc => if dc ≠ "WGS84" then { u with datumCode := some dc.toLower } else u
        | none => u) := by
      intro u
      split
      · split_ifs <;> exact keepJ_refl u
      · exact keepJ_refl u
    obtain ⟨h1, h2, h3, h4, h5, h6, h7⟩ := fj (List.foldl Js.applyParam (Js.Obj.empty : Js.Obj ℝ) (partsOf code))
    constructor
    · exact (h1.trans j1).trans (Eq.trans rfl (f1.trans k1).symm)
    · exact (h2.trans j2).trans (Eq.trans rfl (f2.trans k2).symm)
    · exact (h3.trans j3).trans (Eq.trans rfl (f3.trans k3).symm)
    · exact (h4.trans j4).trans (Eq.trans rfl (f4.trans k4).symm)
    · exact (h5.trans j5).trans (Eq.trans rfl (f5.trans k5).symm)
    · exact (h6.trans j6).trans (Eq.trans rfl (f6.trans k6).symm)
    · exact (f7.trans k7).trans rfl
    · exact (h7.trans j7).trans rfl

/-- **`proj.Parse(def)` = `new Proj(def)` up to the projection's `init`, for ONE definition string** (`projString` then
`DeriveConstants` against projString.js then deriveConstants.js): for a well-formed PROJ.4 string without repeated keys
that the port's `projString` accepts, both sides end with the same parameters (`ParamSame`: name, datum code,
ellipsoid, units, `lat_0 … zone`, `x_0 y_0 k_0`, `a b rf`, `to_meter`, `from_greenwich`, `R_A`, `south`, axis), the
same derived constants (`sphere a2 b2 es e ep2`) and `DatumSame` datum objects — the non-closure components of
`PipeSame` that `go_pipeline_eq_js` assumes for each end. Hypotheses beyond `go_deriveConstants_eq_js`: `WellFormed`,
no repeated key, `PmsOK`. -/
theorem go_parse_eq_js (code : String) (hw : WellFormed code) (p : Model.SR ℝ)
    (hnd : ((partsOf code).map (·.1)).Nodup) (hpm : PmsOK (partsOf code)) (hp : Model.projString code = .ok p)
    (hza : NZ p.a) (hzb : NZ (Model.deriveTables p).b) (hzrf : NZ (Model.deriveTables p).rf) (hzk : NZ p.k0)
    (hng : p.nadGrids = "") (hcode : p.datumCode ≠ "" ∨ shiftNZ (Model.deriveTables p).datumParams = true) :
    ParamSame { Model.deriveConstants p with datumParams := (Model.deriveTables p).datumParams }
      (Js.deriveConstants (Js.projString (α := ℝ) code)) ∧
    ((Js.deriveConstants (Js.projString (α := ℝ) code)).sphere = (Model.deriveConstants p).sphere ∧
     (Js.deriveConstants (Js.projString (α := ℝ) code)).a2 = (Model.deriveConstants p).a2 ∧
     (Js.deriveConstants (Js.projString (α := ℝ) code)).b2 = (Model.deriveConstants p).b2 ∧
     (Js.deriveConstants (Js.projString (α := ℝ) code)).es = (Model.deriveConstants p).es ∧
     (Js.deriveConstants (Js.projString (α := ℝ) code)).e = (Model.deriveConstants p).e ∧
     (Js.deriveConstants (Js.projString (α := ℝ) code)).ep2 = (Model.deriveConstants p).ep2) ∧
    (Js.deriveConstants (Js.projString (α := ℝ) code)).axis = some (Model.deriveConstants p).axis ∧
    (∃ dg dj, (Model.deriveConstants p).datum = some dg ∧ (Js.deriveConstants (Js.projString (α := ℝ) code)).datum = some dj ∧
      DatumSame dg dj) :=
  go_deriveConstants_eq_js p _ (go_projString_eq_js code hw p hnd hpm hp) (fresh_of_projString code hw p hnd hp)
    hza hzb hzrf hzk hng hcode

/-- non-vacuity of the datum hypothesis and of `NZ`: a named datum; `+towgs84=598.1,73.7,418.2` -/
example : ("potsdam" : String) ≠ "" ∧ shiftNZ ([5981/10, 737/10, 4182/10] : List ℝ) = true ∧ NZ (some (6377397.155 : ℝ)) ∧
    NZ (none : Option ℝ) := by
  refine ⟨by decide, ?_, ?_, ?_⟩
  · simp only [shiftNZ, Model.listGet, List.getElem?_cons_zero, Option.getD_some]; rnum; norm_num
  · unfold NZ; norm_num
  · unfold NZ; simp

/-- **a parsed definition satisfies `Same`**, the hypothesis of the eight constructor theorems (`go_init_<p>_eq_js`,
`go_<p>_fwd/inv_eq_js'`): for ONE well-formed definition string without repeated keys that the port accepts, the `*SR`
that `proj.Parse` returns and the object `new Proj(def)` holds before `init` carry the same parameters — so
"constructor + closure = init + method" holds for PARSED definitions, not only for abstract `Same` pairs. -/
theorem same_of_parse (code : String) (hw : WellFormed code) (p : Model.SR ℝ)
    (hnd : ((partsOf code).map (·.1)).Nodup) (hpm : PmsOK (partsOf code)) (hp : Model.projString code = .ok p)
    (hza : NZ p.a) (hzb : NZ (Model.deriveTables p).b) (hzrf : NZ (Model.deriveTables p).rf) (hzk : NZ p.k0)
    (hng : p.nadGrids = "") (hcode : p.datumCode ≠ "" ∨ shiftNZ (Model.deriveTables p).datumParams = true) :
    Same (Model.deriveConstants p) (Js.deriveConstants (Js.projString (α := ℝ) code)) := by
  obtain ⟨P, ⟨sp, _, _, es, e, ep2⟩, _, _⟩ := go_parse_eq_js code hw p hnd hpm hp hza hzb hzrf hzk hng hcode
  exact ⟨P.a, P.b, P.lat0, P.lat1, P.lat2, P.latts, P.long0, P.x0, P.y0, P.k0, P.kk, P.zone, sp, P.czech, P.south, es, e, ep2⟩

/-- … for example Mercator: constructor + forward closure of the PARSED `*SR` = `init` + `forward` of the parsed proj4js
object (composition of `same_of_parse` with `go_merc_fwd_eq_js'`; the other seven projections compose the same way) -/
theorem go_merc_fwd_parsed_eq_js (code : String) (hw : WellFormed code) (p : Model.SR ℝ)
    (hnd : ((partsOf code).map (·.1)).Nodup) (hpm : PmsOK (partsOf code)) (hp : Model.projString code = .ok p)
    (hza : NZ p.a) (hzb : NZ (Model.deriveTables p).b) (hzrf : NZ (Model.deriveTables p).rf) (hzk : NZ p.k0)
    (hng : p.nadGrids = "") (hcode : p.datumCode ≠ "" ∨ shiftNZ (Model.deriveTables p).datumParams = true)
    (hl : Model.gNaN (Model.deriveConstants p).long0 = false) (hts : NZ (Model.deriveConstants p).latTS)
    (hk0 : NZ (Model.deriveConstants p).k0) (hk : NZ (Model.deriveConstants p).k)
    (lon lat : ℝ) (z : Option ℝ)
    (h90 : ¬ (90 < lat * 57.29577951308232088)) (hm90 : ¬ (lat * 57.29577951308232088 < -90)) :
    okOf (Model.mercInit (Model.deriveConstants p) >>= fun sc => Model.mercFwd sc.1 sc.2 lon lat) =
      xyOf (Js.mercForward (Js.mercInit (Js.deriveConstants (Js.projString (α := ℝ) code))) ⟨lon, lat, z⟩) :=
  go_merc_fwd_eq_js' _ _ (same_of_parse code hw p hnd hpm hp hza hzb hzrf hzk hng hcode) hl hts hk0 hk lon lat z h90 hm90

end GeomV.C09
