/-
Number classes for the `proj` models of C09 (core Lean only, no Mathlib).

One definition, two instances: every model/spec function of C09 is written once, generic over
`[RTrans α]`; the `Float` instance (here) makes it executable for the correspondence run, the `ℝ`
instance (in `Lemmas.lean`, Mathlib) is what the theorems are about.  Decimal literals are kept
exact: `0.25 : α` elaborates to `RNum.ofSci 25 true 2`, which is the correctly rounded double on
`Float` and the exact rational on `ℝ`.
-/
namespace GeomV.C09

class RNum (α : Type) extends Add α, Sub α, Mul α, Div α, Neg α where
  ofNat : Nat → α
  ofSci : Nat → Bool → Nat → α
  lt : α → α → Bool
  le : α → α → Bool
  /-- IEEE `==` (false on NaN) -/
  eq : α → α → Bool
  abs : α → α
  /-- the value Go/JS arithmetic produces from an unset (`NaN`/`undefined`) operand; `0` on `ℝ`
  (theorems never depend on it: they assume the operands they use are set) -/
  nan : α

instance (priority := low) {α : Type} [RNum α] {n : Nat} : OfNat α n := ⟨RNum.ofNat n⟩
instance (priority := low) {α : Type} [RNum α] : OfScientific α := ⟨RNum.ofSci⟩

class RTrans (α : Type) extends RNum α where
  pi : α
  sqrt : α → α
  sin : α → α
  cos : α → α
  tan : α → α
  asin : α → α
  acos : α → α
  atan : α → α
  exp : α → α
  log : α → α
  atan2 : α → α → α
  pow : α → α → α

instance : RTrans Float where
  ofNat := Float.ofNat
  ofSci := Float.ofScientific
  lt a b := a < b
  le a b := a ≤ b
  eq a b := a == b
  abs := Float.abs
  nan := 0.0 / 0.0
  pi := 3.141592653589793
  sqrt := Float.sqrt
  sin := Float.sin
  cos := Float.cos
  tan := Float.tan
  asin := Float.asin
  acos := Float.acos
  atan := Float.atan
  exp := Float.exp
  log := Float.log
  atan2 := Float.atan2
  pow := Float.pow

namespace RNum
variable {α : Type} [RNum α]
/-- `a > b` as Go/JS evaluate it -/
@[inline] def gt (a b : α) : Bool := lt b a
@[inline] def ge (a b : α) : Bool := le b a
/-- `a != b` (true on NaN) -/
@[inline] def ne (a b : α) : Bool := !(eq a b)
@[inline] def isNaN (a : α) : Bool := !(eq a a)
/-- JavaScript truthiness of a number: not `0`, not `NaN` -/
@[inline] def truthy (a : α) : Bool := eq a a && !(eq a 0)
end RNum

export RNum (lt le eq abs nan gt ge ne isNaN truthy)
export RTrans (pi sqrt sin cos tan asin acos atan exp log atan2 pow)

/-! ## Decimal text -> number (the contract of `strconv.ParseFloat` / JS `parseFloat`/`Number` on
plain decimal text: the correctly rounded double; on `ℝ` the exact decimal) -/

structure DecText where
  neg : Bool
  mant : Nat
  /-- number of decimals after folding the exponent: value = mant * 10^(-dec) if `decNeg` else mant * 10^dec -/
  decNeg : Bool
  dec : Nat
deriving Repr, DecidableEq

private def digitsVal (cs : List Char) : Option Nat :=
  if cs.isEmpty then none else
  cs.foldl (fun acc c => do
    let a ← acc
    if '0' ≤ c ∧ c ≤ '9' then some (a * 10 + (c.toNat - '0'.toNat)) else none) (some 0)

/-- `[+-]digits[.digits][(e|E)[+-]digits]`, nothing else (no hex, no inf/nan, no blanks) -/
def parseDecText (s : String) : Option DecText :=
  let cs := s.toList
  let (neg, cs) := match cs with
    | '-' :: r => (true, r)
    | '+' :: r => (false, r)
    | r => (false, r)
  let mantCs := cs.takeWhile (fun c => c ≠ 'e' ∧ c ≠ 'E')
  let expCs := (cs.drop mantCs.length).drop 1
  let hasExp := cs.length > mantCs.length
  let ip := mantCs.takeWhile (· ≠ '.')
  let fp := (mantCs.drop ip.length).drop 1
  if ip.isEmpty ∧ fp.isEmpty then none else
  match digitsVal (if ip.isEmpty then ['0'] else ip), (if fp.isEmpty then some 0 else digitsVal fp) with
  | some i, some f =>
    let mant := i * 10 ^ fp.length + f
    let e : Option Int :=
      if !hasExp then some 0 else
      match expCs with
      | '-' :: r => (digitsVal r).map (fun n => -(Int.ofNat n))
      | '+' :: r => (digitsVal r).map Int.ofNat
      | r => (digitsVal r).map Int.ofNat
    match e with
    | none => none
    | some e =>
      let d : Int := Int.ofNat fp.length - e
      if d ≥ 0 then some ⟨neg, mant, true, d.toNat⟩ else some ⟨neg, mant, false, (-d).toNat⟩
  | _, _ => none

def DecText.toNum {α : Type} [RNum α] (d : DecText) : α :=
  let m : α := if d.decNeg then RNum.ofSci d.mant true d.dec else RNum.ofSci d.mant false d.dec
  if d.neg then -m else m

/-- number of a decimal text, `none` when it is not plain decimal text -/
def parseNum {α : Type} [RNum α] (s : String) : Option α := (parseDecText s).map DecText.toNum

/-- Float bits <-> hex text for the line protocol live in `GeomV.Common`; here only rendering -/
def splitOnStr (s : String) (sep : String) : List String := s.splitOn sep

end GeomV.C09
