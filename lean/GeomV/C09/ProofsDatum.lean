import GeomV.C09.ProofsProj
/-!
C09, phase 2: `go_datum_eq_js` — datum.go / datum_transform.go against datum.js / datum_transform.js
over ℝ: the two closed-form conversions, the Hannover iteration round for round, the 3- and
7-parameter shifts, `compare_datums`, and the whole `datum_transform` decision chain.
-/
open GeomV.C09
namespace GeomV.C09
set_option linter.unusedSimpArgs false
set_option linter.unusedVariables false
set_option linter.unusedTactic false
set_option linter.unreachableTactic false
set_option maxRecDepth 4000

/-- the Go `datum` and the proj4js `datum` object hold the same numbers -/
structure DatumSame (dm : Model.Datum ℝ) (dj : Js.Datum ℝ) : Prop where
  ty : dj.datum_type = dm.datum_type
  ps : dj.datum_params.getD [] = dm.datum_params
  a : dj.a = dm.a
  b : dj.b = dm.b
  es : dj.es = dm.es
  ep2 : dj.ep2 = dm.ep2

/-- (x, y, z) of a proj4js point result; an absent `z` reads as the class's `nan` (0 on ℝ) -/
noncomputable def xyzOf (r : Except String (Js.P ℝ)) : Option (ℝ × ℝ × ℝ) :=
  match r with | .ok p => some (p.x, p.y, Js.num p.z) | .error _ => none
def xyz3 (r : Except String (Model.P3 ℝ)) : Option (ℝ × ℝ × ℝ) :=
  match r with | .ok p => some (p.x, p.y, p.z) | .error _ => none

theorem one_lit : (1.0e0 : ℝ) = 1 := by norm_num

theorem zOr0_some (x y z : ℝ) : Js.zOr0 (⟨x, y, some z⟩ : Js.P ℝ) = z := by
  unfold Js.zOr0
  rnum
  by_cases h : z = 0 <;> simp [h]

theorem dpar_same {dm : Model.Datum ℝ} {dj : Js.Datum ℝ} (h : DatumSame dm dj) (i : ℕ) : Js.dpar dj i = Model.dpar dm i := by
  unfold Js.dpar Model.dpar Js.listGet Model.listGet
  rw [h.ps]

/-- `geodetic_to_geocentric`: same range handling, same closed form -/
theorem go_geodetic_to_geocentric_eq_js (dm : Model.Datum ℝ) (dj : Js.Datum ℝ) (h : DatumSame dm dj) (lon lat ht : ℝ) :
    xyz3 (Model.geodetic_to_geocentric dm lon lat ht) = xyzOf (Js.geodetic_to_geocentric dj ⟨lon, lat, some ht⟩) := by
  unfold Model.geodetic_to_geocentric Gen.Go.datum_geodetic_to_geocentric Js.geodetic_to_geocentric Js.HALF_PI xyz3 xyzOf
  simp only [zOr0_some, h.a, h.es]
  rnum
  simp only [one_lit]
  split_ifs <;> rfl

theorem go_geodeticLoop_eq_js (a es P Z ST CT : ℝ) (n : ℕ) (c0 s0 : ℝ) :
    ((Js.geodeticLoop a es P Z ST CT n c0 s0).CPHI, (Js.geodeticLoop a es P Z ST CT n c0 s0).SPHI,
      (Js.geodeticLoop a es P Z ST CT n c0 s0).Height) =
    ((Model.geodeticLoop a es P Z ST CT n c0 s0).CPHI, (Model.geodeticLoop a es P Z ST CT n c0 s0).SPHI,
      (Model.geodeticLoop a es P Z ST CT n c0 s0).Height) := by
  induction n generalizing c0 s0 with
  | zero => rfl
  | succ n ih =>
    unfold Js.geodeticLoop Model.geodeticLoop
    rnum
    split_ifs
    · exact ih _ _
    · rfl

/-- `geocentric_to_geodetic`: the Hannover iteration round for round (30 rounds, same stop test);
at the earth's centre the port answers (0, π/2, −b) where proj4js returns `undefined` -/
theorem go_geocentric_to_geodetic_eq_js (dm : Model.Datum ℝ) (dj : Js.Datum ℝ) (h : DatumSame dm dj) (X Y Z : ℝ)
    (hcentre : ¬ (Real.sqrt (X * X + Y * Y) / dm.a < 1e-12 ∧ Real.sqrt (X * X + Y * Y + Z * Z) / dm.a < 1e-12)) :
    xyzOf (Js.geocentric_to_geodetic dj ⟨X, Y, some Z⟩) =
      some ((Model.geocentric_to_geodetic dm X Y Z).x, (Model.geocentric_to_geodetic dm X Y Z).y,
            (Model.geocentric_to_geodetic dm X Y Z).z) := by
  have hl := go_geodeticLoop_eq_js
  unfold Model.geocentric_to_geodetic Js.geocentric_to_geodetic xyzOf
  simp only [zOr0_some, h.a, h.es]
  rnum
  simp only [Bool.and_eq_true, decide_eq_true_eq, hcentre, if_false, ite_false]
  simp only [Prod.mk.injEq] at hl
  rw [(hl _ _ _ _ _ _ _ _ _).1, (hl _ _ _ _ _ _ _ _ _).2.1, (hl _ _ _ _ _ _ _ _ _).2.2]
  rfl

/-- `geocentric_to_wgs84`, 3 and 7 parameters (and the identity otherwise) -/
theorem go_geocentric_to_wgs84_eq_js (dm : Model.Datum ℝ) (dj : Js.Datum ℝ) (h : DatumSame dm dj) (x y z : ℝ) :
    (let p := Js.geocentric_to_wgs84 dj ⟨x, y, some z⟩; (p.x, p.y, Js.num p.z)) =
    (let q := Model.geocentric_to_wgs84 dm ⟨x, y, z⟩; (q.x, q.y, q.z)) := by
  unfold Js.geocentric_to_wgs84 Model.geocentric_to_wgs84 Gen.Go.datum_geocentric_to_wgs84 Js.PJD_3PARAM Js.PJD_7PARAM
  simp only [h.ty, dpar_same h, Js.num, Option.getD_some]
  split_ifs <;> rfl

/-- `geocentric_from_wgs84`, 3 and 7 parameters -/
theorem go_geocentric_from_wgs84_eq_js (dm : Model.Datum ℝ) (dj : Js.Datum ℝ) (h : DatumSame dm dj) (x y z : ℝ) :
    (let p := Js.geocentric_from_wgs84 dj ⟨x, y, some z⟩; (p.x, p.y, Js.num p.z)) =
    (let q := Model.geocentric_from_wgs84 dm ⟨x, y, z⟩; (q.x, q.y, q.z)) := by
  unfold Js.geocentric_from_wgs84 Model.geocentric_from_wgs84 Gen.Go.datum_geocentric_from_wgs84 Js.PJD_3PARAM Js.PJD_7PARAM
  simp only [h.ty, dpar_same h, Js.num, Option.getD_some]
  split_ifs <;> rfl

/-- `compare_datums` (Go side REGENERATED: `Gen.Go.datum_compare_datums`). For grid-shift datums the
port compares the `nadGrids` strings, proj4js two `undefined`s: the same answer when the strings agree -/
theorem go_compare_datums_eq_js (d1 d2 : Model.Datum ℝ) (j1 j2 : Js.Datum ℝ) (h1 : DatumSame d1 j1) (h2 : DatumSame d2 j2)
    (hg : (d1.datum_type == 3 || d2.datum_type == 3) = true → d1.nadGrids = d2.nadGrids) :
    Js.compare_datums j1 j2 = Model.compare_datums d1 d2 := by
  unfold Js.compare_datums Model.compare_datums Gen.Go.datum_compare_datums Js.PJD_3PARAM Js.PJD_7PARAM
  simp only [h1.ty, h2.ty, h1.a, h2.a, h1.es, h2.es, dpar_same h1, dpar_same h2]
  rnum
  simp only [show (0.000000000050 : ℝ) = 0.00000000005 by norm_num]
  by_cases hc : (d1.datum_type == 3 || d2.datum_type == 3) = true
  · simp only [hc, hg hc, if_true, ite_true, beq_self_eq_true]
  · simp only [hc, Bool.false_eq_true, if_false, ite_false]

/-- `checkDatumParams` (REGENERATED) = `checkParams` of datum_transform.js -/
theorem go_checkDatumParams_eq_js (t : Nat) : Js.checkParams t = Model.checkDatumParams (α := ℝ) t := by
  unfold Js.checkParams Model.checkDatumParams Gen.Go.datum_checkDatumParams Js.PJD_3PARAM Js.PJD_7PARAM
  rfl

/-- ok-form of `go_geodetic_to_geocentric_eq_js`: the proj4js result has a defined `z` and the port
returns the same three numbers; a proj4js failure (latitude out of range) is a failure of the port -/
theorem g2g_ok (dm : Model.Datum ℝ) (dj : Js.Datum ℝ) (h : DatumSame dm dj) (lon lat ht : ℝ) :
    (∀ p, Js.geodetic_to_geocentric dj ⟨lon, lat, some ht⟩ = .ok p →
      ∃ Z, p = ⟨p.x, p.y, some Z⟩ ∧ Model.geodetic_to_geocentric dm lon lat ht = .ok ⟨p.x, p.y, Z⟩) ∧
    (∀ e, Js.geodetic_to_geocentric dj ⟨lon, lat, some ht⟩ = .error e →
      ∃ e', Model.geodetic_to_geocentric dm lon lat ht = .error e') := by
  unfold Model.geodetic_to_geocentric Gen.Go.datum_geodetic_to_geocentric Js.geodetic_to_geocentric Js.HALF_PI
  simp only [zOr0_some, h.a, h.es]
  rnum
  simp only [one_lit]
  constructor
  · intro p hp
    split_ifs at hp ⊢ <;> first
      | (cases hp; exact ⟨_, rfl, rfl⟩)
      | (cases hp)
  · intro e he
    split_ifs at he ⊢ <;> first
      | exact ⟨_, rfl⟩
      | (cases he)

theorem wgs_some (dj : Js.Datum ℝ) (x y z : ℝ) :
    ∃ Z, Js.geocentric_to_wgs84 dj ⟨x, y, some z⟩ = ⟨(Js.geocentric_to_wgs84 dj ⟨x, y, some z⟩).x, (Js.geocentric_to_wgs84 dj ⟨x, y, some z⟩).y, some Z⟩ := by
  unfold Js.geocentric_to_wgs84
  split_ifs <;> exact ⟨_, rfl⟩

theorem fromwgs_some (dj : Js.Datum ℝ) (x y z : ℝ) :
    ∃ Z, Js.geocentric_from_wgs84 dj ⟨x, y, some z⟩ = ⟨(Js.geocentric_from_wgs84 dj ⟨x, y, some z⟩).x, (Js.geocentric_from_wgs84 dj ⟨x, y, some z⟩).y, some Z⟩ := by
  unfold Js.geocentric_from_wgs84
  split_ifs <;> exact ⟨_, rfl⟩

theorem g2geod_ok (dm : Model.Datum ℝ) (dj : Js.Datum ℝ) (h : DatumSame dm dj) (X Y Z : ℝ) (p : Js.P ℝ)
    (hp : Js.geocentric_to_geodetic dj ⟨X, Y, some Z⟩ = .ok p) :
    (p.x, p.y, Js.num p.z) = ((Model.geocentric_to_geodetic dm X Y Z).x, (Model.geocentric_to_geodetic dm X Y Z).y,
      (Model.geocentric_to_geodetic dm X Y Z).z) := by
  by_cases hcentre : (Real.sqrt (X * X + Y * Y) / dm.a < 1e-12 ∧ Real.sqrt (X * X + Y * Y + Z * Z) / dm.a < 1e-12)
  · exfalso
    unfold Js.geocentric_to_geodetic at hp
    simp only [zOr0_some, h.a] at hp
    rnum at hp
    simp only [Bool.and_eq_true, decide_eq_true_eq, hcentre, and_self, if_true, ite_true] at hp
    cases hp
  · have := go_geocentric_to_geodetic_eq_js dm dj h X Y Z hcentre
    rw [hp] at this
    simpa [xyzOf] using this
/-- a proj4js point read as the port's (x, y, z) -/
noncomputable def toP3 (p : Js.P ℝ) : Model.P3 ℝ := ⟨p.x, p.y, Js.num p.z⟩
def IsDef (p : Js.P ℝ) : Prop := ∃ Z, p.z = some Z

theorem L_g2g (dm : Model.Datum ℝ) (dj : Js.Datum ℝ) (h : DatumSame dm dj) (x y z : ℝ) (q : Js.P ℝ)
    (hq : Js.geodetic_to_geocentric dj ⟨x, y, some z⟩ = .ok q) :
    IsDef q ∧ Model.geodetic_to_geocentric dm x y z = .ok (toP3 q) := by
  obtain ⟨Z, hz, hm⟩ := (g2g_ok dm dj h x y z).1 q hq
  refine ⟨⟨Z, by rw [hz]⟩, ?_⟩
  rw [hm]; unfold toP3; rw [hz]; rfl

theorem L_to (dm : Model.Datum ℝ) (dj : Js.Datum ℝ) (h : DatumSame dm dj) (p : Js.P ℝ) (hd : IsDef p) :
    IsDef (Js.geocentric_to_wgs84 dj p) ∧ toP3 (Js.geocentric_to_wgs84 dj p) = Model.geocentric_to_wgs84 dm (toP3 p) := by
  obtain ⟨Z, hz⟩ := hd
  obtain ⟨px, py, pz⟩ := p
  simp only at hz; subst hz
  obtain ⟨Z', hZ'⟩ := wgs_some dj px py Z
  refine ⟨⟨Z', by rw [hZ']⟩, ?_⟩
  have := go_geocentric_to_wgs84_eq_js dm dj h px py Z
  simp only [Prod.mk.injEq] at this
  unfold toP3
  simp only [Js.num, Option.getD_some] at this ⊢
  rw [this.1, this.2.1, this.2.2]

theorem L_from (dm : Model.Datum ℝ) (dj : Js.Datum ℝ) (h : DatumSame dm dj) (p : Js.P ℝ) (hd : IsDef p) :
    IsDef (Js.geocentric_from_wgs84 dj p) ∧ toP3 (Js.geocentric_from_wgs84 dj p) = Model.geocentric_from_wgs84 dm (toP3 p) := by
  obtain ⟨Z, hz⟩ := hd
  obtain ⟨px, py, pz⟩ := p
  simp only at hz; subst hz
  obtain ⟨Z', hZ'⟩ := fromwgs_some dj px py Z
  refine ⟨⟨Z', by rw [hZ']⟩, ?_⟩
  have := go_geocentric_from_wgs84_eq_js dm dj h px py Z
  simp only [Prod.mk.injEq] at this
  unfold toP3
  simp only [Js.num, Option.getD_some] at this ⊢
  rw [this.1, this.2.1, this.2.2]

theorem L_geod (dm : Model.Datum ℝ) (dj : Js.Datum ℝ) (h : DatumSame dm dj) (p r : Js.P ℝ) (hd : IsDef p)
    (hr : Js.geocentric_to_geodetic dj p = .ok r) :
    toP3 r = Model.geocentric_to_geodetic dm (toP3 p).x (toP3 p).y (toP3 p).z := by
  obtain ⟨Z, hz⟩ := hd
  obtain ⟨px, py, pz⟩ := p
  simp only at hz; subst hz
  have := g2geod_ok dm dj h px py Z r hr
  simp only [Prod.mk.injEq] at this
  unfold toP3
  simp only [Js.num, Option.getD_some] at this ⊢
  rw [this.1, this.2.1, this.2.2]

/-- the geocentric route of `datum_transform`, for either choice of the two parameter tests -/
theorem chain_eq (d1 d2 : Model.Datum ℝ) (j1 j2 : Js.Datum ℝ) (h1 : DatumSame d1 j1) (h2 : DatumSame d2 j2)
    (b1 b2 : Bool) (x y z : ℝ) (p : Js.P ℝ)
    (hp : (Js.geodetic_to_geocentric j1 ⟨x, y, some z⟩ >>= fun q =>
            Js.geocentric_to_geodetic j2
              (let q := if b1 then Js.geocentric_to_wgs84 j1 q else q
               if b2 then Js.geocentric_from_wgs84 j2 q else q)) = .ok p) :
    (Model.geodetic_to_geocentric d1 x y z >>= fun g =>
        let g := if b1 then Model.geocentric_to_wgs84 d1 g else g
        let g := if b2 then Model.geocentric_from_wgs84 d2 g else g
        (pure (Model.geocentric_to_geodetic d2 g.x g.y g.z) : Except String (Model.P3 ℝ))) = .ok (toP3 p) := by
  simp only [bind, Except.bind, pure, Except.pure] at hp ⊢
  cases hq : Js.geodetic_to_geocentric j1 ⟨x, y, some z⟩ with
  | error e => rw [hq] at hp; cases hp
  | ok q =>
    rw [hq] at hp
    obtain ⟨hdq, hm⟩ := L_g2g d1 j1 h1 x y z q hq
    rw [hm]
    simp only [] at hp ⊢
    cases b1 <;> cases b2 <;> simp only [Bool.false_eq_true, if_false, if_true, ite_false, ite_true] at hp ⊢
    · rw [L_geod d2 j2 h2 q p hdq hp]
    · obtain ⟨hd', he'⟩ := L_from d2 j2 h2 q hdq
      rw [L_geod d2 j2 h2 _ p hd' hp, he']
    · obtain ⟨hd', he'⟩ := L_to d1 j1 h1 q hdq
      rw [L_geod d2 j2 h2 _ p hd' hp, he']
    · obtain ⟨hd', he'⟩ := L_to d1 j1 h1 q hdq
      obtain ⟨hd'', he''⟩ := L_from d2 j2 h2 _ hd'
      rw [L_geod d2 j2 h2 _ p hd'' hp, he'', he']


/-- **`datum_transform`** (no grid shifts): whenever proj4js' `datum_transform` returns a point, the
port's `datumTransform` returns the same longitude, latitude and height — identical datums, the
`datum=none` shortcut, the ellipsoid change without parameters, 3- and 7-parameter shifts in either
or both directions, round for round through the Hannover iteration. -/
theorem go_datum_eq_js (d1 d2 : Model.Datum ℝ) (j1 j2 : Js.Datum ℝ) (h1 : DatumSame d1 j1) (h2 : DatumSame d2 j2)
    (x y z : ℝ) (hg1 : d1.datum_type ≠ 3) (hg2 : d2.datum_type ≠ 3) (p : Js.P ℝ)
    (hp : Js.datum_transform j1 j2 ⟨x, y, some z⟩ = .ok p) :
    Model.datumTransform d1 d2 ⟨x, y, z⟩ = .ok (toP3 p) := by
  have e1 : (d1.datum_type == 3) = false := by simpa using hg1
  have e2 : (d2.datum_type == 3) = false := by simpa using hg2
  unfold Js.datum_transform at hp
  unfold Model.datumTransform
  rw [go_compare_datums_eq_js d1 d2 j1 j2 h1 h2 (fun h => by simp [e1, e2] at h)] at hp
  simp only [h1.ty, h2.ty, h1.a, h2.a, h1.es, h2.es, Js.PJD_NODATUM, Js.PJD_GRIDSHIFT, Js.checkParams, Js.PJD_3PARAM,
    Js.PJD_7PARAM] at hp
  simp only [Model.pjdNoDatum, Model.pjdGridShift, Model.checkDatumParams, Gen.Go.datum_checkDatumParams, Model.pjd3Param, Model.pjd7Param]
  simp only [e1, e2, Bool.false_eq_true, if_false, ite_false, Bool.or_self] at hp ⊢
  by_cases hc : Model.compare_datums d1 d2 = true
  · simp only [hc, if_true, ite_true] at hp ⊢
    cases hp; rfl
  · simp only [hc, Bool.false_eq_true, if_false, ite_false] at hp ⊢
    by_cases hn : (d1.datum_type == 5 || d2.datum_type == 5) = true
    · simp only [hn, if_true, ite_true] at hp ⊢
      cases hp; rfl
    · simp only [hn, Bool.false_eq_true, if_false, ite_false] at hp ⊢
      generalize hcond : (ne d1.es d2.es || ne d1.a d2.a || (d1.datum_type == 1 || d1.datum_type == 2) ||
        (d2.datum_type == 1 || d2.datum_type == 2)) = cnd at hp ⊢
      cases cnd
      · simp only [Bool.false_eq_true, if_false, ite_false] at hp ⊢
        cases hp; rfl
      · simp only [if_true, ite_true] at hp ⊢
        have := chain_eq d1 d2 j1 j2 h1 h2 (d1.datum_type == 1 || d1.datum_type == 2) (d2.datum_type == 1 || d2.datum_type == 2) x y z p hp
        simp only [bind, Except.bind, pure, Except.pure] at this ⊢
        cases hm : Model.geodetic_to_geocentric d1 x y z with
        | error e => rw [hm] at this; cases this
        | ok g => rw [hm] at this; simpa using this
end GeomV.C09
