import GeomV.C09.Num
/-!
Row types of the four constant tables (ellipsoids, datums, prime meridians, units).  The data
(`Gen/Tables.lean`) is regenerated from the Go source and from the vendored proj4js JavaScript on
every check run; numbers are exact: `⟨num, den, exp10⟩` stands for `num / (den * 10^exp10)`;
finite decimals have `den = 1` and no trailing zero, other rationals are reduced with `exp10 = 0`.
-/
namespace GeomV.C09

structure Dec where
  num : Int
  den : Nat
  exp10 : Nat
deriving DecidableEq, Repr, Inhabited

/-- value of an exact table number in a number class (correctly rounded double on `Float`) -/
def Dec.toNum {α : Type} [RNum α] (d : Dec) : α :=
  let m : α := RNum.ofSci d.num.natAbs true d.exp10
  let m := if d.den = 1 then m else m / RNum.ofNat d.den
  if d.num < 0 then -m else m

structure EllRow where
  key : String
  a : Option Dec
  b : Option Dec
  rf : Option Dec
  name : String
deriving DecidableEq, Repr, Inhabited

structure DatumRow where
  key : String
  towgs84 : List Dec
  nadgrids : List String
  ellipse : String
  datumName : String
deriving DecidableEq, Repr, Inhabited

structure NumRow where
  key : String
  val : Dec
deriving DecidableEq, Repr, Inhabited

def lookupEll (t : List EllRow) (k : String) : Option EllRow := t.find? (·.key == k)
def lookupDatum (t : List DatumRow) (k : String) : Option DatumRow := t.find? (·.key == k)
def lookupNum (t : List NumRow) (k : String) : Option Dec := (t.find? (·.key == k)).map (·.val)

end GeomV.C09
