import GeomV.C09.ProofsPipeline
/-!
C09: the constructors. The Go side is the REGENERATED constructor body `Gen.Go.<Ctor>_init` (through
the plumbing `Model.<p>Init`), the proj4js side the `init` of `lib/projections/<p>.js` (`Js.<p>Init`).
`go_init_<p>_eq_js`: for parameters that mean the same on both sides (`Same`: a field is set on one
side iff on the other, to the same number) the Go constructor succeeds and the constants its closures
capture, and the fields it leaves in `*SR`, equal what the proj4js `init` leaves in the object.
Composed with the closure identities: `go_<p>_fwd_eq_js'` / `go_<p>_inv_eq_js'` WITHOUT the "given
equal captured constants" hypothesis.

Where the two constructors treat a parameter differently the hypothesis says so:
* a parameter VALUE 0 is "absent" for proj4js where it tests truthiness (`lat_ts`, `k0`, `k`, `lat2`,
  `x0`/`y0` in lcc, `lat0`/`long0`/`k0` in krovak) and present for the port (`math.IsNaN`);
* proj4js' merc has no default for `long0`;
* merc.js/lcc.js recompute e from a and b, the port's closures read the `E` of `DeriveConstants`:
  equal when `E = √(1 − (b/a)²)` (lemma `es_forms`: that is what `DeriveConstants` computes, a ≠ 0).
-/
open GeomV.C09
namespace GeomV.C09
set_option linter.unusedSimpArgs false
set_option linter.unusedVariables false
set_option linter.unusedTactic false
set_option linter.unreachableTactic false
set_option maxRecDepth 8000

/-- the Go `*SR` and the proj4js object carry the same parameters: a field is set on one side iff it
is set on the other (Go: not NaN; proj4js: the property exists), to the same number -/
structure Same (s : Model.SR ℝ) (o : Js.Obj ℝ) : Prop where
  a : o.a = s.a
  b : o.b = s.b
  lat0 : o.lat0 = s.lat0
  lat1 : o.lat1 = s.lat1
  lat2 : o.lat2 = s.lat2
  latts : o.lat_ts = s.latTS
  long0 : o.long0 = s.long0
  x0 : o.x0 = s.x0
  y0 : o.y0 = s.y0
  k0 : o.k0 = s.k0
  k : o.k = s.k
  zone : o.zone = s.zone
  sphere : o.sphere = s.sphere
  czech : o.czech = s.czech
  south : o.utmSouth = s.utmSouth
  es : o.es = s.es
  e : o.e = s.e
  ep2 : o.ep2 = s.ep2

theorem num_eq {a b : Option ℝ} (h : a = b) : Js.num a = Model.gnum b := by
  subst h; rfl
theorem gNaN_some (v : ℝ) : Model.gNaN (some v) = false := by
  unfold Model.gNaN; rnum
theorem gNaN_none : Model.gNaN (none : Option ℝ) = true := rfl
theorem gnum_some (v : ℝ) : Model.gnum (some v) = v := rfl
theorem num_some (v : ℝ) : Js.num (some v) = v := rfl
theorem truthyO_some (v : ℝ) : Js.truthyO (some v) = !decide (v = 0) := by
  unfold Js.truthyO; rnum
theorem truthyO_none : Js.truthyO (none : Option ℝ) = false := rfl

/-- e² as `deriveConstants` computes it and as merc.js / lcc.js recompute it -/
theorem es_forms (a b : ℝ) (ha : a ≠ 0) : (a * a - b * b) / (a * a) = 1 - b / a * (b / a) := by
  field_simp

/-! ## transverse Mercator / UTM -/

/-- `TMerc` constructor = tmerc.js `init`: it succeeds, same e0…e3, same ml0; the parameters stay -/
theorem go_init_tmerc_eq_js (s : Model.SR ℝ) (o : Js.Obj ℝ) (h : Same s o) :
    ∃ c, Model.tmercInit s = .ok (s, c) ∧ Same s (Js.tmercInit o) ∧
    (Js.tmercInit o).e0 = c.e0 ∧ (Js.tmercInit o).e1 = c.e1 ∧
    (Js.tmercInit o).e2 = c.e2 ∧ (Js.tmercInit o).e3s = c.e3 ∧ (Js.tmercInit o).ml0 = c.ml0 := by
  refine ⟨_, rfl, ⟨h.a, h.b, h.lat0, h.lat1, h.lat2, h.latts, h.long0, h.x0, h.y0, h.k0, h.k, h.zone, h.sphere, h.czech, h.south,
    h.es, h.e, h.ep2⟩, ?_, ?_, ?_, ?_, ?_⟩ <;>
    simp only [Js.tmercInit, Js.aO, h.es, num_eq h.a, num_eq h.lat0, go_e0fn_eq_js,
      go_e1fn_eq_js, go_e2fn_eq_js, go_e3fn_eq_js, go_mlfn_eq_js]

/-- reading a Go `(forward, inverse, err)` constructor followed by a closure call -/
theorem bind_ok_eq {β γ : Type} (v : β) (f : β → Except String γ) : ((Except.ok v : Except String β) >>= f) = f v := rfl

/-- **transverse Mercator, constructor + forward closure** (ellipsoid): no hypothesis on constants -/
theorem go_tmerc_fwd_eq_js' (s : Model.SR ℝ) (o : Js.Obj ℝ) (h : Same s o) (hs : s.sphere = false)
    (lon lat : ℝ) (z : Option ℝ) :
    okOf (Model.tmercInit s >>= fun sc => Model.tmercFwd sc.1 sc.2 lon lat) =
      xyOf (Js.tmercForward (Js.tmercInit o) ⟨lon, lat, z⟩) := by
  obtain ⟨c, hc, hS, h0, h1, h2, h3, hml⟩ := go_init_tmerc_eq_js s o h
  rw [hc, bind_ok_eq]
  exact go_tmerc_fwd_eq_js _ _ _ lon lat z hs (by rw [hS.sphere]; exact hs) (num_eq hS.a) (num_eq hS.x0) (num_eq hS.y0)
    (num_eq hS.long0) (num_eq hS.k0) hS.es hS.ep2 h0 h1 h2 h3 hml

/-- transverse Mercator, constructor + inverse closure (sphere and ellipsoid) -/
theorem go_tmerc_inv_eq_js' (s : Model.SR ℝ) (o : Js.Obj ℝ) (h : Same s o) (x y : ℝ) (z : Option ℝ) :
    okOf (Model.tmercInit s >>= fun sc => Model.tmercInv sc.1 sc.2 x y) =
      xyOf (Js.tmercInverse (Js.tmercInit o) ⟨x, y, z⟩) := by
  obtain ⟨c, hc, hS, h0, h1, h2, h3, hml⟩ := go_init_tmerc_eq_js s o h
  rw [hc, bind_ok_eq]
  exact go_tmerc_inv_eq_js _ _ _ x y z (num_eq hS.a) (num_eq hS.x0) (num_eq hS.y0) (num_eq hS.long0) (num_eq hS.k0)
    (num_eq hS.lat0) hS.sphere hS.es hS.ep2 h0 h1 h2 h3 hml

/-- the fields `UTM` / utm.js write before handing over to transverse Mercator -/
noncomputable def utmSR (s : Model.SR ℝ) : Model.SR ℝ :=
  { s with lat0 := some 0, long0 := some (((6 * |Model.gnum s.zone|) - 183) * 0.01745329251994329577), x0 := some 500000,
           y0 := some (if s.utmSouth then 10000000 else 0), k0 := some 0.9996 }
noncomputable def utmObj (o : Js.Obj ℝ) : Js.Obj ℝ :=
  { o with lat0 := some 0, long0 := some (((6 * |Js.num o.zone|) - 183) * Js.D2R), x0 := some 500000,
           y0 := some (if o.utmSouth then 10000000 else 0), k0 := some 0.9996 }

/-- **`UTM` constructor = utm.js `init`** when the zone is given and not 0 (proj4js: `if (!this.zone)
return` leaves the object without methods; the port fails only when the zone is absent) -/
theorem go_init_utm_eq_js (s : Model.SR ℝ) (o : Js.Obj ℝ) (h : Same s o) (v : ℝ) (hz : s.zone = some v) (hv : v ≠ 0) :
    Model.utmInit s = Model.tmercInit (utmSR s) ∧ Js.utmInit o = Js.tmercInit (utmObj o) ∧
    Same (utmSR s) (utmObj o) := by
  have hc := go_consts_eq_js
  refine ⟨?_, ?_, ?_⟩
  · unfold Model.utmInit Gen.Go.UTM_init utmSR
    simp only [Model.optNaN_eq, Model.optNum_eq, hz, gNaN_some, Bool.false_eq_true, if_false, ite_false]
    rnum
  · unfold Js.utmInit utmObj
    simp only [h.zone, hz, truthyO_some, hv, decide_false, Bool.not_false, Bool.not_true, Bool.false_eq_true, if_false, ite_false]
    rnum
  · unfold utmSR utmObj
    refine ⟨h.a, h.b, rfl, h.lat1, h.lat2, h.latts, ?_, rfl, ?_, rfl, h.k, h.zone, h.sphere, h.czech, h.south, h.es, h.e, h.ep2⟩
    · simp only [num_eq h.zone]; unfold Js.D2R; rnum
    · simp only [h.south]

/-- UTM, constructor + forward closure (ellipsoid), no hypothesis on constants -/
theorem go_utm_fwd_eq_js' (s : Model.SR ℝ) (o : Js.Obj ℝ) (h : Same s o) (v : ℝ) (hz : s.zone = some v) (hv : v ≠ 0)
    (hs : s.sphere = false) (lon lat : ℝ) (z : Option ℝ) :
    okOf (Model.utmInit s >>= fun sc => Model.tmercFwd sc.1 sc.2 lon lat) =
      xyOf (Js.tmercForward (Js.utmInit o) ⟨lon, lat, z⟩) := by
  obtain ⟨h1, h2, h3⟩ := go_init_utm_eq_js s o h v hz hv
  rw [h1, h2]
  exact go_tmerc_fwd_eq_js' (utmSR s) (utmObj o) h3 (by unfold utmSR; exact hs) lon lat z

/-- UTM, constructor + inverse closure -/
theorem go_utm_inv_eq_js' (s : Model.SR ℝ) (o : Js.Obj ℝ) (h : Same s o) (v : ℝ) (hz : s.zone = some v) (hv : v ≠ 0)
    (x y : ℝ) (z : Option ℝ) :
    okOf (Model.utmInit s >>= fun sc => Model.tmercInv sc.1 sc.2 x y) =
      xyOf (Js.tmercInverse (Js.utmInit o) ⟨x, y, z⟩) := by
  obtain ⟨h1, h2, h3⟩ := go_init_utm_eq_js s o h v hz hv
  rw [h1, h2]
  exact go_tmerc_inv_eq_js' (utmSR s) (utmObj o) h3 x y z

end GeomV.C09
