import GeomV.C09.ProofsInit2
/-!
C09: `AEA` constructor against aea.js `init` (regenerated constructor body), and the composition.
-/
open GeomV.C09
namespace GeomV.C09
set_option linter.unusedSimpArgs false
set_option linter.unusedVariables false
set_option linter.unusedTactic false
set_option linter.unreachableTactic false
set_option maxRecDepth 8000

/-- the regenerated `AEA` body against aea.js `init`, on plain numbers: for parallels that are not
antisymmetric the port succeeds with the four constants proj4js stores (`e3`, `ns0`, `c`, `rh`) -/
theorem aea_init_agree (o : Js.Obj ℝ) (A B l0 l1 l2 : ℝ)
    (ha : Js.num o.a = A) (hb : Js.num o.b = B) (h0 : Js.num o.lat0 = l0) (h1 : Js.num o.lat1 = l1) (h2 : Js.num o.lat2 = l2)
    (h12 : ¬ (|l1 + l2| < 1.0e-10)) :
    ∃ c e3 ns0 rh, Gen.Go.AEA_init A B l0 l1 l2 = .ok (c, e3, ns0, rh) ∧
      (Js.aeaInit o).c = c ∧ (Js.aeaInit o).e3 = e3 ∧ (Js.aeaInit o).ns0 = ns0 ∧ (Js.aeaInit o).rh = rh ∧
      (Js.aeaInit o).a = o.a ∧ (Js.aeaInit o).x0 = o.x0 ∧ (Js.aeaInit o).y0 = o.y0 ∧ (Js.aeaInit o).long0 = o.long0 ∧
      (Js.aeaInit o).sphere = o.sphere := by
  have h12' : ¬ (|l1 + l2| < 0.0000000001) := by norm_num at h12 ⊢; exact h12
  unfold Gen.Go.AEA_init Js.aeaInit Js.EPSLN Js.aO
  simp only [ha, hb, h0, h1, h2]
  rnum
  simp only [h12', eps_lit, decide_false, Bool.false_eq_true, if_false, ite_false, go_msfnz_eq_js, go_qsfnz_eq_js]
  refine ⟨_, _, _, _, rfl, ?_⟩
  simp

/-- **`AEA` constructor = aea.js `init`** -/
theorem go_init_aea_eq_js (s : Model.SR ℝ) (o : Js.Obj ℝ) (h : Same s o)
    (h12 : ¬ (|Model.gnum s.lat1 + Model.gnum s.lat2| < 1.0e-10)) :
    ∃ c, Model.aeaInit s = .ok (s, c) ∧ (Js.aeaInit o).c = c.c ∧ (Js.aeaInit o).e3 = c.e ∧ (Js.aeaInit o).ns0 = c.ns ∧
      (Js.aeaInit o).rh = c.rh ∧ Js.num (Js.aeaInit o).a = Model.gnum s.a ∧ Js.num (Js.aeaInit o).x0 = Model.gnum s.x0 ∧
      Js.num (Js.aeaInit o).y0 = Model.gnum s.y0 ∧ Js.num (Js.aeaInit o).long0 = Model.gnum s.long0 ∧
      (Js.aeaInit o).sphere = s.sphere := by
  obtain ⟨c, e3, ns0, rh, hgo, j1, j2, j3, j4, j5, j6, j7, j8, j9⟩ :=
    aea_init_agree o _ _ _ _ _ (num_eq h.a) (num_eq h.b) (num_eq h.lat0) (num_eq h.lat1) (num_eq h.lat2) h12
  have hm : Model.aeaInit s = .ok (s, { (Model.Consts.nanC : Model.Consts ℝ) with e := e3, ns := ns0, c := c, rh := rh }) := by
    unfold Model.aeaInit; rw [hgo]
  exact ⟨_, hm, j1, j2, j3, j4, by rw [j5]; exact num_eq h.a, by rw [j6]; exact num_eq h.x0, by rw [j7]; exact num_eq h.y0,
    by rw [j8]; exact num_eq h.long0, by rw [j9, h.sphere]⟩

/-- Albers, constructor + forward closure, no hypothesis on constants -/
theorem go_aea_fwd_eq_js' (s : Model.SR ℝ) (o : Js.Obj ℝ) (h : Same s o)
    (h12 : ¬ (|Model.gnum s.lat1 + Model.gnum s.lat2| < 1.0e-10)) (lon lat : ℝ) (z : Option ℝ) :
    okOf (Model.aeaInit s >>= fun sc => Model.aeaFwd sc.1 sc.2 lon lat) =
      xyOf (Js.aeaForward (Js.aeaInit o) ⟨lon, lat, z⟩) := by
  obtain ⟨c, hc, j1, j2, j3, j4, ja, jx, jy, jl, js⟩ := go_init_aea_eq_js s o h h12
  rw [hc, bind_ok_eq]
  exact go_aea_fwd_eq_js s c _ lon lat z ja jx jy jl j2 j1 j3 j4

/-- Albers, constructor + inverse closure -/
theorem go_aea_inv_eq_js' (s : Model.SR ℝ) (o : Js.Obj ℝ) (h : Same s o)
    (h12 : ¬ (|Model.gnum s.lat1 + Model.gnum s.lat2| < 1.0e-10)) (x y : ℝ) (z : Option ℝ) :
    okOf (Model.aeaInit s >>= fun sc => Model.aeaInv sc.1 sc.2 x y) =
      xyOf (Js.aeaInverse (Js.aeaInit o) ⟨x, y, z⟩) := by
  obtain ⟨c, hc, j1, j2, j3, j4, ja, jx, jy, jl, js⟩ := go_init_aea_eq_js s o h h12
  rw [hc, bind_ok_eq]
  exact go_aea_inv_eq_js s c _ x y z ja jx jy jl js j2 j1 j3 j4

end GeomV.C09
