import GeomV.C09.ProofsInit
/-!
C09: the remaining constructors (`Merc`, `LCC`, `AEA`, `EqdC`, `Krovak`) against the proj4js `init`s,
on the regenerated constructor bodies, and the compositions constructor + closure.
-/
open GeomV.C09
namespace GeomV.C09
set_option linter.unusedSimpArgs false
set_option linter.unusedVariables false
set_option linter.unusedTactic false
set_option linter.unreachableTactic false
set_option maxRecDepth 8000

/-- a parameter proj4js tests for truthiness means the same on both sides when it is absent or not 0 -/
def NZ (o : Option ℝ) : Prop := o ≠ some 0

theorem truthyO_of_NZ {o : Option ℝ} (h : NZ o) : Js.truthyO o = !Model.gNaN o := by
  cases o with
  | none => rfl
  | some v =>
    have : v ≠ 0 := fun hv => h (by rw [hv])
    simp [truthyO_some, gNaN_some, this]

/-! ## Mercator -/

/-- the scale factor `Merc` captures, in closed form -/
noncomputable def goMercK0 (A B : ℝ) (K K0 LatTS : Option ℝ) (sph : Bool) : ℝ :=
  match LatTS with
  | some t => if sph then Real.cos t else Gen.Go.msfnz (Real.sqrt (1 - B / A * (B / A))) (Real.sin t) (Real.cos t)
  | none => match K0 with
    | some k => k
    | none => match K with
      | some k => k
      | none => 1

/-- the regenerated `Merc` body, evaluated: it cannot fail; defaults 0 for the false origin -/
theorem go_merc_init_val (A B : ℝ) (K K0 LatTS Long0 X0 Y0 : Option ℝ) (sph : Bool) :
    ∃ k, Gen.Go.Merc_init A B K K0 LatTS Long0 X0 Y0 sph =
      .ok (Real.sqrt (1 - B / A * (B / A)), some k, some (Long0.getD 0), some (X0.getD 0), some (Y0.getD 0)) ∧ k = goMercK0 A B K K0 LatTS sph := by
  unfold Gen.Go.Merc_init goMercK0
  cases K <;> cases K0 <;> cases LatTS <;> cases Long0 <;> cases X0 <;> cases Y0 <;> cases sph <;>
    simp [Gen.Go.optNaN, Gen.Go.optNum, r_isNaN, r_sqrt, r_sin, r_cos, r_ofNat]

/-- what merc.js `init` leaves in the object -/
theorem js_merc_init_val (o : Js.Obj ℝ) :
    (Js.mercInit o).a = o.a ∧ (Js.mercInit o).long0 = o.long0 ∧ (Js.mercInit o).sphere = o.sphere ∧
    (Js.mercInit o).x0 = some (o.x0.getD 0) ∧ (Js.mercInit o).y0 = some (o.y0.getD 0) ∧
    (Js.mercInit o).e = Real.sqrt (1 - Js.num o.b / Js.num o.a * (Js.num o.b / Js.num o.a)) ∧
    Js.num (Js.mercInit o).k0 =
      (if Js.truthyO o.lat_ts then
        (if o.sphere then Real.cos (Js.num o.lat_ts)
         else Js.msfnz (Real.sqrt (1 - Js.num o.b / Js.num o.a * (Js.num o.b / Js.num o.a))) (Real.sin (Js.num o.lat_ts)) (Real.cos (Js.num o.lat_ts)))
       else if Js.truthyO o.k0 then Js.num o.k0 else if Js.truthyO o.k then Js.num o.k else 1) := by
  unfold Js.mercInit
  cases hx : o.x0 <;> cases hy : o.y0 <;>
    simp only [Option.isNone_none, Option.isNone_some, if_true, if_false, Bool.false_eq_true, Option.getD] <;>
    (refine ⟨?_, ?_, ?_, ?_, ?_, ?_, ?_⟩ <;> split_ifs <;> simp_all [r_sqrt, r_sin, r_cos, r_ofNat, Js.num])

/-- **`Merc` constructor = merc.js `init`**: the port succeeds; the scale factor its closures capture is
the `k0` proj4js stores; false origin, central meridian, eccentricity agree. Needs: `long0` given
(proj4js has no default), `lat_ts`, `k0`, `k` absent or non-zero. The eccentricity the closures use is the one
the constructor recomputes from `a` and `b` on BOTH sides (after the fix of `Merc`: before, the port's closures
read the `E` of `DeriveConstants`, which differs under `+R_A`). -/
theorem go_init_merc_eq_js (s : Model.SR ℝ) (o : Js.Obj ℝ) (h : Same s o)
    (hl : Model.gNaN s.long0 = false) (hts : NZ s.latTS) (hk0 : NZ s.k0) (hk : NZ s.k) :
    ∃ s' c, Model.mercInit s = .ok (s', c) ∧
      Js.num (Js.mercInit o).a = Model.gnum s'.a ∧ Js.num (Js.mercInit o).x0 = Model.gnum s'.x0 ∧
      Js.num (Js.mercInit o).y0 = Model.gnum s'.y0 ∧ Js.num (Js.mercInit o).long0 = Model.gnum s'.long0 ∧
      Js.num (Js.mercInit o).k0 = c.k0 ∧ (Js.mercInit o).e = c.e ∧ (Js.mercInit o).sphere = s'.sphere := by
  obtain ⟨k, hgo, hk0v⟩ := go_merc_init_val (Model.gnum s.a) (Model.gnum s.b) s.k s.k0 s.latTS s.long0 s.x0 s.y0 s.sphere
  obtain ⟨ja, jl, js, jx, jy, je, jk⟩ := js_merc_init_val o
  have hm : Model.mercInit s = .ok ({ s with long0 := some (s.long0.getD 0), x0 := some (s.x0.getD 0), y0 := some (s.y0.getD 0) },
      { (Model.Consts.nanC : Model.Consts ℝ) with k0 := k, e := Real.sqrt (1 - Model.gnum s.b / Model.gnum s.a * (Model.gnum s.b / Model.gnum s.a)) }) := by
    unfold Model.mercInit; rw [hgo]; rfl
  refine ⟨_, _, hm, ?_, ?_, ?_, ?_, ?_, ?_, ?_⟩
  · rw [ja, h.a]; rfl
  · rw [jx, h.x0]; rfl
  · rw [jy, h.y0]; rfl
  · rw [jl, h.long0]
    cases hlo : s.long0 with
    | none => rw [hlo] at hl; exact absurd hl (by simp [gNaN_none])
    | some v => rfl
  · rw [jk, hk0v, h.latts, h.k0, h.k, h.sphere, h.b, h.a, truthyO_of_NZ hts, truthyO_of_NZ hk0, truthyO_of_NZ hk]
    unfold goMercK0
    cases s.latTS <;> cases s.k0 <;> cases s.k <;> simp [gNaN_some, gNaN_none, Js.num, Model.gnum, go_msfnz_eq_js]
  · rw [je, h.b, h.a]; rfl
  · rw [js, h.sphere]

/-- Mercator, constructor + forward closure, no hypothesis on constants -/
theorem go_merc_fwd_eq_js' (s : Model.SR ℝ) (o : Js.Obj ℝ) (h : Same s o)
    (hl : Model.gNaN s.long0 = false) (hts : NZ s.latTS) (hk0 : NZ s.k0) (hk : NZ s.k)
    (lon lat : ℝ) (z : Option ℝ)
    (h90 : ¬ (90 < lat * 57.29577951308232088)) (hm90 : ¬ (lat * 57.29577951308232088 < -90)) :
    okOf (Model.mercInit s >>= fun sc => Model.mercFwd sc.1 sc.2 lon lat) =
      xyOf (Js.mercForward (Js.mercInit o) ⟨lon, lat, z⟩) := by
  obtain ⟨s', c, hc, ha, hx, hy, hlo, hkk, hee, hsp⟩ := go_init_merc_eq_js s o h hl hts hk0 hk
  rw [hc, bind_ok_eq]
  exact go_merc_fwd_eq_js s' c _ lon lat z h90 hm90 ha hx hy hlo hkk hee hsp

/-- Mercator, constructor + inverse closure -/
theorem go_merc_inv_eq_js' (s : Model.SR ℝ) (o : Js.Obj ℝ) (h : Same s o)
    (hl : Model.gNaN s.long0 = false) (hts : NZ s.latTS) (hk0 : NZ s.k0) (hk : NZ s.k)
    (x y : ℝ) (z : Option ℝ) :
    okOf (Model.mercInit s >>= fun sc => Model.mercInv sc.1 sc.2 x y) =
      xyOf (Js.mercInverse (Js.mercInit o) ⟨x, y, z⟩) := by
  obtain ⟨s', c, hc, ha, hx, hy, hlo, hkk, hee, hsp⟩ := go_init_merc_eq_js s o h hl hts hk0 hk
  rw [hc, bind_ok_eq]
  exact go_merc_inv_eq_js s' c _ x y z ha hx hy hlo hkk hee hsp

/-! ## Krovak -/

theorem NZ_some {v : ℝ} (h : NZ (some v)) : v ≠ 0 := fun hv => h (by rw [hv])

/-- the regenerated `Krovak` body against krovak.js `init`, on the three parameters they read -/
theorem krovak_init_agree (o : Js.Obj ℝ) (K0 Lat0 Long0 : Option ℝ)
    (h1 : o.k0 = K0) (h2 : o.lat0 = Lat0) (h3 : o.long0 = Long0) (n1 : NZ K0) (n2 : NZ Lat0) (n3 : NZ Long0) :
    ∃ Ad Alfa K N Ro0 A E Es k0 lat0 long0,
      Gen.Go.Krovak_init K0 Lat0 Long0 = .ok (Ad, Alfa, K, N, Ro0, A, E, Es, k0, lat0, long0) ∧
      (Js.krovakInit o).alfa = Alfa ∧ (Js.krovakInit o).kk = K ∧ (Js.krovakInit o).n = N ∧
      (Js.krovakInit o).ro0 = Ro0 ∧ (Js.krovakInit o).ad = Ad ∧ (Js.krovakInit o).a = some A ∧
      (Js.krovakInit o).e = E ∧ (Js.krovakInit o).es = Es ∧ (Js.krovakInit o).k0 = k0 ∧
      (Js.krovakInit o).lat0 = lat0 ∧ (Js.krovakInit o).long0 = long0 ∧ (Js.krovakInit o).s0 = Model.S0 ∧
      (Js.krovakInit o).czech = o.czech := by
  unfold Gen.Go.Krovak_init Js.krovakInit Model.S0
  cases K0 with
  | none =>
    cases Lat0 with
    | none =>
      cases Long0 with
      | none => simp [h1, h2, h3, Gen.Go.optNaN, Gen.Go.optNum, truthyO_none, Js.num, Js.aO]; rnum; norm_num
      | some l => simp [h1, h2, h3, Gen.Go.optNaN, Gen.Go.optNum, truthyO_none, truthyO_some, NZ_some n3, r_isNaN, Js.num, Js.aO]; rnum; norm_num
    | some f =>
      cases Long0 with
      | none => simp [h1, h2, h3, Gen.Go.optNaN, Gen.Go.optNum, truthyO_none, truthyO_some, NZ_some n2, r_isNaN, Js.num, Js.aO]; rnum; norm_num
      | some l => simp [h1, h2, h3, Gen.Go.optNaN, Gen.Go.optNum, truthyO_none, truthyO_some, NZ_some n2, NZ_some n3, r_isNaN, Js.num, Js.aO]; rnum; norm_num
  | some k =>
    cases Lat0 with
    | none =>
      cases Long0 with
      | none => simp [h1, h2, h3, Gen.Go.optNaN, Gen.Go.optNum, truthyO_none, truthyO_some, NZ_some n1, r_isNaN, Js.num, Js.aO]; rnum; norm_num
      | some l => simp [h1, h2, h3, Gen.Go.optNaN, Gen.Go.optNum, truthyO_none, truthyO_some, NZ_some n1, NZ_some n3, r_isNaN, Js.num, Js.aO]; rnum; norm_num
    | some f =>
      cases Long0 with
      | none => simp [h1, h2, h3, Gen.Go.optNaN, Gen.Go.optNum, truthyO_none, truthyO_some, NZ_some n1, NZ_some n2, r_isNaN, Js.num, Js.aO]; rnum; norm_num
      | some l => simp [h1, h2, h3, Gen.Go.optNaN, Gen.Go.optNum, truthyO_none, truthyO_some, NZ_some n1, NZ_some n2, NZ_some n3, r_isNaN, Js.num, Js.aO]; rnum; norm_num

/-- **`Krovak` constructor = krovak.js `init`** (`lat_0`, `lon_0`, `k_0` absent or non-zero): same
defaults, same ellipsoid (Bessel, written into the object by both), same five captured constants -/
theorem go_init_krovak_eq_js (s : Model.SR ℝ) (o : Js.Obj ℝ) (h : Same s o)
    (n1 : NZ s.k0) (n2 : NZ s.lat0) (n3 : NZ s.long0) :
    ∃ s' c, Model.krovakInit s = .ok (s', c) ∧
      Js.num (Js.krovakInit o).long0 = Model.gnum s'.long0 ∧ (Js.krovakInit o).e = s'.e ∧
      (Js.krovakInit o).czech = s'.czech ∧ (Js.krovakInit o).alfa = c.alfa ∧ (Js.krovakInit o).kk = c.kk ∧
      (Js.krovakInit o).n = c.n ∧ (Js.krovakInit o).ro0 = c.ro0 ∧ (Js.krovakInit o).ad = c.ad ∧
      (Js.krovakInit o).s0 = Model.S0 ∧ (Js.krovakInit o).a = s'.a ∧ (Js.krovakInit o).es = s'.es ∧
      (Js.krovakInit o).k0 = s'.k0 ∧ (Js.krovakInit o).lat0 = s'.lat0 := by
  obtain ⟨Ad, Alfa, K, N, Ro0, A, E, Es, k0, lat0, long0, hgo, j1, j2, j3, j4, j5, j6, j7, j8, j9, j10, j11, j12, j13⟩ :=
    krovak_init_agree o s.k0 s.lat0 s.long0 h.k0 h.lat0 h.long0 n1 n2 n3
  have hm : Model.krovakInit s = .ok ({ s with a := some A, e := E, es := Es, k0 := k0, lat0 := lat0, long0 := long0 },
      { (Model.Consts.nanC : Model.Consts ℝ) with alfa := Alfa, kk := K, n := N, ro0 := Ro0, ad := Ad }) := by
    unfold Model.krovakInit; rw [hgo]
  refine ⟨_, _, hm, ?_, j7, ?_, j1, j2, j3, j4, j5, j12, j6, j8, j9, j10⟩
  · rw [j11]; rfl
  · rw [j13, h.czech]

/-- Krovak, constructor + forward closure, no hypothesis on constants -/
theorem go_krovak_fwd_eq_js' (s : Model.SR ℝ) (o : Js.Obj ℝ) (h : Same s o)
    (n1 : NZ s.k0) (n2 : NZ s.lat0) (n3 : NZ s.long0) (lon lat : ℝ) (z : Option ℝ) :
    okOf (Model.krovakInit s >>= fun sc => Model.krovakFwd sc.1 sc.2 lon lat) =
      xyOf (Js.krovakForward (Js.krovakInit o) ⟨lon, lat, z⟩) := by
  obtain ⟨s', c, hc, hl, he, hcz, hal, hkk, hn, hro, had, hs0, -, -, -, -⟩ := go_init_krovak_eq_js s o h n1 n2 n3
  rw [hc, bind_ok_eq]
  exact go_krovak_fwd_eq_js s' c _ lon lat z hl he hcz hal hkk hn hro had hs0

/-- Krovak, constructor + inverse closure -/
theorem go_krovak_inv_eq_js' (s : Model.SR ℝ) (o : Js.Obj ℝ) (h : Same s o)
    (n1 : NZ s.k0) (n2 : NZ s.lat0) (n3 : NZ s.long0) (x y : ℝ) (z : Option ℝ) :
    okOf (Model.krovakInit s >>= fun sc => Model.krovakInv sc.1 sc.2 x y) =
      xyOf (Js.krovakInverse (Js.krovakInit o) ⟨x, y, z⟩) := by
  obtain ⟨s', c, hc, hl, he, hcz, hal, hkk, hn, hro, had, hs0, -, -, -, -⟩ := go_init_krovak_eq_js s o h n1 n2 n3
  rw [hc, bind_ok_eq]
  exact go_krovak_inv_eq_js s' c _ x y z hl he hcz hal hkk hn hro had hs0

/-! ## the known finding "lcc at the pole", proved on the regenerated closure -/

/-- exactly at the pole the port's Lambert conformal conic forward answers what it answers 2e-10 rad
short of the pole (lcc.js does the same): it is not the pole's image `(x_0, y_0 + k_0·rh)` of Snyder
15-1…15-4 unless `ts(π/2 − 2e-10)^ns` vanishes, which it does not. -/
theorem lcc_pole_is_moved (E F0 NS RH A K0 Long0 X0 Y0 lon : ℝ) :
    Gen.Go.LCC_forward E F0 NS RH A K0 Long0 X0 Y0 lon (Real.pi / 2) =
    Gen.Go.LCC_forward E F0 NS RH A K0 Long0 X0 Y0 lon (Real.pi / 2 - 0.0000000002) := by
  have hpi := Real.pi_gt_three
  have p1 : |Real.pi / 2| = Real.pi / 2 := abs_of_pos (by linarith)
  have p2 : |Real.pi / 2 - 0.0000000002| = Real.pi / 2 - 0.0000000002 := abs_of_pos (by norm_num; linarith)
  have c1 : |2 * (Real.pi / 2) - Real.pi| ≤ 0.0000000001 := by
    rw [show 2 * (Real.pi / 2) - Real.pi = 0 by ring]; norm_num
  have c2 : ¬ (|2 * (Real.pi / 2 - 0.0000000002) - Real.pi| ≤ 0.0000000001) := by
    rw [show 2 * (Real.pi / 2 - 0.0000000002) - Real.pi = -0.0000000004 by ring]; norm_num
  have c3 : ¬ (Real.pi / 2 < 0) := by linarith
  have c4 : (0.0000000001 : ℝ) < |Real.pi / 2 - 0.0000000002 - Real.pi / 2| := by
    rw [show Real.pi / 2 - 0.0000000002 - Real.pi / 2 = -0.0000000002 by ring]; norm_num
  unfold Gen.Go.LCC_forward Gen.Go.sign
  rnum
  simp only [p1, p2, c1, c2, c3, c4, decide_true, decide_false, if_true, if_false, Bool.false_eq_true, one_mul]

end GeomV.C09
