import GeomV.C09.Num
import GeomV.C09.Js
/-!
Specification of C09.

The property has three clauses:
 (A) every transformation agrees with proj4js 2.3.12 to 0.1 mm                → `agreeJs` (against `Js.*`)
 (B) forward projections agree to 5 mm with independent reference formulas    → `Ref.*` below
 (C) the four constant tables equal those of proj4js                          → theorems over `Gen.*`

This file holds (B): reference formulas written from the literature, NOT from the port:
* Snyder, "Map Projections — A Working Manual" (USGS PP 1395): Mercator (7-6, 7-7), Lambert
  conformal conic (15-1 … 15-10), Albers (14-1 … 14-15, 3-12), equidistant conic (16-1 … 16-4,
  3-21), in the textual form of the manual (powers of `e`, `t` by (15-9), `M` by (3-21));
* Karney (2011) "Transverse Mercator with an accuracy of a few nanometers", Krüger series in the
  third flattening `n` to 6th order (eqs. 7–11, 35) for transverse Mercator / UTM;
* one geocentric Helmert chain (position-vector convention, linearised rotation as PROJ.4):
  geodetic → geocentric on the source ellipsoid → WGS84 → destination → geodetic by a fixed-point
  iteration run to convergence (not the Hannover iteration of the port);
and the tolerances.  Everything is generic over the number class so that the same formulas are
executable (`Float`) and the subject of the `snyder_*_eq` theorems (`ℝ`).
-/
namespace GeomV.C09.Spec
open GeomV.C09

variable {α : Type} [RTrans α]

/-- tolerance (metres) of clause (A) -/
def tolJs : Float := 1.0e-4
/-- tolerance (metres) of clause (B) -/
def tolRef : Float := 5.0e-3

namespace Ref

/-- Snyder (14-15): m = cos φ / (1 − e² sin² φ)^½ -/
def m (e phi : α) : α := cos phi / sqrt (1 - e * e * (sin phi * sin phi))

/-- Snyder (15-9): t = tan(π/4 − φ/2) / [(1 − e sin φ)/(1 + e sin φ)]^(e/2) -/
def t (e phi : α) : α :=
  tan (pi / 4 - phi / 2) / pow ((1 - e * sin phi) / (1 + e * sin phi)) (e / 2)

/-- Snyder (3-12): q = (1 − e²){sin φ/(1 − e² sin² φ) − [1/(2e)] ln[(1 − e sin φ)/(1 + e sin φ)]};
for the sphere q = 2 sin φ -/
def q (e phi : α) : α :=
  if gt e 0.0000001 then
    (1 - e * e) * (sin phi / (1 - e * e * (sin phi * sin phi)) - (1 / (2 * e)) * log ((1 - e * sin phi) / (1 + e * sin phi)))
  else 2 * sin phi

/-- Snyder (3-21), distance along the meridian from the equator, divided by `a`:
M/a = (1 − e²/4 − 3e⁴/64 − 5e⁶/256)φ − (3e²/8 + 3e⁴/32 + 45e⁶/1024) sin 2φ
      + (15e⁴/256 + 45e⁶/1024) sin 4φ − (35e⁶/3072) sin 6φ,  written in `es = e²` -/
def mDist (es phi : α) : α :=
  (1 - es / 4 - 3 * (es * es) / 64 - 5 * (es * es * es) / 256) * phi
  - (3 * es / 8 + 3 * (es * es) / 32 + 45 * (es * es * es) / 1024) * sin (2 * phi)
  + (15 * (es * es) / 256 + 45 * (es * es * es) / 1024) * sin (4 * phi)
  - (35 * (es * es * es) / 3072) * sin (6 * phi)

/-- longitude difference reduced to (−π, π] (arguments are within (−3π, 3π)) -/
def wrap (d : α) : α := if gt d pi then d - 2 * pi else if lt d (-pi) then d + 2 * pi else d

/-- Mercator, Snyder (7-6), (7-7) with scale k0 and false origin -/
def merc (a e k0 lon0 x0 y0 lon lat : α) : α × α :=
  (x0 + a * k0 * wrap (lon - lon0),
   y0 + a * k0 * log (tan (pi / 4 + lat / 2) * pow ((1 - e * sin lat) / (1 + e * sin lat)) (e / 2)))

/-- scale at the latitude of true scale, Snyder p. 47: k0 = cos φ_ts / (1 − e² sin² φ_ts)^½ -/
def mercK0 (e latts : α) : α := m e latts

/-- Lambert conformal conic, Snyder (15-1)…(15-10) -/
def lcc (a e lat0 lat1 lat2 lon0 k0 x0 y0 lon lat : α) : α × α :=
  let n : α := if gt (abs (lat1 - lat2)) 0.0000000001 then log (m e lat1 / m e lat2) / log (t e lat1 / t e lat2) else sin lat1
  let F := m e lat1 / (n * pow (t e lat1) n)
  let rho := a * F * pow (t e lat) n
  let rho0 := a * F * pow (t e lat0) n
  let theta := n * wrap (lon - lon0)
  (k0 * (rho * sin theta) + x0, k0 * (rho0 - rho * cos theta) + y0)

/-- Albers equal-area conic, Snyder (14-1)…(14-15) -/
def aea (a e lat0 lat1 lat2 lon0 x0 y0 lon lat : α) : α × α :=
  let m1 := m e lat1
  let m2 := m e lat2
  let n : α := if gt (abs (lat1 - lat2)) 0.0000000001 then (m1 * m1 - m2 * m2) / (q e lat2 - q e lat1) else sin lat1
  let C := m1 * m1 + n * q e lat1
  let rho := a * sqrt (C - n * q e lat) / n
  let rho0 := a * sqrt (C - n * q e lat0) / n
  let theta := n * wrap (lon - lon0)
  (rho * sin theta + x0, rho0 - rho * cos theta + y0)

/-- Equidistant conic, Snyder (16-1)…(16-4) with (3-21); `sphere` uses M = aφ -/
def eqdc (sphere : Bool) (a e lat0 lat1 lat2 lon0 x0 y0 lon lat : α) : α × α :=
  let es := e * e
  let M (phi : α) : α := if sphere then phi else mDist es phi
  let m1 := m e lat1
  let n : α := if lt (abs (lat1 - lat2)) 0.0000000001 then sin lat1 else (m1 - m e lat2) / (M lat2 - M lat1)
  let G := m1 / n + M lat1
  let rho := a * (G - M lat)
  let rho0 := a * (G - M lat0)
  let theta := n * wrap (lon - lon0)
  (x0 + rho * sin theta, y0 + rho0 - rho * cos theta)

/-! ### Karney–Krüger, 6th order in n -/

def sinh (x : α) : α := (exp x - exp (-x)) / 2
def cosh (x : α) : α := (exp x + exp (-x)) / 2
def asinh (x : α) : α := if lt x 0 then -log (-x + sqrt (x * x + 1)) else log (x + sqrt (x * x + 1))
def atanh (x : α) : α := log ((1 + x) / (1 - x)) / 2

/-- Krüger's α₁…α₆ (Karney 2011, eq. 35) -/
def kkAlpha (n : α) : List α :=
  let n2 := n * n; let n3 := n2 * n; let n4 := n3 * n; let n5 := n4 * n; let n6 := n5 * n
  [ n / 2 - 2 * n2 / 3 + 5 * n3 / 16 + 41 * n4 / 180 - 127 * n5 / 288 + 7891 * n6 / 37800,
    13 * n2 / 48 - 3 * n3 / 5 + 557 * n4 / 1440 + 281 * n5 / 630 - 1983433 * n6 / 1935360,
    61 * n3 / 240 - 103 * n4 / 140 + 15061 * n5 / 26880 + 167603 * n6 / 181440,
    49561 * n4 / 161280 - 179 * n5 / 168 + 6601661 * n6 / 7257600,
    34729 * n5 / 80640 - 3418889 * n6 / 1995840,
    212378941 * n6 / 319334400 ]

/-- (ξ, η) of the Krüger series for latitude φ and longitude difference λ (a sphere has n = 0) -/
def kkXiEta (es lam phi : α) : α × α :=
  let e := sqrt es
  let f := 1 - sqrt (1 - es)
  let n := f / (2 - f)
  let tau := tan phi
  let sigma := sinh (e * atanh (e * tau / sqrt (1 + tau * tau)))
  let taup := tau * sqrt (1 + sigma * sigma) - sigma * sqrt (1 + tau * tau)
  let xip := atan2 taup (cos lam)
  let etap := asinh (sin lam / sqrt (taup * taup + cos lam * cos lam))
  let al := kkAlpha n
  let rec go : List α → α → α × α → α × α
    | [], _, acc => acc
    | aj :: rest, j, (xi, eta) =>
      go rest (j + 1) (xi + aj * sin (2 * j * xip) * cosh (2 * j * etap), eta + aj * cos (2 * j * xip) * sinh (2 * j * etap))
  go al 1 (xip, etap)

/-- rectifying radius A = a/(1+n)·(1 + n²/4 + n⁴/64 + n⁶/256) -/
def kkA (a es : α) : α :=
  let f := 1 - sqrt (1 - es)
  let n := f / (2 - f)
  let n2 := n * n
  a / (1 + n) * (1 + n2 / 4 + n2 * n2 / 64 + n2 * n2 * n2 / 256)

/-- transverse Mercator by the Krüger series; the origin latitude enters through the meridian
distance ξ(φ₀)·A -/
def tmerc (a es k0 lat0 lon0 x0 y0 lon lat : α) : α × α :=
  let A := kkA a es
  let (xi, eta) := kkXiEta es (wrap (lon - lon0)) lat
  let (xi0, _) := kkXiEta es 0 lat0
  (x0 + k0 * A * eta, y0 + k0 * A * (xi - xi0))

/-! ### the geocentric Helmert chain -/

structure Helmert (α : Type) where
  dx : α
  dy : α
  dz : α
  /-- rotations in radians, position-vector convention -/
  rx : α
  ry : α
  rz : α
  /-- scale factor 1 + s·10⁻⁶ -/
  m : α

def Helmert.zero : Helmert α := ⟨0, 0, 0, 0, 0, 0, 1⟩

def toGeocentric (a es lon lat h : α) : α × α × α :=
  let N := a / sqrt (1 - es * (sin lat * sin lat))
  ((N + h) * cos lat * cos lon, (N + h) * cos lat * sin lon, (N * (1 - es) + h) * sin lat)

/-- φ_{k+1} = atan2(Z + e² N(φ_k) sin φ_k, p), started at the spherical latitude -/
def toGeodeticLat (a es p Z : α) : Nat → α → α
  | 0, phi => phi
  | k+1, phi =>
    let N := a / sqrt (1 - es * (sin phi * sin phi))
    toGeodeticLat a es p Z k (atan2 (Z + es * N * sin phi) p)

def toGeodetic (a es X Y Z : α) : α × α :=
  let p := sqrt (X * X + Y * Y)
  (atan2 Y X, toGeodeticLat a es p Z 12 (atan2 Z (p * (1 - es))))

def helmertToWgs (h : Helmert α) (X Y Z : α) : α × α × α :=
  (h.m * (X - h.rz * Y + h.ry * Z) + h.dx, h.m * (h.rz * X + Y - h.rx * Z) + h.dy, h.m * (-h.ry * X + h.rx * Y + Z) + h.dz)

def helmertFromWgs (h : Helmert α) (X Y Z : α) : α × α × α :=
  let x := (X - h.dx) / h.m
  let y := (Y - h.dy) / h.m
  let z := (Z - h.dz) / h.m
  (x + h.rz * y - h.ry * z, -h.rz * x + y + h.rx * z, h.ry * x - h.rx * y + z)

/-- one chain: (λ, φ, h = 0) on the source datum to (λ, φ) on the destination datum -/
def datumShift (a1 es1 : α) (h1 : Helmert α) (a2 es2 : α) (h2 : Helmert α) (lon lat : α) : α × α :=
  let (X, Y, Z) := toGeocentric a1 es1 lon lat 0
  let (X, Y, Z) := helmertToWgs h1 X Y Z
  let (X, Y, Z) := helmertFromWgs h2 X Y Z
  toGeodetic a2 es2 X Y Z

end Ref

/-! ## reading the reference parameters from a definition

The parameter *reader* is shared with `Js` (`projString` + `deriveConstants`, before any
projection `init`); the formulas above are not. -/

structure RefSys (α : Type) where
  kind : Js.Kind
  a : α
  es : α
  sphere : Bool
  lat0 : α
  lat1 : α
  lat2 : α
  latts : Option α
  lon0 : α
  k0 : α
  x0 : α
  y0 : α
  pm : α
  toMeter : α
  helmert : Ref.Helmert α
  /-- no reference: `+R_A`, grid shifts, `datum=none`, an unmodelled axis -/
  usable : Bool

def optOr (o : Option α) (d : α) : α := match o with | some v => if isNaN v then d else v | none => d

def refSys (code : String) : Option (RefSys α) :=
  let o : Js.Obj α := Js.deriveConstants (Js.projString code)
  match o.projName.bind Js.kindOf, o.datum with
  | some k, some d =>
    let ps := d.datum_params.getD []
    let g (i : Nat) (dflt : α) : α := (ps[i]?).getD dflt
    -- the datum object holds the rotations already in radians and the scale as a factor
    let hel : Ref.Helmert α :=
      if d.datum_type == Js.PJD_7PARAM then ⟨g 0 0, g 1 0, g 2 0, g 3 0, g 4 0, g 5 0, g 6 1⟩
      else if d.datum_type == Js.PJD_3PARAM then ⟨g 0 0, g 1 0, g 2 0, 0, 0, 0, 1⟩
      else Ref.Helmert.zero
    let utm := k == .utm
    let zone := optOr o.zone 0
    let lat1 := optOr o.lat1 0
    some {
      kind := k, a := Js.num o.a, es := o.es, sphere := o.sphere,
      lat0 := if utm then 0 else optOr o.lat0 0,
      lat1 := lat1,
      lat2 := match o.lat2 with | some v => (if isNaN v then lat1 else v) | none => lat1,
      latts := o.lat_ts,
      lon0 := if utm then ((6 * abs zone) - 183) * (pi / 180) else optOr o.long0 0,
      k0 := if utm then 0.9996 else optOr o.k0 1,
      x0 := if utm then 500000 else optOr o.x0 0,
      y0 := if utm then (if o.utmSouth then 10000000 else 0) else optOr o.y0 0,
      pm := if Js.truthyO o.from_greenwich then Js.num o.from_greenwich else 0,
      toMeter := if Js.truthyO o.to_meter then Js.num o.to_meter else 1,
      helmert := hel,
      usable := !o.R_A && d.datum_type != Js.PJD_GRIDSHIFT && o.axis == some "enu" }
  | _, _ => none

/-- is the pair inside the scope of the single-chain datum reference?  A `datum=none` side means
"no datum operation" by definition of PROJ.4 — unless the same definition also gives `+towgs84`,
which makes it a 3/7-parameter datum in PROJ.4 (`pj_datum_set` reads `towgs84` after `datum`),
in proj4js and in the port alike. -/
def datumNone (code : String) : Bool :=
  let o : Js.Obj α := Js.projString code
  o.datumCode == some "none" && o.datum_params.isNone

/-- reference forward: geographic (degrees, source system) to projected (destination units) -/
def refForward (src dst : RefSys α) (noShift : Bool) (lonDeg latDeg : α) : Option (α × α) :=
  if src.kind != .longlat || !src.usable || !dst.usable then none else
  let d2r : α := pi / 180
  let lon := lonDeg * d2r + src.pm
  let lat := latDeg * d2r
  let (lon, lat) := if noShift then (lon, lat) else Ref.datumShift src.a src.es src.helmert dst.a dst.es dst.helmert lon lat
  let lon := lon - dst.pm
  let e := sqrt dst.es
  let r : Option (α × α) :=
    match dst.kind with
    | .longlat => some (lon / d2r, lat / d2r)
    | .merc =>
      let k0 := match dst.latts with
        | some ts => if truthy ts then Ref.mercK0 e ts else dst.k0
        | none => dst.k0
      some (Ref.merc dst.a e k0 dst.lon0 dst.x0 dst.y0 lon lat)
    | .lcc => some (Ref.lcc dst.a e dst.lat0 dst.lat1 dst.lat2 dst.lon0 dst.k0 dst.x0 dst.y0 lon lat)
    | .aea => some (Ref.aea dst.a e dst.lat0 dst.lat1 dst.lat2 dst.lon0 dst.x0 dst.y0 lon lat)
    | .eqdc => some (Ref.eqdc dst.sphere dst.a e dst.lat0 dst.lat1 dst.lat2 dst.lon0 dst.x0 dst.y0 lon lat)
    | .tmerc | .utm => some (Ref.tmerc dst.a dst.es dst.k0 dst.lat0 dst.lon0 dst.x0 dst.y0 lon lat)
    | .krovak => none
  match r, dst.kind with
  | some (x, y), .longlat => some (x, y)
  | some (x, y), _ => some (x / dst.toMeter, y / dst.toMeter)
  | none, _ => none

end GeomV.C09.Spec
