import GeomV.Common.Geom
import GeomV.C09.Model
import GeomV.C09.Js
import GeomV.C09.Spec
/-!
Driver for C09: `geomv_c09 judge` reads `<case> => <implementation result>` lines and prints one
verdict per line.

  OK <class>
  DIFF <class> <why>   the implementation differs from the Go model `Model.*` by more than 10 µm (correspondence)
  SPEC <class> <why>   the implementation's answer violates the specification: it differs from
                       the proj4js model `Js.*` by more than 0.1 mm, from a reference formula of
                       `Spec.Ref` by more than 5 mm, or (parse lines) an exported SR field differs
                       from the proj4js parse.
Distances are measured in metres on the implementation's own answer: projected coordinates are
multiplied by the destination's `to_meter`, geographic ones by 111 320 m/degree (cos φ for λ).
-/
namespace GeomV.C09
open GeomV

def hexF (s : String) : Option Float := (parseU64 s).map Float.ofBits

def splitBar (s : String) : List String := (s.splitOn " | ").map fun x => (x.trimAscii).toString

def fmt (x : Float) : String := toString x

/-- enough digits to compare with JavaScript's shortest round-trip text: scaled integer + exponent -/
def repr17 (x : Float) : String :=
  if x.isNaN then "NaN" else if x == 0.0 then "0" else
  let ax := Float.abs x
  let e := (Float.floor (Float.log10 ax)).toInt64.toInt
  -- x = m * 10^(e-16) with m a 17-digit integer
  let m := (ax / Float.pow 10.0 (Float.ofInt (e - 16))).round.toUInt64.toNat
  (if x < 0.0 then "-" else "") ++ toString m ++ "e" ++ toString (e - 16)

/-- metres per unit of the two output axes of a system, at the output point -/
def scaleOf (code : String) (y : Float) : Float × Float :=
  match (Spec.refSys code : Option (Spec.RefSys Float)) with
  | some r =>
    if r.kind == .longlat then
      let c := Float.cos (y * 0.017453292519943295)
      (111320.0 * (if c < 1e-6 then 1e-6 else c), 111320.0)
    else (r.toMeter, r.toMeter)
  | none => (1.0, 1.0)

/-- distance in metres between two answers (NaN matches NaN) -/
def dist (sc : Float × Float) (a b : Float × Float) : Float :=
  let d (s u v : Float) : Float :=
    if u.isNaN && v.isNaN then 0.0 else if u.isNaN || v.isNaN then 1.0e300
    else
      -- coordinates are compared as numbers: +180 and −180 are different answers (proj4js keeps a
      -- point on the antimeridian on its own side, `SPI` in adjust_lon.js)
      Float.abs (u - v) * s
  let dx := d sc.1 a.1 b.1
  let dy := d sc.2 a.2 b.2
  if dx > dy then dx else dy

/-- distance to a *reference* answer: the Helmert chain yields a longitude by `atan2`, i.e. modulo
360°, so geographic longitudes are compared modulo a full turn here (and only here) -/
def distRef (sc : Float × Float) (a b : Float × Float) : Float :=
  if sc.2 > 1000.0 && !(a.1.isNaN || b.1.isNaN) then
    let w := Float.abs (a.1 - b.1)
    let w := if w > 359.0 then Float.abs (w - 360.0) else w
    dist sc (w, a.2) (0.0, b.2)
  else dist sc a b

inductive Hop where
  | ok (x y : Float)
  | same (x y : Float)
  | fail (what : String)
  /-- an exported SR field changed when `DeriveConstants` was called again on the finished SR -/
  | changed (what : String)
  /-- the reused transformer answered (x, y) where a fresh one answers (u, v) on the same input -/
  | histdep (x y u v : Float)

def parseHop (t : List String) : Option Hop :=
  match t with
  | ["ok", a, b] => do let x ← hexF a; let y ← hexF b; pure (.ok x y)
  | ["same", a, b] => do let x ← hexF a; let y ← hexF b; pure (.same x y)
  | ["histdep", a, b, c, d] => do
    let x ← hexF a; let y ← hexF b; let u ← hexF c; let v ← hexF d
    pure (.histdep x y u v)
  | "histdep-err" :: w :: _ => some (.changed ("reused-transformer-fails-fresh-one-answers:" ++ w))
  | "changed" :: w :: _ => some (.changed w)
  | "err" :: w :: _ => some (.fail ("err:" ++ w))
  | "panic" :: w :: _ => some (.fail ("panic:" ++ w))
  | ["err"] => some (.fail "err")
  | ["panic"] => some (.fail "panic")
  | _ => none

def projOf (code : String) : String :=
  match (Js.projString code : Js.Obj Float).projName with
  | some n => n
  | none => "?"

def datumTag (code : String) : String :=
  match (Js.deriveConstants (Js.projString code : Js.Obj Float)).datum with
  | some d =>
    if d.datum_type == Js.PJD_3PARAM then "3" else if d.datum_type == Js.PJD_7PARAM then "7"
    else if d.datum_type == Js.PJD_NODATUM then "n"
    else if (Js.projString code : Js.Obj Float).datumCode.isSome then "w" else "0"
  | none => "?"

/-- `scalar.EqualWithinULP(a, b, 3)` for finite doubles of one sign; NaN only equals NaN (`SR.Equal`) -/
def ulpEq (a b : Float) : Bool :=
  if a.isNaN || b.isNaN then a.isNaN && b.isNaN
  else if a == b then true
  else
    let ua := a.toBits.toNat
    let ub := b.toBits.toNat
    (if ua > ub then ua - ub else ub - ua) ≤ 3
def ulpEqO (a b : Option Float) : Bool := ulpEq (Model.gnum a) (Model.gnum b)

/-- `(*SR).Equal(sr2, 3)` on the modelled fields -/
def srEqual (a b : Model.SR Float) : Bool :=
  a.name == b.name && a.datumCode == b.datumCode && a.ellps == b.ellps && a.units == b.units &&
  a.nadGrids == b.nadGrids && a.axis == b.axis &&
  ulpEqO a.rf b.rf && ulpEqO a.lat0 b.lat0 && ulpEqO a.lat1 b.lat1 && ulpEqO a.lat2 b.lat2 &&
  ulpEqO a.latTS b.latTS && ulpEqO a.long0 b.long0 && ulpEqO a.x0 b.x0 && ulpEqO a.y0 b.y0 &&
  ulpEqO a.k0 b.k0 && ulpEqO a.k b.k && ulpEqO a.a b.a && ulpEqO a.b b.b && ulpEqO a.zone b.zone &&
  ulpEqO a.fromGreenwich b.fromGreenwich && ulpEq a.toMeter b.toMeter &&
  a.datumParams.length == b.datumParams.length && (a.datumParams.zip b.datumParams).all (fun (u, v) => ulpEq u v) &&
  a.ra == b.ra && a.noDefs == b.noDefs && a.utmSouth == b.utmSouth && a.sphere == b.sphere && a.czech == b.czech &&
  ulpEq a.a2 b.a2 && ulpEq a.b2 b.b2 && ulpEq a.es b.es && ulpEq a.e b.e && ulpEq a.ep2 b.ep2 &&
  (match a.datum, b.datum with
   | some d, some e => d.datum_type == e.datum_type && ulpEq d.a e.a && ulpEq d.b e.b && ulpEq d.es e.es && ulpEq d.ep2 e.ep2 &&
       d.datum_params.length == e.datum_params.length && (d.datum_params.zip e.datum_params).all (fun (u, v) => ulpEq u v)
   | none, none => true
   | _, _ => false)

/-- the model's `NewTransform`: `none` = nil transformer (identical SRs) -/
def modelIdentical (src dst : String) : Bool :=
  match Model.parse (α := Float) src, Model.parse (α := Float) dst with
  | .ok a, .ok b => srEqual a b
  | _, _ => false

/-- verdict of one hop; `none` = fine -/
def judgeHop (src dst : String) (x y : Float) (h : Hop) : Option String :=
  let ident := modelIdentical src dst
  let model := if ident then (.ok (x, y) : Except String (Float × Float)) else Model.run (α := Float) src dst x y
  let js := Js.proj4 (α := Float) src dst x y
  let tag := s!"{projOf src}>{projOf dst}"
  match h with
  | .histdep hx hy u v =>
    -- a transformation is a function of the position: the n-th call of a Transformer must answer
    -- what a freshly built one answers (bitwise)
    let sc := scaleOf dst v
    some s!"SPEC {tag} history-dependent reused=({fmt hx},{fmt hy}) fresh=({fmt u},{fmt v}) differ-by-{fmt (dist sc (hx, hy) (u, v))}m"
  | .changed what =>
    -- `DeriveConstants` on a finished SR must leave the exported fields as `Parse` left them
    -- (proj4js' deriveConstants is guarded the same way: `if (!json.datum)`)
    some s!"SPEC {tag} sr-fields-change-on-rederive {what}"
  | .fail what =>
    -- the port rejects: proj4js must fail too, and the model must reject as well
    match js, model with
    | .ok (jx, jy), _ =>
      if jx.isNaN || jy.isNaN then
        (match model with | .error _ => none | .ok _ => some s!"DIFF {tag} impl-{what}-model-ok")
      else some s!"SPEC {tag} port-rejects-what-proj4js-transforms impl={what} js=({fmt jx},{fmt jy})"
    | .error _, .ok _ => some s!"DIFF {tag} impl-{what}-model-ok"
    | .error _, .error _ => none
  | .ok ix iy | .same ix iy =>
    let sc := scaleOf dst iy
    -- (A) against proj4js
    let a : Option String :=
      match js with
      | .error e =>
        if ix.isNaN || iy.isNaN then none
        else some s!"SPEC {tag} proj4js-fails-({e})-port-answers ({fmt ix},{fmt iy})"
      | .ok (jx, jy) =>
        -- identical source and destination (nil transformer, the port returns the input unchanged): proj4js still runs
        -- its pipeline, and for a geographic system with a prime meridian and a 3/7-parameter datum it returns the
        -- SAME position a full turn away when lon + pm passes 180 degrees (its geodetic_to_geocentric brings the
        -- longitude into (-pi, pi], nothing brings it back after the prime meridian is subtracted: 163.98 -> -196.02).
        -- Only in this case geographic longitudes are compared modulo a full turn.
        let sameHop := (match h with | .same _ _ => true | _ => false)
        let dj := if sameHop && ident then distRef sc (ix, iy) (jx, jy) else dist sc (ix, iy) (jx, jy)
        -- identical source and destination: the transformation is the identity and the port returns
        -- the input unchanged (nil transformer); proj4js runs inverse∘forward, whose own round-trip
        -- noise (iteration stops at 1e-10 rad) is not a disagreement about the transformation.
        -- Sanity bound 1 cm instead of 0.1 mm.
        let tol := (match h with | .same _ _ => if ident then 1.0e-2 else Spec.tolJs | _ => Spec.tolJs)
        if dj > tol then
          -- name the cause when it is the height dropped between the two hops through WGS84
          let cause :=
            if Model.isTwoHop (α := Float) src dst then
              match Model.runDropZ (α := Float) src dst x y with
              | .ok (kx, ky) => if dist sc (kx, ky) (ix, iy) ≤ 1.0e-6 then "two-hop-route-drops-height " else ""
              | .error _ => ""
            else ""
          some s!"SPEC {tag} {cause}differs-from-proj4js-by-{fmt dj}m impl=({fmt ix},{fmt iy}) js=({fmt jx},{fmt jy})"
        else none
    -- (B) against the reference formulas
    let b : Option String :=
      match (Spec.refSys src : Option (Spec.RefSys Float)), (Spec.refSys dst : Option (Spec.RefSys Float)) with
      | some rs, some rd =>
        let noShift := Spec.datumNone (α := Float) src || Spec.datumNone (α := Float) dst
        match Spec.refForward rs rd noShift x y with
        | some (rx0, ry0) =>
          -- on the antimeridian of the projection both edges are the same place: the reference is also
          -- evaluated 1e-9 degree (0.1 mm) either side and the nearest answer counts
          let cands := [(rx0, ry0)] ++
            ((Spec.refForward rs rd noShift (x - 1.0e-9) y).toList ++ (Spec.refForward rs rd noShift (x + 1.0e-9) y).toList)
          let (rx, ry) := cands.foldl (fun best c => if distRef sc (ix, iy) c < distRef sc (ix, iy) best then c else best) (rx0, ry0)
          let dr := distRef sc (ix, iy) (rx, ry)
          if rx.isNaN || ry.isNaN then none
          else if dr > Spec.tolRef then
            -- name the cause when it is the false origin missing from the spherical transverse Mercator
            let cause :=
              if (rd.kind == .tmerc || rd.kind == .utm) && rd.sphere then
                match Spec.refForward rs { rd with x0 := 0, y0 := 0 } noShift x y with
                | some (r0x, r0y) => if distRef sc (ix, iy) (r0x, r0y) ≤ Spec.tolRef then "spherical-tmerc-omits-false-origin-like-proj4js " else ""
                | none => ""
              else if rd.kind == .lcc && rs.kind == .longlat && (y.abs - 90.0).abs ≤ 3.0e-9 then
                -- exactly at the pole lcc (port and proj4js alike) evaluates at a latitude 2e-10 rad
                -- (1.3 mm on the ground) short of it; the cone's scale there is unbounded, so the
                -- projected point is millimetres to kilometres from the pole's image
                let y' := if y < 0 then y + 2.0e-10 * 57.29577951308232 else y - 2.0e-10 * 57.29577951308232
                match Spec.refForward rs rd noShift x y' with
                | some (r0x, r0y) =>
                  if distRef sc (ix, iy) (r0x, r0y) ≤ Spec.tolRef + 1.0e-6 * dr then "lcc-pole-replaced-by-latitude-2e-10-rad-short-like-proj4js " else ""
                | none => ""
              else if (rd.kind == .tmerc || rd.kind == .utm) && rd.es > 0.009 && dr < 0.02 then
                -- flattening above 1/222 (only the 1738 ellipsoid `mprts` among the built-in ones):
                -- the e^6 meridian series of the port (and of proj4js) is a few mm short
                "meridian-series-truncated-at-e6-for-flattening-above-1/222 "
              else if Model.isTwoHop (α := Float) src dst then
                match Model.runDropZ (α := Float) src dst x y with
                | .ok (kx, ky) => if dist sc (kx, ky) (ix, iy) ≤ 1.0e-6 then "two-hop-route-drops-height " else ""
                | .error _ => ""
              else ""
            some s!"SPEC {tag} {cause}differs-from-reference-by-{fmt dr}m impl=({fmt ix},{fmt iy}) ref=({fmt rx},{fmt ry})"
          else none
        | none => none
      | _, _ => none
    -- correspondence with the Go model
    let isSame := match h with | .same _ _ => true | _ => false
    let c : Option String :=
      if isSame != ident then some s!"DIFF {tag} nil-transformer-impl={isSame}-model={ident}" else
      match model with
      | .error e => if ix.isNaN || iy.isNaN then none else some s!"DIFF {tag} model-rejects-({e})-impl-answers"
      | .ok (mx, my) =>
        let dm := dist sc (ix, iy) (mx, my)
        -- 10 µm: Go `math` vs libm differ in the last place, which ill-conditioned constants
        -- (standard parallels 0.06° apart) amplify to ~1 µm
        if dm > 1.0e-5 then some s!"DIFF {tag} model-differs-by-{fmt dm}m impl=({fmt ix},{fmt iy}) model=({fmt mx},{fmt my})" else none
    match a, b, c with
    | some s, _, _ => some s
    | none, some s, _ => some s
    | none, none, some s => some s
    | none, none, none => none

def judgeTr (fields : List String) (rhs : String) (flavour : String := "") : String :=
  let defs := (fields.drop 1).dropLast
  let xy := tokens (fields.getLast?.getD "")
  match xy with
  | [a, b] =>
    match hexF a, hexF b with
    | some x0, some y0 =>
      let hops := (rhs.splitOn " ; ").map fun s => parseHop (tokens s)
      let cls := "tr" ++ flavour ++ "-" ++ "-".intercalate (defs.map projOf) ++ ":" ++ String.join (defs.map datumTag)
      let rec go : List String → List (Option Hop) → Float → Float → Nat → String
        | s :: d :: rest, (some h) :: hs, x, y, i =>
          match judgeHop s d x y h with
          | some v =>
            let parts := v.splitOn " "
            s!"{parts.headD "DIFF"} {cls} hop{i}:{" ".intercalate (parts.drop 1)}"
          | none =>
            match h with
            | .ok nx ny => go (d :: rest) hs nx ny (i + 1)
            | .same nx ny => go (d :: rest) hs nx ny (i + 1)
            | .fail _ => s!"OK {cls}-rejected"
            | .changed _ => s!"OK {cls}"
            | .histdep _ _ _ _ => s!"OK {cls}"
        | _ :: _ :: _, none :: _, _, _, _ => s!"DIFF {cls} unreadable-result"
        | _ :: _ :: _, [], _, _, i => s!"DIFF {cls} result-stops-before-hop{i}"
        | _, _, _, _, _ => s!"OK {cls}"
      go defs hops x0 y0 1
    | _, _ => "DIFF bad-line coordinates"
  | _ => "DIFF bad-line coordinates"

/-- relative closeness of two exported fields (both unset counts as equal) -/
def closeRel (u v : Float) : Bool :=
  if u.isNaN && v.isNaN then true else if u.isNaN || v.isNaN then false
  else Float.abs (u - v) ≤ 1.0e-12 * (Float.abs u + Float.abs v) + 1.0e-300

def judgeParse (code : String) (rhs : String) : String :=
  let cls := "parse-" ++ projOf code
  let js : Js.Obj Float := Js.deriveConstants (Js.projString code)
  let mdl := Model.parse (α := Float) code
  match tokens rhs with
  | "ok" :: a :: b :: rf :: es :: fg :: tm :: n :: ps =>
    match hexF a, hexF b, hexF rf, hexF es, hexF fg, hexF tm, n.toNat?, ps.mapM hexF with
    | some A, some B, some Rf, some Es, some Fg, some Tm, some cnt, some P =>
      if cnt != P.length then s!"DIFF {cls} datum-params-count" else
      -- proj4js view of the same fields
      let jA := Js.num js.a
      let jB := Js.num js.b
      let jRf := Js.num js.rf
      let jEs := js.es
      -- an unset / NaN / zero `from_greenwich` all mean "no shift" in transform.js
      let eff (v : Float) : Float := if v.isNaN then 0.0 else v
      let jFg := eff (Js.num js.from_greenwich)
      let jTm := if Js.truthyO js.to_meter then Js.num js.to_meter else 1.0
      let jP : List Float := match js.datum with | some d => d.datum_params.getD [] | none => []
      let bad : List String :=
        (if closeRel A jA then [] else [s!"A={fmt A}/js={fmt jA}"]) ++
        (if closeRel B jB then [] else [s!"B={fmt B}/js={fmt jB}"]) ++
        (if closeRel Rf jRf then [] else [s!"Rf={fmt Rf}/js={fmt jRf}"]) ++
        (if closeRel Es jEs then [] else [s!"Es={fmt Es}/js={fmt jEs}"]) ++
        (if closeRel (eff Fg) jFg then [] else [s!"FromGreenwich={fmt Fg}/js={fmt jFg}"]) ++
        (if closeRel Tm jTm then [] else [s!"ToMeter={fmt Tm}/js={fmt jTm}"]) ++
        (if P.length == jP.length && (P.zip jP).all (fun (u, v) => closeRel u v) then []
         else [s!"DatumParams={P.map fmt}/js={jP.map fmt}"])
      if !bad.isEmpty then s!"SPEC {cls} exported-field-differs-from-proj4js {" ".intercalate bad}" else
      match mdl with
      | .error e => s!"DIFF {cls} model-rejects-({e})"
      | .ok m =>
        let okM := closeRel A (Model.gnum m.a) && closeRel B (Model.gnum m.b) && closeRel Rf (Model.gnum m.rf) &&
          closeRel Es m.es && closeRel Fg (Model.gnum m.fromGreenwich) && closeRel Tm m.toMeter &&
          P.length == m.datumParams.length && (P.zip m.datumParams).all (fun (u, v) => closeRel u v)
        if okM then s!"OK {cls}" else s!"DIFF {cls} model-fields-differ"
    | _, _, _, _, _, _, _, _ => s!"DIFF {cls} unreadable-result"
  | "err" :: _ =>
    match mdl with
    | .error _ => s!"OK {cls}-rejected"
    | .ok _ => s!"DIFF {cls} impl-rejects-model-accepts"
  | _ => s!"DIFF {cls} unreadable-result"

/-- `geomv_c09 js`: `<src> | <dst> | <xhex> <yhex>` -> the proj4js model's answer in decimal
(used only by the optional cross-check against the vendored JavaScript run by node) -/
def jsLine (line : String) : String :=
  match splitBar line with
  | [s, d, xy] =>
    match tokens xy with
    | [a, b] =>
      match hexF a, hexF b with
      | some x, some y =>
        match Js.proj4 (α := Float) s d x y with
        | .ok (u, v) => s!"{repr17 u} {repr17 v}"
        | .error e => "err " ++ e
      | _, _ => "err bad-coordinates"
    | _ => "err bad-coordinates"
  | _ => "err bad-line"

/-- `trs`: the positions of the sequence are judged one by one like `tr`; the first failing position
gives the verdict (`pos<k>:` names it) -/
def judgeSeq (fields : List String) (rhs : String) : String :=
  let defs := (fields.drop 1).dropLast
  let xy := tokens (fields.getLast?.getD "")
  let outs := rhs.splitOn " ;; "
  let cls := "trs-" ++ "-".intercalate (defs.map projOf) ++ ":" ++ String.join (defs.map datumTag)
  let rec go : List String → List String → Nat → String
    | a :: b :: rest, o :: os, k =>
      let v := judgeTr (("tr" :: defs) ++ [a ++ " " ++ b]) o "s"
      if v.startsWith "OK" then go rest os (k + 1)
      else
        let parts := v.splitOn " "
        s!"{parts.headD "DIFF"} {cls} pos{k}:{" ".intercalate (parts.drop 2)}"
    | _ :: _ :: _, [], k => s!"DIFF {cls} result-stops-before-pos{k}"
    | _, _, _ => s!"OK {cls}"
  if xy.length % 2 != 0 || xy.isEmpty then "DIFF bad-line coordinates" else go xy outs 1

def judgeLine (line : String) : String :=
  match line.splitOn " => " with
  | [lhs, rhs] =>
    let fields := splitBar lhs
    match fields with
    | "tr" :: _ :: _ :: _ :: _ => judgeTr fields rhs
    | "trs" :: _ :: _ :: _ :: _ => judgeSeq fields rhs
    | k :: _ :: _ :: _ :: _ =>
      -- histories: extra DeriveConstants calls (`trd<k>`) / repeated parses (`trp<k>`) must not change
      -- anything, so the expected answers are those of the plain chain
      if k.startsWith "trd" || k.startsWith "trp" then judgeTr fields rhs ((k.drop 2).toString) else "DIFF bad-line unknown-case"
    | ["parse", code] => judgeParse code rhs
    | _ => "DIFF bad-line unknown-case"
  | _ => "DIFF bad-line no-arrow"

end GeomV.C09

open GeomV GeomV.C09 in
def main (args : List String) : IO Unit := do
  let out ← IO.getStdout
  match args with
  | ["judge"] => forEachLine fun l => out.putStrLn (judgeLine l)
  | ["js"] => forEachLine fun l => out.putStrLn (jsLine l)
  | _ => IO.eprintln "usage: geomv_c09 judge|js"
