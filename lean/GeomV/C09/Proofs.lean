import GeomV.C09.Lemmas
import GeomV.C09.Gen.Tables
import GeomV.C09.Gen.GoCommon
import GeomV.C09.Model
import GeomV.C09.Js
import GeomV.C09.Spec
import Mathlib.Analysis.Real.Pi.Bounds
/-!
Property theorems of C09.

(C) tables: `C09_ellipsoids`, `C09_datums`, `C09_primeMeridians`, `C09_units` — the Go table equals
    the proj4js table, key for key, exact decimals; both sides are REGENERATED from the sources on
    every run (`Gen/Tables.lean`), so the proof is about what the code says now.
(A) formula identities over ℝ, for all arguments: `go_<f>_eq_js` — the Go side is the definition
    REGENERATED from `proj/common.go` with constants folded by go/types (`Gen/GoCommon.lean`), the JS
    side is the transliteration of `lib/common/<f>.js`; `go_consts_eq_js` for the package constants;
    projection level `go_<p>_fwd_eq_js` (hand models, tied by the correspondence run).
(B) reference formulas: `snyder_*_eq` — the port's closed forms equal Snyder's textual forms.

What is NOT here (numeric evidence instead): IEEE rounding, Go `math` vs libm, the truncation of the
transverse Mercator series against Karney–Krüger, convergence of the iterative inverses.
-/
set_option linter.unusedSimpArgs false
set_option linter.unusedTactic false
set_option linter.unreachableTactic false
set_option linter.unusedVariables false
namespace GeomV.C09
open GeomV.C09

/-! ## (C) tables -/

/-- clause (C), ellipsoids: the table of `proj/EllipsoidDef.go` equals `lib/constants/Ellipsoid.js`,
key for key, every number as an exact decimal (both regenerated from the sources on every run). -/
theorem C09_ellipsoids : Gen.goEllipsoids = Gen.jsEllipsoids := by decide

/-- clause (C), datums: `proj/DatumDef.go` = `lib/constants/Datum.js` (towgs84 terms, grids, ellipse, name). -/
theorem C09_datums : Gen.goDatums = Gen.jsDatums := by decide

/-- clause (C), prime meridians: `proj/PrimeMeridian.go` = `lib/constants/PrimeMeridian.js` (degrees). -/
theorem C09_primeMeridians : Gen.goPrimeMeridians = Gen.jsPrimeMeridians := by decide

/-- clause (C), units: `proj/units.go` = `lib/constants/units.js` (`1200/3937` kept as a fraction). -/
theorem C09_units : Gen.goUnits = Gen.jsUnits := by decide

/-- non-vacuity: the tables are not empty and carry the known rows -/
example : Gen.goEllipsoids.length = 43 ∧ Gen.goDatums.length = 16 ∧ Gen.goPrimeMeridians.length = 13 ∧
    lookupNum Gen.goUnits "us-ft" = some ⟨1200, 3937, 0⟩ := by decide

/-! ## (A) the helpers of proj/common.go (T1-generated) against lib/common/*.js -/

/-- `e0fn`, all x -/
theorem go_e0fn_eq_js (x : ℝ) : Gen.Go.e0fn x = Js.e0fn x := by
  unfold Gen.Go.e0fn Js.e0fn; rnum; first | done | (norm_num; try ring_nf) | ring
/-- `e1fn`, all x -/
theorem go_e1fn_eq_js (x : ℝ) : Gen.Go.e1fn x = Js.e1fn x := by
  unfold Gen.Go.e1fn Js.e1fn; rnum; first | done | (norm_num; try ring_nf) | ring
/-- `e2fn`, all x -/
theorem go_e2fn_eq_js (x : ℝ) : Gen.Go.e2fn x = Js.e2fn x := by
  unfold Gen.Go.e2fn Js.e2fn; rnum; first | done | (norm_num; try ring_nf) | ring
/-- `e3fn`, all x: false on the snapshot (`35 / 3072` is the integer constant 0: the generated
definition was `x*x*x*0`, witness x = 1); true since fix bb62cb1 -/
theorem go_e3fn_eq_js (x : ℝ) : Gen.Go.e3fn x = Js.e3fn x := by
  unfold Gen.Go.e3fn Js.e3fn; rnum; first | done | ring | (norm_num; try ring_nf)
/-- the e3 coefficient is the Snyder value and not 0 (non-vacuity of the fix) -/
theorem go_e3fn_one : Gen.Go.e3fn (1 : ℝ) = 35 / 3072 := by
  unfold Gen.Go.e3fn; rnum; norm_num
/-- `mlfn`, all arguments -/
theorem go_mlfn_eq_js (e0 e1 e2 e3 phi : ℝ) : Gen.Go.mlfn e0 e1 e2 e3 phi = Js.mlfn e0 e1 e2 e3 phi := by
  unfold Gen.Go.mlfn Js.mlfn; rnum; first | done | ring
/-- `msfnz`, all arguments -/
theorem go_msfnz_eq_js (e s c : ℝ) : Gen.Go.msfnz e s c = Js.msfnz e s c := by
  unfold Gen.Go.msfnz Js.msfnz; rnum; first | done | ring_nf
/-- `tsfnz`, all arguments -/
theorem go_tsfnz_eq_js (e phi s : ℝ) : Gen.Go.tsfnz e phi s = Js.tsfnz e phi s := by
  unfold Gen.Go.tsfnz Js.tsfnz Js.HALF_PI; rnum; first | done | (norm_num)
/-- `qsfnz`, all arguments (both branches of the `eccent > 1e-7` test) -/
theorem go_qsfnz_eq_js (e s : ℝ) : Gen.Go.qsfnz e s = Js.qsfnz e s := by
  unfold Gen.Go.qsfnz Js.qsfnz; rnum; first | done | norm_num
/-- `sign` -/
theorem go_sign_eq_js (x : ℝ) : Gen.Go.sign x = Js.sign x := by
  unfold Gen.Go.sign Js.sign; rnum; first | done | norm_num
/-- `adjust_lon` (same `SPI = 3.14159265359`, same `2π`) -/
theorem go_adjust_lon_eq_js (x : ℝ) : Gen.Go.adjust_lon x = Js.adjust_lon x := by
  unfold Gen.Go.adjust_lon Js.adjust_lon Gen.Go.sign Js.sign Js.SPI Js.TWO_PI; rnum; first | done | norm_num
/-- `adjust_lat` -/
theorem go_adjust_lat_eq_js (x : ℝ) : Gen.Go.adjust_lat x = Js.adjust_lat x := by
  unfold Gen.Go.adjust_lat Js.adjust_lat Gen.Go.sign Js.sign Js.HALF_PI; rnum; first | done | norm_num
/-- `asinz` (clamping to [-1, 1] before `asin`) -/
theorem go_asinz_eq_js (x : ℝ) : Gen.Go.asinz x = Js.asinz x := by
  unfold Gen.Go.asinz Js.asinz; rnum
  first | done | (by_cases h1 : 1 < |x| <;> by_cases h2 : 1 < x <;> simp [h1, h2])

/-- how a Go `(float64, error)` result is read in the JS sentinel convention (`-9999`, `NaN`, `null`) -/
def okOf {α : Type} : Except String α → Option α
  | .ok v => some v
  | .error _ => none

theorem okOf_ite {α : Type} (c : Prop) [Decidable c] (a : α) (r : Except String α) :
    okOf (if c then Except.ok a else r) = if c then some a else okOf r := by
  split <;> rfl

theorem go_phi2z_loop_eq_js (eccent ts eccnth : ℝ) (n : ℕ) (phi : ℝ) :
    okOf (Gen.Go.phi2z_loop eccent ts eccnth n phi) = Js.phi2zLoop eccent ts eccnth n phi := by
  induction n generalizing phi with
  | zero => rfl
  | succ n ih =>
    unfold Gen.Go.phi2z_loop Js.phi2zLoop Js.HALF_PI
    rnum
    rw [okOf_ite, ih]

/-- `phi2z`: same iteration, same 16 rounds, same 1e-10 stop; the Go error is where JS returns -9999 -/
theorem go_phi2z_eq_js (eccent ts : ℝ) : okOf (Gen.Go.phi2z eccent ts) = Js.phi2z eccent ts := by
  unfold Gen.Go.phi2z Js.phi2z Js.HALF_PI
  exact go_phi2z_loop_eq_js _ _ _ _ _

theorem go_imlfn_loop_eq_js (ml e0 e1 e2 e3 : ℝ) (n : ℕ) (phi : ℝ) :
    okOf (Gen.Go.imlfn_loop ml e0 e1 e2 e3 n phi) = Js.imlfnLoop ml e0 e1 e2 e3 n phi := by
  induction n generalizing phi with
  | zero => rfl
  | succ n ih =>
    unfold Gen.Go.imlfn_loop Js.imlfnLoop
    rnum
    rw [okOf_ite, ih]

/-- `imlfn`: same Newton iteration, 15 rounds; the Go error is where JS returns NaN -/
theorem go_imlfn_eq_js (ml e0 e1 e2 e3 : ℝ) : okOf (Gen.Go.imlfn ml e0 e1 e2 e3) = Js.imlfn ml e0 e1 e2 e3 := by
  unfold Gen.Go.imlfn Js.imlfn
  exact go_imlfn_loop_eq_js _ _ _ _ _ _ _

/-- the package constants (folded by go/types) equal the JS `var`s -/
theorem go_consts_eq_js :
    (Gen.Go.c_deg2rad : ℝ) = Js.D2R ∧ (Gen.Go.c_r2d : ℝ) = Js.R2D ∧ (Gen.Go.c_epsln : ℝ) = Js.EPSLN ∧
    (Gen.Go.c_halfPi : ℝ) = Js.HALF_PI ∧ (Gen.Go.c_fortPi : ℝ) = Js.FORTPI ∧ (Gen.Go.c_twoPi : ℝ) = Js.TWO_PI ∧
    (Gen.Go.c_sPi : ℝ) = Js.SPI ∧ (Gen.Go.c_sixth : ℝ) = Js.SIXTH ∧ (Gen.Go.c_ra4 : ℝ) = Js.RA4 ∧
    (Gen.Go.c_ra6 : ℝ) = Js.RA6 ∧ (Gen.Go.c_secToRad : ℝ) = Js.SEC_TO_RAD := by
  unfold Gen.Go.c_deg2rad Gen.Go.c_r2d Gen.Go.c_epsln Gen.Go.c_halfPi Gen.Go.c_fortPi Gen.Go.c_twoPi Gen.Go.c_sPi
    Gen.Go.c_sixth Gen.Go.c_ra4 Gen.Go.c_ra6 Gen.Go.c_secToRad Js.D2R Js.R2D Js.EPSLN Js.HALF_PI Js.FORTPI Js.TWO_PI
    Js.SPI Js.SIXTH Js.RA4 Js.RA6 Js.SEC_TO_RAD
  rnum
  norm_num

/-! ## (B) Snyder's closed forms -/
set_option maxRecDepth 4000

/-- Snyder (3-21) is the port's `mlfn ∘ (e0fn..e3fn)`: the series coefficients are the same polynomials -/
theorem snyder_mdist_eq (es phi : ℝ) :
    Spec.Ref.mDist es phi = Gen.Go.mlfn (Gen.Go.e0fn es) (Gen.Go.e1fn es) (Gen.Go.e2fn es) (Gen.Go.e3fn es) phi := by
  unfold Spec.Ref.mDist Gen.Go.mlfn Gen.Go.e0fn Gen.Go.e1fn Gen.Go.e2fn Gen.Go.e3fn
  rnum
  norm_num
  ring

/-- Snyder (14-15) is `msfnz` -/
theorem snyder_m_eq (e phi : ℝ) : Spec.Ref.m e phi = Gen.Go.msfnz e (Real.sin phi) (Real.cos phi) := by
  unfold Spec.Ref.m Gen.Go.msfnz
  rnum
  congr 2
  ring

/-- Snyder (15-9) is `tsfnz` -/
theorem snyder_t_eq (e phi : ℝ) : Spec.Ref.t e phi = Gen.Go.tsfnz e phi (Real.sin phi) := by
  unfold Spec.Ref.t Gen.Go.tsfnz
  rnum
  congr 2
  · norm_num; ring
  · norm_num; ring

/-- Snyder (3-12) is `qsfnz` (both the ellipsoidal and the spherical branch) -/
theorem snyder_q_eq (e phi : ℝ) : Spec.Ref.q e phi = Gen.Go.qsfnz e (Real.sin phi) := by
  unfold Spec.Ref.q Gen.Go.qsfnz
  rnum
  norm_num
  split_ifs with h
  · have h1 : e * e * (Real.sin phi * Real.sin phi) = e * Real.sin phi * (e * Real.sin phi) := by ring
    have h2 : e⁻¹ * (1 / 2) = 1 / 2 / e := by ring
    rw [h1, h2]
  · rfl

theorem pi_le_spi : Real.pi ≤ 3.14159265359 := by
  have := Real.pi_lt_d20; norm_num at this ⊢; linarith

/-- inside (−π, π] the port's `adjust_lon` and the reference's `wrap` are both the identity -/
theorem adjust_lon_eq_wrap (d : ℝ) (h : |d| ≤ Real.pi) : Gen.Go.adjust_lon d = Spec.Ref.wrap d := by
  have h1 := abs_le.mp h
  unfold Gen.Go.adjust_lon Spec.Ref.wrap
  rnum
  have hs : |d| ≤ 3.14159265359 := le_trans h pi_le_spi
  have a1 : ¬ (Real.pi < d) := not_lt.mpr h1.2
  have a2 : ¬ (d < -Real.pi) := not_lt.mpr h1.1
  simp [hs, a1, a2]

/-- the y of the ellipsoidal Mercator: −ln t (port) = ln[tan(π/4+φ/2)·((1−e sin φ)/(1+e sin φ))^(e/2)] (Snyder 7-7) -/
theorem snyder_merc_y (e lat : ℝ) :
    -Real.log (Gen.Go.tsfnz e lat (Real.sin lat)) =
      Real.log (Real.tan (Real.pi / 4 + lat / 2) * ((1 - e * Real.sin lat) / (1 + e * Real.sin lat)) ^ (e / 2)) := by
  unfold Gen.Go.tsfnz
  rnum
  have h : Real.pi / 4 + lat / 2 = Real.pi / 2 - 0.5 * (Real.pi / 2 - lat) := by norm_num; ring
  have h2 : (0.5 : ℝ) * e = e / 2 := by norm_num; ring
  rw [h, Real.tan_pi_div_two_sub, ← Real.log_inv, inv_div, h2, div_eq_inv_mul, mul_comm]

/-- **Snyder, Mercator (7-6, 7-7)**: on an ellipsoid, for a latitude the port accepts and a
longitude within π of the central meridian, the port's forward closure returns exactly Snyder's
closed form. -/
theorem snyder_merc_eq (s : Model.SR ℝ) (c : Model.Consts ℝ) (lon lat : ℝ)
    (hs : s.sphere = false)
    (h90 : ¬ (90 < lat * 57.29577951308232088)) (hm90 : ¬ (lat * 57.29577951308232088 < -90))
    (hp : ¬ (|(|lat| - Real.pi / 2)| ≤ 1.0e-10))
    (hd : |lon - Model.gnum s.long0| ≤ Real.pi) :
    Model.mercFwd s c lon lat =
      .ok (Spec.Ref.merc (Model.aS s) c.e c.k0 (Model.gnum s.long0) (Model.gnum s.x0) (Model.gnum s.y0) lon lat) := by
  unfold Model.mercFwd Gen.Go.Merc_forward Spec.Ref.merc
  rnum
  rw [adjust_lon_eq_wrap _ hd]
  have hy := snyder_merc_y c.e lat
  have hp' : ¬ (|(|lat| - Real.pi / 2)| ≤ 1e-10) := by norm_num at hp ⊢; exact hp
  simp only [hs, h90, hm90, hp', decide_false, Bool.or_false, Bool.false_eq_true, if_false, ite_false]
  congr 2
  rw [← hy]; ring

/-- **Snyder, equidistant conic (16-1 … 16-4, 3-21)**: constructor + forward closure of the port on an
ellipsoid return Snyder's closed form with `M` from (3-21). -/
theorem snyder_eqdc_eq (s : Model.SR ℝ) (lon lat : ℝ)
    (hs : s.sphere = false)
    (h12 : ¬ (|Model.gnum s.lat1 + Model.gnum s.lat2| < 1.0e-10))
    (hl2 : Model.gNaN s.lat2 = false)
    (hba : 0 ≤ 1 - (Model.gnum s.b / Model.gnum s.a) ^ 2)
    (hd : |lon - Model.gnum s.long0| ≤ Real.pi) :
    (Model.eqdcInit s >>= fun sc => Model.eqdcFwd sc.1 sc.2 lon lat) =
      .ok (Spec.Ref.eqdc false (Model.aS s) (Real.sqrt (1 - (Model.gnum s.b / Model.gnum s.a) ^ 2))
            (Model.gnum s.lat0) (Model.gnum s.lat1) (Model.gnum s.lat2) (Model.gnum s.long0)
            (Model.gnum s.x0) (Model.gnum s.y0) lon lat) := by
  have hE : Real.sqrt (1 - (Model.gnum s.b / Model.gnum s.a) ^ 2) * Real.sqrt (1 - (Model.gnum s.b / Model.gnum s.a) ^ 2)
      = 1 - (Model.gnum s.b / Model.gnum s.a) ^ 2 := Real.mul_self_sqrt hba
  have hpow : (Model.gnum s.b / Model.gnum s.a) ^ (2 : ℝ) = (Model.gnum s.b / Model.gnum s.a) ^ 2 := Real.rpow_two _
  have h12' : ¬ (|Model.gnum s.lat1 + Model.gnum s.lat2| < 1e-10) := by norm_num at h12 ⊢; exact h12
  unfold Model.eqdcInit Gen.Go.EqdC_init Model.eqdcFwd Gen.Go.EqdC_forward Spec.Ref.eqdc
  rnum
  simp only [Model.optNaN_eq, Model.optNum_eq, hs, hl2, h12', decide_false, Bool.false_eq_true, if_false, ite_false, bind, Except.bind, Model.aS,
    Model.Consts.nanC, hpow, hE, snyder_mdist_eq, snyder_m_eq, adjust_lon_eq_wrap _ hd]
  split_ifs <;>
  · simp only [hs, Bool.false_eq_true, if_false, ite_false, Model.aS, hpow, hE, snyder_mdist_eq, snyder_m_eq,
      adjust_lon_eq_wrap _ hd]
    congr 1
    refine Prod.ext ?_ ?_ <;> simp only [] <;> ring

/-- **Snyder, Albers equal-area conic (14-1 … 14-15, 3-12)**: constructor + forward closure of the
port return Snyder's closed form. -/
theorem snyder_aea_eq (s : Model.SR ℝ) (lon lat : ℝ)
    (h12 : ¬ (|Model.gnum s.lat1 + Model.gnum s.lat2| < 1.0e-10))
    (hd : |lon - Model.gnum s.long0| ≤ Real.pi) :
    (Model.aeaInit s >>= fun sc => Model.aeaFwd sc.1 sc.2 lon lat) =
      .ok (Spec.Ref.aea (Model.aS s) (Real.sqrt (1 - (Model.gnum s.b / Model.gnum s.a) ^ 2))
            (Model.gnum s.lat0) (Model.gnum s.lat1) (Model.gnum s.lat2) (Model.gnum s.long0)
            (Model.gnum s.x0) (Model.gnum s.y0) lon lat) := by
  have hpow : (Model.gnum s.b / Model.gnum s.a) ^ (2 : ℝ) = (Model.gnum s.b / Model.gnum s.a) ^ 2 := Real.rpow_two _
  have h12' : ¬ (|Model.gnum s.lat1 + Model.gnum s.lat2| < 1e-10) := by norm_num at h12 ⊢; exact h12
  unfold Model.aeaInit Gen.Go.AEA_init Model.aeaFwd Gen.Go.AEA_forward Spec.Ref.aea
  rnum
  simp only [Model.optNaN_eq, Model.optNum_eq, h12', decide_false, Bool.false_eq_true, if_false, ite_false, bind, Except.bind, Model.aS,
    Model.Consts.nanC, hpow, snyder_q_eq, snyder_m_eq, adjust_lon_eq_wrap _ hd]

/-- **Snyder, Lambert conformal conic (15-1 … 15-10)**: constructor + forward closure of the port
return Snyder's closed form, away from the poles. -/
theorem snyder_lcc_eq (s : Model.SR ℝ) (lon lat : ℝ)
    (hl2 : Model.gNaN s.lat2 = false) (hk0 : Model.gNaN s.k0 = false)
    (hx0 : Model.gNaN s.x0 = false) (hy0 : Model.gNaN s.y0 = false)
    (h12 : ¬ (|Model.gnum s.lat1 + Model.gnum s.lat2| < 1.0e-10))
    (hsing : ¬ (|2 * |lat| - Real.pi| ≤ 1.0e-10))
    (hcon : 1.0e-10 < |(|lat| - Real.pi / 2)|)
    (hd : |lon - Model.gnum s.long0| ≤ Real.pi) :
    (Model.lccInit s >>= fun sc => Model.lccFwd sc.1 sc.2 lon lat) =
      .ok (Spec.Ref.lcc (Model.aS s) (Real.sqrt (1 - Model.gnum s.b / Model.gnum s.a * (Model.gnum s.b / Model.gnum s.a)))
            (Model.gnum s.lat0) (Model.gnum s.lat1) (Model.gnum s.lat2) (Model.gnum s.long0) (Model.gnum s.k0)
            (Model.gnum s.x0) (Model.gnum s.y0) lon lat) := by
  have h12' : ¬ (|Model.gnum s.lat1 + Model.gnum s.lat2| < 1e-10) := by norm_num at h12 ⊢; exact h12
  have hsing' : ¬ (|2 * |lat| - Real.pi| ≤ 1e-10) := by norm_num at hsing ⊢; exact hsing
  have hcon' : (1e-10 : ℝ) < |(|lat| - Real.pi / 2)| := by norm_num at hcon ⊢; exact hcon
  unfold Model.lccInit Gen.Go.LCC_init Model.lccFwd Gen.Go.LCC_forward Spec.Ref.lcc
  rnum
  simp only [Model.optNaN_eq, Model.optNum_eq, hl2, hk0, hx0, hy0, h12', hsing', hcon', decide_false, decide_true, Bool.false_eq_true, if_false, if_true,
    ite_false, ite_true, bind, Except.bind, Model.aS, Model.Consts.nanC, snyder_t_eq, snyder_m_eq,
    adjust_lon_eq_wrap _ hd]

/-! ## projection level: the Go closures against the proj4js methods

`o` is the proj4js object after `init`, `s`/`c` the Go `*SR` after the constructor and the constants
its closures captured; the hypotheses say that they hold the same numbers (that they do is what the
correspondence run checks on every case; here the *formulas* are compared, for all positions). -/

/-- the pair a Go closure returns, read off a proj4js point -/
def xyOf (r : Except String (Js.P ℝ)) : Option (ℝ × ℝ) := match r with | .ok p => some (p.x, p.y) | .error _ => none

/-- equidistant conic forward: same formula, all (λ, φ) -/
theorem go_eqdc_fwd_eq_js (s : Model.SR ℝ) (c : Model.Consts ℝ) (o : Js.Obj ℝ) (lon lat : ℝ) (z : Option ℝ)
    (ha : Js.num o.a = Model.gnum s.a) (hx : Js.num o.x0 = Model.gnum s.x0) (hy : Js.num o.y0 = Model.gnum s.y0)
    (hl : Js.num o.long0 = Model.gnum s.long0) (hsph : o.sphere = s.sphere)
    (h0 : o.e0 = c.e0) (h1 : o.e1 = c.e1) (h2 : o.e2 = c.e2) (h3 : o.e3s = c.e3)
    (hg : o.g = c.g) (hns : o.ns = c.ns) (hrh : o.rh = c.rh) :
    okOf (Model.eqdcFwd s c lon lat) = xyOf (Js.eqdcForward o ⟨lon, lat, z⟩) := by
  unfold Model.eqdcFwd Gen.Go.EqdC_forward Js.eqdcForward Model.aS Js.aO xyOf okOf
  simp only [ha, hx, hy, hl, hsph, h0, h1, h2, h3, hg, hns, hrh, go_mlfn_eq_js, go_adjust_lon_eq_js]
  split_ifs <;> rfl

/-- Albers forward: same formula, all (λ, φ) -/
theorem go_aea_fwd_eq_js (s : Model.SR ℝ) (c : Model.Consts ℝ) (o : Js.Obj ℝ) (lon lat : ℝ) (z : Option ℝ)
    (ha : Js.num o.a = Model.gnum s.a) (hx : Js.num o.x0 = Model.gnum s.x0) (hy : Js.num o.y0 = Model.gnum s.y0)
    (hl : Js.num o.long0 = Model.gnum s.long0)
    (he : o.e3 = c.e) (hc : o.c = c.c) (hns : o.ns0 = c.ns) (hrh : o.rh = c.rh) :
    okOf (Model.aeaFwd s c lon lat) = xyOf (Js.aeaForward o ⟨lon, lat, z⟩) := by
  unfold Model.aeaFwd Gen.Go.AEA_forward Js.aeaForward Model.aS Js.aO xyOf okOf
  simp only [ha, hx, hy, hl, he, hc, hns, hrh, go_qsfnz_eq_js, go_adjust_lon_eq_js]

/-- transverse Mercator forward, ellipsoidal branch: same series, all (λ, φ) -/
theorem go_tmerc_fwd_eq_js (s : Model.SR ℝ) (c : Model.Consts ℝ) (o : Js.Obj ℝ) (lon lat : ℝ) (z : Option ℝ)
    (hs : s.sphere = false) (hso : o.sphere = false)
    (ha : Js.num o.a = Model.gnum s.a) (hx : Js.num o.x0 = Model.gnum s.x0) (hy : Js.num o.y0 = Model.gnum s.y0)
    (hl : Js.num o.long0 = Model.gnum s.long0) (hk : Js.num o.k0 = Model.gnum s.k0)
    (hes : o.es = s.es) (hep : o.ep2 = s.ep2)
    (h0 : o.e0 = c.e0) (h1 : o.e1 = c.e1) (h2 : o.e2 = c.e2) (h3 : o.e3s = c.e3) (hml : o.ml0 = c.ml0) :
    okOf (Model.tmercFwd s c lon lat) = xyOf (Js.tmercForward o ⟨lon, lat, z⟩) := by
  unfold Model.tmercFwd Gen.Go.TMerc_forward Js.tmercForward Model.aS Js.aO xyOf okOf
  simp only [hs, hso, ha, hx, hy, hl, hk, hes, hep, h0, h1, h2, h3, hml, go_mlfn_eq_js, go_adjust_lon_eq_js,
    Bool.false_eq_true, if_false, ite_false]

/-- Mercator forward: same formula wherever the port does not reject the latitude (proj4js's own
range test `lat*R2D > 90 && lat*R2D < -90 && …` can never hold) -/
theorem go_merc_fwd_eq_js (s : Model.SR ℝ) (c : Model.Consts ℝ) (o : Js.Obj ℝ) (lon lat : ℝ) (z : Option ℝ)
    (h90 : ¬ (90 < lat * 57.29577951308232088)) (hm90 : ¬ (lat * 57.29577951308232088 < -90))
    (ha : Js.num o.a = Model.gnum s.a) (hx : Js.num o.x0 = Model.gnum s.x0) (hy : Js.num o.y0 = Model.gnum s.y0)
    (hl : Js.num o.long0 = Model.gnum s.long0) (hk : Js.num o.k0 = c.k0) (he : o.e = c.e) (hsph : o.sphere = s.sphere) :
    okOf (Model.mercFwd s c lon lat) = xyOf (Js.mercForward o ⟨lon, lat, z⟩) := by
  have hc := go_consts_eq_js
  unfold Model.mercFwd Gen.Go.Merc_forward Js.mercForward Model.aS Js.aO xyOf okOf
  simp only [hc.1, hc.2.1, hc.2.2.1, hc.2.2.2.1, hc.2.2.2.2.1, ha, hx, hy, hl, hk, he, hsph, go_tsfnz_eq_js, go_adjust_lon_eq_js]
  unfold Js.R2D Js.EPSLN Js.HALF_PI Js.FORTPI
  rnum
  simp only [h90, hm90, decide_false, Bool.or_false, Bool.false_eq_true, Bool.false_and, Bool.and_false, if_false, ite_false]
  norm_num
  split_ifs <;> simp_all

/-! ## the known finding, proved on the model -/

/-- on a sphere the port's transverse Mercator forward does not depend on the false origin at all
(it is not added; the same holds for `lib/projections/tmerc.js`), so with `x_0 ≠ 0` it cannot equal
the reference, which adds it: clause (B) fails there by exactly (x_0, y_0). -/
theorem tmerc_sphere_ignores_false_origin (s : Model.SR ℝ) (c : Model.Consts ℝ) (x0 y0 : Option ℝ) (lon lat : ℝ)
    (hs : s.sphere = true) :
    Model.tmercFwd { s with x0 := x0, y0 := y0 } c lon lat = Model.tmercFwd s c lon lat := by
  unfold Model.tmercFwd Gen.Go.TMerc_forward Model.aS
  simp only [hs, if_true, ite_true]

/-- non-vacuity of the hypotheses of `snyder_merc_eq`: the equator on the central meridian -/
example : ¬ (90 < (0 : ℝ) * 57.29577951308232088) ∧ ¬ ((0 : ℝ) * 57.29577951308232088 < -90) ∧
    ¬ (|(|(0 : ℝ)| - Real.pi / 2)| ≤ 1.0e-10) ∧ |(0 : ℝ) - 0| ≤ Real.pi := by
  have hp := Real.pi_gt_three
  refine ⟨by norm_num, by norm_num, ?_, by simp [Real.pi_pos.le]⟩
  rw [abs_zero, zero_sub, abs_neg, abs_of_pos (by linarith)]
  norm_num; linarith

end GeomV.C09
