import GeomV.C09.Gen.Tables
import GeomV.C09.Gen.GoCommon
import GeomV.C09.Model
import GeomV.C09.Js
import GeomV.C09.Spec
/-!
Property theorems of C09 (part 1: the constant tables; the formula identities over ℝ are added below).
-/
namespace GeomV.C09
open GeomV.C09

/-- clause (C), ellipsoids: the table of `proj/EllipsoidDef.go` equals `lib/constants/Ellipsoid.js`,
key for key, every number as an exact decimal (both regenerated from the sources on every run). -/
theorem C09_ellipsoids : Gen.goEllipsoids = Gen.jsEllipsoids := by decide

/-- clause (C), datums: `proj/DatumDef.go` = `lib/constants/Datum.js` (towgs84 terms, grids, ellipse, name). -/
theorem C09_datums : Gen.goDatums = Gen.jsDatums := by decide

/-- clause (C), prime meridians: `proj/PrimeMeridian.go` = `lib/constants/PrimeMeridian.js` (degrees). -/
theorem C09_primeMeridians : Gen.goPrimeMeridians = Gen.jsPrimeMeridians := by decide

/-- clause (C), units: `proj/units.go` = `lib/constants/units.js` (`1200/3937` kept as a fraction). -/
theorem C09_units : Gen.goUnits = Gen.jsUnits := by decide

end GeomV.C09
